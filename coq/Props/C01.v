(* C01 — Election safety: at most one leader per term.
   Statements only.  What is proved in this file's cone:
   (a) every server grants at most one candidate per term over ANY history of events, store
       failures and crash cuts (C06_one_vote_per_term), and a granted response is backed by the
       durable record;
   (b) two strict majorities of one voter set share a voter, and so do majorities of two successive
       configurations (pigeonhole, any sizes);
   (c) quorumSize is a strict majority of the voters.
   From (a)-(c): two candidates that both collected quorumSize distinct Granted=true responses in
   the same term from voters of one configuration (or of two successive ones) are the same
   candidate - C01_two_quorums_one_candidate below, stated over abstract per-voter grant tables that
   (a) shows every real voter satisfies.
   (d) THE COMPOSED STATEMENT: over the cluster transition system of Model/Cluster.v (candidate
       loops + handlers + a network that delays, reorders, duplicates and loses, with store
       failures, crash cuts and restarts at every server), no run has two servers become leader
       in the same term - for elections held under one configuration (C01_election_safety) and
       for elections that straddle one membership change, i.e. held under either of two
       successive configurations (C01_election_safety_across_membership_change).  Not covered by
       (d): a chain of several uncommitted membership changes (the code serialises them: C07),
       and pre-vote rounds (they only gate whether electSelf runs; C14). *)
From Coq Require Import List NArith Lia.
From stdpp Require Import gmap.
From RaftModel Require Import Base Config Node NodeCodec Candidate Cluster ClusterLog ClusterCommit.
From RaftProofs Require Import ConfigProofs VoteProofs ClusterProofs ClusterCommitSpec ClusterCommitSnapSpec ClusterLeaderSpec ClusterLeaderMain.
Open Scope N_scope.

Theorem C01_one_vote_per_term_per_server : forall P r ins,
  wfr r -> functional (grants (run_hist P r ins)).
Proof. exact one_vote_per_term. Qed.
Print Assumptions C01_one_vote_per_term_per_server.

Theorem C01_majorities_intersect : forall V Q Q',
  NoDup V -> majority V Q -> majority V Q' -> exists x, In x Q /\ In x Q'.
Proof. exact majorities_intersect. Qed.
Print Assumptions C01_majorities_intersect.

Theorem C01_adjacent_majorities_intersect : forall cur idx q new Q Q',
  check_config cur = true -> next_config cur idx q = Some new ->
  majority (voters cur) Q -> majority (voters new) Q' -> exists x, In x Q /\ In x Q'.
Proof. exact next_config_majorities_intersect. Qed.
Print Assumptions C01_adjacent_majorities_intersect.

(* A grant table: which candidate (if any) each voter granted in term T.  C06 shows that the
   Granted=true responses of any server history form such a (functional) table. *)
Definition won (granted : N -> N -> option N) (V : list N) (T cand : N) : Prop :=
  exists Q, majority V Q /\ forall v, In v Q -> granted v T = Some cand.

Theorem C01_two_quorums_one_candidate : forall granted V T c1 c2,
  NoDup V -> won granted V T c1 -> won granted V T c2 -> c1 = c2.
Proof.
  intros granted V T c1 c2 HV (Q1 & HQ1 & H1) (Q2 & HQ2 & H2).
  destruct (majorities_intersect V Q1 Q2 HV HQ1 HQ2) as (x & Hx1 & Hx2).
  specialize (H1 x Hx1). specialize (H2 x Hx2). congruence.
Qed.
Print Assumptions C01_two_quorums_one_candidate.

(* ... also when the two candidates count against two successive configurations *)
Theorem C01_two_quorums_adjacent_configurations : forall granted cur idx q new T c1 c2,
  check_config cur = true -> next_config cur idx q = Some new ->
  won granted (voters cur) T c1 -> won granted (voters new) T c2 -> c1 = c2.
Proof.
  intros granted cur idx q new T c1 c2 Hc Hn (Q1 & HQ1 & H1) (Q2 & HQ2 & H2).
  destruct (next_config_majorities_intersect cur idx q new Q1 Q2 Hc Hn HQ1 HQ2) as (x & Hx1 & Hx2).
  specialize (H1 x Hx1). specialize (H2 x Hx2). congruence.
Qed.
Print Assumptions C01_two_quorums_adjacent_configurations.

(* the number of votes a candidate waits for is a strict majority of its voters *)
Theorem C01_quorum_size_is_majority : forall c,
  let n := N.of_nat (length (voters c)) in 2 * quorum_size c > n.
Proof. intros c. apply quorum_size_majority. Qed.
Print Assumptions C01_quorum_size_is_majority.

(* ELECTION SAFETY over the composed cluster: any number of servers in any well-formed start state,
   any interleaving of timers (GTimeout), vote requests executed by their target late, repeatedly
   or never, with any store-failure pattern and crash cut (GVoteReq), responses consumed at most
   once per invocation and peer or lost (GVoteResp), and any other RPC, stray vote request,
   TimeoutNow or restart at any server (GInput): two servers never become leader of one term. *)
Theorem C01_election_safety : forall cfg g0 ls g T i i',
  NoDup (voters cfg) -> ginit_ok g0 -> grun [cfg] g0 ls = Some g ->
  In (T, i) (g_leaders g) -> In (T, i') (g_leaders g) -> i = i'.
Proof. exact election_safety. Qed.
Print Assumptions C01_election_safety.

(* ... and when the elections straddle one membership change - some servers campaign under the old
   configuration, others already under the new one (one voter added, removed, promoted or demoted,
   as nextConfiguration allows): still at most one leader per term. *)
Theorem C01_election_safety_across_membership_change : forall cur idx q new g0 ls g T i i',
  check_config cur = true -> next_config cur idx q = Some new -> NoDup (voters cur) -> NoDup (voters new) ->
  ginit_ok g0 -> grun [cur; new] g0 ls = Some g ->
  In (T, i) (g_leaders g) -> In (T, i') (g_leaders g) -> i = i'.
Proof. exact election_safety_across_change. Qed.
Print Assumptions C01_election_safety_across_membership_change.

(* non-vacuity: three servers; 1 times out, 2 and 3 execute its request, one response makes it
   leader of term 2; 3 then times out, 2 grants it term 3: two leaders, of different terms *)
Example C01_cluster_run :
  let cfg := mk_cfg 3 in
  let g0 := mkG (map (fun i => mk_node cfg i 0) [1; 2; 3]) [] [] [] in
  match grun [cfg] g0 [GTimeout 1; GVoteReq 1 2 0 []; GVoteReq 1 3 0 []; GVoteResp 1 2; GTimeout 3; GVoteReq 3 2 0 []; GVoteResp 3 2] with
  | Some g => g_leaders g = [(3, 3); (2, 1)]
  | None => False
  end.
Proof. vm_compute. reflexivity. Qed.

Example C01_nontrivial :
  let V := [1; 2; 3; 4; 5] in
  majority V [1; 2; 3] /\ majority V [3; 4; 5] /\ ~ majority V [1; 2] /\ quorum_size (map (fun i => mkSrv 0 i i) V) = 3.
Proof.
  cbv zeta. repeat split; try (repeat constructor; simpl; intuition congruence);
    try (intros x Hx; simpl in *; intuition); try (simpl; lia).
  intros (_ & _ & H). simpl in H. lia.
Qed.


(* (e) WHO ACTS AS LEADER, over all runs of the cluster with log replication, commitment and (sn) takeSnapshot
   (Model/ClusterCommit.v; statement Proofs/ClusterLeaderSpec.v, proof by a prover sub-agent): in every reachable
   state - at most one server is recorded leader of a term; a server in role Leader is recorded for its current
   term; EVERY AppendEntries request and heartbeat ever built carries as Term a term its sender was elected leader
   of, and names the sender: "no two servers send AppendEntries as leader for the same term"; and the leader a
   server advertises was elected for that server's current term (C18).  InstallSnapshot requests are not part of
   this system (Model/ClusterSnap.v). *)
Theorem C01_only_the_elected_leader_acts_as_leader_all_runs : forall sn cfg g0 ls g,
  cinit_snap_ok cfg g0 -> nobody_advertised g0 -> Forall label_ok ls -> crun sn [cfg] g0 ls = Some g ->
  one_leader_per_term g /\ ae_senders_are_leaders g /\ advertised_leaders_are_leaders g /\ leaders_are_recorded g.
Proof. exact leaders_faithful_all_runs. Qed.
Print Assumptions C01_only_the_elected_leader_acts_as_leader_all_runs.
