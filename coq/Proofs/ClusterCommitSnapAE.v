(* ClusterCommitSnapAE.v — the appendEntries handler on a server that may run on a snapshot: which
   successful term / delete / store operations its trace holds (every crash image is the replay of a
   prefix of them), why the previous entry matched (prev_ok), and the cached last-log key of the
   state it returns.  The analogue of Proofs/ClusterCommitAE.v without "lastSnapshotIndex = 0". *)
From Coq Require Import List NArith Bool Lia.
From stdpp Require Import gmap.
From RaftModel Require Import Base Config Compaction Node NodeCodec.
From RaftProofs Require Import VoteProofs AdvLeaderProofs AppendProofs RecoverProofs
  ClusterLogSpec ClusterLogChain ClusterLogNode ClusterLogCut ClusterLogVote ClusterLogAppend
  ClusterCommitAE ClusterCommitInv ClusterCommitSnapLog.
Open Scope N_scope.

(* "Verify the last log entry" passed *)
Definition prev_ok (s : nstate) (a : areq) : Prop :=
  aq_prevIdx a = 0 \/ (aq_prevIdx a, aq_prevTerm a) = last_entry s \/ (aq_prevIdx a, aq_prevTerm a) = bk s \/
  exists pe, d_log s !! aq_prevIdx a = Some pe /\ e_term pe = aq_prevTerm a.

Lemma prev_check_ok s2 a : prev_check s2 a = Some true -> prev_ok s2 a.
Proof.
  unfold prev_check, prev_ok. destruct (N.ltb_spec 0 (aq_prevIdx a)) as [Hpos|]; [|intros _; left; lia].
  destruct (last_entry s2) as [li lt] eqn:El.
  destruct (N.eqb_spec (aq_prevIdx a) li) as [E|_].
  { intros H. inversion H as [H1]. apply N.eqb_eq in H1. right. left. congruence. }
  destruct (N.eqb_spec (aq_prevIdx a) (v_lastSnapIdx s2)) as [E|_].
  { intros H. inversion H as [H1]. apply N.eqb_eq in H1. right. right. left. rewrite bk_pos by lia. congruence. }
  destruct (d_log s2 !! aq_prevIdx a) as [pe|] eqn:Ep; [|discriminate].
  intros H. inversion H as [H1]. apply N.eqb_eq in H1. right. right. right. exists pe. auto.
Qed.

(* es = dup ++ news: the duplicates are stored with the same terms; the new entries lie beyond the
   cached last index (store), or the first of them conflicts at c (delete c..top, then store) *)
Definition shapeS (m : gmap N entry) (top : N) (a : areq) (dup news : list entry) (ext : list ev) : Prop :=
  aq_entries a = dup ++ news /\ news <> [] /\
  (forall e, In e dup -> exists se, m !! e_idx e = Some se /\ e_term se = e_term e) /\
  ((ext = [EStore news true] /\ forall e, In e news -> top < e_idx e) \/
   (exists c, first_conflict m (aq_entries a) = Some c /\ c = e_idx (hd (mkE 0 0 0 0) news) /\ c <= top /\
      (ext = [EDelete c top true] \/ ext = [EDelete c top true; EStore news true]))).

(* the cached last-log key after the operations ext *)
Definition ext_key (a : areq) (news : list entry) (k : N * N) (ext : list ev) : N * N :=
  fold_left (fun k e => match e with EStore es true => key (last_of es) | EDelete _ _ true => conflict_pred a news | _ => k end) ext k.

Definition cont_shapeS (s2 : nstate) (tr1 : list ev) (a : areq) (c : ae_cont) : Prop :=
  exists ext, tlf (cont_tr tr1 c) = tlf tr1 ++ ext /\
    ((ext = [] /\ forall st, cont_st c = Some st -> tlp st = tlp s2 /\ topk st = topk s2) \/
     (exists dup news, shapeS (d_log s2) (v_lastLogIdx s2) a dup news ext /\
        forall st, cont_st c = Some st -> tlp st = fold_left tl_apply ext (tlp s2) /\ topk st = ext_key a news (topk s2) ext)).

(* store_new after ext3 (nothing, or the delete) *)
Lemma store_new_shapeS P fr lc s2 s3 tr3 fs3 news tr1 ext3 :
  tlf tr3 = tlf tr1 ++ ext3 -> tlp s3 = fold_left tl_apply ext3 (tlp s2) ->
  let c := store_new P fr lc s3 tr3 fs3 news in
  (tlf (cont_tr tr1 c) = tlf tr1 ++ ext3 /\
   forall st, cont_st c = Some st -> tlp st = fold_left tl_apply ext3 (tlp s2) /\ topk st = topk s3) \/
  (tlf (cont_tr tr1 c) = tlf tr1 ++ ext3 ++ [EStore news true] /\
   forall st, cont_st c = Some st -> tlp st = fold_left tl_apply (ext3 ++ [EStore news true]) (tlp s2) /\
                                     topk st = key (last_of news)).
Proof.
  intros Htr Hst. cbv zeta. unfold store_new.
  pose proof (do_stage_tlf P s3 (N.min lc (e_idx (last_of news)))) as Ks.
  pose proof (do_stage_keep P s3 (N.min lc (e_idx (last_of news)))) as ((Kl & _ & Ki & Kti & _) & Kt & _).
  destruct (do_stage P s3 _) as [s4 trs]. simpl in Ks, Kl, Kt, Ki, Kti.
  unfold do_store. destruct (next_fail fs3) as [f fs5]. destruct f; cbn [negb cont_tr cont_st].
  - left. split; [rewrite !tlf_app, Htr, Ks; simpl; rewrite app_nil_r; reflexivity|].
    intros st E. inversion E; subst st. split; [rewrite <- Hst; unfold tlp; rewrite Kl, Kt; reflexivity|].
    unfold topk. rewrite Ki, Kti. reflexivity.
  - right. split; [rewrite !tlf_app, Htr, Ks; simpl; rewrite <- app_assoc; reflexivity|].
    intros st E. inversion E; subst st. split; [|reflexivity].
    rewrite fold_left_app, <- Hst. cbn [fold_left tl_apply].
    match goal with |- tlp (set_lastlog (fold_left _ _ ?S6) _ _) = _ =>
      destruct (fold_config_keep P news S6) as [(F1 & _) Ft] end.
    unfold tlp. cbn [d_term d_log set_lastlog]. rewrite F1, Ft. cbn [d_term d_log set_log fst snd]. rewrite Kl, Kt. reflexivity.
Qed.

Lemma ae_entries_shapeS P fr s2 tr1 fs1 a :
  cache_ok s2 -> contig (aq_prevIdx a) (aq_entries a) ->
  cont_shapeS s2 tr1 a (ae_entries P fr s2 tr1 fs1 a).
Proof.
  intros Hcache Hc. unfold ae_entries.
  assert (Hsame : forall (c : ae_cont), cont_tr tr1 c = tr1 -> cont_st c = Some s2 -> cont_shapeS s2 tr1 a c).
  { intros c E1 E2. exists []. rewrite E1, app_nil_r. split; [reflexivity|]. left. split; [reflexivity|].
    intros st E. rewrite E2 in E. inversion E; subst. split; reflexivity. }
  destruct (aq_entries a) as [|e0 es0] eqn:Ees; [apply Hsame; reflexivity|].
  rewrite <- Ees in *. clear Ees e0 es0.
  pose proof (scan_spec (d_log s2) (v_lastLogIdx s2) (aq_entries a) (aq_prevIdx a) Hc Hcache) as Hs.
  destruct (scan_entries (d_log s2) (v_lastLogIdx s2) (aq_entries a)) as [news|c news| |]; try (apply Hsame; reflexivity).
  - destruct Hs as (_ & dup & Hes & Hnn & Hdup & Hnew).
    pose proof (store_new_shapeS P fr (aq_commit a) s2 s2 tr1 fs1 news tr1 [] (eq_sym (app_nil_r _)) eq_refl) as Hst.
    cbv zeta in Hst. destruct Hst as [[H1 H2]|[H1 H2]].
    + exists []. split; [exact H1|]. left. split; [reflexivity|exact H2].
    + exists [EStore news true]. split; [exact H1|]. right. exists dup, news. split.
      * split; [exact Hes|]. split; [exact Hnn|]. split; [exact Hdup|]. left. auto.
      * intros st E. destruct (H2 st E) as [A B]. split; [exact A|rewrite B; reflexivity].
  - destruct Hs as (Hfc & dup & Hes & Hnn & Hc0 & Hcl & Hdup).
    unfold do_delete. destruct (next_fail fs1) as [f fs3]. destruct f; cbn [negb].
    { exists []. cbn [cont_tr cont_st]. split; [rewrite tlf_app; simpl; reflexivity|]. left. split; [reflexivity|].
      intros st E. inversion E; subst. split; reflexivity. }
    destruct (conflict_pred a news) as [pi pt] eqn:Ecp.
    match goal with |- context [store_new P fr (aq_commit a) ?S3 ?TR3 fs3 news] =>
      pose proof (store_new_shapeS P fr (aq_commit a) s2 S3 TR3 fs3 news tr1 [EDelete c (v_lastLogIdx s2) true]) as Hst end.
    cbv zeta in Hst. destruct Hst as [[H1 H2]|[H1 H2]].
    + rewrite tlf_app. reflexivity.
    + destruct (c <=? v_latestIdx _); reflexivity.
    + exists [EDelete c (v_lastLogIdx s2) true]. split; [exact H1|]. right. exists dup, news. split.
      * split; [exact Hes|]. split; [exact Hnn|]. split; [exact Hdup|]. right. exists c. repeat (split; [assumption|]). left. reflexivity.
      * intros st E. destruct (H2 st E) as [A B]. split; [exact A|]. rewrite B. unfold ext_key. simpl. rewrite Ecp.
        destruct (c <=? v_latestIdx _); reflexivity.
    + exists [EDelete c (v_lastLogIdx s2) true; EStore news true]. split; [exact H1|]. right. exists dup, news. split.
      * split; [exact Hes|]. split; [exact Hnn|]. split; [exact Hdup|]. right. exists c. repeat (split; [assumption|]). right. reflexivity.
      * intros st E. destruct (H2 st E) as [A B]. split; [exact A|]. rewrite B. reflexivity.
Qed.

Lemma ae_commit_tlfS okr s8 tr8 fs8 a : tlf (trace_of (ae_commit okr s8 tr8 fs8 a)) = tlf tr8 /\
  forall st, done_st (ae_commit okr s8 tr8 fs8 a) = Some st -> tlp st = tlp s8 /\ topk st = topk s8.
Proof.
  unfold ae_commit. destruct ((0 <? aq_commit a) && (v_commit s8 <? aq_commit a)).
  2:{ split; [reflexivity|]. intros st E. inversion E; split; reflexivity. }
  cbv zeta. destruct (v_commit s8 <? _).
  2:{ split; [reflexivity|]. intros st E. inversion E; split; reflexivity. }
  match goal with |- context [process_logs ?S ?I] => destruct (process_logs S I) as [[s11 tra]|] eqn:EP end.
  2:{ split; [reflexivity|]. intros st E. discriminate. }
  apply process_logs_keep in EP. destruct EP as ((Kl & _ & Ki & Kti & _) & Kt & Ktr). cbn [trace_of done_st].
  split; [rewrite tlf_app, Ktr, app_nil_r; reflexivity|].
  intros st E. inversion E; subst st. unfold tlp, topk. rewrite Kl, Kt, Ki, Kti. destruct (v_latestIdx _ <=? _); split; reflexivity.
Qed.

Definition body_shapeS (s2 : nstate) (a : areq) (tr1 : list ev) {R} (o : outcome R) : Prop :=
  exists ext, tlf (trace_of o) = tlf tr1 ++ ext /\
    ((ext = [] /\ forall st, done_st o = Some st -> tlp st = tlp s2 /\ topk st = topk s2) \/
     (prev_ok s2 a /\ exists dup news, shapeS (d_log s2) (v_lastLogIdx s2) a dup news ext /\
        forall st, done_st o = Some st -> tlp st = fold_left tl_apply ext (tlp s2) /\ topk st = ext_key a news (topk s2) ext)).

Lemma ae_body_shapeS P s0 s2 rt tr1 fs1 a :
  cache_ok s2 -> contig (aq_prevIdx a) (aq_entries a) -> body_shapeS s2 a tr1 (ae_body P s0 s2 rt tr1 fs1 a).
Proof.
  intros Hcache Hc. unfold ae_body.
  assert (Hsame : forall r fs, body_shapeS s2 a tr1 (Done s2 r tr1 fs : outcome aresp)).
  { intros r fs. exists []. simpl. rewrite app_nil_r. split; [reflexivity|]. left. split; [reflexivity|].
    intros st E. inversion E; split; reflexivity. }
  destruct (prev_check s2 a) as [[|]|] eqn:Epc; try apply Hsame.
  pose proof (prev_check_ok s2 a Epc) as Hpk.
  pose proof (ae_entries_shapeS P (mkAResp rt (last_index s0) false false false) s2 tr1 fs1 a Hcache Hc) as Hae.
  destruct (ae_entries P _ s2 tr1 fs1 a) as [[[[s8 tr8] fs8]|]|[[[resp s'] tr'] fs']];
    destruct Hae as (ext & E1 & E2); cbn [cont_tr cont_st] in E1, E2; exists ext.
  - destruct (ae_commit_tlfS (mkAResp rt (last_index s0) true false false) s8 tr8 fs8 a) as [A1 A2].
    rewrite A1. split; [exact E1|]. destruct E2 as [[-> E3]|(dup & news & Hsh & E3)].
    + left. split; [reflexivity|]. intros st Hst. destruct (A2 st Hst) as [-> ->]. apply E3. reflexivity.
    + right. split; [exact Hpk|]. exists dup, news. split; [exact Hsh|].
      intros st Hst. destruct (A2 st Hst) as [-> ->]. apply E3. reflexivity.
  - split; [exact E1|]. destruct E2 as [[-> E3]|(dup & news & Hsh & E3)].
    + left. split; [reflexivity|]. intros st Hst. discriminate.
    + right. split; [exact Hpk|]. exists dup, news. split; [exact Hsh|]. intros st Hst. discriminate.
  - split; [exact E1|]. destruct E2 as [[-> E3]|(dup & news & Hsh & E3)].
    + left. split; [reflexivity|]. intros st Hst. simpl in Hst. inversion Hst; subst. apply E3. reflexivity.
    + right. split; [exact Hpk|]. exists dup, news. split; [exact Hsh|].
      intros st Hst. simpl in Hst. inversion Hst; subst. apply E3. reflexivity.
Qed.

(* the whole handler: an optional term write to the request's term, then the store part *)
Theorem append_shapeS P s fs a : wfu s -> cache_ok s -> contig (aq_prevIdx a) (aq_entries a) ->
  exists pre ext, tlf (trace_of (append_entries P s fs a)) = pre ++ ext /\
    ((pre = [] /\ (ext = [] \/ d_term s = aq_term a)) \/ (pre = [ESetTerm (aq_term a) true] /\ d_term s <= aq_term a)) /\
    ((ext = [] /\ forall st, done_st (append_entries P s fs a) = Some st ->
                    tlp st = fold_left tl_apply pre (tlp s) /\ topk st = topk s) \/
     (prev_ok s a /\ exists dup news, shapeS (d_log s) (v_lastLogIdx s) a dup news ext /\
        forall st, done_st (append_entries P s fs a) = Some st ->
          tlp st = fold_left tl_apply (pre ++ ext) (tlp s) /\ topk st = ext_key a news (topk s) ext)).
Proof.
  intros [Hwd Hvt] Hcache Hc. unfold append_entries.
  destruct (N.ltb_spec (aq_term a) (v_term s)) as [Hlt|Hge].
  { exists [], []. split; [reflexivity|]. split; [left; split; [reflexivity|left; reflexivity]|]. left. split; [reflexivity|].
    intros st E. inversion E; split; reflexivity. }
  set (bump := (v_term s <? aq_term a) || (negb (v_role s =? Follower) && negb (v_transfer s))).
  destruct bump eqn:Eb.
  - unfold do_set_term. destruct (next_fail fs) as [f fs1]. destruct f.
    { exists [], []. split; [reflexivity|]. split; [left; split; [reflexivity|left; reflexivity]|]. left. split; [reflexivity|].
      intros st E. discriminate. }
    set (s2 := set_leader (set_vol_term (set_durable_term (set_state s Follower) (aq_term a)) (aq_term a)) (aq_addr a) (aq_id a)).
    destruct (ae_body_shapeS P s s2 (aq_term a) [ESetTerm (aq_term a) true] fs1 a Hcache Hc) as (ext & E1 & E2).
    exists [ESetTerm (aq_term a) true], ext. split; [exact E1|]. split; [right; split; [reflexivity|lia]|].
    destruct E2 as [[-> E3]|(Hpk & dup & news & Hsh & E3)].
    + left. split; [reflexivity|]. intros st Hst. destruct (E3 st Hst) as [-> ->]. split; reflexivity.
    + right. split; [exact Hpk|]. exists dup, news. split; [exact Hsh|].
      intros st Hst. destruct (E3 st Hst) as [-> ->]. split; reflexivity.
  - assert (Heq : d_term s = aq_term a).
    { unfold bump in Eb. apply orb_false_elim in Eb. destruct Eb as [Eb _]. apply N.ltb_ge in Eb. lia. }
    set (s2 := set_leader s (aq_addr a) (aq_id a)).
    destruct (ae_body_shapeS P s s2 (v_term s) [] fs a Hcache Hc) as (ext & E1 & E2).
    exists [], ext. split; [exact E1|]. split; [left; split; [reflexivity|right; exact Heq]|].
    destruct E2 as [[-> E3]|(Hpk & dup & news & Hsh & E3)].
    + left. split; [reflexivity|]. intros st Hst. destruct (E3 st Hst) as [-> ->]. split; reflexivity.
    + right. split; [exact Hpk|]. exists dup, news. split; [exact Hsh|].
      intros st Hst. destruct (E3 st Hst) as [-> ->]. split; reflexivity.
Qed.

(* ---------------------------------------------------------------- what the store part does to a log *)
(* m' is the log and k' the cached last-log key after the delete / store operations of the handler *)
Definition ae_logS (m : gmap N entry) (top : N) (a : areq) (m' : gmap N entry) (k' : N * N) : Prop :=
  exists dup news, aq_entries a = dup ++ news /\ news <> [] /\
    (forall e, In e dup -> exists se, m !! e_idx e = Some se /\ e_term se = e_term e) /\
    ((m' = log_store m news /\ k' = key (last_of news) /\ forall e, In e news -> top < e_idx e) \/
     (exists c, first_conflict m (aq_entries a) = Some c /\ c = e_idx (hd (mkE 0 0 0 0) news) /\ c <= top /\
        ((m' = log_delete m c top /\ k' = conflict_pred a news) \/
         (m' = log_store (log_delete m c top) news /\ k' = key (last_of news))))).

Lemma ext_prefixS m top a dup news ext t k j : shapeS m top a dup news ext ->
  (fold_left tl_apply (firstn j ext) (t, m) = (t, m) /\ ext_key a news k (firstn j ext) = k) \/
  exists m', fold_left tl_apply (firstn j ext) (t, m) = (t, m') /\ ae_logS m top a m' (ext_key a news k (firstn j ext)).
Proof.
  intros (Hes & Hnn & Hdup & [[-> Hnew]|(c & Hfc & Hc & Hcl & [->| ->])]).
  - destruct j as [|[|j]]; [left; split; reflexivity| |]; right; exists (log_store m news); (split; [reflexivity|]);
      exists dup, news; repeat (split; [assumption|]); left; auto.
  - destruct j as [|[|j]]; [left; split; reflexivity| |]; right; exists (log_delete m c top); (split; [reflexivity|]);
      exists dup, news; repeat (split; [assumption|]); right; exists c; repeat (split; [assumption|]); left; auto.
  - destruct j as [|[|[|j]]]; [left; split; reflexivity| | |]; right.
    + exists (log_delete m c top). split; [reflexivity|].
      exists dup, news. repeat (split; [assumption|]). right. exists c. repeat (split; [assumption|]). left. auto.
    + exists (log_store (log_delete m c top) news). split; [reflexivity|].
      exists dup, news. repeat (split; [assumption|]). right. exists c. repeat (split; [assumption|]). right. auto.
    + exists (log_store (log_delete m c top) news). split; [reflexivity|].
      exists dup, news. repeat (split; [assumption|]). right. exists c. repeat (split; [assumption|]). right. auto.
Qed.

(* every prefix of the handler's (term, log) operations, applied to the state it started from;
   k is the cached last-log key that goes with the log reached *)
Definition ae_reachS (s : nstate) (a : areq) (d : N * gmap N entry) (k : N * N) : Prop :=
  (d = tlp s /\ k = topk s) \/
  (d_term s <= aq_term a /\ fst d = aq_term a /\
   ((snd d = d_log s /\ k = topk s) \/ (prev_ok s a /\ ae_logS (d_log s) (v_lastLogIdx s) a (snd d) k))).

Theorem append_reachS P s fs a : wfu s -> cache_ok s -> contig (aq_prevIdx a) (aq_entries a) ->
  (forall j, exists k, ae_reachS s a (fold_left tl_apply (firstn j (tlf (trace_of (append_entries P s fs a)))) (tlp s)) k) /\
  (forall st, done_st (append_entries P s fs a) = Some st -> ae_reachS s a (tlp st) (topk st)).
Proof.
  intros Hw Hcache Hc.
  destruct (append_shapeS P s fs a Hw Hcache Hc) as (pre & ext & Htr & Hpre & Hext).
  assert (Hpre0 : forall j, ae_reachS s a (fold_left tl_apply (firstn j pre) (tlp s)) (topk s)).
  { intros j. unfold tlp. destruct Hpre as [[-> _]|[-> Hle]]; [destruct j; left; split; reflexivity|].
    destruct j as [|j]; [left; split; reflexivity|]. destruct j; right; simpl; auto. }
  destruct Hext as [[-> Hst]|(Hpk & dup & news & Hsh & Hst)].
  { rewrite app_nil_r in Htr. split.
    - intros j. rewrite Htr. exists (topk s). apply Hpre0.
    - intros st E. destruct (Hst st E) as [-> ->]. rewrite <- (firstn_all pre). apply Hpre0. }
  assert (Hall : forall j, ae_reachS s a (fold_left tl_apply (firstn j (pre ++ ext)) (tlp s))
                                   (ext_key a news (topk s) (firstn (j - length pre) ext))).
  { intros j. unfold tlp. destruct Hpre as [[-> He]|[-> Hle]].
    - simpl app. simpl length. rewrite Nat.sub_0_r.
      destruct He as [->|Heq]; [destruct j; left; split; reflexivity|].
      destruct (ext_prefixS (d_log s) (v_lastLogIdx s) a dup news ext (d_term s) (topk s) j Hsh) as [[E1 E2]|(m' & E & Hm')].
      + rewrite E1, E2. left. split; reflexivity.
      + rewrite E. right. simpl. split; [lia|]. split; [exact Heq|]. right. auto.
    - destruct j as [|j]; [left; split; reflexivity|]. cbn [app firstn fold_left tl_apply fst snd length].
      replace (S j - 1)%nat with j by lia.
      destruct (ext_prefixS (d_log s) (v_lastLogIdx s) a dup news ext (aq_term a) (topk s) j Hsh) as [[E1 E2]|(m' & E & Hm')].
      + rewrite E1, E2. right. simpl. auto.
      + rewrite E. right. simpl. auto. }
  split.
  - intros j. rewrite Htr. eexists. apply Hall.
  - intros st E. destruct (Hst st E) as [-> ->]. rewrite <- (firstn_all (pre ++ ext)) at 1.
    pose proof (Hall (length (pre ++ ext))) as H. rewrite app_length in H.
    replace (length pre + length ext - length pre)%nat with (length ext) in H by lia. rewrite firstn_all in H.
    rewrite app_length. exact H.
Qed.
