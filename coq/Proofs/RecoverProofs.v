(* Crash recovery (C10) and the order in which entries reach the FSM (C02, stream part). *)
From Coq Require Import List NArith Bool Lia.
From stdpp Require Import gmap.
From RaftModel Require Import Base Config Compaction Node.
Open Scope N_scope.

(* ---------------------------------------------------------------- processLogs hands over exactly
   log(lastApplied, index], in increasing index order, each entry once *)
Lemma collect_logs_spec m : forall n a es,
  collect_logs m a n = Some es ->
  length es = n /\
  forall k, (k < n)%nat -> m !! (a + 1 + N.of_nat k) = Some (nth k es (mkE 0 0 0 0)).
Proof.
  induction n as [|n IH]; intros a es H; simpl in H.
  - inversion H; subst. split; [reflexivity|]. intros k Hk. lia.
  - destruct (m !! (a + 1)) as [e|] eqn:Hm; [|discriminate].
    destruct (prepare_kind (e_ty e) =? 3); [discriminate|].
    destruct (collect_logs m (a + 1) n) as [r|] eqn:Hr; [|discriminate].
    inversion H; subst. destruct (IH _ _ Hr) as [IH1 IH2]. split; [simpl; lia|].
    intros k Hk. destruct k as [|k]; simpl.
    + rewrite N.add_0_r. exact Hm.
    + replace (a + 1 + N.pos (Pos.of_succ_nat k)) with (a + 1 + 1 + N.of_nat k) by lia.
      apply IH2. lia.
Qed.

Definition handed (e : entry) : bool := prepare_kind (e_ty e) =? 1.

(* the k-th entry collected has index applied+1+k: strictly increasing by one, nothing skipped,
   nothing repeated; what reaches the FSM is the sub-sequence of the types that are handed over *)
Theorem process_logs_stream s idx s' tr :
  process_logs s idx = Some (s', tr) -> v_applied s < idx ->
  exists es,
    length es = N.to_nat (idx - v_applied s) /\
    (forall k, (k < length es)%nat -> d_log s !! (v_applied s + 1 + N.of_nat k) = Some (nth k es (mkE 0 0 0 0))) /\
    tr = flat_map fsm_events (filter handed es) /\
    v_applied s' = idx /\
    v_fsm s' = fold_left fsm_apply (filter handed es) (v_fsm s) /\
    d_log s' = d_log s.
Proof.
  unfold process_logs. intros H Hlt. destruct (N.leb_spec idx (v_applied s)); [lia|].
  destruct (collect_logs (d_log s) (v_applied s) (N.to_nat (idx - v_applied s))) as [es|] eqn:E; [|discriminate].
  inversion H; subst. destruct (collect_logs_spec _ _ _ _ E) as [L1 L2].
  exists es. split; [exact L1|]. split; [intros k Hk; apply L2; lia|]. repeat split.
Qed.

Theorem process_logs_old_index s idx : idx <= v_applied s -> process_logs s idx = Some (s, []).
Proof. intros H. unfold process_logs. destruct (N.leb_spec idx (v_applied s)); [reflexivity|lia]. Qed.

(* only commands change the FSM content, and they append their payload *)
Lemma fsm_apply_command fsm e : e_ty e = LogCommand -> fsm_apply fsm e = fsm ++ [e_data e].
Proof. intros H. unfold fsm_apply. rewrite H. reflexivity. Qed.

(* ---------------------------------------------------------------- NewRaft *)
Definition durable_eq (a b : nstate) : Prop :=
  d_term a = d_term b /\ d_vterm a = d_vterm b /\ d_vcand a = d_vcand b /\ d_log a = d_log b /\
  d_staged a = d_staged b /\ d_pcommit a = d_pcommit b /\ d_snaps a = d_snaps b.

Lemma durable_eq_refl a : durable_eq a a.
Proof. repeat split. Qed.

Lemma durable_eq_trans a b c : durable_eq a b -> durable_eq b c -> durable_eq a c.
Proof. unfold durable_eq. intuition congruence. Qed.

Lemma process_logs_durable s idx s' tr : process_logs s idx = Some (s', tr) -> durable_eq s' s.
Proof.
  unfold process_logs. destruct (idx <=? v_applied s).
  - intros H; inversion H; apply durable_eq_refl.
  - destruct (collect_logs _ _ _); [|discriminate]. intros H; inversion H; repeat split.
Qed.

Lemma process_config_entry_durable P s e : durable_eq (process_config_entry P s e) s.
Proof. unfold process_config_entry. destruct (e_ty e =? LogConfiguration); repeat split. Qed.

Lemma scan_configs_durable P n : forall s from s', scan_configs P s from n = Some s' ->
  durable_eq s' s /\ v_term s' = v_term s /\ v_applied s' = v_applied s /\ v_fsm s' = v_fsm s /\
  v_lastLogIdx s' = v_lastLogIdx s /\ v_lastLogTerm s' = v_lastLogTerm s /\
  v_lastSnapIdx s' = v_lastSnapIdx s /\ v_lastSnapTerm s' = v_lastSnapTerm s /\ v_role s' = v_role s /\
  v_commit s' = v_commit s.
Proof.
  induction n as [|n IH]; intros s from s' H; simpl in H.
  - inversion H; subst. repeat split.
  - destruct (d_log s !! from) as [e|]; [|discriminate]. apply IH in H.
    destruct H as (H0 & H1 & H2 & H3 & H4 & H5 & H6 & H7 & H8 & H9).
    split; [eapply durable_eq_trans; [exact H0|apply process_config_entry_durable]|].
    unfold process_config_entry in *. destruct (e_ty e =? LogConfiguration); simpl in *; repeat split; assumption.
Qed.

(* the last step of NewRaft (finding F13): a restored commit index that covers the latest configuration
   marks it committed; only v_committed / v_committedIdx change *)
Definition rec_fin (s : nstate) : nstate :=
  if (0 <? v_commit s) && (v_latestIdx s <=? v_commit s)
  then set_committed s (v_latest s) (v_latestIdx s) else s.

Lemma rec_fin_commit0 s : v_commit s = 0 -> rec_fin s = s.
Proof. intros H. unfold rec_fin. rewrite H. reflexivity. Qed.

Lemma rec_fin_cases s : rec_fin s = s \/ rec_fin s = set_committed s (v_latest s) (v_latestIdx s).
Proof. unfold rec_fin. destruct (_ && _); auto. Qed.

Lemma scan_configs_durable_fin P n s from s' : scan_configs P s from n = Some s' ->
  durable_eq (rec_fin s') s /\ v_term (rec_fin s') = v_term s /\ v_applied (rec_fin s') = v_applied s /\
  v_fsm (rec_fin s') = v_fsm s /\
  v_lastLogIdx (rec_fin s') = v_lastLogIdx s /\ v_lastLogTerm (rec_fin s') = v_lastLogTerm s /\
  v_lastSnapIdx (rec_fin s') = v_lastSnapIdx s /\ v_lastSnapTerm (rec_fin s') = v_lastSnapTerm s /\
  v_role (rec_fin s') = v_role s /\ v_commit (rec_fin s') = v_commit s.
Proof.
  intros H. apply scan_configs_durable in H. unfold rec_fin. destruct (_ && _); exact H.
Qed.

Lemma rec_snapshot_commit s2 s3 tr3 : rec_snapshot s2 = Some (s3, tr3) -> v_commit s3 = v_commit s2.
Proof.
  unfold rec_snapshot. destruct (find sn_ok _) as [sn|].
  - intros H; inversion H; reflexivity.
  - destruct (list_snaps _); [|discriminate]. intros H; inversion H; reflexivity.
Qed.

(* without RestoreCommittedLogs the commit index is still 0 at the end of NewRaft: the last step does nothing *)
Lemma rec_fin_norc P s2 s3 tr3 from n s5 : v_commit s2 = 0 -> rec_snapshot s2 = Some (s3, tr3) ->
  scan_configs P s3 from n = Some s5 -> rec_fin s5 = s5.
Proof.
  intros H2 H3 H5. apply rec_fin_commit0. apply scan_configs_durable in H5.
  destruct H5 as (_ & _ & _ & _ & _ & _ & _ & _ & _ & ->). rewrite (rec_snapshot_commit _ _ _ H3). exact H2.
Qed.

(* What a successful NewRaft yields, for ANY durable image: *)
Definition keys_ok (m : gmap N entry) : Prop := forall i e, m !! i = Some e -> e_idx e = i.

Theorem recover_ok P img s tr : keys_ok (d_log img) -> recover P img = RecOk s tr ->
  durable_eq s img /\
  v_term s = d_term img /\ v_role s = Follower /\
  (* the cached tail is the last entry of the log store *)
  v_lastLogIdx s = log_last (d_log img) /\
  (if 0 <? log_last (d_log img)
   then exists e, d_log img !! log_last (d_log img) = Some e /\ v_lastLogTerm s = e_term e
   else v_lastLogTerm s = 0) /\
  (* the snapshot used is the first usable one of the listing (newest first) *)
  (match find sn_ok (list_snaps (d_snaps img)) with
   | Some sn => v_lastSnapIdx s = sn_idx sn /\ v_lastSnapTerm s = sn_term sn
   | None => v_lastSnapIdx s = 0 /\ list_snaps (d_snaps img) = []
   end) /\
  (* without RestoreCommittedLogs the FSM holds exactly that snapshot, and nothing is applied *)
  (p_rc P = false ->
   match find sn_ok (list_snaps (d_snaps img)) with
   | Some sn => v_fsm s = sn_data sn /\ v_applied s = sn_idx sn /\ tr = [ESetTerm (d_term img) true; ERestore (sn_data sn)]
   | None => v_fsm s = [] /\ v_applied s = 0 /\ tr = [ESetTerm (d_term img) true]
   end).
Proof.
  intros Hkeys. unfold recover. destruct (rec_last _) as [le|] eqn:EL; [|discriminate].
  destruct (rec_snapshot _) as [[s3 tr3]|] eqn:E3; [|discriminate].
  destruct (rec_committed P s3) as [| | |s4 tr4] eqn:E4; try discriminate.
  match goal with |- context [scan_configs P ?S ?F ?N] => destruct (scan_configs P S F N) as [s5|] eqn:ES end; [|discriminate].
  fold (rec_fin s5). intros H; inversion H; subst s tr. clear H.
  apply scan_configs_durable_fin in ES.
  destruct ES as (D5 & T5 & A5 & F5 & LI5 & LT5 & SI5 & ST5 & R5 & C5).
  (* facts about s3 *)
  set (s2 := set_lastlog (set_vol_term (fresh_volatile img) (d_term img)) (e_idx le) (e_term le)) in *.
  assert (H3 : durable_eq s3 img /\ v_term s3 = d_term img /\ v_role s3 = Follower /\
               v_lastLogIdx s3 = e_idx le /\ v_lastLogTerm s3 = e_term le /\ v_commit s3 = 0 /\
               match find sn_ok (list_snaps (d_snaps img)) with
               | Some sn => v_lastSnapIdx s3 = sn_idx sn /\ v_lastSnapTerm s3 = sn_term sn /\ v_fsm s3 = sn_data sn /\
                            v_applied s3 = sn_idx sn /\ tr3 = [ERestore (sn_data sn)]
               | None => v_lastSnapIdx s3 = 0 /\ list_snaps (d_snaps img) = [] /\ v_fsm s3 = [] /\ v_applied s3 = 0 /\ tr3 = []
               end).
  { unfold rec_snapshot in E3. change (d_snaps s2) with (d_snaps img) in E3.
    destruct (find sn_ok (list_snaps (d_snaps img))) as [sn|].
    - inversion E3; subst. repeat split.
    - destruct (list_snaps (d_snaps img)) eqn:EL2; [|discriminate]. inversion E3; subst. repeat split. }
  destruct H3 as (D3 & T3 & R3 & LI3 & LT3 & C3 & S3).
  (* facts about s4 *)
  assert (H4 : durable_eq s4 s3 /\ v_term s4 = v_term s3 /\ v_role s4 = v_role s3 /\
               v_lastLogIdx s4 = v_lastLogIdx s3 /\ v_lastLogTerm s4 = v_lastLogTerm s3 /\
               v_lastSnapIdx s4 = v_lastSnapIdx s3 /\ v_lastSnapTerm s4 = v_lastSnapTerm s3 /\
               (p_rc P = false -> s4 = s3 /\ tr4 = [])).
  { unfold rec_committed in E4. destruct (p_rc P).
    - destruct (negb (p_track P)); [discriminate|].
      match type of E4 with context [process_logs ?S ?I] => destruct (process_logs S I) as [[s4' tr4']|] eqn:EP end; [|discriminate].
      match type of E4 with context [if ?B then _ else _] => destruct B end; [discriminate|].
      inversion E4; subst.
      pose proof (process_logs_durable _ _ _ _ EP) as Dp.
      unfold process_logs in EP.
      match type of EP with context [if ?B then _ else _] => destruct B end.
      + inversion EP; subst. repeat split; try discriminate.
      + destruct (collect_logs _ _ _); [|discriminate]. inversion EP; subst.
        split; [exact Dp|]. repeat split; discriminate.
    - inversion E4; subst. repeat split; try apply durable_eq_refl. }
  destruct H4 as (D4 & T4 & R4 & LI4 & LT4 & SI4 & ST4 & NR4).
  assert (Hle : e_idx le = log_last (d_log img) /\
                (if 0 <? log_last (d_log img)
                 then exists e, d_log img !! log_last (d_log img) = Some e /\ e_term le = e_term e
                 else e_term le = 0)).
  { unfold rec_last in EL. change (d_log (set_vol_term (fresh_volatile img) (d_term img))) with (d_log img) in EL.
    destruct (N.ltb_spec 0 (log_last (d_log img))).
    - split; [apply Hkeys; exact EL|]. exists le. auto.
    - inversion EL; subst. simpl. split; [lia|reflexivity]. }
  destruct Hle as [Hle1 Hle2].
  split. { eapply durable_eq_trans; [exact D5|]. eapply durable_eq_trans; [exact D4|exact D3]. }
  split. { congruence. }
  split. { congruence. }
  split. { congruence. }
  split. { rewrite LT5, LT4, LT3. exact Hle2. }
  split.
  { destruct (find sn_ok (list_snaps (d_snaps img))) as [sn|].
    - destruct S3 as (A & B & _). split; congruence.
    - destruct S3 as (A & B & _). split; [congruence|exact B]. }
  intros Hrc. destruct (NR4 Hrc) as [-> ->].
  destruct (find sn_ok (list_snaps (d_snaps img))) as [sn|].
  - destruct S3 as (_ & _ & A & B & ->). rewrite F5, A5. auto.
  - destruct S3 as (_ & _ & A & B & ->). rewrite F5, A5. auto.
Qed.

(* log_store / log_delete keep every entry under its own index *)
Lemma keys_ok_empty : keys_ok ∅.
Proof. intros i e H. rewrite lookup_empty in H. discriminate. Qed.

Lemma keys_ok_store m es : keys_ok m -> keys_ok (log_store m es).
Proof.
  unfold log_store. revert m. induction es as [|a es IH]; intros m H; simpl; [exact H|].
  apply IH. intros i e Hl. destruct (N.eq_dec (e_idx a) i) as [E|Hne].
  - rewrite E, lookup_insert in Hl. inversion Hl; subst. reflexivity.
  - rewrite lookup_insert_ne in Hl by exact Hne. apply H. exact Hl.
Qed.

Lemma keys_ok_delete m lo hi : keys_ok m -> keys_ok (log_delete m lo hi).
Proof.
  intros H i e Hl. unfold log_delete in Hl. apply map_filter_lookup_Some in Hl. apply H. tauto.
Qed.
