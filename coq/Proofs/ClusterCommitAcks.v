(* ClusterCommitAcks.v — the futures the leader loop answers without error (Model/ClusterCommit.v step_acks):
   their indexes are at or below the commit index the step installs. *)
From Coq Require Import List NArith Bool Lia.
From stdpp Require Import gmap.
From RaftModel Require Import Base Config Compaction Commitment Node NodeCodec Candidate Leader Replicate Cluster ClusterLog ClusterCommit.
From RaftProofs Require Import RecoverProofs ClusterCommitLog.
Open Scope N_scope.

(* entries idx+1 .. idx+n, each under its own index *)
Lemma collect_futures_idx m infl : keys_ok m -> forall n idx items, collect_with_futures m infl idx n = Some items ->
  forall x, In x items -> idx < e_idx (fst x) <= idx + N.of_nat n.
Proof.
  intros Hk. induction n as [|n IH]; intros idx items H x Hx; simpl in H.
  - inversion H; subst. contradiction.
  - set (item := match lookup_future infl (idx + 1) with
                 | Some (e, fid) => Some (e, Some fid)
                 | None => match m !! (idx + 1) with Some e => Some (e, None) | None => None end
                 end) in *.
    assert (Hitem : forall e f, item = Some (e, f) -> e_idx e = idx + 1).
    { intros e f E. unfold item in E. destruct (lookup_future infl (idx + 1)) as [[e0 fid]|] eqn:El.
      - inversion E; subst. unfold lookup_future in El. apply find_some in El. destruct El as [_ El]. simpl in El. apply N.eqb_eq in El. exact El.
      - destruct (m !! (idx + 1)) as [e0|] eqn:Em; [|discriminate]. inversion E; subst. apply (Hk _ _ Em). }
    destruct item as [[e f]|]; [|discriminate].
    destruct (prepare_kind (e_ty e) =? 3); [discriminate|].
    destruct (collect_with_futures m infl (idx + 1) n) as [r|] eqn:Er; [|discriminate]. inversion H; subst items.
    destruct Hx as [<-|Hx].
    + simpl. rewrite (Hitem e f eq_refl). lia.
    + specialize (IH _ _ Er x Hx). lia.
Qed.

Lemma pair_responses_idx reqs : forall resps r, In r (pair_responses reqs resps) -> exists x, In x reqs /\ fr_index r = e_idx (fst x).
Proof.
  induction reqs as [|[e fut] rest IH]; intros resps r Hr; simpl in Hr; [contradiction|].
  destruct (should_send e); destruct fut as [fid|].
  - destruct Hr as [<-|Hr]; [exists (e, Some fid); split; [left; reflexivity|reflexivity]|].
    destruct (IH _ _ Hr) as (x & Hx & E). exists x. split; [right; exact Hx|exact E].
  - destruct (IH _ _ Hr) as (x & Hx & E). exists x. split; [right; exact Hx|exact E].
  - destruct Hr as [<-|Hr]; [exists (e, Some fid); split; [left; reflexivity|reflexivity]|].
    destruct (IH _ _ Hr) as (x & Hx & E). exists x. split; [right; exact Hx|exact E].
  - destruct (IH _ _ Hr) as (x & Hx & E). exists x. split; [right; exact Hx|exact E].
Qed.

Lemma process_logs_f_res s infl index s' tr res : keys_ok (d_log s) -> process_logs_f s infl index = Some (s', tr, res) ->
  forall r, In r res -> fr_index r <= index.
Proof.
  intros Hk. unfold process_logs_f. destruct (N.leb_spec index (v_applied s)) as [Hle|Hgt].
  - intros H; inversion H; subst. intros r [].
  - destruct (collect_with_futures _ _ _ _) as [items|] eqn:Ec; [|discriminate].
    intros H; inversion H; subst. clear H. intros r Hr.
    assert (Hit : forall x, In x items -> e_idx (fst x) <= index).
    { intros x Hx. pose proof (collect_futures_idx _ infl Hk _ _ _ Ec x Hx). lia. }
    apply in_app_iff in Hr. destruct Hr as [Hr|Hr].
    + apply in_flat_map in Hr. destruct Hr as (x & Hx & Hr). apply filter_In in Hx. destruct Hx as [Hx _].
      destruct (snd x); [|contradiction]. destruct Hr as [<-|[]]. simpl. apply Hit, Hx.
    + unfold apply_batch in Hr. destruct (pair_responses_idx _ _ _ Hr) as (x & Hx & E). apply filter_In in Hx. rewrite E. apply Hit, Hx.
Qed.

Lemma leader_commit_res ls ls2 tr res : keys_ok (d_log (l_node ls)) -> leader_commit ls = Some (ls2, tr, res) ->
  forall r, In r res -> fr_index r <= cm_commit (l_cm ls).
Proof.
  intros Hk. unfold leader_commit. set (s := l_node ls) in *. set (ci := cm_commit (l_cm ls)).
  set (s1 := set_commit s ci).
  set (s2 := if (v_commit s <? v_latestIdx s1) && (v_latestIdx s1 <=? ci) then set_committed s1 (v_latest s1) (v_latestIdx s1) else s1).
  assert (K2 : d_log s2 = d_log s) by (unfold s2; destruct ((v_commit s <? v_latestIdx s1) && (v_latestIdx s1 <=? ci)); reflexivity).
  pose proof (ready_prefix_le (l_inflight ls) ci) as Hrl.
  destruct (ready_prefix (l_inflight ls) ci) as [ready rest]. simpl in Hrl.
  destruct ready as [|r0 rr] eqn:Er.
  - intros H; inversion H; subst. intros r [].
  - rewrite <- Er in *.
    destruct (process_logs_f s2 ready _) as [[[s3 tr3] res3]|] eqn:EP; [|discriminate].
    intros H r Hr. injection H as E1 E2 E3. rewrite <- E3 in Hr.
    assert (Hk2 : keys_ok (d_log s2)) by (rewrite K2; exact Hk).
    pose proof (process_logs_f_res s2 ready _ s3 tr3 res3 Hk2 EP r Hr) as Hle.
    assert (Hin : In (last ready (mkE 0 0 0 0, 0)) ready) by (apply ClusterLogChain.last_in; rewrite Er; discriminate).
    pose proof (Hrl _ Hin). lia.
Qed.

(* what step_acks lists, for the step that cstep takes *)
Lemma step_acks_commit sn cfgs g i g' T e : cstep sn cfgs g (CCommit i) = Some g' -> In (T, e) (step_acks g (CCommit i)) ->
  exists n ld s ls2 tr res r, find_node (cnodes g) i = Some n /\ find_lead (cg_lead g) i = Some ld /\ gn_run n = Up s /\
    v_role s = Leader /\ leader_commit (mkLS s (ld_cm ld) (ld_infl ld)) = Some (ls2, tr, res) /\
    In r res /\ d_log (l_node ls2) !! fr_index r = Some e /\ T = v_term s /\
    g' = mkCG (mkLG (set_node_run (lg_g (cg_l g)) i n (Up (l_node ls2))) (lg_msgs (cg_l g)))
              (set_lead (cg_lead g) i (with_notified (with_cm ld (l_cm ls2) (l_inflight ls2)) false)) (cg_hb g) (cg_ans g).
Proof.
  intros Hstep Hin. apply cstep_commit_inv in Hstep.
  destruct Hstep as (n & ld & s & ls2 & tr & res & Hf & Hfl & Hr & Hrole & Hnt & Hlc & ->).
  unfold step_acks in Hin. unfold cnodes in Hf. rewrite Hf, Hfl, Hr, Hrole, Hnt, Hlc in Hin. cbn [N.eqb andb] in Hin.
  rewrite N.eqb_refl in Hin. cbn [andb] in Hin.
  apply in_flat_map in Hin. destruct Hin as (r & Hr' & Hin).
  destruct (fr_err r =? E_OK); [|contradiction].
  destruct (d_log (l_node ls2) !! fr_index r) as [e0|] eqn:E; [|contradiction]. destruct Hin as [Hin|[]]. inversion Hin; subst.
  exists n, ld, s, ls2, tr, res, r. unfold cnodes. repeat (split; [first [assumption|reflexivity]|]). reflexivity.
Qed.

Lemma step_acks_other g l T e : In (T, e) (step_acks g l) -> exists i, l = CCommit i.
Proof. destruct l; simpl; try contradiction. eauto. Qed.
