From Coq Require Import List NArith Bool Lia.
From RaftModel Require Import Base Compaction.
Open Scope N_scope.

Theorem compaction_range f s l t lo hi :
  compact f s l t = Some (lo, hi) ->
  lo = f /\ hi <= s /\ hi + t <= l /\ f <= hi.
Proof.
  unfold compact. destruct (N.leb_spec l t); [discriminate|].
  destruct (N.ltb_spec (N.min s (l - t)) f); [discriminate|].
  intros E; inversion E; subst. lia.
Qed.

Theorem compaction_none f s l t :
  compact f s l t = None -> l <= t \/ N.min s (l - t) < f.
Proof.
  unfold compact. destruct (N.leb_spec l t); [auto|].
  destruct (N.ltb_spec (N.min s (l - t)) f); [auto|discriminate].
Qed.

(* when something is deleted it is as much as the bound allows *)
Theorem compaction_max f s l t lo hi :
  compact f s l t = Some (lo, hi) -> hi = N.min s (l - t).
Proof.
  unfold compact. destruct (N.leb_spec l t); [discriminate|].
  destruct (N.ltb_spec (N.min s (l - t)) f); [discriminate|].
  intros E; inversion E; reflexivity.
Qed.

(* the wholesale reset: everything the store holds, and only then *)
Theorem remove_old_all f l : 0 < f -> f <= l -> remove_old f l = Some (f, l).
Proof.
  intros Hf Hl. unfold remove_old, compact.
  destruct (N.leb_spec l 0); [lia|]. rewrite N.sub_0_r, N.min_id.
  destruct (N.ltb_spec l f); [lia|reflexivity].
Qed.
