(* ClusterCommitMain.v — STATE MACHINE SAFETY, LEADER COMPLETENESS and applied <= commit <= lastIndex
   for the cluster transition system Model/ClusterCommit.v (no snapshots), with the commit rule of
   appendEntries after the fix: commit (commitIndex <= index of the last entry of the accepted request).

   Every step keeps the invariant of Proofs/ClusterCommitInv.v (ClusterCommitStep*.v), the initial
   states satisfy it (ClusterCommitInit2.v), and it implies the three statements (ClusterCommitFinal.v).

   Side conditions (Proofs/ClusterCommitSpec.v): cinit_ok (in particular RestoreCommittedLogs off and
   nobody has voted in its current term), and along the run no LogConfiguration entry is proposed
   and no stray RequestVote is injected (label_ok; Proofs/ClusterCommitCex.v shows what a forged
   vote request does).  Everything else is free: timers, vote requests and answers of real
   candidates delivered late, repeatedly or never, pre-votes, restarts, TimeoutNow, proposals,
   requests built for the follower's nextIndex with ANY lastIndex, heartbeats, deliveries in any
   order and any number of times, store failures (including DeleteRange) and crash cuts inside
   every handler, answers returning or calls given up, the leader loop committing at any time. *)
From Coq Require Import List NArith Bool Lia.
From stdpp Require Import gmap.
From RaftModel Require Import Base Config Compaction Commitment Node NodeCodec Candidate Leader Replicate Cluster ClusterLog ClusterCommit.
From RaftProofs Require Import ConfigProofs VoteProofs ClusterProofs ClusterLogSpec ClusterLogChain
  ClusterCommitSpec ClusterCommitInit ClusterCommitGhost ClusterCommitInv ClusterCommitFinal ClusterCommitInit2
  ClusterCommitStepB ClusterCommitStepG ClusterCommitStepH ClusterCommitStepI ClusterCommitStepM ClusterCommitStepP
  ClusterCommitStepS ClusterCommitStepT.
Open Scope N_scope.

Section Main.
  Variable cfg : config.
  Variable Ps : list params.
  Hypothesis HVn : NoDup (voters cfg).

  Definition Cinv (g : cgstate) : Prop := exists C LL A V, cinv cfg Ps g C LL A V.

  Theorem cstep_cinv g l g' : Cinv g -> label_ok l -> cstep false [cfg] g l = Some g' -> Cinv g'.
  Proof.
    intros (C & LL & A & V & HI) [Hnc Hnv] Hstep. destruct l as [bl|k|i j|i].
    - destruct bl as [gl|i ty data fs|i j next last|i j|k cut fs].
      + destruct gl as [i|i j cut fs|i j|j e cut fs].
        * destruct (cinv_timeout cfg Ps HVn g C LL A V i g' HI Hstep) as (C' & LL' & A' & V' & H). exists (C' ++ C), (LL' ++ LL), (A' ++ A), (V' ++ V). exact H.
        * destruct (cinv_votereq cfg Ps HVn g C LL A V i j cut fs g' HI Hstep) as (V' & H). exists C, LL, A, V'. exact H.
        * destruct (cinv_voteresp cfg Ps HVn g C LL A V i j g' HI Hstep) as (C' & LL' & A' & H). exists (C' ++ C), (LL' ++ LL), (A' ++ A), V. exact H.
        * destruct (cinv_ginput cfg Ps HVn g C LL A V j e cut fs g' HI) as (V' & H); [|exact Hstep|exists C, LL, A, V'; exact H].
          intros q ->. exact Hnv.
      + destruct (cinv_propose cfg Ps HVn g C LL A V i ty data fs g' HI Hnc Hstep) as (C' & A' & H). exists (C' ++ C), LL, (A' ++ A), V. exact H.
      + exists C, LL, A, V. apply (cinv_lsend cfg Ps g C LL A V i j next last g' HI Hstep).
      + exists C, LL, A, V. apply (cinv_lheartbeat cfg Ps g C LL A V i j g' HI Hstep).
      + destruct (cinv_deliver cfg Ps HVn g C LL A V k cut fs g' HI Hstep) as (A' & H). exists C, LL, (A' ++ A), V. exact H.
    - exists C, LL, A, V. apply (cinv_ack cfg Ps HVn g C LL A V k g' HI Hstep).
    - exists C, LL, A, V. apply (cinv_giveup cfg Ps g C LL A V i j g' HI Hstep).
    - exists C, LL, A, V. apply (cinv_commit cfg Ps HVn g C LL A V i g' HI Hstep).
  Qed.

  Theorem crun_cinv ls : forall g g', Cinv g -> Forall label_ok ls -> crun false [cfg] g ls = Some g' -> Cinv g'.
  Proof.
    induction ls as [|l r IH]; intros g g' Hinv Hls H; simpl in H.
    - inversion H; subst. exact Hinv.
    - destruct (cstep false [cfg] g l) as [g1|] eqn:E; [|discriminate]. inversion Hls as [|? ? Hl Hr]; subst.
      eapply IH; [eapply cstep_cinv; eassumption|exact Hr|exact H].
  Qed.
End Main.

(* STATE MACHINE SAFETY, LEADER COMPLETENESS, applied <= commit <= lastIndex *)
Theorem state_machine_safety : forall cfg g0 ls g,
  cinit_ok cfg g0 -> Forall label_ok ls -> crun false [cfg] g0 ls = Some g ->
  committed_agree g /\ leader_complete g /\ applied_within_commit g.
Proof.
  intros cfg g0 ls g H0 Hls Hrun. pose proof H0 as (_ & _ & _ & _ & HVn & _).
  destruct (cinit_cinv cfg g0 H0) as [C0 HI0].
  destruct (crun_cinv cfg (map gn_P (cnodes g0)) HVn ls g0 g (ex_intro _ C0 (ex_intro _ [] (ex_intro _ [] (ex_intro _ [] HI0)))) Hls Hrun)
    as (C & LL & A & V & HI).
  split; [|split].
  - apply (cinv_committed_agree cfg _ HVn g C LL A V HI).
  - apply (cinv_leader_complete cfg _ HVn g C LL A V HI).
  - apply (cinv_applied_within_commit cfg _ g C LL A V HI).
Qed.

Print Assumptions state_machine_safety.

(* non-vacuity: every initial state the driver ClusterCommit.run_clustercommit builds, for any number of
   servers and any initial logs it can express *)
Corollary state_machine_safety_driver : forall n extras ls g,
  Forall label_ok ls ->
  crun false [mk_cfg n]
    (mkCG (mkLG (mkG (map (fun p => mk_node (mk_cfg n) (N.of_nat (fst p)) (snd p)) (combine (seq 1 n) extras)) [] [] []) []) [] [] []) ls = Some g ->
  committed_agree g /\ leader_complete g /\ applied_within_commit g.
Proof. intros n extras ls g. apply state_machine_safety. apply mk_nodes_cinit. Qed.
