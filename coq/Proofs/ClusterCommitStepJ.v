(* ClusterCommitStepJ.v — the ghost history grows by one entry (dispatchLogs at a leader; the no-op
   of a new leader): the chain invariant of Proofs/ClusterCommitGhost.v is kept. *)
From Coq Require Import List NArith Bool Lia.
From stdpp Require Import gmap.
From RaftModel Require Import Base Config Node.
From RaftProofs Require Import ConfigProofs ClusterLogSpec ClusterLogChain ClusterLogNode ClusterCommitChain ClusterCommitGhost.
Open Scope N_scope.

Lemma created_cons C e p k : created C k -> created ((e, p) :: C) k.
Proof. apply created_mono. intros x Hx. right. exact Hx. Qed.

Lemma anc_cons C e p a k : anc C a k -> anc ((e, p) :: C) a k.
Proof. apply anc_mono. intros x Hx. right. exact Hx. Qed.

(* dispatchLogs at the leader of T, whose last key ck is of term T *)
Lemma chain_inv_propose C LL e ck T j tl : chain_inv C LL -> chain_ok ((e, ck) :: C) ->
  In (T, j, tl) LL -> e_term e = T -> created C ck -> snd ck = T ->
  (forall x p, In (x, p) C -> e_term x = T -> anc C (key x) ck) ->
  chain_inv ((e, ck) :: C) LL.
Proof.
  intros HI HC' Hl Het Hck Hckt Hall. pose proof (ci_ok C LL HI) as HC.
  assert (Hup : anc ((e, ck) :: C) ck (key e)) by (eapply anc_up; [left; reflexivity|reflexivity|apply anc_refl]).
  assert (Htlck : anc C tl ck).
  { destruct Hck as (y & q & Hy & Ey). assert (Eyt : e_term y = T) by (rewrite <- Hckt, <- Ey; reflexivity).
    eapply anc_trans; [apply (ci_root C LL HI T j tl y q Hl Hy Eyt)|]. eapply anc_up; [exact Hy|exact Ey|apply anc_refl]. }
  constructor.
  - exact HC'.
  - intros x p [E|H]; [inversion E; subst; right; apply created_cons, Hck|].
    destruct (ci_pred C LL HI x p H) as [->|Hc]; [left; reflexivity|right; apply created_cons, Hc].
  - apply (ci_uniq C LL HI).
  - intros T2 c2 tl2 x p Hl2 [E|H] Hxt.
    + inversion E; subst x p. rewrite Het in Hxt. subst T2. destruct (ci_uniq C LL HI _ _ _ _ _ Hl2 Hl) as [_ ->].
      apply anc_cons, Htlck.
    + apply anc_cons, (ci_root C LL HI T2 c2 tl2 x p Hl2 H Hxt).
  - intros T2 c2 tl2 x p Hl2 [E|H] Hxt.
    + inversion E; subst x p. rewrite Het in Hxt. subst T2. right. split; [exact Hckt|apply created_cons, Hck].
    + destruct (ci_step C LL HI T2 c2 tl2 x p Hl2 H Hxt) as [->|[A B]]; [left; reflexivity|right; split; [exact A|apply created_cons, B]].
  - intros x p y q [Ex|Hx] [Ey|Hy] Ht Hle.
    + inversion Ex; inversion Ey; subst. apply anc_refl.
    + exfalso. inversion Ex; subst x p. rewrite Het in Ht. pose proof (Hall y q Hy (eq_sym Ht)) as Ha.
      destruct (anc_le C _ _ HC Ha) as [L1 _]. destruct (co_idx _ HC' e ck (or_introl eq_refl)) as [L2 _].
      unfold key in L1. simpl in L1. lia.
    + inversion Ey; subst y q. rewrite Het in Ht. eapply anc_trans; [apply anc_cons, (Hall x p Hx Ht)|exact Hup].
    + apply anc_cons, (ci_lin C LL HI x p y q Hx Hy Ht Hle).
  - intros T2 c2 tl2 Hl2. destruct (ci_tl C LL HI T2 c2 tl2 Hl2) as [A [B|B]]; (split; [exact A|]); [left; exact B|right; apply created_cons, B].
  - intros T2 c2 tl2 Hl2. destruct (ci_noop C LL HI T2 c2 tl2 Hl2) as (x & Hx & Ext). exists x. split; [right; exact Hx|exact Ext].
  - intros x p [E|H]; [inversion E; subst x p; left; rewrite Het; eauto|apply (ci_base C LL HI x p H)].
Qed.

(* a new leader of T stores its no-op after its last key ck: no entry of term T existed, entries of
   terms without recorded leader are older *)
Lemma chain_inv_become C LL e ck T j : chain_inv C LL -> chain_ok ((e, ck) :: C) ->
  e_term e = T -> (ck = (0, 0) \/ created C ck) -> snd ck < T ->
  (forall c tl, ~ In (T, c, tl) LL) ->
  (forall x p, In (x, p) C -> e_term x <> T) ->
  (forall x p, In (x, p) C -> (forall c tl, ~ In (e_term x, c, tl) LL) -> e_term x < T) ->
  chain_inv ((e, ck) :: C) ((T, j, ck) :: LL).
Proof.
  intros HI HC' Het Hck Hckt Hnol Hnone Hold. pose proof (ci_ok C LL HI) as HC.
  constructor.
  - exact HC'.
  - intros x p [E|H]; [inversion E; subst; destruct Hck as [->|Hc]; [left; reflexivity|right; apply created_cons, Hc]|].
    destruct (ci_pred C LL HI x p H) as [->|Hc]; [left; reflexivity|right; apply created_cons, Hc].
  - intros T2 c tl c' tl' [E|H] [E'|H'].
    + inversion E; inversion E'; subst. auto.
    + inversion E; subst. exfalso. apply (Hnol _ _ H').
    + inversion E'; subst. exfalso. apply (Hnol _ _ H).
    + apply (ci_uniq C LL HI T2 c tl c' tl' H H').
  - intros T2 c2 tl2 x p [El|Hl2] [E|H] Hxt.
    + injection El as <- <- <-; injection E as <- <-. apply anc_refl.
    + injection El as <- <- <-. exfalso. apply (Hnone x p H Hxt).
    + inversion E; subst x p. rewrite Het in Hxt. subst T2. exfalso. apply (Hnol _ _ Hl2).
    + apply anc_cons, (ci_root C LL HI T2 c2 tl2 x p Hl2 H Hxt).
  - intros T2 c2 tl2 x p [El|Hl2] [E|H] Hxt.
    + injection El as <- <- <-; injection E as <- <-. left. reflexivity.
    + injection El as <- <- <-. exfalso. apply (Hnone x p H Hxt).
    + inversion E; subst x p. rewrite Het in Hxt. subst T2. exfalso. apply (Hnol _ _ Hl2).
    + destruct (ci_step C LL HI T2 c2 tl2 x p Hl2 H Hxt) as [->|[A B]]; [left; reflexivity|right; split; [exact A|apply created_cons, B]].
  - intros x p y q [Ex|Hx] [Ey|Hy] Ht Hle.
    + inversion Ex; inversion Ey; subst. apply anc_refl.
    + exfalso. inversion Ex; subst x p. rewrite Het in Ht. apply (Hnone y q Hy (eq_sym Ht)).
    + exfalso. inversion Ey; subst y q. rewrite Het in Ht. apply (Hnone x p Hx Ht).
    + apply anc_cons, (ci_lin C LL HI x p y q Hx Hy Ht Hle).
  - intros T2 c2 tl2 [El|Hl2].
    + injection El as <- <- <-. split; [exact Hckt|]. destruct Hck as [->|Hc]; [left; reflexivity|right; apply created_cons, Hc].
    + destruct (ci_tl C LL HI T2 c2 tl2 Hl2) as [A [B|B]]; (split; [exact A|]); [left; exact B|right; apply created_cons, B].
  - intros T2 c2 tl2 [El|Hl2].
    + injection El as <- <- <-. exists e. split; [left; reflexivity|exact Het].
    + destruct (ci_noop C LL HI T2 c2 tl2 Hl2) as (x & Hx & Ext). exists x. split; [right; exact Hx|exact Ext].
  - intros x p [E|H].
    + inversion E; subst x p. left. exists j, ck. left. rewrite Het. reflexivity.
    + destruct (ci_base C LL HI x p H) as [(c & tl & Hl)|Hb]; [left; exists c, tl; right; exact Hl|].
      right. intros T2 c2 tl2 [El|Hl2]; [|apply (Hb T2 c2 tl2 Hl2)]. injection El as <- <- <-.
      apply (Hold x p H). intros c tl Hc. specialize (Hb _ _ _ Hc). lia.
Qed.
