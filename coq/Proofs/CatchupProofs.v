(* Catch-up makes progress (C12, follower side): a follower that has installed the leader's
   snapshot accepts the AppendEntries that follows it, whatever stale, divergent or compacted
   log it held before. *)
From Coq Require Import List NArith Bool Lia.
From stdpp Require Import gmap.
From RaftModel Require Import Base Config Compaction Node.
From RaftProofs Require Import AppendProofs.
Open Scope N_scope.

(* the cached tail names an entry of the store with that term (or is empty) *)
Definition cache_consistent (s : nstate) : Prop :=
  0 < v_lastLogIdx s -> exists e, d_log s !! v_lastLogIdx s = Some e /\ e_term e = v_lastLogTerm s.

Lemma run_compaction_fields s range :
  let '(s', tr, _) := run_compaction s [] range in
  v_lastLogIdx s' = v_lastLogIdx s /\ v_lastLogTerm s' = v_lastLogTerm s /\
  v_lastSnapIdx s' = v_lastSnapIdx s /\ v_lastSnapTerm s' = v_lastSnapTerm s.
Proof. unfold run_compaction. destruct range as [[lo hi]|]; simpl; auto. Qed.

(* state right after a successful InstallSnapshot with no store failure *)
Lemma is_body_post P s2 rt tr1 q s' r tr fs' :
  cache_consistent s2 -> 0 < iq_lastIdx q ->
  is_body P s2 rt tr1 [] q = Done s' r tr fs' -> snd (fst r) = true ->
  v_lastSnapIdx s' = iq_lastIdx q /\ v_lastSnapTerm s' = iq_lastTerm q /\
  (v_lastLogIdx s' = iq_lastIdx q -> v_lastLogTerm s' = iq_lastTerm q).
Proof.
  intros Hcc Hpos Hb Hsucc. unfold is_body in Hb. simpl in Hb.
  destruct (iq_short q); [inversion Hb; subst; discriminate|].
  destruct (p_monotonic P).
  - match type of Hb with context [remove_old ?A ?B] => destruct (remove_old A B) as [[lo hi]|] end.
    + unfold do_delete in Hb. simpl in Hb. inversion Hb; subst. simpl.
      repeat split. intros E. lia.
    + inversion Hb; subst. simpl. repeat split. intros E. lia.
  - match type of Hb with context [if ?ST then _ else (?S6, [], [])] =>
      destruct ST eqn:EST; set (s6 := S6) in * end.
    + unfold do_delete in Hb. simpl in Hb.
      match type of Hb with context [run_compaction ?S ?F ?R] =>
        pose proof (run_compaction_fields S R) as Hc; destruct (run_compaction S F R) as [[s7 trc] fs4] end.
      destruct Hc as (C1 & C2 & C3 & C4). inversion Hb; subst.
      rewrite C1, C2, C3, C4. simpl. repeat split. intros E. lia.
    + match type of Hb with context [run_compaction ?S ?F ?R] =>
        pose proof (run_compaction_fields S R) as Hc; destruct (run_compaction S F R) as [[s7 trc] fs4] end.
      destruct Hc as (C1 & C2 & C3 & C4). inversion Hb; subst.
      rewrite C1, C2, C3, C4. simpl. repeat split.
      intros E. apply andb_false_iff in EST. simpl in EST. destruct EST as [EST|EST].
      * apply N.leb_gt in EST. lia.
      * assert (H0 : 0 < v_lastLogIdx s2) by lia. destruct (Hcc H0) as (e & He & Hte).
        rewrite E in He. simpl in EST. rewrite He in EST.
        apply negb_false_iff in EST. apply N.eqb_eq in EST. congruence.
Qed.

(* ... hence the AppendEntries that follows the snapshot passes the previous-entry check *)
Theorem snapshot_then_append_accepted P s2 rt tr1 q s' r tr fs' a :
  cache_consistent s2 ->
  is_body P s2 rt tr1 [] q = Done s' r tr fs' -> snd (fst r) = true ->
  aq_prevIdx a = iq_lastIdx q -> aq_prevTerm a = iq_lastTerm q ->
  forall s'', last_entry s'' = last_entry s' -> v_lastSnapIdx s'' = v_lastSnapIdx s' ->
              v_lastSnapTerm s'' = v_lastSnapTerm s' ->
  prev_check s'' a = Some true.
Proof.
  intros Hcc Hb Hsucc Hpi Hpt s'' Hle Hsi Hst.
  unfold prev_check. destruct (N.ltb_spec 0 (aq_prevIdx a)) as [Hpos|]; [|reflexivity].
  destruct (is_body_post P s2 rt tr1 q s' r tr fs' Hcc ltac:(lia) Hb Hsucc) as (A & B & C).
  rewrite Hle. unfold last_entry.
  destruct (v_lastSnapIdx s' <=? v_lastLogIdx s') eqn:G.
  - destruct (N.eqb_spec (aq_prevIdx a) (v_lastLogIdx s')) as [Eq|Ne].
    + rewrite Hpt, C by congruence. rewrite N.eqb_refl. reflexivity.
    + rewrite Hsi, A, Hpi, N.eqb_refl, Hst, B, Hpt, N.eqb_refl. reflexivity.
  - rewrite A, Hpi, N.eqb_refl, B, Hpt, N.eqb_refl. reflexivity.
Qed.
