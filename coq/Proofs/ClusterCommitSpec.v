(* ClusterCommitSpec.v — initial states and side conditions for the statements about
   Model/ClusterCommit.v (State Machine Safety, Leader Completeness, applied <= commit <= last).

   cinit_ok cfg g0:
     - linit_ok (cg_l g0) (Proofs/ClusterLogSpec.v): distinct ids, well-formed servers, nobody a
       Leader or inside runCandidate, nothing in flight, every log store a prefix of one history;
     - no leadership state, no heartbeat recorded, no answer in flight;
     - the voters of cfg are pairwise distinct (majorities of cfg intersect);
     - per server: it has not voted in its current term (a vote of the past carries no up-to-date
       check that the proof could rely on; like "nobody inside runCandidate"); RestoreCommittedLogs off (NewRaft then starts with commit index 0; the durable
       d_staged / d_pcommit are never read); a running server has commitIndex = lastApplied = 0 and
       its latest and committed configurations are cfg or still empty (NewRaft leaves `committed`
       empty when the log holds a single configuration entry);
     - every LogConfiguration entry stored anywhere decodes, at every server, to cfg.
   Runs (label_ok): LPropose never proposes a LogConfiguration entry, and no stray RequestVote is
   injected: vote requests reach a server only as the request of a real runCandidate invocation
   (GVoteReq; delivered late, repeatedly, or never).  A forged request makes a server vote without a
   genuine up-to-date check: Proofs/ClusterCommitCex.v.

   The FSM content (v_fsm, v_fsmLast) is left free: none of the three statements reads it. *)
From Coq Require Import List NArith Bool Lia.
From stdpp Require Import gmap.
From RaftModel Require Import Base Config Compaction Commitment Node NodeCodec Candidate Leader Replicate Cluster ClusterLog ClusterCommit.
From RaftProofs Require Import VoteProofs ClusterProofs ClusterLogSpec.
Open Scope N_scope.

Definition label_no_config (l : clabel) : Prop :=
  match l with
  | CBase (LPropose _ ty _ _) => ty <> LogConfiguration
  | _ => True
  end.

Definition label_no_stray_vote (l : clabel) : Prop :=
  match l with
  | CBase (LElect (GInput _ (NVote _) _ _)) => False
  | _ => True
  end.

Definition label_ok (l : clabel) : Prop := label_no_config l /\ label_no_stray_vote l.

(* every configuration entry of the log store m decodes to cfg at every server of nodes *)
Definition cfg_entries_ok (cfg : config) (nodes : list gnode) (m : gmap N entry) : Prop :=
  forall i e, m !! i = Some e -> e_ty e = LogConfiguration ->
    forall n', In n' nodes -> p_decode (gn_P n') (e_data e) = cfg.

Definition cfg_or_nil (cfg c : config) : Prop := c = cfg \/ c = [].

Definition cnode_init (cfg : config) (nodes : list gnode) (n : gnode) : Prop :=
  p_rc (gn_P n) = false /\ live (image (gn_run n)) = None /\
  cfg_entries_ok cfg nodes (d_log (image (gn_run n))) /\
  match gn_run n with
  | Up s => v_commit s = 0 /\ v_applied s = 0 /\ cfg_or_nil cfg (v_latest s) /\ cfg_or_nil cfg (v_committed s)
  | Down _ => True
  end.

Definition cinit_ok (cfg : config) (g : cgstate) : Prop :=
  linit_ok (cg_l g) /\ cg_lead g = [] /\ cg_hb g = [] /\ cg_ans g = [] /\
  NoDup (voters cfg) /\
  forall n, In n (cnodes g) -> cnode_init cfg (cnodes g) n.
