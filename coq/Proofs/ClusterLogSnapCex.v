(* ClusterLogSnapCex.v — WITH takeSnapshot (lrun true) the statement of Log Matching is FALSE for the
   initial states of Proofs/ClusterLogSpec.v.  linit_ok leaves the volatile commit index of a
   running server free, and in Model/ClusterLog.v nothing ties a leader's commit index to a quorum
   (a leader sends its own v_commit, which no step of the system ever moves).  With a bogus commit
   index a follower applies entries that are NOT committed; a later leader truncates them; the
   follower's snapshot boundary (lastSnapIdx, lastSnapTerm), taken from the FSM goroutine's last
   applied entry, then names an entry that is no ancestor of the follower's log any more, and the
   handler's snapshot-boundary check (prevLogIndex == lastSnapIdx, the "fix:" commit) accepts a
   request that continues the OLD branch.  Five servers, one configuration (scenario adapted to the
   commit rule after the fix: commit, commitIndex <= index of the last entry of the accepted request:
   the follower can only be made to apply entries it shares with the sender of the request):

     every server holds entry 1; server 2 starts with v_commit = 1000; server 1 = A.
     2 is elected in term 2 by 4 and 5 (no-op 2'), appends 3', 4' (term 2) and replicates 2',3',4' to A
     with "commit 1000": A commits and applies 2..4 (held by 2 and A only); A takes a snapshot:
     boundary (4, term 2).
     3 is elected in term 3 by 4 and 5 (whose logs are short), writes 2,3,4,5 (term 3) and replicates
     them to A: A truncates 2'..4' (conflict) and stores 2..5.  A heartbeat of 3 makes 2 a follower.
     2 is elected in term 4 by 4 and 5 and writes its no-op at index 5.
     2 sends prev = (4, term 2), [5 (term 4)] to A: index 4 is not A's last index, but it IS A's
     snapshot index and the terms agree: accepted; A replaces 5 (term 3) by 5 (term 4).
     Now A = 1, 2, 3, 4, 5'' and server 2 = 1, 2', 3', 4', 5'': the same entry at index 5, different ones at 4. *)
From Coq Require Import List NArith Bool Lia.
From stdpp Require Import gmap.
From RaftModel Require Import Base Config Compaction Commitment Node NodeCodec Candidate Leader Replicate Cluster ClusterLog.
From RaftProofs Require Import ConfigProofs VoteProofs ClusterProofs ClusterLogSpec ClusterLogExample.
Open Scope N_scope.

(* ---------------------------------------------------------------- linit_ok does not see v_commit *)
Definition bump_commit (c : N) (n : gnode) : gnode :=
  mkGN (gn_P n) (match gn_run n with Up s => Up (set_commit s c) | Down s => Down s end) (gn_sess n) (gn_next n).

Lemma bump_commit_init c base n : wfr (gn_run n) /\ node_init base n ->
  wfr (gn_run (bump_commit c n)) /\ node_init base (bump_commit c n).
Proof.
  unfold node_init, bump_commit. cbn [gn_run]. destruct (gn_run n) as [s|s]; intros H; exact H.
Qed.

Lemma linit_ok_map f nodes :
  (forall n, gn_id (f n) = gn_id n /\ gn_sess (f n) = gn_sess n) ->
  (forall n base, wfr (gn_run n) /\ node_init base n -> wfr (gn_run (f n)) /\ node_init base (f n)) ->
  linit_ok (mkLG (mkG nodes [] [] []) []) -> linit_ok (mkLG (mkG (map f nodes) [] [] []) []).
Proof.
  intros Hf Hi ((Hnd & Hn & _) & _ & base & Hh & Hb). cbn [lg_g g_nodes] in *.
  split; [|split; [reflexivity|]].
  - split; [|split; [|auto]]; cbn [lg_g g_nodes].
    + rewrite map_map. rewrite (map_ext _ gn_id); [exact Hnd|]. intros a. apply Hf.
    + intros n Hin. apply in_map_iff in Hin. destruct Hin as (n0 & <- & Hin).
      destruct (Hn n0 Hin) as [Hw Hs]. split; [apply (Hi n0 base); auto|].
      destruct (Hf n0) as [_ ->]. exact Hs.
  - exists base. split; [exact Hh|]. cbn [lg_g g_nodes]. intros n Hin.
    apply in_map_iff in Hin. destruct Hin as (n0 & <- & Hin).
    destruct (Hn n0 Hin) as [Hw _]. apply (Hi n0 base). auto.
Qed.

(* ---------------------------------------------------------------- the scenario *)
Definition cex_nodes : list gnode :=
  map (fun n => if gn_id n =? 2 then bump_commit 1000 n else n)
      (map (fun p => mk_node (mk_cfg 5) (N.of_nat (fst p)) (snd p)) (combine (seq 1 5) [0; 0; 0; 0; 0])).

Definition cex_g0 : lgstate := mkLG (mkG cex_nodes [] [] []) [].

Definition cex_labels : list llabel :=
  [LElect (GTimeout 2); LElect (GVoteReq 2 4 0 []); LElect (GVoteResp 2 4); LElect (GVoteReq 2 5 0 []); LElect (GVoteResp 2 5);
   LPropose 2 LogCommand 77 []; LPropose 2 LogCommand 78 []; LSend 2 1 2 4; LDeliver 0 0 [];
   LElect (GInput 1 NSnapshot 0 []);
   LElect (GTimeout 3); LElect (GTimeout 3); LElect (GVoteReq 3 4 0 []); LElect (GVoteResp 3 4);
   LElect (GVoteReq 3 5 0 []); LElect (GVoteResp 3 5);
   LPropose 3 LogCommand 87 []; LPropose 3 LogCommand 88 []; LPropose 3 LogCommand 89 [];
   LSend 3 1 2 5; LDeliver 1 0 [];
   LHeartbeat 3 2; LDeliver 2 0 [];
   LElect (GTimeout 2); LElect (GVoteReq 2 4 0 []); LElect (GVoteResp 2 4); LElect (GVoteReq 2 5 0 []); LElect (GVoteResp 2 5);
   LSend 2 1 5 5; LDeliver 3 0 []].

Lemma cex_init_ok : linit_ok cex_g0.
Proof.
  unfold cex_g0, cex_nodes. apply linit_ok_map.
  - intros n. destruct (gn_id n =? 2); split; reflexivity.
  - intros n base H. destruct (gn_id n =? 2); [apply bump_commit_init|]; exact H.
  - apply mk_nodes_linit.
Qed.

Lemma cex_quorums : quorums_intersect [mk_cfg 5].
Proof.
  intros c1 c2 [<-|[]] [<-|[]] W1 W2 M1 M2. apply (majorities_intersect (voters (mk_cfg 5))); try assumption.
  vm_compute. repeat constructor; simpl; intuition discriminate.
Qed.

(* ---------------------------------------------------------------- a decidable witness against log_matching *)
Definition lm_violation (g : lgstate) (ia ib i k : N) : bool :=
  match find_node (g_nodes (lg_g g)) ia, find_node (g_nodes (lg_g g)) ib with
  | Some a, Some b =>
    match log_of a !! i, log_of b !! i, log_of a !! k, log_of b !! k with
    | Some ea, Some eb, Some ka, Some kb => (e_term ea =? e_term eb) && (k <=? i) && negb (entry_eqb ka kb)
    | _, _, _, _ => false
    end
  | _, _ => false
  end.

Lemma entry_eqb_refl e : entry_eqb e e = true.
Proof. unfold entry_eqb. rewrite !N.eqb_refl. reflexivity. Qed.

Lemma lm_violation_sound g ia ib i k : lm_violation g ia ib i k = true -> ~ log_matching g.
Proof.
  unfold lm_violation. intros H LM.
  destruct (find_node (g_nodes (lg_g g)) ia) as [a|] eqn:Fa; [|discriminate].
  destruct (find_node (g_nodes (lg_g g)) ib) as [b|] eqn:Fb; [|discriminate].
  destruct (log_of a !! i) as [ea|] eqn:Ea; [|discriminate].
  destruct (log_of b !! i) as [eb|] eqn:Eb; [|discriminate].
  destruct (log_of a !! k) as [ka|] eqn:Ka; [|discriminate].
  destruct (log_of b !! k) as [kb|] eqn:Kb; [|discriminate].
  apply andb_prop in H. destruct H as [H Hne]. apply andb_prop in H. destruct H as [Ht Hk].
  apply N.eqb_eq in Ht. apply N.leb_le in Hk.
  destruct (find_node_in _ _ _ Fa) as [Ia _]. destruct (find_node_in _ _ _ Fb) as [Ib _].
  pose proof (LM a b Ia Ib i ea eb Ea Eb Ht k ka kb Hk Ka Kb) as E. subst kb.
  rewrite entry_eqb_refl in Hne. discriminate.
Qed.

(* STAGE 2 AS STATED IS FALSE: same hypotheses as log_matching_no_snapshots, lrun true *)
Theorem log_matching_with_snapshots_refuted :
  exists cfgs g0 ls g,
    quorums_intersect cfgs /\ linit_ok g0 /\ lrun true cfgs g0 ls = Some g /\ ~ log_matching g.
Proof.
  exists [mk_cfg 5], cex_g0, cex_labels.
  assert (H : exists g, lrun true [mk_cfg 5] cex_g0 cex_labels = Some g /\ lm_violation g 1 2 5 4 = true).
  { destruct (lrun true [mk_cfg 5] cex_g0 cex_labels) as [g|] eqn:E.
    - exists g. split; [reflexivity|].
      assert (Hc : match lrun true [mk_cfg 5] cex_g0 cex_labels with Some g => lm_violation g 1 2 5 4 | None => false end = true)
        by (vm_compute; reflexivity).
      rewrite E in Hc. exact Hc.
    - exfalso.
      assert (Hc : match lrun true [mk_cfg 5] cex_g0 cex_labels with Some _ => true | None => false end = true)
        by (vm_compute; reflexivity).
      rewrite E in Hc. discriminate. }
  destruct H as (g & Hrun & Hv). exists g.
  split; [exact cex_quorums|]. split; [exact cex_init_ok|]. split; [exact Hrun|].
  eapply lm_violation_sound; exact Hv.
Qed.

Print Assumptions log_matching_with_snapshots_refuted.
