(* ClusterCommitSnapNode.v — the per-server part of the commitment invariant that needs no ghost
   state, for servers with snapshots: configuration entries and snapshot configurations decode to
   cfg, snapshot index <= lastApplied <= max(commitIndex, snapshot index), and the (index, term) the
   FSM goroutine reports lies between the snapshot index and lastApplied; NewRaft re-establishes it. *)
From Coq Require Import List NArith Bool Lia.
From stdpp Require Import gmap.
From RaftModel Require Import Base Config Compaction Commitment Node NodeCodec Candidate Leader.
From RaftProofs Require Import VoteProofs AdvLeaderProofs AppendProofs RecoverProofs ClusterProofs
  ClusterLogSpec ClusterLogChain ClusterLogNode ClusterLogCut ClusterLogVote
  ClusterCommitSpec ClusterCommitInit ClusterCommitChain ClusterCommitNode ClusterCommitInv
  ClusterCommitSnapLog ClusterCommitSnapBoot ClusterCommitSnapCut.
Open Scope N_scope.

Section Node.
  Variable cfg : config.
  Variable Ps : list params.

  Definition snaps_cfg (sns : list snapshot) : Prop := forall sn, In sn sns -> cfg_or_nil cfg (sn_cfg sn).

  Definition znode_img (s : nstate) : Prop := log_dec cfg Ps (d_log s) /\ snaps_cfg (d_snaps s).

  Record znode_up (s : nstate) : Prop := {
    zn_dec : log_dec cfg Ps (d_log s);
    zn_scfg : snaps_cfg (d_snaps s);
    zn_lat : cfg_or_nil cfg (v_latest s);
    zn_com : cfg_or_nil cfg (v_committed s);
    zn_sa : v_lastSnapIdx s <= v_applied s;
    zn_ac : v_applied s <= N.max (v_commit s) (v_lastSnapIdx s);
    zn_fa : fst (v_fsmLast s) <= v_applied s;
    zn_fs : fst (v_fsmLast s) = 0 \/ v_lastSnapIdx s <= fst (v_fsmLast s);
  }.

  Definition znode (P : params) (r : nrun) : Prop :=
    p_rc P = false /\ In P Ps /\ match r with Up s => znode_up s | Down s => znode_img s end.

  Lemma znode_up_img s : znode_up s -> znode_img s.
  Proof. intros H. split; [apply (zn_dec s H)|apply (zn_scfg s H)]. Qed.

  Lemma znode_image P r : znode P r -> znode_img (image r).
  Proof. intros (_ & _ & H). destruct r; [apply znode_up_img|]; exact H. Qed.

  (* a server that NewRaft just started *)
  Definition fresh_up (s : nstate) : Prop :=
    v_commit s = 0 /\ v_role s = Follower /\ v_fsmLast s = (0, 0) /\ v_applied s = v_lastSnapIdx s.

  Lemma boot_znode P img r out : p_rc P = false -> In P Ps -> keys_ok (d_log img) -> znode_img img ->
    boot P img = (r, out) ->
    znode P r /\ match r with Up s => fresh_up s | Down _ => True end.
  Proof.
    intros Hrc HP Hk [Hd Hsc]. unfold boot.
    destruct (recover P img) as [s tr| | |] eqn:ER; intros HB; inversion HB; subst r out; clear HB;
      try (split; [split; [exact Hrc|split; [exact HP|split; assumption]]|exact I]).
    pose proof (recover_ok P img s tr Hk ER) as ((_ & _ & _ & Dl & _ & _ & Ds) & _ & Hrole & _).
    destruct (recover_snapS P img s tr Hrc ER) as (Hc0 & Hf0 & Hm & Hcfg).
    destruct (Hcfg cfg) as [L1 L2]; [intros i e He Hty; apply (Hd i e He Hty P HP)|exact Hsc|].
    assert (Ha : v_applied s = v_lastSnapIdx s).
    { destruct (find sn_ok (list_snaps (d_snaps img))) as [sn|]; [destruct Hm as (Hb & _ & Ha)|destruct Hm as [Hb Ha]]; congruence. }
    split; [|split; [exact Hc0|split; [exact Hrole|split; [exact Hf0|exact Ha]]]].
    split; [exact Hrc|]. split; [exact HP|]. constructor.
    - rewrite Dl. exact Hd.
    - rewrite Ds. exact Hsc.
    - exact L1.
    - exact L2.
    - lia.
    - lia.
    - rewrite Hf0. simpl. lia.
    - left. rewrite Hf0. reflexivity.
  Qed.
End Node.

(* everything the node invariants read is untouched *)
Definition zkeep (s' s : nstate) : Prop :=
  vkeep s' s /\ lkeep s' s /\ v_lastSnapTerm s' = v_lastSnapTerm s /\ v_fsmLast s' = v_fsmLast s.

Lemma zkeep_refl s : zkeep s s.
Proof. split; [apply vkeep_refl|split; [apply lkeep_refl|split; reflexivity]]. Qed.

Lemma zkeep_trans a b c : zkeep a b -> zkeep b c -> zkeep a c.
Proof.
  intros (A1 & A2 & A3 & A4) (B1 & B2 & B3 & B4).
  split; [eapply vkeep_trans; eauto|split; [eapply lkeep_trans; eauto|split; congruence]].
Qed.

Lemma zup_keep C s s' : zup C s -> zkeep s' s -> d_term s <= d_term s' -> zup C s'.
Proof.
  intros H (_ & (K1 & K2 & K3 & K4 & K5) & K6 & _) Ht. unfold zup in *. rewrite (bk_ext s s' K5 K6). unfold topk in *. rewrite K1, K2, K3, K4.
  eapply zshape_mono; [apply incl_refl|exact Ht|exact H].
Qed.

Lemma znode_up_keep cfg Ps s s' : znode_up cfg Ps s -> zkeep s' s -> znode_up cfg Ps s'.
Proof.
  intros [A B D E F G H I] ((V1 & V2 & V3 & V4 & V5 & V6) & (_ & L2 & _ & _ & L5) & _ & K).
  constructor; rewrite ?V1, ?L2, ?V3, ?V4, ?V5, ?V6, ?L5, ?K; assumption.
Qed.

Lemma persist_vote_sf s fs t c : let '(s', _, _, _) := persist_vote s fs t c in
  v_lastSnapTerm s' = v_lastSnapTerm s /\ v_fsmLast s' = v_fsmLast s.
Proof.
  pose proof (persist_vote_spec s fs t c) as H. destruct (persist_vote s fs t c) as [[[s' ok] tr] fs'].
  destruct H as [(_ & _ & ->)|[(_ & _ & ->)|(_ & _ & ->)]]; split; reflexivity.
Qed.

Lemma request_vote_sf s fs q s' r tr fs' : request_vote s fs q = Done s' r tr fs' ->
  v_lastSnapTerm s' = v_lastSnapTerm s /\ v_fsmLast s' = v_fsmLast s.
Proof.
  unfold request_vote.
  destruct (negb (vq_id q =? 0) && nonempty (v_latest s) && negb (in_config (v_latest s) (vq_id q)));
    [intros H; inversion H; split; reflexivity|].
  destruct (negb (v_leader s =? 0) && negb (v_leader s =? vq_addr q) && negb (vq_transfer q));
    [intros H; inversion H; split; reflexivity|].
  destruct (vq_term q <? v_term s); [intros H; inversion H; split; reflexivity|].
  destruct (v_term s <? vq_term q).
  - unfold do_set_term. destruct (next_fail fs) as [f fs1]. destruct f; [discriminate|].
    set (s1 := set_vol_term (set_durable_term (set_state s Follower) (vq_term q)) (vq_term q)).
    destruct (negb (vq_id q =? 0) && nonempty (v_latest s1) && negb (has_vote (v_latest s1) (vq_id q)));
      [intros H; inversion H; subst; split; reflexivity|].
    destruct (if d_vterm s1 =? vq_term q then d_vcand s1 else None); [intros H; inversion H; subst; split; reflexivity|].
    destruct (negb (log_ok s1 (vq_lastIdx q) (vq_lastTerm q))); [intros H; inversion H; subst; split; reflexivity|].
    pose proof (persist_vote_sf s1 fs1 (vq_term q) (vq_addr q)) as Hp.
    destruct (persist_vote s1 fs1 (vq_term q) (vq_addr q)) as [[[s2 ok] tr2] fs2].
    intros H; inversion H; subst. exact Hp.
  - destruct (negb (vq_id q =? 0) && nonempty (v_latest s) && negb (has_vote (v_latest s) (vq_id q)));
      [intros H; inversion H; split; reflexivity|].
    destruct (if d_vterm s =? vq_term q then d_vcand s else None); [intros H; inversion H; split; reflexivity|].
    destruct (negb (log_ok s (vq_lastIdx q) (vq_lastTerm q))); [intros H; inversion H; split; reflexivity|].
    pose proof (persist_vote_sf s fs (vq_term q) (vq_addr q)) as Hp.
    destruct (persist_vote s fs (vq_term q) (vq_addr q)) as [[[s2 ok] tr2] fs2].
    intros H; inversion H; subst. exact Hp.
Qed.

(* the stores are untouched; a running server keeps the fields the invariants read, or was restarted *)
Definition quietS (r r' : nrun) : Prop :=
  d_log (image r') = d_log (image r) /\ d_snaps (image r') = d_snaps (image r) /\ d_term (image r) <= d_term (image r') /\
  match r' with Up s' => (exists s, r = Up s /\ zkeep s' s) \/ fresh_up s' | Down _ => True end.

Lemma quietS_refl r : quietS r r.
Proof.
  split; [reflexivity|]. split; [reflexivity|]. split; [lia|].
  destruct r as [s|s]; [left; exists s; split; [reflexivity|apply zkeep_refl]|exact I].
Qed.

Section NodeSteps.
  Variable cfg : config.
  Variable Ps : list params.

  (* NewRaft on an image with the log and snapshots of r, in a term not below *)
  Lemma boot_quietS C P r img rr oo : chain_ok C -> pclosed C -> znode cfg Ps P r ->
    zimg C img -> d_log img = d_log (image r) -> d_snaps img = d_snaps (image r) -> d_term (image r) <= d_term img ->
    boot P img = (rr, oo) ->
    znlog C rr /\ znode cfg Ps P rr /\ quietS r rr /\ match rr with Up s' => fresh_up s' | Down _ => True end.
  Proof.
    intros HC Hp Hn Himg El Es Et HB. pose proof Hn as (Hrc & HP & _).
    destruct (boot_znlog C P img rr oo HC Hp Hrc Himg HB) as (A & Dt & Dl & Ds & _).
    assert (Hni : znode_img cfg Ps img).
    { destruct (znode_image cfg Ps P r Hn) as [N1 N2]. split; [rewrite El; exact N1|rewrite Es; exact N2]. }
    destruct (boot_znode cfg Ps P img rr oo Hrc HP (log_in_keys C _ _ (zi_in _ _ _ _ Himg)) Hni HB) as [B D].
    split; [exact A|]. split; [exact B|]. split; [|exact D].
    split; [congruence|]. split; [congruence|]. split; [rewrite Dt; exact Et|].
    destruct rr; [right; exact D|exact I].
  Qed.

  (* a handler that only writes the term (and the vote) *)
  Lemma finish_quietS {R} C P (enc : R -> list N) (mk : R -> nobs) s cut (o : outcome R) r' ob out :
    chain_ok C -> pclosed C -> zup C s -> znode cfg Ps P (Up s) -> term_only s (trace_of o) ->
    (forall s' r tr fs', o = Done s' r tr fs' -> zkeep s' s /\ d_term s <= d_term s') ->
    finish P enc mk None s cut o = (r', ob, out) ->
    znlog C r' /\ znode cfg Ps P r' /\ quietS (Up s) r' /\
    ((exists s1 r tr fs', o = Done s1 r tr fs' /\ r' = Up s1 /\ ob = mk r) \/
     (ob = OLost /\ match r' with Up s' => fresh_up s' | Down _ => True end)).
  Proof.
    intros HC Hp Hz Hn Hto Hdone HF. pose proof Hn as (Hrc & HP & Hup).
    destruct (finish_cases P enc mk None s cut o r' ob out HF) as [(s1 & r & tr & fs' & Ho & -> & ->)|(k & oo & HB & ->)].
    - destruct (Hdone s1 r tr fs' Ho) as [K Ht].
      split; [simpl; eapply zup_keep; eauto|]. split; [split; [exact Hrc|split; [exact HP|eapply znode_up_keep; eauto]]|].
      split; [|left; exists s1, r, tr, fs'; auto].
      destruct K as (V & L & K'). split; [apply V|]. split; [apply L|]. split; [exact Ht|]. left. exists s. split; [reflexivity|]. split; [exact V|split; [exact L|exact K']].
    - destruct (cut_none_tlp P s (trace_of o) k) as (j & Hj & Hs).
      destruct (term_only_zimg C s (trace_of o) (zup_img C s HC Hz) Hto j) as (Hi & El & Et). cbv zeta in Hi, El, Et.
      rewrite <- Hj in Hi, El, Et. rewrite <- Hs in Hi.
      destruct (boot_quietS C P (Up s) _ r' oo HC Hp Hn Hi El Hs Et HB) as (A & B & D & E).
      split; [exact A|]. split; [exact B|]. split; [exact D|]. right. auto.
  Qed.
End NodeSteps.

Section SimpleSteps.
  Variable cfg : config.
  Variable Ps : list params.

  (* RequestVote, pre-vote, restart, TimeoutNow at one server *)
  Lemma simple_step_z C P r e cut fs r' ob out : chain_ok C -> pclosed C -> wfr r -> znlog C r -> znode cfg Ps P r ->
    simple_event e -> step_full P r e cut fs = (r', ob, out) ->
    znlog C r' /\ znode cfg Ps P r' /\ quietS r r' /\
    (forall s', r' = Up s' -> v_role s' = Leader -> exists s, r = Up s /\ v_role s = Leader /\ v_term s' = v_term s).
  Proof.
    intros HC Hp Hw Hn Hcn He. pose proof Hcn as (Hrc & HP & Hst). unfold step_full.
    assert (Hrestart : forall rr oo, boot P (image r) = (rr, oo) ->
              znlog C rr /\ znode cfg Ps P rr /\ quietS r rr /\
              (forall s', rr = Up s' -> v_role s' = Leader -> exists s, r = Up s /\ v_role s = Leader /\ v_term s' = v_term s)).
    { intros rr oo HB.
      destruct (boot_quietS cfg Ps C P r (image r) rr oo HC Hp Hcn (znlog_image C r HC Hn) eq_refl eq_refl (N.le_refl _) HB) as (A & B & D & E).
      split; [exact A|]. split; [exact B|]. split; [exact D|].
      intros s' -> Hr. destruct E as (_ & E & _). rewrite E in Hr. discriminate. }
    assert (Hsame : znlog C r /\ znode cfg Ps P r /\ quietS r r /\
              (forall s', r = Up s' -> v_role s' = Leader -> exists s, r = Up s /\ v_role s = Leader /\ v_term s' = v_term s)).
    { split; [exact Hn|]. split; [exact Hcn|]. split; [apply quietS_refl|]. intros s' Hs' Hr. exists s'. auto. }
    destruct r as [s|s]; destruct e as [q|q|a|q| | | | |]; try contradiction.
    - intros HF. simpl in Hn. pose proof (request_vote_keep s fs q Hw) as Hk.
      assert (Hto : term_only s (trace_of (request_vote s fs q))).
      { destruct (request_vote s fs q); simpl; [apply Hk|exact Hk]. }
      assert (Hdn : forall s' rr tr fs', request_vote s fs q = Done s' rr tr fs' -> zkeep s' s /\ d_term s <= d_term s').
      { intros s' rr tr fs' Ho. rewrite Ho in Hk. destruct Hk as (K1 & K2 & _).
        split; [|exact K2]. split; [eapply request_vote_vkeep; exact Ho|]. split; [exact K1|eapply request_vote_sf; exact Ho]. }
      destruct (finish_quietS cfg Ps C P _ _ s cut (request_vote s fs q) r' ob out HC Hp Hn Hcn Hto Hdn HF) as (A & B & D & E).
      split; [exact A|]. split; [exact B|]. split; [exact D|].
      intros s' -> Hr. destruct E as [(s1 & rr & tr & fs' & Ho & Es & _)|[_ E]].
      + inversion Es; subst s1. rewrite Ho in Hk. destruct Hk as (_ & _ & K & _). destruct (K Hr) as [K1 K2]. exists s. auto.
      + destruct E as (_ & E & _). rewrite E in Hr. discriminate.
    - destruct (request_prevote s q) as [t g]. intros H; inversion H; subst. exact Hsame.
    - intros H; inversion H; subst. split; [|split; [|split]].
      + simpl. eapply zup_keep; [exact Hn|split; [repeat split|split; [repeat split|split; reflexivity]]|simpl; lia].
      + split; [exact Hrc|]. split; [exact HP|]. eapply znode_up_keep; [exact Hst|]. split; [repeat split|split; [repeat split|split; reflexivity]].
      + split; [reflexivity|]. split; [reflexivity|]. split; [simpl; lia|]. left. exists s. split; [reflexivity|].
        split; [repeat split|split; [repeat split|split; reflexivity]].
      + intros s' Hs' Hr. inversion Hs'; subst. change (v_role (timeout_now s)) with Candidate in Hr. discriminate.
    - destruct (boot P (image (Up s))) as [rr oo] eqn:EB. intros H; inversion H; subst r' ob out. exact (Hrestart _ _ eq_refl).
    - intros H; inversion H; subst. exact Hsame.
    - intros H; inversion H; subst. exact Hsame.
    - intros H; inversion H; subst. exact Hsame.
    - destruct (boot P (image (Down s))) as [rr oo] eqn:EB. intros H; inversion H; subst r' ob out. exact (Hrestart _ _ eq_refl).
  Qed.
End SimpleSteps.
