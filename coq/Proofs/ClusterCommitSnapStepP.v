(* ClusterCommitSnapStepP.v — with snapshots: LDeliver keeps the invariant; a successful answer whose last
   entry is of the request's term records an acceptance. *)
From Coq Require Import List NArith Bool Lia.
From stdpp Require Import gmap.
From RaftModel Require Import Base Config Compaction Commitment Node NodeCodec Candidate Leader Replicate Cluster ClusterLog ClusterCommit.
From RaftProofs Require Import ConfigProofs CommitmentProofs VoteProofs AppendProofs ClusterProofs
  ClusterLogSpec ClusterLogChain ClusterLogNode ClusterLogCut ClusterLogVote ClusterLogAppend ClusterLogLeader ClusterLogInv ClusterLogSteps
  ClusterCommitSpec ClusterCommitLog ClusterCommitChain ClusterCommitAE3 ClusterCommitNode ClusterCommitGhost
  ClusterCommitInv ClusterCommitUpd ClusterCommitStepA ClusterCommitStepG ClusterCommitStepN ClusterCommitStepP
  ClusterCommitSnapLog ClusterCommitSnapBoot ClusterCommitSnapAE ClusterCommitSnapAE5 ClusterCommitSnapNode ClusterCommitSnapNode2
  ClusterCommitSnapLinv ClusterCommitSnapInv ClusterCommitSnapFinal
  ClusterCommitSnapUpd ClusterCommitSnapStepA ClusterCommitSnapStepD ClusterCommitSnapStepK ClusterCommitSnapStepN ClusterCommitSnapStepO.
Open Scope N_scope.

Section StepP.
  Variable cfg : config.
  Variable Ps : list params.
  Hypothesis HVn : NoDup (voters cfg).
  Let HQ := quorums_intersect_one' cfg HVn.

  (* the target is running *)
  Lemma zinv_deliver_up g g' C LL A V k m nj s cut fs r' ob out :
    zinv cfg Ps g C LL A V -> nth_error (lg_msgs (cg_l g)) k = Some m -> find_node (cnodes g) (am_to m) = Some nj ->
    gn_run nj = Up s -> step_full (gn_P nj) (Up s) (NAppend (am_req m)) cut fs = (r', ob, out) ->
    cnodes g' = upd_node (cnodes g) (am_to m) (mkGN (gn_P nj) r' (keep_sess r' (gn_sess nj)) (gn_next nj)) ->
    zlinv [cfg] (cg_l g') C -> lg_msgs (cg_l g') = lg_msgs (cg_l g) ->
    cg_ans g' = cg_ans g ++ match ob with OAppend _ r => [mkARes k r] | _ => [] end ->
    cg_lead g' = cg_lead g -> g_leaders (gof g') = g_leaders (gof g) -> g_grants (gof g') = g_grants (gof g) ->
    zinv cfg Ps g' C LL (accept_of (am_to m) (am_req m) ob ++ A) V.
  Proof.
    intros HI Hk Hf Hr Hsf Hnodes Hl' Hmsgs Hans Hleads Hld Hgr.
    destruct (find_node_in _ _ _ Hf) as [Hin Hid]. pose proof (nth_error_In _ _ Hk) as Hm.
    pose proof (zv_ci cfg Ps g C LL A V HI) as Hci. pose proof (ci_ok C LL Hci) as HC.
    set (a := am_req m) in *. set (j := am_to m) in *.
    destruct (zdeliver_reach cfg Ps HVn g C LL A V HI nj s m Hin Hr Hm cut fs r' ob out Hsf) as (Hnl' & Hcn' & Hsn' & t & Hreach & Hcase).
    destruct (zmsg_facts cfg Ps g C LL A V HI m Hm) as (M3 & M4 & Md & Mc & Mne & tl2 & Hl2). fold a in M3, M4, Md, Mc, Hl2.
    pose proof (zv_node cfg Ps g C LL A V HI nj Hin) as Hcn. rewrite Hr in Hcn. pose proof Hcn as (_ & _ & Hup).
    destruct (znode_log_in cfg Ps g C LL A V HI nj s Hin Hr) as [Hnl Hw].
    pose proof (zup_cache_ok C s HC Hnl) as Hcache.
    destruct (reachS_src C s a _ t HC Hnl Mc Hreach) as (_ & _ & Hdt & _). cbn [tlp fst] in Hdt.
    set (nj' := mkGN (gn_P nj) r' (keep_sess r' (gn_sess nj)) (gn_next nj)) in *.
    (* what a recorded acceptance means *)
    assert (Hacc : forall w kk, In (w, kk) (accept_of j a ob) ->
              exists s' r tr fs', r' = Up s' /\ append_entries (gn_P nj) s fs a = Done s' r tr fs' /\ ob = OAppend a r /\
                w = j /\ ar_success r = true /\ aq_entries a <> [] /\ snd kk = aq_term a /\ kk = key (last_of (aq_entries a)) /\ d_term s' = aq_term a).
    { intros w kk Ha. destruct ob as [q t0 gr|q t0 gr|a' r|q r|q sf| |]; try contradiction.
      destruct (accept_of_spec j a a' r w kk Ha) as (-> & Hs1 & Hs2 & Hs3 & ->).
      destruct r' as [s'|s']; [|discriminate]. destruct Hcase as [(_ & Hc)|(r0 & tr & fs' & Hd & Eo & _)]; [discriminate|].
      inversion Eo; subst a' r0. exists s', r, tr, fs'. repeat (split; [first [reflexivity|assumption]|]).
      assert (Hdp : forall e, In e (aq_entries a) -> e_ty e = LogConfiguration -> p_decode (gn_P nj) (e_data e) = cfg).
      { intros e He Hty. destruct Hcn as (_ & HP & _). apply (Md e He Hty _ HP). }
      destruct (append_done_vol cfg (gn_P nj) s fs a s' r tr fs' Hw Hcache Mc Hdp (zn_lat cfg Ps s Hup) (zn_com cfg Ps s Hup) Hd) as [(_ & _ & _ & Hf0)|(_ & _ & Hd' & _)];
        [congruence|exact Hd']. }
    apply (zinv_update cfg Ps HVn g g' C [] LL [] A (accept_of j a ob) V [] j nj nj' HI Hf Hid Hnodes)
      with (mn := []) (an := match ob with OAppend _ r => [mkARes k r] | _ => [] end) (Gn := []).
    - unfold dtn. rewrite Hr. cbn [nj' gn_run]. exact Hdt.
    - exact Hl'.
    - exact Hci.
    - intros w T' c kw rq kk k0 [].
    - (* the target voted in no later term *)
      intros w T' c kw rq kk k0 Hv Ha Hlt. exfalso.
      destruct (Hacc _ _ Ha) as (s' & r & tr & fs' & -> & Hd & _ & -> & _ & _ & Hkt & _ & Hdt').
      destruct (zv_v1 cfg Ps g C LL A V HI _ _ _ _ _ Hv) as [(x & Hx & Hxi & Hxt) _].
      assert (x = nj) by (apply (nodup_id_eq _ x nj (znodes_nodup cfg Ps g C LL A V HI) Hx Hin); congruence). subst x.
      unfold dtn in Hxt. rewrite Hr in Hxt. simpl in Hxt, Hdt. lia.
    - intros T' c tl' [].
    - intros w T' c kw rq [].
    - intros w kk Ha. destruct (Hacc _ _ Ha) as (s' & r & tr & fs' & _ & _ & _ & _ & _ & Hne & Hkt & -> & _).
      split; [|exists (am_from m), tl2; rewrite Hkt; exact Hl2].
      destruct (mchain_in C _ _ M3 (last_of (aq_entries a))) as [q Hq]; [apply last_in; exact Hne|]. exists (last_of (aq_entries a)), q. auto.
    - exact Hcn'.
    - intros s' Hs'. cbn [nj' gn_run] in Hs'.
      destruct (zdeliver_kc cfg Ps HVn g C LL A V HI nj s m Hin Hr Hm (eq_sym Hid) cut fs r' ob out s' Hsf Hs') as [K1 K2].
      split; [exact K1|]. intros i e He Hi. eapply CK_mono_g; [apply incl_refl|apply incl_refl|apply incl_appr, incl_refl|apply (K2 i e He Hi)].
    - (* its snapshots *)
      intros sn0 Hsn0. cbn [nj' gn_run] in Hsn0. rewrite Hsn' in Hsn0. unfold dtn. cbn [nj' gn_run].
      pose proof (zv_sk cfg Ps g C LL A V HI nj sn0 Hin) as H. unfold dtn in H. rewrite Hr in H.
      eapply CK_mono_g; [apply incl_refl|apply incl_refl|apply incl_appr, incl_refl|]. eapply (zCK_mono cfg); [exact Hdt|apply H, Hsn0].
    - (* the position of its FSM *)
      intros s' Hs'. cbn [nj' gn_run] in Hs'.
      destruct (zdeliver_fsm cfg Ps HVn g C LL A V HI nj s m Hin Hr Hm (eq_sym Hid) cut fs r' ob out s' Hsf Hs') as [E|[F1 F2]]; [left; exact E|right].
      split; [exact F1|]. eapply CK_mono_g; [apply incl_refl|apply incl_refl|apply incl_appr, incl_refl|exact F2].
    - rewrite Hmsgs, app_nil_r. reflexivity.
    - intros x [].
    - exact Hans.
    - (* the answer *)
      intros x Hx. destruct ob as [q t0 gr|q t0 gr|a' r|q r|q sf| |]; try contradiction. destruct Hx as [<-|[]].
      exists m. cbn [rs_req rs_resp]. split; [rewrite Hmsgs; exact Hk|]. intros Hs1 Hs2 Hs3. apply in_app_iff. left.
      fold a in Hs2, Hs3 |- *. fold j. unfold accept_of. rewrite Hs1. destruct (aq_entries a) as [|e0 er] eqn:Ees; [congruence|]. rewrite Hs3, N.eqb_refl. left. reflexivity.
    - intros w kk Ha. destruct (Hacc _ _ Ha) as (s' & r & tr & fs' & -> & _ & _ & -> & _ & _ & Hkt & _ & Hdt').
      exists nj'. split; [rewrite Hnodes; apply in_upd_node with (n := nj); assumption|]. split; [exact Hid|].
      unfold dtn. cbn [nj' gn_run image]. lia.
    - intros kk k0 Ha Hanc Hpos. rewrite <- Hid in Ha. unfold dtn. cbn [nj' gn_run].
      apply (zdeliver_av cfg Ps HVn g C LL A V HI nj s m Hin Hr Hm (eq_sym Hid) cut fs r' ob out kk k0 Hsf Ha Hanc Hpos).
    - (* the new acceptance *)
      intros w kk x k0 Ha Hx Hxi Hanc Hpos. destruct (Hacc _ _ Ha) as (s' & r & tr & fs' & Er' & Hd & Eob & -> & Hsucc & Hne & _ & -> & _).
      assert (x = nj').
      { rewrite Hnodes in Hx. destruct (in_upd_cases _ _ _ _ Hx) as [->|[_ Hne']]; [reflexivity|congruence]. }
      subst x. left. cbn [nj' gn_run]. rewrite Er' in *. simpl in Hnl'. cbn [image].
      destruct Hcase as [(_ & Hc)|(r0 & tr0 & fs0 & Hd0 & Eo0 & Hk0 & Hsf0)]; [rewrite Hc in Eob; discriminate|].
      cbn [image] in Hreach. assert (Hbk : bk s' = bk s) by (destruct Hsf0 as (_ & S2 & S3 & _); apply bk_ext; congruence).
      apply (zdeliver_new cfg Ps g C LL A V HI nj s m Hin Hr Hm (eq_sym Hid) fs s' r tr fs' t k0 Hd Hsucc Hnl' Hreach Hk0 Hbk Hne Hanc Hpos).
    - intros w T' c kw rq [].
    - intros se' Hse'. left. exists se'. split; [|reflexivity]. cbn [nj' gn_sess] in Hse'. unfold keep_sess in Hse'.
      destruct r' as [s'|s']; [|discriminate]. destruct (gn_sess nj); [|discriminate]. destruct (v_role s' =? Candidate); [exact Hse'|discriminate].
    - intros w T' c kw rq xc se [].
    - rewrite Hgr. reflexivity.
    - intros w T' c [].
    - (* a runCandidate invocation that goes on: the request was rejected, or came from the leader of the candidate's term *)
      intros se Hse. cbn [nj' gn_sess gn_run] in *. unfold keep_sess in Hse.
      destruct r' as [s'|s']; [|discriminate]. destruct (gn_sess nj) as [se0|] eqn:Es0; [|discriminate].
      destruct (N.eqb_spec (v_role s') Candidate) as [Hrc|]; [|discriminate]. inversion Hse; subst se0.
      exists s'. split; [reflexivity|].
      destruct (zv_se cfg Ps g C LL A V HI nj se Hin Es0) as (s0 & Hs0 & Hcase0). rewrite Hr in Hs0. inversion Hs0; subst s0.
      destruct Hcase as [((_ & Hf0 & _) & _)|(r & tr & fs' & Hd & _ & _)]; [rewrite Hf0 in Hrc; discriminate|].
      assert (Hdp : forall e, In e (aq_entries a) -> e_ty e = LogConfiguration -> p_decode (gn_P nj) (e_data e) = cfg).
      { intros e He Hty. destruct Hcn as (_ & HP & _). apply (Md e He Hty _ HP). }
      destruct (append_done_vol cfg (gn_P nj) s fs a s' r tr fs' Hw Hcache Mc Hdp (zn_lat cfg Ps s Hup) (zn_com cfg Ps s Hup) Hd)
        as [(_ & -> & _)|(_ & _ & _ & _ & _ & [Hrf|[_ Et]] & _)]; [exact Hcase0|rewrite Hrf in Hrc; discriminate|].
      right. exists (am_from m), tl2.
      pose proof (gi_nodes [cfg] _ (zl_g [cfg] _ C (zv_l cfg Ps g C LL A V HI)) nj Hin) as [_ Hso]. unfold sess_ok in Hso. rewrite Es0 in Hso.
      destruct Hso as (c0 & s0 & _ & Hs0' & Ht0 & _). rewrite Hr in Hs0'. inversion Hs0'; subst s0. rewrite <- Ht0, Et. exact Hl2.
    - (* the handler does not vote *)
      intros T' c Hlv. cbn [nj' gn_run] in Hlv.
      pose proof (step_good (gn_P nj) (Up s) (NAppend a) cut fs Hw) as Hg. rewrite Hsf in Hg. destruct Hg as (_ & (_ & _ & _ & Hcast) & _).
      destruct (live_dec_o (live (image (Up s))) (Some (T', c))) as [Eo|No].
      + destruct (zv_live cfg Ps g C LL A V HI nj T' c Hin) as [(kw & rq & H)|H]; [rewrite Hr; exact Eo| |right; exact H].
        left. exists kw, rq. rewrite <- Hid. exact H.
      + exfalso. destruct (Hcast T' c Hlv No) as [(q & Eq & _)|(Eq & _)]; discriminate.
    - rewrite Hld. apply (zv_ll cfg Ps g C LL A V HI).
    - intros i _. rewrite Hleads. reflexivity.
    - intros y p [].
    - (* still a leader: the request was rejected and nothing changed *)
      intros s' Hs' Hrole'. cbn [nj' gn_run] in Hs'. subst r'.
      destruct Hcase as [((_ & Hf0 & _) & _)|(r & tr & fs' & Hd & _ & _)]; [rewrite Hf0 in Hrole'; discriminate|].
      pose proof (zdeliver_role cfg Ps HVn g C LL A V HI nj s m Hin Hr Hm (eq_sym Hid) fs s' r tr fs' Hd Hrole') as ->.
      destruct (zv_lead cfg Ps g C LL A V HI nj s Hin Hr Hrole') as [(tl & ld & L1 & L2 & L3 & L4 & L5 & L6 & L7 & L8 & L9 & L10 & L11) [Z1 Z2]].
      split; [|split; [exact Z1|change (gn_id nj') with (gn_id nj); rewrite Hleads; exact Z2]].
      exists tl, ld. change (gn_id nj') with (gn_id nj). rewrite Hleads. split; [exact L1|]. split; [exact L2|]. split; [exact L3|].
      split; [exact L4|]. split; [exact L5|]. split; [exact L6|]. split.
      { intros i v Hv. destruct (L7 i v Hv) as [H|H]; [left; exact H|right; apply in_app_iff; right; exact H]. }
      split; [exact L8|]. split; [|split; [exact L10|exact L11]].
      destruct L9 as [H|[H1 H2]]; [left; exact H|right; split; [exact H1|eapply QA_mono; [apply incl_appr, incl_refl|exact H2]]].
  Qed.
End StepP.

Section StepP2.
  Variable cfg : config.
  Variable Ps : list params.
  Hypothesis HVn : NoDup (voters cfg).
  Let HQ := quorums_intersect_one' cfg HVn.

  Theorem zinv_deliver sn g C LL A V k cut fs g' : zinv cfg Ps g C LL A V ->
    cstep sn [cfg] g (CBase (LDeliver k cut fs)) = Some g' -> exists An, zinv cfg Ps g' C LL (An ++ A) V.
  Proof.
    intros HI Hstep. apply cstep_base_inv in Hstep. destruct Hstep as (_ & l' & Hl & ->).
    pose proof (zv_l cfg Ps g C LL A V HI) as Hlinv. pose proof (ci_ok C LL (zv_ci cfg Ps g C LL A V HI)) as HC.
    unfold lstep in Hl. destruct (nth_error (lg_msgs (cg_l g)) k) as [m|] eqn:Hk; [|discriminate].
    destruct (gstep [cfg] (lg_g (cg_l g)) (GInput (am_to m) (NAppend (am_req m)) cut fs)) as [g1|] eqn:Hg; [|discriminate].
    inversion Hl; subst l'. clear Hl.
    pose proof (gstep_inv [cfg] _ _ _ (zl_g [cfg] _ C Hlinv) Hg) as Hg1.
    unfold gstep in Hg. fold (cnodes g) in Hg.
    destruct (find_node (cnodes g) (am_to m)) as [nj|] eqn:Hfj; [|discriminate].
    destruct (step_full (gn_P nj) (gn_run nj) (NAppend (am_req m)) cut fs) as [[r' ob] out] eqn:Hsf.
    inversion Hg; subst g1. clear Hg.
    destruct (find_node_in _ _ _ Hfj) as [Hinj Hidj].
    unfold base_leads, base_hb, base_ans. rewrite Hk, Hfj, Hsf. cbn [lg_g g_nodes].
    destruct (gn_run nj) as [s|sd] eqn:Hr.
    - (* the target is running *)
      destruct (zdeliver_reach cfg Ps HVn g C LL A V HI nj s m Hinj Hr (nth_error_In _ _ Hk) cut fs r' ob out Hsf) as (Hnl' & _ & _ & t & _ & Hcase).
      assert (Hlead' : forall s', r' = Up s' -> v_role s' = Leader -> s' = s).
      { intros s' -> Hrole. destruct Hcase as [((_ & Hf0 & _) & _)|(r & tr & fs' & Hd & _ & _)]; [rewrite Hf0 in Hrole; discriminate|].
        apply (zdeliver_role cfg Ps HVn g C LL A V HI nj s m Hinj Hr (nth_error_In _ _ Hk) (eq_sym Hidj) fs s' r tr fs' Hd Hrole). }
      assert (Hl1 : zlinv [cfg] (mkLG (mkG (upd_node (cnodes g) (am_to m) (mkGN (gn_P nj) r' (keep_sess r' (gn_sess nj)) (gn_next nj)))
                 (g_resps (lg_g (cg_l g))) (g_leaders (lg_g (cg_l g))) (grant_ghost (am_to m) ob ++ g_grants (lg_g (cg_l g)))) (lg_msgs (cg_l g))) C).
      { rewrite <- Hr in Hsf. apply (zhandler_linv [cfg] HQ (cg_l g) C (am_to m) nj _ cut fs r' ob out _ Hlinv Hfj Hsf Hg1 eq_refl eq_refl).
        split; [exact Hnl'|]. intros s' Hs' Hrole. pose proof (Hlead' s' Hs' Hrole) as E. subst s'. exists s. split; [exact Hr|]. auto. }
      rewrite (refresh_handler (cnodes g) (am_to m) nj r' _ (znodes_nodup cfg Ps g C LL A V HI) Hfj).
      2:{ intros s' E Hrole. rewrite (Hlead' s' E Hrole) in Hrole. rewrite Hr. exact Hrole. }
      exists (accept_of (am_to m) (am_req m) ob).
      eapply (zinv_deliver_up cfg Ps HVn g _ C LL A V k m nj s cut fs r' ob out HI Hk Hfj Hr Hsf); try reflexivity.
      + exact Hl1.
      + cbn [cg_ans]. destruct ob; try reflexivity; symmetry; apply app_nil_r.
      + cbn. destruct ob as [q t0 gr|q t0 gr|a' r|q r|q sf| |]; try reflexivity.
        exfalso. simpl in Hsf. unfold finish in Hsf. destruct (append_entries (gn_P nj) s fs (am_req m)) as [s1 r1 tr1 fs1|s1 tr1].
        * destruct ((0 <? cut) && _); [destruct (boot _ _); inversion Hsf|inversion Hsf].
        * destruct (boot _ _); inversion Hsf.
    - (* the target is down: nothing happens *)
      simpl in Hsf. inversion Hsf; subst r' ob out.
      assert (Hl1 : zlinv [cfg] (mkLG (mkG (upd_node (cnodes g) (am_to m) (mkGN (gn_P nj) (Down sd) (keep_sess (Down sd) (gn_sess nj)) (gn_next nj)))
                 (g_resps (lg_g (cg_l g))) (g_leaders (lg_g (cg_l g))) (grant_ghost (am_to m) ONone ++ g_grants (lg_g (cg_l g)))) (lg_msgs (cg_l g))) C).
      { assert (Hsf' : step_full (gn_P nj) (gn_run nj) (NAppend (am_req m)) cut fs = (Down sd, ONone, [0])) by (rewrite Hr; reflexivity).
        apply (zhandler_linv [cfg] HQ (cg_l g) C (am_to m) nj _ cut fs (Down sd) ONone [0] _ Hlinv Hfj Hsf' Hg1 eq_refl eq_refl).
        split; [|intros s' H; discriminate]. destruct (zl_nodes [cfg] _ C Hlinv nj Hinj) as [H _]. rewrite Hr in H. exact H. }
      rewrite (refresh_handler (cnodes g) (am_to m) nj (Down sd) _ (znodes_nodup cfg Ps g C LL A V HI) Hfj) by (intros s' H; discriminate).
      exists []. cbn [app]. set (nj' := mkGN (gn_P nj) (Down sd) (keep_sess (Down sd) (gn_sess nj)) (gn_next nj)).
      match goal with |- zinv _ _ ?G _ _ _ _ => set (g' := G) end.
      apply (zinv_quiet cfg Ps HVn g g' C LL A V [] [] (am_to m) nj nj' HI Hfj Hidj eq_refl Hl1).
      + rewrite Hr. apply quietS_refl.
      + pose proof (zv_node cfg Ps g C LL A V HI nj Hinj) as Hcn. rewrite Hr in Hcn. exact Hcn.
      + reflexivity.
      + reflexivity.
      + reflexivity.
      + reflexivity.
      + intros i _. reflexivity.
      + intros se' H. discriminate.
      + intros se H. discriminate.
      + intros s' H. discriminate.
      + intros w T' c kw rq kk k0 [].
      + intros w T' c kw rq [].
      + intros w T' c kw rq [].
      + intros w T' c kw rq xc se [].
      + intros w T' c [].
      + intros T' c Hlv. cbn [nj' gn_run image] in Hlv.
        destruct (zv_live cfg Ps g C LL A V HI nj T' c Hinj) as [(kw & rq & H)|H]; [rewrite Hr; exact Hlv| |right; exact H].
        left. exists kw, rq. rewrite <- Hidj. exact H.
  Qed.
End StepP2.
