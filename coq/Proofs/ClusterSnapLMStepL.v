(* ClusterSnapLMStepL.v — in the system with snapshot transfer: dispatchLogs at a leader and the no-op of a new leader keep
   the invariant of Proofs/ClusterSnapLMInv.v; the new entry is appended after getLastEntry, the extended history is explicit. *)
From Coq Require Import List NArith Bool Lia.
From stdpp Require Import gmap.
From RaftModel Require Import Base Config Compaction Commitment Node NodeCodec Candidate Leader Replicate Cluster ClusterLog ClusterCommit ClusterSnap.
From RaftProofs Require Import ConfigProofs VoteProofs ClusterProofs
  ClusterLogSpec ClusterLogChain ClusterLogNode ClusterLogVote ClusterLogLeader ClusterLogInv ClusterLogSteps
  ClusterCommitChain ClusterCommitLog ClusterCommitInv
  ClusterCommitSnapLog ClusterCommitSnapStepL
  ClusterSnapLMLog ClusterSnapLMLeader ClusterSnapLMInv ClusterSnapLMInv2.
Open Scope N_scope.

Section Explicit.
  Variable cfgs : list config.
  Hypothesis HQ : quorums_intersect cfgs.

  (* dispatchLogs stored the entry *)
  Lemma propose_ylinv_ok B g sm C i n s ty data fs :
    ylinv cfgs B g sm C -> find_node (g_nodes (lg_g g)) i = Some n -> gn_run n = Up s -> v_role s = Leader ->
    fst (next_fail fs) = false ->
    let s' := l_node (fst (fst (fst (dispatch (gn_P n) (leader_setup s) fs [(ty, data, 0)])))) in
    ylinv cfgs B (mkLG (set_node_run (lg_g g) i n (Up s')) (lg_msgs g)) sm ((new_entry s ty data, last_entry s) :: C).
  Proof.
    intros Hinv Hfind Hrun Hrole Hok. cbv zeta.
    destruct (find_node_in _ _ _ Hfind) as [Hin Hid].
    pose proof (dispatch_one (gn_P n) s fs ty data 0) as Hd. cbv zeta in Hd.
    set (s' := l_node (fst (fst (fst (dispatch (gn_P n) (leader_setup s) fs [(ty, data, 0)]))))) in *.
    destruct Hd as (Dd & Dv & Dsn & Dsi & Hcase).
    assert (Dt : d_term s' = d_term s) by (unfold dproj in Dd; inversion Dd; reflexivity).
    pose proof (yl_g cfgs B g sm C Hinv) as Hg. pose proof (yl_chain cfgs B g sm C Hinv) as HC.
    destruct (yl_nodes cfgs B g sm C Hinv n Hin) as (Hnl & Hlo & _). rewrite Hrun in Hnl. simpl in Hnl.
    destruct (Hlo s Hrun Hrole) as (L1 & L2 & L3).
    pose proof (gi_nodes cfgs _ Hg n Hin) as [(Hw & Hig & Hfun) _]. rewrite Hrun in Hw, Hig. simpl in Hw.
    destruct Hw as [Hwd Hvt].
    assert (Hks : keep_sess (Up s') (gn_sess n) = None) by (rewrite L2; reflexivity).
    unfold set_node_run. rewrite Hks.
    set (n' := mkGN (gn_P n) (Up s') None (gn_next n)).
    set (g1 := mkG (upd_node (g_nodes (lg_g g)) i n') (g_resps (lg_g g)) (g_leaders (lg_g g)) (g_grants (lg_g g))).
    assert (Hg1 : ginv cfgs g1).
    { eapply (ginv_update cfgs (lg_g g) g1 i n n' []); try reflexivity; try exact Hg; try exact Hfind.
      - exact Hid.
      - intros x [].
      - unfold node_ok. cbn [gn_run n']. change (gn_id n') with (gn_id n).
        change (Gof g1 (gn_id n)) with (Gof (lg_g g) (gn_id n)).
        split; [|split; [|exact Hfun]].
        + simpl. eapply wfu_dproj; [split; [exact Hwd|exact Hvt]|exact Dd|exact Dv].
        + eapply inv_grants_dproj; [|exact Hig]. simpl. symmetry. exact Dd.
      - intros rp Hrp. split; [|left; exact Hrp].
        destruct (gi_resps cfgs _ Hg rp Hrp) as [_ Hall]. specialize (Hall n Hin).
        unfold resp_node in *. change (gn_id n') with (gn_id n). cbn [gn_sess gn_next n'].
        intros Hc. destruct (Hall Hc) as [A _]. split; [exact A|]. intros se0 H0. discriminate.
      - intros x Hx. left. exact Hx. }
    destruct (y_last_entry C B s Hnl) as (Hle1 & Hle2 & Hle3).
    destruct (dispatch_one_sf (gn_P n) s fs ty data 0) as [Dst Dfl]. fold s' in Dst, Dfl.
    destruct Hcase as [(Hf & _)|(_ & Dl & Dci & Dct & Dr)]; [congruence|].
    set (e := new_entry s ty data) in *.
    assert (He1 : e_idx e = last_index s + 1) by reflexivity.
    assert (He2 : e_term e = v_term s) by reflexivity.
    assert (Hll : v_lastLogIdx s <= last_index s) by (unfold last_index; lia).
    assert (HC' : chain_ok ((e, last_entry s) :: C)).
    { apply chain_ok_cons; auto.
      + intros x q Hx Hkey. unfold key in Hkey. inversion Hkey as [[K1 K2]].
        pose proof (L3 x q Hx (eq_trans K2 He2)). lia.
      + rewrite Hle1. exact He1.
      + rewrite He2. lia. }
    apply (ylinv_update cfgs HQ B B g (mkLG g1 (lg_msgs g)) sm sm C _ i n n' Hinv Hg1 (N.le_refl _) Hfind Hid eq_refl eq_refl).
    - apply incl_refl.
    - intros T k H. left. exact H.
    - intros x Hx. right. exact Hx.
    - exact HC'.
    - intros x p [E|H]; [|left; exact H]. inversion E; subst x p. right. change (In (v_term s, i) (g_leaders (lg_g g))). rewrite <- Hid. exact L1.
    - unfold dt. simpl. rewrite Hrun, Dt. simpl. lia.
    - intros se0 H0. discriminate.
    - simpl. apply (leader_append_yup C B s s' e HC' Hnl He1).
      + rewrite Dt, He2. lia.
      + rewrite Dt. lia.
      + exact Dl.
      + unfold topk, key. rewrite Dci, Dct. reflexivity.
      + exact Dsn.
      + unfold rawb; congruence.
      + exact Dfl.
    - intros s0 Hs0 Hr. simpl in Hs0. inversion Hs0; subst s0. simpl. rewrite Dv.
      change (gn_id n') with (gn_id n). split; [exact L1|]. split; [reflexivity|].
      intros x p [E|H] Ht.
      + inversion E; subst. rewrite Dci. simpl. lia.
      + pose proof (L3 x p H Ht). rewrite Dci. lia.
    - simpl. rewrite Hrun. simpl. rewrite Dsn. apply incl_refl.
    - left. reflexivity.
    - intros m Hm. left. exact Hm.
    - intros m Hm. left. exact Hm.
  Qed.

  (* runLeader: the server is recorded as leader of its term and stores the no-op *)
  Lemma become_leader_ylinv_ok B g sm C g1 j n s sL next' :
    ylinv cfgs B g sm C -> ginv cfgs g1 ->
    find_node (g_nodes (lg_g g)) j = Some n -> gn_run n = Up s ->
    g_nodes g1 = upd_node (g_nodes (lg_g g)) j (mkGN (gn_P n) (Up (become_leader (gn_P n) sL)) None next') ->
    g_leaders g1 = (v_term sL, j) :: g_leaders (lg_g g) ->
    lkeep sL s -> v_lastSnapTerm sL = v_lastSnapTerm s -> v_fsmLast sL = v_fsmLast s -> d_term s <= d_term sL -> v_term sL = d_term sL -> v_role sL = Leader ->
    (forall T', T' <= dt n -> (forall se, gn_sess n = Some se -> T' < vq_term (se_req se)) -> T' <> v_term sL) ->
    ylinv cfgs B (mkLG g1 (lg_msgs g)) sm ((new_entry sL LogNoop 0, last_entry sL) :: C) /\
    (forall x p, In (x, p) C -> e_term x <> v_term sL) /\
    (forall T c, In (T, c) (g_leaders (lg_g g)) -> T <> v_term sL).
  Proof.
    intros Hinv Hg1 Hfind Hrun Hn1 Hl1 Hk Hst Hfl Hdt Hvt Hrole Hfresh.
    destruct (find_node_in _ _ _ Hfind) as [Hin Hid].
    pose proof (yl_chain cfgs B g sm C Hinv) as HC.
    destruct (yl_nodes cfgs B g sm C Hinv n Hin) as (Hnl & _). rewrite Hrun in Hnl. simpl in Hnl.
    assert (HnL : yup C B sL).
    { eapply yup_lkeep; eauto. rewrite Hfl. intros Hnz. pose proof (ys_fl _ _ _ _ _ _ _ _ Hnl Hnz). lia. }
    destruct (y_last_entry C B sL HnL) as (Hle1 & Hle2 & Hle3).
    destruct (dispatch_one_sf (gn_P n) sL [] LogNoop 0 0) as [Dst Dfl]. fold (become_leader (gn_P n) sL) in Dst, Dfl.
    set (e := new_entry sL LogNoop 0).
    set (ck := last_entry sL).
    set (s' := become_leader (gn_P n) sL).
    pose proof (dispatch_one (gn_P n) sL [] LogNoop 0 0) as Hd. cbv zeta in Hd. fold (become_leader (gn_P n) sL) in Hd. fold s' in Hd. fold e in Hd.
    destruct Hd as (Dd & Dv & Dsn & Dsi & [(Hf & _)|(_ & Dl & Dci & Dct & Dr)]); [simpl in Hf; discriminate|].
    assert (Dt : d_term s' = d_term sL) by (unfold dproj in Dd; inversion Dd; reflexivity).
    assert (Hnol : forall T c, In (T, c) (g_leaders (lg_g g)) -> T <> v_term sL).
    { intros T c Hl Ht. subst T. assert (c = j).
      { apply (leaders_fun cfgs g1 (v_term sL) c j HQ Hg1); rewrite Hl1; [right; exact Hl|left; reflexivity]. }
      subst c. destruct (yl_leaders cfgs B g sm C Hinv _ _ Hl n Hin Hid) as [A B0]. apply (Hfresh (v_term sL) A B0 eq_refl). }
    assert (Hnone : forall x p, In (x, p) C -> e_term x <> v_term sL).
    { intros x p Hx Ht. destruct (yl_src cfgs B g sm C Hinv x p Hx) as [(id & Hl)|Hdead].
      - apply (Hnol _ _ Hl Ht).
      - destruct (Hdead n Hin) as [A B0]. apply (Hfresh (e_term x) A B0 Ht). }
    assert (He1 : e_idx e = last_index sL + 1) by reflexivity.
    assert (He2 : e_term e = v_term sL) by reflexivity.
    assert (Hll : v_lastLogIdx sL <= last_index sL) by (unfold last_index; lia).
    assert (HC' : chain_ok ((e, ck) :: C)).
    { apply chain_ok_cons; auto.
      + intros x q Hx Hkey. apply (Hnone x q Hx). unfold key in Hkey. inversion Hkey. congruence.
      + unfold ck. rewrite Hle1. exact He1.
      + unfold ck. rewrite He2. lia. }
    split; [|split; [exact Hnone|exact Hnol]].
    apply (ylinv_update cfgs HQ B B g (mkLG g1 (lg_msgs g)) sm sm C ((e, ck) :: C) j n
             (mkGN (gn_P n) (Up s') None next') Hinv Hg1 (N.le_refl _) Hfind Hid eq_refl Hn1).
    - simpl. rewrite Hl1. intros x Hx. right. exact Hx.
    - simpl. rewrite Hl1. intros T i [E|H]; [|left; exact H]. inversion E; subst. right.
      split; [reflexivity|]. split; [|reflexivity]. unfold dt. simpl. rewrite Dt. lia.
    - intros x Hx. right. exact Hx.
    - exact HC'.
    - intros x p [E|H]; [|left; exact H]. inversion E; subst. right. simpl. rewrite Hl1. left. reflexivity.
    - unfold dt. simpl. rewrite Hrun, Dt. exact Hdt.
    - intros se Hse. discriminate.
    - simpl. apply (leader_append_yup C B sL s' e HC' HnL He1).
      + rewrite Dt, He2. lia.
      + rewrite Dt. lia.
      + exact Dl.
      + unfold topk, key. rewrite Dci, Dct. reflexivity.
      + exact Dsn.
      + fold s' in Dst. unfold rawb; congruence.
      + exact Dfl.
    - intros s0 Hs0 Hr. simpl in Hs0. inversion Hs0; subst s0. simpl. rewrite Hl1, Dv.
      split; [left; change (gn_id (mkGN (gn_P n) (Up s') None next')) with (gn_id n); rewrite Hid; reflexivity|]. split; [reflexivity|].
      intros x p [E|H] Ht; [inversion E; subst; rewrite Dci; simpl; lia|].
      exfalso. apply (Hnone x p H Ht).
    - simpl. rewrite Hrun. simpl. rewrite Dsn. destruct Hk as (_ & K2 & _). rewrite K2. apply incl_refl.
    - left. reflexivity.
    - intros m Hm. left. exact Hm.
    - intros m Hm. left. exact Hm.
  Qed.
End Explicit.
