(* FileSnapH.v — Close of an open sink: write-out, rename, reap. *)
From Coq Require Import List Arith NArith Bool Lia Permutation.
From RaftModel Require Import FileSnap FileSnapSpec.
From RaftProofs Require Import FileSnapA FileSnapB FileSnapC FileSnapD FileSnapE FileSnapF FileSnapG.
Import ListNotations.
Open Scope N_scope.

Definition close_meta (k : sink) : metaval := mkMV 1 (k_term k) (k_index k) (Some (k_buf k)).

Definition close_pre (k : sink) : list fsop :=
  flush_ops k ++ [FCreateMeta (k_sid k); FWriteMeta (k_sid k) (close_meta k); FSyncMeta (k_sid k)].

Definition close_ops1 (k : sink) : list fsop := close_pre k ++ [FRename (k_sid k); FSyncParent].

Lemma exec_close : forall sfirst st sid k, find_sink (st_sinks st) sid = Some k -> k_done k = false ->
  exec_op sfirst st (SClose sid) =
  (mkStore (st_retain st)
           (fs_run (st_fs st) (close_ops1 k ++ reap_ops sfirst (st_retain st) (fs_run (st_fs st) (close_ops1 k))))
           (upd_sink (st_sinks st) sid set_done),
   close_ops1 k ++ reap_ops sfirst (st_retain st) (fs_run (st_fs st) (close_ops1 k))).
Proof.
  intros sfirst st sid k Hf Hd. unfold exec_op. rewrite Hf, Hd.
  assert (Hks := find_sink_sid _ _ _ Hf).
  assert (E : flush_ops k ++ [FCreateMeta sid; FWriteMeta sid (mkMV 1 (k_term k) (k_index k) (Some (k_buf k)));
                              FSyncMeta sid; FRename sid; FSyncParent] = close_ops1 k).
  { unfold close_ops1, close_pre, close_meta. rewrite Hks, <- app_assoc. reflexivity. }
  rewrite E, fs_run_app. reflexivity.
Qed.

Lemma close_pre_tmp : forall k o, In o (close_pre k) -> tmp_op (k_sid k) o /\ is_upd o = true.
Proof.
  intros k o H. unfold close_pre in H. apply in_app_or in H. destruct H as [H|H].
  - apply flush_tmp. exact H.
  - simpl in H. repeat (destruct H as [H|H]; [subst o; repeat split; intros; discriminate|]). contradiction.
Qed.

Lemma close_pre_dirty : forall k b acc, dirty_after (close_pre k) (k_sid k) b acc = false.
Proof.
  intros k b acc. unfold close_pre, flush_ops. destruct (k_buf k), b; simpl; rewrite ?N.eqb_refl; simpl; reflexivity.
Qed.

Lemma close_pre_dir : forall k d0 y, d_tmp d0 = true -> d_state d0 = Some y -> sf_c y = [] ->
  let d1 := fold_left (fun d o => dstep o d) (close_pre k) d0 in
  d_sid d1 = d_sid d0 /\ d_tmp d1 = true /\
  (exists x, d_meta d1 = Some x /\ mf_c x = MFull (close_meta k)) /\
  (exists y', d_state d1 = Some y' /\ sf_c y' = k_buf k).
Proof.
  intros k [s0 t0 me sta] [c sy dy] Ht Hs Hc. simpl in *. subst.
  unfold close_pre, flush_ops. destruct (k_buf k) eqn:Eb; simpl; repeat split; eauto.
Qed.

(* ---------------------------------------------------------------- ReapSnapshots *)
Lemma reap_ops_in : forall b retain f1 o, In o (reap_ops b retain f1) ->
  is_rm o = true /\ exists x, In x (skipn (N.to_nat retain) (get_snapshots f1)) /\ op_sid o = Some (fst x).
Proof.
  intros b retain f1 o H. unfold reap_ops in H. apply in_flat_map in H. destruct H as [x [Hx Ho]].
  apply remove_all_ops in Ho. destruct Ho as [H1 H2]. split; [exact H1|]. exists x. auto.
Qed.

Lemma NoDup_app_disj : forall (A : Type) (a b : list A) x, NoDup (a ++ b) -> In x a -> In x b -> False.
Proof.
  induction a as [|y a IH]; simpl; intros b x H Ha Hb; [contradiction|].
  inversion H; subst. destruct Ha as [->|Ha]; [|eauto].
  apply H2. apply in_or_app. right; exact Hb.
Qed.

Lemma snaps_nodup : forall f1, NoDup (map d_sid f1) -> NoDup (map fst (get_snapshots f1)).
Proof. intros f1 H. unfold get_snapshots. apply sort_nodup_fst. apply cand_nodup. exact H. Qed.

Lemma snaps_sorted : forall f1, NoDup (map d_sid f1) -> sorted_desc (get_snapshots f1).
Proof. intros f1 H. unfold get_snapshots. apply sort_sorted. apply cand_nodup. exact H. Qed.

Lemma reap_del_notK : forall f1 n x, NoDup (map d_sid f1) -> In x (skipn n (get_snapshots f1)) ->
  ~ In (fst x) (map fst (firstn n (get_snapshots f1))).
Proof.
  intros f1 n x Hnd Hx Hin. assert (H := snaps_nodup f1 Hnd).
  rewrite <- (firstn_skipn n (get_snapshots f1)), map_app in H.
  eapply NoDup_app_disj; [exact H|exact Hin|]. apply in_map. exact Hx.
Qed.

Lemma reap_RK : forall f1 n, NoDup (map d_sid f1) -> (n < length (get_snapshots f1))%nat ->
  RK n (firstn n (get_snapshots f1)) f1.
Proof.
  intros f1 n Hnd Hlt. assert (Hs := snaps_sorted f1 Hnd). split; [|split; [|split]].
  - apply sorted_nodup. apply sorted_firstn. exact Hs.
  - rewrite firstn_length. lia.
  - intros x Hx. apply in_firstn in Hx. unfold get_snapshots in Hx. apply (proj1 (sort_in _ _)) in Hx. exact Hx.
  - intros c Hc. assert (Hc' : In c (get_snapshots f1)) by (apply (proj2 (sort_in (candidates f1) c)); exact Hc).
    rewrite <- (firstn_skipn n (get_snapshots f1)) in Hc', Hs.
    apply in_app_or in Hc'. destruct Hc' as [Hc'|Hc']; [left; exact Hc'|right].
    intros y Hy. eapply sorted_app; eauto.
Qed.

Lemma QP_reap : forall b retain s h1 f1, Q (N.to_nat retain) s h1 f1 ->
  QP (N.to_nat retain) s h1 f1 (reap_ops b retain f1).
Proof.
  intros b retain s h1 f1 HQ. set (n := N.to_nat retain).
  assert (Hnd := q_nodup _ _ _ _ HQ).
  destruct (le_lt_dec (length (get_snapshots f1)) n) as [Hle|Hlt].
  - unfold reap_ops. fold n. rewrite skipn_all2 by exact Hle. simpl. apply QP_nil. exact HQ.
  - apply (QP_rm n s (firstn n (get_snapshots f1))); [exact HQ|apply reap_RK; assumption|].
    intros o Ho. apply reap_ops_in in Ho. destruct Ho as [Hrm [x [Hx Hs]]].
    split; [exact Hrm|]. exists (fst x). split; [exact Hs|]. apply reap_del_notK; assumption.
Qed.


Lemma in_skipn_in : forall (A : Type) n (l : list A) x, In x (skipn n l) -> In x l.
Proof. intros A n l x H. rewrite <- (firstn_skipn n l). apply in_or_app. right; exact H. Qed.


Definition AllC (s : list sop) (f : fs) : Prop := forall d, In d f -> d_tmp d = false -> Complete s d.

Section CloseOpen.
  Variables (sfirst : bool) (retain : N) (s : list sop) (st : store) (h : list fsop) (sid : N) (k : sink).
  Hypothesis HI : Inv retain s st h.
  Hypothesis Hfk : find_sink (st_sinks st) sid = Some k.
  Hypothesis Hnd : k_done k = false.
  Hypothesis Hin : In sid (created s).
  Let r := N.to_nat retain.
  Let s' := s ++ [SClose sid].
  Let f := st_fs st.

  Lemma close_facts : k_sid k = sid /\ created_as s sid = Some (k_term k, k_index k) /\ ended s sid = None /\
    k_buf k = written s sid /\ ~ In (FRename sid) h /\ OpenDir f sid.
  Proof.
    assert (Hks := find_sink_sid _ _ _ Hfk). split; [exact Hks|].
    destruct (i_sinks _ _ _ _ HI sid Hin) as [k' [Hf' [Hc Hok]]].
    rewrite Hfk in Hf'. inversion Hf'; subst k'. rewrite Hnd, Hks in *. tauto.
  Qed.

  Lemma close_s' : created_as s' sid = Some (k_term k, k_index k) /\ ended s' sid = Some true /\
    written s' sid = k_buf k.
  Proof.
    destruct close_facts as [Hks [Hc [He [Hb _]]]]. unfold s'. split; [|split].
    - eapply created_as_app_some; eauto.
    - rewrite ended_snoc, He. simpl. rewrite N.eqb_refl. reflexivity.
    - rewrite written_snoc, He. simpl. rewrite N.eqb_refl. symmetry. exact Hb.
  Qed.

  Lemma close_QP_pre : QP r s' h f (close_pre k) /\ ~ In (FRename sid) (h ++ close_pre k).
  Proof.
    destruct close_facts as [Hks [_ [_ [_ [Hnr _]]]]]. apply QP_tmp.
    - apply Q_mono, (i_q _ _ _ _ HI).
    - exact Hnr.
    - intros o Ho. rewrite <- Hks. apply close_pre_tmp. exact Ho.
  Qed.

  (* the directory just before the rename *)
  Lemma close_d1 : exists d1, In d1 (fs_run f (close_pre k)) /\ d_sid d1 = sid /\
    Complete s' (dstep (FRename sid) d1).
  Proof.
    destruct close_facts as [Hks [_ [_ [_ [_ [d0 [Hd0 [Hs0 [Ht0 [y [Hy Hc]]]]]]]]]]].
    destruct close_s' as [Hc' [He' Hw']].
    destruct (close_pre_dir k d0 y Ht0 Hy Hc) as [H1 [H2 [[x [Hx Hm]] [y' [Hy' Hcy]]]]].
    eexists. split; [|split].
    - apply run_same; [exact Hd0|]. intros o Ho. destruct (close_pre_tmp k o Ho) as [[Hs _] Hu].
      split; [congruence|exact Hu].
    - congruence.
    - split; [reflexivity|]. rewrite dstep_sid, H1, Hs0. exists (k_term k), (k_index k).
      split; [exact Hc'|split; [exact He'|]]. rewrite Hw'. simpl. split.
      + exists x. split; [exact Hx|exact Hm].
      + exists y'. split; [exact Hy'|exact Hcy].
  Qed.
  Lemma close_Q_ren : Q r s' ((h ++ close_pre k) ++ [FRename sid]) (fs_apply (fs_run f (close_pre k)) (FRename sid)).
  Proof.
    destruct close_facts as [Hks _]. destruct close_QP_pre as [HQP Hnr].
    destruct close_d1 as [d1 [Hd1 [Hs1 HC]]].
    apply (Q_rename_step r s' _ _ sid d1); auto.
    - apply QP_end. exact HQP.
    - intros b. rewrite dirty_app. rewrite <- Hks. apply close_pre_dirty.
  Qed.

  Lemma close_QP1 : QP r s' h f (close_ops1 k).
  Proof.
    destruct close_facts as [Hks _]. destruct close_QP_pre as [HQP Hnr].
    unfold close_ops1. apply QP_app; [exact HQP|]. rewrite Hks.
    apply QP_cons; [apply QP_end; exact HQP|].
    apply QP_cons; [apply close_Q_ren|]. apply QP_nil. apply Q_syncparent_step. apply close_Q_ren.
  Qed.

  Lemma close_ops1_sid : forall o, In o (close_ops1 k) -> (op_sid o = Some sid \/ op_sid o = None) /\
    (forall x, o <> FMkdir x) /\ (forall x, o = FRename x -> x = sid).
  Proof.
    destruct close_facts as [Hks _]. intros o Ho. unfold close_ops1 in Ho. apply in_app_or in Ho.
    destruct Ho as [Ho|Ho].
    - destruct (close_pre_tmp k o Ho) as [[Hs [Hr Hm]] _]. rewrite Hks in Hs.
      split; [left; exact Hs|split; [exact Hm|]]. intros x E. exfalso. eapply Hr; eauto.
    - simpl in Ho. destruct Ho as [Ho|[Ho|[]]]; subst o; simpl.
      + split; [left; congruence|split; [intros; discriminate|]]. intros x E. inversion E. congruence.
      + split; [right; reflexivity|split; intros; discriminate].
  Qed.

  Lemma close_allc1 : AllC s' (fs_run f (close_ops1 k)).
  Proof.
    destruct close_facts as [Hks _]. destruct close_QP_pre as [HQP Hnr].
    destruct close_d1 as [d1 [Hd1 [Hs1 HC]]].
    intros d Hd Ht. destruct (N.eq_dec (d_sid d) sid) as [E|E].
    - unfold close_ops1 in Hd. rewrite fs_run_app, Hks in Hd. simpl in Hd.
      change (upd (fs_run f (close_pre k)) sid (fun d0 => mkDir (d_sid d0) false (d_meta d0) (d_state d0)))
        with (fs_apply (fs_run f (close_pre k)) (FRename sid)) in Hd.
      destruct (apply_in_inv _ (FRename sid) d ltac:(intros; discriminate) Hd) as [d' [Hin' [[E1 E2]|[Hs [Hu E1]]]]].
      + exfalso. apply E2. simpl. subst d'. congruence.
      + simpl in Hs. inversion Hs as [Hs'].
        assert (d' = d1).
        { apply (nodup_sid_eq (fs_run f (close_pre k))); auto; [|congruence].
          apply (q_nodup _ _ _ _ (QP_end _ _ _ _ _ HQP)). }
        subst d' d. exact HC.
    - apply Complete_mono. apply (i_allc _ _ _ _ HI); [|exact Ht].
      apply (run_back (close_ops1 k)); [|exact Hd|].
      + intros o Ho. apply (close_ops1_sid o Ho).
      + intros o Ho Eo. destruct (close_ops1_sid o Ho) as [[H|H] _]; rewrite H in Eo; [|discriminate].
        inversion Eo. congruence.
  Qed.

  Let f1 := fs_run f (close_ops1 k).
  Let ops2 := reap_ops sfirst retain f1.

  Lemma close_Q1 : Q r s' (h ++ close_ops1 k) f1.
  Proof. apply QP_end. apply close_QP1. Qed.

  Lemma close_QP : QP r s' h f (close_ops1 k ++ ops2).
  Proof. apply QP_app; [apply close_QP1|]. apply QP_reap. apply close_Q1. Qed.

  Lemma reap_op_dir : forall o, In o ops2 ->
    is_rm o = true /\ exists d, In d f1 /\ op_sid o = Some (d_sid d) /\ d_tmp d = false /\ In (FRmdir (d_sid d)) ops2.
  Proof.
    intros o Ho. apply reap_ops_in in Ho. destruct Ho as [Hrm [[sx m] [Hx Hs]]]. split; [exact Hrm|].
    assert (Hc : In (sx, m) (candidates f1)).
    { apply in_skipn_in in Hx. unfold get_snapshots in Hx. apply (proj1 (sort_in _ _)) in Hx. exact Hx. }
    apply cand_iff in Hc. destruct Hc as [d [Hd [Hsd He]]]. exists d.
    split; [exact Hd|split; [simpl in Hs; congruence|split; [eapply eligible_nontmp; eauto|]]].
    destruct (find_dir_in f1 d Hd) as [d' Hf]. unfold ops2, reap_ops. apply in_flat_map.
    exists (sx, m). split; [exact Hx|]. simpl. rewrite Hsd in *. eapply remove_all_rmdir; eauto.
  Qed.

  Lemma reap_nomk : forall o, In o ops2 -> forall x, o <> FMkdir x.
  Proof. intros o Ho x E. destruct (reap_op_dir o Ho) as [Hrm _]. subst o. discriminate. Qed.

  Lemma reap_gone : forall d, In d (fs_run f1 ops2) -> forall o, In o ops2 -> op_sid o <> Some (d_sid d).
  Proof.
    intros d Hd o Ho E. destruct (reap_op_dir o Ho) as [_ [d' [Hd' [Hs [_ Hrd]]]]].
    rewrite E in Hs. inversion Hs as [Hs'].
    apply (rmdir_gone ops2 f1 (d_sid d') reap_nomk Hrd d Hd). exact Hs'.
  Qed.

  Lemma close_seg_nomk : forall o, In o (close_ops1 k ++ ops2) -> forall x, o <> FMkdir x.
  Proof.
    intros o Ho. apply in_app_or in Ho. destruct Ho as [Ho|Ho]; [apply (close_ops1_sid o Ho)|apply reap_nomk; exact Ho].
  Qed.

  Lemma close_seg_norename : forall x, x <> sid -> ~ In (FRename x) h -> ~ In (FRename x) (h ++ close_ops1 k ++ ops2).
  Proof.
    intros x Hx Hn Hi. apply in_app_or in Hi. destruct Hi as [Hi|Hi]; [contradiction|].
    apply in_app_or in Hi. destruct Hi as [Hi|Hi].
    - apply Hx. apply (close_ops1_sid _ Hi). reflexivity.
    - destruct (reap_op_dir _ Hi) as [Hrm _]. discriminate.
  Qed.

  Lemma close_open_keep : forall x, x <> sid -> OpenDir f x -> OpenDir (fs_run f (close_ops1 k ++ ops2)) x.
  Proof.
    intros x Hx [d [Hd [Hs [Ht Hrest]]]]. exists d. split; [|auto].
    assert (Hd1 : In d f1).
    { apply run_keep; [exact Hd|]. intros o Ho E.
      destruct (close_ops1_sid o Ho) as [[H|H] _]; rewrite H in E; [|discriminate]. inversion E. congruence. }
    rewrite fs_run_app. apply run_keep; [exact Hd1|]. intros o Ho E.
    destruct (reap_op_dir o Ho) as [_ [d' [Hd' [Hs' [Ht' _]]]]]. rewrite E in Hs'. inversion Hs' as [Hs''].
    assert (d = d') by (apply (nodup_sid_eq f1); auto; apply (q_nodup _ _ _ _ close_Q1)).
    subst d'. congruence.
  Qed.

  Lemma Inv_close_open :
    Inv retain s' (mkStore (st_retain st) (fs_run f (close_ops1 k ++ ops2)) (upd_sink (st_sinks st) sid set_done))
        (h ++ close_ops1 k ++ ops2).
  Proof.
    constructor; cbn [st_fs st_retain st_sinks].
    - apply (i_retain _ _ _ _ HI).
    - apply QP_end. apply close_QP.
    - intros d Hd Ht. rewrite fs_run_app in Hd. apply close_allc1; [|exact Ht].
      apply (run_back ops2); [apply reap_nomk|exact Hd|apply reap_gone; exact Hd].
    - intros d Hd. apply in_created_snoc. destruct (run_sids _ _ d Hd) as [H|H].
      + apply in_map_iff in H. destruct H as [d1 [E H1]]. rewrite <- E. apply (i_sids _ _ _ _ HI). exact H1.
      + exfalso. eapply close_seg_nomk; eauto.
    - apply (sinks_end retain s st h (SClose sid)); simpl; auto.
      + apply close_seg_norename.
      + apply close_open_keep.
    - apply (dom_end retain s st h (SClose sid)); auto.
    - apply NoTouch_snoc; [apply (i_notouch _ _ _ _ HI)|exact Hin].
  Qed.

End CloseOpen.
