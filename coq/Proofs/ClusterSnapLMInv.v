(* ClusterSnapLMInv.v — the cluster-level invariant for the system with snapshot transfer (Model/ClusterSnap.v):
   the invariant of Proofs/ClusterLogInv.v with the per-server part of Proofs/ClusterSnapLMLog.v, requests that are
   chains only above the bound B, and the InstallSnapshot requests; the lemma that re-establishes it when one server changes. *)
From Coq Require Import List NArith Bool Lia.
From stdpp Require Import gmap.
From RaftModel Require Import Base Config Compaction Commitment Node NodeCodec Candidate Leader Replicate Cluster ClusterLog ClusterCommit ClusterSnap.
From RaftProofs Require Import ConfigProofs VoteProofs AppendProofs ClusterProofs
  ClusterLogSpec ClusterLogChain ClusterLogNode ClusterLogVote ClusterLogInv ClusterLogSteps
  ClusterCommitChain ClusterCommitLog ClusterCommitInv ClusterCommitSnapLog
  ClusterCommitUpd ClusterSnapLMSpec ClusterSnapLMLog ClusterSnapLMAE2 ClusterSnapLMNode ClusterSnapLMLeader.
Open Scope N_scope.

(* ---------------------------------------------------------------- the largest snapshot index *)
Lemma fold_max_ge (l : list N) x : In x l -> x <= fold_right N.max 0 l.
Proof. induction l as [|y r IH]; [intros []|]. intros [->|H]; simpl; [lia|specialize (IH H); lia]. Qed.

Lemma fold_max_le (l : list N) b : (forall x, In x l -> x <= b) -> fold_right N.max 0 l <= b.
Proof.
  induction l as [|y r IH]; intros H; simpl; [lia|].
  assert (y <= b) by (apply H; left; reflexivity). assert (fold_right N.max 0 r <= b) by (apply IH; intros x Hx; apply H; right; exact Hx). lia.
Qed.

Lemma max_snap_of_ge s sn : In sn (d_snaps s) -> sn_idx sn <= max_snap_of s.
Proof. intros H. apply fold_max_ge, in_map, H. Qed.

Lemma max_snap_of_incl s s' : incl (d_snaps s) (d_snaps s') -> max_snap_of s <= max_snap_of s'.
Proof.
  intros Hi. apply fold_max_le. intros x Hx. apply in_map_iff in Hx. destruct Hx as (sn & <- & Hsn). apply max_snap_of_ge, Hi, Hsn.
Qed.

Lemma max_snap_idx_ge g n : In n (g_nodes (lg_g g)) -> max_snap_of (image (gn_run n)) <= max_snap_idx g.
Proof. intros H. apply fold_max_ge. apply in_map_iff. exists n. auto. Qed.

(* one server changed and its snapshot store grew *)
Lemma max_snap_idx_upd g g' j n n' : NoDup (map gn_id (g_nodes (lg_g g))) ->
  find_node (g_nodes (lg_g g)) j = Some n -> gn_id n' = j -> g_nodes (lg_g g') = upd_node (g_nodes (lg_g g)) j n' ->
  incl (d_snaps (image (gn_run n))) (d_snaps (image (gn_run n'))) ->
  max_snap_idx g <= max_snap_idx g' /\ max_snap_of (image (gn_run n')) <= max_snap_idx g'.
Proof.
  intros Hnd Hfind Hid Hn' Hi. destruct (find_node_in _ _ _ Hfind) as [Hin Hidn].
  assert (Hin' : In n' (g_nodes (lg_g g'))) by (rewrite Hn'; eapply in_upd_node; eauto).
  split; [|apply max_snap_idx_ge, Hin'].
  apply fold_max_le. intros x Hx. apply in_map_iff in Hx. destruct Hx as (y & <- & Hy).
  destruct (N.eq_dec (gn_id y) j) as [E|Hne].
  - assert (y = n) by (apply (nodup_id_eq _ y n Hnd Hy Hin); congruence). subst y.
    etransitivity; [apply max_snap_of_incl, Hi|apply max_snap_idx_ge, Hin'].
  - apply max_snap_idx_ge. rewrite Hn'. unfold upd_node. apply in_map_iff. exists y.
    destruct (N.eqb_spec (gn_id y) j); [contradiction|auto].
Qed.

Definition ymsg_ok (g : gstate) (C : chain) (B : N) (m : amsg) : Prop :=
  let a := am_req m in
  am_from m <> am_to m /\ In (aq_term a, am_from m) (g_leaders g) /\
  contig (aq_prevIdx a) (aq_entries a) /\
  (forall e, In e (aq_entries a) -> (exists p, In (e, p) C) /\ e_term e <= aq_term a) /\
  ychain C B (aq_prevIdx a, aq_prevTerm a) (aq_entries a) /\
  aq_prevTerm a <= aq_term a /\ (aq_prevIdx a = 0 -> aq_prevTerm a = 0).

Definition ysmsg_ok (g : gstate) (B : N) (m : smsg) : Prop :=
  sm_from m <> sm_to m /\ In (iq_term (sm_req m), sm_from m) (g_leaders g) /\
  iq_lastIdx (sm_req m) <= B /\ iq_lastTerm (sm_req m) <= iq_term (sm_req m).

Record ylinv (cfgs : list config) (B : N) (g : lgstate) (sm : list smsg) (C : chain) : Prop := {
  yl_g : ginv cfgs (lg_g g);
  yl_chain : chain_ok C;
  yl_nodes : forall n, In n (g_nodes (lg_g g)) -> ynlog C B (gn_run n) /\ lead_ok (lg_g g) C n /\ p_rc (gn_P n) = false;
  yl_src : forall e p, In (e, p) C -> term_src (lg_g g) (e_term e);
  yl_leaders : forall T i, In (T, i) (g_leaders (lg_g g)) -> leader_rec_ok (lg_g g) T i;
  yl_msgs : forall m, In m (lg_msgs g) -> ymsg_ok (lg_g g) C B m;
  yl_smsgs : forall m, In m sm -> ysmsg_ok (lg_g g) B m;
  yl_bound : B <= max_snap_idx g;
}.

Lemma ymsg_ok_mono g g' C C' B B' m : incl (g_leaders g) (g_leaders g') -> incl C C' -> B <= B' -> ymsg_ok g C B m -> ymsg_ok g' C' B' m.
Proof.
  intros Hl Hc HB (A1 & A2 & A3 & A4 & A5 & A6 & A7). unfold ymsg_ok. cbv zeta.
  split; [exact A1|]. split; [apply Hl, A2|]. split; [exact A3|]. split.
  - intros e He. destruct (A4 e He) as [(p & Hp) Ht]. split; [exists p; apply Hc, Hp|exact Ht].
  - split; [eapply ychain_mono; eauto|]. auto.
Qed.

Lemma ysmsg_ok_mono g g' B B' m : incl (g_leaders g) (g_leaders g') -> B <= B' -> ysmsg_ok g B m -> ysmsg_ok g' B' m.
Proof. intros Hl HB (A1 & A2 & A3 & A4). split; [exact A1|]. split; [apply Hl, A2|]. split; [lia|exact A4]. Qed.

Section Update.
  Variable cfgs : list config.
  Hypothesis HQ : quorums_intersect cfgs.

  Lemma ylinv_update B B' g g' sm sm' C C' j n n' :
    ylinv cfgs B g sm C -> ginv cfgs (lg_g g') -> B <= B' ->
    find_node (g_nodes (lg_g g)) j = Some n -> gn_id n' = j -> gn_P n' = gn_P n ->
    g_nodes (lg_g g') = upd_node (g_nodes (lg_g g)) j n' ->
    incl (g_leaders (lg_g g)) (g_leaders (lg_g g')) ->
    (forall T i, In (T, i) (g_leaders (lg_g g')) ->
       In (T, i) (g_leaders (lg_g g)) \/ (i = j /\ T <= dt n' /\ gn_sess n' = None)) ->
    incl C C' -> chain_ok C' ->
    (forall x p, In (x, p) C' -> In (x, p) C \/ In (e_term x, j) (g_leaders (lg_g g'))) ->
    dt n <= dt n' -> sess_step_ok n n' ->
    ynlog C' B' (gn_run n') -> lead_ok (lg_g g') C' n' ->
    incl (d_snaps (image (gn_run n))) (d_snaps (image (gn_run n'))) ->
    (B' = B \/ exists sn, In sn (d_snaps (image (gn_run n'))) /\ B' <= N.max B (sn_idx sn)) ->
    (forall m, In m (lg_msgs g') -> In m (lg_msgs g) \/ ymsg_ok (lg_g g') C' B' m) ->
    (forall m, In m sm' -> In m sm \/ ysmsg_ok (lg_g g') B' m) ->
    ylinv cfgs B' g' sm' C'.
  Proof.
    intros [Hg HC Hnodes Hsrc Hlead Hmsgs Hsms Hbd] Hg' HB Hfind Hid' HP' Hn' Hlinc Hlnew Hcinc HC' Hcnew Hdt Hsess Hnl' Hlo' Hgrow Hatt Hm' Hsm'.
    destruct (find_node_in _ _ _ Hfind) as [Hin Hidn].
    assert (Hcases : forall x, In x (g_nodes (lg_g g')) -> x = n' \/ (In x (g_nodes (lg_g g)) /\ gn_id x <> j)).
    { intros x Hx. rewrite Hn' in Hx. destruct (upd_node_in _ _ _ _ Hx) as [[-> _]|H]; auto. }
    assert (Hcarry : forall T, (T <= dt n /\ forall se, gn_sess n = Some se -> T < vq_term (se_req se)) ->
              T <= dt n' /\ forall se, gn_sess n' = Some se -> T < vq_term (se_req se)).
    { intros T [A B0]. split; [lia|]. intros se' Hse'. destruct (Hsess se' Hse') as [(se & Hse & E)|Hlt].
      - rewrite E. apply B0, Hse.
      - lia. }
    constructor.
    - exact Hg'.
    - exact HC'.
    - intros x Hx. destruct (Hcases x Hx) as [->|[Hxo Hxid]].
      { split; [exact Hnl'|]. split; [exact Hlo'|]. rewrite HP'. apply (Hnodes n Hin). }
      destruct (Hnodes x Hxo) as (A & B0 & D). split; [eapply ynlog_mono; eauto|]. split; [|exact D].
      intros s Hs Hr. destruct (B0 s Hs Hr) as (B1 & B2 & B3).
      split; [apply Hlinc, B1|]. split; [exact B2|].
      intros y p Hy Hty. destruct (Hcnew y p Hy) as [Hold|Hnew]; [apply (B3 y p Hold Hty)|].
      exfalso. apply Hxid. rewrite Hty in Hnew.
      apply (leaders_fun cfgs (lg_g g') (v_term s) (gn_id x) j HQ Hg'); [apply Hlinc, B1|exact Hnew].
    - intros e p He. destruct (Hcnew e p He) as [Hold|Hnew]; [|left; eauto].
      destruct (Hsrc e p Hold) as [(id & Hl)|Hd]; [left; exists id; apply Hlinc, Hl|right].
      intros x Hx. destruct (Hcases x Hx) as [->|[Hxo _]]; [apply Hcarry, Hd, Hin|apply Hd, Hxo].
    - intros T i Hl x Hx Hxi. destruct (Hlnew T i Hl) as [Hold|(-> & Ht & Hs)].
      + destruct (Hcases x Hx) as [->|[Hxo _]]; [|apply (Hlead T i Hold x Hxo Hxi)].
        apply Hcarry. apply (Hlead T i Hold n Hin). congruence.
      + destruct (Hcases x Hx) as [->|[_ Hne]]; [|contradiction].
        split; [exact Ht|]. intros se Hse. congruence.
    - intros m Hm. destruct (Hm' m Hm) as [Hold|Hnew]; [|exact Hnew].
      eapply ymsg_ok_mono; [exact Hlinc|exact Hcinc|exact HB|apply Hmsgs, Hold].
    - intros m Hm. destruct (Hsm' m Hm) as [Hold|Hnew]; [|exact Hnew].
      eapply ysmsg_ok_mono; [exact Hlinc|exact HB|apply Hsms, Hold].
    - destruct (max_snap_idx_upd g g' j n n' (gi_ids cfgs _ Hg) Hfind Hid' Hn' Hgrow) as [M1 M2].
      destruct Hatt as [->|(sn & Hsn & Hle)]; [lia|]. pose proof (max_snap_of_ge _ sn Hsn). lia.
  Qed.

  Lemma ynode_wfr B g sm C n : ylinv cfgs B g sm C -> In n (g_nodes (lg_g g)) -> wfr (gn_run n).
  Proof. intros Hinv Hin. destruct (gi_nodes cfgs _ (yl_g cfgs B g sm C Hinv) n Hin) as [(Hw & _) _]. exact Hw. Qed.

  (* a handler ran at j: the ghost history, the leaders and the requests in flight are unchanged; the bound may move up *)
  Lemma ylinv_handler B B' g sm C g' j n r' :
    ylinv cfgs B g sm C -> ginv cfgs g' -> B <= B' ->
    find_node (g_nodes (lg_g g)) j = Some n ->
    g_nodes g' = upd_node (g_nodes (lg_g g)) j (mkGN (gn_P n) r' (keep_sess r' (gn_sess n)) (gn_next n)) ->
    g_leaders g' = g_leaders (lg_g g) ->
    ypost C B' (gn_run n) r' -> d_term (image (gn_run n)) <= d_term (image r') ->
    (B' = B \/ exists sn, In sn (d_snaps (image r')) /\ B' <= N.max B (sn_idx sn)) ->
    ylinv cfgs B' (mkLG g' (lg_msgs g)) sm C.
  Proof.
    intros Hinv Hg' HB Hfind Hn' Hl' (Hnl & Hgrow & Hrole) Hdt Hatt.
    destruct (find_node_in _ _ _ Hfind) as [Hin Hidn].
    apply (ylinv_update B B' g (mkLG g' (lg_msgs g)) sm sm C C j n (mkGN (gn_P n) r' (keep_sess r' (gn_sess n)) (gn_next n)) Hinv Hg' HB Hfind Hidn eq_refl Hn').
    - simpl. rewrite Hl'. apply incl_refl.
    - simpl. rewrite Hl'. intros T i H. left. exact H.
    - apply incl_refl.
    - apply (yl_chain cfgs B g sm C Hinv).
    - intros x p H. left. exact H.
    - exact Hdt.
    - intros se' Hse'. left. simpl in Hse'. unfold keep_sess in Hse'.
      destruct r' as [s'|s']; [|discriminate]. destruct (gn_sess n) as [se|]; [|discriminate].
      destruct (v_role s' =? Candidate); [|discriminate]. inversion Hse'; subst. eauto.
    - exact Hnl.
    - intros s' Hs' Hr. simpl in Hs'. destruct (Hrole s' Hs' Hr) as (s & Hs & Hrs & Hts & His).
      destruct (yl_nodes cfgs B g sm C Hinv n Hin) as (_ & Hlo & _). destruct (Hlo s Hs Hrs) as (L1 & L2 & L3).
      simpl. rewrite Hl'. change (gn_id (mkGN (gn_P n) r' (keep_sess r' (gn_sess n)) (gn_next n))) with (gn_id n).
      rewrite Hts, His. split; [exact L1|]. split; [|exact L3].
      rewrite L2. subst r'. reflexivity.
    - exact Hgrow.
    - exact Hatt.
    - intros m Hm. left. exact Hm.
    - intros m Hm. left. exact Hm.
  Qed.
End Update.
