(* ClusterCommitSnapStepB.v — with snapshots: LSend, LHeartbeat and CGiveUp keep the invariant. *)
From Coq Require Import List NArith Bool Lia.
From stdpp Require Import gmap.
From RaftModel Require Import Base Config Compaction Commitment Node NodeCodec Candidate Leader Replicate Cluster ClusterLog ClusterCommit.
From RaftProofs Require Import ConfigProofs CommitmentProofs VoteProofs ClusterProofs
  ClusterLogSpec ClusterLogChain ClusterLogNode ClusterLogVote ClusterLogLeader ClusterLogInv ClusterLogSteps
  ClusterCommitSpec ClusterCommitLog ClusterCommitChain ClusterCommitNode ClusterCommitGhost
  ClusterCommitInv ClusterCommitUpd ClusterCommitStepA
  ClusterCommitSnapLog ClusterCommitSnapNode ClusterCommitSnapLeader ClusterCommitSnapLinv ClusterCommitSnapInv ClusterCommitSnapFinal
  ClusterCommitSnapUpd ClusterCommitSnapStepA.
Open Scope N_scope.

Section StepB.
  Variable cfg : config.
  Variable Ps : list params.
  Hypothesis HVn : NoDup (voters cfg).

  (* the request setupAppendEntries builds from a leader's log (and snapshot boundary) *)
  Lemma zsetup_send_msg_inv g C LL A V i j n s next last pi pt es c :
    zinv cfg Ps g C LL A V -> In n (cnodes g) -> gn_run n = Up s -> v_role s = Leader -> 1 <= next ->
    setup_send (gn_P n) s next last = SendAE pi pt es c ->
    msg_inv cfg Ps C LL A (mkAM i j (mkAReq (v_term s) i i pi pt es c)) /\
    mchain C (pi, pt) es /\ (forall e, In e es -> e_term e <= v_term s).
  Proof.
    intros HI Hin Hr Hrole Hnext Hs.
    pose proof (zv_ci cfg Ps g C LL A V HI) as Hci. pose proof (ci_ok C LL Hci) as HC.
    destruct (znode_log_in cfg Ps g C LL A V HI n s Hin Hr) as [Hz [_ Hvt]].
    pose proof (zv_node cfg Ps g C LL A V HI n Hin) as (_ & _ & Hn). rewrite Hr in Hn.
    destruct (setup_send_chainS C (gn_P n) s next last pi pt es c HC Hz Hnext Hs) as (M1 & M2 & M3 & M4 & -> & M6).
    split; [|split; [exact M1|intros e He; rewrite Hvt; apply M2, He]].
    assert (Hheld : forall x i0, d_log s !! i0 = Some x -> anc C (key x) (last_entry s)).
    { intros x i0 Hx. rewrite last_entry_lk. apply (zshape_log_lk C _ _ _ _ _ Hz i0 x Hx). }
    assert (Hlast : last_key_of (mkAReq (v_term s) i i pi pt es (v_commit s)) = (0, 0) \/
                    anc C (last_key_of (mkAReq (v_term s) i i pi pt es (v_commit s))) (last_entry s)).
    { unfold last_key_of. cbn [aq_entries aq_prevIdx aq_prevTerm]. destruct es as [|e0 r].
      - destruct M6 as [E|[E|(x & Hx & Ex)]]; [left; exact E|right|right].
        + rewrite E, last_entry_lk. apply (zshape_b_lk C _ _ _ _ _ Hz).
        + rewrite <- Ex. apply (Hheld x _ Hx).
      - right. destruct (M4 (last_of (e0 :: r))) as [k Hk]; [apply last_in; discriminate|]. apply (Hheld _ k Hk). }
    split; [|split]; cbn [am_req aq_entries aq_term aq_prevIdx aq_prevTerm aq_commit].
    - intros e He. destruct (M4 e He) as [k Hk]. split; [apply (zn_dec cfg Ps s Hn k e Hk)|].
      apply (zleader_log_tchain cfg Ps g C LL A V n s k e HI Hin Hr Hrole Hk).
    - exact M3.
    - intros k0 Hanc Hpos Hle. destruct Hlast as [E|Hh].
      + rewrite E in Hanc. apply anc_root in Hanc; [|exact HC]. subst k0. simpl in Hpos. lia.
      + rewrite Hvt. apply (lastk_CK cfg Ps g C LL A V HI n s k0 Hin Hr); [eapply anc_trans; eauto|exact Hpos|lia].
  Qed.

  Theorem zinv_lsend sn g C LL A V i j next last g' : zinv cfg Ps g C LL A V ->
    cstep sn [cfg] g (CBase (LSend i j next last)) = Some g' -> zinv cfg Ps g' C LL A V.
  Proof.
    intros HI Hstep. apply cstep_base_inv in Hstep. destruct Hstep as (Hok & l' & Hl & ->).
    unfold lstep in Hl. fold (cnodes g) in Hl.
    destruct (find_node (cnodes g) i) as [n|] eqn:Hfind; [|discriminate].
    destruct (find_node_in _ _ _ Hfind) as [Hin Hid].
    destruct (gn_run n) as [s|s] eqn:Hrun; [|discriminate].
    destruct ((v_role s =? Leader) && negb (i =? j) && (1 <=? next) && (last <=? last_index s)) eqn:Hc; [|discriminate].
    apply andb_prop in Hc. destruct Hc as [Hc _]. apply andb_prop in Hc. destruct Hc as [Hc Hnext].
    apply andb_prop in Hc. destruct Hc as [Hrole Hij].
    apply N.eqb_eq in Hrole. apply N.leb_le in Hnext. apply negb_true_iff in Hij. apply N.eqb_neq in Hij.
    destruct (setup_send (gn_P n) s next last) as [pi pt es c| |] eqn:Hsend; try discriminate.
    inversion Hl; subst l'. clear Hl. cbn [lg_g g_nodes].
    rewrite (refresh_same _ _ (znodes_nodup cfg Ps g C LL A V HI)).
    destruct (zsetup_send_msg_inv g C LL A V i j n s next last pi pt es c HI Hin Hrun Hrole Hnext Hsend) as (Hmi & Hmc & Hts).
    unfold send_ok in Hok. destruct (find_lead (cg_lead g) i) as [ld|] eqn:Hfl; [|discriminate].
    apply (zinv_send_msg cfg Ps g C LL A V i n s (mkAM i j (mkAReq (v_term s) i i pi pt es c)) _ HI Hfind Hrun Hrole); try reflexivity.
    - exact Hij.
    - exact Hmc.
    - exact Hts.
    - exact Hmi.
    - right. cbn [base_leads]. rewrite Hfl. exists ld, (with_out ld j (Some (length (lg_msgs (cg_l g))))). auto 10.
  Qed.

  Theorem zinv_lheartbeat sn g C LL A V i j g' : zinv cfg Ps g C LL A V ->
    cstep sn [cfg] g (CBase (LHeartbeat i j)) = Some g' -> zinv cfg Ps g' C LL A V.
  Proof.
    intros HI Hstep. apply cstep_base_inv in Hstep. destruct Hstep as (_ & l' & Hl & ->).
    unfold lstep in Hl. fold (cnodes g) in Hl.
    destruct (find_node (cnodes g) i) as [n|] eqn:Hfind; [|discriminate].
    destruct (gn_run n) as [s|s] eqn:Hrun; [|discriminate].
    destruct ((v_role s =? Leader) && negb (i =? j)) eqn:Hc; [|discriminate].
    apply andb_prop in Hc. destruct Hc as [Hrole Hij].
    apply N.eqb_eq in Hrole. apply negb_true_iff in Hij. apply N.eqb_neq in Hij.
    inversion Hl; subst l'. clear Hl. cbn [lg_g g_nodes].
    rewrite (refresh_same _ _ (znodes_nodup cfg Ps g C LL A V HI)).
    pose proof (ci_ok C LL (zv_ci cfg Ps g C LL A V HI)) as HC.
    apply (zinv_send_msg cfg Ps g C LL A V i n s (mkAM i j (mkAReq (v_term s) i i 0 0 [] 0)) _ HI Hfind Hrun Hrole); try reflexivity.
    - exact Hij.
    - intros e [].
    - split; [intros e []|]. split; [left; reflexivity|].
      intros k0 Hanc Hpos _. unfold last_key_of in Hanc. cbn in Hanc. apply anc_root in Hanc; [|exact HC]. subst k0. simpl in Hpos. lia.
    - left. reflexivity.
  Qed.

  Theorem zinv_giveup sn g C LL A V i j g' : zinv cfg Ps g C LL A V ->
    cstep sn [cfg] g (CGiveUp i j) = Some g' -> zinv cfg Ps g' C LL A V.
  Proof.
    intros HI Hstep. apply cstep_giveup_inv in Hstep. destruct Hstep as (n & ld & s & k & Hf & Hfl & Hr & _ & _ & ->).
    apply (zinv_bookkeeping cfg Ps g _ C LL A V [] [] HI); try reflexivity.
    - cbn. rewrite app_nil_r. reflexivity.
    - cbn [cg_l]. apply (zv_l cfg Ps g C LL A V HI).
    - intros m [].
    - cbn. rewrite app_nil_r. reflexivity.
    - intros x [].
    - apply (zleads_same_cm cfg g _ C LL A i ld (with_out ld j None)); auto. apply (zv_lead cfg Ps g C LL A V HI).
  Qed.
End StepB.
