(* ClusterCommitSnapStepQ.v — setupLeaderState for a new leader whose last index is that of its no-op
   (no assumption on the snapshot index). *)
From Coq Require Import List NArith Bool Lia.
From stdpp Require Import gmap.
From RaftModel Require Import Base Config Compaction Commitment Node NodeCodec Candidate Leader Replicate Cluster ClusterLog ClusterCommit.
From RaftProofs Require Import ConfigProofs CommitmentProofs VoteProofs ClusterProofs
  ClusterLogSpec ClusterLogChain ClusterLogNode ClusterLogVote ClusterLogLeader ClusterLogInv ClusterLogSteps
  ClusterCommitSpec ClusterCommitLog ClusterCommitChain ClusterCommitNode ClusterCommitGhost
  ClusterCommitInv ClusterCommitUpd ClusterCommitStepA ClusterCommitStepC ClusterCommitQuorum ClusterCommitStepQ.
Open Scope N_scope.

Section Fresh.
  Variable cfg : config.
  Hypothesis HVn : NoDup (voters cfg).

  (* setupLeaderState for a server that has just stored the no-op e of its term after the key ck *)
  Lemma lead_inv_freshS g' C LL A n' s'' e ck P :
    In (v_term s'', gn_id n', ck) LL -> find_lead (cg_lead g') (gn_id n') = Some (fresh_lead P s'') -> p_self P = gn_id n' ->
    (forall x p, In (x, p) C -> e_term x = v_term s'' -> x = e) -> In (e, ck) C ->
    topk s'' = key e -> e_term e = v_term s'' -> e_idx e = fst ck + 1 -> last_index s'' = e_idx e ->
    cfg_or_nil cfg (v_latest s'') -> v_commit s'' < e_idx e ->
    In (gn_id n', key e) A ->
    lead_inv cfg g' C LL A n' s''.
  Proof.
    intros HL Hfl Hself Hone Hin Htop Het Hidx Hli Hlat Hc Hacc.
    unfold fresh_lead in Hfl. rewrite Hli in Hfl.
    destruct (cm_new_facts (v_latest s'') (e_idx e)) as (F1 & F2 & F3 & F4).
    destruct (cm_match_step (cm_new (v_latest s'') (e_idx e)) (p_self P) (e_idx e)) as (M1 & M2 & M3 & M4 & M5). cbv zeta in *.
    set (cm' := cm_step (cm_new (v_latest s'') (e_idx e)) (CMatch (p_self P) (e_idx e))) in *.
    exists ck, (mkLead cm' (match d_log s'' !! e_idx e with Some e0 => [(e0, 0)] | None => [] end) (e_idx e) [] [] false).
    cbn [ld_cm ld_next0 ld_notified].
    assert (L7 : forall j v, cm_match cm' !! j = Some v -> v < e_idx e \/ In (j, (v, v_term s'')) A).
    { intros j v Hv. destruct (M2 j v Hv) as [[-> ->]|Hold].
      - right. rewrite Hself. unfold key in Hacc. rewrite Het in Hacc. exact Hacc.
      - left. rewrite (F3 j v Hold). lia. }
    assert (L8 : (forall j, cm_match cm' !! j = None) \/ (forall j, is_Some (cm_match cm' !! j) <-> In j (voters cfg))).
    { destruct Hlat as [E|E].
      - right. intros j. rewrite M3, F4, E. reflexivity.
      - left. intros j. destruct (cm_match cm' !! j) eqn:Ex; [|reflexivity].
        assert (Hs : is_Some (cm_match (cm_new (v_latest s'') (e_idx e)) !! j)) by (apply M3; rewrite Ex; eauto).
        apply F4 in Hs. rewrite E in Hs. destruct Hs. }
    split; [exact HL|]. split; [exact Hfl|]. split.
    { intros x p Hx Hxt. rewrite (Hone x p Hx Hxt), Htop. apply anc_refl. }
    split; [unfold topk, key in Htop; inversion Htop; congruence|]. split; [exact Hidx|]. split; [rewrite M1; exact F1|].
    split; [exact L7|]. split; [exact L8|]. split.
    { destruct M5 as [Eq|(Hlt & Hst & Hq)]; [left; rewrite Eq; exact F2|right]. rewrite F1 in Hst. split; [exact Hst|].
      destruct L8 as [Hnone|Hslots].
      - exfalso. unfold quorum_ok in Hq. assert (Hsz : size (cm_match cm') = 0%nat).
        { apply map_size_empty_iff. apply map_eq. intros k. rewrite lookup_empty. apply Hnone. }
        pose proof (count_ge_le_length (cm_commit cm') (match_vals (cm_match cm'))) as Hcl. rewrite <- size_match_vals in Hcl. lia.
      - destruct (ClusterCommitQuorum.quorum_ok_majority (cm_match cm') (voters cfg) _ HVn Hslots Hq) as (W & HW & Hall).
        exists W. split; [exact HW|]. intros w Hw. destruct (Hall w Hw) as (v & Hv & Hle). exists v. split; [exact Hle|].
        destruct (L7 w v Hv) as [Hc'|Hc']; [lia|exact Hc']. }
    split; [left; exact Hc|discriminate].
  Qed.
End Fresh.
