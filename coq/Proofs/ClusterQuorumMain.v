(* ClusterQuorumMain.v — the statements of Proofs/ClusterQuorumSpec.v over ALL RUNS of Model/ClusterCommit.v.

   PROVED AS STATED (side conditions: cinit_ok / cinit_snap_ok, label_ok, as for State Machine Safety):
     commit_backed_all_runs, commit_backed_all_runs_snapshots,
     own_term_rule_all_runs, own_term_rule_all_runs_snapshots.
   REFUTED: commit_monotone_all_runs (commit_monotone_all_runs_refuted, Proofs/ClusterQuorumMonoCex.v): the
     model also restarts a server, in ONE step, when the process dies inside an RPC handler (crash cut of
     LDeliver / GVoteReq / GInput, or a panic): NewRaft starts with commitIndex 0 and the label is not
     GInput w NRestart.
   PROVED INSTEAD: commit_monotone_crash_all_runs - the same statement with exactly one more exception,
     dies_in_handler g l w (Proofs/ClusterQuorumMonoSpec.v): the handler the step runs at w ends with
     observation OLost.  So: a step never lowers the commit index of a server that runs before and after
     it, except a step that restarts that very server - by label or by a crash inside its handler.
     commit_monotone_all_runs_no_crash: the statement as given, for steps in which no handler dies. *)
From Coq Require Import List NArith Bool Lia.
From stdpp Require Import gmap.
From RaftModel Require Import Base Config Compaction Commitment Node NodeCodec Candidate Leader Replicate Cluster ClusterLog ClusterCommit.
From RaftProofs Require Import ConfigProofs ClusterCommitSpec ClusterCommitGhost ClusterCommitInv ClusterCommitInit2 ClusterCommitMain
  ClusterCommitSnapSpec ClusterCommitSnapInv ClusterCommitSnapMain
  ClusterQuorumSpec ClusterQuorumBacked ClusterQuorumBackedSnap ClusterQuorumMonoSpec ClusterQuorumMono ClusterQuorumMonoCex.
Open Scope N_scope.

Lemma reach_cinv cfg g0 ls g : cinit_ok cfg g0 -> Forall label_ok ls -> crun false [cfg] g0 ls = Some g ->
  NoDup (voters cfg) /\ Cinv cfg (map gn_P (cnodes g0)) g.
Proof.
  intros H0 Hls Hrun. pose proof H0 as (_ & _ & _ & _ & HVn & _). split; [exact HVn|].
  destruct (cinit_cinv cfg g0 H0) as [C0 HI0].
  apply (crun_cinv cfg (map gn_P (cnodes g0)) HVn ls g0 g (ex_intro _ C0 (ex_intro _ [] (ex_intro _ [] (ex_intro _ [] HI0)))) Hls Hrun).
Qed.

Lemma reach_zinv sn cfg g0 ls g : cinit_snap_ok cfg g0 -> Forall label_ok ls -> crun sn [cfg] g0 ls = Some g ->
  NoDup (voters cfg) /\ Zinv cfg (map gn_P (cnodes g0)) g.
Proof.
  intros H0 Hls Hrun. pose proof H0 as ((_ & _ & _ & _ & HVn & _) & _). split; [exact HVn|].
  apply (crun_zinv cfg (map gn_P (cnodes g0)) HVn sn ls g0 g (cinit_zinv cfg g0 H0) Hls Hrun).
Qed.

Theorem commit_backed_all_runs : forall cfg g0 ls g,
  cinit_ok cfg g0 -> Forall label_ok ls -> crun false [cfg] g0 ls = Some g -> commit_backed cfg g.
Proof.
  intros cfg g0 ls g H0 Hls Hrun. destruct (reach_cinv cfg g0 ls g H0 Hls Hrun) as [HVn (C & LL & A & V & HI)].
  apply (cinv_commit_backed cfg _ HVn g C LL A V HI).
Qed.

Theorem commit_backed_all_runs_snapshots : forall cfg g0 ls g,
  cinit_snap_ok cfg g0 -> Forall label_ok ls -> crun true [cfg] g0 ls = Some g -> commit_backed_snap cfg g.
Proof.
  intros cfg g0 ls g H0 Hls Hrun. destruct (reach_zinv true cfg g0 ls g H0 Hls Hrun) as [HVn (C & LL & A & V & HI)].
  apply (zinv_commit_backed_snap cfg _ HVn g C LL A V HI).
Qed.

Theorem own_term_rule_all_runs : forall cfg g0 ls g,
  cinit_ok cfg g0 -> Forall label_ok ls -> crun false [cfg] g0 ls = Some g -> own_term_rule cfg g.
Proof.
  intros cfg g0 ls g H0 Hls Hrun. destruct (reach_cinv cfg g0 ls g H0 Hls Hrun) as [HVn (C & LL & A & V & HI)].
  apply (cinv_own_term_rule cfg _ HVn g C LL A V HI).
Qed.

Theorem own_term_rule_all_runs_snapshots : forall cfg g0 ls g,
  cinit_snap_ok cfg g0 -> Forall label_ok ls -> crun true [cfg] g0 ls = Some g -> own_term_rule_snap cfg g.
Proof.
  intros cfg g0 ls g H0 Hls Hrun. destruct (reach_zinv true cfg g0 ls g H0 Hls Hrun) as [HVn (C & LL & A & V & HI)].
  apply (zinv_own_term_rule_snap cfg _ HVn g C LL A V HI).
Qed.

(* commit_monotone_all_runs as stated is false: *)
Theorem commit_monotone_all_runs_is_false :
  ~ (forall sn cfg g0 ls g l g',
       cinit_snap_ok cfg g0 -> Forall label_ok ls -> crun sn [cfg] g0 ls = Some g ->
       label_ok l -> cstep sn [cfg] g l = Some g' -> commit_monotone_step g l g').
Proof.
  intros H. destruct commit_monotone_all_runs_refuted as (sn & cfg & g0 & ls & g & l & g' & H0 & Hls & Hrun & Hl & Hstep & Hn).
  apply Hn. apply (H sn cfg g0 ls g l g' H0 Hls Hrun Hl Hstep).
Qed.

(* the variant that holds: one more exception, the crash inside the handler the step runs at that server *)
Theorem commit_monotone_crash_all_runs : forall sn cfg g0 ls g l g',
  cinit_snap_ok cfg g0 -> Forall label_ok ls -> crun sn [cfg] g0 ls = Some g ->
  label_ok l -> cstep sn [cfg] g l = Some g' -> commit_monotone_step_crash g l g'.
Proof.
  intros sn cfg g0 ls g l g' H0 Hls Hrun _ Hstep. destruct (reach_zinv sn cfg g0 ls g H0 Hls Hrun) as [_ (C & LL & A & V & HI)].
  apply (cstep_mono cfg _ g C LL A V HI sn l g' Hstep).
Qed.

(* the statement as given, for the steps in which no process dies inside a handler *)
Corollary commit_monotone_all_runs_no_crash : forall sn cfg g0 ls g l g',
  cinit_snap_ok cfg g0 -> Forall label_ok ls -> crun sn [cfg] g0 ls = Some g ->
  label_ok l -> cstep sn [cfg] g l = Some g' -> (forall w, ~ dies_in_handler g l w) -> commit_monotone_step g l g'.
Proof.
  intros sn cfg g0 ls g l g' H0 Hls Hrun Hl Hstep Hnd n n' s s' Hn Hn' Hid Hr Hr'.
  destruct (commit_monotone_crash_all_runs sn cfg g0 ls g l g' H0 Hls Hrun Hl Hstep n n' s s' Hn Hn' Hid Hr Hr') as [H|[H|H]];
    [left; exact H|right; exact H|destruct (Hnd _ H)].
Qed.

Print Assumptions commit_backed_all_runs.
Print Assumptions commit_backed_all_runs_snapshots.
Print Assumptions own_term_rule_all_runs.
Print Assumptions own_term_rule_all_runs_snapshots.
Print Assumptions commit_monotone_all_runs_refuted.
Print Assumptions commit_monotone_all_runs_is_false.
Print Assumptions commit_monotone_crash_all_runs.
Print Assumptions commit_monotone_all_runs_no_crash.
