(* ClusterCommitSnapStepI.v — with snapshots: CCommit (the commitCh case of leaderLoop) keeps the invariant. *)
From Coq Require Import List NArith Bool Lia.
From stdpp Require Import gmap.
From RaftModel Require Import Base Config Compaction Commitment Node NodeCodec Candidate Leader Replicate Cluster ClusterLog ClusterCommit.
From RaftProofs Require Import ConfigProofs CommitmentProofs VoteProofs ClusterProofs
  ClusterLogSpec ClusterLogChain ClusterLogNode ClusterLogVote ClusterLogLeader ClusterLogInv ClusterLogSteps
  ClusterCommitSpec ClusterCommitLog ClusterCommitChain ClusterCommitNode ClusterCommitGhost
  ClusterCommitInv ClusterCommitUpd ClusterCommitStepA
  ClusterCommitSnapLog ClusterCommitSnapNode ClusterCommitSnapLeader ClusterCommitSnapLeader2 ClusterCommitSnapLinv ClusterCommitSnapLinv2
  ClusterCommitSnapInv ClusterCommitSnapFinal ClusterCommitSnapUpd ClusterCommitSnapStepA.
Open Scope N_scope.

Section StepI.
  Variable cfg : config.
  Variable Ps : list params.
  Hypothesis HVn : NoDup (voters cfg).
  Let HQ := quorums_intersect_one' cfg HVn.

  Lemma majority_nonempty (vs W : list N) : majority vs W -> exists w, In w W.
  Proof. intros (_ & _ & H). destruct W as [|w r]; [simpl in H; lia|exists w; left; reflexivity]. Qed.

  (* an index that a majority accepted in the leader's term is in the leader's log *)
  Lemma QA_le_top g C LL A V n s q : zinv cfg Ps g C LL A V -> In n (cnodes g) -> gn_run n = Up s -> v_role s = Leader ->
    QA cfg A q (v_term s) -> q <= v_lastLogIdx s.
  Proof.
    intros HI Hin Hr Hrole (W & HW & Hall). destruct (majority_nonempty _ _ HW) as [w Hw].
    destruct (Hall w Hw) as (v & Hv & Ha).
    destruct (vi_ac cfg C LL A V (zv_vi cfg Ps g C LL A V HI) w (v, v_term s) Ha) as [(x & p & Hx & Ex) _].
    destruct (zv_lead cfg Ps g C LL A V HI n s Hin Hr Hrole) as [(tl & ld & _ & _ & L3 & _) _].
    assert (Ext : e_term x = v_term s) by (inversion Ex; reflexivity).
    destruct (anc_le C _ _ (ci_ok C LL (zv_ci cfg Ps g C LL A V HI)) (L3 x p Hx Ext)) as [Hle _].
    rewrite Ex in Hle. simpl in Hle. lia.
  Qed.

  Theorem zinv_commit sn g C LL A V i g' : zinv cfg Ps g C LL A V ->
    cstep sn [cfg] g (CCommit i) = Some g' -> zinv cfg Ps g' C LL A V.
  Proof.
    intros HI Hstep. apply cstep_commit_inv in Hstep.
    destruct Hstep as (n & ld & s & ls2 & tr & res & Hf & Hfl & Hr & Hrole & Hnt & Hlc & ->).
    destruct (find_node_in _ _ _ Hf) as [Hin Hid].
    pose proof (zv_l cfg Ps g C LL A V HI) as Hl. pose proof (zv_ci cfg Ps g C LL A V HI) as Hci.
    destruct (zl_nodes [cfg] _ C Hl n Hin) as [_ Hlead]. destruct (Hlead s Hr Hrole) as (_ & Hsn & _).
    destruct (zv_lead cfg Ps g C LL A V HI n s Hin Hr Hrole) as [(tl & ld0 & L1 & L2 & L3 & L4 & L5 & L6 & L7 & L8 & L9 & L10 & L11) [Z1 Z2]].
    rewrite Hid, Hfl in L2. inversion L2; subst ld0. clear L2.
    pose proof (L11 Hnt) as Hq0. destruct L9 as [L9|[L9a L9b]]; [contradiction|].
    assert (Hvc : v_commit s <= cm_commit (ld_cm ld)) by lia.
    pose proof (leader_commit_ckeep _ _ _ _ Hlc) as (K & Kc & Kcm & _). cbn [l_node l_cm] in K, Kc, Kcm.
    set (s2 := l_node ls2) in *. pose proof K as (K1 & K2 & K3 & K4 & K5 & K6 & K7 & K8 & K9 & K10 & K11 & K12 & K13 & K14).
    set (n' := mkGN (gn_P n) (Up s2) (keep_sess (Up s2) (gn_sess n)) (gn_next n)).
    assert (Hs' : gn_sess n' = None) by (unfold n'; cbn [gn_sess]; rewrite Hsn; reflexivity).
    assert (Hdt : d_term s2 = d_term s) by (unfold dproj in K1; congruence).
    destruct (znode_log_in cfg Ps g C LL A V HI n s Hin Hr) as [Hz [_ Hvt]]. pose proof (leader_commit_fsm s (ld_cm ld) (ld_infl ld) ls2 tr res (log_in_keys C _ _ (zs_in _ _ _ _ _ _ Hz)) Hlc) as [Hinfl Hfsm]. fold s2 in Hfsm.
    match goal with |- zinv _ _ ?G _ _ _ _ => set (g' := G) end.
    apply (zinv_update cfg Ps HVn g g' C [] LL [] A [] V [] i n n' HI Hf Hid eq_refl) with (mn := []) (an := []) (Gn := []).
    - unfold dtn. rewrite Hr. cbn [n' gn_run image]. lia.
    - apply (zlinv_volatile [cfg] HQ (cg_l g) C i n s s2 Hl Hf Hr Hrole K1 K7 (ckeep_lkeep _ _ K) K11). left. congruence.
    - exact Hci.
    - intros w T' c kw rq k k0 [].
    - intros w T' c kw rq k k0 _ [].
    - intros T' c tl' [].
    - intros w T' c kw rq [].
    - intros w k [].
    - pose proof (zv_node cfg Ps g C LL A V HI n Hin) as (N1 & N2 & N3). rewrite Hr in N3.
      split; [exact N1|]. split; [exact N2|]. cbn [n' gn_run].
      pose proof (leader_commit_ckeep _ _ _ _ Hlc) as (_ & _ & _ & Kcc & _). cbn [l_node] in Kcc. fold s2 in Kcc.
      pose proof (zn_sa cfg Ps s N3). pose proof (zn_ac cfg Ps s N3). pose proof (zn_fa cfg Ps s N3). pose proof (zn_fs cfg Ps s N3).
      constructor; rewrite ?K2, ?K3, ?K12, ?K10, ?Kc.
      + apply (zn_dec cfg Ps s N3).
      + apply (zn_scfg cfg Ps s N3).
      + apply (zn_lat cfg Ps s N3).
      + destruct Kcc as [-> | ->]; [apply (zn_com cfg Ps s N3)|apply (zn_lat cfg Ps s N3)].
      + destruct Hfsm as [[E _]|(E & _)]; lia.
      + destruct Hfsm as [[E _]|(E1 & E2 & _)]; lia.
      + destruct Hfsm as [[E1 E2]|(E1 & E2 & [E3|(e & E4 & E5 & _)])]; [rewrite E1, E2; assumption|rewrite E3; lia|].
        rewrite E5. unfold key. simpl. lia.
      + destruct Hfsm as [[E1 E2]|(E1 & E2 & [E3|(e & E4 & E5 & _)])]; [rewrite E2; assumption|rewrite E3; assumption|].
        right. rewrite E5. unfold key. simpl. lia.
    - (* what the leader now knows to be committed *)
      intros s0 Hs0. cbn [n' gn_run] in Hs0. inversion Hs0; subst s0. unfold last_index. rewrite Kc, K8, K10. split.
      + pose proof (QA_le_top g C LL A V n s _ HI Hin Hr Hrole L9b). lia.
      + intros j e He Hj. rewrite K2 in He. exists (v_term s), (cm_commit (ld_cm ld)). split; [lia|]. split; [exact L9b|].
        split; [apply (zleader_log_tchain cfg Ps g C LL A V n s j e HI Hin Hr Hrole He)|].
        destruct (zs_in _ _ _ _ _ _ Hz j e He) as (Ie & _).
        unfold key. simpl. lia.
    - (* its snapshots *)
      intros sn0 Hsn0. cbn [n' gn_run image] in Hsn0. rewrite K3 in Hsn0. unfold dtn. cbn [n' gn_run image]. rewrite Hdt.
      pose proof (zv_sk cfg Ps g C LL A V HI n sn0 Hin) as H. unfold dtn in H. rewrite Hr in H. apply H, Hsn0.
    - (* the position of its FSM *)
      intros s0 Hs0. cbn [n' gn_run] in Hs0. inversion Hs0; subst s0. rewrite Hdt.
      destruct Hfsm as [[_ E2]|(E1 & E2 & [E3|(e & E4 & E5 & E6)])]; try (rewrite ?E2, ?E3; apply (zv_fsm cfg Ps g C LL A V HI n s Hin Hr)).
      right. rewrite E5. destruct E6 as [(fid & E6)|(j & E6)].
      + assert (Hfl' : find_lead (cg_lead g) (gn_id n) = Some ld) by (rewrite Hid; exact Hfl).
        destruct (Z2 ld Hfl' e fid E6) as [Et (p & Pp)].
        split; [exists e, p; auto|]. exists (v_term s), (cm_commit (ld_cm ld)). split; [lia|]. split; [exact L9b|].
        split; [eapply tchain_created; [exact L1|exists e, p; auto|exact Et]|]. unfold key. simpl. lia.
      + destruct (zs_in _ _ _ _ _ _ Hz j e E6) as (Ie & (p & Pp) & _). split; [exists e, p; auto|].
        exists (v_term s), (cm_commit (ld_cm ld)). split; [lia|]. split; [exact L9b|].
        split; [apply (zleader_log_tchain cfg Ps g C LL A V n s j e HI Hin Hr Hrole E6)|]. unfold key. simpl. lia.
    - cbn. rewrite app_nil_r. reflexivity.
    - intros m [].
    - cbn. rewrite app_nil_r. reflexivity.
    - intros x [].
    - intros w k [].
    - intros k k0 Ha Hanc Hpos. rewrite <- Hid in Ha.
      destruct (zv_av cfg Ps g C LL A V HI (gn_id n) k n k0 Ha Hin eq_refl Hanc Hpos) as [H|(T2 & c2 & tl2 & H1 & H2 & H3 & H4)].
      + left. unfold covers in *. rewrite Hr in H. cbn [n' gn_run image] in *. rewrite K2, K3. exact H.
      + right. exists T2, c2, tl2. split; [exact H1|]. split; [exact H2|]. split; [|exact H4].
        unfold dtn in *. rewrite Hr in H3. cbn [n' gn_run image]. simpl in H3. lia.
    - intros w k x k0 [].
    - intros w T' c kw rq [].
    - intros se' H. rewrite Hs' in H. discriminate.
    - intros w T' c kw rq xc se [].
    - reflexivity.
    - intros w T' c [].
    - intros se H. rewrite Hs' in H. discriminate.
    - intros T' c Hlv. cbn [n' gn_run image] in Hlv. unfold live in Hlv. rewrite K1 in Hlv.
      destruct (zv_live cfg Ps g C LL A V HI n T' c Hin) as [(kw & rq & H)|H]; [rewrite Hr; exact Hlv| |right; exact H].
      left. exists kw, rq. rewrite <- Hid. exact H.
    - apply (zv_ll cfg Ps g C LL A V HI).
    - intros i' Hne. cbn [g' cg_lead]. apply find_lead_set_other, Hne.
    - intros y p [].
    - (* the leadership state after the commit *)
      intros s0 Hs0 Hl0. cbn [n' gn_run] in Hs0. inversion Hs0; subst s0.
      split; [|split; [rewrite K8, K10; exact Z1|]].
      + exists tl, (with_notified (with_cm ld (l_cm ls2) (l_inflight ls2)) false).
        cbn [g' cg_lead]. change (gn_id n') with (gn_id n).
        rewrite Hid, find_lead_set_same. cbn [ld_cm ld_next0 ld_notified with_notified with_cm]. rewrite Kcm, K7.
        unfold topk. rewrite K8, K9, Kc. rewrite <- Hid.
        split; [exact L1|]. split; [reflexivity|]. split; [exact L3|]. split; [exact L4|]. split; [exact L5|]. split; [exact L6|].
        split; [exact L7|]. split; [exact L8|]. split; [right; auto|]. split; [right; lia|discriminate].
      + intros ldx Hx. cbn [g' cg_lead] in Hx. change (gn_id n') with (gn_id n) in Hx. rewrite Hid, find_lead_set_same in Hx.
        inversion Hx; subst ldx. intros e fid He. cbn [ld_infl with_notified with_cm] in He. rewrite K7.
        assert (Hfl' : find_lead (cg_lead g) (gn_id n) = Some ld) by (rewrite Hid; exact Hfl).
        apply (Z2 ld Hfl' e fid). apply Hinfl, He.
  Qed.
End StepI.
