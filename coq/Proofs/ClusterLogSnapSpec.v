(* ClusterLogSnapSpec.v — initial states for Log Matching WITH takeSnapshot (lrun true).

   Proofs/ClusterLogSnapCex.v shows that the initial states of ClusterLogSpec.v are too many once
   snapshots exist: a bogus commit index lets a server apply, and then snapshot, entries that a
   later leader truncates.  In Model/ClusterLog.v no step moves a leader's commit index, so what the
   servers ever apply is bounded by the commit indices of the initial state.  linit_snap_ok adds to
   linit_ok the statement that those are HONEST: there is a number c0 (the committed prefix) with
     - every server holds the history up to c0 (c0 = 0, or its log holds an entry at index c0:
       logs are prefixes of the history);
     - every commit index in the state is <= c0: the volatile one of a running server, and the
       durable ones (staged / persisted, used by RestoreCommittedLogs at the next boot);
     - the FSM goroutine's (lastIndex, lastTerm) of a running server is (0, _) or the (index, term)
       of one of the first c0 entries of the history, and is not beyond lastApplied.
   A freshly booted cluster (all of these 0) satisfies it with c0 = 0; then nothing is ever applied
   and takeSnapshot never has anything to record.  With c0 > 0 snapshots are taken and logs are
   compacted. *)
From Coq Require Import List NArith Bool Lia.
From stdpp Require Import gmap.
From RaftModel Require Import Base Config Compaction Commitment Node NodeCodec Candidate Leader Replicate Cluster ClusterLog.
From RaftProofs Require Import VoteProofs ClusterProofs ClusterLogSpec.
Open Scope N_scope.

(* x is the (index, term) of one of the first c0 entries of the history *)
Definition bkey (base : list entry) (c0 : N) (x : N * N) : Prop :=
  1 <= fst x <= c0 /\ exists e, nth_error base (N.to_nat (fst x - 1)) = Some e /\ key e = x.

Definition fsm_ok (base : list entry) (c0 : N) (x : N * N) : Prop := fst x = 0 \/ bkey base c0 x.

Definition node_init_snap (base : list entry) (c0 : N) (n : gnode) : Prop :=
  node_init base n /\
  (c0 = 0 \/ exists e, d_log (image (gn_run n)) !! c0 = Some e) /\
  d_pcommit (image (gn_run n)) <= c0 /\ d_staged (image (gn_run n)) <= c0 /\
  match gn_run n with
  | Up s => v_commit s <= c0 /\ fsm_ok base c0 (v_fsmLast s) /\ fst (v_fsmLast s) <= v_applied s
  | Down _ => True
  end.

Definition linit_snap_ok (g : lgstate) : Prop :=
  ginit_ok (lg_g g) /\ lg_msgs g = [] /\
  exists base c0, hist_ok (0, 0) base /\ forall n, In n (g_nodes (lg_g g)) -> node_init_snap base c0 n.

Lemma linit_snap_linit g : linit_snap_ok g -> linit_ok g.
Proof.
  intros (A & B & base & c0 & Hh & Hn). split; [exact A|]. split; [exact B|].
  exists base. split; [exact Hh|]. intros n Hin. apply (Hn n Hin).
Qed.
