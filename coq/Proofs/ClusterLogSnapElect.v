(* ClusterLogSnapElect.v — stage 2: election steps, a new leader's no-op and dispatchLogs keep the
   invariant. *)
From Coq Require Import List NArith Bool Lia.
From stdpp Require Import gmap.
From RaftModel Require Import Base Config Compaction Commitment Node NodeCodec Candidate Leader Replicate Cluster ClusterLog.
From RaftProofs Require Import ConfigProofs VoteProofs ClusterProofs
  ClusterLogSpec ClusterLogChain ClusterLogNode ClusterLogVote ClusterLogLeader ClusterLogInv ClusterLogSteps ClusterLogInit
  ClusterLogSnapSpec ClusterLogSnapNode ClusterLogSnapState ClusterLogSnapVote ClusterLogSnapLeader ClusterLogSnapInv ClusterLogSnapSteps.
Open Scope N_scope.

Section SElect.
  Variable base : list entry.
  Variable c0 : N.
  Hypothesis Hh : hist_ok (0, 0) base.
  Variable cfgs : list config.
  Hypothesis HQ : quorums_intersect cfgs.

  Lemma plain_sinv g C g1 j n s s' sess' next' :
    sinv base c0 cfgs g C -> ginv cfgs g1 ->
    find_node (g_nodes (lg_g g)) j = Some n -> gn_run n = Up s ->
    g_nodes g1 = upd_node (g_nodes (lg_g g)) j (mkGN (gn_P n) (Up s') sess' next') ->
    g_leaders g1 = g_leaders (lg_g g) ->
    skeep s' s -> d_term s <= d_term s' -> v_role s' <> Leader ->
    (forall se, sess' = Some se ->
       (exists se0, gn_sess n = Some se0 /\ vq_term (se_req se) = vq_term (se_req se0)) \/ d_term s < vq_term (se_req se)) ->
    sinv base c0 cfgs (mkLG g1 (lg_msgs g)) C.
  Proof.
    intros Hinv Hg1 Hfind Hrun Hn1 Hl1 Hk Hdt Hrole Hsess.
    destruct (find_node_in _ _ _ Hfind) as [Hin Hid].
    destruct (sv_nodes base c0 cfgs g C Hinv n Hin) as [Hnl _]. rewrite Hrun in Hnl. simpl in Hnl.
    apply (sinv_update base c0 cfgs HQ g (mkLG g1 (lg_msgs g)) C C j n (mkGN (gn_P n) (Up s') sess' next') Hinv Hg1 Hfind Hid Hn1).
    - simpl. rewrite Hl1. apply incl_refl.
    - simpl. rewrite Hl1. intros T i H. left. exact H.
    - apply incl_refl.
    - apply (sv_chain base c0 cfgs g C Hinv).
    - intros x p H. left. exact H.
    - unfold dt. simpl. rewrite Hrun. exact Hdt.
    - intros se Hse. simpl in Hse. unfold dt. rewrite Hrun. simpl. apply Hsess, Hse.
    - simpl. eapply sup_keep; eauto.
    - intros s0 Hs0 Hr. simpl in Hs0. inversion Hs0; subst. contradiction.
    - intros m Hm. left. exact Hm.
  Qed.

  (* the leader i stored the new entry after last_entry sL; used for the no-op and for dispatchLogs *)
  Lemma leader_entry_sinv g C g1 j n s sL s' ty data next' :
    sinv base c0 cfgs g C -> ginv cfgs g1 ->
    find_node (g_nodes (lg_g g)) j = Some n -> gn_run n = Up s ->
    g_nodes g1 = upd_node (g_nodes (lg_g g)) j (mkGN (gn_P n) (Up s') None next') ->
    incl (g_leaders (lg_g g)) (g_leaders g1) ->
    (forall T i, In (T, i) (g_leaders g1) -> In (T, i) (g_leaders (lg_g g)) \/ (i = j /\ T = v_term sL)) ->
    In (v_term sL, j) (g_leaders g1) ->
    sup base c0 C sL -> d_term s <= d_term sL -> v_term sL = d_term sL ->
    (forall x p, In (x, p) C -> e_term x = v_term sL -> e_idx x <= v_lastLogIdx sL) ->
    (* what dispatch did *)
    dproj s' = dproj sL -> v_term s' = v_term sL -> d_snaps s' = d_snaps sL ->
    v_lastSnapIdx s' = v_lastSnapIdx sL -> v_lastSnapTerm s' = v_lastSnapTerm sL ->
    v_commit s' = v_commit sL -> v_applied s' = v_applied sL -> v_fsmLast s' = v_fsmLast sL ->
    d_staged s' <= c0 -> d_pcommit s' <= c0 ->
    d_log s' = log_store (d_log sL) [new_entry sL ty data] ->
    v_lastLogIdx s' = last_index sL + 1 -> v_lastLogTerm s' = v_term sL ->
    exists C', sinv base c0 cfgs (mkLG g1 (lg_msgs g)) C'.
  Proof.
    intros Hinv Hg1 Hfind Hrun Hn1 Hlinc Hlnew Hlin HnL Hdt Hvt Hnone Dd Dv Dsn Dsi Dst Dcm Dap Dfs Dsg Dpc Dl Dci Dct.
    destruct (find_node_in _ _ _ Hfind) as [Hin Hid].
    pose proof (sv_chain base c0 cfgs g C Hinv) as HCB. pose proof (cb_chain base c0 C HCB) as HC.
    destruct (last_entry_facts base c0 Hh C sL HCB HnL) as (L1 & L2 & L3 & L4 & L5 & L6).
    set (e := new_entry sL ty data) in *.
    assert (Dt : d_term s' = d_term sL) by (unfold dproj in Dd; inversion Dd; reflexivity).
    assert (He1 : e_idx e = last_index sL + 1) by reflexivity.
    assert (He2 : e_term e = v_term sL) by reflexivity.
    pose proof (last_index_entry sL) as Hli.
    exists ((e, last_entry sL) :: C).
    apply (sinv_update base c0 cfgs HQ g (mkLG g1 (lg_msgs g)) C ((e, last_entry sL) :: C) j n
             (mkGN (gn_P n) (Up s') None next') Hinv Hg1 Hfind Hid Hn1).
    - exact Hlinc.
    - intros T i H. destruct (Hlnew T i H) as [Ho|[-> ->]]; [left; exact Ho|right].
      split; [reflexivity|]. split; [|reflexivity]. unfold dt. simpl. rewrite Dt. lia.
    - intros x Hx. right. exact Hx.
    - apply cb_ok_cons; auto.
      + intros x q Hx Hkey. unfold key in Hkey. inversion Hkey as [[K1 K2]].
        pose proof (Hnone x q Hx (eq_trans K2 He2)). lia.
      + rewrite He1, Hli. reflexivity.
      + rewrite He2. lia.
      + rewrite He1, Hli. lia.
    - intros x p [E|H]; [|left; exact H]. inversion E; subst x p. right. exact Hlin.
    - unfold dt. simpl. rewrite Hrun, Dt. simpl. exact Hdt.
    - intros se Hse. discriminate.
    - simpl. apply (leader_append_sup base c0 Hh C sL s' e HCB HnL He1); try congruence.
      + rewrite Dt, He2. lia.
      + rewrite Dt. lia.
    - intros s0 Hs0 Hr. simpl in Hs0. inversion Hs0; subst s0. simpl. rewrite Dv.
      change (gn_id (mkGN (gn_P n) (Up s') None next')) with (gn_id n). rewrite Hid.
      split; [exact Hlin|]. split; [reflexivity|].
      intros x p [E|H] Ht.
      + inversion E; subst. rewrite Dci. lia.
      + pose proof (Hnone x p H Ht). rewrite Dci, Hli. lia.
    - intros m Hm. left. exact Hm.
  Qed.
End SElect.
