(* ClusterLogSnapSteps.v — stage 2: handlers (vote requests, stray inputs, takeSnapshot, delivered
   AppendEntries) and the sending of requests keep the invariant. *)
From Coq Require Import List NArith Bool Lia.
From stdpp Require Import gmap.
From RaftModel Require Import Base Config Compaction Commitment Node NodeCodec Candidate Leader Replicate Cluster ClusterLog.
From RaftProofs Require Import ConfigProofs VoteProofs ClusterProofs
  ClusterLogSpec ClusterLogChain ClusterLogNode ClusterLogVote ClusterLogInv ClusterLogSteps ClusterLogInit
  ClusterLogSnapSpec ClusterLogSnapNode ClusterLogSnapState ClusterLogSnapVote ClusterLogSnapTake
  ClusterLogSnapAppend3 ClusterLogSnapLeader ClusterLogSnapInv.
Open Scope N_scope.

Section SSteps.
  Variable base : list entry.
  Variable c0 : N.
  Hypothesis Hh : hist_ok (0, 0) base.
  Variable cfgs : list config.
  Hypothesis HQ : quorums_intersect cfgs.

  Lemma snode_wfr g C n : sinv base c0 cfgs g C -> In n (g_nodes (lg_g g)) -> wfr (gn_run n).
  Proof. intros Hinv Hin. destruct (gi_nodes cfgs _ (sv_g base c0 cfgs g C Hinv) n Hin) as [(Hw & _) _]. exact Hw. Qed.

  Lemma shandler g C j nj e cut fs r' ob out g1 :
    sinv base c0 cfgs g C -> find_node (g_nodes (lg_g g)) j = Some nj ->
    step_full (gn_P nj) (gn_run nj) e cut fs = (r', ob, out) ->
    ginv cfgs g1 ->
    g_nodes g1 = upd_node (g_nodes (lg_g g)) j (mkGN (gn_P nj) r' (keep_sess r' (gn_sess nj)) (gn_next nj)) ->
    g_leaders g1 = g_leaders (lg_g g) ->
    step_post2 base c0 C (gn_run nj) r' -> sinv base c0 cfgs (mkLG g1 (lg_msgs g)) C.
  Proof.
    intros Hinv Hfind Hstep Hg1 Hn1 Hl1 Hpost.
    destruct (find_node_in _ _ _ Hfind) as [Hin _].
    eapply (sinv_handler base c0 cfgs HQ g C g1 j nj r'); eauto.
    eapply step_dterm; [eapply snode_wfr; eauto|exact Hstep].
  Qed.

  (* one event at one server: the node part *)
  Lemma event_post g C nj e cut fs r' ob out :
    sinv base c0 cfgs g C -> In nj (g_nodes (lg_g g)) -> input_ok true e = true ->
    step_full (gn_P nj) (gn_run nj) e cut fs = (r', ob, out) -> step_post2 base c0 C (gn_run nj) r'.
  Proof.
    intros Hinv Hin Hok Hstep.
    pose proof (sv_chain base c0 cfgs g C Hinv) as HC.
    pose proof (snode_wfr g C nj Hinv Hin) as Hw.
    destruct (sv_nodes base c0 cfgs g C Hinv nj Hin) as [Hnl _].
    destruct e; simpl in Hok; try discriminate.
    - eapply simple_step2; eauto. exact I.
    - eapply simple_step2; eauto. exact I.
    - eapply simple_step2; eauto. exact I.
    - eapply simple_step2; eauto. exact I.
    - (* takeSnapshot *)
      destruct (gn_run nj) as [s|s] eqn:Hrun.
      + eapply snapshot_step; eauto.
      + simpl in Hstep. inversion Hstep; subst. split; [exact Hnl|]. intros s' Hs'. discriminate.
  Qed.

  Lemma sinput g C j e cut fs g1 :
    sinv base c0 cfgs g C -> input_ok true e = true -> gstep cfgs (lg_g g) (GInput j e cut fs) = Some g1 ->
    sinv base c0 cfgs (mkLG g1 (lg_msgs g)) C.
  Proof.
    intros Hinv Hok Hstep.
    pose proof (gstep_inv cfgs _ _ _ (sv_g base c0 cfgs g C Hinv) Hstep) as Hg1.
    unfold gstep in Hstep.
    destruct (find_node (g_nodes (lg_g g)) j) as [nj|] eqn:Hfj; [|destruct e; discriminate].
    destruct (step_full (gn_P nj) (gn_run nj) e cut fs) as [[r' ob] out] eqn:Hsf.
    assert (E : g1 = mkG (upd_node (g_nodes (lg_g g)) j (mkGN (gn_P nj) r' (keep_sess r' (gn_sess nj)) (gn_next nj)))
                         (g_resps (lg_g g)) (g_leaders (lg_g g)) (grant_ghost j ob ++ g_grants (lg_g g))).
    { destruct e; simpl in Hok; try discriminate; inversion Hstep; reflexivity. }
    subst g1. destruct (find_node_in _ _ _ Hfj) as [Hin _].
    eapply shandler; eauto. eapply event_post; eauto.
  Qed.

  Lemma svotereq g C i j cut fs g1 :
    sinv base c0 cfgs g C -> gstep cfgs (lg_g g) (GVoteReq i j cut fs) = Some g1 ->
    sinv base c0 cfgs (mkLG g1 (lg_msgs g)) C.
  Proof.
    intros Hinv Hstep.
    pose proof (gstep_inv cfgs _ _ _ (sv_g base c0 cfgs g C Hinv) Hstep) as Hg1.
    unfold gstep in Hstep.
    destruct (find_node (g_nodes (lg_g g)) i) as [ni|] eqn:Hfi; [|discriminate].
    destruct (find_node (g_nodes (lg_g g)) j) as [nj|] eqn:Hfj; [|discriminate].
    destruct (gn_sess ni) as [se|]; [|discriminate].
    destruct (negb (mem j (se_asked se))); [discriminate|].
    destruct (step_full (gn_P nj) (gn_run nj) (NVote (se_req se)) cut fs) as [[r' ob] out] eqn:Hsf.
    inversion Hstep; subst g1. clear Hstep. destruct (find_node_in _ _ _ Hfj) as [Hin _].
    eapply shandler; eauto. eapply (event_post g C nj (NVote (se_req se))); eauto.
  Qed.

  Lemma sdeliver g C m cut fs g1 :
    sinv base c0 cfgs g C -> In m (lg_msgs g) ->
    gstep cfgs (lg_g g) (GInput (am_to m) (NAppend (am_req m)) cut fs) = Some g1 ->
    sinv base c0 cfgs (mkLG g1 (lg_msgs g)) C.
  Proof.
    intros Hinv Hm Hstep.
    pose proof (gstep_inv cfgs _ _ _ (sv_g base c0 cfgs g C Hinv) Hstep) as Hg1.
    unfold gstep in Hstep.
    destruct (find_node (g_nodes (lg_g g)) (am_to m)) as [nj|] eqn:Hfj; [|discriminate].
    destruct (step_full (gn_P nj) (gn_run nj) (NAppend (am_req m)) cut fs) as [[r' ob] out] eqn:Hsf.
    inversion Hstep; subst g1. clear Hstep.
    destruct (find_node_in _ _ _ Hfj) as [Hin Hid].
    eapply shandler; eauto.
    destruct (sv_msgs base c0 cfgs g C Hinv m Hm) as ((Hft & Hld & Hmc & Hterm) & Hcm).
    destruct (sv_nodes base c0 cfgs g C Hinv nj Hin) as [Hnl Hlo].
    pose proof (snode_wfr g C nj Hinv Hin) as Hw.
    destruct (gn_run nj) as [s|s] eqn:Hrun.
    - eapply (append_step2 base c0 Hh C (sv_chain base c0 cfgs g C Hinv)); eauto.
      intros Hr Ht. destruct (Hlo s Hrun Hr) as (L1 & _). rewrite <- Ht in L1.
      apply Hft. rewrite <- Hid.
      apply (leaders_fun cfgs (lg_g g) _ _ _ HQ (sv_g base c0 cfgs g C Hinv) Hld L1).
    - simpl in Hsf. inversion Hsf; subst. split; [exact Hnl|]. intros s' Hs'. discriminate.
  Qed.

  Lemma ssend g C i n s m :
    sinv base c0 cfgs g C -> find_node (g_nodes (lg_g g)) i = Some n -> gn_run n = Up s -> v_role s = Leader ->
    am_from m = i -> am_from m <> am_to m -> aq_term (am_req m) = v_term s ->
    mchain C (aq_prevIdx (am_req m), aq_prevTerm (am_req m)) (aq_entries (am_req m)) ->
    (forall e, In e (aq_entries (am_req m)) -> e_term e <= v_term s) -> aq_commit (am_req m) <= c0 ->
    sinv base c0 cfgs (mkLG (lg_g g) (lg_msgs g ++ [m])) C.
  Proof.
    intros Hinv Hfind Hrun Hrole Hfrom Hne Hterm Hmc Hts Hcm.
    destruct (find_node_in _ _ _ Hfind) as [Hin Hid].
    destruct (sv_nodes base c0 cfgs g C Hinv n Hin) as [_ Hlo]. destruct (Hlo s Hrun Hrole) as (L1 & _).
    destruct Hinv as [A B D E F G]. constructor; auto.
    intros m' Hm'. simpl in Hm'. apply in_app_iff in Hm'. destruct Hm' as [Hm'|[<-|[]]]; [apply G, Hm'|].
    split; [|exact Hcm].
    split; [exact Hne|]. split; [simpl; rewrite Hterm, Hfrom, <- Hid; exact L1|]. split; [exact Hmc|].
    rewrite Hterm. exact Hts.
  Qed.
End SSteps.
