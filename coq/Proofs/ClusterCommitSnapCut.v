(* ClusterCommitSnapCut.v — a handler completed, or the process died inside it and NewRaft ran on
   the image left by a prefix of its trace; the durable image seen through (term, log, snapshots). *)
From Coq Require Import List NArith Bool Lia.
From stdpp Require Import gmap.
From RaftModel Require Import Base Config Compaction Node NodeCodec.
From RaftProofs Require Import VoteProofs RecoverProofs ClusterLogSpec ClusterLogChain ClusterLogNode ClusterLogCut ClusterLogVote
  ClusterLogSnapCut ClusterCommitChain ClusterCommitInv ClusterCommitSnapLog ClusterCommitSnapBoot.
Open Scope N_scope.

Lemma finish_cases {R} P (enc : R -> list N) (mk : R -> nobs) si s cut (o : outcome R) r' ob out :
  finish P enc mk si s cut o = (r', ob, out) ->
  (exists s1 r tr fs', o = Done s1 r tr fs' /\ r' = Up s1 /\ ob = mk r) \/
  (exists k oo, boot P (cut_image P si s (trace_of o) k) = (r', oo) /\ ob = OLost).
Proof.
  unfold finish. destruct o as [s1 r tr fs'|s1 tr].
  - destruct ((0 <? cut) && (N.to_nat cut <=? count_durable tr)%nat).
    + destruct (boot P (cut_image P si s tr (N.to_nat cut))) as [rr oo] eqn:EB.
      intros H; inversion H; subst. right. exists (N.to_nat cut), oo. auto.
    + intros H; inversion H; subst. left. exists s1, r, tr, fs'. auto.
  - destruct (boot P (cut_image P si s tr (length tr))) as [rr oo] eqn:EB.
    intros H; inversion H; subst. right. exists (length tr), oo. auto.
Qed.

(* without snapshot info: the image is a prefix of the (term, log) operations, the snapshot store is untouched *)
Lemma cut_none_zimg C P s tr k :
  (forall j, let d := fold_left tl_apply (firstn j (tlf tr)) (tlp s) in zimgS C (fst d) (snd d) (d_snaps s)) ->
  zimg C (cut_image P None s tr k).
Proof.
  intros H. destruct (cut_image_tl P tr s k) as (j & Hj & Hs).
  destruct (prefix_tlf tr (tlp s) j) as (j' & Hj'). rewrite Hj' in Hj.
  specialize (H j'). cbv zeta in H. rewrite <- Hj in H. unfold zimg. rewrite Hs. exact H.
Qed.

Lemma cut_none_tlp P s tr k : exists j, tlp (cut_image P None s tr k) = fold_left tl_apply (firstn j (tlf tr)) (tlp s) /\
  d_snaps (cut_image P None s tr k) = d_snaps s.
Proof.
  destruct (cut_image_tl P tr s k) as (j & Hj & Hs). destruct (prefix_tlf tr (tlp s) j) as (j' & Hj').
  exists j'. rewrite <- Hj'. auto.
Qed.

(* with snapshot info (takeSnapshot): the image through the durable projection of ClusterLogSnapCut *)
Lemma cut_some_dpr P si s tr k : exists j, dpr (cut_image P si s tr k) = fold_left (d_apply P si) (firstn j (dlf tr)) (dpr s).
Proof.
  destruct (cut_image_d P si tr s k) as (j & Hj). destruct (prefix_dlf P si tr (dpr s) j) as (j' & Hj').
  exists j'. rewrite <- Hj'. exact Hj.
Qed.

(* a handler that only writes the term (and the vote) *)
Lemma term_only_zimg C s tr : zimg C s -> term_only s tr ->
  forall j, let d := fold_left tl_apply (firstn j (tlf tr)) (tlp s) in zimgS C (fst d) (snd d) (d_snaps s) /\ snd d = d_log s /\ d_term s <= fst d.
Proof.
  intros Hi [E|(t & E & Ht)] j; rewrite E; cbv zeta.
  - destruct j; simpl; (split; [exact Hi|split; [reflexivity|lia]]).
  - destruct j as [|[|j]]; simpl; (split; [|split; [reflexivity|lia]]); try exact Hi;
      (eapply zimgS_mono; [apply incl_refl|exact Ht|exact Hi]).
Qed.
