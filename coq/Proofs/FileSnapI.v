(* FileSnapI.v — every script op preserves Inv, and Q holds at every prefix of its segment;
   hence Q holds at every prefix of the whole program. *)
From Coq Require Import List Arith NArith Bool Lia Permutation.
From RaftModel Require Import FileSnap FileSnapSpec.
From RaftProofs Require Import FileSnapA FileSnapB FileSnapC FileSnapD FileSnapE FileSnapF FileSnapG FileSnapH.
Import ListNotations.
Open Scope N_scope.

Definition wf_op (s : list sop) (o : sop) : Prop :=
  match o with SCreate sid _ _ => ~ In sid (created s) | _ => In (sop_sid o) (created s) end.

Lemma exec_fs : forall sfirst st o,
  st_fs (fst (exec_op sfirst st o)) = fs_run (st_fs st) (snd (exec_op sfirst st o)).
Proof.
  intros sfirst st [sid t i|sid b|sid|sid]; unfold exec_op; try reflexivity;
    destruct (find_sink (st_sinks st) sid) as [k|]; try reflexivity;
    destruct (k_done k); try reflexivity; cbn [fst snd st_fs]; rewrite !fs_run_app; reflexivity.
Qed.

Lemma step_both : forall sfirst retain s st h o, Inv retain s st h -> wf_op s o ->
  Inv retain (s ++ [o]) (fst (exec_op sfirst st o)) (h ++ snd (exec_op sfirst st o)) /\
  QP (N.to_nat retain) (s ++ [o]) h (st_fs st) (snd (exec_op sfirst st o)).
Proof.
  intros sfirst retain s st h o HI Hwf. destruct o as [sid t i|sid b|sid|sid]; simpl in Hwf.
  - split; [apply Inv_create; assumption|]. apply QP_create; assumption.
  - split; [apply Inv_write; assumption|]. simpl. apply QP_nil. apply Q_mono, (i_q _ _ _ _ HI).
  - destruct (i_sinks _ _ _ _ HI sid Hwf) as [k [Hf _]]. destruct (k_done k) eqn:Hd.
    + assert (E : exec_op sfirst st (SClose sid) = (st, [])) by (unfold exec_op; rewrite Hf, Hd; reflexivity).
      rewrite E. cbn [fst snd]. rewrite app_nil_r. split.
      * apply Inv_noop; simpl; auto. intros k' Hk'. congruence.
      * apply QP_nil. apply Q_mono, (i_q _ _ _ _ HI).
    + rewrite (exec_close sfirst st sid k Hf Hd). cbn [fst snd]. rewrite (i_retain _ _ _ _ HI).
      split.
      * pose proof (Inv_close_open sfirst retain s st h sid k HI Hf Hd Hwf) as H.
        rewrite (i_retain _ _ _ _ HI) in H. exact H.
      * apply close_QP; assumption.
  - destruct (i_sinks _ _ _ _ HI sid Hwf) as [k [Hf _]]. destruct (k_done k) eqn:Hd.
    + assert (E : exec_op sfirst st (SCancel sid) = (st, [])) by (unfold exec_op; rewrite Hf, Hd; reflexivity).
      rewrite E. cbn [fst snd]. rewrite app_nil_r. split.
      * apply Inv_noop; simpl; auto. intros k' Hk'. congruence.
      * apply QP_nil. apply Q_mono, (i_q _ _ _ _ HI).
    + rewrite (exec_cancel sfirst st sid k Hf Hd). cbn [fst snd].
      destruct (cancel_sinkok retain s st h sid k HI Hf Hd Hwf) as [Hks Hnr].
      split.
      * apply (Inv_tmp_end retain s st h (SCancel sid)); simpl; auto.
        intros o' Ho'. rewrite <- Hks. eapply cancel_tmp; eauto.
      * apply (cancel_QP sfirst retain s st h sid k); assumption.
Qed.

Lemma run_script_cons : forall sfirst st o rest,
  snd (run_script sfirst st (o :: rest)) =
  snd (exec_op sfirst st o) :: snd (run_script sfirst (fst (exec_op sfirst st o)) rest).
Proof.
  intros. simpl. destruct (exec_op sfirst st o) as [st1 ops]. simpl.
  destruct (run_script sfirst st1 rest). reflexivity.
Qed.

Lemma wf_head : forall seen past o rest, (forall x, In x seen <-> In x (created past)) ->
  wf_from seen (o :: rest) ->
  wf_op past o /\ exists seen', (forall x, In x seen' <-> In x (created (past ++ [o]))) /\ wf_from seen' rest.
Proof.
  intros seen past o rest Heq Hwf. destruct o as [sid t i|sid b|sid|sid]; simpl in Hwf; destruct Hwf as [H1 H2].
  - split; [simpl; rewrite <- Heq; exact H1|]. exists (sid :: seen). split; [|exact H2].
    intros x. rewrite created_app. simpl. rewrite in_app_iff, <- Heq. simpl. tauto.
  - split; [simpl; rewrite <- Heq; exact H1|]. exists seen. split; [|exact H2].
    intros x. rewrite created_app. simpl. rewrite app_nil_r. apply Heq.
  - split; [simpl; rewrite <- Heq; exact H1|]. exists seen. split; [|exact H2].
    intros x. rewrite created_app. simpl. rewrite app_nil_r. apply Heq.
  - split; [simpl; rewrite <- Heq; exact H1|]. exists seen. split; [|exact H2].
    intros x. rewrite created_app. simpl. rewrite app_nil_r. apply Heq.
Qed.

Lemma run_prefix : forall sfirst retain rest past st h seen, Inv retain past st h ->
  (forall x, In x seen <-> In x (created past)) -> wf_from seen rest ->
  forall j, Q (N.to_nat retain) (past ++ rest)
              (h ++ firstn j (concat (snd (run_script sfirst st rest))))
              (fs_run (st_fs st) (firstn j (concat (snd (run_script sfirst st rest))))).
Proof.
  intros sfirst retain. induction rest as [|o rest IH]; intros past st h seen HI Heq Hwf j.
  - simpl. rewrite firstn_nil, !app_nil_r. simpl. apply (i_q _ _ _ _ HI).
  - destruct (wf_head _ _ _ _ Heq Hwf) as [Hop [seen' [Heq' Hwf']]].
    destruct (step_both sfirst retain past st h o HI Hop) as [HI' HQP].
    rewrite run_script_cons. simpl concat. rewrite firstn_app.
    set (ops := snd (exec_op sfirst st o)) in *.
    replace (past ++ o :: rest) with ((past ++ [o]) ++ rest) by (rewrite <- app_assoc; reflexivity).
    destruct (le_lt_dec j (length ops)) as [Hle|Hgt].
    + replace (j - length ops)%nat with 0%nat by lia. simpl. rewrite app_nil_r.
      apply Q_mono. apply HQP.
    + rewrite (firstn_all2 ops) by lia. rewrite app_assoc, fs_run_app.
      unfold ops at 3. rewrite <- exec_fs. eapply IH; eauto.
Qed.

Theorem prog_Q : forall sfirst retain script, well_formed script -> forall j,
  Q (N.to_nat retain) script (firstn j (program sfirst retain script))
    (fs_run [] (firstn j (program sfirst retain script))).
Proof.
  intros sfirst retain script Hwf j.
  apply (run_prefix sfirst retain script [] (mkStore retain [] []) [] []); auto.
  - apply Inv_init.
  - intros x. simpl. tauto.
Qed.
