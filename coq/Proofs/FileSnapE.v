(* FileSnapE.v — runs of several ops: which directories stay, which go. *)
From Coq Require Import List Arith NArith Bool Lia Permutation.
From RaftModel Require Import FileSnap FileSnapSpec.
From RaftProofs Require Import FileSnapA FileSnapB FileSnapC FileSnapD.
Import ListNotations.
Open Scope N_scope.

Lemma run_keep : forall ops f d, In d f -> (forall o, In o ops -> op_sid o <> Some (d_sid d)) ->
  In d (fs_run f ops).
Proof.
  induction ops as [|o ops IH]; simpl; intros f d Hd H; [exact Hd|].
  apply IH; [|intros; apply H; right; assumption].
  apply apply_in_other; [exact Hd|]. apply H. left; reflexivity.
Qed.

Lemma run_back : forall ops f d', (forall o, In o ops -> forall x, o <> FMkdir x) ->
  In d' (fs_run f ops) -> (forall o, In o ops -> op_sid o <> Some (d_sid d')) -> In d' f.
Proof.
  induction ops as [|o ops IH]; simpl; intros f d' Hm Hd H; [exact Hd|].
  apply IH in Hd; [|intros; apply Hm; right; assumption|intros; apply H; right; assumption].
  destruct (apply_in_inv f o d' (Hm o (or_introl eq_refl)) Hd) as [d [Hin [[E _]|[Hs [Hu E]]]]].
  - subst; exact Hin.
  - exfalso. apply (H o (or_introl eq_refl)). rewrite Hs, E, dstep_sid. reflexivity.
Qed.

Lemma mkdir_dec : forall o, (exists x, o = FMkdir x) \/ (forall x, o <> FMkdir x).
Proof. intros []; try (right; intros; discriminate). left; eauto. Qed.

Lemma run_sids : forall ops f d', In d' (fs_run f ops) ->
  In (d_sid d') (map d_sid f) \/ In (FMkdir (d_sid d')) ops.
Proof.
  induction ops as [|o ops IH]; simpl; intros f d' Hd; [left; apply in_map; exact Hd|].
  destruct (IH _ _ Hd) as [H|H]; [|right; right; exact H].
  apply in_map_iff in H. destruct H as [d1 [E H1]].
  destruct (mkdir_dec o) as [[x Ex]|Hm].
  - subst o. simpl in H1. apply in_app_or in H1. destruct H1 as [H1|[<-|[]]].
    + left. rewrite <- E. apply in_map. exact H1.
    + right. left. simpl in E. rewrite E. reflexivity.
  - destruct (apply_in_inv f o d1 Hm H1) as [d [Hin [[E' _]|[Hs [Hu E']]]]];
      left; rewrite <- E, E'; try rewrite dstep_sid; apply in_map; exact Hin.
Qed.

Lemma run_same : forall ops f d, In d f ->
  (forall o, In o ops -> op_sid o = Some (d_sid d) /\ is_upd o = true) ->
  In (fold_left (fun d o => dstep o d) ops d) (fs_run f ops).
Proof.
  induction ops as [|o ops IH]; simpl; intros f d Hd H; [exact Hd|].
  destruct (H o (or_introl eq_refl)) as [Hs Hu].
  apply IH; [apply apply_in_same; assumption|].
  intros o' Ho'. rewrite dstep_sid. apply H. right; exact Ho'.
Qed.

Lemma rmdir_gone : forall ops f sid, (forall o, In o ops -> forall x, o <> FMkdir x) ->
  In (FRmdir sid) ops -> forall d, In d (fs_run f ops) -> d_sid d <> sid.
Proof.
  induction ops as [|o ops IH]; simpl; intros f sid Hm Hin d Hd; [contradiction|].
  destruct Hin as [E|Hin].
  - subst o. intro Es. 
    destruct (run_sids ops _ d Hd) as [H|H].
    + apply in_map_iff in H. destruct H as [d1 [E1 H1]]. simpl in H1. apply filter_In in H1.
      destruct H1 as [_ H1]. rewrite E1, Es, N.eqb_refl in H1. discriminate.
    + eapply Hm; [right; exact H|reflexivity].
  - eapply IH; eauto.
Qed.

Definition tmp_op (sid : N) (o : fsop) : Prop :=
  op_sid o = Some sid /\ (forall x, o <> FRename x) /\ (forall x, o <> FMkdir x).

Lemma QP_tmp : forall r s sid ops h f, Q r s h f -> ~ In (FRename sid) h ->
  (forall o, In o ops -> tmp_op sid o) ->
  QP r s h f ops /\ ~ In (FRename sid) (h ++ ops).
Proof.
  induction ops as [|o ops IH]; intros h f HQ Hn Hall.
  - split; [apply QP_nil; exact HQ|rewrite app_nil_r; exact Hn].
  - destruct (Hall o (or_introl eq_refl)) as [Hs [Hr Hm]].
    destruct (IH (h ++ [o]) (fs_apply f o)) as [H1 H2].
    + eapply Q_tmp_step; eauto.
    + intro Hi. apply in_snoc_ne in Hi; [contradiction|]. intro E. eapply Hr. symmetry. exact E.
    + intros o' Ho'. apply Hall. right; exact Ho'.
    + split; [apply QP_cons; assumption|]. rewrite <- app_assoc in H2. exact H2.
Qed.

Lemma rm_tmp_op : forall o sid, is_rm o = true -> op_sid o = Some sid -> tmp_op sid o.
Proof. intros o sid H1 H2. split; [exact H2|]. split; intros x E; subst o; discriminate. Qed.

Lemma remove_all_ops : forall b f sid o, In o (remove_all b f sid) -> is_rm o = true /\ op_sid o = Some sid.
Proof.
  intros b f sid o H. unfold remove_all in H. destruct (find_dir f sid) as [d|]; [|contradiction].
  destruct b, (d_meta d), (d_state d); simpl in H;
    repeat (destruct H as [H|H]; [subst o; split; reflexivity|]); contradiction.
Qed.

Lemma remove_all_rmdir : forall b f sid d, find_dir f sid = Some d -> In (FRmdir sid) (remove_all b f sid).
Proof.
  intros b f sid d H. unfold remove_all. rewrite H. apply in_or_app. right. left. reflexivity.
Qed.

Lemma find_dir_some : forall f sid d, find_dir f sid = Some d -> In d f /\ d_sid d = sid.
Proof.
  induction f as [|d0 f IH]; simpl; intros sid d H; [discriminate|].
  destruct (N.eqb_spec (d_sid d0) sid) as [E|E].
  - inversion H; subst. auto.
  - destruct (IH _ _ H). auto.
Qed.

Lemma find_dir_in : forall f d, In d f -> exists d', find_dir f (d_sid d) = Some d'.
Proof.
  induction f as [|d0 f IH]; simpl; intros d H; [contradiction|].
  destruct (N.eqb_spec (d_sid d0) (d_sid d)) as [E|E]; [eauto|].
  destruct H as [H|H]; [subst; contradiction|]. apply IH; exact H.
Qed.

Lemma flush_tmp : forall k o, In o (flush_ops k) -> tmp_op (k_sid k) o /\ is_upd o = true.
Proof.
  intros k o H. unfold flush_ops in H. destruct (k_buf k); simpl in H;
    repeat (destruct H as [H|H]; [subst o; repeat split; intros; discriminate|]); contradiction.
Qed.
