(* ClusterCommitSnapNode2.v — one delivered AppendEntries at one server with snapshots keeps the
   per-server invariants (Proofs/ClusterCommitSnapLog.v, ClusterCommitSnapNode.v), whether the handler
   returns or the process dies inside it; the resulting (term, log) is described by ae_reachS. *)
From Coq Require Import List NArith Bool Lia.
From stdpp Require Import gmap.
From RaftModel Require Import Base Config Compaction Commitment Node NodeCodec Candidate Leader.
From RaftProofs Require Import VoteProofs AdvLeaderProofs AppendProofs RecoverProofs ClusterProofs
  ClusterLogSpec ClusterLogChain ClusterLogNode ClusterLogCut ClusterLogVote ClusterLogAppend ClusterLogLeader
  ClusterCommitSpec ClusterCommitInit ClusterCommitChain ClusterCommitAE ClusterCommitAE3 ClusterCommitNode ClusterCommitInv
  ClusterCommitSnapLog ClusterCommitSnapBoot ClusterCommitSnapCut ClusterCommitSnapAE ClusterCommitSnapAE2 ClusterCommitSnapAE3
  ClusterCommitSnapAE4 ClusterCommitSnapAE5 ClusterCommitSnapNode.
Open Scope N_scope.

Section Deliver.
  Variable cfg : config.
  Variable Ps : list params.

  (* where the entries of a log the handler reaches come from *)
  Lemma reachS_src C s a d k : chain_ok C -> zup C s -> contig (aq_prevIdx a) (aq_entries a) -> ae_reachS s a d k ->
    log_ok_fail (aq_prevIdx a) (aq_entries a) (d_log s) (snd d) /\
    (forall i x, snd d !! i = Some x -> d_log s !! i = Some x \/ In x (aq_entries a)) /\
    d_term s <= fst d /\ (snd d <> d_log s -> fst d = aq_term a).
  Proof.
    intros HC Hz Hc [[-> ->]|(Hle & Ht & [[Hm ->]|[_ Hlog]])].
    - simpl. split; [apply log_ok_fail_refl|]. split; [auto|]. split; [lia|congruence].
    - rewrite Hm, Ht. split; [apply log_ok_fail_refl|]. split; [auto|]. split; [exact Hle|congruence].
    - destruct (ae_logS_fail (d_log s) (v_lastLogIdx s) a (snd d) k (zup_cache_ok C s HC Hz) Hc Hlog) as [A B].
      split; [exact A|]. split; [exact B|]. split; [lia|intros _; exact Ht].
  Qed.

  Theorem deliver_step_z C P s a cut fs r' ob out :
    chain_ok C -> pclosed C -> wfu s -> zup C s -> znode cfg Ps P (Up s) ->
    mchain C (aq_prevIdx a, aq_prevTerm a) (aq_entries a) ->
    (forall e, In e (aq_entries a) -> e_term e <= aq_term a) ->
    (forall e, In e (aq_entries a) -> dec_ok cfg Ps e) ->
    (d_term s <= aq_term a -> forall k, anc C k (key (last_of (aq_entries a))) ->
       (fst k <= v_lastSnapIdx s -> anc C k (bk s)) /\ (v_lastSnapIdx s <= fst k -> anc C (bk s) k)) ->
    step_full P (Up s) (NAppend a) cut fs = (r', ob, out) ->
    znlog C r' /\ znode cfg Ps P r' /\ d_snaps (image r') = d_snaps s /\
    exists k, ae_reachS s a (tlp (image r')) k /\
      match r' with
      | Up s' => (fresh_up s' /\ ob = OLost) \/
                 (exists r tr fs', append_entries P s fs a = Done s' r tr fs' /\ ob = OAppend a r /\ topk s' = k /\ sf_done s s')
      | Down _ => ob = OLost
      end.
  Proof.
    intros HC Hp Hw Hz Hcn Hm Hterm Hde Hcmp HF. pose proof Hcn as (Hrc & HP & Hup).
    pose proof (zup_cache_ok C s HC Hz) as Hcache.
    pose proof (mchain_contig C _ _ HC Hm) as Hc. simpl fst in Hc.
    destruct (append_reachS P s fs a Hw Hcache Hc) as [Hpre Hdone].
    assert (Hdecr : forall d k, ae_reachS s a d k -> log_dec cfg Ps (snd d)).
    { intros d k Hr i x Hx. destruct (reachS_src C s a d k HC Hz Hc Hr) as (_ & Hs & _).
      destruct (Hs i x Hx) as [H|H]; [apply (zn_dec cfg Ps s Hup i x H)|apply Hde, H]. }
    unfold step_full in HF.
    destruct (finish_cases P _ _ None s cut _ r' ob out HF) as [(s1 & r & tr & fs' & Ho & -> & ->)|(k0 & oo & HB & ->)].
    - (* the handler returned *)
      assert (Hr : ae_reachS s a (tlp s1) (topk s1)) by (apply Hdone; rewrite Ho; reflexivity).
      pose proof (ae_reachS_zshape C s a _ _ HC Hp Hz Hm Hterm Hcmp Hr) as Hsh. simpl in Hsh.
      pose proof (append_done_sf P s fs a s1 r tr fs' Ho (log_in_keys C _ _ (zs_in _ _ _ _ _ _ Hsh))) as Hsf.
      pose proof Hsf as (S1 & S2 & S3 & S4).
      assert (Hz1 : zup C s1) by (unfold zup; rewrite S1, (bk_ext s s1 S2 S3); exact Hsh).
      assert (Hdp : forall e, In e (aq_entries a) -> e_ty e = LogConfiguration -> p_decode P (e_data e) = cfg).
      { intros e He Hty. apply (Hde e He Hty P HP). }
      pose proof (append_done_vol cfg P s fs a s1 r tr fs' Hw Hcache Hc Hdp (zn_lat cfg Ps s Hup) (zn_com cfg Ps s Hup) Ho) as Hv.
      split; [exact Hz1|]. split; [|split; [exact S1|]].
      + split; [exact Hrc|]. split; [exact HP|].
        destruct Hv as [(_ & -> & _)|(_ & _ & _ & _ & _ & _ & V1 & V2 & V3)]; [exact Hup|].
        pose proof (zn_sa cfg Ps s Hup). pose proof (zn_ac cfg Ps s Hup). pose proof (zn_fa cfg Ps s Hup). pose proof (zn_fs cfg Ps s Hup).
        assert (Hcm : v_commit s <= v_commit s1) by (destruct V3 as [[E _]|(_ & E & _)]; lia).
        constructor.
        * apply (Hdecr _ _ Hr).
        * rewrite S1. apply (zn_scfg cfg Ps s Hup).
        * exact V1.
        * exact V2.
        * rewrite S2. destruct S4 as [[E _]|(E & _)]; lia.
        * rewrite S2. destruct S4 as [[E _]|(E1 & E2 & _)]; lia.
        * destruct S4 as [[E1 E2]|(E1 & E2 & [E3|(e & _ & E4 & E5)])]; [rewrite E1, E2; assumption|rewrite E3; lia|].
          rewrite E5. unfold key. simpl. lia.
        * rewrite S2. destruct S4 as [[E1 E2]|(E1 & E2 & [E3|(e & _ & E4 & E5)])]; [rewrite E2; assumption|rewrite E3; assumption|].
          right. rewrite E5. unfold key. simpl. lia.
      + exists (topk s1). split; [exact Hr|]. right. exists r, tr, fs'. auto.
    - (* the process died inside the handler *)
      set (tr := trace_of (append_entries P s fs a)) in *.
      destruct (cut_none_tlp P s tr k0) as (j & Hj & Hs).
      destruct (Hpre j) as [k Hr]. fold tr in Hr. rewrite <- Hj in Hr.
      pose proof (ae_reachS_zshape C s a _ _ HC Hp Hz Hm Hterm Hcmp Hr) as Hsh. simpl in Hsh.
      assert (Himg : zimg C (cut_image P None s tr k0)).
      { unfold zimg. rewrite Hs. apply (zshape_img C HC _ _ _ _ _ Hsh). }
      assert (Hni : znode_img cfg Ps (cut_image P None s tr k0)).
      { split; [apply (Hdecr _ _ Hr)|rewrite Hs; apply (zn_scfg cfg Ps s Hup)]. }
      destruct (boot_znlog C P _ r' oo HC Hp Hrc Himg HB) as (A & Dt & Dl & Ds & _).
      destruct (boot_znode cfg Ps P _ r' oo Hrc HP (log_in_keys C _ _ (zi_in _ _ _ _ Himg)) Hni HB) as [B D].
      split; [exact A|]. split; [exact B|]. split; [congruence|]. exists k. split.
      + unfold tlp in *. rewrite Dt, Dl. exact Hr.
      + destruct r'; [left; auto|reflexivity].
  Qed.
End Deliver.
