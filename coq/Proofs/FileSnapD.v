(* FileSnapD.v — the history vocabulary under append, Q is monotone in the history. *)
From Coq Require Import List Arith NArith Bool Lia Permutation.
From RaftModel Require Import FileSnap FileSnapSpec.
From RaftProofs Require Import FileSnapA FileSnapB FileSnapC.
Import ListNotations.
Open Scope N_scope.

Ltac spec_ind s sid :=
  induction s as [|[c t i|c b'|c|c] s IH]; simpl; intros; try congruence; eauto;
  destruct (N.eqb_spec c sid); eauto; congruence.

Lemma created_as_app_some : forall s s2 sid x, created_as s sid = Some x -> created_as (s ++ s2) sid = Some x.
Proof. spec_ind s sid. Qed.

Lemma created_as_app_none : forall s s2 sid, created_as s sid = None -> created_as (s ++ s2) sid = created_as s2 sid.
Proof. spec_ind s sid. Qed.

Lemma ended_app_some : forall s s2 sid b, ended s sid = Some b -> ended (s ++ s2) sid = Some b.
Proof. spec_ind s sid. Qed.

Lemma ended_app_none : forall s s2 sid, ended s sid = None -> ended (s ++ s2) sid = ended s2 sid.
Proof. spec_ind s sid. Qed.

Lemma written_aux_app_ended : forall s s2 sid b acc, ended s sid = Some b ->
  written_aux (s ++ s2) sid acc = written_aux s sid acc.
Proof.
  induction s as [|[c t i|c b'|c|c] s IH]; simpl; intros; try congruence; eauto;
    destruct (N.eqb_spec c sid); eauto.
Qed.

Lemma written_aux_app_open : forall s s2 sid acc, ended s sid = None ->
  written_aux (s ++ s2) sid acc = written_aux s2 sid (written_aux s sid acc).
Proof.
  induction s as [|[c t i|c b'|c|c] s IH]; simpl; intros; try congruence; eauto;
    destruct (N.eqb_spec c sid); eauto; congruence.
Qed.

Lemma written_app_ended : forall s s2 sid b, ended s sid = Some b -> written (s ++ s2) sid = written s sid.
Proof. intros. unfold written. eapply written_aux_app_ended; eauto. Qed.

Lemma created_app : forall s s2, created (s ++ s2) = created s ++ created s2.
Proof. induction s as [|[c t i|c b'|c|c] s IH]; simpl; intros; auto. rewrite IH. reflexivity. Qed.

Lemma created_as_in : forall s sid, In sid (created s) <-> exists x, created_as s sid = Some x.
Proof.
  induction s as [|[c t i|c b'|c|c] s IH]; simpl; intros sid; try apply IH.
  - split; [intros []|intros [x H]; discriminate].
  - destruct (N.eqb_spec c sid) as [E|E].
    + split; [eauto|intros; left; exact E].
    + rewrite <- IH. split; [intros [H|H]; [contradiction|exact H]|intros; right; assumption].
Qed.

Lemma Complete_mono : forall s s2 d, Complete s d -> Complete (s ++ s2) d.
Proof.
  intros s s2 d [Ht [t [i [Hc [He [Hm Hs]]]]]]. split; [exact Ht|]. exists t, i.
  rewrite (created_as_app_some _ _ _ _ Hc), (ended_app_some _ _ _ _ He), (written_app_ended _ _ _ _ He). auto.
Qed.

Lemma Q_mono : forall r s s2 h f, Q r s h f -> Q r (s ++ s2) h f.
Proof.
  intros r s s2 h f HQ. constructor.
  - apply (q_nodup _ _ _ _ HQ).
  - apply (q_ren _ _ _ _ HQ).
  - apply (q_clean _ _ _ _ HQ).
  - intros d Hd Ht. destruct (q_shape _ _ _ _ HQ d Hd Ht) as [Hc|Ho]; [left; apply Complete_mono; exact Hc|right; exact Ho].
  - intros sid Hin. destruct (q_closed _ _ _ _ HQ sid Hin) as [He [t [i [Hc Hd]]]].
    split; [eapply ended_app_some; eauto|]. exists t, i. split; [eapply created_as_app_some; eauto|].
    rewrite (written_app_ended _ _ _ _ He).
    destruct Hd as [[d [Hd [Hs HC]]]|Ho]; [left|right; exact Ho].
    exists d. split; [exact Hd|split; [exact Hs|apply Complete_mono; exact HC]].
Qed.
