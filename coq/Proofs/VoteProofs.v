(* Vote and term integrity of one server over arbitrary event sequences, store failures and
   crash cuts (C06).  The objects are exactly those the driver executes: Node.request_vote,
   Node.elect_self, Node.append_entries, Node.install_snapshot, Node.recover,
   NodeCodec.step_full (with its crash cuts through cut_image). *)
From Coq Require Import List NArith Bool Lia.
From stdpp Require Import gmap.
From RaftModel Require Import Base Config Compaction Node NodeCodec.
Open Scope N_scope.

(* ---------------------------------------------------------------- the vote-relevant projection *)
Definition dproj (s : nstate) : N * N * option N := (d_term s, d_vterm s, d_vcand s).

Definition vt_apply (d : N * N * option N) (e : ev) : N * N * option N :=
  let '(t, vt, vc) := d in
  match e with
  | ESetTerm t' true => (t', vt, vc)
  | ESetVoteTerm t' true => (t, t', vc)
  | ESetVoteCand c true => (t, vt, Some c)
  | _ => d
  end.

Definition is_stable_ev (e : ev) : bool :=
  match e with ESetTerm _ _ | ESetVoteTerm _ _ | ESetVoteCand _ _ => true | _ => false end.

Lemma dproj_apply_ev P si s e : dproj (apply_ev P si s e) = vt_apply (dproj s) e.
Proof.
  destruct e as [t ok|t ok|c ok|es ok|lo hi ok|c|i t ok|e|i|d]; simpl; try reflexivity;
    try (destruct ok; reflexivity).
  - destruct (p_track P); reflexivity.
  - destruct ok; [|reflexivity]. destruct si; reflexivity.
Qed.

Lemma vt_apply_nostable d e : is_stable_ev e = false -> vt_apply d e = d.
Proof. destruct d as [[t vt] vc]. destruct e; simpl; try reflexivity; discriminate. Qed.

(* a crash cut leaves the image obtained from SOME prefix of the trace *)
Lemma cut_image_prefix P si tr : forall s k,
  exists j, dproj (cut_image P si s tr k) = fold_left vt_apply (firstn j tr) (dproj s).
Proof.
  induction tr as [|e r IH]; intros s k.
  - exists 0%nat. destruct k; reflexivity.
  - destruct k as [|k'].
    + exists 0%nat. reflexivity.
    + simpl. destruct (is_durable e).
      * destruct (IH (apply_ev P si s e) k') as [j Hj]. exists (S j). simpl.
        rewrite Hj, dproj_apply_ev. reflexivity.
      * destruct (IH (apply_ev P si s e) (S k')) as [j Hj]. exists (S j). simpl.
        rewrite Hj, dproj_apply_ev. reflexivity.
Qed.

Lemma fold_nostable d tr : forallb (fun e => negb (is_stable_ev e)) tr = true -> fold_left vt_apply tr d = d.
Proof.
  revert d. induction tr as [|e r IH]; intros d H; simpl in *; [reflexivity|].
  apply andb_true_iff in H. destruct H as [He Hr]. apply negb_true_iff in He.
  rewrite vt_apply_nostable by exact He. apply IH, Hr.
Qed.

Lemma firstn_forallb {A} (f : A -> bool) l j : forallb f l = true -> forallb f (firstn j l) = true.
Proof.
  revert j. induction l as [|x r IH]; intros j H; destruct j; simpl in *; try reflexivity.
  apply andb_true_iff in H. destruct H as [Hx Hr]. rewrite Hx. simpl. apply IH, Hr.
Qed.

(* prefixes of tr1 ++ rest where rest has no stable-store operation reach the same projections
   as prefixes of tr1 *)
Lemma prefix_app_nostable d tr1 rest j :
  forallb (fun e => negb (is_stable_ev e)) rest = true ->
  exists j', fold_left vt_apply (firstn j (tr1 ++ rest)) d = fold_left vt_apply (firstn j' tr1) d.
Proof.
  intros H. rewrite firstn_app, fold_left_app.
  rewrite (fold_nostable _ (firstn (j - length tr1) rest)) by (apply firstn_forallb, H).
  exists j. reflexivity.
Qed.

(* ---------------------------------------------------------------- predicates *)
Definition live_d (d : N * N * option N) : option (N * N) :=
  let '(t, vt, vc) := d in
  if vt =? t then match vc with Some c => Some (vt, c) | None => None end else None.
Definition live (s : nstate) : option (N * N) := live_d (dproj s).

Definition wfd_d (d : N * N * option N) : Prop := snd (fst d) <= fst (fst d).
Definition wfd (s : nstate) : Prop := d_vterm s <= d_term s.
Definition wfu (s : nstate) : Prop := wfd s /\ v_term s = d_term s.
Definition wfr (r : nrun) : Prop := match r with Up s => wfu s | Down s => wfd s end.

(* the checks a vote cast must have passed, against the voter's state s at that moment *)
Definition cast_ok (P : params) (s : nstate) (e : nevent) (T c : N) : Prop :=
  (exists q, e = NVote q /\ vq_term q = T /\ vq_addr q = c /\ v_term s <= T /\
             log_ok s (vq_lastIdx q) (vq_lastTerm q) = true /\
             (vq_id q <> 0 -> v_latest s <> [] -> has_vote (v_latest s) (vq_id q) = true)) \/
  (e = NElect /\ c = p_self P /\ T = v_term s + 1 /\
   existsb (fun sv => is_voter sv && (s_id sv =? p_self P)) (v_latest s) = true).

(* what every durable image d reachable inside one event from d0 must satisfy *)
Definition good_d (P : params) (s : nstate) (e : nevent) (d : N * N * option N) : Prop :=
  wfd_d d /\
  d_term s <= fst (fst d) /\
  (forall T c, live s = Some (T, c) -> fst (fst d) = T -> live_d d = Some (T, c)) /\
  (forall T c, live_d d = Some (T, c) -> live s <> Some (T, c) -> cast_ok P s e T c).

Lemma good_d_refl P s e : wfd s -> good_d P s e (dproj s).
Proof.
  intros H. unfold good_d, dproj, wfd_d, live; simpl. repeat split; try lia; auto.
  intros T c H1 H2. contradiction.
Qed.

Ltac bool_hyps :=
  repeat match goal with
  | H : (_ && _) = true |- _ => apply andb_true_iff in H; destruct H
  | H : (_ && _) = false |- _ => apply andb_false_iff in H
  | H : (_ || _) = true |- _ => apply orb_true_iff in H
  | H : (_ || _) = false |- _ => apply orb_false_iff in H; destruct H
  | H : negb _ = true |- _ => apply negb_true_iff in H
  | H : negb _ = false |- _ => apply negb_false_iff in H
  end.

(* ---------------------------------------------------------------- the term bump *)
Lemma set_state_dproj s r : dproj (set_state s r) = dproj s.
Proof. reflexivity. Qed.

Lemma do_set_term_spec s fs t s' fs' :
  do_set_term s fs t = Some (s', fs') ->
  d_term s' = t /\ v_term s' = t /\ d_vterm s' = d_vterm s /\ d_vcand s' = d_vcand s /\
  v_latest s' = v_latest s /\ last_entry s' = last_entry s /\ d_log s' = d_log s /\ d_snaps s' = d_snaps s.
Proof.
  unfold do_set_term. destruct (next_fail fs) as [f fs1]. destruct f; [discriminate|].
  intros H. inversion H; subst. repeat split.
Qed.

(* ---------------------------------------------------------------- RequestVote *)
Lemma persist_vote_spec s1 fs1 T c :
  let '(s2, ok, tr2, fs2) := persist_vote s1 fs1 T c in
  (tr2 = [ESetVoteCand c false] /\ ok = false /\ s2 = s1) \/
  (tr2 = [ESetVoteCand c true; ESetVoteTerm T false] /\ ok = false /\ s2 = set_vcand s1 (Some c)) \/
  (tr2 = [ESetVoteCand c true; ESetVoteTerm T true] /\ ok = true /\ s2 = set_vterm (set_vcand s1 (Some c)) T).
Proof.
  unfold persist_vote. destruct (next_fail fs1) as [f1 fs2]. destruct f1; [left; auto|].
  destruct (next_fail fs2) as [f2 fs3]. destruct f2; [right; left; auto|right; right; auto].
Qed.

(* a complete record (T, c) written while handling a checked request from c in term T *)
Lemma good_cast P s q vt :
  wfu s -> v_term s <= vq_term q -> vt <= vq_term q ->
  log_ok s (vq_lastIdx q) (vq_lastTerm q) = true ->
  (vq_id q <> 0 -> v_latest s <> [] -> has_vote (v_latest s) (vq_id q) = true) ->
  (forall c0, live s <> Some (vq_term q, c0)) ->
  good_d P s (NVote q) (vq_term q, vt, Some (vq_addr q)).
Proof.
  intros [Hwf Hvt] Hle Hvle Hlog Hmem Hnolive. unfold wfd in Hwf.
  unfold good_d, wfd_d; simpl. repeat split; try lia.
  - intros T c HL HT. subst T. exfalso. apply (Hnolive c). exact HL.
  - intros T c HL _. destruct (vt =? vq_term q) eqn:E; [|discriminate].
    inversion HL; subst. apply N.eqb_eq in E. left. exists q. repeat split; auto; lia.
Qed.

Lemma request_vote_good P s fs q : wfu s ->
  match request_vote s fs q with
  | Done s' r tr fs' =>
      wfu s' /\ dproj s' = fold_left vt_apply tr (dproj s) /\
      (forall j, good_d P s (NVote q) (fold_left vt_apply (firstn j tr) (dproj s))) /\
      v_term s <= fst r /\
      (snd r = true -> live s' = Some (vq_term q, vq_addr q))
  | Panic s' tr =>
      forall j, good_d P s (NVote q) (fold_left vt_apply (firstn j tr) (dproj s))
  end.
Proof.
  intros Hw. pose proof Hw as [Hwf Hvt]. unfold wfd in Hwf.
  assert (Hrefl : good_d P s (NVote q) (dproj s)) by (apply good_d_refl; exact Hwf).
  assert (Hnil : forall j, good_d P s (NVote q) (fold_left vt_apply (firstn j (@nil ev)) (dproj s))).
  { intros j. destruct j; exact Hrefl. }
  unfold request_vote.
  destruct (negb (vq_id q =? 0) && nonempty (v_latest s) && negb (in_config (v_latest s) (vq_id q))) eqn:E1.
  { simpl. split; [exact Hw|]. split; [reflexivity|]. split; [exact Hnil|]. split; [lia|intros; discriminate]. }
  destruct (negb (v_leader s =? 0) && negb (v_leader s =? vq_addr q) && negb (vq_transfer q)) eqn:E2.
  { simpl. split; [exact Hw|]. split; [reflexivity|]. split; [exact Hnil|]. split; [lia|intros; discriminate]. }
  destruct (vq_term q <? v_term s) eqn:E3.
  { simpl. split; [exact Hw|]. split; [reflexivity|]. split; [exact Hnil|]. split; [lia|intros; discriminate]. }
  (* the state after the optional bump *)
  assert (Hbump : (exists s1 fs1 tr1,
    (if v_term s <? vq_term q
     then match do_set_term (set_state s Follower) fs (vq_term q) with
          | Some (s1, fs1) => Some (s1, fs1, [ESetTerm (vq_term q) true])
          | None => None end
     else Some (s, fs, [])) = Some (s1, fs1, tr1) /\
    d_term s1 = vq_term q /\ v_term s1 = vq_term q /\ d_vterm s1 = d_vterm s /\ d_vcand s1 = d_vcand s /\
    v_latest s1 = v_latest s /\ last_entry s1 = last_entry s /\
    ((tr1 = [] /\ v_term s = vq_term q) \/ (tr1 = [ESetTerm (vq_term q) true] /\ v_term s < vq_term q)))
    \/
    (if v_term s <? vq_term q
     then match do_set_term (set_state s Follower) fs (vq_term q) with
          | Some (s1, fs1) => Some (s1, fs1, [ESetTerm (vq_term q) true])
          | None => None end
     else Some (s, fs, [])) = None /\ v_term s < vq_term q).
  { destruct (v_term s <? vq_term q) eqn:E4.
    - destruct (do_set_term (set_state s Follower) fs (vq_term q)) as [[s1 fs1]|] eqn:E5.
      + left. exists s1, fs1, [ESetTerm (vq_term q) true]. split; [reflexivity|].
        apply do_set_term_spec in E5. destruct E5 as (A & B & C & D & E & F & _).
        repeat split; auto. right. split; [reflexivity|lia].
      + right. split; [reflexivity|lia].
    - left. exists s, fs, []. split; [reflexivity|]. repeat split; auto; try lia. left. split; [reflexivity|lia]. }
  destruct Hbump as [(s1 & fs1 & tr1 & Heq & A & B & C & D & E & F & Htr)|[Heq Hlt]]; rewrite Heq; clear Heq.
  2:{ (* panic on the term write: nothing durable happened *)
      intros j. destruct j as [|[|j]]; simpl; exact Hrefl. }
  (* images reachable while only the bump has happened *)
  assert (Hpre : forall j, good_d P s (NVote q) (fold_left vt_apply (firstn j tr1) (dproj s))).
  { intros j. destruct Htr as [[-> Ht]|[-> Ht]].
    - destruct j; exact Hrefl.
    - destruct j as [|[|j]]; simpl; try exact Hrefl; unfold good_d, live, dproj, wfd_d; simpl;
      (repeat split; try lia;
       [ intros T c HL HT; unfold live_d in *; simpl in *;
         destruct (d_vterm s =? d_term s) eqn:EE; [|discriminate];
         destruct (d_vcand s); inversion HL; subst; lia
       | intros T c HL _; unfold live_d in HL; simpl in HL;
         destruct (d_vterm s =? vq_term q) eqn:EE; [|discriminate]; lia ]). }
  assert (Hfold1 : fold_left vt_apply tr1 (dproj s) = dproj s1).
  { unfold dproj. rewrite A, C, D. destruct Htr as [[-> Ht]|[-> Ht]]; simpl; [rewrite <- Hvt, Ht|]; reflexivity. }
  assert (Hwf1 : wfu s1). { unfold wfu, wfd. rewrite A, B, C. split; lia. }
  assert (Hdone1 : forall g, g = false \/ (g = true /\ live s1 = Some (vq_term q, vq_addr q)) ->
     wfu s1 /\ dproj s1 = fold_left vt_apply tr1 (dproj s) /\
     (forall j, good_d P s (NVote q) (fold_left vt_apply (firstn j tr1) (dproj s))) /\
     v_term s <= fst ((if v_term s <? vq_term q then vq_term q else v_term s), g) /\
     (snd ((if v_term s <? vq_term q then vq_term q else v_term s), g) = true -> live s1 = Some (vq_term q, vq_addr q))).
  { intros g Hg. split; [exact Hwf1|]. split; [symmetry; exact Hfold1|]. split; [exact Hpre|].
    split; [simpl; destruct (v_term s <? vq_term q) eqn:EE; lia|].
    simpl. intros Hgt. destruct Hg as [->|[_ HL]]; [discriminate|exact HL]. }
  destruct (negb (vq_id q =? 0) && nonempty (v_latest s1) && negb (has_vote (v_latest s1) (vq_id q))) eqn:E6.
  { apply Hdone1. left. reflexivity. }
  (* membership test passed *)
  assert (Hmem : vq_id q <> 0 -> v_latest s <> [] -> has_vote (v_latest s) (vq_id q) = true).
  { intros Hid Hne. rewrite E in E6. destruct (v_latest s) as [|x l] eqn:EL; [congruence|].
    simpl in E6. destruct (vq_id q =? 0) eqn:EI; [apply N.eqb_eq in EI; contradiction|].
    simpl in E6. apply negb_false_iff in E6. exact E6. }
  (* the remaining paths share one tail; first the duplicate branch *)
  destruct (if d_vterm s1 =? vq_term q then d_vcand s1 else None) as [c|] eqn:E7.
  { apply Hdone1. destruct (c =? vq_addr q) eqn:E9; [right|left; reflexivity].
    split; [reflexivity|]. unfold live, live_d, dproj. rewrite A.
    destruct (d_vterm s1 =? vq_term q) eqn:E8; [|discriminate]. rewrite E7.
    apply N.eqb_eq in E8, E9. rewrite E8, E9. reflexivity. }
  assert (Hnolive : forall c0, live s <> Some (vq_term q, c0)).
  { intros c0 HL. unfold live, live_d, dproj in HL.
    destruct (d_vterm s =? d_term s) eqn:EE; [|discriminate].
    destruct (d_vcand s) as [c1|] eqn:EC; [|discriminate]. inversion HL; subst.
    rewrite C, H0, N.eqb_refl, D in E7. discriminate. }
  destruct (negb (log_ok s1 (vq_lastIdx q) (vq_lastTerm q))) eqn:E9.
  { apply Hdone1. left. reflexivity. }
  apply negb_false_iff in E9.
  assert (Hlog : log_ok s (vq_lastIdx q) (vq_lastTerm q) = true).
  { unfold log_ok in *. rewrite <- F. exact E9. }
  assert (Hle : v_term s <= vq_term q) by (apply N.ltb_ge in E3; exact E3).
  pose proof (persist_vote_spec s1 fs1 (vq_term q) (vq_addr q)) as Hp.
  destruct (persist_vote s1 fs1 (vq_term q) (vq_addr q)) as [[[s2 ok] tr2] fs2].
  assert (Hg1 : good_d P s (NVote q) (vq_term q, d_vterm s, Some (vq_addr q))).
  { apply good_cast; auto; lia. }
  assert (Hg2 : good_d P s (NVote q) (vq_term q, vq_term q, Some (vq_addr q))).
  { apply good_cast; auto; lia. }
  assert (Hd1 : dproj s1 = (vq_term q, d_vterm s, d_vcand s)).
  { unfold dproj. rewrite A, C, D. reflexivity. }
  assert (Hsplit : forall tr2' j,
     (forall j', good_d P s (NVote q) (fold_left vt_apply (firstn j' tr2') (dproj s1))) ->
     good_d P s (NVote q) (fold_left vt_apply (firstn j (tr1 ++ tr2')) (dproj s))).
  { intros tr2' j H2. rewrite firstn_app, fold_left_app.
    destruct (Nat.le_gt_cases (length tr1) j) as [Hj|Hj].
    - rewrite (@firstn_all2 _ j tr1 Hj). rewrite Hfold1. apply H2.
    - replace (j - length tr1)%nat with 0%nat by lia. simpl. apply Hpre. }
  assert (Hs1 : good_d P s (NVote q) (dproj s1)).
  { rewrite <- Hfold1. rewrite <- (firstn_all tr1). apply Hpre. }
  assert (Hs1' : good_d P s (NVote q) (vq_term q, d_vterm s, d_vcand s)) by (rewrite <- Hd1; exact Hs1).
  simpl. destruct Hp as [(-> & -> & ->)|[(-> & -> & ->)|(-> & -> & ->)]].
  - split; [exact Hwf1|]. split; [rewrite fold_left_app, Hfold1; reflexivity|].
    split; [|split; [simpl; destruct (v_term s <? vq_term q) eqn:EE; lia|simpl; intros; discriminate]].
    intros j. apply Hsplit. intros j'. rewrite Hd1. destruct j' as [|[|j']]; simpl; exact Hs1'.
  - split; [unfold wfu, wfd; simpl; rewrite A, B, C; lia|].
    split; [rewrite fold_left_app, Hfold1, Hd1; unfold dproj; simpl; rewrite A, C; reflexivity|].
    split; [|split; [simpl; destruct (v_term s <? vq_term q) eqn:EE; lia|simpl; intros; discriminate]].
    intros j. apply Hsplit. intros j'. rewrite Hd1. destruct j' as [|[|[|j']]]; simpl; first [exact Hg1|exact Hs1'].
  - split; [unfold wfu, wfd; simpl; rewrite A, B; lia|].
    split; [rewrite fold_left_app, Hfold1, Hd1; unfold dproj; simpl; rewrite A; reflexivity|].
    split; [|split; [simpl; destruct (v_term s <? vq_term q) eqn:EE; lia|]].
    + intros j. apply Hsplit. intros j'. rewrite Hd1. destruct j' as [|[|[|j']]]; simpl; first [exact Hg2|exact Hg1|exact Hs1'].
    + simpl. intros _. unfold live, live_d, dproj. simpl. rewrite A, N.eqb_refl. reflexivity.
Qed.


(* ---------------------------------------------------------------- handlers that only touch the term *)
Definition sfilter (tr : list ev) : list ev := List.filter is_stable_ev tr.

Lemma fold_sfilter tr : forall d, fold_left vt_apply tr d = fold_left vt_apply (sfilter tr) d.
Proof.
  induction tr as [|e r IH]; intros d; simpl; [reflexivity|].
  destruct (is_stable_ev e) eqn:E; simpl.
  - apply IH.
  - rewrite vt_apply_nostable by exact E. apply IH.
Qed.

Lemma prefix_sfilter tr : forall d j,
  exists j', fold_left vt_apply (firstn j tr) d = fold_left vt_apply (firstn j' (sfilter tr)) d.
Proof.
  induction tr as [|e r IH]; intros d j.
  - exists 0%nat. destruct j; reflexivity.
  - destruct j as [|j]; [exists 0%nat; reflexivity|]. simpl.
    destruct (is_stable_ev e) eqn:E.
    + destruct (IH (vt_apply d e) j) as [j' Hj']. exists (S j'). simpl. exact Hj'.
    + rewrite vt_apply_nostable by exact E. destruct (IH d j) as [j' Hj']. exists j'. exact Hj'.
Qed.

Lemma sfilter_app a b : sfilter (a ++ b) = sfilter a ++ sfilter b.
Proof. apply filter_app. Qed.

Lemma sfilter_fsm_events l : sfilter (flat_map fsm_events l) = [].
Proof.
  induction l as [|e r IH]; simpl; [reflexivity|].
  rewrite sfilter_app, IH, app_nil_r. unfold fsm_events.
  destruct (e_ty e =? LogCommand); [reflexivity|]. destruct (e_ty e =? LogConfiguration); reflexivity.
Qed.

Lemma do_stage_spec P s c : dproj (fst (do_stage P s c)) = dproj s /\ v_term (fst (do_stage P s c)) = v_term s /\
  sfilter (snd (do_stage P s c)) = [].
Proof. unfold do_stage. destruct (p_track P); simpl; auto. Qed.

Lemma do_store_spec P s fs es : dproj (fst (fst (do_store P s fs es))) = dproj s /\
  v_term (fst (fst (do_store P s fs es))) = v_term s.
Proof. unfold do_store. destruct (next_fail fs) as [f fs']. destruct f; simpl; auto. Qed.

Lemma do_delete_spec s fs lo hi : dproj (fst (fst (do_delete s fs lo hi))) = dproj s /\
  v_term (fst (fst (do_delete s fs lo hi))) = v_term s.
Proof. unfold do_delete. destruct (next_fail fs) as [f fs']. destruct f; simpl; auto. Qed.

Lemma process_config_entry_spec P s e : dproj (process_config_entry P s e) = dproj s /\
  v_term (process_config_entry P s e) = v_term s.
Proof. unfold process_config_entry. destruct (e_ty e =? LogConfiguration); simpl; auto. Qed.

Lemma fold_config_entries_spec P es : forall s,
  dproj (fold_left (process_config_entry P) es s) = dproj s /\
  v_term (fold_left (process_config_entry P) es s) = v_term s.
Proof.
  induction es as [|e r IH]; intros s; simpl; [auto|].
  destruct (IH (process_config_entry P s e)) as [A B].
  destruct (process_config_entry_spec P s e) as [C D]. rewrite A, B. auto.
Qed.

Lemma process_logs_spec s idx s' tr : process_logs s idx = Some (s', tr) ->
  dproj s' = dproj s /\ v_term s' = v_term s /\ sfilter tr = [].
Proof.
  unfold process_logs. destruct (idx <=? v_applied s).
  - intros H; inversion H; subst. auto.
  - destruct (collect_logs _ _ _) as [es|]; [|discriminate].
    intros H; inversion H; subst. simpl. repeat split. apply sfilter_fsm_events.
Qed.

(* outcome of a body that performs no stable-store operation of its own *)
Definition body_ok {R} (s2 : nstate) (tr1 : list ev) (o : outcome R) : Prop :=
  match o with
  | Done s' _ tr _ => sfilter tr = sfilter tr1 /\ dproj s' = dproj s2 /\ v_term s' = v_term s2
  | Panic _ tr => sfilter tr = sfilter tr1
  end.

Definition cont_ok (s2 : nstate) (tr1 : list ev) (c : ae_cont) : Prop :=
  match c with
  | inl (Some (s8, tr8, _)) => sfilter tr8 = sfilter tr1 /\ dproj s8 = dproj s2 /\ v_term s8 = v_term s2
  | inl None => True
  | inr (_, s', tr', _) => sfilter tr' = sfilter tr1 /\ dproj s' = dproj s2 /\ v_term s' = v_term s2
  end.

Lemma store_new_ok P fr lc s2 tr1 s3 tr3 fs3 news :
  dproj s3 = dproj s2 -> v_term s3 = v_term s2 -> sfilter tr3 = sfilter tr1 ->
  cont_ok s2 tr1 (store_new P fr lc s3 tr3 fs3 news).
Proof.
  intros H1 H2 H3. unfold store_new.
  pose proof (do_stage_spec P s3 (N.min lc (e_idx (last_of news)))) as (S1 & S2 & S3).
  destruct (do_stage P s3 _) as [s4 trs]. simpl in S1, S2, S3.
  pose proof (do_store_spec P s4 fs3 news) as (T1 & T2).
  destruct (do_store P s4 fs3 news) as [[s5 ok] fs5]. simpl in T1, T2.
  destruct ok; simpl.
  - rewrite !sfilter_app, S3, H3. simpl. rewrite app_nil_r.
    destruct (fold_config_entries_spec P news s5) as [U1 U2].
    split; [reflexivity|]. split.
    + change (dproj (fold_left (process_config_entry P) news s5) = dproj s2). congruence.
    + change (v_term (fold_left (process_config_entry P) news s5) = v_term s2). congruence.
  - rewrite !sfilter_app, S3, H3. simpl. rewrite app_nil_r. split; [reflexivity|]. split; congruence.
Qed.

Lemma ae_entries_ok P fr s2 tr1 fs1 a : cont_ok s2 tr1 (ae_entries P fr s2 tr1 fs1 a).
Proof.
  unfold ae_entries. destruct (aq_entries a) as [|e0 es0]; [simpl; auto|].
  destruct (scan_entries (d_log s2) (v_lastLogIdx s2) (e0 :: es0)) as [news|ci news| |]; try (simpl; auto; fail).
  - apply store_new_ok; auto.
  - pose proof (do_delete_spec s2 fs1 ci (v_lastLogIdx s2)) as (D1 & D2).
    destruct (do_delete s2 fs1 ci (v_lastLogIdx s2)) as [[s3 ok] fs3]. simpl in D1, D2.
    destruct ok; simpl.
    + destruct (conflict_pred a news) as [pi pt]. apply store_new_ok.
      * destruct (ci <=? v_latestIdx s3); exact D1.
      * destruct (ci <=? v_latestIdx s3); exact D2.
      * rewrite sfilter_app. simpl. rewrite app_nil_r. reflexivity.
    + rewrite sfilter_app. simpl. rewrite app_nil_r. auto.
Qed.

Lemma ae_commit_ok okr s2 tr1 s8 tr8 fs8 a :
  sfilter tr8 = sfilter tr1 -> dproj s8 = dproj s2 -> v_term s8 = v_term s2 ->
  body_ok s2 tr1 (ae_commit okr s8 tr8 fs8 a).
Proof.
  intros F1 F2 F3. unfold ae_commit.
  destruct ((0 <? aq_commit a) && (v_commit s8 <? aq_commit a)); [|simpl; auto].
  cbv zeta. destruct (v_commit s8 <? _); [|simpl; auto].
  match goal with |- context [process_logs ?S ?I] => destruct (process_logs S I) as [[s11 tra]|] eqn:EP end.
  - apply process_logs_spec in EP. destruct EP as (G1 & G2 & G3). simpl.
    rewrite sfilter_app, G3, app_nil_r. split; [exact F1|].
    split; [rewrite G1|rewrite G2]; destruct (v_latestIdx _ <=? _); assumption.
  - simpl. exact F1.
Qed.

Lemma ae_body_ok P s0 s2 rt tr1 fs1 a : body_ok s2 tr1 (ae_body P s0 s2 rt tr1 fs1 a).
Proof.
  unfold ae_body. destruct (prev_check s2 a) as [[|]|]; try (simpl; auto; fail).
  pose proof (ae_entries_ok P (mkAResp rt (last_index s0) false false false) s2 tr1 fs1 a) as Hae.
  destruct (ae_entries P _ s2 tr1 fs1 a) as [[[[s8 tr8] fs8]|]|[[[resp s'] tr'] fs']]; simpl in Hae.
  - destruct Hae as (F1 & F2 & F3). apply ae_commit_ok; assumption.
  - simpl. reflexivity.
  - simpl. exact Hae.
Qed.

Lemma run_compaction_spec s fs range :
  let '(s', tr, _) := run_compaction s fs range in
  dproj s' = dproj s /\ v_term s' = v_term s /\ sfilter tr = [].
Proof.
  unfold run_compaction. destruct range as [[lo hi]|]; [|auto].
  pose proof (do_delete_spec s fs lo hi) as (D1 & D2).
  destruct (do_delete s fs lo hi) as [[s' ok] fs']. auto.
Qed.

Lemma is_body_ok P s2 rt tr1 fs1 q : body_ok s2 tr1 (is_body P s2 rt tr1 fs1 q).
Proof.
  unfold is_body. destruct (next_fail fs1) as [fc fs2]. destruct fc.
  { simpl. rewrite sfilter_app. simpl. rewrite app_nil_r. auto. }
  destruct (iq_short q); [simpl; auto|].
  destruct (next_fail fs2) as [fcl fs3]. destruct fcl.
  { simpl. rewrite sfilter_app. simpl. rewrite app_nil_r. auto. }
  destruct (p_monotonic P).
  - match goal with |- context [remove_old ?A ?B] => destruct (remove_old A B) as [[lo hi]|] end.
    + match goal with |- context [do_delete ?S ?F lo hi] =>
        pose proof (do_delete_spec S F lo hi) as (D1 & D2); destruct (do_delete S F lo hi) as [[s7 ok] fs4] end.
      simpl in D1, D2. simpl. rewrite sfilter_app. simpl. rewrite app_nil_r.
      split; [reflexivity|]. destruct ok; simpl; split; assumption.
    + simpl. rewrite sfilter_app. simpl. rewrite app_nil_r. auto.
  - match goal with |- context [if ?B then _ else (?S6, [], fs3)] =>
      assert (Ht : let '(s6', trt, _) := (if B then
                      let '(s', ok, fs') := do_delete S6 fs3 (iq_lastIdx q) (v_lastLogIdx S6) in
                      (if ok then set_lastlog s' 0 0 else s', [EDelete (iq_lastIdx q) (v_lastLogIdx S6) ok], fs')
                    else (S6, [], fs3)) in
                  dproj s6' = dproj s2 /\ v_term s6' = v_term s2 /\ sfilter trt = []);
      [ destruct B; [|simpl; auto];
        pose proof (do_delete_spec S6 fs3 (iq_lastIdx q) (v_lastLogIdx S6)) as (D1 & D2);
        destruct (do_delete S6 fs3 (iq_lastIdx q) (v_lastLogIdx S6)) as [[s' ok] fs']; simpl in D1, D2;
        destruct ok; simpl; auto
      | destruct (if B then _ else (S6, [], fs3)) as [[s6' trt] fs3'] ]
    end.
    destruct Ht as (T1 & T2 & T3).
    match goal with |- context [run_compaction ?S ?F ?R] =>
      pose proof (run_compaction_spec S F R) as Hc; destruct (run_compaction S F R) as [[s7 trc] fs4] end.
    destruct Hc as (C1 & C2 & C3). simpl.
    rewrite sfilter_app. cbn [sfilter List.filter is_stable_ev]. fold (sfilter (trt ++ trc)).
    rewrite sfilter_app, T3, C3. simpl. rewrite app_nil_r.
    split; [reflexivity|]. split; congruence.
Qed.

(* ---------------------------------------------------------------- term-only events *)
Lemma good_term_only P s e t : wfd s -> d_term s <= t -> good_d P s e (t, d_vterm s, d_vcand s).
Proof.
  intros Hwf Hle. unfold wfd in Hwf. unfold good_d, wfd_d, live, live_d, dproj; simpl.
  repeat split; try lia.
  - intros T c HL HT. subst t. destruct (d_vterm s =? d_term s) eqn:E; [|discriminate].
    destruct (d_vcand s); [|discriminate]. inversion HL; subst. rewrite N.eqb_refl. reflexivity.
  - intros T c HL Hne. exfalso. apply Hne. destruct (d_vterm s =? t) eqn:E; [|discriminate].
    apply N.eqb_eq in E. assert (d_vterm s = d_term s) as -> by lia. rewrite N.eqb_refl.
    destruct (d_vcand s); [|discriminate]. inversion HL; subst. f_equal. f_equal. lia.
Qed.

Lemma term_only_prefixes P s e tr t :
  wfd s -> d_term s <= t ->
  (sfilter tr = [] \/ sfilter tr = [ESetTerm t true] \/ sfilter tr = [ESetTerm t false]) ->
  forall j, good_d P s e (fold_left vt_apply (firstn j tr) (dproj s)).
Proof.
  intros Hwf Hle Htr j. destruct (prefix_sfilter tr (dproj s) j) as [j' ->].
  destruct Htr as [->|[->| ->]].
  - destruct j'; simpl; apply good_d_refl; exact Hwf.
  - destruct j' as [|[|j']]; simpl; try (apply good_d_refl; exact Hwf); apply good_term_only; assumption.
  - destruct j' as [|[|j']]; simpl; apply good_d_refl; exact Hwf.
Qed.

Lemma bump_cases s fs t (b : bool) :
  let X := (if b then match do_set_term (set_state s Follower) fs t with
                      | Some (s1, fs1) => Some (s1, fs1, [ESetTerm t true])
                      | None => None end
            else Some (s, fs, [])) in
  (X = None /\ b = true) \/
  (exists s1 fs1 tr1, X = Some (s1, fs1, tr1) /\
     ((tr1 = [] /\ s1 = s /\ b = false) \/
      (tr1 = [ESetTerm t true] /\ dproj s1 = (t, d_vterm s, d_vcand s) /\ v_term s1 = t /\ b = true))).
Proof.
  destruct b; simpl.
  - destruct (do_set_term (set_state s Follower) fs t) as [[s1 fs1]|] eqn:E; [|left; auto].
    right. exists s1, fs1, [ESetTerm t true]. split; [reflexivity|]. right.
    apply do_set_term_spec in E. destruct E as (A & B & C & D & _).
    unfold dproj. rewrite A, C, D. simpl. auto.
  - right. exists s, fs, []. auto.
Qed.

(* shared conclusion for AppendEntries / InstallSnapshot *)
Lemma term_only_handler {R} P s e (t : N) (b : bool) fs (body : nstate -> list ev -> list bool -> outcome R)
      (rterm : R -> N) :
  wfu s -> v_term s <= t -> (b = false -> t = v_term s) ->
  (forall s1 tr1 fs1, body_ok s1 tr1 (body s1 tr1 fs1)) ->
  match (match (if b then match do_set_term (set_state s Follower) fs t with
                          | Some (s1, fs1) => Some (s1, fs1, [ESetTerm t true])
                          | None => None end
                else Some (s, fs, [])) with
         | None => Panic (set_state s Follower) [ESetTerm t false]
         | Some (s1, fs1, tr1) => body s1 tr1 fs1
         end) with
  | Done s' r tr fs' =>
      wfu s' /\ dproj s' = fold_left vt_apply tr (dproj s) /\
      (forall j, good_d P s e (fold_left vt_apply (firstn j tr) (dproj s)))
  | Panic s' tr => forall j, good_d P s e (fold_left vt_apply (firstn j tr) (dproj s))
  end.
Proof.
  intros Hw Hle Hb Hbody. pose proof Hw as [Hwf Hvt]. unfold wfd in Hwf.
  destruct (bump_cases s fs t b) as [[-> _]|(s1 & fs1 & tr1 & -> & Hc)].
  - intros j. apply (term_only_prefixes P s e _ t Hwf); [lia|]. right. right. reflexivity.
  - specialize (Hbody s1 tr1 fs1). destruct (body s1 tr1 fs1) as [s' r tr fs'|s' tr]; simpl in Hbody.
    + destruct Hbody as (F1 & F2 & F3).
      destruct Hc as [(-> & -> & Hbf)|(-> & Hd & Hv & _)].
      * split; [unfold wfu, wfd; unfold dproj in F2; inversion F2; rewrite F3; lia|].
        split; [rewrite fold_sfilter, F1; simpl; exact F2|].
        apply (term_only_prefixes P s e tr t Hwf); [lia|]. left. exact F1.
      * split; [unfold wfu, wfd; unfold dproj in F2, Hd; rewrite Hd in F2; inversion F2; rewrite F3, Hv; lia|].
        split; [rewrite fold_sfilter, F1; simpl; rewrite F2; exact Hd|].
        apply (term_only_prefixes P s e tr t Hwf); [lia|]. right. left. exact F1.
    + destruct Hc as [(-> & -> & Hbf)|(-> & Hd & Hv & _)].
      * apply (term_only_prefixes P s e tr t Hwf); [lia|]. left. exact Hbody.
      * apply (term_only_prefixes P s e tr t Hwf); [lia|]. right. left. exact Hbody.
Qed.

Lemma append_entries_good P s fs a : wfu s ->
  match append_entries P s fs a with
  | Done s' r tr fs' =>
      wfu s' /\ dproj s' = fold_left vt_apply tr (dproj s) /\
      (forall j, good_d P s (NAppend a) (fold_left vt_apply (firstn j tr) (dproj s)))
  | Panic s' tr => forall j, good_d P s (NAppend a) (fold_left vt_apply (firstn j tr) (dproj s))
  end.
Proof.
  intros Hw. pose proof Hw as [Hwf Hvt]. unfold append_entries.
  destruct (aq_term a <? v_term s) eqn:E.
  { split; [exact Hw|]. split; [reflexivity|]. intros j. destruct j; apply good_d_refl; exact Hwf. }
  apply N.ltb_ge in E.
  set (b := (v_term s <? aq_term a) || (negb (v_role s =? Follower) && negb (v_transfer s))).
  apply (term_only_handler P s (NAppend a) (aq_term a) b fs
           (fun s1 tr1 fs1 => ae_body P s (set_leader s1 (aq_addr a) (aq_id a))
                                      (if b then aq_term a else v_term s) tr1 fs1 a) ar_term); auto.
  - intros Hb. subst b. apply orb_false_iff in Hb. destruct Hb as [Hb _]. apply N.ltb_ge in Hb. lia.
  - intros s1 tr1 fs1.
    pose proof (ae_body_ok P s (set_leader s1 (aq_addr a) (aq_id a)) (if b then aq_term a else v_term s) tr1 fs1 a) as H.
    destruct (ae_body _ _ _ _ _ _ _); simpl in *; exact H.
Qed.

Lemma install_snapshot_good P s fs q : wfu s ->
  match install_snapshot P s fs q with
  | Done s' r tr fs' =>
      wfu s' /\ dproj s' = fold_left vt_apply tr (dproj s) /\
      (forall j, good_d P s (NInstall q) (fold_left vt_apply (firstn j tr) (dproj s)))
  | Panic s' tr => forall j, good_d P s (NInstall q) (fold_left vt_apply (firstn j tr) (dproj s))
  end.
Proof.
  intros Hw. pose proof Hw as [Hwf Hvt]. unfold install_snapshot.
  destruct (iq_term q <? v_term s) eqn:E.
  { split; [exact Hw|]. split; [reflexivity|]. intros j. destruct j; apply good_d_refl; exact Hwf. }
  apply N.ltb_ge in E.
  apply (term_only_handler P s (NInstall q) (iq_term q) (v_term s <? iq_term q) fs
           (fun s1 tr1 fs1 => is_body P (set_leader s1 (iq_addr q) (iq_id q))
                                      (if v_term s <? iq_term q then iq_term q else v_term s) tr1 fs1 q)
           (fun r => fst (fst r))); auto.
  - intros Hb. apply N.ltb_ge in Hb. lia.
  - intros s1 tr1 fs1.
    pose proof (is_body_ok P (set_leader s1 (iq_addr q) (iq_id q)) (if v_term s <? iq_term q then iq_term q else v_term s) tr1 fs1 q) as H.
    destruct (is_body _ _ _ _ _ _); simpl in *; exact H.
Qed.

(* ---------------------------------------------------------------- electSelf *)
Lemma elect_self_good P s fs : wfu s ->
  match elect_self P s fs with
  | Done s' r tr fs' =>
      wfu s' /\ dproj s' = fold_left vt_apply tr (dproj s) /\
      (forall j, good_d P s NElect (fold_left vt_apply (firstn j tr) (dproj s)))
  | Panic s' tr => forall j, good_d P s NElect (fold_left vt_apply (firstn j tr) (dproj s))
  end.
Proof.
  intros Hw. pose proof Hw as [Hwf Hvt]. unfold wfd in Hwf. unfold elect_self.
  assert (Hrefl : good_d P s NElect (dproj s)) by (apply good_d_refl; exact Hwf).
  destruct (do_set_term s fs (v_term s + 1)) as [[s1 fs1]|] eqn:E.
  2:{ intros j. destruct j as [|[|j]]; simpl; exact Hrefl. }
  apply do_set_term_spec in E. destruct E as (A & B & C & D & EL & F & _).
  assert (Hd1 : dproj s1 = (v_term s + 1, d_vterm s, d_vcand s)) by (unfold dproj; rewrite A, C, D; reflexivity).
  assert (Hg1 : good_d P s NElect (v_term s + 1, d_vterm s, d_vcand s)).
  { apply good_term_only; [exact Hwf|lia]. }
  destruct (last_entry s1) as [li lt].
  destruct (existsb (fun sv => is_voter sv && (s_id sv =? p_self P)) (v_latest s1)) eqn:EV.
  - pose proof (persist_vote_spec s1 fs1 (v_term s + 1) (p_self P)) as Hp.
    destruct (persist_vote s1 fs1 (v_term s + 1) (p_self P)) as [[[s2 ok] tr2] fs2].
    assert (Hg2 : good_d P s NElect (v_term s + 1, d_vterm s, Some (p_self P))).
    { unfold good_d, wfd_d, live, live_d, dproj; simpl. repeat split; try lia.
      - intros T c HL HT. destruct (d_vterm s =? d_term s) eqn:EE; [|discriminate].
        destruct (d_vcand s); inversion HL; subst. lia.
      - intros T c HL _. destruct (d_vterm s =? v_term s + 1) eqn:EE; [|discriminate]. lia. }
    assert (Hg3 : good_d P s NElect (v_term s + 1, v_term s + 1, Some (p_self P))).
    { unfold good_d, wfd_d, live, live_d, dproj; simpl. repeat split; try lia.
      - intros T c HL HT. destruct (d_vterm s =? d_term s) eqn:EE; [|discriminate].
        destruct (d_vcand s); inversion HL; subst. lia.
      - intros T c HL _. rewrite N.eqb_refl in HL. inversion HL; subst. right.
        repeat split; auto. rewrite <- EL. exact EV. }
    simpl. destruct Hp as [(-> & -> & ->)|[(-> & -> & ->)|(-> & -> & ->)]].
    + split; [unfold wfu, wfd; rewrite A, B, C; lia|]. split; [simpl; exact Hd1|].
      intros j. destruct j as [|[|[|j]]]; simpl; first [exact Hrefl|exact Hg1].
    + split; [unfold wfu, wfd; simpl; rewrite A, B, C; lia|].
      split; [unfold dproj; simpl; rewrite A, C; reflexivity|].
      intros j. destruct j as [|[|[|[|j]]]]; simpl; first [exact Hrefl|exact Hg1|exact Hg2].
    + split; [unfold wfu, wfd; simpl; rewrite A, B; lia|].
      split; [unfold dproj; simpl; rewrite A; reflexivity|].
      intros j. destruct j as [|[|[|[|j]]]]; simpl; first [exact Hrefl|exact Hg1|exact Hg2|exact Hg3].
  - simpl. split; [unfold wfu, wfd; rewrite A, B, C; lia|]. split; [exact Hd1|].
    intros j. destruct j as [|[|j]]; simpl; first [exact Hrefl|exact Hg1].
Qed.

(* ---------------------------------------------------------------- NewRaft *)
Lemma scan_configs_spec P n : forall s from s',
  scan_configs P s from n = Some s' -> dproj s' = dproj s /\ v_term s' = v_term s.
Proof.
  induction n as [|n IH]; intros s from s' H; simpl in H.
  - inversion H; subst. auto.
  - destruct (d_log s !! from) as [e|]; [|discriminate].
    apply IH in H. destruct H as [H1 H2].
    destruct (process_config_entry_spec P s e) as [A B]. rewrite H1, H2. auto.
Qed.

Lemma recover_spec P img s tr : recover P img = RecOk s tr ->
  dproj s = dproj img /\ v_term s = d_term img.
Proof.
  unfold recover. destruct (rec_last _) as [le|]; [|discriminate].
  destruct (rec_snapshot _) as [[s3 tr3]|] eqn:E3; [|discriminate].
  assert (Hs3 : dproj s3 = dproj img /\ v_term s3 = d_term img).
  { unfold rec_snapshot in E3. destruct (find sn_ok _) as [sn|].
    - inversion E3; subst. auto.
    - destruct (list_snaps _); [|discriminate]. inversion E3; subst. auto. }
  destruct Hs3 as [Hd3 Hv3].
  destruct (rec_committed P s3) as [| | |s4 tr4] eqn:E4; try discriminate.
  assert (Hs4 : dproj s4 = dproj img /\ v_term s4 = d_term img).
  { unfold rec_committed in E4. destruct (p_rc P).
    - destruct (negb (p_track P)); [discriminate|].
      match type of E4 with context [process_logs ?S ?I] => destruct (process_logs S I) as [[s4' tr4']|] eqn:EP end; [|discriminate].
      match type of E4 with context [if ?B then _ else _] => destruct B end; [discriminate|].
      inversion E4; subst. apply process_logs_spec in EP. destruct EP as (G1 & G2 & _).
      rewrite G1, G2. simpl. auto.
    - inversion E4; subst. auto. }
  destruct Hs4 as [Hd4 Hv4].
  match goal with |- context [scan_configs P ?S ?F ?N] => destruct (scan_configs P S F N) as [s5|] eqn:ES end; [|discriminate].
  intros H; inversion H; subst. apply scan_configs_spec in ES. destruct ES as [E1 E2].
  match goal with |- context [if ?B then _ else _] => destruct B end; [change (dproj s5 = dproj img /\ v_term s5 = d_term img)|]; rewrite E1, E2; auto.
Qed.

Lemma boot_spec P img r out : wfd img -> boot P img = (r, out) ->
  wfr r /\ dproj (image r) = dproj img.
Proof.
  intros Hwf. unfold boot. destruct (recover P img) as [s tr| | |] eqn:E; intros H; inversion H; subst; simpl.
  - apply recover_spec in E. destruct E as [E1 E2]. split; [|exact E1].
    unfold wfu, wfd in *. unfold dproj in E1. inversion E1. rewrite E2. lia.
  - auto.
  - auto.
  - auto.
Qed.

(* ---------------------------------------------------------------- one event, with crash cuts *)
Definition handler_good {R} (P : params) (s : nstate) (e : nevent) (o : outcome R) : Prop :=
  match o with
  | Done s' r tr fs' =>
      wfu s' /\ dproj s' = fold_left vt_apply tr (dproj s) /\
      (forall j, good_d P s e (fold_left vt_apply (firstn j tr) (dproj s)))
  | Panic s' tr => forall j, good_d P s e (fold_left vt_apply (firstn j tr) (dproj s))
  end.

Lemma good_d_wfd P s e img : good_d P s e (dproj img) -> wfd img.
Proof. intros (H & _). exact H. Qed.

Lemma finish_good {R} P (enc : R -> list N) (mk : R -> nobs) si s e cut (o : outcome R) :
  wfu s -> handler_good P s e o ->
  let '(r', ob, out) := finish P enc mk si s cut o in
  wfr r' /\ good_d P s e (dproj (image r')) /\
  (ob = OLost \/ exists s' r tr fs', o = Done s' r tr fs' /\ r' = Up s' /\ ob = mk r).
Proof.
  intros Hw Hg. unfold finish. destruct o as [s' r tr fs'|s' tr]; simpl in Hg.
  - destruct Hg as (Hw' & Hd & Hj).
    destruct ((0 <? cut) && (N.to_nat cut <=? count_durable tr)%nat).
    + destruct (cut_image_prefix P si tr s (N.to_nat cut)) as [j Hjj].
      pose proof (Hj j) as Hgood. rewrite <- Hjj in Hgood.
      destruct (boot P (cut_image P si s tr (N.to_nat cut))) as [r' out] eqn:EB.
      apply boot_spec in EB; [|eapply good_d_wfd; exact Hgood]. destruct EB as [B1 B2].
      split; [exact B1|]. split; [rewrite B2; exact Hgood|]. left. reflexivity.
    + split; [exact Hw'|]. split.
      * simpl. rewrite Hd. rewrite <- (firstn_all tr) at 1. apply Hj.
      * right. exists s', r, tr, fs'. auto.
  - destruct (cut_image_prefix P si tr s (length tr)) as [j Hjj].
    pose proof (Hg j) as Hgood. rewrite <- Hjj in Hgood.
    destruct (boot P (cut_image P si s tr (length tr))) as [r' out] eqn:EB.
    apply boot_spec in EB; [|eapply good_d_wfd; exact Hgood]. destruct EB as [B1 B2].
    split; [exact B1|]. split; [rewrite B2; exact Hgood|]. left. reflexivity.
Qed.

Lemma wfr_wfd r : wfr r -> wfd (image r).
Proof. destruct r; simpl; [intros [H _]; exact H|auto]. Qed.

(* takeSnapshot touches the snapshot store and the log store only *)
Lemma take_snapshot_good P s fs : wfu s -> handler_good P s NSnapshot (take_snapshot P s fs).
Proof.
  intros Hw. pose proof Hw as [Hwd Hvt].
  assert (Hrefl : good_d P s NSnapshot (dproj s)) by (apply good_d_refl; exact Hwd).
  assert (Hns : forall tr s', forallb (fun e => negb (is_stable_ev e)) tr = true -> dproj s' = dproj s -> v_term s' = v_term s ->
            wfu s' /\ dproj s' = fold_left vt_apply tr (dproj s) /\
            (forall j, good_d P s NSnapshot (fold_left vt_apply (firstn j tr) (dproj s)))).
  { intros tr s' Hf Hd Hv. split; [|split].
    - unfold wfu, wfd in *. unfold dproj in Hd. inversion Hd as [[E1 E2 E3]]. rewrite E1, E2, Hv. auto.
    - rewrite fold_nostable by exact Hf. exact Hd.
    - intros j. rewrite fold_nostable by (apply firstn_forallb; exact Hf). exact Hrefl. }
  unfold take_snapshot, handler_good. destruct (fsm_index s) as [fi ft].
  destruct (fi =? 0); [apply (Hns [] s); reflexivity|].
  destruct (fi <? v_committedIdx s); [apply (Hns [] s); reflexivity|].
  destruct (next_fail fs) as [fc fs1]. destruct fc; [apply (Hns [ESnap fi ft false] s); reflexivity|].
  destruct (next_fail fs1) as [fcl fs2]. destruct fcl; [apply (Hns [ESnap fi ft false] s); reflexivity|].
  match goal with |- context [run_compaction ?S ?F ?R] =>
    pose proof (run_compaction_spec S F R) as Hc; destruct (run_compaction S F R) as [[s2 trc] fs3] end.
  destruct Hc as (C1 & C2 & C3).
  apply Hns.
  - simpl. unfold sfilter in C3. clear -C3. induction trc as [|e r IH]; simpl in *; [reflexivity|].
    destruct (is_stable_ev e); [discriminate|]. simpl. apply IH. exact C3.
  - rewrite C1. reflexivity.
  - rewrite C2. reflexivity.
Qed.

(* Every event, every failure pattern, every crash cut *)
Theorem step_good P r e cut fs : wfr r ->
  let '(r', ob, out) := step_full P r e cut fs in
  wfr r' /\ good_d P (image r) e (dproj (image r')) /\
  (forall q t, ob = OVote q t true -> live (image r') = Some (vq_term q, vq_addr q)) /\
  (forall q t g s, ob = OVote q t g -> r = Up s -> v_term s <= t).
Proof.
  intros Hw. pose proof (wfr_wfd r Hw) as Hwd.
  assert (Hsame : forall ob, wfr r /\ good_d P (image r) e (dproj (image r)) /\
            (forall q t, ob = ONone -> ONone = OVote q t true -> live (image r) = Some (vq_term q, vq_addr q))).
  { intros ob. split; [exact Hw|]. split; [apply good_d_refl; exact Hwd|]. intros; discriminate. }
  unfold step_full. destruct r as [s|s]; destruct e as [q|q|a|q| | | | |]; simpl.
  - (* vote *)
    pose proof (request_vote_good P s fs q Hw) as Hrv.
    assert (Hh : handler_good P s (NVote q) (request_vote s fs q)).
    { destruct (request_vote s fs q); simpl in *; [tauto|exact Hrv]. }
    pose proof (finish_good P (fun x : N * bool => [fst x; b2n (snd x)]) (fun x => OVote q (fst x) (snd x)) None s (NVote q) cut _ Hw Hh) as Hf.
    destruct (finish P _ _ None s cut (request_vote s fs q)) as [[r' ob] out].
    destruct Hf as (F1 & F2 & F3). split; [exact F1|]. split; [exact F2|].
    destruct F3 as [->|(s' & rr & tr & fs' & Ho & -> & ->)].
    + split; intros; discriminate.
    + rewrite Ho in Hrv. destruct Hrv as (_ & _ & _ & Ht & Hgr). split.
      * intros q0 t0 Hob. inversion Hob; subst. simpl. apply Hgr. assumption.
      * intros q0 t0 g0 s0 Hob Hs. inversion Hob; subst. inversion Hs; subst. exact Ht.
  - (* pre-vote: no state change at all *)
    destruct (request_prevote s q) as [t g]. split; [exact Hw|]. split; [apply good_d_refl; exact Hwd|].
    split; intros; discriminate.
  - (* append *)
    pose proof (append_entries_good P s fs a Hw) as Hae.
    pose proof (finish_good P (fun x : aresp => [ar_term x; ar_last x; b2n (ar_success x); b2n (ar_noretry x); b2n (ar_err x)])
                  (fun x => OAppend a x) None s (NAppend a) cut _ Hw Hae) as Hf.
    destruct (finish P _ _ None s cut (append_entries P s fs a)) as [[r' ob] out].
    destruct Hf as (F1 & F2 & F3). split; [exact F1|]. split; [exact F2|].
    destruct F3 as [->|(s' & rr & tr & fs' & Ho & -> & ->)]; split; intros; discriminate.
  - (* install *)
    pose proof (install_snapshot_good P s fs q Hw) as His.
    match goal with |- context [finish P ?E ?M ?SI s cut ?O] =>
      pose proof (finish_good P E M SI s (NInstall q) cut O Hw His) as Hf;
      destruct (finish P E M SI s cut O) as [[r' ob] out] end.
    destruct Hf as (F1 & F2 & F3). split; [exact F1|]. split; [exact F2|].
    destruct F3 as [->|(s' & rr & tr & fs' & Ho & -> & ->)]; split; intros; discriminate.
  - (* timeout now: volatile fields only *)
    split; [exact Hw|]. split; [exact (good_d_refl P s NTimeoutNow Hwd)|]. split; intros; discriminate.
  - (* elect *)
    pose proof (elect_self_good P s fs Hw) as Hel.
    match goal with |- context [finish P ?E ?M ?SI s cut ?O] =>
      pose proof (finish_good P E M SI s NElect cut O Hw Hel) as Hf;
      destruct (finish P E M SI s cut O) as [[r' ob] out] end.
    destruct Hf as (F1 & F2 & F3). split; [exact F1|]. split; [exact F2|].
    destruct F3 as [->|(s' & rr & tr & fs' & Ho & -> & ->)]; split; intros; discriminate.
  - (* restart *)
    destruct (boot P s) as [r' out] eqn:EB. apply boot_spec in EB; [|exact Hwd]. destruct EB as [B1 B2].
    split; [exact B1|]. split; [rewrite B2; apply good_d_refl; exact Hwd|]. split; intros; discriminate.
  - split; [exact Hw|]. split; [apply good_d_refl; exact Hwd|]. split; intros; discriminate.
  - (* snapshot *)
    pose proof (take_snapshot_good P s fs Hw) as Hts. destruct (fsm_index s) as [fi ft] eqn:Efi.
    match goal with |- context [finish P ?E ?M ?SI s cut ?O] =>
      pose proof (finish_good P E M SI s NSnapshot cut O Hw Hts) as Hf;
      destruct (finish P E M SI s cut O) as [[r' ob] out] end.
    destruct Hf as (F1 & F2 & F3). split; [exact F1|]. split; [exact F2|].
    destruct F3 as [->|(s' & rr & tr & fs' & Ho & -> & ->)]; split; intros; discriminate.
  - split; [exact Hw|]. split; [apply good_d_refl; exact Hwd|]. split; intros; discriminate.
  - split; [exact Hw|]. split; [apply good_d_refl; exact Hwd|]. split; intros; discriminate.
  - split; [exact Hw|]. split; [apply good_d_refl; exact Hwd|]. split; intros; discriminate.
  - split; [exact Hw|]. split; [apply good_d_refl; exact Hwd|]. split; intros; discriminate.
  - split; [exact Hw|]. split; [apply good_d_refl; exact Hwd|]. split; intros; discriminate.
  - split; [exact Hw|]. split; [apply good_d_refl; exact Hwd|]. split; intros; discriminate.
  - destruct (boot P s) as [r' out] eqn:EB. apply boot_spec in EB; [|exact Hwd]. destruct EB as [B1 B2].
    split; [exact B1|]. split; [rewrite B2; apply good_d_refl; exact Hwd|]. split; intros; discriminate.
  - split; [exact Hw|]. split; [apply good_d_refl; exact Hwd|]. split; intros; discriminate.
  - split; [exact Hw|]. split; [apply good_d_refl; exact Hwd|]. split; intros; discriminate.
Qed.

(* ---------------------------------------------------------------- histories *)
Definition input : Type := nevent * N * list bool.
Definition hitem : Type := nrun * nevent * nobs * nrun.

Fixpoint run_hist (P : params) (r : nrun) (ins : list input) : list hitem :=
  match ins with
  | [] => []
  | (e, cut, fs) :: rest =>
    let '(r', ob, _) := step_full P r e cut fs in (r, e, ob, r') :: run_hist P r' rest
  end.

Definition grant_of (h : hitem) : list (N * N) :=
  match h with
  | (_, _, OVote q _ true, _) => [(vq_term q, vq_addr q)]
  | _ => []
  end.
Definition grants (h : list hitem) : list (N * N) := flat_map grant_of h.

Definition functional (G : list (N * N)) : Prop :=
  forall T c c', In (T, c) G -> In (T, c') G -> c = c'.

Definition inv_grants (r : nrun) (G : list (N * N)) : Prop :=
  forall T c, In (T, c) G ->
    T < d_term (image r) \/ (d_term (image r) = T /\ live (image r) = Some (T, c)).

Lemma live_term s T c : live s = Some (T, c) -> d_term s = T /\ d_vterm s = T /\ d_vcand s = Some c.
Proof.
  unfold live, live_d, dproj. destruct (d_vterm s =? d_term s) eqn:E; [|discriminate].
  destruct (d_vcand s); [|discriminate]. intros H; inversion H; subst. apply N.eqb_eq in E. auto.
Qed.

Lemma grants_cons h rest : grants (h :: rest) = grant_of h ++ grants rest.
Proof. reflexivity. Qed.

Lemma run_hist_cons P r e cut fs rest :
  run_hist P r ((e, cut, fs) :: rest) =
  (r, e, snd (fst (step_full P r e cut fs)), fst (fst (step_full P r e cut fs)))
    :: run_hist P (fst (fst (step_full P r e cut fs))) rest.
Proof. simpl. destruct (step_full P r e cut fs) as [[r' ob] out]. reflexivity. Qed.

Lemma grants_functional P ins : forall r G,
  wfr r -> inv_grants r G -> functional G -> functional (G ++ grants (run_hist P r ins)).
Proof.
  induction ins as [|[[e cut] fs] rest IH]; intros r G Hw Hinv Hfun.
  - simpl. rewrite app_nil_r. exact Hfun.
  - rewrite run_hist_cons, grants_cons.
    pose proof (step_good P r e cut fs Hw) as Hs.
    destruct (step_full P r e cut fs) as [[r' ob] out]. simpl fst; simpl snd.
    destruct Hs as (Hw' & Hgood & Hgr & _).
    destruct Hgood as (_ & Hmono & Hstab & _). unfold dproj in Hmono. simpl in Hmono.
    (* old grants stay protected *)
    assert (Hinv' : inv_grants r' G).
    { intros T c Hin. destruct (Hinv T c Hin) as [Hlt|[Heq HL]].
      - left. lia.
      - destruct (N.eq_dec (d_term (image r')) T) as [E|E].
        + right. split; [exact E|]. apply Hstab; [exact HL|exact E].
        + left. lia. }
    remember (grant_of (r, e, ob, r')) as g eqn:Eg.
    assert (Hg : g = [] \/ exists q t, ob = OVote q t true /\ g = [(vq_term q, vq_addr q)]).
    { subst g. unfold grant_of. destruct ob as [q t [|]| | | | | |]; auto. right. eauto. }
    clear Eg. rewrite app_assoc. apply IH; [exact Hw'| |].
    + intros T c Hin. apply in_app_iff in Hin. destruct Hin as [Hin|Hin]; [apply Hinv'; exact Hin|].
      destruct Hg as [Hg|(q & t & Hob & Hg)]; rewrite Hg in Hin; [contradiction|].
      destruct Hin as [Hin|[]]. inversion Hin; subst. right.
      pose proof (Hgr q t eq_refl) as HL. apply live_term in HL as HT. destruct HT as (HT & _). auto.
    + intros T c c' H1 H2. apply in_app_iff in H1, H2.
      destruct Hg as [Hg|(q & t & Hob & Hg)]; rewrite Hg in H1, H2.
      * destruct H1 as [H1|[]], H2 as [H2|[]]. apply (Hfun T c c' H1 H2).
      * pose proof (Hgr q t Hob) as HL. apply live_term in HL as HT. destruct HT as (HT & _).
        assert (Hold : forall x, In (vq_term q, x) G -> x = vq_addr q).
        { intros x Hx. destruct (Hinv' _ _ Hx) as [Hlt|[_ HL']]; [lia|]. rewrite HL in HL'. inversion HL'. reflexivity. }
        destruct H1 as [H1|[H1|[]]], H2 as [H2|[H2|[]]].
        -- apply (Hfun T c c' H1 H2).
        -- inversion H2; subst. apply Hold. exact H1.
        -- inversion H1; subst. symmetry. apply Hold. exact H2.
        -- inversion H1; inversion H2; subst. reflexivity.
Qed.

(* ---------------------------------------------------------------- the history theorems *)
Theorem one_vote_per_term P r ins : wfr r -> functional (grants (run_hist P r ins)).
Proof.
  intros Hw. change (functional ([] ++ grants (run_hist P r ins))).
  apply grants_functional; [exact Hw| |]; intros T c; [intros []|intros c' []].
Qed.

Lemma run_hist_wf P ins : forall r, wfr r ->
  forall pre e ob post, In (pre, e, ob, post) (run_hist P r ins) -> wfr pre /\ wfr post.
Proof.
  induction ins as [|[[e cut] fs] rest IH]; intros r Hw pre e' ob post Hin; simpl in Hin; [contradiction|].
  pose proof (step_good P r e cut fs Hw) as Hs.
  destruct (step_full P r e cut fs) as [[r' ob'] out]. destruct Hs as (Hw' & _).
  destruct Hin as [Hin|Hin].
  - inversion Hin; subst. auto.
  - eapply IH; eauto.
Qed.

Lemma run_hist_step P ins : forall r, wfr r ->
  forall pre e ob post, In (pre, e, ob, post) (run_hist P r ins) ->
  exists cut fs out, step_full P pre e cut fs = (post, ob, out) /\ wfr pre.
Proof.
  induction ins as [|[[e cut] fs] rest IH]; intros r Hw pre e' ob post Hin; simpl in Hin; [contradiction|].
  pose proof (step_good P r e cut fs Hw) as Hs.
  destruct (step_full P r e cut fs) as [[r' ob'] out] eqn:ES. destruct Hs as (Hw' & _).
  destruct Hin as [Hin|Hin].
  - inversion Hin; subst. exists cut, fs, out. auto.
  - eapply IH; eauto.
Qed.

(* every item of every history: term monotone, well-formed, casts checked, grants persisted *)
Theorem history_item_good P r ins : wfr r ->
  forall pre e ob post, In (pre, e, ob, post) (run_hist P r ins) ->
  d_term (image pre) <= d_term (image post) /\
  (forall T c, live (image post) = Some (T, c) -> live (image pre) <> Some (T, c) -> cast_ok P (image pre) e T c) /\
  (forall q t, ob = OVote q t true ->
     d_term (image post) = vq_term q /\ d_vterm (image post) = vq_term q /\ d_vcand (image post) = Some (vq_addr q)) /\
  (forall q t g s, ob = OVote q t g -> pre = Up s -> d_term s <= t).
Proof.
  intros Hw pre e ob post Hin.
  destruct (run_hist_step P ins r Hw pre e ob post Hin) as (cut & fs & out & ES & Hwp).
  pose proof (step_good P pre e cut fs Hwp) as Hs. rewrite ES in Hs.
  destruct Hs as (_ & (_ & Hmono & _ & Hcast) & Hgr & Hrt).
  split; [exact Hmono|]. split; [exact Hcast|]. split.
  - intros q t Hob. apply live_term. apply (Hgr q t Hob).
  - intros q t g s Hob Hpre. subst pre. destruct Hwp as [_ Hv]. rewrite <- Hv. eapply Hrt; eauto.
Qed.
