(* Vote and term integrity of one server over arbitrary event sequences, store failures and
   crash cuts (C06).  The objects are exactly those the driver executes: Node.request_vote,
   Node.elect_self, Node.append_entries, Node.install_snapshot, Node.recover,
   NodeCodec.step_full (with its crash cuts through cut_image). *)
From Coq Require Import List NArith Bool Lia.
From stdpp Require Import gmap.
From RaftModel Require Import Base Config Compaction Node NodeCodec.
Open Scope N_scope.

(* ---------------------------------------------------------------- the vote-relevant projection *)
Definition dproj (s : nstate) : N * N * option N := (d_term s, d_vterm s, d_vcand s).

Definition vt_apply (d : N * N * option N) (e : ev) : N * N * option N :=
  let '(t, vt, vc) := d in
  match e with
  | ESetTerm t' true => (t', vt, vc)
  | ESetVoteTerm t' true => (t, t', vc)
  | ESetVoteCand c true => (t, vt, Some c)
  | _ => d
  end.

Definition is_stable_ev (e : ev) : bool :=
  match e with ESetTerm _ _ | ESetVoteTerm _ _ | ESetVoteCand _ _ => true | _ => false end.

Lemma dproj_apply_ev P si s e : dproj (apply_ev P si s e) = vt_apply (dproj s) e.
Proof.
  destruct e as [t ok|t ok|c ok|es ok|lo hi ok|c|i t ok|e|i|d]; simpl; try reflexivity;
    try (destruct ok; reflexivity).
  - destruct (p_track P); reflexivity.
  - destruct ok; [|reflexivity]. destruct si; reflexivity.
Qed.

Lemma vt_apply_nostable d e : is_stable_ev e = false -> vt_apply d e = d.
Proof. destruct d as [[t vt] vc]. destruct e; simpl; try reflexivity; discriminate. Qed.

(* a crash cut leaves the image obtained from SOME prefix of the trace *)
Lemma cut_image_prefix P si tr : forall s k,
  exists j, dproj (cut_image P si s tr k) = fold_left vt_apply (firstn j tr) (dproj s).
Proof.
  induction tr as [|e r IH]; intros s k.
  - exists 0%nat. destruct k; reflexivity.
  - destruct k as [|k'].
    + exists 0%nat. reflexivity.
    + simpl. destruct (is_durable e).
      * destruct (IH (apply_ev P si s e) k') as [j Hj]. exists (S j). simpl.
        rewrite Hj, dproj_apply_ev. reflexivity.
      * destruct (IH (apply_ev P si s e) (S k')) as [j Hj]. exists (S j). simpl.
        rewrite Hj, dproj_apply_ev. reflexivity.
Qed.

Lemma fold_nostable d tr : forallb (fun e => negb (is_stable_ev e)) tr = true -> fold_left vt_apply tr d = d.
Proof.
  revert d. induction tr as [|e r IH]; intros d H; simpl in *; [reflexivity|].
  apply andb_true_iff in H. destruct H as [He Hr]. apply negb_true_iff in He.
  rewrite vt_apply_nostable by exact He. apply IH, Hr.
Qed.

Lemma firstn_forallb {A} (f : A -> bool) l j : forallb f l = true -> forallb f (firstn j l) = true.
Proof.
  revert j. induction l as [|x r IH]; intros j H; destruct j; simpl in *; try reflexivity.
  apply andb_true_iff in H. destruct H as [Hx Hr]. rewrite Hx. simpl. apply IH, Hr.
Qed.

(* prefixes of tr1 ++ rest where rest has no stable-store operation reach the same projections
   as prefixes of tr1 *)
Lemma prefix_app_nostable d tr1 rest j :
  forallb (fun e => negb (is_stable_ev e)) rest = true ->
  exists j', fold_left vt_apply (firstn j (tr1 ++ rest)) d = fold_left vt_apply (firstn j' tr1) d.
Proof.
  intros H. rewrite firstn_app, fold_left_app.
  rewrite (fold_nostable _ (firstn (j - length tr1) rest)) by (apply firstn_forallb, H).
  exists j. reflexivity.
Qed.

(* ---------------------------------------------------------------- predicates *)
Definition live_d (d : N * N * option N) : option (N * N) :=
  let '(t, vt, vc) := d in
  if vt =? t then match vc with Some c => Some (vt, c) | None => None end else None.
Definition live (s : nstate) : option (N * N) := live_d (dproj s).

Definition wfd_d (d : N * N * option N) : Prop := snd (fst d) <= fst (fst d).
Definition wfd (s : nstate) : Prop := d_vterm s <= d_term s.
Definition wfu (s : nstate) : Prop := wfd s /\ v_term s = d_term s.
Definition wfr (r : nrun) : Prop := match r with Up s => wfu s | Down s => wfd s end.

(* the checks a vote cast must have passed, against the voter's state s at that moment *)
Definition cast_ok (P : params) (s : nstate) (e : nevent) (T c : N) : Prop :=
  (exists q, e = NVote q /\ vq_term q = T /\ vq_addr q = c /\ v_term s <= T /\
             log_ok s (vq_lastIdx q) (vq_lastTerm q) = true /\
             (vq_id q <> 0 -> v_latest s <> [] -> has_vote (v_latest s) (vq_id q) = true)) \/
  (e = NElect /\ c = p_self P /\ T = v_term s + 1 /\
   existsb (fun sv => is_voter sv && (s_id sv =? p_self P)) (v_latest s) = true).

(* what every durable image d reachable inside one event from d0 must satisfy *)
Definition good_d (P : params) (s : nstate) (e : nevent) (d : N * N * option N) : Prop :=
  wfd_d d /\
  d_term s <= fst (fst d) /\
  (forall T c, live s = Some (T, c) -> fst (fst d) = T -> live_d d = Some (T, c)) /\
  (forall T c, live_d d = Some (T, c) -> live s <> Some (T, c) -> cast_ok P s e T c).

Lemma good_d_refl P s e : wfd s -> good_d P s e (dproj s).
Proof.
  intros H. unfold good_d, dproj, wfd_d, live; simpl. repeat split; try lia; auto.
  intros T c H1 H2. contradiction.
Qed.

Ltac bool_hyps :=
  repeat match goal with
  | H : (_ && _) = true |- _ => apply andb_true_iff in H; destruct H
  | H : (_ && _) = false |- _ => apply andb_false_iff in H
  | H : (_ || _) = true |- _ => apply orb_true_iff in H
  | H : (_ || _) = false |- _ => apply orb_false_iff in H; destruct H
  | H : negb _ = true |- _ => apply negb_true_iff in H
  | H : negb _ = false |- _ => apply negb_false_iff in H
  end.

(* ---------------------------------------------------------------- the term bump *)
Lemma set_state_dproj s r : dproj (set_state s r) = dproj s.
Proof. reflexivity. Qed.

Lemma do_set_term_spec s fs t s' fs' :
  do_set_term s fs t = Some (s', fs') ->
  d_term s' = t /\ v_term s' = t /\ d_vterm s' = d_vterm s /\ d_vcand s' = d_vcand s /\
  v_latest s' = v_latest s /\ last_entry s' = last_entry s /\ d_log s' = d_log s /\ d_snaps s' = d_snaps s.
Proof.
  unfold do_set_term. destruct (next_fail fs) as [f fs1]. destruct f; [discriminate|].
  intros H. inversion H; subst. repeat split.
Qed.

(* ---------------------------------------------------------------- RequestVote *)
Lemma persist_vote_spec s1 fs1 T c :
  let '(s2, ok, tr2, fs2) := persist_vote s1 fs1 T c in
  (tr2 = [ESetVoteCand c false] /\ ok = false /\ s2 = s1) \/
  (tr2 = [ESetVoteCand c true; ESetVoteTerm T false] /\ ok = false /\ s2 = set_vcand s1 (Some c)) \/
  (tr2 = [ESetVoteCand c true; ESetVoteTerm T true] /\ ok = true /\ s2 = set_vterm (set_vcand s1 (Some c)) T).
Proof.
  unfold persist_vote. destruct (next_fail fs1) as [f1 fs2]. destruct f1; [left; auto|].
  destruct (next_fail fs2) as [f2 fs3]. destruct f2; [right; left; auto|right; right; auto].
Qed.

(* a complete record (T, c) written while handling a checked request from c in term T *)
Lemma good_cast P s q vt :
  wfu s -> v_term s <= vq_term q -> vt <= vq_term q ->
  log_ok s (vq_lastIdx q) (vq_lastTerm q) = true ->
  (vq_id q <> 0 -> v_latest s <> [] -> has_vote (v_latest s) (vq_id q) = true) ->
  (forall c0, live s <> Some (vq_term q, c0)) ->
  good_d P s (NVote q) (vq_term q, vt, Some (vq_addr q)).
Proof.
  intros [Hwf Hvt] Hle Hvle Hlog Hmem Hnolive. unfold wfd in Hwf.
  unfold good_d, wfd_d; simpl. repeat split; try lia.
  - intros T c HL HT. subst T. exfalso. apply (Hnolive c). exact HL.
  - intros T c HL _. destruct (vt =? vq_term q) eqn:E; [|discriminate].
    inversion HL; subst. apply N.eqb_eq in E. left. exists q. repeat split; auto; lia.
Qed.

Lemma request_vote_good P s fs q : wfu s ->
  match request_vote s fs q with
  | Done s' r tr fs' =>
      wfu s' /\ dproj s' = fold_left vt_apply tr (dproj s) /\
      (forall j, good_d P s (NVote q) (fold_left vt_apply (firstn j tr) (dproj s))) /\
      v_term s <= fst r /\
      (snd r = true -> live s' = Some (vq_term q, vq_addr q))
  | Panic s' tr =>
      forall j, good_d P s (NVote q) (fold_left vt_apply (firstn j tr) (dproj s))
  end.
Proof.
  intros Hw. pose proof Hw as [Hwf Hvt]. unfold wfd in Hwf.
  assert (Hrefl : good_d P s (NVote q) (dproj s)) by (apply good_d_refl; exact Hwf).
  assert (Hnil : forall j, good_d P s (NVote q) (fold_left vt_apply (firstn j (@nil ev)) (dproj s))).
  { intros j. destruct j; exact Hrefl. }
  unfold request_vote.
  destruct (negb (vq_id q =? 0) && nonempty (v_latest s) && negb (in_config (v_latest s) (vq_id q))) eqn:E1.
  { simpl. split; [exact Hw|]. split; [reflexivity|]. split; [exact Hnil|]. split; [lia|intros; discriminate]. }
  destruct (negb (v_leader s =? 0) && negb (v_leader s =? vq_addr q) && negb (vq_transfer q)) eqn:E2.
  { simpl. split; [exact Hw|]. split; [reflexivity|]. split; [exact Hnil|]. split; [lia|intros; discriminate]. }
  destruct (vq_term q <? v_term s) eqn:E3.
  { simpl. split; [exact Hw|]. split; [reflexivity|]. split; [exact Hnil|]. split; [lia|intros; discriminate]. }
  (* the state after the optional bump *)
  assert (Hbump : (exists s1 fs1 tr1,
    (if v_term s <? vq_term q
     then match do_set_term (set_state s Follower) fs (vq_term q) with
          | Some (s1, fs1) => Some (s1, fs1, [ESetTerm (vq_term q) true])
          | None => None end
     else Some (s, fs, [])) = Some (s1, fs1, tr1) /\
    d_term s1 = vq_term q /\ v_term s1 = vq_term q /\ d_vterm s1 = d_vterm s /\ d_vcand s1 = d_vcand s /\
    v_latest s1 = v_latest s /\ last_entry s1 = last_entry s /\
    ((tr1 = [] /\ v_term s = vq_term q) \/ (tr1 = [ESetTerm (vq_term q) true] /\ v_term s < vq_term q)))
    \/
    (if v_term s <? vq_term q
     then match do_set_term (set_state s Follower) fs (vq_term q) with
          | Some (s1, fs1) => Some (s1, fs1, [ESetTerm (vq_term q) true])
          | None => None end
     else Some (s, fs, [])) = None /\ v_term s < vq_term q).
  { destruct (v_term s <? vq_term q) eqn:E4.
    - destruct (do_set_term (set_state s Follower) fs (vq_term q)) as [[s1 fs1]|] eqn:E5.
      + left. exists s1, fs1, [ESetTerm (vq_term q) true]. split; [reflexivity|].
        apply do_set_term_spec in E5. destruct E5 as (A & B & C & D & E & F & _).
        repeat split; auto. right. split; [reflexivity|lia].
      + right. split; [reflexivity|lia].
    - left. exists s, fs, []. split; [reflexivity|]. repeat split; auto; try lia. left. split; [reflexivity|lia]. }
  destruct Hbump as [(s1 & fs1 & tr1 & Heq & A & B & C & D & E & F & Htr)|[Heq Hlt]]; rewrite Heq; clear Heq.
  2:{ (* panic on the term write: nothing durable happened *)
      intros j. destruct j as [|[|j]]; simpl; exact Hrefl. }
  (* images reachable while only the bump has happened *)
  assert (Hpre : forall j, good_d P s (NVote q) (fold_left vt_apply (firstn j tr1) (dproj s))).
  { intros j. destruct Htr as [[-> Ht]|[-> Ht]].
    - destruct j; exact Hrefl.
    - destruct j as [|[|j]]; simpl; try exact Hrefl; unfold good_d, live, dproj, wfd_d; simpl;
      (repeat split; try lia;
       [ intros T c HL HT; unfold live_d in *; simpl in *;
         destruct (d_vterm s =? d_term s) eqn:EE; [|discriminate];
         destruct (d_vcand s); inversion HL; subst; lia
       | intros T c HL _; unfold live_d in HL; simpl in HL;
         destruct (d_vterm s =? vq_term q) eqn:EE; [|discriminate]; lia ]). }
  assert (Hfold1 : fold_left vt_apply tr1 (dproj s) = dproj s1).
  { unfold dproj. rewrite A, C, D. destruct Htr as [[-> Ht]|[-> Ht]]; simpl; [rewrite <- Hvt, Ht|]; reflexivity. }
  assert (Hwf1 : wfu s1). { unfold wfu, wfd. rewrite A, B, C. split; lia. }
  assert (Hdone1 : forall g, g = false \/ (g = true /\ live s1 = Some (vq_term q, vq_addr q)) ->
     wfu s1 /\ dproj s1 = fold_left vt_apply tr1 (dproj s) /\
     (forall j, good_d P s (NVote q) (fold_left vt_apply (firstn j tr1) (dproj s))) /\
     v_term s <= fst ((if v_term s <? vq_term q then vq_term q else v_term s), g) /\
     (snd ((if v_term s <? vq_term q then vq_term q else v_term s), g) = true -> live s1 = Some (vq_term q, vq_addr q))).
  { intros g Hg. split; [exact Hwf1|]. split; [symmetry; exact Hfold1|]. split; [exact Hpre|].
    split; [simpl; destruct (v_term s <? vq_term q) eqn:EE; lia|].
    simpl. intros Hgt. destruct Hg as [->|[_ HL]]; [discriminate|exact HL]. }
  destruct (negb (vq_id q =? 0) && nonempty (v_latest s1) && negb (has_vote (v_latest s1) (vq_id q))) eqn:E6.
  { apply Hdone1. left. reflexivity. }
  (* membership test passed *)
  assert (Hmem : vq_id q <> 0 -> v_latest s <> [] -> has_vote (v_latest s) (vq_id q) = true).
  { intros Hid Hne. rewrite E in E6. destruct (v_latest s) as [|x l] eqn:EL; [congruence|].
    simpl in E6. destruct (vq_id q =? 0) eqn:EI; [apply N.eqb_eq in EI; contradiction|].
    simpl in E6. apply negb_false_iff in E6. exact E6. }
  (* the remaining paths share one tail; first the duplicate branch *)
  destruct (if d_vterm s1 =? vq_term q then d_vcand s1 else None) as [c|] eqn:E7.
  { apply Hdone1. destruct (c =? vq_addr q) eqn:E9; [right|left; reflexivity].
    split; [reflexivity|]. unfold live, live_d, dproj. rewrite A.
    destruct (d_vterm s1 =? vq_term q) eqn:E8; [|discriminate]. rewrite E7.
    apply N.eqb_eq in E8, E9. rewrite E8, E9. reflexivity. }
  assert (Hnolive : forall c0, live s <> Some (vq_term q, c0)).
  { intros c0 HL. unfold live, live_d, dproj in HL.
    destruct (d_vterm s =? d_term s) eqn:EE; [|discriminate].
    destruct (d_vcand s) as [c1|] eqn:EC; [|discriminate]. inversion HL; subst.
    rewrite C, H0, N.eqb_refl, D in E7. discriminate. }
  destruct (negb (log_ok s1 (vq_lastIdx q) (vq_lastTerm q))) eqn:E9.
  { apply Hdone1. left. reflexivity. }
  apply negb_false_iff in E9.
  assert (Hlog : log_ok s (vq_lastIdx q) (vq_lastTerm q) = true).
  { unfold log_ok in *. rewrite <- F. exact E9. }
  assert (Hle : v_term s <= vq_term q) by (apply N.ltb_ge in E3; exact E3).
  pose proof (persist_vote_spec s1 fs1 (vq_term q) (vq_addr q)) as Hp.
  destruct (persist_vote s1 fs1 (vq_term q) (vq_addr q)) as [[[s2 ok] tr2] fs2].
  assert (Hg1 : good_d P s (NVote q) (vq_term q, d_vterm s, Some (vq_addr q))).
  { apply good_cast; auto; lia. }
  assert (Hg2 : good_d P s (NVote q) (vq_term q, vq_term q, Some (vq_addr q))).
  { apply good_cast; auto; lia. }
  assert (Hd1 : dproj s1 = (vq_term q, d_vterm s, d_vcand s)).
  { unfold dproj. rewrite A, C, D. reflexivity. }
  assert (Hsplit : forall tr2' j,
     (forall j', good_d P s (NVote q) (fold_left vt_apply (firstn j' tr2') (dproj s1))) ->
     good_d P s (NVote q) (fold_left vt_apply (firstn j (tr1 ++ tr2')) (dproj s))).
  { intros tr2' j H2. rewrite firstn_app, fold_left_app.
    destruct (Nat.le_gt_cases (length tr1) j) as [Hj|Hj].
    - rewrite (@firstn_all2 _ j tr1 Hj). rewrite Hfold1. apply H2.
    - replace (j - length tr1)%nat with 0%nat by lia. simpl. apply Hpre. }
  assert (Hs1 : good_d P s (NVote q) (dproj s1)).
  { rewrite <- Hfold1. rewrite <- (firstn_all tr1). apply Hpre. }
  assert (Hs1' : good_d P s (NVote q) (vq_term q, d_vterm s, d_vcand s)) by (rewrite <- Hd1; exact Hs1).
  simpl. destruct Hp as [(-> & -> & ->)|[(-> & -> & ->)|(-> & -> & ->)]].
  - split; [exact Hwf1|]. split; [rewrite fold_left_app, Hfold1; reflexivity|].
    split; [|split; [simpl; destruct (v_term s <? vq_term q) eqn:EE; lia|simpl; intros; discriminate]].
    intros j. apply Hsplit. intros j'. rewrite Hd1. destruct j' as [|[|j']]; simpl; exact Hs1'.
  - split; [unfold wfu, wfd; simpl; rewrite A, B, C; lia|].
    split; [rewrite fold_left_app, Hfold1, Hd1; unfold dproj; simpl; rewrite A, C; reflexivity|].
    split; [|split; [simpl; destruct (v_term s <? vq_term q) eqn:EE; lia|simpl; intros; discriminate]].
    intros j. apply Hsplit. intros j'. rewrite Hd1. destruct j' as [|[|[|j']]]; simpl; first [exact Hg1|exact Hs1'].
  - split; [unfold wfu, wfd; simpl; rewrite A, B; lia|].
    split; [rewrite fold_left_app, Hfold1, Hd1; unfold dproj; simpl; rewrite A; reflexivity|].
    split; [|split; [simpl; destruct (v_term s <? vq_term q) eqn:EE; lia|]].
    + intros j. apply Hsplit. intros j'. rewrite Hd1. destruct j' as [|[|[|j']]]; simpl; first [exact Hg2|exact Hg1|exact Hs1'].
    + simpl. intros _. unfold live, live_d, dproj. simpl. rewrite A, N.eqb_refl. reflexivity.
Qed.

