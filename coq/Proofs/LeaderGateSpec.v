(* LeaderGateSpec.v — STATEMENTS (no proofs) about the serialisation of membership changes during one
   leadership (property C07: "a leader appends a new configuration only after the previous one is
   committed and after an entry of its own term is committed, so no log ever holds two uncommitted
   configurations" - the part of it that one leader decides).

   The system is the leader-operation transition system of Model/LeaderCodec.v (step_lop: dispatchLogs,
   match reports of the replication goroutines, the commitCh case, appendConfigurationEntry,
   restoreUserSnapshot, verifyLeader), tied to the real leader code by component 8 (leader sequences).
   leaderLoop takes an operation only while the role is Leader, and it receives from
   configurationChangeCh only through configurationChangeChIfStable(), i.e. when the gate is open
   (the translator ties that: Model/LoopTable.v config_gate). *)
From Coq Require Import List NArith Bool.
From stdpp Require Import gmap.
From RaftModel Require Import Base Config Compaction Commitment Node Leader LeaderCodec.
Open Scope N_scope.

(* what leaderLoop can do in a state: nothing unless Leader; a membership change only with the gate open;
   a replication goroutine reports only an index its follower answered for, which the leader holds *)
Definition op_enabled (ls : lstate) (o : lop) : bool :=
  (v_role (l_node ls) =? Leader) &&
  match o with
  | LConfig _ _ _ => config_gate_open ls
  | LMatch _ idx => idx <=? last_index (l_node ls)
  | _ => true
  end.

Fixpoint leader_run (P : params) (tab : list (N * config)) (ls : lstate) (vf : vstate) (ops : list lop)
  : option (lstate * vstate) :=
  match ops with
  | [] => Some (ls, vf)
  | o :: r =>
    if op_enabled ls o then
      match step_lop P tab ls vf o with
      | (Some ls', vf', _) => leader_run P tab ls' vf' r
      | (None, _, _) => None
      end
    else None
  end.

(* the state setupLeaderState finds (what NewRaft and the follower's handlers maintain) *)
Definition leader_start_ok (s : nstate) : Prop :=
  v_role s = Leader /\ v_latestIdx s <= last_index s /\ v_committedIdx s <= v_latestIdx s.

(* configuration entries created during this leadership (index above the last index it started with)
   that are above the leader's commit index *)
Definition pending_configs (last0 : N) (s : nstate) : list entry :=
  filter (fun e => (e_ty e =? LogConfiguration) && (last0 <? e_idx e) && (v_commit s <? e_idx e))
         (map snd (map_to_list (d_log s))).

(* G1: whenever the gate is open - the only states in which appendConfigurationEntry runs - the latest
   configuration is at or below the leader's commit index, and so is the first index of this leadership
   (the no-op runLeader dispatches first): an entry of its own term is committed.
   G2: at most one configuration entry of this leadership is above the commit index, and it is the latest
   configuration; while there is one the gate is closed. *)
Definition gate_serialises : Prop :=
  forall P tab s0 ops ls vf,
  leader_start_ok s0 ->
  leader_run P tab (leader_setup s0) None ops = Some (ls, vf) ->
  (config_gate_open ls = true ->
     v_latestIdx (l_node ls) <= v_commit (l_node ls) /\ last_index s0 + 1 <= v_commit (l_node ls)) /\
  (length (pending_configs (last_index s0) (l_node ls)) <= 1)%nat /\
  (forall e, In e (pending_configs (last_index s0) (l_node ls)) ->
     e_idx e = v_latestIdx (l_node ls) /\ config_gate_open ls = false).

(* every entry the leader creates carries the leader's term, and the term does not change during the run:
   "the first index of this leadership is committed" is "an entry of its own term is committed" *)
Definition own_term_entries : Prop :=
  forall P tab s0 ops ls vf,
  leader_start_ok s0 ->
  leader_run P tab (leader_setup s0) None ops = Some (ls, vf) ->
  v_term (l_node ls) = v_term s0 /\
  forall i e, last_index s0 < i -> d_log (l_node ls) !! i = Some e -> e_term e = v_term s0 /\ e_idx e = i.

(* G3: a membership change taken along the run yields a configuration that differs from the one it
   replaces - which is committed at the leader, by G1 - in the vote and the membership of at most the
   one server it names, and is well formed *)
Definition changes_one_at_a_time : Prop :=
  forall P tab s0 ops ls vf q fid fs ls' vf' out,
  leader_start_ok s0 ->
  leader_run P tab (leader_setup s0) None ops = Some (ls, vf) ->
  op_enabled ls (LConfig q fid fs) = true ->
  step_lop P tab ls vf (LConfig q fid fs) = (Some ls', vf', out) ->
  v_latest (l_node ls') = v_latest (l_node ls) \/
  (check_config (v_latest (l_node ls')) = true /\
   v_latestIdx (l_node ls) <= v_commit (l_node ls) /\
   v_latestIdx (l_node ls') = last_index (l_node ls) + 1 /\
   forall x, x <> r_id q ->
     has_vote (v_latest (l_node ls')) x = has_vote (v_latest (l_node ls)) x /\
     in_config (v_latest (l_node ls')) x = in_config (v_latest (l_node ls)) x).

(* the gate is necessary: without it two configuration entries of one leadership are above the commit index *)
Fixpoint ungated_run (P : params) (tab : list (N * config)) (ls : lstate) (vf : vstate) (ops : list lop)
  : option (lstate * vstate) :=
  match ops with
  | [] => Some (ls, vf)
  | o :: r =>
    match step_lop P tab ls vf o with
    | (Some ls', vf', _) => ungated_run P tab ls' vf' r
    | (None, _, _) => None
    end
  end.

Definition gate_is_necessary : Prop :=
  exists P tab s0 ops ls vf,
  leader_start_ok s0 /\
  ungated_run P tab (leader_setup s0) None ops = Some (ls, vf) /\
  (2 <= length (pending_configs (last_index s0) (l_node ls)))%nat.
