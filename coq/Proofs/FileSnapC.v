(* FileSnapC.v — the invariant Q that holds at every prefix of the op program, and the kinds of
   step that preserve it. *)
From Coq Require Import List Arith NArith Bool Lia Permutation.
From RaftModel Require Import FileSnap FileSnapSpec.
From RaftProofs Require Import FileSnapA FileSnapB.
Import ListNotations.
Open Scope N_scope.

Definition Outr (r : nat) (f : fs) (x : N * metaval) : Prop :=
  exists G, NoDup G /\ length G = r /\ incl G (candidates f) /\ forall y, In y G -> key_lt x y = true.

Definition Complete (s : list sop) (d : dir) : Prop :=
  d_tmp d = false /\
  exists t i, created_as s (d_sid d) = Some (t, i) /\ ended s (d_sid d) = Some true /\
    (exists x, d_meta d = Some x /\ mf_c x = MFull (mkMV 1 t i (Some (written s (d_sid d))))) /\
    (exists y, d_state d = Some y /\ sf_c y = written s (d_sid d)).

Record Q (r : nat) (s : list sop) (h : list fsop) (f : fs) : Prop := mkQ {
  q_nodup : NoDup (map d_sid f);
  q_ren : forall d, In d f -> d_tmp d = false -> In (FRename (d_sid d)) h;
  q_clean : forall sid b, In (FRename sid) h -> dirty_after h sid b false = false;
  q_shape : forall d, In d f -> d_tmp d = false ->
    Complete s d \/ (forall m, eligible d = Some m -> Outr r f (d_sid d, m));
  q_closed : forall sid, In (FRename sid) h ->
    ended s sid = Some true /\
    exists t i, created_as s sid = Some (t, i) /\
      ((exists d, In d f /\ d_sid d = sid /\ Complete s d) \/
       Outr r f (sid, mkMV 1 t i (Some (written s sid))))
}.

Lemma Outr_mono : forall r f f' x, incl (candidates f) (candidates f') -> Outr r f x -> Outr r f' x.
Proof.
  intros r f f' x Hi [G [H1 [H2 [H3 H4]]]]. exists G. repeat split; auto.
  intros y Hy. apply Hi, H3, Hy.
Qed.

Lemma nodup_sid_eq : forall f d1 d2, NoDup (map d_sid f) -> In d1 f -> In d2 f ->
  d_sid d1 = d_sid d2 -> d1 = d2.
Proof.
  induction f as [|d f IH]; simpl; intros d1 d2 Hnd H1 H2 E; [contradiction|].
  inversion Hnd as [|? ? Hn Hnd']; subst.
  destruct H1 as [<-|H1], H2 as [<-|H2]; auto.
  - exfalso. apply Hn. rewrite E. apply in_map. exact H2.
  - exfalso. apply Hn. rewrite <- E. apply in_map. exact H1.
Qed.

Lemma in_snoc_ne : forall (A : Type) (x o : A) h, In x (h ++ [o]) -> x <> o -> In x h.
Proof.
  intros A x o h H Hne. apply in_app_or in H. destruct H as [H|[E|[]]]; [exact H|].
  exfalso. apply Hne. symmetry. exact E.
Qed.

Lemma in_snoc_l : forall (A : Type) (x o : A) h, In x h -> In x (h ++ [o]).
Proof. intros. apply in_or_app. left; assumption. Qed.

(* (a) any op but Mkdir / Rename on a sid that was never renamed: only a temporary directory changes *)
Section TmpStep.
  Variables (r : nat) (s : list sop) (h : list fsop) (f : fs) (o : fsop) (sid : N).
  Hypothesis HQ : Q r s h f.
  Hypothesis Hsid : op_sid o = Some sid.
  Hypothesis Hnr : ~ In (FRename sid) h.
  Hypothesis Hren : forall x, o <> FRename x.
  Hypothesis Hmk : forall x, o <> FMkdir x.

  Lemma tmp_keep : forall d, In d f -> d_tmp d = false -> In d (fs_apply f o).
  Proof.
    intros d Hd Ht. apply apply_in_other; [exact Hd|]. rewrite Hsid. intro E. inversion E; subst.
    apply Hnr. apply (q_ren _ _ _ _ HQ); assumption.
  Qed.

  Lemma tmp_back : forall d', In d' (fs_apply f o) -> d_tmp d' = false -> In d' f.
  Proof.
    intros d' Hd Ht. destruct (apply_in_inv f o d' Hmk Hd) as [d [Hin [[E _]|[Hs [Hu E]]]]].
    - subst; exact Hin.
    - exfalso. apply Hnr. rewrite Hsid in Hs. inversion Hs; subst.
      apply (q_ren _ _ _ _ HQ); [exact Hin|]. rewrite dstep_tmp in Ht; assumption.
  Qed.

  Lemma tmp_cand : incl (candidates f) (candidates (fs_apply f o)).
  Proof.
    intros [s' m] H. apply cand_iff in H. destruct H as [d [Hd [Hs He]]].
    apply cand_iff. exists d. split; [|auto]. apply tmp_keep; [exact Hd|].
    eapply eligible_nontmp; eauto.
  Qed.

  Lemma Q_tmp_step : Q r s (h ++ [o]) (fs_apply f o).
  Proof.
    constructor.
    - apply apply_nodup; [exact Hmk|]. apply (q_nodup _ _ _ _ HQ).
    - intros d' Hd Ht. apply in_snoc_l. apply (q_ren _ _ _ _ HQ); [|exact Ht]. apply tmp_back; assumption.
    - intros s' b Hin. apply in_snoc_ne in Hin; [|intro E; eapply Hren; symmetry; exact E].
      rewrite dirty_app. rewrite (q_clean _ _ _ _ HQ) by exact Hin.
      apply dirty_other. rewrite Hsid. intro E. inversion E; subst. contradiction.
    - intros d' Hd Ht. assert (Hin := tmp_back d' Hd Ht).
      destruct (q_shape _ _ _ _ HQ d' Hin Ht) as [Hc|Ho]; [left; exact Hc|right].
      intros m Hm. eapply Outr_mono; [apply tmp_cand|]. apply Ho; exact Hm.
    - intros s' Hin. apply in_snoc_ne in Hin; [|intro E; eapply Hren; symmetry; exact E].
      destruct (q_closed _ _ _ _ HQ s' Hin) as [He [t [i [Hc Hd]]]].
      split; [exact He|]. exists t, i. split; [exact Hc|].
      destruct Hd as [[d [Hd [Hs HC]]]|Ho].
      + left. exists d. split; [|auto]. apply tmp_keep; [exact Hd|apply HC].
      + right. eapply Outr_mono; [apply tmp_cand|exact Ho].
  Qed.
End TmpStep.

(* (b) Mkdir of a fresh sid *)
Lemma cand_app : forall f g, candidates (f ++ g) = candidates f ++ candidates g.
Proof. intros. unfold candidates. apply flat_map_app. Qed.

Lemma NoDup_app_snoc : forall (A : Type) (l : list A) x, NoDup l -> ~ In x l -> NoDup (l ++ [x]).
Proof.
  induction l as [|a l IH]; simpl; intros x Hnd Hn.
  - constructor; [intros []|constructor].
  - inversion Hnd; subst. constructor.
    + intro Hi. apply in_app_or in Hi. destruct Hi as [Hi|[E|[]]]; [contradiction|]. apply Hn. left; auto.
    + apply IH; auto.
Qed.

Lemma Q_mkdir_step : forall r s h f sid, Q r s h f -> (forall d, In d f -> d_sid d <> sid) ->
  Q r s (h ++ [FMkdir sid]) (fs_apply f (FMkdir sid)).
Proof.
  intros r s h f sid HQ Hfresh. simpl.
  assert (Hc : candidates (f ++ [mkDir sid true None None]) = candidates f).
  { rewrite cand_app. simpl. apply app_nil_r. }
  assert (Hback : forall d, In d (f ++ [mkDir sid true None None]) -> d_tmp d = false -> In d f).
  { intros d Hd Ht. apply in_app_or in Hd. destruct Hd as [Hd|[<-|[]]]; [exact Hd|discriminate]. }
  constructor.
  - rewrite map_app. simpl. apply NoDup_app_snoc.
    + apply (q_nodup _ _ _ _ HQ).
    + intro Hi. apply in_map_iff in Hi. destruct Hi as [d [E Hd]]. eapply Hfresh; eauto.
  - intros d Hd Ht. apply in_snoc_l. apply (q_ren _ _ _ _ HQ); auto.
  - intros s' b Hin. apply in_snoc_ne in Hin; [|discriminate].
    rewrite dirty_app, (q_clean _ _ _ _ HQ) by exact Hin. reflexivity.
  - intros d Hd Ht. destruct (q_shape _ _ _ _ HQ d (Hback d Hd Ht) Ht) as [HC|Ho]; [left; exact HC|right].
    intros m Hm. eapply Outr_mono; [|apply Ho; exact Hm]. rewrite Hc. apply incl_refl.
  - intros s' Hin. apply in_snoc_ne in Hin; [|discriminate].
    destruct (q_closed _ _ _ _ HQ s' Hin) as [He [t [i [Hcr Hd]]]].
    split; [exact He|]. exists t, i. split; [exact Hcr|].
    destruct Hd as [[d [Hd [Hs HC]]]|Ho].
    + left. exists d. split; [|auto]. apply in_or_app. left; exact Hd.
    + right. eapply Outr_mono; [|exact Ho]. rewrite Hc. apply incl_refl.
Qed.

(* (d) SyncParent *)
Lemma Q_syncparent_step : forall r s h f, Q r s h f -> Q r s (h ++ [FSyncParent]) (fs_apply f FSyncParent).
Proof.
  intros r s h f HQ. simpl. constructor.
  - apply (q_nodup _ _ _ _ HQ).
  - intros d Hd Ht. apply in_snoc_l. apply (q_ren _ _ _ _ HQ); auto.
  - intros s' b Hin. apply in_snoc_ne in Hin; [|discriminate].
    rewrite dirty_app, (q_clean _ _ _ _ HQ) by exact Hin. reflexivity.
  - apply (q_shape _ _ _ _ HQ).
  - intros s' Hin. apply in_snoc_ne in Hin; [|discriminate]. apply (q_closed _ _ _ _ HQ). exact Hin.
Qed.

(* (c) the Rename of a directory whose files are complete and synced *)
Section RenameStep.
  Variables (r : nat) (s : list sop) (h : list fsop) (f : fs) (sid : N) (d0 : dir).
  Hypothesis HQ : Q r s h f.
  Hypothesis Hd0 : In d0 f.
  Hypothesis Hs0 : d_sid d0 = sid.
  Hypothesis Hnr : ~ In (FRename sid) h.
  Hypothesis Hcl : forall b, dirty_after h sid b false = false.
  Hypothesis HC : Complete s (dstep (FRename sid) d0).
  Let o := FRename sid.

  Lemma ren_keep : forall d, In d f -> d_tmp d = false -> In d (fs_apply f o).
  Proof.
    intros d Hd Ht. apply apply_in_other; [exact Hd|]. simpl. intro E. inversion E; subst.
    apply Hnr. rewrite H0. apply (q_ren _ _ _ _ HQ); assumption.
  Qed.

  Lemma ren_cand : incl (candidates f) (candidates (fs_apply f o)).
  Proof.
    intros [s' m] H. apply cand_iff in H. destruct H as [d [Hd [Hs He]]].
    apply cand_iff. exists d. split; [|auto]. apply ren_keep; [exact Hd|].
    eapply eligible_nontmp; eauto.
  Qed.

  Lemma Q_rename_step : Q r s (h ++ [o]) (fs_apply f o).
  Proof.
    assert (Hmk : forall x, o <> FMkdir x) by (intros x; discriminate).
    constructor.
    - apply apply_nodup; [exact Hmk|]. apply (q_nodup _ _ _ _ HQ).
    - intros d' Hd Ht. destruct (apply_in_inv f o d' Hmk Hd) as [d [Hin [[E _]|[Hs [Hu E]]]]].
      + subst d'. apply in_snoc_l. apply (q_ren _ _ _ _ HQ); assumption.
      + apply in_or_app. right. left. subst d'. rewrite dstep_sid. simpl in Hs. inversion Hs. unfold o. congruence.
    - intros s' b Hin. rewrite dirty_app.
      rewrite (dirty_nowrite o) by (right; left; exists sid; reflexivity).
      apply in_app_or in Hin. destruct Hin as [Hin|[E|[]]].
      + apply (q_clean _ _ _ _ HQ). exact Hin.
      + inversion E; subst. apply Hcl.
    - intros d' Hd Ht. destruct (apply_in_inv f o d' Hmk Hd) as [d [Hin [[E _]|[Hs [Hu E]]]]].
      + subst d'. destruct (q_shape _ _ _ _ HQ d Hin Ht) as [Hc|Ho]; [left; exact Hc|right].
        intros m Hm. eapply Outr_mono; [apply ren_cand|]. apply Ho; exact Hm.
      + left. simpl in Hs. inversion Hs as [Hs'].
        assert (d = d0). { apply (nodup_sid_eq f); auto. apply (q_nodup _ _ _ _ HQ). congruence. }
        subst d d'. exact HC.
    - intros s' Hin. apply in_app_or in Hin. destruct Hin as [Hin|[E|[]]].
      + destruct (q_closed _ _ _ _ HQ s' Hin) as [He [t [i [Hc Hd]]]].
        split; [exact He|]. exists t, i. split; [exact Hc|].
        destruct Hd as [[d [Hd [Hs HCd]]]|Ho].
        * left. exists d. split; [|auto]. apply ren_keep; [exact Hd|apply HCd].
        * right. eapply Outr_mono; [apply ren_cand|exact Ho].
      + inversion E; subst s'. destruct HC as [Ht [t [i [Hc [He Hrest]]]]].
        rewrite dstep_sid, Hs0 in *. split; [exact He|]. exists t, i. split; [exact Hc|].
        left. exists (dstep o d0). split; [|split].
        * apply apply_in_same; [exact Hd0| |reflexivity]. simpl. rewrite Hs0. reflexivity.
        * rewrite dstep_sid. exact Hs0.
        * split; [exact Ht|]. exists t, i. rewrite dstep_sid, Hs0. auto.
  Qed.
End RenameStep.

(* ---------------------------------------------------------------- reaping *)
(* K: the retained snapshots during one ReapSnapshots; everything else that List could see is older *)
Definition RK (r : nat) (K : list (N * metaval)) (f : fs) : Prop :=
  NoDup K /\ length K = r /\ incl K (candidates f) /\
  forall c, In c (candidates f) -> In c K \/ forall y, In y K -> key_lt c y = true.

Lemma all_or_ex : forall (A : Type) (P R : A -> Prop) (G : list A),
  (forall g, In g G -> P g \/ R g) -> (forall g, In g G -> P g) \/ (exists g, In g G /\ R g).
Proof.
  induction G as [|a G IH]; intros H; [left; intros ? []|].
  destruct (H a (or_introl eq_refl)) as [Ha|Ha].
  - destruct IH as [IH|[g [Hg1 Hg2]]].
    + intros g Hg. apply H. right; exact Hg.
    + left. intros g [<-|Hg]; auto.
    + right. exists g. split; [right; exact Hg1|exact Hg2].
  - right. exists a. split; [left; reflexivity|exact Ha].
Qed.

Lemma Outr_RK : forall r K f x, RK r K f -> Outr r f x -> forall y, In y K -> key_lt x y = true.
Proof.
  intros r K f x [HndK [HlenK [HincK Hbelow]]] [G [HndG [HlenG [HincG HG]]]] y Hy.
  destruct (all_or_ex _ (fun g => In g K) (fun g => forall y, In y K -> key_lt g y = true) G) as [Hall|[g [Hg Hlt]]].
  - intros g Hg. apply Hbelow. apply HincG. exact Hg.
  - apply HG. assert (Hi : incl K G).
    { apply NoDup_length_incl; [exact HndG|lia|exact Hall]. }
    apply Hi. exact Hy.
  - eapply key_lt_trans; [apply HG; exact Hg|apply Hlt; exact Hy].
Qed.

Lemma below_K_outr : forall r K f x, RK r K f -> (forall y, In y K -> key_lt x y = true) -> Outr r f x.
Proof.
  intros r K f x [HndK [HlenK [HincK _]]] H. exists K. auto.
Qed.

Lemma complete_eligible : forall s d t i, Complete s d -> created_as s (d_sid d) = Some (t, i) ->
  eligible d = Some (mkMV 1 t i (Some (written s (d_sid d)))).
Proof.
  intros s d t i [Ht [t' [i' [Hc [He [[x [Hx Hm]] _]]]]]] Hc'.
  rewrite Hc in Hc'. inversion Hc'; subst. unfold eligible. rewrite Ht, Hx, Hm. reflexivity.
Qed.

(* (f) an unlink / rmdir of a directory that is not retained *)
Section RmStep.
  Variables (r : nat) (s : list sop) (h : list fsop) (f : fs) (o : fsop) (sid : N) (K : list (N * metaval)).
  Hypothesis HQ : Q r s h f.
  Hypothesis HK : RK r K f.
  Hypothesis Hrm : is_rm o = true.
  Hypothesis Hsid : op_sid o = Some sid.
  Hypothesis HnK : ~ In sid (map fst K).

  Lemma rm_nomk : forall x, o <> FMkdir x.
  Proof. intros x E. rewrite E in Hrm. discriminate. Qed.
  Lemma rm_noren : forall x, FRename x <> o.
  Proof. intros x E. rewrite <- E in Hrm. discriminate. Qed.

  Lemma rm_cand_back : incl (candidates (fs_apply f o)) (candidates f).
  Proof.
    intros [s' m] H. apply cand_iff in H. destruct H as [d' [Hd [Hs He]]]. apply cand_iff.
    destruct (apply_in_inv f o d' rm_nomk Hd) as [d [Hin [[E _]|[Hs' [Hu E]]]]].
    - subst d'. exists d; auto.
    - exists d. subst d'. rewrite dstep_sid in Hs. split; [exact Hin|split; [exact Hs|]].
      eapply eligible_rm; eauto.
  Qed.

  Lemma rm_cand_keep : forall s' m, In (s', m) (candidates f) -> s' <> sid -> In (s', m) (candidates (fs_apply f o)).
  Proof.
    intros s' m H Hne. apply cand_iff in H. destruct H as [d [Hd [Hs He]]]. apply cand_iff.
    exists d. split; [|auto]. apply apply_in_other; [exact Hd|]. rewrite Hsid. congruence.
  Qed.

  Lemma RK_rm_step : RK r K (fs_apply f o).
  Proof.
    destruct HK as [H1 [H2 [H3 H4]]]. split; [exact H1|split; [exact H2|split]].
    - intros [s' m] Hy. apply rm_cand_keep; [apply H3; exact Hy|].
      intro E. apply HnK. subst s'. change sid with (fst (sid, m)). apply in_map. exact Hy.
    - intros c Hc. apply H4. apply rm_cand_back. exact Hc.
  Qed.

  Lemma rm_below : forall m, In (sid, m) (candidates f) -> forall y, In y K -> key_lt (sid, m) y = true.
  Proof.
    intros m Hc. destruct HK as [_ [_ [_ H4]]]. destruct (H4 _ Hc) as [Hin|Hb]; [|exact Hb].
    exfalso. apply HnK. change sid with (fst (sid, m)). apply in_map. exact Hin.
  Qed.

  Lemma rm_outr : forall x, Outr r f x -> Outr r (fs_apply f o) x.
  Proof.
    intros x Ho. apply (below_K_outr r K); [apply RK_rm_step|]. apply (Outr_RK r K f); assumption.
  Qed.
End RmStep.

Lemma Q_rm_step : forall r s h f o sid K, Q r s h f -> RK r K f -> is_rm o = true ->
  op_sid o = Some sid -> ~ In sid (map fst K) -> Q r s (h ++ [o]) (fs_apply f o).
Proof.
  intros r s h f o sid K HQ HK Hrm Hsid HnK.
  assert (Hmk := rm_nomk o Hrm). assert (Hnr := rm_noren o Hrm).
  assert (HK' := RK_rm_step r f o sid K HK Hrm Hsid HnK).
  assert (Hnw : forall s' b acc, dirty_after [o] s' b acc = acc).
  { intros. apply dirty_nowrite. left; exact Hrm. }
  constructor.
  - apply apply_nodup; [exact Hmk|]. apply (q_nodup _ _ _ _ HQ).
  - intros d' Hd Ht. apply in_snoc_l.
    destruct (apply_in_inv f o d' Hmk Hd) as [d [Hin [[E _]|[Hs [Hu E]]]]].
    + subst d'. apply (q_ren _ _ _ _ HQ); assumption.
    + subst d'. rewrite dstep_sid. apply (q_ren _ _ _ _ HQ); [exact Hin|].
      rewrite dstep_tmp in Ht; [exact Ht|]. intros x E. eapply Hnr. symmetry; exact E.
  - intros s' b Hin. apply in_snoc_ne in Hin; [|apply Hnr].
    rewrite dirty_app, Hnw. apply (q_clean _ _ _ _ HQ). exact Hin.
  - intros d' Hd Ht. destruct (apply_in_inv f o d' Hmk Hd) as [d [Hin [[E _]|[Hs [Hu E]]]]].
    + subst d'. destruct (q_shape _ _ _ _ HQ d Hin Ht) as [Hc|Ho]; [left; exact Hc|right].
      intros m Hm. eapply rm_outr; eauto.
    + right. intros m Hm. subst d'. rewrite dstep_sid.
      rewrite Hsid in Hs. inversion Hs as [Hs'].
      apply (below_K_outr r K); [exact HK'|]. rewrite <- Hs'.
      apply (rm_below r f sid K HK HnK). apply cand_iff. exists d.
      split; [exact Hin|split; [auto|]]. eapply eligible_rm; eauto.
  - intros s' Hin. apply in_snoc_ne in Hin; [|apply Hnr].
    destruct (q_closed _ _ _ _ HQ s' Hin) as [He [t [i [Hc Hd]]]].
    split; [exact He|]. exists t, i. split; [exact Hc|].
    destruct Hd as [[d [Hd [Hs HCd]]]|Ho].
    + destruct (N.eq_dec s' sid) as [E|E].
      * right. apply (below_K_outr r K); [exact HK'|]. rewrite E.
        apply (rm_below r f sid K HK HnK). apply cand_iff. exists d.
        split; [exact Hd|split; [congruence|]].
        replace (written s sid) with (written s (d_sid d)) by congruence.
        apply complete_eligible; [exact HCd|]. congruence.
      * left. exists d. split; [|auto]. apply apply_in_other; [exact Hd|]. rewrite Hsid. congruence.
    + right. eapply rm_outr; eauto.
Qed.

(* ---------------------------------------------------------------- Q at every prefix of a segment *)
Definition QP (r : nat) (s : list sop) (h : list fsop) (f : fs) (seg : list fsop) : Prop :=
  forall j, Q r s (h ++ firstn j seg) (fs_run f (firstn j seg)).

Lemma QP_nil : forall r s h f, Q r s h f -> QP r s h f [].
Proof. intros r s h f H j. rewrite firstn_nil, app_nil_r. exact H. Qed.

Lemma QP_cons : forall r s h f o seg, Q r s h f -> QP r s (h ++ [o]) (fs_apply f o) seg -> QP r s h f (o :: seg).
Proof.
  intros r s h f o seg H0 H [|j]; simpl.
  - rewrite app_nil_r. exact H0.
  - specialize (H j). rewrite <- app_assoc in H. exact H.
Qed.

Lemma QP_app : forall r s h f a b, QP r s h f a -> QP r s (h ++ a) (fs_run f a) b -> QP r s h f (a ++ b).
Proof.
  intros r s h f a b Ha Hb j. rewrite firstn_app.
  destruct (le_lt_dec j (length a)) as [Hle|Hgt].
  - replace (j - length a)%nat with 0%nat by lia. simpl. rewrite app_nil_r. apply Ha.
  - rewrite (firstn_all2 a) by lia. rewrite app_assoc, fs_run_app. apply Hb.
Qed.

Lemma QP_end : forall r s h f seg, QP r s h f seg -> Q r s (h ++ seg) (fs_run f seg).
Proof. intros r s h f seg H. specialize (H (length seg)). rewrite firstn_all in H. exact H. Qed.

Lemma QP_start : forall r s h f seg, QP r s h f seg -> Q r s h f.
Proof. intros r s h f seg H. specialize (H 0%nat). simpl in H. rewrite app_nil_r in H. exact H. Qed.

Lemma QP_rm : forall r s K ops h f, Q r s h f -> RK r K f ->
  (forall o, In o ops -> is_rm o = true /\ exists sid, op_sid o = Some sid /\ ~ In sid (map fst K)) ->
  QP r s h f ops /\ RK r K (fs_run f ops).
Proof.
  induction ops as [|o ops IH]; intros h f HQ HK Hall.
  - split; [apply QP_nil; exact HQ|exact HK].
  - destruct (Hall o (or_introl eq_refl)) as [Hrm [sid [Hs Hn]]].
    destruct (IH (h ++ [o]) (fs_apply f o)) as [H1 H2].
    + eapply Q_rm_step; eauto.
    + eapply RK_rm_step; eauto.
    + intros o' Ho'. apply Hall. right; exact Ho'.
    + split; [apply QP_cons; assumption|exact H2].
Qed.
