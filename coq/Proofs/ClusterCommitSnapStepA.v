(* ClusterCommitSnapStepA.v — with snapshots: the steps of Model/ClusterCommit.v that change no server
   (the analogue of Proofs/ClusterCommitStepA.v for the invariant of ClusterCommitSnapInv.v). *)
From Coq Require Import List NArith Bool Lia.
From stdpp Require Import gmap.
From RaftModel Require Import Base Config Compaction Commitment Node NodeCodec Candidate Leader Replicate Cluster ClusterLog ClusterCommit.
From RaftProofs Require Import ConfigProofs CommitmentProofs VoteProofs ClusterProofs
  ClusterLogSpec ClusterLogChain ClusterLogNode ClusterLogVote ClusterLogLeader ClusterLogInv ClusterLogSteps
  ClusterCommitSpec ClusterCommitLog ClusterCommitChain ClusterCommitNode ClusterCommitGhost
  ClusterCommitInv ClusterCommitUpd ClusterCommitStepA
  ClusterCommitSnapLog ClusterCommitSnapNode ClusterCommitSnapLinv ClusterCommitSnapInv ClusterCommitSnapFinal ClusterCommitSnapUpd.
Open Scope N_scope.

Section StepA.
  Variable cfg : config.
  Variable Ps : list params.
  Hypothesis HVn : NoDup (voters cfg).

  (* no server and no ghost changes: requests, answers and the leadership bookkeeping may *)
  Lemma zinv_bookkeeping g g' C LL A V mn an :
    zinv cfg Ps g C LL A V -> lg_g (cg_l g') = lg_g (cg_l g) ->
    lg_msgs (cg_l g') = lg_msgs (cg_l g) ++ mn -> zlinv [cfg] (cg_l g') C ->
    (forall m, In m mn -> msg_inv cfg Ps C LL A m) ->
    cg_ans g' = cg_ans g ++ an -> (forall x, In x an -> ans_inv g' A x) ->
    (forall n s, In n (cnodes g) -> gn_run n = Up s -> v_role s = Leader -> zlead_inv cfg g' C LL A n s) ->
    zinv cfg Ps g' C LL A V.
  Proof.
    intros HI Hg Hm Hl Hmn Ha Han Hld.
    assert (Hn : cnodes g' = cnodes g) by (unfold cnodes; rewrite Hg; reflexivity).
    assert (Hgo : gof g' = gof g) by (unfold gof; exact Hg).
    destruct HI as [I1 I2 I3 I4 I5 I6 I6a I6b I7 I8 I9 I10 I11 I12 I13 I14 I15 I16 I17]. constructor; try rewrite Hn; try rewrite Hgo; auto.
    - intros m Hin. rewrite Hm in Hin. apply in_app_iff in Hin. destruct Hin as [Hin|Hin]; [apply I8, Hin|apply Hmn, Hin].
    - intros x Hin. rewrite Ha in Hin. apply in_app_iff in Hin. destruct Hin as [Hin|Hin]; [|apply Han, Hin].
      destruct (I9 x Hin) as (m & E1 & E2). exists m. split; [rewrite Hm; apply nth_error_app_old, E1|exact E2].
  Qed.

  (* a leadership state that differs only in the replication bookkeeping *)
  Lemma zlead_inv_same_cm g g' C LL A n s ld ld' :
    zlead_inv cfg g C LL A n s -> find_lead (cg_lead g) (gn_id n) = Some ld -> find_lead (cg_lead g') (gn_id n) = Some ld' ->
    ld_cm ld' = ld_cm ld -> ld_next0 ld' = ld_next0 ld -> ld_notified ld' = ld_notified ld -> ld_infl ld' = ld_infl ld ->
    zlead_inv cfg g' C LL A n s.
  Proof.
    intros (L & Z1 & Z2) E E' Hcm Hn0 Hnt Hin. split; [eapply lead_inv_same_cm; eauto|]. split; [exact Z1|].
    intros ld0 E0. rewrite E' in E0. inversion E0; subst ld0. unfold infl_ok. rewrite Hin. apply (Z2 ld E).
  Qed.

  (* the bookkeeping of leader i changes, its commitment and in-flight list do not *)
  Lemma zleads_same_cm g g' C LL A i ld ld' :
    (forall n s, In n (cnodes g) -> gn_run n = Up s -> v_role s = Leader -> zlead_inv cfg g C LL A n s) ->
    find_lead (cg_lead g) i = Some ld -> cg_lead g' = set_lead (cg_lead g) i ld' ->
    ld_cm ld' = ld_cm ld -> ld_next0 ld' = ld_next0 ld -> ld_notified ld' = ld_notified ld -> ld_infl ld' = ld_infl ld ->
    forall n s, In n (cnodes g) -> gn_run n = Up s -> v_role s = Leader -> zlead_inv cfg g' C LL A n s.
  Proof.
    intros Hall Hf Hg' E1 E2 E3 E4 n s Hin Hr Hrole. pose proof (Hall n s Hin Hr Hrole) as Hli.
    destruct (N.eq_dec (gn_id n) i) as [Ei|Hne].
    - apply (zlead_inv_same_cm g g' C LL A n s ld ld' Hli); [rewrite Ei; exact Hf|rewrite Hg', Ei; apply find_lead_set_same|assumption..].
    - destruct Hli as ((tl & ld0 & L1 & L2 & L3) & Z1 & Z2). split; [|split; [exact Z1|]].
      + exists tl, ld0. split; [exact L1|]. split; [|exact L3]. rewrite Hg', find_lead_set_other by exact Hne. exact L2.
      + intros ldx Hx. rewrite Hg', find_lead_set_other in Hx by exact Hne. apply (Z2 ldx Hx).
  Qed.

  (* all leaders but i keep their leadership state *)
  Lemma zleads_set g g' C LL A i ld' :
    (forall n s, In n (cnodes g) -> gn_run n = Up s -> v_role s = Leader -> zlead_inv cfg g C LL A n s) ->
    cg_lead g' = set_lead (cg_lead g) i ld' ->
    (forall n s, In n (cnodes g) -> gn_run n = Up s -> v_role s = Leader -> gn_id n = i -> zlead_inv cfg g' C LL A n s) ->
    forall n s, In n (cnodes g) -> gn_run n = Up s -> v_role s = Leader -> zlead_inv cfg g' C LL A n s.
  Proof.
    intros Hall Hg' Hi n s Hin Hr Hrole. destruct (N.eq_dec (gn_id n) i) as [Ei|Hne]; [apply Hi; assumption|].
    destruct (Hall n s Hin Hr Hrole) as ((tl & ld0 & L1 & L2 & L3) & Z1 & Z2). split; [|split; [exact Z1|]].
    - exists tl, ld0. split; [exact L1|]. split; [|exact L3]. rewrite Hg', find_lead_set_other by exact Hne. exact L2.
    - intros ldx Hx. rewrite Hg', find_lead_set_other in Hx by exact Hne. apply (Z2 ldx Hx).
  Qed.

  (* the entries of a leader's log lie on the branch of its term *)
  Lemma zleader_log_tchain g C LL A V n s i e : zinv cfg Ps g C LL A V -> In n (cnodes g) -> gn_run n = Up s ->
    v_role s = Leader -> d_log s !! i = Some e -> tchain C LL (v_term s) (key e).
  Proof.
    intros HI Hin Hr Hrole He. pose proof (zv_ci cfg Ps g C LL A V HI) as Hci.
    destruct (znode_log_in cfg Ps g C LL A V HI n s Hin Hr) as [Hz _].
    destruct (leader_topk cfg Ps g C LL A V HI n s Hin Hr Hrole) as (tl & _ & _ & _ & _ & Htc).
    apply (tchain_anc C LL Hci (v_term s) (topk s) _ Htc). apply (zs_below _ _ _ _ _ _ Hz i e He).
  Qed.

  Lemma znodes_nodup g C LL A V : zinv cfg Ps g C LL A V -> NoDup (map gn_id (cnodes g)).
  Proof. intros HI. apply (gi_ids [cfg] _ (zl_g [cfg] _ C (zv_l cfg Ps g C LL A V HI))). Qed.

  (* a heartbeat, or a request built by setupAppendEntries, joins the network *)
  Lemma zinv_send_msg g C LL A V i n s m ldm :
    zinv cfg Ps g C LL A V -> find_node (cnodes g) i = Some n -> gn_run n = Up s -> v_role s = Leader ->
    am_from m = i -> am_from m <> am_to m -> aq_term (am_req m) = v_term s ->
    mchain C (aq_prevIdx (am_req m), aq_prevTerm (am_req m)) (aq_entries (am_req m)) ->
    (forall e, In e (aq_entries (am_req m)) -> e_term e <= v_term s) ->
    msg_inv cfg Ps C LL A m ->
    (cg_lead g = ldm \/ exists ld ld', find_lead (cg_lead g) i = Some ld /\ ldm = set_lead (cg_lead g) i ld' /\
        ld_cm ld' = ld_cm ld /\ ld_next0 ld' = ld_next0 ld /\ ld_notified ld' = ld_notified ld /\ ld_infl ld' = ld_infl ld) ->
    forall hb, zinv cfg Ps (mkCG (mkLG (lg_g (cg_l g)) (lg_msgs (cg_l g) ++ [m])) ldm hb (cg_ans g)) C LL A V.
  Proof.
    intros HI Hf Hr Hrole Hfrom Hne Ht Hmc Hts Hmi Hld hb.
    pose proof (zv_l cfg Ps g C LL A V HI) as Hl.
    apply (zinv_bookkeeping g _ C LL A V [m] [] HI); try reflexivity.
    - cbn [cg_l]. eapply (send_zlinv [cfg] (cg_l g) C i n s m); eauto.
    - intros x [<-|[]]. exact Hmi.
    - cbn [cg_ans]. rewrite app_nil_r. reflexivity.
    - intros x [].
    - destruct Hld as [<-|(ld & ld' & E1 & -> & E2 & E3 & E4 & E5)].
      + intros x sx Hx Hrx Hlx. destruct (zv_lead cfg Ps g C LL A V HI x sx Hx Hrx Hlx) as [(tl & ld & L) Z]. split; [exists tl, ld; exact L|exact Z].
      + apply (zleads_same_cm g _ C LL A i ld ld'); auto. apply (zv_lead cfg Ps g C LL A V HI).
  Qed.
End StepA.
