(* ClusterOrderMain.v — C08 "the index of a call is greater than that of every call acknowledged before it
   was issued", over ALL RUNS of Model/ClusterCommit.v, without and with takeSnapshot / log compaction
   (statement: Proofs/ClusterOrderSpec.v acks_ordered; argument: Proofs/ClusterOrderCore.v).

   The two invariants (Proofs/ClusterCommitInv.v cinv, Proofs/ClusterCommitSnapInv.v zinv) are plugged
   into the generic argument: every step keeps them while the ghost history only grows, an
   acknowledged entry is a created entry whose key is known committed, and at a Leader every entry
   created in its term lies at or below its last log index (lead_inv).
   Side conditions: cinit_ok / cinit_snap_ok and label_ok, as for State Machine Safety. *)
From Coq Require Import List NArith Bool Lia.
From stdpp Require Import gmap.
From RaftModel Require Import Base Config Compaction Commitment Node NodeCodec Candidate Leader Replicate Cluster ClusterLog ClusterCommit.
From RaftProofs Require Import ConfigProofs VoteProofs RecoverProofs ClusterProofs ClusterLogSpec ClusterLogChain ClusterLogNode ClusterLogInv
  ClusterCommitSpec ClusterCommitLog ClusterCommitChain ClusterCommitAE2 ClusterCommitNode ClusterCommitInit ClusterCommitGhost ClusterCommitInv ClusterCommitFinal
  ClusterCommitUpd ClusterCommitInit2 ClusterCommitStepA ClusterCommitStepB ClusterCommitStepG ClusterCommitStepH ClusterCommitStepI ClusterCommitStepM
  ClusterCommitStepP ClusterCommitStepS ClusterCommitStepT ClusterCommitMain ClusterCommitAcks ClusterCommitAcks2
  ClusterCommitSnapSpec ClusterCommitSnapLog ClusterCommitSnapNode ClusterCommitSnapLinv ClusterCommitSnapInv ClusterCommitSnapFinal
  ClusterCommitSnapStepA ClusterCommitSnapStepI ClusterCommitSnapMain ClusterCommitSnapAcks
  ClusterOrderSpec ClusterOrderCore.
Open Scope N_scope.

(* at a Leader, the entries created in its term lie at or below its last index *)
Lemma lead_inv_bound cfg g C LL A n s : chain_ok C -> lead_inv cfg g C LL A n s ->
  forall x p, In (x, p) C -> e_term x = v_term s -> e_idx x <= last_index s.
Proof.
  intros HC (tl & ld & _ & _ & Hall & _) x p Hx Ht. destruct (anc_le C _ _ HC (Hall x p Hx Ht)) as [Hle _].
  unfold key, topk in Hle. simpl in Hle. unfold last_index. lia.
Qed.

Section NoSnap.
  Variable cfg : config.
  Variable Ps : list params.
  Hypothesis HVn : NoDup (voters cfg).

  (* one step: the invariant is kept, the ghost state only grows (the votes may also be re-chosen) *)
  Theorem cstep_cinv_ext g l g' C LL A V : cinv cfg Ps g C LL A V -> label_ok l -> cstep false [cfg] g l = Some g' ->
    exists Cn LLn An V', cinv cfg Ps g' (Cn ++ C) (LLn ++ LL) (An ++ A) V'.
  Proof.
    intros HI [Hnc Hnv] Hstep.
    assert (Hsame : forall V', cinv cfg Ps g' C LL A V' -> exists Cn LLn An V'', cinv cfg Ps g' (Cn ++ C) (LLn ++ LL) (An ++ A) V'').
    { intros V' H. exists [], [], [], V'. exact H. }
    destruct l as [bl|k|i j|i].
    - destruct bl as [gl|i ty data fs|i j next last|i j|k cut fs].
      + destruct gl as [i|i j cut fs|i j|j e cut fs].
        * destruct (cinv_timeout cfg Ps HVn g C LL A V i g' HI Hstep) as (C' & LL' & A' & V' & H). exists C', LL', A', (V' ++ V). exact H.
        * destruct (cinv_votereq cfg Ps HVn g C LL A V i j cut fs g' HI Hstep) as (V' & H). apply (Hsame V' H).
        * destruct (cinv_voteresp cfg Ps HVn g C LL A V i j g' HI Hstep) as (C' & LL' & A' & H). exists C', LL', A', V. exact H.
        * destruct (cinv_ginput cfg Ps HVn g C LL A V j e cut fs g' HI) as (V' & H); [|exact Hstep|apply (Hsame V' H)].
          intros q ->. exact Hnv.
      + destruct (cinv_propose cfg Ps HVn g C LL A V i ty data fs g' HI Hnc Hstep) as (C' & A' & H). exists C', [], A', V. exact H.
      + apply (Hsame V). apply (cinv_lsend cfg Ps g C LL A V i j next last g' HI Hstep).
      + apply (Hsame V). apply (cinv_lheartbeat cfg Ps g C LL A V i j g' HI Hstep).
      + destruct (cinv_deliver cfg Ps HVn g C LL A V k cut fs g' HI Hstep) as (A' & H). exists [], [], A', V. exact H.
    - apply (Hsame V). apply (cinv_ack cfg Ps HVn g C LL A V k g' HI Hstep).
    - apply (Hsame V). apply (cinv_giveup cfg Ps g C LL A V i j g' HI Hstep).
    - apply (Hsame V). apply (cinv_commit cfg Ps HVn g C LL A V i g' HI Hstep).
  Qed.

  (* what a step acknowledges is created and known committed, in the ghost state before the step *)
  Lemma cinv_step_ack g l g' C LL A V te : cinv cfg Ps g C LL A V -> cstep false [cfg] g l = Some g' ->
    In te (step_acks g l) -> oack_ok cfg C LL A te.
  Proof.
    intros HI Hstep Hin. destruct te as [T e]. destruct (step_acks_other g l T e Hin) as [i ->].
    destruct (ack_step_facts cfg Ps HVn g C LL A V i g' T e HI Hstep Hin) as (HI' & n' & s' & Hf' & Hr' & _ & _ & Hdt & Hc & He).
    destruct (find_node_in _ _ _ Hf') as [Hin' _].
    destruct (node_log_in cfg Ps g' C LL A V HI' n' s' Hin' Hr') as [(_ & Li & _) _].
    destruct (Li _ e He) as (_ & Hcr & _).
    destruct (cv_kc cfg Ps g' C LL A V HI' n' s' Hin' Hr') as [_ K]. split; [exact Hcr|]. cbn [fst snd]. rewrite <- Hdt. apply (K _ e He Hc).
  Qed.

  Theorem cinv_acks_ordered g0 C0 LL0 A0 V0 : cinv cfg Ps g0 C0 LL0 A0 V0 -> acks_ordered false cfg g0.
  Proof.
    apply (order_core cfg HVn false (cinv cfg Ps)).
    - intros g l g' C LL A V. apply cstep_cinv_ext.
    - intros g C LL A V HI. apply (cv_ci cfg Ps g C LL A V HI).
    - intros g C LL A V HI. apply (cv_vi cfg Ps g C LL A V HI).
    - intros g l g' C LL A V te. apply cinv_step_ack.
    - intros g C LL A V n s HI Hin Hr Hrole.
      apply (lead_inv_bound cfg g C LL A n s (ci_ok C LL (cv_ci cfg Ps g C LL A V HI)) (cv_lead cfg Ps g C LL A V HI n s Hin Hr Hrole)).
    - intros g C LL A V HI. apply (nodes_nodup cfg Ps g C LL A V HI).
  Qed.
End NoSnap.

Section Snap.
  Variable cfg : config.
  Variable Ps : list params.
  Hypothesis HVn : NoDup (voters cfg).

  Lemma zinv_step_ack sn g l g' C LL A V te : zinv cfg Ps g C LL A V -> cstep sn [cfg] g l = Some g' ->
    In te (step_acks g l) -> oack_ok cfg C LL A te.
  Proof.
    intros HI Hstep Hin. destruct te as [T e]. destruct (step_acks_other g l T e Hin) as [i ->].
    destruct (zack_step_facts cfg Ps HVn sn g C LL A V i g' T e HI Hstep Hin) as (HI2 & n' & s' & Hf' & Hr' & _ & _ & Hdt & Hc & He).
    destruct (find_node_in _ _ _ Hf') as [Hin' _].
    destruct (znode_log_in cfg Ps g' C LL A V HI2 n' s' Hin' Hr') as [Hz' _].
    destruct (zs_in _ _ _ _ _ _ Hz' _ e He) as (_ & Hcr & _).
    destruct (zv_kc cfg Ps g' C LL A V HI2 n' s' Hin' Hr') as [_ K].
    split; [exact Hcr|]. cbn [fst snd]. rewrite <- Hdt. apply (K _ e He Hc).
  Qed.

  Theorem zinv_acks_ordered sn g0 C0 LL0 A0 V0 : zinv cfg Ps g0 C0 LL0 A0 V0 -> acks_ordered sn cfg g0.
  Proof.
    apply (order_core cfg HVn sn (zinv cfg Ps)).
    - intros g l g' C LL A V HI Hl Hstep. apply (cstep_zinv_ext cfg Ps HVn sn g l g' C LL A V HI Hl Hstep).
    - intros g C LL A V HI. apply (zv_ci cfg Ps g C LL A V HI).
    - intros g C LL A V HI. apply (zv_vi cfg Ps g C LL A V HI).
    - intros g l g' C LL A V te. apply zinv_step_ack.
    - intros g C LL A V n s HI Hin Hr Hrole.
      apply (lead_inv_bound cfg g C LL A n s (ci_ok C LL (zv_ci cfg Ps g C LL A V HI)) (proj1 (zv_lead cfg Ps g C LL A V HI n s Hin Hr Hrole))).
    - intros g C LL A V HI. apply (znodes_nodup cfg Ps g C LL A V HI).
  Qed.
End Snap.

(* C08 over all runs, without snapshots *)
Theorem acks_ordered_all_runs : forall cfg g0, cinit_ok cfg g0 -> acks_ordered false cfg g0.
Proof.
  intros cfg g0 H0. pose proof H0 as (_ & _ & _ & _ & HVn & _).
  destruct (cinit_cinv cfg g0 H0) as [C0 HI0].
  apply (cinv_acks_ordered cfg (map gn_P (cnodes g0)) HVn g0 C0 [] [] [] HI0).
Qed.

(* C08 over all runs, with takeSnapshot and log compaction *)
Theorem acks_ordered_all_runs_snapshots : forall cfg g0, cinit_snap_ok cfg g0 -> acks_ordered true cfg g0.
Proof.
  intros cfg g0 H0. pose proof H0 as ((_ & _ & _ & _ & HVn & _) & _).
  destruct (cinit_zinv cfg g0 H0) as (C0 & LL0 & A0 & V0 & HI0).
  apply (zinv_acks_ordered cfg (map gn_P (cnodes g0)) HVn true g0 C0 LL0 A0 V0 HI0).
Qed.

Print Assumptions acks_ordered_all_runs.
Print Assumptions acks_ordered_all_runs_snapshots.
