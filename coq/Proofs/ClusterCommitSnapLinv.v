(* ClusterCommitSnapLinv.v — the cluster-level Log Matching invariant of Proofs/ClusterLogInv.v with
   the per-server part replaced by the snapshot-aware one (znlog of Proofs/ClusterCommitSnapLog.v),
   and the lemma that re-establishes it when one server changes. *)
From Coq Require Import List NArith Bool Lia.
From stdpp Require Import gmap.
From RaftModel Require Import Base Config Compaction Commitment Node NodeCodec Candidate Leader Replicate Cluster ClusterLog.
From RaftProofs Require Import ConfigProofs VoteProofs ClusterProofs
  ClusterLogSpec ClusterLogChain ClusterLogNode ClusterLogVote ClusterLogInv ClusterLogSteps
  ClusterCommitChain ClusterCommitLog ClusterCommitInv ClusterCommitSnapLog.
Open Scope N_scope.

Record zlinv (cfgs : list config) (g : lgstate) (C : chain) : Prop := {
  zl_g : ginv cfgs (lg_g g);
  zl_chain : chain_ok C;
  zl_nodes : forall n, In n (g_nodes (lg_g g)) -> znlog C (gn_run n) /\ lead_ok (lg_g g) C n;
  zl_src : forall e p, In (e, p) C -> term_src (lg_g g) (e_term e);
  zl_leaders : forall T i, In (T, i) (g_leaders (lg_g g)) -> leader_rec_ok (lg_g g) T i;
  zl_msgs : forall m, In m (lg_msgs g) -> msg_ok (lg_g g) C m;
}.

Section Update.
  Variable cfgs : list config.
  Hypothesis HQ : quorums_intersect cfgs.

  Lemma zlinv_update g g' C C' j n n' :
    zlinv cfgs g C -> ginv cfgs (lg_g g') ->
    find_node (g_nodes (lg_g g)) j = Some n -> gn_id n' = j ->
    g_nodes (lg_g g') = upd_node (g_nodes (lg_g g)) j n' ->
    incl (g_leaders (lg_g g)) (g_leaders (lg_g g')) ->
    (forall T i, In (T, i) (g_leaders (lg_g g')) ->
       In (T, i) (g_leaders (lg_g g)) \/ (i = j /\ T <= dt n' /\ gn_sess n' = None)) ->
    incl C C' -> chain_ok C' ->
    (forall x p, In (x, p) C' -> In (x, p) C \/ In (e_term x, j) (g_leaders (lg_g g'))) ->
    dt n <= dt n' -> sess_step_ok n n' ->
    znlog C' (gn_run n') -> lead_ok (lg_g g') C' n' ->
    (forall m, In m (lg_msgs g') -> In m (lg_msgs g) \/ msg_ok (lg_g g') C' m) ->
    zlinv cfgs g' C'.
  Proof.
    intros [Hg HC Hnodes Hsrc Hlead Hmsgs] Hg' Hfind Hid' Hn' Hlinc Hlnew Hcinc HC' Hcnew Hdt Hsess Hnl' Hlo' Hm'.
    destruct (find_node_in _ _ _ Hfind) as [Hin Hidn].
    assert (Hcases : forall x, In x (g_nodes (lg_g g')) -> x = n' \/ (In x (g_nodes (lg_g g)) /\ gn_id x <> j)).
    { intros x Hx. rewrite Hn' in Hx. destruct (upd_node_in _ _ _ _ Hx) as [[-> _]|H]; auto. }
    assert (Hcarry : forall T, (T <= dt n /\ forall se, gn_sess n = Some se -> T < vq_term (se_req se)) ->
              T <= dt n' /\ forall se, gn_sess n' = Some se -> T < vq_term (se_req se)).
    { intros T [A B]. split; [lia|]. intros se' Hse'. destruct (Hsess se' Hse') as [(se & Hse & E)|Hlt].
      - rewrite E. apply B, Hse.
      - lia. }
    constructor.
    - exact Hg'.
    - exact HC'.
    - intros x Hx. destruct (Hcases x Hx) as [->|[Hxo Hxid]]; [auto|].
      destruct (Hnodes x Hxo) as [A B]. split; [eapply znlog_mono; eauto|].
      intros s Hs Hr. destruct (B s Hs Hr) as (B1 & B2 & B3).
      split; [apply Hlinc, B1|]. split; [exact B2|].
      intros y p Hy Hty. destruct (Hcnew y p Hy) as [Hold|Hnew]; [apply (B3 y p Hold Hty)|].
      exfalso. apply Hxid. rewrite Hty in Hnew.
      apply (leaders_fun cfgs (lg_g g') (v_term s) (gn_id x) j HQ Hg'); [apply Hlinc, B1|exact Hnew].
    - intros e p He. destruct (Hcnew e p He) as [Hold|Hnew]; [|left; eauto].
      destruct (Hsrc e p Hold) as [(id & Hl)|Hd]; [left; exists id; apply Hlinc, Hl|right].
      intros x Hx. destruct (Hcases x Hx) as [->|[Hxo _]]; [apply Hcarry, Hd, Hin|apply Hd, Hxo].
    - intros T i Hl x Hx Hxi. destruct (Hlnew T i Hl) as [Hold|(-> & Ht & Hs)].
      + destruct (Hcases x Hx) as [->|[Hxo _]]; [|apply (Hlead T i Hold x Hxo Hxi)].
        apply Hcarry. apply (Hlead T i Hold n Hin). congruence.
      + destruct (Hcases x Hx) as [->|[_ Hne]]; [|contradiction].
        split; [exact Ht|]. intros se Hse. congruence.
    - intros m Hm. destruct (Hm' m Hm) as [Hold|Hnew]; [|exact Hnew].
      eapply msg_ok_mono; [exact Hlinc|exact Hcinc|apply Hmsgs, Hold].
  Qed.

  Lemma znode_wfr g C n : zlinv cfgs g C -> In n (g_nodes (lg_g g)) -> wfr (gn_run n).
  Proof. intros Hinv Hin. destruct (gi_nodes cfgs _ (zl_g cfgs g C Hinv) n Hin) as [(Hw & _) _]. exact Hw. Qed.

  (* what the cluster-level proof needs from one event at one server *)
  Definition zstep_post (C : chain) (r r' : nrun) : Prop :=
    znlog C r' /\
    forall s', r' = Up s' -> v_role s' = Leader ->
      exists s, r = Up s /\ v_role s = Leader /\ v_term s' = v_term s /\ v_lastLogIdx s' = v_lastLogIdx s.

  (* a handler ran at j: the ghost history, the leaders and the requests in flight are unchanged *)
  Lemma zlinv_handler g C g' j n r' :
    zlinv cfgs g C -> ginv cfgs g' ->
    find_node (g_nodes (lg_g g)) j = Some n ->
    g_nodes g' = upd_node (g_nodes (lg_g g)) j (mkGN (gn_P n) r' (keep_sess r' (gn_sess n)) (gn_next n)) ->
    g_leaders g' = g_leaders (lg_g g) ->
    zstep_post C (gn_run n) r' -> d_term (image (gn_run n)) <= d_term (image r') ->
    zlinv cfgs (mkLG g' (lg_msgs g)) C.
  Proof.
    intros Hinv Hg' Hfind Hn' Hl' [Hnl Hrole] Hdt.
    destruct (find_node_in _ _ _ Hfind) as [Hin Hidn].
    apply (zlinv_update g (mkLG g' (lg_msgs g)) C C j n (mkGN (gn_P n) r' (keep_sess r' (gn_sess n)) (gn_next n)) Hinv Hg' Hfind Hidn Hn').
    - simpl. rewrite Hl'. apply incl_refl.
    - simpl. rewrite Hl'. intros T i H. left. exact H.
    - apply incl_refl.
    - apply (zl_chain cfgs g C Hinv).
    - intros x p H. left. exact H.
    - exact Hdt.
    - intros se' Hse'. left. simpl in Hse'. unfold keep_sess in Hse'.
      destruct r' as [s'|s']; [|discriminate]. destruct (gn_sess n) as [se|]; [|discriminate].
      destruct (v_role s' =? Candidate); [|discriminate]. inversion Hse'; subst. eauto.
    - exact Hnl.
    - intros s' Hs' Hr. simpl in Hs'. destruct (Hrole s' Hs' Hr) as (s & Hs & Hrs & Hts & His).
      destruct (zl_nodes cfgs g C Hinv n Hin) as [_ Hlo]. destruct (Hlo s Hs Hrs) as (L1 & L2 & L3).
      simpl. rewrite Hl'. change (gn_id (mkGN (gn_P n) r' (keep_sess r' (gn_sess n)) (gn_next n))) with (gn_id n).
      rewrite Hts, His. split; [exact L1|]. split; [|exact L3].
      rewrite L2. subst r'. reflexivity.
    - intros m Hm. left. exact Hm.
  Qed.

  Lemma zhandler_linv g C j nj e cut fs r' ob out g1 :
    zlinv cfgs g C -> find_node (g_nodes (lg_g g)) j = Some nj ->
    step_full (gn_P nj) (gn_run nj) e cut fs = (r', ob, out) ->
    ginv cfgs g1 ->
    g_nodes g1 = upd_node (g_nodes (lg_g g)) j (mkGN (gn_P nj) r' (keep_sess r' (gn_sess nj)) (gn_next nj)) ->
    g_leaders g1 = g_leaders (lg_g g) ->
    zstep_post C (gn_run nj) r' -> zlinv cfgs (mkLG g1 (lg_msgs g)) C.
  Proof.
    intros Hinv Hfind Hstep Hg1 Hn1 Hl1 Hpost.
    destruct (find_node_in _ _ _ Hfind) as [Hin _].
    eapply (zlinv_handler g C g1 j nj r'); eauto.
    eapply step_dterm; [eapply znode_wfr; eauto|exact Hstep].
  Qed.

  (* a request is added to the network *)
  Lemma send_zlinv g C i n s m :
    zlinv cfgs g C -> find_node (g_nodes (lg_g g)) i = Some n -> gn_run n = Up s -> v_role s = Leader ->
    am_from m = i -> am_from m <> am_to m -> aq_term (am_req m) = v_term s ->
    mchain C (aq_prevIdx (am_req m), aq_prevTerm (am_req m)) (aq_entries (am_req m)) ->
    (forall e, In e (aq_entries (am_req m)) -> e_term e <= v_term s) ->
    zlinv cfgs (mkLG (lg_g g) (lg_msgs g ++ [m])) C.
  Proof.
    intros Hinv Hfind Hrun Hrole Hfrom Hne Hterm Hmc Hts.
    destruct (find_node_in _ _ _ Hfind) as [Hin Hid].
    destruct (zl_nodes cfgs g C Hinv n Hin) as [_ Hlo]. destruct (Hlo s Hrun Hrole) as (L1 & _).
    destruct Hinv as [A B D E F G]. constructor; auto.
    intros m' Hm'. simpl in Hm'. apply in_app_iff in Hm'. destruct Hm' as [Hm'|[<-|[]]]; [apply G, Hm'|].
    split; [exact Hne|]. split; [simpl; rewrite Hterm, Hfrom, <- Hid; exact L1|]. split; [exact Hmc|].
    rewrite Hterm. exact Hts.
  Qed.
End Update.
