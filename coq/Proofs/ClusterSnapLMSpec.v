(* ClusterSnapLMSpec.v — statements about Model/ClusterSnap.v (the commit system plus snapshot transfer).

   Initial states and runs: sinit_ok (the initial states of Proofs/ClusterCommitSnapSpec.v, no snapshot
   request anywhere), slabel_ok (the side conditions of Proofs/ClusterCommitSpec.v on the labels of
   the commit system; SSend / SDeliver / SAck / SGiveUp are free).

   Log Matching "above both servers' own snapshot index" (Model/ClusterSnap.v
   log_matching_above_snapshots) and terms_monotone are FALSE in this system
   (Proofs/ClusterSnapLMCex.v): the stale entries a server keeps below an installed snapshot
   (finding F3-ii) are SENT to other servers when that server becomes leader, and then sit in the log of
   a server that never saw a snapshot.  What is proved (Proofs/ClusterSnapLMMain.v) is Log Matching and
   term monotonicity above the largest index of any snapshot stored anywhere in the cluster. *)
From Coq Require Import List NArith Bool Lia.
From stdpp Require Import gmap.
From RaftModel Require Import Base Config Compaction Commitment Node NodeCodec Candidate Leader Replicate Cluster ClusterLog ClusterCommit ClusterSnap.
From RaftProofs Require Import ClusterCommitSpec ClusterCommitSnapSpec.
Open Scope N_scope.

Definition sinit_ok (cfg : config) (g : sstate) : Prop :=
  cinit_snap_ok cfg (ss_c g) /\ ss_msgs g = [] /\ ss_ans g = [] /\ ss_out g = [].

Definition slabel_ok (l : slabel) : Prop := match l with SBase cl => label_ok cl | _ => True end.

(* the largest index of a snapshot in the store of a server (running or stopped), of any server *)
Definition max_snap_of (s : nstate) : N := fold_right N.max 0 (map sn_idx (d_snaps s)).
Definition max_snap_idx (g : lgstate) : N := fold_right N.max 0 (map (fun n => max_snap_of (image (gn_run n))) (g_nodes (lg_g g))).

(* Log Matching above every snapshot of the cluster *)
Definition log_matching_above_all_snapshots (g : lgstate) : Prop :=
  forall a b, In a (g_nodes (lg_g g)) -> In b (g_nodes (lg_g g)) ->
  forall i ea eb, log_of a !! i = Some ea -> log_of b !! i = Some eb -> e_term ea = e_term eb ->
  forall k ka kb, k <= i -> max_snap_idx g < k ->
    log_of a !! k = Some ka -> log_of b !! k = Some kb -> ka = kb.

(* above every snapshot of the cluster terms never decrease as the index grows; everywhere an entry is stored under its own index *)
Definition terms_monotone_above_all_snapshots (g : lgstate) : Prop :=
  forall a, In a (g_nodes (lg_g g)) ->
  (forall i ei, log_of a !! i = Some ei -> e_idx ei = i) /\
  forall i j ei ej, max_snap_idx g < i -> i <= j -> log_of a !! i = Some ei -> log_of a !! j = Some ej -> e_term ei <= e_term ej.

(* Log Matching above the largest snapshot index in the two servers' own stores: also false *)
Definition log_matching_above_own_snapshots (g : lgstate) : Prop :=
  forall a b, In a (g_nodes (lg_g g)) -> In b (g_nodes (lg_g g)) ->
  forall i ea eb, log_of a !! i = Some ea -> log_of b !! i = Some eb -> e_term ea = e_term eb ->
  forall k ka kb, k <= i -> max_snap_of (image (gn_run a)) < k -> max_snap_of (image (gn_run b)) < k ->
    log_of a !! k = Some ka -> log_of b !! k = Some kb -> ka = kb.
