(* ClusterCommitInit.v — NewRaft without RestoreCommittedLogs and without snapshots starts with
   commitIndex = lastApplied = 0 and configurations decoded from the log; non-vacuity of cinit_ok:
   every initial state the driver ClusterCommit.run_clustercommit builds satisfies it. *)
From Coq Require Import List NArith Bool Lia FinFun.
From stdpp Require Import gmap.
From RaftModel Require Import Base Config Compaction Commitment Node NodeCodec Candidate Leader Replicate Cluster ClusterLog ClusterCommit.
From RaftProofs Require Import ConfigProofs VoteProofs RecoverProofs ClusterProofs ClusterLogSpec ClusterLogExample ClusterCommitSpec.
Open Scope N_scope.

Lemma process_config_entry_cfg P cfg s e :
  (e_ty e = LogConfiguration -> p_decode P (e_data e) = cfg) ->
  cfg_or_nil cfg (v_latest s) -> cfg_or_nil cfg (v_committed s) ->
  cfg_or_nil cfg (v_latest (process_config_entry P s e)) /\ cfg_or_nil cfg (v_committed (process_config_entry P s e)).
Proof.
  intros Hd Hl Hc. unfold process_config_entry. destruct (N.eqb_spec (e_ty e) LogConfiguration) as [E|_]; [|auto].
  cbn. split; [left; apply Hd, E|exact Hl].
Qed.

Lemma process_config_entry_log P s e : d_log (process_config_entry P s e) = d_log s.
Proof. unfold process_config_entry. destruct (e_ty e =? LogConfiguration); reflexivity. Qed.

Lemma scan_configs_cfg P cfg n : forall s from s',
  (forall i e, d_log s !! i = Some e -> e_ty e = LogConfiguration -> p_decode P (e_data e) = cfg) ->
  cfg_or_nil cfg (v_latest s) -> cfg_or_nil cfg (v_committed s) ->
  scan_configs P s from n = Some s' -> cfg_or_nil cfg (v_latest s') /\ cfg_or_nil cfg (v_committed s').
Proof.
  induction n as [|n IH]; intros s from s' Hd Hl Hc H; simpl in H.
  - inversion H; subst. auto.
  - destruct (d_log s !! from) as [e|] eqn:E; [|discriminate].
    destruct (process_config_entry_cfg P cfg s e (Hd from e E) Hl Hc) as [A B].
    apply (IH _ _ _ (fun i x Hx => Hd i x (eq_ind _ (fun m => m !! i = Some x) Hx _ (process_config_entry_log P s e))) A B H).
Qed.

(* NewRaft, RestoreCommittedLogs off, empty snapshot store *)
Lemma recover_fresh P img s tr : p_rc P = false -> d_snaps img = [] -> recover P img = RecOk s tr ->
  v_commit s = 0 /\ v_applied s = 0 /\
  forall cfg, (forall i e, d_log img !! i = Some e -> e_ty e = LogConfiguration -> p_decode P (e_data e) = cfg) ->
    cfg_or_nil cfg (v_latest s) /\ cfg_or_nil cfg (v_committed s).
Proof.
  intros Hrc Hsn. unfold recover. destruct (rec_last _) as [le|]; [|discriminate].
  unfold rec_snapshot. cbn [d_snaps set_lastlog set_vol_term fresh_volatile]. rewrite Hsn.
  change (list_snaps []) with (@nil snapshot). cbn [find].
  unfold rec_committed. rewrite Hrc.
  match goal with |- context [scan_configs P ?S ?F ?N] => destruct (scan_configs P S F N) as [s5|] eqn:ES end; [|discriminate].
  fold (rec_fin s5). rewrite (rec_fin_commit0 s5)
    by (rewrite (proj2 (proj2 (proj2 (proj2 (proj2 (proj2 (proj2 (proj2 (proj2 (scan_configs_durable _ _ _ _ _ ES)))))))))); reflexivity).
  intros H; inversion H; subst s5 tr. clear H.
  pose proof (scan_configs_durable _ _ _ _ _ ES) as (_ & _ & A5 & _ & _ & _ & _ & _ & _ & C5).
  split; [rewrite C5; reflexivity|]. split; [rewrite A5; reflexivity|].
  intros cfg Hd. eapply (scan_configs_cfg P cfg); [| | |exact ES]; [exact Hd|right; reflexivity|right; reflexivity].
Qed.

Lemma boot_fresh P img r out : p_rc P = false -> d_snaps img = [] -> boot P img = (r, out) ->
  d_log (image r) = d_log img /\
  match r with
  | Up s => v_commit s = 0 /\ v_applied s = 0 /\
            forall cfg, (forall i e, d_log img !! i = Some e -> e_ty e = LogConfiguration -> p_decode P (e_data e) = cfg) ->
              cfg_or_nil cfg (v_latest s) /\ cfg_or_nil cfg (v_committed s)
  | Down _ => True
  end.
Proof.
  intros Hrc Hsn. unfold boot. destruct (recover P img) as [s tr| | |] eqn:ER; intros H; inversion H; subst r out;
    try (split; [reflexivity|exact I]).
  split; [|apply (recover_fresh P img s tr Hrc Hsn ER)].
  unfold recover in ER. destruct (rec_last _) as [le|]; [|discriminate].
  destruct (rec_snapshot _) as [[s3 tr3]|] eqn:E3; [|discriminate].
  destruct (rec_committed P s3) as [| | |s4 tr4] eqn:E4; try discriminate.
  match type of ER with context [scan_configs P ?S ?F ?N] => destruct (scan_configs P S F N) as [s5|] eqn:ES end; [|discriminate].
  fold (rec_fin s5) in ER. inversion ER; subst s. apply scan_configs_durable_fin in ES. destruct ES as ((_ & _ & _ & DL & _) & _).
  unfold rec_committed in E4. rewrite Hrc in E4. inversion E4; subst s4.
  unfold rec_snapshot in E3. cbn [d_snaps set_lastlog set_vol_term fresh_volatile] in E3. rewrite Hsn in E3.
  change (list_snaps []) with (@nil snapshot) in E3. cbn [find] in E3. inversion E3; subst s3.
  simpl. rewrite DL. reflexivity.
Qed.

(* ---------------------------------------------------------------- the driver's initial states *)
Lemma voters_mk_cfg n : voters (mk_cfg n) = map N.of_nat (seq 1 n).
Proof.
  unfold voters, mk_cfg. generalize 1%nat. induction n as [|n IH]; intros a; simpl; [reflexivity|].
  f_equal. apply IH.
Qed.

Lemma nodup_voters_mk_cfg n : NoDup (voters (mk_cfg n)).
Proof. rewrite voters_mk_cfg. apply Injective_map_NoDup; [intros a b; apply Nat2N.inj|apply seq_NoDup]. Qed.

Lemma mk_node_cinit cfg nodes i x : (forall n' d, In n' nodes -> p_decode (gn_P n') d = cfg) ->
  cnode_init cfg nodes (mk_node cfg i x).
Proof.
  intros Hdec. unfold cnode_init, mk_node. cbn [gn_P gn_run p_rc].
  split; [reflexivity|].
  set (P := mkP i false false false 100 4 (fun _ => cfg)).
  destruct (boot P (mk_image cfg x)) as [r out] eqn:EB. cbn [fst].
  destruct (boot_fresh P (mk_image cfg x) r out eq_refl eq_refl EB) as [_ Hr].
  split.
  { assert (Hwd : wfd (mk_image cfg x)) by (unfold wfd; simpl; lia).
    destruct (boot_spec P _ r out Hwd EB) as [_ Hd]. unfold live. rewrite Hd. reflexivity. }
  split; [intros k e _ _ n' Hn'; apply Hdec, Hn'|].
  destruct r as [s|s]; [|exact I]. destruct Hr as (A & B & D).
  split; [exact A|]. split; [exact B|]. apply D. intros k e _ _. reflexivity.
Qed.

Theorem mk_nodes_cinit n extras :
  cinit_ok (mk_cfg n)
    (mkCG (mkLG (mkG (map (fun p => mk_node (mk_cfg n) (N.of_nat (fst p)) (snd p)) (combine (seq 1 n) extras)) [] [] []) []) [] [] []).
Proof.
  split; [apply mk_nodes_linit|]. split; [reflexivity|]. split; [reflexivity|]. split; [reflexivity|].
  split; [apply nodup_voters_mk_cfg|].
  unfold cnodes. cbn [cg_l lg_g g_nodes]. intros nd Hin.
  apply in_map_iff in Hin. destruct Hin as (p & <- & _). apply mk_node_cinit.
  intros n' d Hn'. apply in_map_iff in Hn'. destruct Hn' as (q & <- & _). reflexivity.
Qed.

(* it is the state run_clustercommit starts from *)
Example cinit_is_the_drivers :
  run_clustercommit [3; 0; 1; 2] = run_clabels (mk_cfg 3) 0
    (mkCG (mkLG (mkG (map (fun p => mk_node (mk_cfg 3) (N.of_nat (fst p)) (snd p)) (combine (seq 1 3) [0; 1; 2])) [] [] []) []) [] [] []) [].
Proof. reflexivity. Qed.
