(* FileSnapA.v — pure list / order facts used by the C15 proofs: key_lt is a strict order,
   sort_desc sorts, what the first n of a sorted list are. *)
From Coq Require Import List Arith NArith Bool Lia Permutation.
From RaftModel Require Import FileSnap FileSnapSpec.
Import ListNotations.
Open Scope N_scope.

Ltac key_tac :=
  unfold key_lt in *; simpl in *;
  repeat match goal with
         | H : context [N.eqb ?a ?b] |- _ => destruct (N.eqb_spec a b); simpl in H
         | |- context [N.eqb ?a ?b] => destruct (N.eqb_spec a b); simpl
         end;
  repeat match goal with
         | H : context [N.ltb ?a ?b] |- _ => destruct (N.ltb_spec a b); simpl in H
         | |- context [N.ltb ?a ?b] => destruct (N.ltb_spec a b); simpl
         end;
  try reflexivity; try discriminate; try (exfalso; lia).

Lemma key_lt_irrefl : forall x, key_lt x x = false.
Proof. intros [s m]. key_tac. Qed.

Lemma key_lt_trans : forall a b c, key_lt a b = true -> key_lt b c = true -> key_lt a c = true.
Proof. intros [sa ma] [sb mb] [sc mc] H1 H2. key_tac. Qed.

Lemma key_lt_asym : forall a b, key_lt a b = true -> key_lt b a = false.
Proof. intros [sa ma] [sb mb] H1. key_tac. Qed.

Lemma key_lt_total : forall a b, fst a <> fst b -> key_lt a b = false -> key_lt b a = true.
Proof. intros [sa ma] [sb mb] Hne H1. key_tac. Qed.

Lemma key_lt_negtrans : forall x y g, key_lt x y = false -> key_lt x g = true -> key_lt y g = true.
Proof. intros [sa ma] [sb mb] [sc mc] H1 H2. key_tac. Qed.

(* ---------------------------------------------------------------- insertion sort *)
Lemma insert_perm : forall x l, Permutation (insert_desc x l) (x :: l).
Proof.
  induction l as [|y r IH]; simpl; [reflexivity|].
  destruct (key_lt y x); [reflexivity|].
  rewrite IH. apply perm_swap.
Qed.

Lemma sort_perm : forall l, Permutation (sort_desc l) l.
Proof.
  induction l as [|x r IH]; simpl; [constructor|].
  rewrite insert_perm. constructor. exact IH.
Qed.

Lemma sort_in : forall l y, In y (sort_desc l) <-> In y l.
Proof.
  intros; split; apply Permutation_in; [|symmetry]; apply sort_perm.
Qed.

Lemma sort_length : forall l, length (sort_desc l) = length l.
Proof. intros; apply Permutation_length, sort_perm. Qed.

Lemma sort_nodup_fst : forall l, NoDup (map fst l) -> NoDup (map fst (sort_desc l)).
Proof.
  intros l H. eapply Permutation_NoDup; [|exact H].
  apply Permutation_map. symmetry. apply sort_perm.
Qed.

Lemma insert_in : forall x l y, In y (insert_desc x l) <-> y = x \/ In y l.
Proof.
  intros; split; intro H.
  - apply (Permutation_in _ (insert_perm x l)) in H. destruct H; auto.
  - apply (Permutation_in _ (Permutation_sym (insert_perm x l))). destruct H; [left|right]; auto.
Qed.

Lemma insert_sorted : forall x l, sorted_desc l -> (forall y, In y l -> fst y <> fst x) ->
  sorted_desc (insert_desc x l).
Proof.
  induction l as [|y r IH]; simpl; intros Hs Hd.
  - split; [intros ? []|exact I].
  - destruct Hs as [Hy Hr]. destruct (key_lt y x) eqn:E; simpl.
    + split; [|split; assumption].
      intros z [<-|Hz]; [exact E|]. eapply key_lt_trans; [apply Hy; exact Hz|exact E].
    + split.
      * intros z Hz. apply insert_in in Hz. destruct Hz as [->|Hz]; [|auto].
        apply key_lt_total; [|exact E]. apply Hd. left; reflexivity.
      * apply IH; auto.
Qed.

Lemma sort_sorted : forall l, NoDup (map fst l) -> sorted_desc (sort_desc l).
Proof.
  induction l as [|x r IH]; simpl; intros H; [exact I|].
  inversion H as [|? ? Hn Hnd]; subst.
  apply insert_sorted; [auto|].
  intros y Hy E. apply (proj1 (sort_in r y)) in Hy. apply Hn. rewrite <- E. apply in_map. exact Hy.
Qed.

(* ---------------------------------------------------------------- sorted lists *)
Lemma sorted_app : forall a b, sorted_desc (a ++ b) ->
  forall x y, In x a -> In y b -> key_lt y x = true.
Proof.
  induction a as [|z a IH]; simpl; intros b Hs x y Hx Hy; [contradiction|].
  destruct Hs as [Hz Hs]. destruct Hx as [<-|Hx].
  - apply Hz. apply in_or_app. right; exact Hy.
  - eapply IH; eauto.
Qed.

Lemma sorted_app_l : forall a b, sorted_desc (a ++ b) -> sorted_desc a.
Proof.
  induction a as [|z a IH]; simpl; intros b Hs; [exact I|].
  destruct Hs as [Hz Hs]. split; [|eapply IH; eauto].
  intros y Hy. apply Hz. apply in_or_app. left; exact Hy.
Qed.

Lemma sorted_app_r : forall a b, sorted_desc (a ++ b) -> sorted_desc b.
Proof.
  induction a as [|z a IH]; simpl; intros b Hs; [exact Hs|].
  destruct Hs as [_ Hs]. auto.
Qed.

Lemma sorted_firstn : forall n l, sorted_desc l -> sorted_desc (firstn n l).
Proof.
  intros n l H. rewrite <- (firstn_skipn n l) in H. eapply sorted_app_l; eauto.
Qed.

Lemma sorted_nodup : forall l, sorted_desc l -> NoDup l.
Proof.
  induction l as [|x r IH]; simpl; intros H; [constructor|].
  destruct H as [Hx Hr]. constructor; [|auto].
  intro Hin. apply Hx in Hin. rewrite key_lt_irrefl in Hin. discriminate.
Qed.

(* x among the first n of a sorted list: fewer than n elements of the list are greater *)
Lemma not_top : forall s n x G, sorted_desc s -> In x (firstn n s) ->
  NoDup G -> length G = n -> (forall y, In y G -> In y s /\ key_lt x y = true) -> False.
Proof.
  intros s n x G Hs Hx Hnd Hlen HG.
  destruct (in_split _ _ Hx) as [a [b Eab]].
  assert (Hla : (length a < n)%nat).
  { assert (Hl := firstn_le_length n s). rewrite Eab, app_length in Hl.
    assert (Hl2 : (length (firstn n s) <= n)%nat).
    { rewrite firstn_length. apply Nat.le_min_l. }
    rewrite Eab, app_length in Hl2. simpl in Hl2. lia. }
  assert (Hs' : sorted_desc ((a ++ x :: b) ++ skipn n s)).
  { rewrite <- Eab, firstn_skipn. exact Hs. }
  assert (Hinc : incl G a).
  { intros y Hy. destruct (HG y Hy) as [Hys Hlt].
    rewrite <- (firstn_skipn n s), Eab in Hys.
    rewrite <- app_assoc in Hys, Hs'. simpl in Hys, Hs'.
    apply in_app_or in Hys. destruct Hys as [Hys|Hys]; [exact Hys|].
    exfalso. destruct Hys as [<-|Hys].
    - rewrite key_lt_irrefl in Hlt. discriminate.
    - assert (Hyx : key_lt y x = true).
      { apply sorted_app_r in Hs'. simpl in Hs'. apply (proj1 Hs'). exact Hys. }
      apply key_lt_asym in Hyx. congruence. }
  apply (NoDup_incl_length Hnd) in Hinc. lia.
Qed.

Lemma below_top : forall s n x, sorted_desc s -> In x s -> ~ In x (firstn n s) ->
  length (firstn n s) = n /\ forall y, In y (firstn n s) -> key_lt x y = true.
Proof.
  intros s n x Hs Hx Hn.
  assert (Hsk : In x (skipn n s)).
  { rewrite <- (firstn_skipn n s) in Hx. apply in_app_or in Hx. destruct Hx; [contradiction|auto]. }
  split.
  - assert (Hl := skipn_length n s). rewrite firstn_length.
    destruct (skipn n s); [contradiction|]. simpl in Hl. lia.
  - intros y Hy. rewrite <- (firstn_skipn n s) in Hs. eapply sorted_app; eauto.
Qed.

Lemma outr_top : forall s n x G, sorted_desc s -> NoDup G -> length G = n ->
  (forall y, In y G -> In y s /\ key_lt x y = true) ->
  length (firstn n s) = n /\ forall y, In y (firstn n s) -> key_lt x y = true.
Proof.
  intros s n x G Hs Hnd Hlen HG. split.
  - assert (Hinc : incl G s) by (intros y Hy; apply HG; exact Hy).
    apply (NoDup_incl_length Hnd) in Hinc. rewrite firstn_length. lia.
  - intros y Hy. destruct (key_lt x y) eqn:E; [reflexivity|]. exfalso.
    apply (not_top s n y G Hs Hy Hnd Hlen).
    intros g Hg. destruct (HG g Hg) as [Hgs Hlt]. split; [exact Hgs|].
    eapply key_lt_negtrans; eauto.
Qed.

Lemma firstn_nodup_fst : forall n (l : list (N * metaval)), NoDup (map fst l) -> NoDup (map fst (firstn n l)).
Proof.
  intros n l H. rewrite <- (firstn_skipn n l), map_app in H.
  revert H. generalize (map fst (skipn n l)). generalize (map fst (firstn n l)).
  induction l0 as [|a r IH]; simpl; intros l1 H; [constructor|].
  inversion H; subst. constructor; [|eauto].
  intro Hi. apply H2. apply in_or_app. left; exact Hi.
Qed.
