(* ClusterCommitCex.v — what the side conditions of the safety theorem (Proofs/ClusterCommitMain.v) are for.

   (A) STILL A COUNTEREXAMPLE: a forged RequestVote (GInput _ (NVote q), "stray vote requests from
       anyone" of Model/ClusterLog.v).  With LeadershipTransfer = true and a made-up last log it makes
       server 2 vote for server 3 in term 3; the real request of 3 is then re-granted without a log
       check ("voted in this term already: re-grant to the same candidate"), and 3 becomes leader
       without the committed entry.  The transport cannot do this; label_no_stray_vote excludes it.

   (B), (C) REGRESSION: the two runs that violated State Machine Safety under the OLD commit rule of
       appendEntries, commitIndex = min(LeaderCommit, the follower's OWN lastIndex).  After the
       fix: commit (Model/Node.v ae_commit: min(LeaderCommit, index of the last entry of the request,
       lastIndex), never backwards) both runs are harmless; they are kept here as compiled checks.
       (B) stale lastIndex: replicateTo(s, lastIndex) with lastIndex read before the leader's no-op was
           dispatched and LeaderCommit read after it committed: (prev = n-1, no entries, LeaderCommit >= n)
           made a follower with a divergent tail above n-1 commit and apply that tail.
           Script (3 servers): 1 3; 2 3 2; 3 3 2; 7 3 71; 7 3 72; 1 1; 1 1; 2 1 2; 3 1 2; 7 1 81; 7 1 82;
           8 1 2 2 4; 10 0; 12 0; 14 1; 9 1 3; 10 1; 8 1 3 2 1; 10 2   [then 12 2; 8 1 3 2 2; 10 3].
       (C) DeleteRange fails MaxAppendEntries(+1) times in a row: each refusal moves nextIndex one
           back although the logs agree at prev; the request finally ends below the conflict, is all
           duplicates, succeeds, and min(LeaderCommit, own lastIndex) covered the stale tail. *)
From Coq Require Import List NArith Bool Lia.
From stdpp Require Import gmap.
From RaftModel Require Import Base Config Compaction Commitment Node NodeCodec Candidate Leader Replicate Cluster ClusterLog ClusterCommit.
From RaftProofs Require Import ConfigProofs VoteProofs ClusterProofs ClusterLogSpec ClusterCommitSpec ClusterCommitInit.
Open Scope N_scope.

Definition cex_g0 : cgstate :=
  mkCG (mkLG (mkG (map (fun p => mk_node (mk_cfg 3) (N.of_nat (fst p)) (snd p)) (combine (seq 1 3) [0; 0; 0])) [] [] []) []) [] [] [].

Definition cexC_g0 : cgstate :=
  mkCG (mkLG (mkG (map (fun p => mk_node (mk_cfg 3) (N.of_nat (fst p)) (snd p)) (combine (seq 1 3) [4; 4; 4])) [] [] []) []) [] [] [].

Definition cexA_labels : list clabel :=
  [ CBase (LElect (GTimeout 1)); CBase (LElect (GVoteReq 1 2 0 [])); CBase (LElect (GVoteResp 1 2));
    CBase (LSend 1 2 2 2); CBase (LDeliver 0 0 []); CAck 0; CCommit 1;
    CBase (LSend 1 2 3 2); CBase (LDeliver 1 0 []);
    CBase (LElect (GInput 2 (NVote (mkVReq 3 3 3 100 100 true)) 0 []));
    CBase (LElect (GTimeout 3)); CBase (LElect (GTimeout 3));
    CBase (LElect (GVoteReq 3 2 0 [])); CBase (LElect (GVoteResp 3 2));
    CBase (LSend 3 2 2 2); CBase (LDeliver 2 0 []) ].

Definition cexB_labels : list clabel :=
  [ CBase (LElect (GTimeout 3)); CBase (LElect (GVoteReq 3 2 0 [])); CBase (LElect (GVoteResp 3 2));
    CBase (LPropose 3 LogCommand 71 []); CBase (LPropose 3 LogCommand 72 []);
    CBase (LElect (GTimeout 1)); CBase (LElect (GTimeout 1));
    CBase (LElect (GVoteReq 1 2 0 [])); CBase (LElect (GVoteResp 1 2));
    CBase (LPropose 1 LogCommand 81 []); CBase (LPropose 1 LogCommand 82 []);
    CBase (LSend 1 2 2 4); CBase (LDeliver 0 0 []); CAck 0; CCommit 1;
    CBase (LHeartbeat 1 3); CBase (LDeliver 1 0 []);
    CBase (LSend 1 3 2 1); CBase (LDeliver 2 0 []);
    CAck 2; CBase (LSend 1 3 2 2); CBase (LDeliver 3 0 []) ].

Definition cexC_labels : list clabel :=
  [ CBase (LElect (GTimeout 3)); CBase (LElect (GVoteReq 3 2 0 [])); CBase (LElect (GVoteResp 3 2));
    CBase (LElect (GTimeout 1)); CBase (LElect (GTimeout 1));
    CBase (LElect (GVoteReq 1 2 0 [])); CBase (LElect (GVoteResp 1 2));
    CBase (LSend 1 2 6 6); CBase (LDeliver 0 0 []); CAck 0; CCommit 1;
    CBase (LHeartbeat 1 3); CBase (LDeliver 1 0 []);
    CBase (LSend 1 3 6 6); CBase (LDeliver 2 0 [true]); CAck 2;
    CBase (LSend 1 3 5 6); CBase (LDeliver 3 0 [true]); CAck 3;
    CBase (LSend 1 3 4 6); CBase (LDeliver 4 0 [true]); CAck 4;
    CBase (LSend 1 3 3 6); CBase (LDeliver 5 0 [true]); CAck 5;
    CBase (LSend 1 3 2 6); CBase (LDeliver 6 0 []) ].

(* ---------------------------------------------------------------- decidable witnesses *)
Definition up_state (g : cgstate) (i : N) : option nstate :=
  match find_node (cnodes g) i with
  | Some n => match gn_run n with Up s => Some s | Down _ => None end
  | None => None
  end.

Lemma up_state_in g i s : up_state g i = Some s -> exists n, In n (cnodes g) /\ gn_run n = Up s.
Proof.
  unfold up_state. destruct (find_node (cnodes g) i) as [n|] eqn:F; [|discriminate].
  destruct (gn_run n) as [s0|s0] eqn:R; [|discriminate]. intros H; inversion H; subst.
  exists n. split; [apply (find_node_in _ _ _ F)|exact R].
Qed.

Lemma entry_eqb_refl e : entry_eqb e e = true.
Proof. unfold entry_eqb. rewrite !N.eqb_refl. reflexivity. Qed.

(* servers ia and ib both know index i to be committed and hold different entries there *)
Definition agree_violation (g : cgstate) (ia ib i : N) : bool :=
  match up_state g ia, up_state g ib with
  | Some sa, Some sb =>
    match d_log sa !! i, d_log sb !! i with
    | Some ea, Some eb => (i <=? v_commit sa) && (i <=? v_commit sb) && negb (entry_eqb ea eb)
    | _, _ => false
    end
  | _, _ => false
  end.

Lemma agree_violation_sound g ia ib i : agree_violation g ia ib i = true -> ~ committed_agree g.
Proof.
  unfold agree_violation. intros H CA.
  destruct (up_state g ia) as [sa|] eqn:Ua; [|discriminate]. destruct (up_state g ib) as [sb|] eqn:Ub; [|discriminate].
  destruct (d_log sa !! i) as [ea|] eqn:Ea; [|discriminate]. destruct (d_log sb !! i) as [eb|] eqn:Eb; [|discriminate].
  apply andb_prop in H. destruct H as [H Hne]. apply andb_prop in H. destruct H as [H1 H2].
  apply N.leb_le in H1. apply N.leb_le in H2.
  destruct (up_state_in g ia sa Ua) as (a & Ia & Ra). destruct (up_state_in g ib sb Ub) as (b & Ib & Rb).
  pose proof (CA a b sa sb Ia Ib Ra Rb i ea eb H1 H2 Ea Eb) as E. subst eb.
  rewrite entry_eqb_refl in Hne. discriminate.
Qed.

(* il is a Leader whose term is at least ia's, ia knows index i to be committed, il does not hold ia's entry *)
Definition complete_violation (g : cgstate) (ia il i : N) : bool :=
  match up_state g ia, up_state g il with
  | Some sa, Some sl =>
    match d_log sa !! i with
    | Some e => (v_role sl =? Leader) && (v_term sa <=? v_term sl) && (i <=? v_commit sa) &&
                match d_log sl !! i with Some e' => negb (entry_eqb e' e) | None => true end
    | None => false
    end
  | _, _ => false
  end.

Lemma complete_violation_sound g ia il i : complete_violation g ia il i = true -> ~ leader_complete g.
Proof.
  unfold complete_violation. intros H LC.
  destruct (up_state g ia) as [sa|] eqn:Ua; [|discriminate]. destruct (up_state g il) as [sl|] eqn:Ul; [|discriminate].
  destruct (d_log sa !! i) as [e|] eqn:Ea; [|discriminate].
  apply andb_prop in H. destruct H as [H Hne]. apply andb_prop in H. destruct H as [H H3].
  apply andb_prop in H. destruct H as [H1 H2].
  apply N.eqb_eq in H1. apply N.leb_le in H2. apply N.leb_le in H3.
  destruct (up_state_in g ia sa Ua) as (a & Ia & Ra). destruct (up_state_in g il sl Ul) as (l & Il & Rl).
  pose proof (LC a l sa sl Ia Il Ra Rl H1 H2 i e H3 Ea) as E. rewrite E in Hne.
  rewrite entry_eqb_refl in Hne. discriminate.
Qed.

(* ia's commit index is beyond its last index *)
Definition within_violation (g : cgstate) (ia : N) : bool :=
  match up_state g ia with
  | Some sa => last_index sa <? v_commit sa
  | None => false
  end.

Lemma within_violation_sound g ia : within_violation g ia = true -> ~ applied_within_commit g.
Proof.
  unfold within_violation. intros H AW. destruct (up_state g ia) as [sa|] eqn:Ua; [|discriminate].
  apply N.ltb_lt in H. destruct (up_state_in g ia sa Ua) as (a & Ia & Ra).
  destruct (AW a sa Ia Ra) as [_ Hc]. lia.
Qed.

(* ---------------------------------------------------------------- the runs *)
Lemma run_witness g0 ls (chk : cgstate -> bool) :
  match crun false [mk_cfg 3] g0 ls with Some g => chk g | None => false end = true ->
  exists g, crun false [mk_cfg 3] g0 ls = Some g /\ chk g = true.
Proof. destruct (crun false [mk_cfg 3] g0 ls) as [g|]; [|discriminate]. intros H. exists g. auto. Qed.

(* (A): without label_no_stray_vote the safety statements are false *)
Theorem forged_vote_refutes_safety : exists cfg g0 ls g,
  cinit_ok cfg g0 /\ Forall label_no_config ls /\ crun false [cfg] g0 ls = Some g /\
  ~ committed_agree g /\ ~ leader_complete g.
Proof.
  destruct (run_witness cex_g0 cexA_labels (fun g => agree_violation g 1 2 2 && complete_violation g 1 3 2)) as (g & Hrun & Hv);
    [vm_compute; reflexivity|].
  exists (mk_cfg 3), cex_g0, cexA_labels, g. apply andb_prop in Hv. destruct Hv as [Hv1 Hv2].
  split; [apply mk_nodes_cinit|]. split; [repeat constructor; simpl; discriminate|]. split; [exact Hrun|].
  split; [eapply agree_violation_sound; exact Hv1|eapply complete_violation_sound; exact Hv2].
Qed.

(* (B), (C): the runs that broke the old rule end in states without a violation; the follower's
   commit index stops where the request stopped *)
Definition commit_of (g : cgstate) (i : N) : N := match up_state g i with Some s => v_commit s | None => 0 end.
Definition no_violation (g : cgstate) (ids idxs : list N) : bool :=
  forallb (fun a => forallb (fun b => forallb (fun i => negb (agree_violation g a b i)) idxs) ids) ids &&
  forallb (fun a => negb (within_violation g a)) ids.

Lemma old_rule_cexB_now_safe : exists g, crun false [mk_cfg 3] cex_g0 cexB_labels = Some g /\
  (no_violation g [1; 2; 3] [1; 2; 3; 4] && (commit_of g 1 =? 4) && (commit_of g 3 =? 2)) = true.
Proof. apply (run_witness cex_g0 cexB_labels (fun g => no_violation g [1; 2; 3] [1; 2; 3; 4] && (commit_of g 1 =? 4) && (commit_of g 3 =? 2))). vm_compute. reflexivity. Qed.

Lemma old_rule_cexC_now_safe : exists g, crun false [mk_cfg 3] cexC_g0 cexC_labels = Some g /\
  (no_violation g [1; 2; 3] [1; 2; 3; 4; 5; 6] && (commit_of g 1 =? 6) && (commit_of g 3 =? 5)) = true.
Proof. apply (run_witness cexC_g0 cexC_labels (fun g => no_violation g [1; 2; 3] [1; 2; 3; 4; 5; 6] && (commit_of g 1 =? 6) && (commit_of g 3 =? 5))). vm_compute. reflexivity. Qed.

Print Assumptions forged_vote_refutes_safety.
