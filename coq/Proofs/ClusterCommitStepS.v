(* ClusterCommitStepS.v — GTimeout (runCandidate is entered; in a one-voter cluster the server is
   elected at once) keeps the invariant. *)
From Coq Require Import List NArith Bool Lia.
From stdpp Require Import gmap.
From RaftModel Require Import Base Config Compaction Commitment Node NodeCodec Candidate Leader Replicate Cluster ClusterLog ClusterCommit.
From RaftProofs Require Import ConfigProofs CommitmentProofs VoteProofs ClusterProofs
  ClusterLogSpec ClusterLogChain ClusterLogNode ClusterLogVote ClusterLogLeader ClusterLogInv ClusterLogSteps ClusterLogElect
  ClusterCommitSpec ClusterCommitLog ClusterCommitChain ClusterCommitAE2 ClusterCommitNode ClusterCommitNode3 ClusterCommitGhost
  ClusterCommitInv ClusterCommitFinal ClusterCommitUpd ClusterCommitStepA ClusterCommitStepD ClusterCommitStepE ClusterCommitStepG
  ClusterCommitStepR.
Open Scope N_scope.

Lemma req_of_last P s : (vq_lastIdx (req_of P s), vq_lastTerm (req_of P s)) = last_entry s.
Proof. unfold req_of. destruct (last_entry s). reflexivity. Qed.

(* the server that entered runCandidate did not become Leader: nobody gets a fresh leadership state *)
Lemma refresh_quiet nodes i n n' leads : NoDup (map gn_id nodes) -> find_node nodes i = Some n -> gn_id n' = i ->
  (forall s', gn_run n' = Up s' -> v_role s' <> Leader) ->
  refresh_leads nodes (upd_node nodes i n') leads = leads.
Proof.
  intros Hnd Hf Hid Hrole. apply refresh_no_new. intros x s Hx Hr Hl n0 Hn0.
  destruct (in_upd_cases _ _ _ _ Hx) as [->|[Hxo Hne]].
  - exfalso. apply (Hrole s Hr Hl).
  - rewrite (find_node_self nodes x Hnd Hxo) in Hn0. inversion Hn0; subst n0. rewrite Hr. exact Hl.
Qed.

(* exactly the server i became Leader *)
Lemma refresh_one nodes i n n' s' leads : NoDup (map gn_id nodes) -> find_node nodes i = Some n -> gn_id n' = i ->
  gn_run n' = Up s' -> v_role s' = Leader -> role_of (gn_run n) <> Leader ->
  forall j, find_lead (refresh_leads nodes (upd_node nodes i n') leads) j =
            find_lead (set_lead leads i (fresh_lead (gn_P n') s')) j.
Proof.
  intros Hnd Hf Hid Hr Hl Hnl j. destruct (find_node_in _ _ _ Hf) as [Hin Hidn].
  unfold refresh_leads.
  (* fold over the updated list: only the element with id i acts *)
  assert (G : forall l acc, NoDup (map gn_id l) -> (forall x, In x l -> In x nodes) ->
            find_lead (fold_left (fun acc x =>
               match gn_run x, find_node nodes (gn_id x) with
               | Up s, Some n0 => if (v_role s =? Leader) && negb (role_of (gn_run n0) =? Leader) then set_lead acc (gn_id x) (fresh_lead (gn_P x) s) else acc
               | _, _ => acc end) (upd_node l i n') acc) j =
            if existsb (fun x => gn_id x =? i) l then find_lead (set_lead acc i (fresh_lead (gn_P n') s')) j else find_lead acc j).
  { induction l as [|x r IH]; intros acc Hndl Hsub; [reflexivity|]. cbn [map] in Hndl. apply NoDup_cons_iff in Hndl. destruct Hndl as [Hx Hr'].
    cbn [upd_node map fold_left existsb]. destruct (N.eqb_spec (gn_id x) i) as [E|Hne].
    - rewrite Hr, Hid, Hf. rewrite Hl. destruct (N.eqb_spec (role_of (gn_run n)) Leader) as [Ec|_]; [contradiction|]. cbn [N.eqb andb negb orb].
      rewrite N.eqb_refl. cbn [andb negb].
      assert (Hno : existsb (fun y => gn_id y =? i) r = false).
      { apply not_true_is_false. intros Hc. apply existsb_exists in Hc. destruct Hc as (y & Hy & Ey). apply N.eqb_eq in Ey.
        apply Hx. rewrite E, <- Ey. apply in_map, Hy. }
      fold (upd_node r i n'). rewrite (IH _ Hr' (fun y Hy => Hsub y (or_intror Hy))), Hno. reflexivity.
    - assert (Hxn : find_node nodes (gn_id x) = Some x) by (apply find_node_self; [exact Hnd|apply Hsub; left; reflexivity]).
      rewrite Hxn. cbn [orb]. fold (upd_node r i n').
      destruct (gn_run x) as [sx|sx] eqn:Erx; [|apply (IH _ Hr' (fun y Hy => Hsub y (or_intror Hy)))].
      cbn [role_of]. destruct (v_role sx =? Leader); cbn [andb negb]; apply (IH _ Hr' (fun y Hy => Hsub y (or_intror Hy))). }
  rewrite (G nodes leads Hnd (fun x Hx => Hx)).
  assert (He : existsb (fun x => gn_id x =? i) nodes = true) by (apply existsb_exists; exists n; split; [exact Hin|apply N.eqb_eq, Hidn]).
  rewrite He. reflexivity.
Qed.

Lemma become_leader_role P s : v_role s = Leader -> v_role (become_leader P s) = Leader.
Proof.
  intros Hr. pose proof (dispatch_one P s [] LogNoop 0 0) as Hd. cbv zeta in Hd. fold (become_leader P s) in Hd.
  destruct Hd as (_ & _ & _ & _ & [(Hf & _)|(_ & _ & _ & _ & Dr)]); [simpl in Hf; discriminate|congruence].
Qed.

Section StepS.
  Variable cfg : config.
  Variable Ps : list params.
  Hypothesis HVn : NoDup (voters cfg).
  Let HQ := quorums_intersect_one' cfg HVn.

  (* the self-vote of a server that enters runCandidate as a voter *)
  Definition self_vote (LL : LLt) (i T : N) (k : N * N) : Vt := if ll_has LL T then [] else [(i, T, i, k, k)].

  Lemma self_vote_in LL i T k w T' c kw rq : In (w, T', c, kw, rq) (self_vote LL i T k) ->
    w = i /\ T' = T /\ c = i /\ kw = k /\ rq = k /\ ll_has LL T = false.
  Proof. unfold self_vote. destruct (ll_has LL T) eqn:E; [intros []|]. intros [H|[]]. inversion H. auto 10. Qed.

  Lemma self_vote_or LL V i T k : (exists kw rq, In (i, T, i, kw, rq) (self_vote LL i T k ++ V)) \/ (exists c' tl', In (T, c', tl') LL).
  Proof.
    unfold self_vote. destruct (ll_has LL T) eqn:E; [right; apply ll_has_true, E|left]. exists k, k. left. reflexivity.
  Qed.

  (* runCandidate is entered and the server stays a candidate *)
  Lemma cinv_enter_cand g g' C LL A V i n s s' se (vt : bool) :
    cinv cfg Ps g C LL A V -> find_node (cnodes g) i = Some n -> gn_run n = Up s -> v_role s <> Leader ->
    lkeep s' s -> vkeep s' s -> d_term s' = v_term s + 1 -> v_term s' = v_term s + 1 -> v_role s' = Candidate ->
    se_req se = req_of (gn_P n) s' ->
    live s' = (if vt then Some (v_term s + 1, i) else None) ->
    cnodes g' = upd_node (cnodes g) i (mkGN (gn_P n) (Up s') (Some se) (gn_next n + 1)) ->
    ginv [cfg] (gof g') -> lg_msgs (cg_l g') = lg_msgs (cg_l g) -> cg_ans g' = cg_ans g -> cg_lead g' = cg_lead g ->
    g_leaders (gof g') = g_leaders (gof g) ->
    g_grants (gof g') = (if vt then [(i, v_term s + 1, i)] else []) ++ g_grants (gof g) ->
    exists Vn, cinv cfg Ps g' C LL A (Vn ++ V).
  Proof.
    intros HI Hf Hr Hnl Hk Hvk Hdt' Hvt' Hrole' Hreq Hlive Hnodes Hg' Hmsgs Hans Hleads Hld Hgr.
    destruct (find_node_in _ _ _ Hf) as [Hin Hid].
    pose proof (cv_l cfg Ps g C LL A V HI) as Hlinv. pose proof (cv_ci cfg Ps g C LL A V HI) as Hci. pose proof (ci_ok C LL Hci) as HC.
    destruct (node_log_in cfg Ps g C LL A V HI n s Hin Hr) as [Hnlog [Hwd Hvt]].
    pose proof (cv_node cfg Ps g C LL A V HI n Hin) as Hcn. rewrite Hr in Hcn.
    set (T := v_term s + 1) in *. set (n' := mkGN (gn_P n) (Up s') (Some se) (gn_next n + 1)) in *.
    assert (Hnl' : nlog_up C s') by (eapply nlog_up_keep; [exact Hnlog|exact Hk|lia]).
    assert (Htk : topk s' = topk s) by (destruct Hk as (_ & _ & K3 & K4 & _); unfold topk; congruence).
    assert (Hl' : linv [cfg] (cg_l g') C).
    { assert (Eg : cg_l g' = mkLG (gof g') (lg_msgs (cg_l g))).
      { unfold gof. rewrite <- Hmsgs. destruct (cg_l g') as [gg mm]. reflexivity. }
      rewrite Eg. apply (plain_linv [cfg] HQ (cg_l g) C (gof g') i n s s' (Some se) (gn_next n + 1) Hlinv Hg' Hf Hr Hnodes Hld Hk); [lia|rewrite Hrole'; discriminate|].
      intros se0 E. inversion E; subst se0. right. rewrite Hreq. destruct (req_of_fields (gn_P n) s') as [-> _]. lia. }
    destruct Hcn as (N1 & N2 & N3). pose proof (cnode_up_vkeep cfg Ps s s' N3 Hvk) as N3'. pose proof N3' as (_ & _ & Htop' & _).
    exists (if vt then self_vote LL i T (topk s) else []).
    apply (cinv_quiet cfg Ps HVn g g' C LL A V (if vt then self_vote LL i T (topk s) else []) (if vt then [(i, T, i)] else []) i n n' HI Hf Hid Hnodes Hl').
    - rewrite Hr. split; [apply Hvk|]. split; [simpl; lia|]. left. exists s. auto.
    - split; [exact N1|]. split; [exact N2|exact N3'].
    - exact Hmsgs.
    - exact Hans.
    - exact Hld.
    - exact Hgr.
    - intros j _. rewrite Hleads. reflexivity.
    - intros se' E. inversion E; subst se'. right. rewrite Hreq. destruct (req_of_fields (gn_P n) s') as [-> _].
      unfold dtn. rewrite Hr. simpl. lia.
    - intros se' E. inversion E; subst se'. exists s'. split; [reflexivity|]. left. rewrite Hreq. symmetry. apply req_of_last.
    - intros s0 E Hl0. cbn [n' gn_run] in E. inversion E; subst s0. rewrite Hrole' in Hl0. discriminate.
    - intros w T' c kw rq k k0 Hv Ha Hlt Hanc Hpos. destruct vt; [|contradiction].
      destruct (self_vote_in _ _ _ _ _ _ _ _ _ Hv) as (-> & -> & -> & -> & -> & Hno). rewrite <- Hid in Ha.
      apply (cast_va cfg Ps g C LL A V n s T k k0 HI Hin Hr); auto. unfold T. lia.
    - intros w T' c kw rq Hv. destruct vt; [|contradiction].
      destruct (self_vote_in _ _ _ _ _ _ _ _ _ Hv) as (-> & -> & -> & -> & -> & Hno).
      split; [right; split; [reflexivity|lia]|]. destruct N3 as (_ & _ & Htop & _). apply (topk_created C s HC Hnlog Htop).
    - intros w T' c kw rq Hv. destruct vt; [|contradiction].
      destruct (self_vote_in _ _ _ _ _ _ _ _ _ Hv) as (-> & -> & -> & -> & -> & Hno).
      assert (Hx : exists x, In x (cnodes g') /\ gn_id x = i /\ T <= dtn x).
      { exists n'. split; [rewrite Hnodes; apply in_upd_node with (n := n); assumption|]. split; [exact Hid|]. unfold dtn. cbn [n' gn_run image]. lia. }
      split; exact Hx.
    - intros w T' c kw rq xc se0 Hv Hxc Hxci Hse0 Hst. destruct vt; [|contradiction].
      destruct (self_vote_in _ _ _ _ _ _ _ _ _ Hv) as (-> & -> & -> & -> & -> & Hno).
      assert (xc = n').
      { rewrite Hnodes in Hxc. destruct (in_upd_cases _ _ _ _ Hxc) as [->|[_ Hne]]; [reflexivity|congruence]. }
      subst xc. cbn [n' gn_sess] in Hse0. inversion Hse0; subst se0. rewrite Hreq, req_of_last, (last_entry_topk s') by apply Hnl'. symmetry. exact Htk.
    - intros w T' c Hg. destruct vt; [|contradiction]. destruct Hg as [E|[]]. inversion E; subst w T' c. apply self_vote_or.
    - intros T' c Hlv. cbn [n' gn_run image] in Hlv. rewrite Hlive in Hlv. destruct vt; [|discriminate]. inversion Hlv; subst T' c. apply self_vote_or.
  Qed.

  Theorem cinv_timeout g C LL A V i g' : cinv cfg Ps g C LL A V ->
    cstep false [cfg] g (CBase (LElect (GTimeout i))) = Some g' -> exists Cn LLn An Vn, cinv cfg Ps g' (Cn ++ C) (LLn ++ LL) (An ++ A) (Vn ++ V).
  Proof.
    intros HI Hstep. apply cstep_base_inv in Hstep. destruct Hstep as (_ & l' & Hl & ->).
    pose proof (cv_l cfg Ps g C LL A V HI) as Hlinv. pose proof (cv_ci cfg Ps g C LL A V HI) as Hci. pose proof (ci_ok C LL Hci) as HC.
    unfold lstep, ClusterLog.label_ok in Hl.
    destruct (gstep [cfg] (lg_g (cg_l g)) (GTimeout i)) as [g1|] eqn:Hg; [|discriminate].
    inversion Hl; subst l'. clear Hl.
    pose proof (gstep_inv [cfg] _ _ _ (li_g [cfg] _ C Hlinv) Hg) as Hg1.
    unfold gstep in Hg. fold (cnodes g) in Hg.
    destruct (find_node (cnodes g) i) as [n|] eqn:Hf; [|discriminate].
    destruct (find_node_in _ _ _ Hf) as [Hin Hid].
    destruct (gn_run n) as [s|s] eqn:Hr; [|discriminate].
    destruct (existsb (config_eqb (v_latest s)) [cfg]); [|discriminate]. cbn [negb orb] in Hg.
    destruct (N.eqb_spec (v_role s) Leader) as [|Hnl]; [discriminate|].
    destruct (node_log_in cfg Ps g C LL A V HI n s Hin Hr) as [Hnlog [Hwd Hvt]].
    pose proof (cv_node cfg Ps g C LL A V HI n Hin) as Hcn. rewrite Hr in Hcn. pose proof Hcn as (N1 & N2 & N3).
    set (s0 := match gn_sess n with Some _ => set_transfer s false | None => s end) in *.
    assert (K0 : lkeep s0 s /\ vkeep s0 s /\ dproj s0 = dproj s /\ v_term s0 = v_term s).
    { unfold s0. destruct (gn_sess n); repeat split. }
    destruct K0 as (K0 & Kv0 & Kd0 & Kt0).
    pose proof (sess_enter_cases (gn_P n) s0) as Hc. cbv zeta in Hc.
    destruct (sess_enter (gn_P n) false s0) as [x tr]. simpl fst in Hc.
    set (T := v_term s + 1).
    assert (Kvoted : lkeep (voted (gn_P n) s0) s /\ vkeep (voted (gn_P n) s0) s /\ d_term (voted (gn_P n) s0) = T /\ v_term (voted (gn_P n) s0) = T).
    { split; [eapply lkeep_trans; [|exact K0]; repeat split|]. split; [eapply vkeep_trans; [|exact Kv0]; repeat split|].
      unfold T. rewrite <- Kt0. split; reflexivity. }
    assert (Kent : lkeep (entered (gn_P n) s0) s /\ vkeep (entered (gn_P n) s0) s /\ d_term (entered (gn_P n) s0) = T /\ v_term (entered (gn_P n) s0) = T).
    { split; [eapply lkeep_trans; [|exact K0]; repeat split|]. split; [eapply vkeep_trans; [|exact Kv0]; repeat split|].
      unfold T. rewrite <- Kt0. split; reflexivity. }
    assert (Hdt : dtn n = d_term s) by (unfold dtn; rewrite Hr; reflexivity).
    cbn [lg_g g_nodes base_leads base_hb base_ans].
    pose proof (nodes_nodup cfg Ps g C LL A V HI) as Hnd.
    destruct (self_is_voter (gn_P n) s0).
    - destruct (quorum_size (v_latest s0) <=? 1).
      + (* single voter: leader at once *)
        subst x. inversion Hg; subst g1. clear Hg.
        match goal with |- context [become_leader _ ?SL] => set (sL := SL) in * end.
        destruct Kvoted as (Kl & Kvk & Kdt & Kvt).
        assert (KL : lkeep sL s /\ vkeep sL s) by (split; [eapply lkeep_trans; [|exact Kl]|eapply vkeep_trans; [|exact Kvk]]; repeat split).
        destruct KL as [KL KvL].
        assert (HnoT : forall c, ~ In (T, c) (g_leaders (lg_g (cg_l g)))).
        { intros c Hc. assert (c = i).
          { apply (leaders_fun [cfg] _ T c i HQ Hg1); cbn [g_leaders]; [right; exact Hc|left; unfold T; rewrite <- Kt0; reflexivity]. }
          subst c. destruct (li_leaders [cfg] _ C Hlinv _ _ Hc n Hin Hid) as [Hle _]. unfold dt in Hle. rewrite Hr in Hle. simpl in Hle. unfold T in Hle. lia. }
        assert (Hno : ll_has LL T = false).
        { destruct (ll_has LL T) eqn:E; [|reflexivity]. exfalso. destruct (ll_has_true _ _ E) as (c & tl & Hx).
          apply (HnoT c). apply (cv_ll cfg Ps g C LL A V HI). eauto. }
        match goal with |- exists Cn LLn An Vn, cinv _ _ ?G _ _ _ _ => set (g' := G) end.
        destruct (cinv_become cfg Ps HVn g g' C LL A V [(i, T, i, topk s, topk s)] [(i, T, i)] i n s sL (gn_next n + 1) HI Hf Hr KL KvL) as (C' & LL' & A' & Hc');
          try reflexivity; [| | | | | | | | | | |exists C', LL', A', [(i, T, i, topk s, topk s)]; exact Hc'].
        * change (d_term sL) with (v_term s0 + 1). lia.
        * change (v_term sL) with (v_term s0 + 1). lia.
        * intros T' H1 _. change (v_term sL) with (v_term s0 + 1). rewrite Hdt in H1. lia.
        * exact Hg1.
        * cbn [g' cg_l lg_g g_grants gof]. unfold T. rewrite <- Kt0. reflexivity.
        * intros j. cbn [g' cg_lead]. apply (refresh_one (cnodes g) i n (mkGN (gn_P n) (Up (become_leader (gn_P n) sL)) None (gn_next n + 1)) (become_leader (gn_P n) sL) (cg_lead g) Hnd Hf Hid eq_refl).
          -- apply become_leader_role. reflexivity.
          -- rewrite Hr. exact Hnl.
        * (* the votes that elected it *)
          assert (ET : v_term sL = T) by (change (v_term sL) with (v_term s0 + 1); unfold T; rewrite Kt0; reflexivity).
          assert (Ek : topk sL = topk s) by (destruct KL as (_ & _ & K3 & K4 & _); unfold topk; rewrite K3, K4; reflexivity).
          intros w Hw. rewrite ET in Hw |- *. rewrite Ek. cbn [g' cg_l lg_g g_grants gof] in Hw. destruct Hw as [E|Hw]; [inversion E; subst w; exists (topk s); left; reflexivity|].
          exfalso. destruct (cv_gv cfg Ps g C LL A V HI w T i Hw) as [(kw & rq & Hv)|(c' & tl' & Hx)].
          -- destruct (cv_v1 cfg Ps g C LL A V HI _ _ _ _ _ Hv) as [_ (xc & Hxc & Hxci & Hxct)].
             assert (xc = n) by (apply (nodup_id_eq _ xc n Hnd Hxc Hin); congruence). subst xc. rewrite Hdt in Hxct. unfold T in Hxct. lia.
          -- apply (ll_has_false LL T c' tl' Hno Hx).
        * intros w T' c kw rq k k0 [E|[]] Ha Hlt Hanc Hpos. inversion E; subst w T' c kw rq. rewrite <- Hid in Ha.
          apply (cast_va cfg Ps g C LL A V n s T k k0 HI Hin Hr); auto. unfold T. lia.
        * intros w T' c kw rq [E|[]]. inversion E; subst w T' c kw rq. split; [reflexivity|].
          split; [change (v_term sL) with (v_term s0 + 1); unfold T; rewrite Kt0; reflexivity|]. split; [reflexivity|].
          split; [right; split; [reflexivity|lia]|]. destruct N3 as (_ & _ & Htop & _). apply (topk_created C s HC Hnlog Htop).
        * intros w T' c [E|[]]. inversion E; subst w T' c. exists (topk s), (topk s). left. reflexivity.
        * intros T' c Hlv. left. change (live sL) with (live (voted (gn_P n) s0)) in Hlv. rewrite live_voted in Hlv. inversion Hlv; subst T' c.
          change (p_self (gn_P n)) with (gn_id n). rewrite Hid, Kt0. exists (topk s), (topk s). left. reflexivity.
      + (* a candidate that voted for itself *)
        subst x. cbn [c_granted] in Hg. change (1 <=? 1) with true in Hg. cbn iota in Hg. inversion Hg; subst g1. clear Hg.
        destruct Kvoted as (Kl & Kvk & Kdt & Kvt).
        match goal with |- context [mkGN _ _ (Some ?X) _] => set (se0 := X) end.
        match goal with |- exists Cn LLn An Vn, cinv _ _ ?G _ _ _ _ => set (g' := G) end.
        assert (X1 : v_role (voted (gn_P n) s0) = Candidate) by reflexivity.
        assert (X2 : se_req se0 = req_of (gn_P n) (voted (gn_P n) s0)) by reflexivity.
        destruct (cinv_enter_cand g g' C LL A V i n s (voted (gn_P n) s0) se0 true HI Hf Hr Hnl Kl Kvk Kdt Kvt X1 X2) as [V' HV'];
          [ | reflexivity | exact Hg1 | reflexivity | reflexivity | | reflexivity | | exists [], [], [], V'; exact HV'].
        * rewrite live_voted. change (p_self (gn_P n)) with (gn_id n). rewrite Hid, Kt0. reflexivity.
        * cbn [g' cg_lead]. eapply (refresh_quiet (cnodes g) i n _ (cg_lead g) Hnd Hf); [exact Hid|]. intros s' E. inversion E. discriminate.
        * cbn [g' cg_l lg_g g_grants gof app]. change (v_term (voted (gn_P n) s0)) with (v_term s0 + 1). rewrite Kt0. reflexivity.
    - (* not a voter *)
      subst x. cbn [c_granted] in Hg. change (1 <=? 0) with false in Hg. cbn iota in Hg. inversion Hg; subst g1. clear Hg.
      destruct Kent as (Kl & Kvk & Kdt & Kvt).
      match goal with |- context [mkGN _ _ (Some ?X) _] => set (se0 := X) end.
      match goal with |- exists Cn LLn An Vn, cinv _ _ ?G _ _ _ _ => set (g' := G) end.
      assert (X1 : v_role (entered (gn_P n) s0) = Candidate) by reflexivity.
      assert (X2 : se_req se0 = req_of (gn_P n) (entered (gn_P n) s0)) by reflexivity.
      destruct (cinv_enter_cand g g' C LL A V i n s (entered (gn_P n) s0) se0 false HI Hf Hr Hnl Kl Kvk Kdt Kvt X1 X2) as [V' HV'];
        [ | reflexivity | exact Hg1 | reflexivity | reflexivity | | reflexivity | reflexivity | exists [], [], [], V'; exact HV'].
      * unfold live, live_d, dproj, entered. cbn [d_term d_vterm d_vcand set_vol_term set_durable_term set_state set_role set_leader].
        destruct (N.eqb_spec (d_vterm s0) (v_term s0 + 1)) as [E|]; [|reflexivity].
        exfalso. unfold dproj in Kd0. inversion Kd0 as [[E1 E2 E3]]. unfold wfd in Hwd. lia.
      * cbn [g' cg_lead]. eapply (refresh_quiet (cnodes g) i n _ (cg_lead g) Hnd Hf); [exact Hid|]. intros s' E. inversion E. discriminate.
  Qed.
End StepS.
