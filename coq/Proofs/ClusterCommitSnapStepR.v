(* ClusterCommitSnapStepR.v — with snapshots: a candidate with a majority of the votes becomes leader and
   stores its no-op after getLastEntry (the last log entry or the snapshot boundary). *)
From Coq Require Import List NArith Bool Lia.
From stdpp Require Import gmap.
From RaftModel Require Import Base Config Compaction Commitment Node NodeCodec Candidate Leader Replicate Cluster ClusterLog ClusterCommit.
From RaftProofs Require Import ConfigProofs CommitmentProofs VoteProofs ClusterProofs
  ClusterLogSpec ClusterLogChain ClusterLogNode ClusterLogVote ClusterLogLeader ClusterLogInv ClusterLogSteps
  ClusterCommitSpec ClusterCommitLog ClusterCommitChain ClusterCommitNode ClusterCommitNode3 ClusterCommitGhost
  ClusterCommitInv ClusterCommitUpd ClusterCommitStepA ClusterCommitStepC ClusterCommitStepE
  ClusterCommitStepJ ClusterCommitStepK ClusterCommitStepQ
  ClusterCommitSnapLog ClusterCommitSnapNode ClusterCommitSnapLinv ClusterCommitSnapLinv2 ClusterCommitSnapInv ClusterCommitSnapFinal
  ClusterCommitSnapUpd ClusterCommitSnapStepA ClusterCommitSnapStepD ClusterCommitSnapStepE ClusterCommitSnapStepK ClusterCommitSnapStepL
  ClusterCommitSnapStepQ.
Open Scope N_scope.

Section Become.
  Variable cfg : config.
  Variable Ps : list params.
  Hypothesis HVn : NoDup (voters cfg).
  Let HQ := quorums_intersect_one' cfg HVn.

  Lemma zinv_become g g' C LL A V Vn Gn i n s sL next' :
    zinv cfg Ps g C LL A V -> find_node (cnodes g) i = Some n -> gn_run n = Up s ->
    zkeep sL s -> v_role sL = Leader -> v_term sL = d_term sL -> d_term s <= d_term sL -> 1 <= v_term sL ->
    (forall T', T' <= dtn n -> (forall se, gn_sess n = Some se -> T' < vq_term (se_req se)) -> T' < v_term sL) ->
    cnodes g' = upd_node (cnodes g) i (mkGN (gn_P n) (Up (become_leader (gn_P n) sL)) None next') ->
    ginv [cfg] (gof g') -> lg_msgs (cg_l g') = lg_msgs (cg_l g) -> cg_ans g' = cg_ans g ->
    g_leaders (gof g') = (v_term sL, i) :: g_leaders (gof g) -> g_grants (gof g') = Gn ++ g_grants (gof g) ->
    (forall j, find_lead (cg_lead g') j = find_lead (set_lead (cg_lead g) i (fresh_lead (gn_P n) (become_leader (gn_P n) sL))) j) ->
    (* the votes that elected it carry its last key *)
    (forall w, In (w, v_term sL, i) (g_grants (gof g')) -> exists kw, In (w, v_term sL, i, kw, last_entry sL) (Vn ++ V)) ->
    (forall w T' c kw rq k k0, In (w, T', c, kw, rq) Vn -> In (w, k) A -> snd k < T' -> anc C k0 k -> 1 <= fst k0 ->
       anc C k0 kw \/ exists T3 c3 tl3, In (T3, c3, tl3) LL /\ snd k < T3 /\ T3 < T' /\ ~ anc C k0 tl3) ->
    (forall w T' c kw rq, In (w, T', c, kw, rq) Vn -> w = i /\ T' = v_term sL /\ c = i /\ uptodate rq kw /\ (kw = (0, 0) \/ created C kw)) ->
    (forall w T' c, In (w, T', c) Gn -> exists kw rq, In (w, T', c, kw, rq) (Vn ++ V)) ->
    (forall T' c, live sL = Some (T', c) -> (exists kw rq, In (i, T', c, kw, rq) (Vn ++ V)) \/ (exists c' tl', In (T', c', tl') LL)) ->
    exists Cn LLn An, zinv cfg Ps g' (Cn ++ C) (LLn ++ LL) (An ++ A) (Vn ++ V).
  Proof.
    intros HI Hf Hr Hzk Hrole Hvt Hdts HT1 Hfresh Hnodes Hg' Hmsgs Hans Hld Hgr Hleads Hlv Hva Hvn Hgv Hlive. pose proof Hzk as (Hvk & Hk & Hst & Hfl0).
    destruct (find_node_in _ _ _ Hf) as [Hin Hid].
    pose proof (zv_l cfg Ps g C LL A V HI) as Hl. pose proof (zv_ci cfg Ps g C LL A V HI) as Hci. pose proof (ci_ok C LL Hci) as HC.
    destruct (znode_log_in cfg Ps g C LL A V HI n s Hin Hr) as [Hnl Hw].
    pose proof (zv_node cfg Ps g C LL A V HI n Hin) as (N1 & N2 & N3). rewrite Hr in N3.
    set (T := v_term sL) in *. set (P := gn_P n) in *.
    set (e := new_entry sL LogNoop 0). set (ck := last_entry sL). set (s2 := become_leader P sL).
    set (n' := mkGN P (Up s2) None next') in *.
    (* the server before the no-op *)
    assert (HnL : zup C sL) by (eapply zup_keep; eauto).
    assert (HcL : znode_up cfg Ps sL) by (eapply znode_up_keep; eauto).
    destruct (last_entry_facts C sL HC HnL) as (Hle1 & Hle2 & Hle3).
    destruct (dispatch_one_sf P sL [] LogNoop 0 0) as [Dst Dfl]. fold (become_leader P sL) in Dst, Dfl. fold s2 in Dst, Dfl.
    (* the no-op *)
    pose proof (dispatch_one P sL [] LogNoop 0 0) as Hd. cbv zeta in Hd. fold (become_leader P sL) in Hd. fold s2 in Hd. fold e in Hd.
    destruct Hd as (Dd & Dv & Dsn & Dsi & [(Hff & _)|(_ & Dl & Dci & Dct & Dr)]); [simpl in Hff; discriminate|].
    pose proof (dispatch_one_full P sL (cm_new [] 0) [] [] LogNoop 0 0) as Hdf.
    destruct (dispatch P (mkLS sL (cm_new [] 0) []) [] [(LogNoop, 0, 0)]) as [[[lsx resx] trx] fsx].
    cbv zeta in Hdf. destruct Hdf as (En & Kc & Ka & Kl & Kcm & _).
    change (l_node (fst (fst (fst (dispatch P (leader_setup sL) [] [(LogNoop, 0, 0)]))))) with s2 in En.
    rewrite <- En in Kc, Ka, Kl, Kcm.
    assert (Dt : d_term s2 = d_term sL) by (unfold dproj in Dd; inversion Dd; reflexivity).
    assert (He1 : e_idx e = last_index sL + 1) by reflexivity.
    assert (He2 : e_term e = T) by reflexivity.
    (* the Log Matching invariant with the explicit history *)
    assert (Hdtn : d_term s <= d_term sL) by exact Hdts.
    destruct (become_leader_zlinv_ok [cfg] HQ (cg_l g) C (gof g') i n s sL next' Hl Hg' Hf Hr Hnodes Hld Hk Hst Hdtn Hvt Hrole) as (Hl' & Hnone & Hnol).
    { intros T' H1 H2 E. pose proof (Hfresh T' H1 H2). fold T in E. lia. }
    assert (Hl'' : zlinv [cfg] (cg_l g') ((e, ck) :: C)).
    { assert (Eg : cg_l g' = mkLG (gof g') (lg_msgs (cg_l g))).
      { unfold gof. rewrite <- Hmsgs. destruct (cg_l g') as [gg mm]. reflexivity. }
      rewrite Eg. exact Hl'. }
    pose proof (zl_chain [cfg] _ _ Hl'') as HC'.
    (* the chain invariant *)
    assert (Hckc : ck = (0, 0) \/ created C ck) by (unfold ck; rewrite last_entry_lk; apply (zshape_lk_root C _ _ _ _ _ HnL)).
    assert (Hnoll : forall c tl, ~ In (T, c, tl) LL).
    { intros c tl Hx. apply (Hnol T c); [|reflexivity]. apply (zv_ll cfg Ps g C LL A V HI). eauto. }
    assert (Hckt : snd ck < T).
    { destruct (N.eq_dec (snd ck) T) as [E|Hne]; [|unfold ck in *; fold T in Hvt; lia].
      exfalso. destruct Hckc as [E0|(x & p & Hx & Ex)].
      - rewrite E0 in E. simpl in E. lia.
      - apply (Hnone x p Hx). rewrite <- Ex in E. exact E. }
    assert (Hci' : chain_inv ((e, ck) :: C) ((T, i, ck) :: LL)).
    { apply chain_inv_become; auto.
      intros x p Hx Hno. destruct (zl_src [cfg] _ C Hl x p Hx) as [(id & Hlx)|Hdead].
      - exfalso. destruct (proj1 (zv_ll cfg Ps g C LL A V HI _ _) Hlx) as [tl Htl]. apply (Hno _ _ Htl).
      - destruct (Hdead n Hin) as [D1 D2]. apply (Hfresh _ D1 D2). }
    assert (Hnl2 : zup ((e, ck) :: C) s2).
    { assert (Hin' : In n' (g_nodes (lg_g (cg_l g')))) by (change (In n' (cnodes g')); rewrite Hnodes; apply in_upd_node with (n := n); assumption).
      destruct (zl_nodes [cfg] _ _ Hl'' n' Hin') as [H _]. exact H. }
    assert (Hidx2 : v_lastLogIdx s2 = e_idx e) by (rewrite Dci; reflexivity).
    assert (Hli2 : last_index s2 = e_idx e) by (unfold last_index at 1; rewrite Dci, Dsi; unfold last_index; cbn [e e_idx new_entry]; unfold last_index; lia).
    assert (Hcn2 : znode_up cfg Ps s2).
    { pose proof (zn_sa cfg Ps sL HcL). pose proof (zn_ac cfg Ps sL HcL). pose proof (zn_fa cfg Ps sL HcL). pose proof (zn_fs cfg Ps sL HcL).
      constructor; rewrite ?Dl, ?Dsn, ?Kl, ?Kcm, ?Dsi, ?Ka, ?Kc, ?Dfl; try assumption.
      - intros j x Hx. rewrite log_store_one in Hx. destruct (e_idx e =? j); [inversion Hx; subst x; intros Hc; discriminate|apply (zn_dec cfg Ps sL HcL j x Hx)].
      - apply (zn_scfg cfg Ps sL HcL).
      - apply (zn_lat cfg Ps sL HcL).
      - apply (zn_com cfg Ps sL HcL). }
    assert (Hee : d_log s2 !! e_idx e = Some e) by (rewrite Dl, log_store_one, N.eqb_refl; reflexivity).
    exists [(e, ck)], [(T, i, ck)], [(i, key e)].
    apply (zinv_update cfg Ps HVn g g' C [(e, ck)] LL [(T, i, ck)] A [(i, key e)] V Vn i n n' HI Hf Hid Hnodes) with (mn := []) (an := []) (Gn := Gn).
    - unfold dtn. rewrite Hr. cbn [n' gn_run image]. lia.
    - exact Hl''.
    - exact Hci'.
    - (* the votes just cast against what the voter accepted *)
      intros w T' c kw rq k k0 Hv Ha Hlt Hanc Hpos. destruct (Hvn _ _ _ _ _ Hv) as (-> & -> & -> & _ & Hkc).
      destruct Ha as [Ek|Ha]; [inversion Ek; subst k; unfold key in Hlt; cbn [snd] in Hlt; rewrite He2 in Hlt; lia|].
      destruct (vi_ac cfg C LL A V (zv_vi cfg Ps g C LL A V HI) _ _ Ha) as [Hkc' _].
      pose proof (anc_back C LL _ k0 k Hci HC' (fun x Hx => or_intror Hx) (or_introl Hkc') Hanc) as Hanc0.
      destruct (Hva _ _ _ _ _ k k0 Hv Ha Hlt Hanc0 Hpos) as [H|(T3 & c3 & tl3 & H1 & H2 & H3 & H4)].
      + left. apply anc_cons, H.
      + right. exists T3, c3, tl3. split; [right; exact H1|]. split; [exact H2|]. split; [exact H3|].
        intros Hx. apply H4. destruct (ci_tl C LL Hci _ _ _ H1) as [_ Htc].
        apply (anc_back C LL _ k0 tl3 Hci HC' (fun x Hx' => or_intror Hx')); [destruct Htc; auto|exact Hx].
    - (* the new leader voted in no later term *)
      intros w T' c kw rq k k0 Hv [Ek|[]] Hlt. inversion Ek; subst w k. exfalso.
      destruct (zv_v1 cfg Ps g C LL A V HI _ _ _ _ _ Hv) as [(x & Hx & Hxi & Hxt) _].
      assert (x = n) by (apply (nodup_id_eq _ x n (znodes_nodup cfg Ps g C LL A V HI) Hx Hin); congruence). subst x.
      unfold dtn in Hxt. rewrite Hr in Hxt. simpl in Hxt. unfold key in Hlt. cbn [snd] in Hlt. rewrite He2 in Hlt. fold T in Hvt. lia.
    - (* the majority that elected it *)
      intros T' c tl' [El|[]]. inversion El; subst T' c tl'.
      destruct (gi_leaders [cfg] _ Hg' (T, i)) as (c0 & W & Hc0 & (W1 & W2 & W3) & W4); [rewrite Hld; left; reflexivity|].
      destruct Hc0 as [<-|[]]. simpl in W3, W4. exists W. split.
      + pose proof (quorum_size_majority cfg) as Hm. cbv zeta in Hm.
        split; [exact W1|]. split; [exact W2|]. unfold voters in *. rewrite map_length in *. lia.
      + intros w HwW. destruct (Hlv w (W3 w HwW)) as [kw Hkw]. exists kw. exact Hkw.
    - intros w T' c kw rq Hv. destruct (Hvn _ _ _ _ _ Hv) as (_ & _ & _ & Hu & [Hk0|Hkc]); (split; [exact Hu|]); [left; exact Hk0|right; apply created_cons, Hkc].
    - intros w k [Ek|[]]. inversion Ek; subst w k. split; [exists e, ck; split; [left; reflexivity|reflexivity]|].
      exists i, ck. left. unfold key. cbn [snd]. rewrite He2. reflexivity.
    - split; [exact N1|]. split; [exact N2|exact Hcn2].
    - intros s0 Hs0. cbn [n' gn_run] in Hs0. inversion Hs0; subst s0.
      destruct (zv_kc cfg Ps g C LL A V HI n s Hin Hr) as [K1 K2]. destruct Hvk as (V1 & V2 & _ & _ & _ & V6).
      assert (HkL : v_commit sL <= last_index sL /\ forall j x, d_log sL !! j = Some x -> j <= v_commit sL -> CK cfg C LL A (d_term sL) (key x)).
      { destruct Hk as (_ & _ & L3 & _ & L5). unfold last_index in *. rewrite V6, V2, V1, L5. split; [exact K1|].
        intros j x Hx Hj. eapply (zCK_mono cfg); [|apply (K2 j x Hx Hj)]. exact Hdts. }
      assert (Hli3 : last_index sL <= last_index s2) by (rewrite Hli2, He1; lia).
      assert (Hdt3 : d_term sL <= d_term s2) by (rewrite Dt; lia).
      apply (zappend_kc cfg C LL A ([(e, ck)] ++ C) ([(T, i, ck)] ++ LL) ([(i, key e)] ++ A) sL s2 e
               (incl_appr _ (incl_refl C)) (incl_appr _ (incl_refl LL)) (incl_appr _ (incl_refl A)) HkL Dl He1 Hli3 Kc Hdt3).
    - (* its snapshots *)
      intros sn0 Hsn0. cbn [n' gn_run image] in Hsn0. rewrite Dsn in Hsn0. destruct Hk as (_ & L2 & _). rewrite L2 in Hsn0.
      unfold dtn. cbn [n' gn_run image]. rewrite Dt.
      pose proof (zv_sk cfg Ps g C LL A V HI n sn0 Hin) as H. unfold dtn in H. rewrite Hr in H.
      eapply CK_mono_g; [apply incl_appr, incl_refl|apply incl_appr, incl_refl|apply incl_appr, incl_refl|]. eapply (zCK_mono cfg); [exact Hdts|apply H, Hsn0].
    - (* the position of its FSM *)
      intros s0 Hs0. cbn [n' gn_run] in Hs0. inversion Hs0; subst s0. rewrite Dfl, Hfl0, Dt.
      destruct (zv_fsm cfg Ps g C LL A V HI n s Hin Hr) as [E|[F1 F2]]; [left; exact E|right].
      split; [eapply created_mono; [|exact F1]; apply incl_appr, incl_refl|].
      eapply CK_mono_g; [apply incl_appr, incl_refl|apply incl_appr, incl_refl|apply incl_appr, incl_refl|]. eapply (zCK_mono cfg); [exact Hdts|exact F2].
    - rewrite Hmsgs, app_nil_r. reflexivity.
    - intros m [].
    - rewrite Hans, app_nil_r. reflexivity.
    - intros x [].
    - intros w k [Ek|[]]. inversion Ek; subst w k. exists n'. split; [rewrite Hnodes; apply in_upd_node with (n := n); assumption|].
      split; [exact Hid|]. unfold dtn. cbn [n' gn_run image]. unfold key. cbn [snd]. rewrite He2. fold T in Hvt. lia.
    - (* what the new leader accepted before is still there *)
      intros k k0 Ha Hanc Hpos. rewrite <- Hid in Ha.
      destruct (zv_av cfg Ps g C LL A V HI (gn_id n) k n k0 Ha Hin eq_refl Hanc Hpos) as [H|(T2 & c2 & tl2 & H1 & H2 & H3 & H4)].
      + left. unfold covers in *. rewrite Hr in H. cbn [n' gn_run image] in *. rewrite Dl, Dsn. destruct Hvk as (V1 & _). destruct Hk as (_ & L2 & _). rewrite V1, L2.
        destruct H as [H|(sn0 & Hs0 & Ha0)]; [left|right; exists sn0; split; [exact Hs0|apply anc_cons, Ha0]].
        eapply holds_sub; [|exact H]. apply log_store_one_sub. rewrite <- V1. apply (zshape_cache C HC _ _ _ _ _ HnL). simpl. unfold last_index in He1. lia.
      + right. exists T2, c2, tl2. split; [right; exact H1|]. split; [exact H2|]. split.
        * unfold dtn in *. rewrite Hr in H3. cbn [n' gn_run image]. simpl in H3. lia.
        * intros Hx. apply H4. destruct (ci_tl C LL Hci _ _ _ H1) as [_ Htc].
          apply (anc_back C LL _ k0 tl2 Hci HC' (fun x Hx' => or_intror Hx')); [destruct Htc; auto|exact Hx].
    - intros w k x k0 [Ek|[]] Hx Hxi Hanc Hpos. inversion Ek; subst w k.
      assert (x = n').
      { rewrite Hnodes in Hx. destruct (in_upd_cases _ _ _ _ Hx) as [->|[_ Hne]]; [reflexivity|congruence]. }
      subst x. left. cbn [n' gn_run image]. apply (zup_covers _ s2 k0 HC' Hnl2); [|exact Hpos].
      assert (E2 : last_entry s2 = key e).
      { destruct (leader_last s2) as [E _]; [rewrite Dsi, Dci; unfold last_index; lia|]. rewrite E. unfold topk, key. rewrite Dci, Dct. reflexivity. }
      rewrite E2. exact Hanc.
    - intros w T' c kw rq Hv. destruct (Hvn _ _ _ _ _ Hv) as (-> & -> & -> & _).
      assert (Hx : exists x, In x (cnodes g') /\ gn_id x = i /\ T <= dtn x).
      { exists n'. split; [rewrite Hnodes; apply in_upd_node with (n := n); assumption|]. split; [exact Hid|].
        unfold dtn. cbn [n' gn_run image]. fold T in Hvt. lia. }
      split; exact Hx.
    - intros se' H. discriminate.
    - intros w T' c kw rq xc se Hv Hxc Hxci Hse. exfalso. destruct (Hvn _ _ _ _ _ Hv) as (_ & _ & -> & _).
      rewrite Hnodes in Hxc. destruct (in_upd_cases _ _ _ _ Hxc) as [->|[_ Hne]]; [discriminate|congruence].
    - exact Hgr.
    - intros w T' c Hg. left. destruct (Hgv w T' c Hg) as (kw & rq & H). eauto.
    - intros se H. discriminate.
    - intros T' c Hlv'. cbn [n' gn_run image] in Hlv'. unfold live in Hlv'. rewrite Dd in Hlv'.
      destruct (Hlive T' c Hlv') as [H|(c' & tl' & H)]; [left; exact H|right; exists c', tl'; right; exact H].
    - (* the recorded leaders *)
      intros T' c. rewrite Hld. split.
      + intros [E|H]; [inversion E; subst; exists ck; left; reflexivity|]. destruct (proj1 (zv_ll cfg Ps g C LL A V HI T' c) H) as [tl Htl]. exists tl. right. exact Htl.
      + intros (tl & [E|H]); [inversion E; subst; left; reflexivity|right]. apply (zv_ll cfg Ps g C LL A V HI). eauto.
    - intros i' Hne. rewrite Hleads. apply find_lead_set_other, Hne.
    - intros y p [Ey|[]]. inversion Ey; subst y p. rewrite He2, Hld. left. reflexivity.
    - (* the fresh leadership state *)
      intros s0 Hs0 Hl0. cbn [n' gn_run] in Hs0. inversion Hs0; subst s0.
      split; [|split; [rewrite Dsi, Dci; unfold last_index; lia|]].
      2:{ intros ldx Hx. rewrite Hleads in Hx. change (gn_id n') with (gn_id n) in Hx. rewrite Hid, find_lead_set_same in Hx. inversion Hx; subst ldx.
          intros x fid Hxi. unfold fresh_lead in Hxi. cbv zeta in Hxi. cbn [ld_infl] in Hxi. fold P in Hxi. fold s2 in Hxi. rewrite Hli2, Hee in Hxi.
          destruct Hxi as [Ex|[]]. inversion Ex; subst x fid. split; [rewrite Dv; reflexivity|exists ck; left; reflexivity]. }
      apply (lead_inv_freshS cfg HVn g' _ _ _ n' s2 e ck P).
      + change (gn_id n') with (gn_id n). rewrite Hid, Dv. left. reflexivity.
      + rewrite Hleads. change (gn_id n') with (gn_id n). rewrite Hid. apply find_lead_set_same.
      + reflexivity.
      + intros x p [Ex|Hx] Hxt; [inversion Ex; reflexivity|]. exfalso. rewrite Dv in Hxt. apply (Hnone x p Hx Hxt).
      + left. reflexivity.
      + unfold topk, key. rewrite Dci, Dct. reflexivity.
      + rewrite Dv. reflexivity.
      + unfold ck. rewrite Hle1. exact He1.
      + exact Hli2.
      + rewrite Kl. apply (zn_lat cfg Ps sL HcL).
      + rewrite Kc. destruct (zv_kc cfg Ps g C LL A V HI n s Hin Hr) as [K1 _]. destruct Hvk as (_ & V2 & _ & _ & _ & V6). destruct Hk as (_ & _ & _ & _ & L5).
        unfold last_index in *. rewrite He1. unfold last_index. lia.
      + change (gn_id n') with (gn_id n). rewrite Hid. left. reflexivity.
  Qed.
End Become.
