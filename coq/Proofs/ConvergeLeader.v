(* ConvergeLeader.v — what the leader sends for a nextIndex in 1..n (leader_ok). *)
From Coq Require Import List NArith Bool Lia.
From stdpp Require Import gmap.
From RaftModel Require Import Base Config Compaction Commitment Node NodeCodec Leader Replicate Converge.
From RaftProofs Require Import AppendProofs ReplicateProofs.
Open Scope N_scope.

Lemma get_range_ok m : keys_ok m -> forall cnt from, 1 <= from ->
  (forall i, from <= i < from + N.of_nat cnt -> exists e, m !! i = Some e) ->
  exists es, get_range m from cnt = Some es /\ length es = cnt /\ contig (from - 1) es /\
             (forall e, In e es -> m !! e_idx e = Some e /\ from <= e_idx e < from + N.of_nat cnt).
Proof.
  intros Hk. induction cnt as [|cnt IH]; intros from Hf Hall.
  - exists []. simpl. repeat split; auto; contradiction.
  - destruct (Hall from) as [e He]; [lia|]. simpl. rewrite He.
    destruct (IH (from + 1)) as (r & R1 & R2 & R3 & R4); [lia| |].
    { intros i Hi. apply Hall. lia. }
    rewrite R1. exists (e :: r). split; [reflexivity|]. split; [simpl; lia|].
    pose proof (Hk _ _ He) as Hidx. split.
    + simpl. split; [lia|]. replace (from - 1 + 1) with (from + 1 - 1) by lia. exact R3.
    + intros x [<-|Hx].
      * rewrite Hidx. split; [exact He|lia].
      * destruct (R4 x Hx) as [A B]. split; [exact A|lia].
Qed.

Lemma setup_send_ok PL sL n next : leader_ok PL sL n -> 1 <= next <= n ->
  exists pt es, setup_send PL sL next n = SendAE (next - 1) pt es (v_commit sL) /\ es <> [] /\
    contig (next - 1) es /\
    (1 < next -> exists pe, d_log sL !! (next - 1) = Some pe /\ e_term pe = pt) /\
    (forall e, In e es -> d_log sL !! e_idx e = Some e /\ next <= e_idx e <= n /\
                          (prepare_kind (e_ty e) =? 3) = false) /\
    next <= last_idx_of es <= n.
Proof.
  intros (Hk & Hall & Hsnap & Hmax) Hn. unfold setup_send.
  assert (Hp : exists pt, prev_of sL next = Some (next - 1, pt) /\
               (1 < next -> exists pe, d_log sL !! (next - 1) = Some pe /\ e_term pe = pt)).
  { unfold prev_of. destruct (N.eqb_spec next 1) as [->|Hne].
    - exists 0. split; [reflexivity|lia].
    - rewrite Hsnap. destruct (N.eqb_spec (next - 1) 0); [lia|].
      destruct (Hall (next - 1)) as (pe & Hpe & _); [lia|]. rewrite Hpe.
      exists (e_term pe). rewrite (Hk _ _ Hpe). split; [reflexivity|]. intros _. exists pe. auto. }
  destruct Hp as (pt & Hp1 & Hp2). rewrite Hp1.
  set (maxIdx := N.min (next + p_maxappend PL - 1) n).
  assert (Hmi : next <= maxIdx <= n) by (unfold maxIdx; lia).
  destruct (get_range_ok (d_log sL) Hk (N.to_nat (maxIdx + 1 - next)) next) as (es & E1 & E2 & E3 & E4); [lia| |].
  { intros i Hi. destruct (Hall i) as (e & He & _); [lia|]. exists e. exact He. }
  rewrite E1. exists pt, es.
  assert (Hne : es <> []). { intros ->. simpl in E2. lia. }
  split; [reflexivity|]. split; [exact Hne|]. split; [exact E3|]. split; [exact Hp2|]. split.
  - intros e He. destruct (E4 e He) as [A B]. split; [exact A|]. split; [lia|].
    destruct (Hall (e_idx e)) as (e' & He' & Hk'); [lia|]. rewrite A in He'. inversion He'; subst. exact Hk'.
  - destruct (get_range_last _ Hk _ _ _ E1 Hne) as [A _]. rewrite A, E2. lia.
Qed.
