(* ClusterFsmSpec.v — C02 "every FSM sees the same committed history ... a snapshot restore leaves the FSM
   in exactly the state produced by the agreed entries up to the snapshot's index", stated over ALL RUNS
   of the cluster with commitment, takeSnapshot, compaction, crashes and restarts (Model/ClusterCommit.v,
   crun true) about the CONTENT of the FSMs (v_fsm: the payloads the user FSM was given, in order) and of
   the snapshots (sn_data).  Statement only; the proof is in Proofs/ClusterFsmMain.v.

   fsm_agrees g: there is ONE history H (index -> entry) such that
     - whatever a running server knows committed and still holds is H's entry at that index;
     - the FSM of every running server holds exactly the payloads of the LogCommand entries of H at the
       indexes 1 .. lastApplied, in index order - nothing else, nothing twice, nothing skipped (whether it
       got there by applying entries or by restoring a snapshot at start-up);
     - every snapshot stored anywhere (running or crashed server) holds exactly the payloads of the
       LogCommand entries of H at 1 .. its index. *)
From Coq Require Import List NArith Bool Lia.
From stdpp Require Import gmap.
From RaftModel Require Import Base Config Compaction Commitment Node NodeCodec Candidate Leader Replicate Cluster ClusterLog ClusterCommit.
From RaftProofs Require Import ClusterCommitSpec ClusterCommitSnapSpec.
Open Scope N_scope.

Fixpoint fsm_of (H : N -> option entry) (n : nat) : list N :=
  match n with
  | O => []
  | S k => fsm_of H k ++
           match H (N.of_nat (S k)) with
           | Some e => if e_ty e =? LogCommand then [e_data e] else []
           | None => []
           end
  end.

Definition fsm_agrees (g : cgstate) : Prop :=
  exists H : N -> option entry,
    (forall n s i e, In n (cnodes g) -> gn_run n = Up s -> i <= v_commit s -> d_log s !! i = Some e -> H i = Some e) /\
    (forall n s, In n (cnodes g) -> gn_run n = Up s -> v_fsm s = fsm_of H (N.to_nat (v_applied s))) /\
    (forall n sn, In n (cnodes g) -> In sn (snaps_of n) -> sn_data sn = fsm_of H (N.to_nat (sn_idx sn))).

(* freshly booted servers: the user FSM is empty (NewRaft with no snapshot restores nothing) *)
Definition fsm_empty (g : cgstate) : Prop :=
  forall n s, In n (cnodes g) -> gn_run n = Up s -> v_fsm s = [].
