(* ClusterCommitSnapStepS.v — with snapshots: the election timer fires (GTimeout): runCandidate is entered;
   a single voter becomes leader at once. *)
From Coq Require Import List NArith Bool Lia.
From stdpp Require Import gmap.
From RaftModel Require Import Base Config Compaction Commitment Node NodeCodec Candidate Leader Replicate Cluster ClusterLog ClusterCommit.
From RaftProofs Require Import ConfigProofs CommitmentProofs VoteProofs ClusterProofs
  ClusterLogSpec ClusterLogChain ClusterLogNode ClusterLogVote ClusterLogLeader ClusterLogInv ClusterLogSteps ClusterLogElect
  ClusterCommitSpec ClusterCommitLog ClusterCommitChain ClusterCommitNode ClusterCommitNode3 ClusterCommitGhost
  ClusterCommitInv ClusterCommitUpd ClusterCommitStepA ClusterCommitStepC ClusterCommitStepE ClusterCommitStepG
  ClusterCommitStepJ ClusterCommitStepK ClusterCommitStepQ ClusterCommitStepS
  ClusterCommitSnapLog ClusterCommitSnapNode ClusterCommitSnapLinv ClusterCommitSnapLinv2 ClusterCommitSnapInv ClusterCommitSnapFinal
  ClusterCommitSnapUpd ClusterCommitSnapStepA ClusterCommitSnapStepD ClusterCommitSnapStepE ClusterCommitSnapStepK ClusterCommitSnapStepL
  ClusterCommitSnapStepQ ClusterCommitSnapStepR.
Open Scope N_scope.

Section StepS.
  Variable cfg : config.
  Variable Ps : list params.
  Hypothesis HVn : NoDup (voters cfg).
  Let HQ := quorums_intersect_one' cfg HVn.

  (* runCandidate is entered and the server stays a candidate *)
  Lemma zinv_enter_cand g g' C LL A V i n s s' se (vt : bool) :
    zinv cfg Ps g C LL A V -> find_node (cnodes g) i = Some n -> gn_run n = Up s -> v_role s <> Leader ->
    zkeep s' s -> d_term s' = v_term s + 1 -> v_term s' = v_term s + 1 -> v_role s' = Candidate ->
    se_req se = req_of (gn_P n) s' ->
    live s' = (if vt then Some (v_term s + 1, i) else None) ->
    cnodes g' = upd_node (cnodes g) i (mkGN (gn_P n) (Up s') (Some se) (gn_next n + 1)) ->
    ginv [cfg] (gof g') -> lg_msgs (cg_l g') = lg_msgs (cg_l g) -> cg_ans g' = cg_ans g -> cg_lead g' = cg_lead g ->
    g_leaders (gof g') = g_leaders (gof g) ->
    g_grants (gof g') = (if vt then [(i, v_term s + 1, i)] else []) ++ g_grants (gof g) ->
    exists Vn, zinv cfg Ps g' C LL A (Vn ++ V).
  Proof.
    intros HI Hf Hr Hnl Hzk Hdt' Hvt' Hrole' Hreq Hlive Hnodes Hg' Hmsgs Hans Hleads Hld Hgr. pose proof Hzk as (Hvk & Hk & Hsnt & Hfl0).
    destruct (find_node_in _ _ _ Hf) as [Hin Hid].
    pose proof (zv_l cfg Ps g C LL A V HI) as Hlinv. pose proof (zv_ci cfg Ps g C LL A V HI) as Hci. pose proof (ci_ok C LL Hci) as HC.
    destruct (znode_log_in cfg Ps g C LL A V HI n s Hin Hr) as [Hnlog [Hwd Hvt]].
    pose proof (zv_node cfg Ps g C LL A V HI n Hin) as Hcn. rewrite Hr in Hcn.
    set (T := v_term s + 1) in *. set (n' := mkGN (gn_P n) (Up s') (Some se) (gn_next n + 1)) in *.
    assert (Hnl' : zup C s') by (eapply zup_keep; [exact Hnlog|exact Hzk|lia]).
    assert (Htk : last_entry s' = last_entry s) by (apply zkeep_last_entry, Hzk).
    assert (Hl' : zlinv [cfg] (cg_l g') C).
    { assert (Eg : cg_l g' = mkLG (gof g') (lg_msgs (cg_l g))).
      { unfold gof. rewrite <- Hmsgs. destruct (cg_l g') as [gg mm]. reflexivity. }
      rewrite Eg. apply (plain_zlinv [cfg] HQ (cg_l g) C (gof g') i n s s' (Some se) (gn_next n + 1) Hlinv Hg' Hf Hr Hnodes Hld Hk Hsnt); [lia|rewrite Hrole'; discriminate|].
      intros se0 E. inversion E; subst se0. right. rewrite Hreq. destruct (req_of_fields (gn_P n) s') as [-> _]. lia. }
    destruct Hcn as (N1 & N2 & N3). pose proof (znode_up_keep cfg Ps s s' N3 Hzk) as N3'.
    exists (if vt then self_vote LL i T (last_entry s) else []).
    apply (zinv_quiet cfg Ps HVn g g' C LL A V (if vt then self_vote LL i T (last_entry s) else []) (if vt then [(i, T, i)] else []) i n n' HI Hf Hid Hnodes Hl').
    - rewrite Hr. split; [apply Hvk|]. split; [apply Hk|]. split; [simpl; lia|]. left. exists s. auto.
    - split; [exact N1|]. split; [exact N2|exact N3'].
    - exact Hmsgs.
    - exact Hans.
    - exact Hld.
    - exact Hgr.
    - intros j _. rewrite Hleads. reflexivity.
    - intros se' E. inversion E; subst se'. right. rewrite Hreq. destruct (req_of_fields (gn_P n) s') as [-> _].
      unfold dtn. rewrite Hr. simpl. lia.
    - intros se' E. inversion E; subst se'. exists s'. split; [reflexivity|]. left. rewrite Hreq. symmetry. apply req_of_last.
    - intros s0 E Hl0. cbn [n' gn_run] in E. inversion E; subst s0. rewrite Hrole' in Hl0. discriminate.
    - intros w T' c kw rq k k0 Hv Ha Hlt Hanc Hpos. destruct vt; [|contradiction].
      destruct (self_vote_in _ _ _ _ _ _ _ _ _ Hv) as (-> & -> & -> & -> & -> & Hno). rewrite <- Hid in Ha.
      apply (zcast_va cfg Ps g C LL A V n s T k k0 HI Hin Hr); auto. unfold T. lia.
    - intros w T' c kw rq Hv. destruct vt; [|contradiction].
      destruct (self_vote_in _ _ _ _ _ _ _ _ _ Hv) as (-> & -> & -> & -> & -> & Hno).
      split; [right; split; [reflexivity|lia]|]. rewrite last_entry_lk. apply (zshape_lk_root C _ _ _ _ _ Hnlog).
    - intros w T' c kw rq Hv. destruct vt; [|contradiction].
      destruct (self_vote_in _ _ _ _ _ _ _ _ _ Hv) as (-> & -> & -> & -> & -> & Hno).
      assert (Hx : exists x, In x (cnodes g') /\ gn_id x = i /\ T <= dtn x).
      { exists n'. split; [rewrite Hnodes; apply in_upd_node with (n := n); assumption|]. split; [exact Hid|]. unfold dtn. cbn [n' gn_run image]. lia. }
      split; exact Hx.
    - intros w T' c kw rq xc se0 Hv Hxc Hxci Hse0 Hst. destruct vt; [|contradiction].
      destruct (self_vote_in _ _ _ _ _ _ _ _ _ Hv) as (-> & -> & -> & -> & -> & Hno).
      assert (xc = n').
      { rewrite Hnodes in Hxc. destruct (in_upd_cases _ _ _ _ Hxc) as [->|[_ Hne]]; [reflexivity|congruence]. }
      subst xc. cbn [n' gn_sess] in Hse0. inversion Hse0; subst se0. rewrite Hreq, req_of_last. symmetry. exact Htk.
    - intros w T' c Hg. destruct vt; [|contradiction]. destruct Hg as [E|[]]. inversion E; subst w T' c. apply self_vote_or.
    - intros T' c Hlv. cbn [n' gn_run image] in Hlv. rewrite Hlive in Hlv. destruct vt; [|discriminate]. inversion Hlv; subst T' c. apply self_vote_or.
  Qed.

  Theorem zinv_timeout sn g C LL A V i g' : zinv cfg Ps g C LL A V ->
    cstep sn [cfg] g (CBase (LElect (GTimeout i))) = Some g' -> exists Cn LLn An Vn, zinv cfg Ps g' (Cn ++ C) (LLn ++ LL) (An ++ A) (Vn ++ V).
  Proof.
    intros HI Hstep. apply cstep_base_inv in Hstep. destruct Hstep as (_ & l' & Hl & ->).
    pose proof (zv_l cfg Ps g C LL A V HI) as Hlinv. pose proof (zv_ci cfg Ps g C LL A V HI) as Hci. pose proof (ci_ok C LL Hci) as HC.
    unfold lstep, ClusterLog.label_ok in Hl.
    destruct (gstep [cfg] (lg_g (cg_l g)) (GTimeout i)) as [g1|] eqn:Hg; [|discriminate].
    inversion Hl; subst l'. clear Hl.
    pose proof (gstep_inv [cfg] _ _ _ (zl_g [cfg] _ C Hlinv) Hg) as Hg1.
    unfold gstep in Hg. fold (cnodes g) in Hg.
    destruct (find_node (cnodes g) i) as [n|] eqn:Hf; [|discriminate].
    destruct (find_node_in _ _ _ Hf) as [Hin Hid].
    destruct (gn_run n) as [s|s] eqn:Hr; [|discriminate].
    destruct (existsb (config_eqb (v_latest s)) [cfg]); [|discriminate]. cbn [negb orb] in Hg.
    destruct (N.eqb_spec (v_role s) Leader) as [|Hnl]; [discriminate|].
    destruct (znode_log_in cfg Ps g C LL A V HI n s Hin Hr) as [Hnlog [Hwd Hvt]].
    pose proof (zv_node cfg Ps g C LL A V HI n Hin) as Hcn. rewrite Hr in Hcn. pose proof Hcn as (N1 & N2 & N3).
    set (s0 := match gn_sess n with Some _ => set_transfer s false | None => s end) in *.
    assert (K0 : zkeep s0 s /\ dproj s0 = dproj s /\ v_term s0 = v_term s).
    { unfold s0. destruct (gn_sess n); (split; [split; [repeat split|split; [repeat split|split; reflexivity]]|split; reflexivity]). }
    destruct K0 as (K0 & Kd0 & Kt0).
    pose proof (sess_enter_cases (gn_P n) s0) as Hc. cbv zeta in Hc.
    destruct (sess_enter (gn_P n) false s0) as [x tr]. simpl fst in Hc.
    set (T := v_term s + 1).
    assert (Kvoted : zkeep (voted (gn_P n) s0) s /\ d_term (voted (gn_P n) s0) = T /\ v_term (voted (gn_P n) s0) = T).
    { split; [eapply zkeep_trans; [|exact K0]; (split; [repeat split|split; [repeat split|split; reflexivity]])|].
      unfold T. rewrite <- Kt0. split; reflexivity. }
    assert (Kent : zkeep (entered (gn_P n) s0) s /\ d_term (entered (gn_P n) s0) = T /\ v_term (entered (gn_P n) s0) = T).
    { split; [eapply zkeep_trans; [|exact K0]; (split; [repeat split|split; [repeat split|split; reflexivity]])|].
      unfold T. rewrite <- Kt0. split; reflexivity. }
    assert (Hdt : dtn n = d_term s) by (unfold dtn; rewrite Hr; reflexivity).
    cbn [lg_g g_nodes base_leads base_hb base_ans].
    pose proof (znodes_nodup cfg Ps g C LL A V HI) as Hnd.
    destruct (self_is_voter (gn_P n) s0).
    - destruct (quorum_size (v_latest s0) <=? 1).
      + (* single voter: leader at once *)
        subst x. inversion Hg; subst g1. clear Hg.
        match goal with |- context [become_leader _ ?SL] => set (sL := SL) in * end.
        destruct Kvoted as (Kl & Kdt & Kvt).
        assert (KL : zkeep sL s) by (eapply zkeep_trans; [|exact Kl]; (split; [repeat split|split; [repeat split|split; reflexivity]])).
        assert (HnoT : forall c, ~ In (T, c) (g_leaders (lg_g (cg_l g)))).
        { intros c Hc. assert (c = i).
          { apply (leaders_fun [cfg] _ T c i HQ Hg1); cbn [g_leaders]; [right; exact Hc|left; unfold T; rewrite <- Kt0; reflexivity]. }
          subst c. destruct (zl_leaders [cfg] _ C Hlinv _ _ Hc n Hin Hid) as [Hle _]. unfold dt in Hle. rewrite Hr in Hle. simpl in Hle. unfold T in Hle. lia. }
        assert (Hno : ll_has LL T = false).
        { destruct (ll_has LL T) eqn:E; [|reflexivity]. exfalso. destruct (ll_has_true _ _ E) as (c & tl & Hx).
          apply (HnoT c). apply (zv_ll cfg Ps g C LL A V HI). eauto. }
        match goal with |- exists Cn LLn An Vn, zinv _ _ ?G _ _ _ _ => set (g' := G) end.
        destruct (zinv_become cfg Ps HVn g g' C LL A V [(i, T, i, last_entry s, last_entry s)] [(i, T, i)] i n s sL (gn_next n + 1) HI Hf Hr KL) as (C' & LL' & A' & Hc');
          try reflexivity; [| | | | | | | | | | |exists C', LL', A', [(i, T, i, last_entry s, last_entry s)]; exact Hc'].
        * change (d_term sL) with (v_term s0 + 1). lia.
        * change (v_term sL) with (v_term s0 + 1). lia.
        * intros T' H1 _. change (v_term sL) with (v_term s0 + 1). rewrite Hdt in H1. lia.
        * exact Hg1.
        * cbn [g' cg_l lg_g g_grants gof]. unfold T. rewrite <- Kt0. reflexivity.
        * intros j. cbn [g' cg_lead]. apply (refresh_one (cnodes g) i n (mkGN (gn_P n) (Up (become_leader (gn_P n) sL)) None (gn_next n + 1)) (become_leader (gn_P n) sL) (cg_lead g) Hnd Hf Hid eq_refl).
          -- apply become_leader_role. reflexivity.
          -- rewrite Hr. exact Hnl.
        * (* the votes that elected it *)
          assert (ET : v_term sL = T) by (change (v_term sL) with (v_term s0 + 1); unfold T; rewrite Kt0; reflexivity).
          assert (Ek : last_entry sL = last_entry s) by (apply zkeep_last_entry, KL).
          intros w Hw. rewrite ET in Hw |- *. rewrite Ek. cbn [g' cg_l lg_g g_grants gof] in Hw. destruct Hw as [E|Hw]; [inversion E; subst w; exists (last_entry s); left; reflexivity|].
          exfalso. destruct (zv_gv cfg Ps g C LL A V HI w T i Hw) as [(kw & rq & Hv)|(c' & tl' & Hx)].
          -- destruct (zv_v1 cfg Ps g C LL A V HI _ _ _ _ _ Hv) as [_ (xc & Hxc & Hxci & Hxct)].
             assert (xc = n) by (apply (nodup_id_eq _ xc n Hnd Hxc Hin); congruence). subst xc. rewrite Hdt in Hxct. unfold T in Hxct. lia.
          -- apply (ll_has_false LL T c' tl' Hno Hx).
        * intros w T' c kw rq k k0 [E|[]] Ha Hlt Hanc Hpos. inversion E; subst w T' c kw rq. rewrite <- Hid in Ha.
          apply (zcast_va cfg Ps g C LL A V n s T k k0 HI Hin Hr); auto. unfold T. lia.
        * intros w T' c kw rq [E|[]]. inversion E; subst w T' c kw rq. split; [reflexivity|].
          split; [change (v_term sL) with (v_term s0 + 1); unfold T; rewrite Kt0; reflexivity|]. split; [reflexivity|].
          split; [right; split; [reflexivity|lia]|]. rewrite last_entry_lk. apply (zshape_lk_root C _ _ _ _ _ Hnlog).
        * intros w T' c [E|[]]. inversion E; subst w T' c. exists (last_entry s), (last_entry s). left. reflexivity.
        * intros T' c Hlv. left. change (live sL) with (live (voted (gn_P n) s0)) in Hlv. rewrite live_voted in Hlv. inversion Hlv; subst T' c.
          change (p_self (gn_P n)) with (gn_id n). rewrite Hid, Kt0. exists (last_entry s), (last_entry s). left. reflexivity.
      + (* a candidate that voted for itself *)
        subst x. cbn [c_granted] in Hg. change (1 <=? 1) with true in Hg. cbn iota in Hg. inversion Hg; subst g1. clear Hg.
        destruct Kvoted as (Kl & Kdt & Kvt).
        match goal with |- context [mkGN _ _ (Some ?X) _] => set (se0 := X) end.
        match goal with |- exists Cn LLn An Vn, zinv _ _ ?G _ _ _ _ => set (g' := G) end.
        assert (X1 : v_role (voted (gn_P n) s0) = Candidate) by reflexivity.
        assert (X2 : se_req se0 = req_of (gn_P n) (voted (gn_P n) s0)) by reflexivity.
        destruct (zinv_enter_cand g g' C LL A V i n s (voted (gn_P n) s0) se0 true HI Hf Hr Hnl Kl Kdt Kvt X1 X2) as [V' HV'];
          [ | reflexivity | exact Hg1 | reflexivity | reflexivity | | reflexivity | | exists [], [], [], V'; exact HV'].
        * rewrite live_voted. change (p_self (gn_P n)) with (gn_id n). rewrite Hid, Kt0. reflexivity.
        * cbn [g' cg_lead]. eapply (refresh_quiet (cnodes g) i n _ (cg_lead g) Hnd Hf); [exact Hid|]. intros s' E. inversion E. discriminate.
        * cbn [g' cg_l lg_g g_grants gof app]. change (v_term (voted (gn_P n) s0)) with (v_term s0 + 1). rewrite Kt0. reflexivity.
    - (* not a voter *)
      subst x. cbn [c_granted] in Hg. change (1 <=? 0) with false in Hg. cbn iota in Hg. inversion Hg; subst g1. clear Hg.
      destruct Kent as (Kl & Kdt & Kvt).
      match goal with |- context [mkGN _ _ (Some ?X) _] => set (se0 := X) end.
      match goal with |- exists Cn LLn An Vn, zinv _ _ ?G _ _ _ _ => set (g' := G) end.
      assert (X1 : v_role (entered (gn_P n) s0) = Candidate) by reflexivity.
      assert (X2 : se_req se0 = req_of (gn_P n) (entered (gn_P n) s0)) by reflexivity.
      destruct (zinv_enter_cand g g' C LL A V i n s (entered (gn_P n) s0) se0 false HI Hf Hr Hnl Kl Kdt Kvt X1 X2) as [V' HV'];
        [ | reflexivity | exact Hg1 | reflexivity | reflexivity | | reflexivity | reflexivity | exists [], [], [], V'; exact HV'].
      * unfold live, live_d, dproj, entered. cbn [d_term d_vterm d_vcand set_vol_term set_durable_term set_state set_role set_leader].
        destruct (N.eqb_spec (d_vterm s0) (v_term s0 + 1)) as [E|]; [|reflexivity].
        exfalso. unfold dproj in Kd0. inversion Kd0 as [[E1 E2 E3]]. unfold wfd in Hwd. lia.
      * cbn [g' cg_lead]. eapply (refresh_quiet (cnodes g) i n _ (cg_lead g) Hnd Hf); [exact Hid|]. intros s' E. inversion E. discriminate.
  Qed.
End StepS.
