(* ConvergeCounter.v — the statement of catch_up_converges with the conclusion `follower_ok (v_term sL) sF'`
   is false even with log_matching_premise: the last clause of follower_ok (v_applied <= v_lastLogIdx)
   is not preserved when a conflict truncates the follower's log below its lastApplied.
   (Before the fix: commit of appendEntries' commit rule - commitIndex <= index of the last entry of
   the accepted request - a leader commit index above n against a follower log longer than n broke it
   too, even for a follower that had applied nothing: counterexample B below no longer does.) *)
From Coq Require Import List NArith Bool Lia.
From stdpp Require Import gmap.
From RaftModel Require Import Base Config Compaction Commitment Node NodeCodec Leader Replicate Converge.
Open Scope N_scope.

Definition cx_P1 := mkP 1 false false false 100 2 (fun _ => []).
Definition cx_P2 := mkP 2 false false false 100 2 (fun _ => []).
Definition cx_mkst (term : N) (es : list entry) : nstate :=
  let s := image_of term 0 0 es 0 [] in
  match recover cx_P1 s with RecOk s' _ => s' | _ => s end.

(* leader: terms 1 1 2 3 3, current term 3, n = 5 *)
Definition cx_L := [mkE 1 1 0 101; mkE 2 1 0 102; mkE 3 2 0 203; mkE 4 3 0 304; mkE 5 3 0 305].
(* follower: 7 entries of term 1 (agrees with the leader on 1..2: log matching holds) *)
Definition cx_F := [mkE 1 1 0 101; mkE 2 1 0 102; mkE 3 1 0 103; mkE 4 1 0 104; mkE 5 1 0 105; mkE 6 1 0 106; mkE 7 1 0 107].

(* Counterexample A: the follower has applied 1..7 *)
Definition cx_sF_A : nstate := set_applied (cx_mkst 3 cx_F) 7 [].
Definition cx_view (s : nstate) :=
  (v_term s, v_role s, v_lastLogIdx s, v_lastLogTerm s, v_lastSnapIdx s, v_applied s,
   map (fun e => (e_idx e, e_term e)) (sorted_log (d_log s))).
Eval vm_compute in cx_view cx_sF_A.
Definition cx_resA := cu_run (N.to_nat (5 + 5) + 1) cx_P1 cx_P2 (cx_mkst 3 cx_L) (mkRS 5 0 0) cx_sF_A 5.
Eval vm_compute in match cx_resA with
  | Some (rs, sF, k) => Some (r_next rs, r_match rs, k, cx_view sF, v_applied sF <=? v_lastLogIdx sF)
  | None => None end.

(* B (a counterexample before the fix: commit only): fresh follower (lastApplied = 0), the leader's commit index is 7 > n:
   the follower now ends with lastApplied = 5 = lastIndex *)
Definition cx_L_B := [mkE 1 1 0 101; mkE 2 1 0 102; mkE 3 1 0 103; mkE 4 3 0 304; mkE 5 3 0 305].
Definition cx_resB := cu_run (N.to_nat (2 + 5) + 1) cx_P1 cx_P2 (set_commit (cx_mkst 3 cx_L_B) 7) (mkRS 2 0 0) (cx_mkst 3 cx_F) 5.
Eval vm_compute in cx_view (cx_mkst 3 cx_F).
Eval vm_compute in match cx_resB with
  | Some (rs, sF, k) => Some (r_next rs, r_match rs, k, cx_view sF, v_applied sF <=? v_lastLogIdx sF)
  | None => None end.

(* ---------------------------------------------------------------- formal refutation (counterexample A) *)
From RaftProofs Require Import AppendProofs ReplicateProofs ConvergeFollower.

Definition cx_sL := set_commit (cx_mkst 3 cx_L_B) 7.
Definition cx_sF := cx_sF_A.

Lemma log_wf_empty : log_wf ∅ 0.
Proof.
  split; [intros; apply lookup_empty|]. split.
  - intros i e H. rewrite lookup_empty in H. discriminate.
  - intros i Hi. lia.
Qed.

Lemma cx_wf_L : log_wf (d_log cx_sL) 5.
Proof.
  assert (E : d_log cx_sL = log_store ∅ cx_L_B) by (vm_compute; reflexivity). rewrite E.
  apply (log_wf_store ∅ 0 cx_L_B log_wf_empty).
  - simpl. repeat split; reflexivity.
  - intros e He. simpl in He. unfold known. repeat (destruct He as [<-|He]; [vm_compute; reflexivity|]). contradiction.
Qed.

Lemma cx_wf_F : log_wf (d_log cx_sF) 7.
Proof.
  assert (E : d_log cx_sF = log_store ∅ cx_F) by (vm_compute; reflexivity). rewrite E.
  apply (log_wf_store ∅ 0 cx_F log_wf_empty).
  - simpl. repeat split; reflexivity.
  - intros e He. simpl in He. unfold known. repeat (destruct He as [<-|He]; [vm_compute; reflexivity|]). contradiction.
Qed.

Lemma cx_leader_ok : leader_ok cx_P1 cx_sL 5.
Proof.
  destruct cx_wf_L as (W1 & W2 & W3). split; [exact W2|]. split; [exact W3|].
  split; [vm_compute; reflexivity|]. vm_compute. discriminate.
Qed.

Lemma cx_follower_ok : follower_ok (v_term cx_sL) cx_sF.
Proof.
  apply follower_wf_ok; [|vm_compute; discriminate].
  split; [vm_compute; reflexivity|]. split; [vm_compute; reflexivity|]. split; [vm_compute; reflexivity|].
  split; [exact cx_wf_F|]. intros _. eexists. split; vm_compute; reflexivity.
Qed.

Lemma cx_log_matching : log_matching_premise cx_sL cx_sF.
Proof.
  intros i e e' Hi Hi' Ht j ej Hj Hej.
  assert (Hi5 : i <= 5).
  { destruct (N.le_gt_cases i 5) as [|Hgt]; [assumption|].
    rewrite (proj1 cx_wf_L _ Hgt) in Hi. discriminate. }
  assert (Hc : i = 1 \/ i = 2 \/ i = 3 \/ i = 4 \/ i = 5) by lia.
  destruct Hc as [->|[->|[->|[->| ->]]]]; vm_compute in Hi, Hi'; inversion Hi; inversion Hi'; subst e e';
    vm_compute in Ht; try discriminate.
  - assert (j = 1) by lia. subst j. vm_compute in Hej. inversion Hej; subst ej.
    eexists. split; vm_compute; reflexivity.
  - assert (Hc : j = 1 \/ j = 2) by lia. destruct Hc as [->| ->]; vm_compute in Hej; inversion Hej; subst ej;
      eexists; split; vm_compute; reflexivity.
  - assert (Hc : j = 1 \/ j = 2 \/ j = 3) by lia.
    destruct Hc as [->|[->| ->]]; vm_compute in Hej; inversion Hej; subst ej;
      eexists; split; vm_compute; reflexivity.
Qed.

(* the statement as asked for (with log_matching_premise) does not hold *)
Theorem catch_up_converges_as_stated_is_false :
  ~ (forall PL PF sL sF n next0,
      leader_ok PL sL n -> follower_ok (v_term sL) sF -> log_matching_premise sL sF -> 1 <= next0 <= n ->
      exists rs' sF' k,
        cu_run (N.to_nat (next0 + n) + 1) PL PF sL (mkRS next0 0 0) sF n = Some (rs', sF', k) /\
        r_next rs' = n + 1 /\ r_match rs' = n /\
        caught_up sL sF' n /\ follower_ok (v_term sL) sF' /\ (k <= N.to_nat (next0 + n))%nat).
Proof.
  intros H.
  destruct (H cx_P1 cx_P2 cx_sL cx_sF 5 2 cx_leader_ok cx_follower_ok cx_log_matching ltac:(lia))
    as (rs' & sF' & k & E & _ & _ & _ & Hok & _).
  assert (X : match cu_run (N.to_nat (2 + 5) + 1) cx_P1 cx_P2 cx_sL (mkRS 2 0 0) cx_sF 5 with
              | Some (_, s, _) => (v_applied s <=? v_lastLogIdx s) = false
              | None => False end) by (vm_compute; reflexivity).
  rewrite E in X. apply N.leb_gt in X.
  destruct Hok as (_ & _ & _ & _ & _ & _ & _ & Hap). lia.
Qed.
Print Assumptions catch_up_converges_as_stated_is_false.
