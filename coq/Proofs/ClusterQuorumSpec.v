(* ClusterQuorumSpec.v — C05 stated over ALL RUNS of the cluster with commitment (Model/ClusterCommit.v):
   statements only (definitions); the proofs are in Proofs/ClusterQuorumMain.v.

   1. commit_backed: whatever a running server reports inside its commit index is, at that moment, held
      identically in the DURABLE log store of every member of some strict majority of the voters (running
      or crashed servers alike: `image`), each voter counted once (majority = NoDup subset of the voters
      of more than half their number: Proofs/ConfigProofs.v), nobody else counted.
      With takeSnapshot/compaction: held there, or at or below the newest snapshot that member stores.
   2. own_term_rule: the commit index of a Leader reaches the range of its own leadership (the index of
      its no-op, ld_next0, and above) only when an entry of ITS OWN TERM - its no-op - is in the durable
      log store of a strict majority of the voters; until then its commit index is what it had learned
      as a follower (below ld_next0).
   3. commit_monotone_step: one step of the system never lowers the commit index of a server that runs
      before and after it, except the step that restarts that very server (NewRaft starts at 0). *)
From Coq Require Import List NArith Bool Lia.
From stdpp Require Import gmap.
From RaftModel Require Import Base Config Compaction Commitment Node NodeCodec Candidate Leader Replicate Cluster ClusterLog ClusterCommit.
From RaftProofs Require Import ConfigProofs ClusterCommitSpec ClusterCommitSnapSpec.
Open Scope N_scope.

(* the durable log store of the server with id w *)
Definition stores (g : cgstate) (w : N) (i : N) (e : entry) : Prop :=
  exists n, In n (cnodes g) /\ gn_id n = w /\ d_log (image (gn_run n)) !! i = Some e.

(* ... or the index is covered by a snapshot that server stores *)
Definition stores_or_snap (g : cgstate) (w : N) (i : N) (e : entry) : Prop :=
  exists n, In n (cnodes g) /\ gn_id n = w /\
    (d_log (image (gn_run n)) !! i = Some e \/ exists sn, In sn (snaps_of n) /\ i <= sn_idx sn).

Definition commit_backed (cfg : config) (g : cgstate) : Prop :=
  forall a sa, In a (cnodes g) -> gn_run a = Up sa ->
  forall i e, i <= v_commit sa -> d_log sa !! i = Some e ->
  exists W, majority (voters cfg) W /\ forall w, In w W -> stores g w i e.

Definition commit_backed_snap (cfg : config) (g : cgstate) : Prop :=
  forall a sa, In a (cnodes g) -> gn_run a = Up sa ->
  forall i e, i <= v_commit sa -> d_log sa !! i = Some e ->
  exists W, majority (voters cfg) W /\ forall w, In w W -> stores_or_snap g w i e.

Definition own_term_rule (cfg : config) (g : cgstate) : Prop :=
  forall l sl ld, In l (cnodes g) -> gn_run l = Up sl -> v_role sl = Leader ->
  find_lead (cg_lead g) (gn_id l) = Some ld ->
  v_commit sl < ld_next0 ld \/
  exists W, majority (voters cfg) W /\
    forall w, In w W -> exists e, e_term e = v_term sl /\ stores g w (ld_next0 ld) e.

Definition own_term_rule_snap (cfg : config) (g : cgstate) : Prop :=
  forall l sl ld, In l (cnodes g) -> gn_run l = Up sl -> v_role sl = Leader ->
  find_lead (cg_lead g) (gn_id l) = Some ld ->
  v_commit sl < ld_next0 ld \/
  exists W, majority (voters cfg) W /\
    forall w, In w W -> exists e, e_term e = v_term sl /\ stores_or_snap g w (ld_next0 ld) e.

Definition is_restart_of (l : clabel) (w : N) : Prop :=
  exists c fs, l = CBase (LElect (GInput w NRestart c fs)).

Definition commit_monotone_step (g : cgstate) (l : clabel) (g' : cgstate) : Prop :=
  forall n n' s s', In n (cnodes g) -> In n' (cnodes g') -> gn_id n = gn_id n' ->
    gn_run n = Up s -> gn_run n' = Up s' ->
    v_commit s <= v_commit s' \/ is_restart_of l (gn_id n).
