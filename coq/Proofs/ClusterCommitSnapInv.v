(* ClusterCommitSnapInv.v — the invariant of Model/ClusterCommit.v WITH takeSnapshot and compaction
   (crun true).  Ghost state as in Proofs/ClusterCommitGhost.v.  Against Proofs/ClusterCommitInv.v:
   the per-server Log Matching part allows snapshots (zlinv), commitIndex <= last index (which may be
   the snapshot index), every stored snapshot and the (index, term) the FSM goroutine reports are
   committed keys, a leader's last log index is not below its snapshot index and its in-flight
   entries were created in its term, and "the acceptor still holds k0" becomes "the acceptor's log
   holds k0 or one of its snapshots covers k0". *)
From Coq Require Import List NArith Bool Lia.
From stdpp Require Import gmap.
From RaftModel Require Import Base Config Compaction Commitment Node NodeCodec Candidate Leader Replicate Cluster ClusterLog ClusterCommit.
From RaftProofs Require Import ConfigProofs VoteProofs ClusterProofs
  ClusterLogSpec ClusterLogChain ClusterLogNode ClusterLogVote ClusterLogInv ClusterLogSteps
  ClusterCommitSpec ClusterCommitChain ClusterCommitNode ClusterCommitGhost ClusterCommitInv
  ClusterCommitSnapLog ClusterCommitSnapNode ClusterCommitSnapLinv.
Open Scope N_scope.

(* the log of the image holds k0, or a snapshot of the image was taken at or above k0 on its branch *)
Definition covers (C : chain) (img : nstate) (k0 : N * N) : Prop :=
  holds (d_log img) k0 \/ exists sn, In sn (d_snaps img) /\ anc C k0 (sk sn).

Definition infl_ok (C : chain) (s : nstate) (ld : lead) : Prop :=
  forall e fid, In (e, fid) (ld_infl ld) -> e_term e = v_term s /\ exists p, In (e, p) C.

Section Inv.
  Variable cfg : config.
  Variable Ps : list params.

  Definition zlead_inv (g : cgstate) (C : chain) (LL : LLt) (A : At) (n : gnode) (s : nstate) : Prop :=
    lead_inv cfg g C LL A n s /\ v_lastSnapIdx s <= v_lastLogIdx s /\
    forall ld, find_lead (cg_lead g) (gn_id n) = Some ld -> infl_ok C s ld.

  Record zinv (g : cgstate) (C : chain) (LL : LLt) (A : At) (V : Vt) : Prop := {
    zv_l : zlinv [cfg] (cg_l g) C;
    zv_ci : chain_inv C LL;
    zv_vi : vote_inv cfg C LL A V;
    zv_ll : forall T c, In (T, c) (g_leaders (gof g)) <-> exists tl, In (T, c, tl) LL;
    zv_node : forall n, In n (cnodes g) -> znode cfg Ps (gn_P n) (gn_run n);
    (* what a running server knows to be committed *)
    zv_kc : forall n s, In n (cnodes g) -> gn_run n = Up s ->
              v_commit s <= last_index s /\
              forall i e, d_log s !! i = Some e -> i <= v_commit s -> CK cfg C LL A (d_term s) (key e);
    (* snapshots are taken at committed keys *)
    zv_sk : forall n sn, In n (cnodes g) -> In sn (d_snaps (image (gn_run n))) -> CK cfg C LL A (dtn n) (sk sn);
    zv_fsm : forall n s, In n (cnodes g) -> gn_run n = Up s ->
              fst (v_fsmLast s) = 0 \/ (created C (v_fsmLast s) /\ CK cfg C LL A (d_term s) (v_fsmLast s));
    zv_lead : forall n s, In n (cnodes g) -> gn_run n = Up s -> v_role s = Leader -> zlead_inv g C LL A n s;
    zv_msg : forall m, In m (lg_msgs (cg_l g)) -> msg_inv cfg Ps C LL A m;
    zv_ans : forall x, In x (cg_ans g) -> ans_inv g A x;
    (* acceptors *)
    zv_a1 : forall w k, In (w, k) A -> exists n, In n (cnodes g) /\ gn_id n = w /\ snd k <= dtn n;
    zv_av : forall w k n k0, In (w, k) A -> In n (cnodes g) -> gn_id n = w -> anc C k0 k -> 1 <= fst k0 ->
              covers C (image (gn_run n)) k0 \/
              exists T2 c2 tl2, In (T2, c2, tl2) LL /\ snd k < T2 /\ T2 <= dtn n /\ ~ anc C k0 tl2;
    (* votes *)
    zv_v1 : forall w T' c kw rq, In (w, T', c, kw, rq) V ->
              (exists n, In n (cnodes g) /\ gn_id n = w /\ T' <= dtn n) /\ (exists nc, In nc (cnodes g) /\ gn_id nc = c /\ T' <= dtn nc);
    zv_v2 : forall w T' c kw rq nc se, In (w, T', c, kw, rq) V -> In nc (cnodes g) -> gn_id nc = c ->
              gn_sess nc = Some se -> vq_term (se_req se) = T' -> rq = (vq_lastIdx (se_req se), vq_lastTerm (se_req se));
    zv_gv : forall w T' c, In (w, T', c) (g_grants (gof g)) ->
              (exists kw rq, In (w, T', c, kw, rq) V) \/ (exists c' tl', In (T', c', tl') LL);
    zv_live : forall n T' c, In n (cnodes g) -> live (image (gn_run n)) = Some (T', c) ->
              (exists kw rq, In (gn_id n, T', c, kw, rq) V) \/ (exists c' tl', In (T', c', tl') LL);
    zv_se1 : forall n se, In n (cnodes g) -> gn_sess n = Some se -> 1 <= vq_term (se_req se);
    zv_se : forall n se, In n (cnodes g) -> gn_sess n = Some se ->
              exists s, gn_run n = Up s /\
                (last_entry s = (vq_lastIdx (se_req se), vq_lastTerm (se_req se)) \/
                 exists c' tl', In (vq_term (se_req se), c', tl') LL);
  }.
End Inv.
