(* ClusterCommitFinal.v — the invariant of Proofs/ClusterCommitInv.v implies the three statements
   of Model/ClusterCommit.v. *)
From Coq Require Import List NArith Bool Lia.
From stdpp Require Import gmap.
From RaftModel Require Import Base Config Compaction Commitment Node NodeCodec Candidate Leader Replicate Cluster ClusterLog ClusterCommit.
From RaftProofs Require Import ConfigProofs VoteProofs ClusterProofs
  ClusterLogSpec ClusterLogChain ClusterLogNode ClusterLogVote ClusterLogInv ClusterLogSteps
  ClusterCommitSpec ClusterCommitChain ClusterCommitAE2 ClusterCommitNode ClusterCommitGhost ClusterCommitInv.
Open Scope N_scope.

Section Final.
  Variable cfg : config.
  Variable Ps : list params.
  Hypothesis HV : NoDup (voters cfg).

  Variable g : cgstate.
  Variable C : chain.
  Variable LL : LLt.
  Variable A : At.
  Variable V : Vt.
  Hypothesis HI : cinv cfg Ps g C LL A V.

  Lemma CK_mono b b' k : b <= b' -> CK cfg C LL A b k -> CK cfg C LL A b' k.
  Proof. intros Hb (T & q & H1 & H2). exists T, q. split; [lia|exact H2]. Qed.

  (* two keys known to be committed at one index are one key *)
  Lemma CK_same_idx b1 b2 k1 k2 : CK cfg C LL A b1 k1 -> CK cfg C LL A b2 k2 -> fst k1 = fst k2 -> k1 = k2.
  Proof.
    intros (T1 & q1 & _ & Q1 & H1 & L1) (T2 & q2 & _ & Q2 & H2 & L2) E.
    pose proof (cv_ci cfg Ps g C LL A V HI) as Hci. pose proof (cv_vi cfg Ps g C LL A V HI) as Hvi.
    destruct (N.lt_trichotomy T1 T2) as [Hlt|[->|Hlt]].
    - destruct H2 as (c2 & tl2 & Hl2 & H2).
      pose proof (lc_core cfg C LL A V HV Hci Hvi q1 T1 k1 Q1 H1 L1 T2 c2 tl2 Hl2 Hlt) as Ha.
      apply (tchain_same_idx C LL Hci T2); [exists c2, tl2; auto|exists c2, tl2; auto|exact E].
    - apply (tchain_same_idx C LL Hci T2); assumption.
    - destruct H1 as (c1 & tl1 & Hl1 & H1).
      pose proof (lc_core cfg C LL A V HV Hci Hvi q2 T2 k2 Q2 H2 L2 T1 c1 tl1 Hl1 Hlt) as Ha.
      apply (tchain_same_idx C LL Hci T1); [exists c1, tl1; auto|exists c1, tl1; auto|exact E].
  Qed.

  Lemma node_log_in n s : In n (cnodes g) -> gn_run n = Up s -> nlog_up C s /\ wfu s.
  Proof.
    intros Hin Hr. pose proof (cv_l cfg Ps g C LL A V HI) as Hl.
    destruct (li_nodes [cfg] (cg_l g) C Hl n Hin) as [Hn _]. rewrite Hr in Hn.
    pose proof (node_wfr [cfg] (cg_l g) C n Hl Hin) as Hw. rewrite Hr in Hw. auto.
  Qed.

  Theorem cinv_committed_agree : committed_agree g.
  Proof.
    intros a b sa sb Ha Hb Ra Rb i ea eb Hia Hib Hea Heb.
    destruct (cv_kc cfg Ps g C LL A V HI a sa Ha Ra) as [_ Ka]. destruct (cv_kc cfg Ps g C LL A V HI b sb Hb Rb) as [_ Kb].
    destruct (node_log_in a sa Ha Ra) as [(_ & Lia & _) _]. destruct (node_log_in b sb Hb Rb) as [(_ & Lib & _) _].
    destruct (Lia i ea Hea) as (Ia & (pa & Pa) & _). destruct (Lib i eb Heb) as (Ib & (pb & Pb) & _).
    assert (E : key ea = key eb).
    { apply (CK_same_idx _ _ _ _ (Ka i ea Hea Hia) (Kb i eb Heb Hib)). unfold key. simpl. congruence. }
    apply (co_fun C (ci_ok C LL (cv_ci cfg Ps g C LL A V HI)) ea pa eb pb Pa Pb E).
  Qed.

  Theorem cinv_applied_within_commit : applied_within_commit g.
  Proof.
    intros a sa Ha Ra. destruct (cv_kc cfg Ps g C LL A V HI a sa Ha Ra) as [Kc _].
    pose proof (cv_node cfg Ps g C LL A V HI a Ha) as (_ & _ & Hn). rewrite Ra in Hn.
    destruct Hn as (_ & _ & _ & _ & _ & Hac). split; [exact Hac|]. unfold last_index. lia.
  Qed.

  Theorem cinv_leader_complete : leader_complete g.
  Proof.
    intros a l sa sl Ha Hl Ra Rl Hrole Hterm i e Hi He.
    pose proof (cv_ci cfg Ps g C LL A V HI) as Hci. pose proof (ci_ok C LL Hci) as HC.
    destruct (cv_kc cfg Ps g C LL A V HI a sa Ha Ra) as [_ Ka].
    destruct (node_log_in a sa Ha Ra) as [(_ & Lia & _) [_ Hwa]].
    destruct (node_log_in l sl Hl Rl) as [(_ & Lil & _ & _ & Hz & Lbl) [_ Hwl]].
    destruct (cv_lead cfg Ps g C LL A V HI l sl Hl Rl Hrole) as (tl & ld & Hll & _ & Hall & Htt & _).
    pose proof (cv_node cfg Ps g C LL A V HI l Hl) as (_ & _ & Hn). rewrite Rl in Hn.
    destruct Hn as (Hlc & _ & Htop & _).
    destruct (ci_tl C LL Hci _ _ _ Hll) as [Htl1 _].
    (* the leader's last entry *)
    assert (Hpos : 0 < v_lastLogIdx sl).
    { destruct (N.eq_dec (v_lastLogIdx sl) 0) as [E|]; [|lia]. rewrite (Hz E) in Htt. lia. }
    destruct (proj2 Htop Hpos) as [xt Hxt].
    destruct (Lil _ xt Hxt) as (Ixt & (pt & Pt) & _).
    assert (Ekt : key xt = topk sl).
    { apply (anc_idx_eq C _ _ HC (Lbl _ xt Hxt)). unfold key, topk. simpl. exact Ixt. }
    assert (Ett : e_term xt = v_term sl) by (unfold key, topk in Ekt; inversion Ekt; congruence).
    assert (Htla : anc C tl (topk sl)).
    { rewrite <- Ekt. eapply anc_trans; [apply (ci_root C LL Hci _ _ _ xt pt Hll Pt Ett)|].
      eapply anc_up; [exact Pt|reflexivity|apply anc_refl]. }
    (* the committed key is below it *)
    destruct (Ka i e He Hi) as (T & q & HT & Q & Htc & Hq).
    assert (Hanc : anc C (key e) (topk sl)).
    { destruct (N.lt_trichotomy T (v_term sl)) as [Hlt|[->|Hgt]]; [| |lia].
      - eapply anc_trans; [|exact Htla].
        apply (lc_core cfg C LL A V HV Hci (cv_vi cfg Ps g C LL A V HI) q T (key e) Q Htc Hq (v_term sl) (gn_id l) tl Hll Hlt).
      - destruct Htc as (c' & tl' & Hl' & Hk). destruct (ci_uniq C LL Hci _ _ _ _ _ Hl' Hll) as [-> ->].
        destruct Hk as [[Hk1 _]|Hk]; [|eapply anc_trans; eauto].
        destruct (Lia i e He) as (_ & (p & Pe) & _). apply (Hall e p Pe Hk1). }
    (* so the leader holds it *)
    destruct (Lia i e He) as (Ie & (p & Pe) & _).
    assert (Hh : holds (d_log sl) (key e)).
    { apply (holds_anc C (d_log sl) (d_term sl) (topk sl) (topk sl) (key e) HC Lil Lbl Hlc); [|exact Hanc|].
      - exists xt. split; [exact Hxt|exact Ekt].
      - unfold key. simpl. rewrite Ie. apply (log_in_pos C _ _ i e HC Lia He). }
    destruct Hh as (y & Hy & Ey). unfold key in Hy at 1. simpl in Hy. rewrite Ie in Hy.
    destruct (Lil i y Hy) as (_ & (py & Py) & _).
    rewrite Hy. f_equal. apply (co_fun C HC y py e p Py Pe Ey).
  Qed.
End Final.
