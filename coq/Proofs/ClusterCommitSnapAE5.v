(* ClusterCommitSnapAE5.v — appendEntries never touches the snapshot store or the snapshot boundary;
   lastApplied and the (index, term) the FSM goroutine reports move only in the final processLogs,
   to an entry of the log between the old and the new lastApplied. *)
From Coq Require Import List NArith Bool Lia.
From stdpp Require Import gmap.
From RaftModel Require Import Base Config Compaction Node NodeCodec.
From RaftProofs Require Import VoteProofs AdvLeaderProofs AppendProofs RecoverProofs
  ClusterLogSpec ClusterLogChain ClusterLogNode ClusterLogCut ClusterLogVote ClusterLogAppend ClusterLogSnapBoot
  ClusterCommitAE ClusterCommitInv ClusterCommitSnapLog.
Open Scope N_scope.

Definition sf_inv (s2 st : nstate) : Prop :=
  d_snaps st = d_snaps s2 /\ v_lastSnapIdx st = v_lastSnapIdx s2 /\ v_lastSnapTerm st = v_lastSnapTerm s2 /\
  v_fsmLast st = v_fsmLast s2 /\ v_applied st = v_applied s2 /\ v_commit st = v_commit s2.

Lemma sf_inv_refl s : sf_inv s s.
Proof. repeat split. Qed.

Lemma sf_inv_trans a b c : sf_inv a b -> sf_inv b c -> sf_inv a c.
Proof. unfold sf_inv. intros H1 H2. decompose [and] H1. decompose [and] H2. repeat split; congruence. Qed.

Section SF.
  Variable P : params.

  Lemma fold_config_sf es : forall s, sf_inv s (fold_left (process_config_entry P) es s).
  Proof.
    induction es as [|e r IH]; intros s; simpl; [apply sf_inv_refl|].
    eapply sf_inv_trans; [|apply IH]. unfold process_config_entry. destruct (e_ty e =? LogConfiguration); repeat split.
  Qed.

  Lemma store_new_sf fr lc s2 s3 tr3 fs3 news : sf_inv s2 s3 ->
    forall st, cont_st (store_new P fr lc s3 tr3 fs3 news) = Some st -> sf_inv s2 st.
  Proof.
    intros H3 st. unfold store_new.
    assert (K : sf_inv s3 (fst (do_stage P s3 (N.min lc (e_idx (last_of news)))))).
    { unfold do_stage. destruct (p_track P); simpl; repeat split. }
    destruct (do_stage P s3 _) as [s4 trs]. simpl in K.
    unfold do_store. destruct (next_fail fs3) as [f fs5]. destruct f; cbn [negb cont_st].
    - intros E; inversion E; subst st. eapply sf_inv_trans; eauto.
    - intros E; inversion E; subst st.
      match goal with |- sf_inv s2 (set_lastlog (fold_left _ _ ?S6) _ _) => pose proof (fold_config_sf news S6) as F end.
      eapply sf_inv_trans; [exact H3|]. eapply sf_inv_trans; [exact K|].
      unfold sf_inv in *. decompose [and] F. cbn [d_snaps v_lastSnapIdx v_lastSnapTerm v_fsmLast v_applied v_commit set_lastlog].
      cbn in *. repeat split; assumption.
  Qed.

  Lemma ae_entries_sf fr s2 tr1 fs1 a : forall st, cont_st (ae_entries P fr s2 tr1 fs1 a) = Some st -> sf_inv s2 st.
  Proof.
    intros st. unfold ae_entries. destruct (aq_entries a) as [|e0 es0]; [intros E; inversion E; apply sf_inv_refl|].
    destruct (scan_entries (d_log s2) (v_lastLogIdx s2) (e0 :: es0)) as [news|c news| |];
      try (intros E; inversion E; apply sf_inv_refl).
    - apply store_new_sf, sf_inv_refl.
    - unfold do_delete. destruct (next_fail fs1) as [f fs3]. destruct f; cbn [negb].
      { intros E; inversion E; subst. apply sf_inv_refl. }
      destruct (conflict_pred a news) as [pi pt]. apply store_new_sf.
      destruct (c <=? v_latestIdx _); repeat split.
  Qed.

  Definition sf_done (s s' : nstate) : Prop :=
    d_snaps s' = d_snaps s /\ v_lastSnapIdx s' = v_lastSnapIdx s /\ v_lastSnapTerm s' = v_lastSnapTerm s /\
    ((v_applied s' = v_applied s /\ v_fsmLast s' = v_fsmLast s) \/
     (v_applied s < v_applied s' /\ v_applied s' = v_commit s' /\
      (v_fsmLast s' = v_fsmLast s \/
       exists e, d_log s' !! e_idx e = Some e /\ v_applied s < e_idx e <= v_applied s' /\ v_fsmLast s' = key e))).

  Lemma sf_inv_done s2 st : sf_inv s2 st -> sf_done s2 st.
  Proof. intros (A & B & D & E & F & _). split; [exact A|]. split; [exact B|]. split; [exact D|left; auto]. Qed.

  Lemma sf_done_pre s s2 s' : sf_inv s s2 -> sf_done s2 s' -> sf_done s s'.
  Proof.
    intros (A & B & D & E & F & _) (A' & B' & D' & H). split; [congruence|]. split; [congruence|]. split; [congruence|].
    rewrite <- E, <- F. exact H.
  Qed.

  Lemma ae_commit_sf okr s8 tr8 fs8 a s' r tr fs' : ae_commit okr s8 tr8 fs8 a = Done s' r tr fs' ->
    keys_ok (d_log s') -> sf_done s8 s'.
  Proof.
    intros H Hk. unfold ae_commit in H.
    destruct ((0 <? aq_commit a) && (v_commit s8 <? aq_commit a)); [|inversion H; subst; apply sf_inv_done, sf_inv_refl].
    cbv zeta in H. set (idx := N.min (aq_commit a) (N.min (last_new a) (last_index s8))) in *.
    destruct (v_commit s8 <? idx); [|inversion H; subst; apply sf_inv_done, sf_inv_refl].
    match type of H with context [process_logs ?S ?I] => destruct (process_logs S I) as [[s11 tra]|] eqn:EP end; [|discriminate].
    inversion H; subst s' r tr fs'. clear H.
    assert (Hl : d_log s11 = d_log (if v_latestIdx (set_commit s8 idx) <=? idx
                 then set_committed (set_commit s8 idx) (v_latest (set_commit s8 idx)) (v_latestIdx (set_commit s8 idx))
                 else set_commit s8 idx)) by (apply (process_logs_log _ _ _ _ EP)).
    apply process_logs_fsm in EP; [|rewrite <- Hl; exact Hk].
    destruct EP as ((P1 & P2 & _ & _ & _ & _ & P7 & P8 & P9 & _) & Hf).
    assert (K : forall X : nstate, X = (if v_latestIdx (set_commit s8 idx) <=? idx
                 then set_committed (set_commit s8 idx) (v_latest (set_commit s8 idx)) (v_latestIdx (set_commit s8 idx))
                 else set_commit s8 idx) ->
              d_snaps X = d_snaps s8 /\ v_lastSnapIdx X = v_lastSnapIdx s8 /\ v_lastSnapTerm X = v_lastSnapTerm s8 /\
              v_applied X = v_applied s8 /\ v_fsmLast X = v_fsmLast s8 /\ v_commit X = idx).
    { intros X ->. destruct (v_latestIdx _ <=? idx); cbn; auto 10. }
    destruct (K _ eq_refl) as (K1 & K2 & K3 & K4 & K5 & K6).
    split; [congruence|]. split; [congruence|]. split; [congruence|].
    rewrite K4, K5 in Hf. destruct Hf as [[F1 F2]|(F1 & F2 & F3)]; [left; auto|right].
    split; [lia|]. split; [congruence|]. destruct F3 as [F3|(e & E1 & E2 & E3)]; [left; exact F3|right].
    exists e. rewrite P1, F2. auto.
  Qed.
End SF.

Section SF2.
  Variable P : params.

  Lemma ae_body_sf s0 s2 rt tr1 fs1 a s' r tr fs' : ae_body P s0 s2 rt tr1 fs1 a = Done s' r tr fs' ->
    keys_ok (d_log s') -> sf_done s2 s'.
  Proof.
    unfold ae_body. destruct (prev_check s2 a) as [[|]|]; try (intros H _; inversion H; subst; apply sf_inv_done, sf_inv_refl).
    pose proof (ae_entries_sf P (mkAResp rt (last_index s0) false false false) s2 tr1 fs1 a) as Hinv.
    destruct (ae_entries P _ s2 tr1 fs1 a) as [[[[s8 tr8] fs8]|]|[[[resp st] tr'] fs'']]; cbn [cont_st] in Hinv.
    - intros H Hk. eapply sf_done_pre; [apply (Hinv s8 eq_refl)|eapply ae_commit_sf; eauto].
    - discriminate.
    - intros H _. inversion H; subst. apply sf_inv_done, (Hinv s' eq_refl).
  Qed.

  Theorem append_done_sf s fs a s' r tr fs' : append_entries P s fs a = Done s' r tr fs' ->
    keys_ok (d_log s') -> sf_done s s'.
  Proof.
    unfold append_entries. destruct (aq_term a <? v_term s); [intros H _; inversion H; subst; apply sf_inv_done, sf_inv_refl|].
    set (bump := (v_term s <? aq_term a) || (negb (v_role s =? Follower) && negb (v_transfer s))).
    destruct bump.
    - unfold do_set_term. destruct (next_fail fs) as [f fs1]. destruct f; [discriminate|].
      intros H Hk. eapply sf_done_pre; [|eapply ae_body_sf; eauto]. repeat split.
    - intros H Hk. eapply sf_done_pre; [|eapply ae_body_sf; eauto]. repeat split.
  Qed.
End SF2.
