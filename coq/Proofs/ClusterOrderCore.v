(* ClusterOrderCore.v — the argument behind Proofs/ClusterOrderSpec.v (acks_ordered), for ANY invariant
   Inv g C LL A V of Model/ClusterCommit.v that
     - is kept by every step while the ghost history only grows (I_step),
     - carries chain_inv / vote_inv (Leader Completeness: lc_core),
     - makes every acknowledged (T, e) a created entry whose key is known committed (I_ack),
     - bounds, at a Leader, the indexes of the entries created in its term by its last index (I_lead).
   Argument.  Let e be acknowledged before the cut, e' after it, key e' = (last index + 1, term) of the
   proposing leader at the cut.  Both keys are "known committed" in the ghost state at the end, so they
   lie on one branch (CK_linear_g).  Were e_idx e' <= e_idx e, key e' would be an ancestor of key e.
   But e was created BEFORE the cut, the history of created entries is closed under predecessors and
   only grows by fresh keys (anc_back), so key e' would have been created before the cut — in the
   leader's own term, above its last index: I_lead says no. *)
From Coq Require Import List NArith Bool Lia.
From stdpp Require Import gmap.
From RaftModel Require Import Base Config Compaction Commitment Node NodeCodec Candidate Leader Replicate Cluster ClusterLog ClusterCommit.
From RaftProofs Require Import ConfigProofs VoteProofs ClusterProofs ClusterLogSpec ClusterLogChain
  ClusterCommitSpec ClusterCommitLog ClusterCommitChain ClusterCommitGhost ClusterCommitInv ClusterCommitUpd
  ClusterCommitStepA ClusterCommitAcks ClusterOrderSpec.
Open Scope N_scope.

(* an ancestor of the root or of a created key is the root or a created key *)
Lemma anc_created C a k : chain_ok C -> (forall e p, In (e, p) C -> p = (0, 0) \/ created C p) ->
  anc C a k -> k = (0, 0) \/ created C k -> a = (0, 0) \/ created C a.
Proof.
  intros HC Hp H. induction H as [|e p k Hin Hk Hap IH]; intros Hkc; [exact Hkc|].
  apply IH. destruct (Hp e p Hin) as [->|Hc]; auto.
Qed.

(* a step that acknowledges something is a step the system takes *)
Lemma step_acks_some sn cfgs g l te : In te (step_acks g l) -> exists g', cstep sn cfgs g l = Some g'.
Proof.
  destruct l as [bl|k|i j|i]; simpl; try contradiction.
  destruct (find_node _ i) as [n|]; [|contradiction]. destruct (find_lead _ i) as [ld|]; [|contradiction].
  destruct (gn_run n) as [s|s]; [|contradiction].
  destruct ((v_role s =? Leader) && ld_notified ld); [|contradiction].
  destruct (leader_commit _) as [[[ls2 tr] res]|]; [|contradiction]. intros _. eauto.
Qed.

(* dispatchLogs is taken at a Leader *)
Lemma propose_leader sn cfgs g i ty data fs g' n s : cstep sn cfgs g (CBase (LPropose i ty data fs)) = Some g' ->
  NoDup (map gn_id (cnodes g)) -> In n (cnodes g) -> gn_id n = i -> gn_run n = Up s -> v_role s = Leader.
Proof.
  intros Hstep Hnd Hin Hid Hr. apply cstep_base_inv in Hstep. destruct Hstep as (_ & l' & Hl & _).
  pose proof (find_node_self _ n Hnd Hin) as Hf. rewrite Hid in Hf. unfold cnodes in Hf.
  unfold lstep in Hl. rewrite Hf, Hr in Hl. destruct (N.eqb_spec (v_role s) Leader) as [E|]; [exact E|discriminate].
Qed.

Section Core.
  Variable cfg : config.
  Hypothesis HVn : NoDup (voters cfg).
  Variable sn : bool.
  Variable Inv : cgstate -> chain -> LLt -> At -> Vt -> Prop.

  (* (T, e): e was created and is known to be committed by a server of term T *)
  Definition oack_ok (C : chain) (LL : LLt) (A : At) (te : N * entry) : Prop :=
    (exists p, In (snd te, p) C) /\ CK cfg C LL A (fst te) (key (snd te)).

  Hypothesis I_step : forall g l g' C LL A V, Inv g C LL A V -> label_ok l -> cstep sn [cfg] g l = Some g' ->
    exists Cn LLn An V', Inv g' (Cn ++ C) (LLn ++ LL) (An ++ A) V'.
  Hypothesis I_ci : forall g C LL A V, Inv g C LL A V -> chain_inv C LL.
  Hypothesis I_vi : forall g C LL A V, Inv g C LL A V -> vote_inv cfg C LL A V.
  Hypothesis I_ack : forall g l g' C LL A V te, Inv g C LL A V -> cstep sn [cfg] g l = Some g' ->
    In te (step_acks g l) -> oack_ok C LL A te.
  Hypothesis I_lead : forall g C LL A V n s, Inv g C LL A V -> In n (cnodes g) -> gn_run n = Up s -> v_role s = Leader ->
    forall x p, In (x, p) C -> e_term x = v_term s -> e_idx x <= last_index s.
  Hypothesis I_nodup : forall g C LL A V, Inv g C LL A V -> NoDup (map gn_id (cnodes g)).

  Lemma oack_ok_mono C LL A Cn LLn An te : oack_ok C LL A te -> oack_ok (Cn ++ C) (LLn ++ LL) (An ++ A) te.
  Proof.
    intros [(p & Hp) Hck]. split; [exists p; apply in_app_iff; right; exact Hp|].
    eapply CK_mono_g; [apply incl_appr, incl_refl|apply incl_appr, incl_refl|apply incl_appr, incl_refl|exact Hck].
  Qed.

  (* keys known to be committed lie on one branch *)
  Lemma CK_linear_g C LL A V b1 b2 k1 k2 : chain_inv C LL -> vote_inv cfg C LL A V ->
    CK cfg C LL A b1 k1 -> CK cfg C LL A b2 k2 -> fst k1 <= fst k2 -> anc C k1 k2.
  Proof.
    intros Hci Hvi (T1 & q1 & _ & Q1 & H1 & L1) (T2 & q2 & _ & Q2 & H2 & L2) E.
    destruct (N.lt_trichotomy T1 T2) as [Hlt|[->|Hlt]].
    - destruct H2 as (c2 & tl2 & Hl2 & H2).
      pose proof (lc_core cfg C LL A V HVn Hci Hvi q1 T1 k1 Q1 H1 L1 T2 c2 tl2 Hl2 Hlt) as Ha.
      apply (tchain_linear C LL Hci T2); [exists c2, tl2; auto|exists c2, tl2; auto|exact E].
    - apply (tchain_linear C LL Hci T2); assumption.
    - destruct H1 as (c1 & tl1 & Hl1 & H1).
      pose proof (lc_core cfg C LL A V HVn Hci Hvi q2 T2 k2 Q2 H2 L2 T1 c1 tl1 Hl1 Hlt) as Ha.
      apply (tchain_linear C LL Hci T1); [exists c1, tl1; auto|exists c1, tl1; auto|exact E].
  Qed.

  (* along a run: the invariant, with a ghost state that extends the one at the start; the acknowledgements so far *)
  Lemma run_ext ls : forall g g' C LL A V acks, Inv g C LL A V -> Forall (oack_ok C LL A) acks ->
    Forall label_ok ls -> crun sn [cfg] g ls = Some g' ->
    exists Cn LLn An V', Inv g' (Cn ++ C) (LLn ++ LL) (An ++ A) V' /\
      Forall (oack_ok (Cn ++ C) (LLn ++ LL) (An ++ A)) (acks ++ run_acks sn [cfg] g ls).
  Proof.
    induction ls as [|l r IH]; intros g g' C LL A V acks HI Hacks Hls Hrun; simpl in Hrun |- *.
    - inversion Hrun; subst. exists [], [], [], V. rewrite app_nil_r. split; [exact HI|exact Hacks].
    - destruct (cstep sn [cfg] g l) as [g1|] eqn:E; [|discriminate]. inversion Hls as [|? ? Hl Hr]; subst.
      destruct (I_step g l g1 C LL A V HI Hl E) as (Cn & LLn & An & V1 & HI1).
      assert (Hacks1 : Forall (oack_ok (Cn ++ C) (LLn ++ LL) (An ++ A)) (acks ++ step_acks g l)).
      { apply Forall_app. split.
        - eapply Forall_impl; [|exact Hacks]. intros te. apply oack_ok_mono.
        - apply Forall_forall. intros te Hin. apply oack_ok_mono. apply (I_ack g l g1 C LL A V te HI E Hin). }
      destruct (IH g1 g' _ _ _ V1 _ HI1 Hacks1 Hr Hrun) as (Cn2 & LLn2 & An2 & V2 & HI2 & Hacks2).
      exists (Cn2 ++ Cn), (LLn2 ++ LLn), (An2 ++ An), V2. rewrite <- !app_assoc. split; [exact HI2|].
      rewrite <- app_assoc in Hacks2. exact Hacks2.
  Qed.

  (* what a run acknowledges, whether or not the whole label list can be taken *)
  Lemma acks_ext ls : forall g C LL A V, Inv g C LL A V -> Forall label_ok ls ->
    forall te, In te (run_acks sn [cfg] g ls) ->
    exists g' Cn LLn An V', Inv g' (Cn ++ C) (LLn ++ LL) (An ++ A) V' /\ oack_ok (Cn ++ C) (LLn ++ LL) (An ++ A) te.
  Proof.
    induction ls as [|l r IH]; intros g C LL A V HI Hls te Hin; simpl in Hin; [contradiction|].
    inversion Hls as [|? ? Hl Hr]; subst. apply in_app_iff in Hin. destruct Hin as [Hin|Hin].
    - destruct (step_acks_some sn [cfg] g l te Hin) as [g1 E].
      destruct (I_step g l g1 C LL A V HI Hl E) as (Cn & LLn & An & V1 & HI1).
      exists g1, Cn, LLn, An, V1. split; [exact HI1|]. apply oack_ok_mono. apply (I_ack g l g1 C LL A V te HI E Hin).
    - destruct (cstep sn [cfg] g l) as [g1|] eqn:E; [|contradiction].
      destruct (I_step g l g1 C LL A V HI Hl E) as (Cn & LLn & An & V1 & HI1).
      destruct (IH g1 _ _ _ V1 HI1 Hr te Hin) as (g' & Cn2 & LLn2 & An2 & V2 & HI2 & Hok).
      exists g', (Cn2 ++ Cn), (LLn2 ++ LLn), (An2 ++ An), V2. rewrite <- !app_assoc. split; [exact HI2|exact Hok].
  Qed.

  Theorem order_core g0 C0 LL0 A0 V0 : Inv g0 C0 LL0 A0 V0 -> acks_ordered sn cfg g0.
  Proof.
    intros HI0 ls1 g1 i ty data fs g2 ls2 n s T e T' e' Hl1 Hl Hl2 Hrun1 Hstep Hn Hid Hr HinT HinT' Hidx Hterm.
    (* the cut *)
    destruct (run_ext ls1 g0 g1 C0 LL0 A0 V0 [] HI0 (Forall_nil _) Hl1 Hrun1) as (Cn1 & LLn1 & An1 & V1 & HI1 & Hacks1).
    simpl in Hacks1. rewrite Forall_forall in Hacks1. pose proof (Hacks1 _ HinT) as Hok1.
    set (C1 := Cn1 ++ C0) in *. set (LL1 := LLn1 ++ LL0) in *. set (A1 := An1 ++ A0) in *.
    pose proof (I_ci _ _ _ _ _ HI1) as Hci1.
    assert (Hrole : v_role s = Leader).
    { apply (propose_leader sn [cfg] g1 i ty data fs g2 n s Hstep (I_nodup _ _ _ _ _ HI1) Hn Hid Hr). }
    (* the proposal, and the rest of the run up to the acknowledgement of e' *)
    destruct (I_step g1 _ g2 C1 LL1 A1 V1 HI1 Hl Hstep) as (Cn2 & LLn2 & An2 & V2 & HI2).
    destruct (acks_ext ls2 g2 _ _ _ V2 HI2 Hl2 (T', e') HinT') as (g3 & Cn3 & LLn3 & An3 & V3 & HI3 & Hok3).
    pose proof (oack_ok_mono _ _ _ Cn3 LLn3 An3 _ (oack_ok_mono _ _ _ Cn2 LLn2 An2 _ Hok1)) as Hok13.
    set (C3 := Cn3 ++ Cn2 ++ C1) in *. set (LL3 := LLn3 ++ LLn2 ++ LL1) in *. set (A3 := An3 ++ An2 ++ A1) in *.
    pose proof (I_ci _ _ _ _ _ HI3) as Hci3. pose proof (I_vi _ _ _ _ _ HI3) as Hvi3.
    destruct Hok1 as [(p & Pe) _]. destruct Hok13 as [_ Hck]. destruct Hok3 as [_ Hck']. cbn [fst snd] in *.
    destruct (N.lt_ge_cases (e_idx e) (e_idx e')) as [Hlt|Hge]; [exact Hlt|exfalso].
    (* key e' is below key e on the branch of the committed keys *)
    assert (Ha3 : anc C3 (key e') (key e)).
    { apply (CK_linear_g C3 LL3 A3 V3 T' T (key e') (key e) Hci3 Hvi3 Hck' Hck). unfold key. simpl. exact Hge. }
    assert (Hinc : incl C1 C3) by (unfold C3; apply incl_appr, incl_appr, incl_refl).
    assert (Hcre : created C1 (key e)) by (exists e, p; auto).
    pose proof (anc_back C1 LL1 C3 (key e') (key e) Hci1 (ci_ok C3 LL3 Hci3) Hinc (or_introl Hcre) Ha3) as Ha1.
    (* so it was created before the cut *)
    destruct (anc_created C1 (key e') (key e) (ci_ok C1 LL1 Hci1) (ci_pred C1 LL1 Hci1) Ha1 (or_intror Hcre)) as [E0|(x & px & Px & Ex)].
    - unfold key in E0. inversion E0. lia.
    - unfold key in Ex. inversion Ex as [[Ei Et]].
      pose proof (I_lead g1 C1 LL1 A1 V1 n s HI1 Hn Hr Hrole x px Px) as Hb. rewrite Et, Hterm in Hb. specialize (Hb eq_refl). lia.
  Qed.
End Core.
