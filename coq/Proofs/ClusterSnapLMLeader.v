(* ClusterSnapLMLeader.v — the leader side at one server for the system with snapshot transfer: an entry appended
   after getLastEntry, volatile changes, and the requests setupAppendEntries builds (chains only above the bound). *)
From Coq Require Import List NArith Bool Lia.
From stdpp Require Import gmap.
From RaftModel Require Import Base Config Compaction Commitment Node NodeCodec Leader Replicate.
From RaftProofs Require Import VoteProofs AppendProofs ClusterLogSpec ClusterLogChain ClusterLogNode ClusterLogVote ClusterLogLeader
  ClusterCommitChain ClusterCommitLog ClusterCommitInv ClusterCommitSnapLog
  ClusterSnapLMLog ClusterSnapLMAE2.
Open Scope N_scope.

(* the stores and cached keys are kept; the FSM position may move to a key of a term not above the server's *)
Lemma yup_lkeep C B s s' : yup C B s -> lkeep s' s -> v_lastSnapTerm s' = v_lastSnapTerm s ->
  (fst (v_fsmLast s') <> 0 -> snd (v_fsmLast s') <= d_term s') -> d_term s <= d_term s' -> yup C B s'.
Proof.
  intros H (K1 & K2 & K3 & K4 & K5) K6 Hf Ht. unfold yup, topk, rawb in *. rewrite K1, K2, K3, K4, K5, K6.
  pose proof (yshape_mono C C B B _ _ _ _ _ _ _ (incl_refl _) (N.le_refl _) Ht H) as [A1 A2 A3 A4 A5 A6 A7].
  constructor; assumption.
Qed.

(* the leader stored the new entry e right after its last entry *)
Lemma leader_append_yup C B s s' e : let C' := (e, last_entry s) :: C in
  chain_ok C' -> yup C B s -> e_idx e = last_index s + 1 -> e_term e <= d_term s' -> d_term s <= d_term s' ->
  d_log s' = log_store (d_log s) [e] -> topk s' = key e -> d_snaps s' = d_snaps s -> rawb s' = rawb s -> v_fsmLast s' = v_fsmLast s ->
  yup C' B s'.
Proof.
  intros C' HC' Hz Hi Ht Hdt Hl Htk Hsn Hb Hf. unfold yup. rewrite Hl, Htk, Hsn, Hb, Hf.
  assert (Hinc : incl C C') by (intros x Hx; right; exact Hx).
  pose proof (yshape_mono C C' B B _ _ _ _ _ _ _ Hinc (N.le_refl _) Hdt Hz) as [A1 A2 A3 A4 A5 A6 A7].
  simpl. constructor; try assumption.
  - intros i x Hx. destruct (N.eq_dec (e_idx e) i) as [E|E].
    + subst i. rewrite lookup_insert in Hx. inversion Hx; subst x. split; [reflexivity|]. split; [exists (last_entry s); left; reflexivity|exact Ht].
    + rewrite lookup_insert_ne in Hx by exact E. apply (A1 i x Hx).
  - intros i x Hx Hbi. destruct (N.eq_dec (e_idx e) i) as [E|E].
    + subst i. rewrite lookup_insert in Hx. inversion Hx; subst x. apply anc_refl.
    + rewrite lookup_insert_ne in Hx by exact E. pose proof (A2 i x Hx Hbi) as Ha.
      eapply anc_up; [left; reflexivity|reflexivity|]. unfold last_entry.
      destruct (N.leb_spec (v_lastSnapIdx s) (v_lastLogIdx s)) as [_|Hgt]; [exact Ha|]. exfalso.
      destruct (A1 i x Hx) as (Hxi & _). destruct (anc_le C' _ _ HC' Ha) as [X _].
      unfold key, topk in X. simpl in X. destruct A6 as [Y _]. unfold rawb in Y. simpl in Y. lia.
  - unfold key. simpl. intros E. lia.
Qed.

(* ---------------------------------------------------------------- setupAppendEntries *)
Lemma get_range_y C B m T tk : chain_ok C -> log_in C m T -> (forall i e, m !! i = Some e -> B < i -> anc C (key e) tk) ->
  forall n from es p, get_range m from n = Some es -> fst p + 1 = from -> (B < fst p -> anc C p tk) ->
  contig (fst p) es /\ ychain C B p es /\ forall e, In e es -> (exists q, In (e, q) C) /\ e_term e <= T.
Proof.
  intros HC Hin Hab. induction n as [|n IH]; intros from es p Hg Hf Hp; simpl in Hg.
  - inversion Hg; subst. split; [exact I|]. split; [exact I|intros e []].
  - destruct (m !! from) as [e|] eqn:Ee; [|discriminate].
    destruct (get_range m (from + 1) n) as [r|] eqn:Er; [|discriminate]. inversion Hg; subst es. clear Hg.
    destruct (Hin from e Ee) as (Hk & (p0 & Hp0) & Ht).
    destruct (IH (from + 1) r (key e) Er) as (I1 & I2 & I3).
    { unfold key. simpl. lia. }
    { intros Hb. apply (Hab from e Ee). unfold key in Hb. simpl in Hb. lia. }
    split; [|split].
    + simpl. split; [lia|]. unfold key in I1. simpl in I1. rewrite Hk in I1. rewrite Hf. exact I1.
    + simpl. split; [|exact I2]. intros Hb. specialize (Hp Hb).
      assert (Ha : anc C (key e) tk) by (apply (Hab from e Ee); lia).
      assert (Hpe : anc C p (key e)) by (apply (anc_linear C p (key e) tk HC Hp Ha); unfold key; simpl; lia).
      rewrite (anc_pred C p e p0 HC Hp0 Hpe); [exact Hp0|lia].
    + intros x [<-|Hx]; [split; [exists p0; exact Hp0|exact Ht]|apply I3, Hx].
Qed.

Theorem setup_send_y C B P s next last pi pt es c : chain_ok C -> yup C B s -> 1 <= next ->
  setup_send P s next last = SendAE pi pt es c ->
  contig pi es /\ (forall e, In e es -> (exists p, In (e, p) C) /\ e_term e <= d_term s) /\
  ychain C B (pi, pt) es /\ pt <= d_term s /\ (pi = 0 -> pt = 0).
Proof.
  intros HC Hz Hnext. unfold setup_send.
  destruct (prev_of s next) as [[pi' pt']|] eqn:Ep.
  2:{ destruct (newest_snap s); discriminate. }
  destruct (get_range (d_log s) next _) as [es'|] eqn:Eg.
  2:{ destruct (newest_snap s); discriminate. }
  intros H; inversion H; subst. clear H. pose proof Hz as [A1 A2 A3 A4 A5 A6 A7].
  assert (Hpk : ((pi, pt) = (0, 0) /\ next = 1) \/ ((pi, pt) = rawb s /\ v_lastSnapIdx s + 1 = next /\ next <> 1) \/
                (exists pe, d_log s !! (next - 1) = Some pe /\ (pi, pt) = key pe /\ next <> 1)).
  { unfold prev_of in Ep. destruct (N.eqb_spec next 1) as [->|Hne]; [inversion Ep; auto|].
    destruct (N.eqb_spec (next - 1) (v_lastSnapIdx s)) as [E|_].
    - inversion Ep; subst. right. left. split; [unfold rawb; try rewrite E; reflexivity|]. split; [lia|exact Hne].
    - destruct (d_log s !! (next - 1)) as [pe|] eqn:Epe; [|discriminate]. inversion Ep; subst. right. right. exists pe. auto. }
  destruct (get_range_y C B (d_log s) (d_term s) (topk s) HC A1 A2 _ next es (pi, pt) Eg) as (G1 & G2 & G3).
  { destruct Hpk as [[E1 E2]|[(E1 & E2 & _)|(pe & Hpe & E1 & Hn1)]]; rewrite E1; simpl; [lia|lia|].
    destruct (A1 _ pe Hpe) as (I & _). lia. }
  { destruct Hpk as [[E1 E2]|[(E1 & E2 & _)|(pe & Hpe & E1 & Hn1)]]; rewrite E1; simpl; intros Hb; [lia|destruct A6; simpl in *; lia|].
    destruct (A1 _ pe Hpe) as (I & _). apply (A2 _ pe Hpe). lia. }
  simpl in G1. split; [exact G1|]. split; [exact G3|]. split; [exact G2|].
  destruct Hpk as [[E1 E2]|[(E1 & E2 & Hn1)|(pe & Hpe & E1 & Hn1)]]; inversion E1; subst.
  - split; [lia|reflexivity].
  - destruct A6 as [_ Y]. simpl in Y. split; [apply Y; lia|lia].
  - destruct (A1 _ pe Hpe) as (I & _ & Ht). split; [exact Ht|lia].
Qed.
