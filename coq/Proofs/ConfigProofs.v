(* Proofs about Model/Config.v *)
From Coq Require Import List NArith ZArith Bool Lia Arith.
From RaftModel Require Import Base Config.
Open Scope N_scope.
Ltac Zify.zify_post_hook ::= Z.div_mod_to_equations.

(* ---------- mem / nodup_b reflect In / NoDup ---------- *)
Lemma mem_In x l : mem x l = true <-> In x l.
Proof.
  induction l as [|y r IH]; simpl; [split; [discriminate|tauto]|].
  rewrite orb_true_iff, IH, N.eqb_eq. split; intros [H|H]; auto.
Qed.

Lemma nodup_b_NoDup l : nodup_b l = true <-> NoDup l.
Proof.
  induction l as [|x r IH]; simpl; [split; [constructor|reflexivity]|].
  rewrite andb_true_iff, negb_true_iff, IH. split.
  - intros [Hm Hn]. constructor; [|exact Hn]. rewrite <- mem_In. congruence.
  - intros H. inversion H as [|? ? Hni Hnd]; subst. split; [|exact Hnd].
    destruct (mem x r) eqn:E; [|reflexivity]. apply mem_In in E. contradiction.
Qed.

(* ---------- nextConfiguration: immediate facts ---------- *)
Theorem next_config_checked cur idx q new :
  next_config cur idx q = Some new -> check_config new = true.
Proof.
  unfold next_config. destruct (_ && _); [discriminate|].
  destruct (check_config (apply_change cur q)) eqn:E; [|discriminate].
  intros H. inversion H; subst. exact E.
Qed.

Theorem next_config_stale_prev cur idx q :
  r_prev q <> 0 -> r_prev q <> idx -> next_config cur idx q = None.
Proof.
  intros H0 H1. unfold next_config.
  destruct (N.ltb_spec 0 (r_prev q)); [|lia].
  destruct (N.eqb_spec (r_prev q) idx); [contradiction|]. reflexivity.
Qed.

Theorem next_config_prev cur idx q new :
  next_config cur idx q = Some new -> r_prev q = 0 \/ r_prev q = idx.
Proof.
  unfold next_config. destruct (N.ltb_spec 0 (r_prev q)); simpl.
  - destruct (N.eqb_spec (r_prev q) idx); simpl; [auto|discriminate].
  - intros _. left. lia.
Qed.

Theorem next_config_is_apply cur idx q new :
  next_config cur idx q = Some new -> new = apply_change cur q.
Proof.
  unfold next_config. destruct (_ && _); [discriminate|].
  destruct (check_config _); [|discriminate]. intros H; inversion H; reflexivity.
Qed.

(* ---------- a change touches only the named server ---------- *)
Lemma update_first_other p f c i x :
  (forall s, p s = true -> s_id s = i /\ s_id (f s) = i) -> x <> i ->
  has_vote (fst (update_first p f c)) x = has_vote c x /\
  in_config (fst (update_first p f c)) x = in_config c x.
Proof.
  intros Hp Hx. induction c as [|s r IH]; simpl; [auto|].
  destruct (p s) eqn:E; simpl.
  - destruct (Hp s E) as [H1 H2]. rewrite H1, H2.
    destruct (N.eqb_spec i x); [congruence|auto].
  - destruct (update_first p f r) as [r' b]. simpl in *.
    destruct IH as [IH1 IH2]. rewrite IH1, IH2. auto.
Qed.

Lemma remove_first_other p c i x :
  (forall s, p s = true -> s_id s = i) -> x <> i ->
  has_vote (remove_first p c) x = has_vote c x /\ in_config (remove_first p c) x = in_config c x.
Proof.
  intros Hp Hx. induction c as [|s r IH]; simpl; [auto|].
  destruct (p s) eqn:E; simpl.
  - rewrite (Hp s E). destruct (N.eqb_spec i x); [congruence|auto].
  - destruct IH as [IH1 IH2]. rewrite IH1, IH2. auto.
Qed.

Lemma app_other c s x : x <> s_id s ->
  has_vote (c ++ [s]) x = has_vote c x /\ in_config (c ++ [s]) x = in_config c x.
Proof.
  intros Hx. induction c as [|t r IH]; simpl.
  - destruct (N.eqb_spec (s_id s) x); [congruence|auto].
  - destruct IH as [IH1 IH2]. rewrite IH1, IH2. auto.
Qed.

Theorem apply_change_other cur q x : x <> r_id q ->
  has_vote (apply_change cur q) x = has_vote cur x /\
  in_config (apply_change cur q) x = in_config cur x.
Proof.
  intros Hx. unfold apply_change.
  destruct (r_cmd q =? 0).
  { match goal with |- context [update_first ?P ?F cur] =>
      pose proof (update_first_other P F cur (r_id q) x) as H;
      destruct (update_first P F cur) as [c' found] end.
    simpl in H. destruct found.
    + apply H; [|exact Hx]. intros s Hs. apply N.eqb_eq in Hs.
      destruct (is_voter s); simpl; auto.
    + apply app_other. simpl. exact Hx. }
  destruct (r_cmd q =? 1).
  { match goal with |- context [update_first ?P ?F cur] =>
      pose proof (update_first_other P F cur (r_id q) x) as H;
      destruct (update_first P F cur) as [c' found] end.
    simpl in H. destruct found.
    + apply H; [|exact Hx]. intros s Hs. apply N.eqb_eq in Hs.
      destruct (negb _); simpl; auto.
    + apply app_other. simpl. exact Hx. }
  destruct (r_cmd q =? 2).
  { apply (update_first_other _ _ _ (r_id q)); [|exact Hx]. intros s Hs. apply N.eqb_eq in Hs. simpl. auto. }
  destruct (r_cmd q =? 3).
  { apply (remove_first_other _ _ (r_id q)); [|exact Hx]. intros s Hs. apply N.eqb_eq in Hs. exact Hs. }
  destruct (r_cmd q =? 4).
  { apply (update_first_other _ _ _ (r_id q)); [|exact Hx]. intros s Hs. apply andb_true_iff in Hs.
    destruct Hs as [Hs _]. apply N.eqb_eq in Hs. simpl. auto. }
  split; reflexivity.
Qed.

(* Every successful change alters the vote of at most one server id: the one it names. *)
Theorem next_config_one_voter cur idx q new :
  next_config cur idx q = Some new ->
  forall x, x <> r_id q -> has_vote new x = has_vote cur x /\ in_config new x = in_config cur x.
Proof.
  intros H x Hx. apply next_config_is_apply in H. subst. apply apply_change_other. exact Hx.
Qed.

(* ---------- for checked configurations, has_vote = membership in the voter list ---------- *)
Lemma has_vote_In c x : NoDup (map s_id c) -> (has_vote c x = true <-> In x (voters c)).
Proof.
  unfold voters. induction c as [|s r IH]; simpl; intros Hnd; [split; [discriminate|tauto]|].
  inversion Hnd as [|? ? Hni Hr]; subst. specialize (IH Hr).
  destruct (N.eqb_spec (s_id s) x) as [E|Hne].
  - subst x. destruct (is_voter s) eqn:Hv; simpl.
    + split; auto.
    + split; [discriminate|]. intros Hin. exfalso. apply Hni.
      apply in_map_iff in Hin. destruct Hin as (t & Ht & Hin). apply filter_In in Hin.
      apply in_map_iff. exists t. tauto.
  - rewrite IH. destruct (is_voter s); simpl; [|tauto]. split; [auto|intros [H|H]; [congruence|exact H]].
Qed.

Lemma voters_NoDup c : NoDup (map s_id c) -> NoDup (voters c).
Proof.
  unfold voters. induction c as [|s r IH]; simpl; intros Hnd; [constructor|].
  inversion Hnd as [|? ? Hni Hr]; subst. destruct (is_voter s); simpl; [|auto].
  constructor; [|auto]. intros Hin. apply Hni.
  apply in_map_iff in Hin. destruct Hin as (t & Ht & Hin). apply filter_In in Hin.
  apply in_map_iff. exists t. tauto.
Qed.

Lemma check_config_facts c : check_config c = true ->
  NoDup (map s_id c) /\ NoDup (map s_addr c) /\ voters c <> [] /\
  (forall s, In s c -> s_id s <> 0 /\ s_addr s <> 0).
Proof.
  unfold check_config. rewrite !andb_true_iff. intros ((((H1 & H2) & H3) & H4) & H5).
  apply nodup_b_NoDup in H3. apply nodup_b_NoDup in H4.
  split; [exact H3|]. split; [exact H4|]. split.
  - unfold voters. intros E. apply negb_true_iff in H5.
    apply Nat.eqb_neq in H5. apply H5. apply (f_equal (@length N)) in E.
    rewrite map_length in E. exact E.
  - intros s Hs. rewrite forallb_forall in H1, H2. specialize (H1 s Hs). specialize (H2 s Hs).
    apply negb_true_iff in H1, H2. apply N.eqb_neq in H1, H2. auto.
Qed.

(* ---------- majorities of adjacent configurations intersect ---------- *)
Definition majority (V Q : list N) : Prop :=
  NoDup Q /\ incl Q V /\ (2 * length Q > length V)%nat.

Lemma disjoint_app_NoDup (Q Q' : list N) :
  NoDup Q -> NoDup Q' -> (forall x, In x Q -> ~ In x Q') -> NoDup (Q ++ Q').
Proof.
  induction Q as [|a r IH]; simpl; intros H1 H2 Hd; [exact H2|].
  inversion H1; subst. constructor.
  - rewrite in_app_iff. intros [H|H]; [contradiction|]. apply (Hd a); auto.
  - apply IH; auto.
Qed.

Theorem adjacent_majorities_intersect (V V' Q Q' : list N) (v : N) :
  NoDup V -> NoDup V' ->
  (forall x, x <> v -> (In x V <-> In x V')) ->
  majority V Q -> majority V' Q' ->
  exists x, In x Q /\ In x Q'.
Proof.
  intros HV HV' Hadj (HQ & HiQ & HmQ) (HQ' & HiQ' & HmQ').
  destruct (existsb (fun x => mem x Q') Q) eqn:E.
  - apply existsb_exists in E. destruct E as (x & Hx & Hm). apply mem_In in Hm. eauto.
  - exfalso.
    assert (Hd : forall x, In x Q -> ~ In x Q').
    { intros x Hx Hx'. assert (existsb (fun x => mem x Q') Q = true); [|congruence].
      apply existsb_exists. exists x. split; [exact Hx|]. apply mem_In. exact Hx'. }
    pose proof (disjoint_app_NoDup Q Q' HQ HQ' Hd) as Hnd.
    destruct (in_dec N.eq_dec v V) as [HvV|HvV]; destruct (in_dec N.eq_dec v V') as [HvV'|HvV'].
    + (* v in both: V and V' have the same elements *)
      assert (incl (Q ++ Q') V).
      { intros x Hx. apply in_app_iff in Hx. destruct Hx as [Hx|Hx]; [auto|].
        apply HiQ' in Hx. destruct (N.eq_dec x v); [subst; auto|]. apply Hadj; auto. }
      assert (incl V V').
      { intros x Hx. destruct (N.eq_dec x v); [subst; auto|]. apply Hadj; auto. }
      pose proof (NoDup_incl_length Hnd H). pose proof (NoDup_incl_length HV H0).
      rewrite app_length in *. lia.
    + (* v only in V: V = V' + v *)
      assert (incl (Q ++ Q') V).
      { intros x Hx. apply in_app_iff in Hx. destruct Hx as [Hx|Hx]; [auto|].
        apply HiQ' in Hx. destruct (N.eq_dec x v); [subst; contradiction|]. apply Hadj; auto. }
      assert (incl V (v :: V')).
      { intros x Hx. destruct (N.eq_dec x v); [subst; left; reflexivity|]. right. apply Hadj; auto. }
      pose proof (NoDup_incl_length Hnd H). pose proof (NoDup_incl_length HV H0).
      rewrite app_length in *. simpl in *. lia.
    + (* v only in V' *)
      assert (incl (Q ++ Q') V').
      { intros x Hx. apply in_app_iff in Hx. destruct Hx as [Hx|Hx]; [|auto].
        apply HiQ in Hx. destruct (N.eq_dec x v); [subst; contradiction|]. apply Hadj; auto. }
      assert (incl V' (v :: V)).
      { intros x Hx. destruct (N.eq_dec x v); [subst; left; reflexivity|]. right. apply Hadj; auto. }
      pose proof (NoDup_incl_length Hnd H). pose proof (NoDup_incl_length HV' H0).
      rewrite app_length in *. simpl in *. lia.
    + assert (incl (Q ++ Q') V).
      { intros x Hx. apply in_app_iff in Hx. destruct Hx as [Hx|Hx]; [auto|].
        apply HiQ' in Hx. destruct (N.eq_dec x v); [subst; contradiction|]. apply Hadj; auto. }
      assert (incl V V').
      { intros x Hx. destruct (N.eq_dec x v); [subst; contradiction|]. apply Hadj; auto. }
      pose proof (NoDup_incl_length Hnd H). pose proof (NoDup_incl_length HV H0).
      rewrite app_length in *. lia.
Qed.

Corollary majorities_intersect (V Q Q' : list N) :
  NoDup V -> majority V Q -> majority V Q' -> exists x, In x Q /\ In x Q'.
Proof. intros HV. apply (adjacent_majorities_intersect V V Q Q' 0 HV HV). tauto. Qed.

(* two successive checked configurations: majorities of their voter lists intersect *)
Theorem next_config_majorities_intersect cur idx q new Q Q' :
  check_config cur = true -> next_config cur idx q = Some new ->
  majority (voters cur) Q -> majority (voters new) Q' -> exists x, In x Q /\ In x Q'.
Proof.
  intros Hc Hn. pose proof (next_config_checked _ _ _ _ Hn) as Hc'.
  destruct (check_config_facts _ Hc) as (Hnd & _). destruct (check_config_facts _ Hc') as (Hnd' & _).
  apply (adjacent_majorities_intersect _ _ Q Q' (r_id q)); try (apply voters_NoDup; assumption).
  intros x Hx. rewrite <- !has_vote_In by assumption.
  destruct (next_config_one_voter _ _ _ _ Hn x Hx) as [H _]. rewrite H. tauto.
Qed.

(* ---------- quorumSize is a strict majority of the voters, and only of the voters ---------- *)
Theorem quorum_size_majority c :
  let n := N.of_nat (length (voters c)) in
  2 * quorum_size c > n /\ (n > 0 -> quorum_size c <= n) /\ 2 * (quorum_size c - 1) <= n.
Proof.
  unfold quorum_size, voters. rewrite map_length.
  set (n := N.of_nat (length (filter is_voter c))). lia.
Qed.

Theorem quorum_size_ignores_nonvoters c s :
  is_voter s = false -> quorum_size (c ++ [s]) = quorum_size c /\ quorum_size (s :: c) = quorum_size c.
Proof.
  intros H. unfold quorum_size. rewrite filter_app. simpl. rewrite H. rewrite app_nil_r. auto.
Qed.
