(* ClusterSnapLMCex.v — Log Matching ABOVE THE SERVERS' OWN SNAPSHOTS is false in Model/ClusterSnap.v, and so
   is terms_monotone: a compiled run from an initial state of the driver (5 servers, TrailingLogs 5).

   Server 3 holds entries 4', 5', 6' of term 3 from a deposed leader (server 4, which keeps them).  The
   leader of term 4 (server 1) commits 4, 5, 6 of term 4 with servers 2 and 5, takes a snapshot at 6 and
   sends it to server 3 (its AppendEntries to 3 failed: DeleteRange errors).  installSnapshot at 3
   removes 6' (index 6 = snapshot index, other term) and resets the cached last log to (0, 0), but keeps
   4', 5' BELOW the snapshot (finding F3-ii).  A later AppendEntries (prev = 3, entries = [4]) is
   "all new" for the reset cache and is stored over 4' only: the log of 3 is now 1 2 3 4(term 4) 5'(term 3).
   Server 3 - its last entry is the snapshot (6, term 4) - wins the election of term 5 and replicates from
   its log: the request (prev = (4, term 4), entries = [5' of term 3]) makes server 2 truncate the COMMITTED
   5, 6 of term 4 and store 5'.  Servers 2 and 4 never saw a snapshot; both hold 5' (term 3); at index 4
   server 2 holds the entry of term 4, server 4 the entry of term 3.  In the log of server 2 term 4 is
   followed by term 3. *)
From Coq Require Import List NArith Bool Lia.
From stdpp Require Import gmap.
From RaftModel Require Import Base Config Node NodeCodec Cluster ClusterLog ClusterCommit ClusterSnap.
From RaftProofs Require Import ClusterProofs ClusterLogSnapCex ClusterCommitSpec ClusterCommitSnapSpec ClusterCommitSnapCex ClusterSnapLMSpec.
Open Scope N_scope.

Lemma install_init_ok t n extras : sinit_ok (mk_cfg n) (install_init t n extras).
Proof.
  split; [|split; [reflexivity|split; reflexivity]].
  pose proof (retrail_cinit t (mk_cfg n) _ (mk_nodes_cinit_snap n extras)) as H.
  unfold retrail_g, cnodes in H. cbn [cg_l lg_g g_nodes g_resps g_leaders g_grants lg_msgs cg_lead cg_hb cg_ans] in H.
  rewrite map_map in H. exact H.
Qed.

Definition E (l : glabel) : slabel := SBase (CBase (LElect l)).
Definition el (i : N) (js : list N) : list slabel := E (GTimeout i) :: flat_map (fun j => [E (GVoteReq i j 0 []); E (GVoteResp i j)]) js.
Definition rep (i j next last : N) (k a : nat) (fs : list bool) : list slabel :=
  [SBase (CBase (LSend i j next last)); SBase (CBase (LDeliver k 0 fs)); SBase (CAck a)].
Definition prop (i d : N) : slabel := SBase (CBase (LPropose i LogCommand d [])).
Definition rs (j : N) : slabel := E (GInput j NRestart 0 []).

Definition junk_labels : list slabel :=
  (* term 2: server 5 leads, entries 2, 3 reach everybody *)
  el 5 [1;2] ++ [prop 5 31] ++ rep 5 1 2 3 0 0 [] ++ rep 5 2 2 3 1 1 [] ++ rep 5 3 2 3 2 2 [] ++ rep 5 4 2 3 3 3 [] ++
  (* term 3: server 4 leads, entries 4', 5', 6' reach server 3 only *)
  [rs 3; rs 5] ++ el 4 [3;5] ++ [prop 4 41; prop 4 42] ++ rep 4 3 4 6 4 4 [] ++
  (* term 4: server 1 leads with the votes of 2 and 5, commits 4, 5, 6; its requests to 3 fail (DeleteRange errors) *)
  [rs 2; rs 3; rs 5; E (GTimeout 1); E (GTimeout 1); E (GVoteReq 1 3 0 [])] ++ [E (GVoteReq 1 2 0 []); E (GVoteResp 1 2); E (GVoteReq 1 5 0 []); E (GVoteResp 1 5)] ++
  [prop 1 51; prop 1 52] ++ rep 1 2 4 6 5 5 [] ++ rep 1 5 4 6 6 6 [] ++ [SBase (CCommit 1)] ++
  rep 1 3 4 6 7 7 [true] ++ rep 1 3 3 6 8 8 [true] ++
  (* snapshot at 6 (entry 1 compacted), sent to and installed by server 3 *)
  [E (GInput 1 NSnapshot 0 []); SSend 1 3 6; SDeliver 0 0 []; SAck 0] ++
  (* nextIndex of 3 walks back from 7 to 4; the request (prev 3, [4]) is stored *)
  [prop 1 53] ++ rep 1 3 7 7 9 9 [true] ++ rep 1 3 6 7 10 10 [] ++ rep 1 3 5 7 11 11 [] ++ rep 1 3 4 4 12 12 [] ++
  (* term 5: server 3 leads with the votes of 2 and 5 and replicates its log to 2 *)
  [rs 2; rs 5] ++ el 3 [2;5] ++
  rep 3 2 7 7 13 13 [true] ++ rep 3 2 6 5 14 14 [] ++ rep 3 2 5 5 15 15 [].

Definition junk_init : sstate := install_init 5 5 [0; 0; 0; 0; 0].

Lemma junk_labels_ok : Forall slabel_ok junk_labels.
Proof. unfold junk_labels. repeat (apply Forall_app; split); repeat constructor; simpl; try discriminate; exact I. Qed.

(* ---------------------------------------------------------------- decidable witnesses *)
Definition node_of (g : lgstate) (i : N) : option gnode := find_node (g_nodes (lg_g g)) i.

(* a and b hold an entry of one term at i and different entries at k <= i, above the snapshot index and above every stored snapshot of both *)
Definition lm_own_violation (g : lgstate) (ia ib i k : N) : bool :=
  lm_violation g ia ib i k &&
  match node_of g ia, node_of g ib with
  | Some a, Some b => (snap_idx_of a <? k) && (snap_idx_of b <? k) && (max_snap_of (image (gn_run a)) <? k) && (max_snap_of (image (gn_run b)) <? k)
  | _, _ => false
  end.

Lemma lm_violation_parts g ia ib i k : lm_violation g ia ib i k = true ->
  exists a b ea eb ka kb, In a (g_nodes (lg_g g)) /\ In b (g_nodes (lg_g g)) /\ node_of g ia = Some a /\ node_of g ib = Some b /\
    log_of a !! i = Some ea /\ log_of b !! i = Some eb /\ e_term ea = e_term eb /\ k <= i /\
    log_of a !! k = Some ka /\ log_of b !! k = Some kb /\ ka <> kb.
Proof.
  unfold lm_violation, node_of. intros H.
  destruct (find_node (g_nodes (lg_g g)) ia) as [a|] eqn:Fa; [|discriminate].
  destruct (find_node (g_nodes (lg_g g)) ib) as [b|] eqn:Fb; [|discriminate].
  destruct (log_of a !! i) as [ea|] eqn:Ea; [|discriminate]. destruct (log_of b !! i) as [eb|] eqn:Eb; [|discriminate].
  destruct (log_of a !! k) as [ka|] eqn:Ka; [|discriminate]. destruct (log_of b !! k) as [kb|] eqn:Kb; [|discriminate].
  apply andb_prop in H. destruct H as [H Hne]. apply andb_prop in H. destruct H as [Ht Hk].
  apply N.eqb_eq in Ht. apply N.leb_le in Hk.
  destruct (find_node_in _ _ _ Fa) as [Ia _]. destruct (find_node_in _ _ _ Fb) as [Ib _].
  exists a, b, ea, eb, ka, kb. repeat (split; [first [assumption|reflexivity]|]).
  intros ->. rewrite entry_eqb_refl in Hne. discriminate.
Qed.

Lemma lm_own_violation_sound g ia ib i k : lm_own_violation g ia ib i k = true ->
  ~ log_matching_above_snapshots g /\ ~ log_matching_above_own_snapshots g.
Proof.
  unfold lm_own_violation. intros H. apply andb_prop in H. destruct H as [H1 H2].
  destruct (lm_violation_parts g ia ib i k H1) as (a & b & ea & eb & ka & kb & Ia & Ib & Na & Nb & Ea & Eb & Ht & Hk & Ka & Kb & Hne).
  rewrite Na, Nb in H2. apply andb_prop in H2. destruct H2 as [H2 M2]. apply andb_prop in H2. destruct H2 as [H2 M1].
  apply andb_prop in H2. destruct H2 as [S1 S2]. apply N.ltb_lt in S1, S2, M1, M2.
  split; intros LM; apply Hne.
  - apply (LM a b Ia Ib i ea eb Ea Eb Ht k ka kb Hk S1 S2 Ka Kb).
  - apply (LM a b Ia Ib i ea eb Ea Eb Ht k ka kb Hk M1 M2 Ka Kb).
Qed.

(* in the log of ia the term at i is above the term at j >= i; ia stores no snapshot *)
Definition tm_violation (g : lgstate) (ia i j : N) : bool :=
  match node_of g ia with
  | Some a => match log_of a !! i, log_of a !! j with
              | Some ei, Some ej => (i <=? j) && (e_term ej <? e_term ei) && (max_snap_of (image (gn_run a)) =? 0)
              | _, _ => false
              end
  | None => false
  end.

Lemma tm_violation_sound g ia i j : tm_violation g ia i j = true -> ~ terms_monotone g.
Proof.
  unfold tm_violation, node_of. intros H TM.
  destruct (find_node (g_nodes (lg_g g)) ia) as [a|] eqn:Fa; [|discriminate].
  destruct (log_of a !! i) as [ei|] eqn:Ei; [|discriminate]. destruct (log_of a !! j) as [ej|] eqn:Ej; [|discriminate].
  apply andb_prop in H. destruct H as [H _]. apply andb_prop in H. destruct H as [H1 H2]. apply N.leb_le in H1. apply N.ltb_lt in H2.
  destruct (find_node_in _ _ _ Fa) as [Ia _]. destruct (TM a Ia i j ei ej H1 Ei Ej) as [Hm _]. lia.
Qed.

Theorem log_matching_above_snapshots_refuted : exists cfg g0 ls g,
  sinit_ok cfg g0 /\ Forall slabel_ok ls /\ srun [cfg] g0 ls = Some g /\
  ~ log_matching_above_snapshots (lg_of g) /\ ~ log_matching_above_own_snapshots (lg_of g) /\ ~ terms_monotone (lg_of g).
Proof.
  assert (H : exists g, srun [mk_cfg 5] junk_init junk_labels = Some g /\
                (lm_own_violation (lg_of g) 2 4 5 4 && tm_violation (lg_of g) 2 4 5) = true).
  { destruct (srun [mk_cfg 5] junk_init junk_labels) as [g|] eqn:E0.
    - exists g. split; [reflexivity|].
      assert (Hc : match srun [mk_cfg 5] junk_init junk_labels with
                   | Some g => lm_own_violation (lg_of g) 2 4 5 4 && tm_violation (lg_of g) 2 4 5 | None => false end = true) by (vm_compute; reflexivity).
      rewrite E0 in Hc. exact Hc.
    - exfalso. assert (Hc : match srun [mk_cfg 5] junk_init junk_labels with Some _ => true | None => false end = true) by (vm_compute; reflexivity).
      rewrite E0 in Hc. discriminate. }
  destruct H as (g & Hrun & Hv). apply andb_prop in Hv. destruct Hv as [Hv1 Hv2].
  exists (mk_cfg 5), junk_init, junk_labels, g. split; [apply install_init_ok|]. split; [exact junk_labels_ok|]. split; [exact Hrun|].
  destruct (lm_own_violation_sound _ _ _ _ _ Hv1) as [A B]. split; [exact A|]. split; [exact B|].
  apply (tm_violation_sound _ _ _ _ Hv2).
Qed.

Print Assumptions log_matching_above_snapshots_refuted.
