(* ClusterLogSnapMain.v — LOG MATCHING for Model/ClusterLog.v WITH takeSnapshot (lrun true), from the
   initial states of Proofs/ClusterLogSnapSpec.v (the commit indices of the initial state lie in a
   prefix of the history that every server holds).  Proofs/ClusterLogSnapCex.v shows that the
   statement is false without that condition. *)
From Coq Require Import List NArith Bool Lia.
From stdpp Require Import gmap.
From RaftModel Require Import Base Config Compaction Commitment Node NodeCodec Candidate Leader Replicate Cluster ClusterLog.
From RaftProofs Require Import ConfigProofs VoteProofs ClusterProofs
  ClusterLogSpec ClusterLogChain ClusterLogNode ClusterLogVote ClusterLogInv ClusterLogSteps ClusterLogInit
  ClusterLogSnapSpec ClusterLogSnapNode ClusterLogSnapState ClusterLogSnapLeader ClusterLogSnapInv ClusterLogSnapSteps
  ClusterLogSnapElect2 ClusterLogSnapInit.
Open Scope N_scope.

Section SMain.
  Variable base : list entry.
  Variable c0 : N.
  Hypothesis Hh : hist_ok (0, 0) base.
  Variable cfgs : list config.
  Hypothesis HQ : quorums_intersect cfgs.

  Definition Sinv (g : lgstate) : Prop := exists C, sinv base c0 cfgs g C.

  Theorem sstep_inv g l g' : Sinv g -> lstep true cfgs g l = Some g' -> Sinv g'.
  Proof.
    intros [C Hinv] Hstep. destruct l as [gl|i ty data fs|i j next last|i j|k cut fs].
    - unfold lstep in Hstep. destruct (label_ok true gl) eqn:Hok; [|discriminate].
      destruct (gstep cfgs (lg_g g) gl) as [g1|] eqn:Hg; [|discriminate].
      inversion Hstep; subst g'. clear Hstep.
      destruct gl as [i|i j cut fs|i j|j e cut fs].
      + eapply stimeout; eauto.
      + exists C. eapply svotereq; eauto.
      + eapply svoteresp; eauto.
      + exists C. eapply sinput; eauto.
    - eapply spropose; eauto.
    - unfold lstep in Hstep.
      destruct (find_node (g_nodes (lg_g g)) i) as [n|] eqn:Hfind; [|discriminate].
      destruct (find_node_in _ _ _ Hfind) as [Hin Hid].
      destruct (gn_run n) as [s|s] eqn:Hrun; [|discriminate].
      destruct ((v_role s =? Leader) && negb (i =? j) && (1 <=? next) && (last <=? last_index s)) eqn:Hc; [|discriminate].
      apply andb_prop in Hc. destruct Hc as [Hc _]. apply andb_prop in Hc. destruct Hc as [Hc Hnext].
      apply andb_prop in Hc. destruct Hc as [Hrole Hij].
      apply N.eqb_eq in Hrole. apply N.leb_le in Hnext. apply negb_true_iff in Hij. apply N.eqb_neq in Hij.
      destruct (setup_send (gn_P n) s next last) as [pi pt es c| |] eqn:Hsend; try discriminate.
      inversion Hstep; subst g'. clear Hstep. exists C.
      destruct (sv_nodes base c0 cfgs g C Hinv n Hin) as [Hnl _]. rewrite Hrun in Hnl. simpl in Hnl.
      pose proof (snode_wfr base c0 cfgs g C n Hinv Hin) as Hw. rewrite Hrun in Hw. destruct Hw as [_ Hvt].
      destruct (setup_send_chain2 base c0 Hh C (gn_P n) s next last pi pt es c (sv_chain base c0 cfgs g C Hinv) Hnl Hnext Hsend) as (Hmc & Hts & Hcm).
      eapply (ssend base c0 cfgs g C i n s); eauto.
      intros e He. simpl in He. rewrite Hvt. apply Hts, He.
    - unfold lstep in Hstep.
      destruct (find_node (g_nodes (lg_g g)) i) as [n|] eqn:Hfind; [|discriminate].
      destruct (gn_run n) as [s|s] eqn:Hrun; [|discriminate].
      destruct ((v_role s =? Leader) && negb (i =? j)) eqn:Hc; [|discriminate].
      apply andb_prop in Hc. destruct Hc as [Hrole Hij].
      apply N.eqb_eq in Hrole. apply negb_true_iff in Hij. apply N.eqb_neq in Hij.
      inversion Hstep; subst g'. clear Hstep. exists C.
      eapply (ssend base c0 cfgs g C i n s); eauto.
      + simpl. exact I.
      + intros e [].
      + simpl. lia.
    - unfold lstep in Hstep.
      destruct (nth_error (lg_msgs g) k) as [m|] eqn:Hk; [|discriminate].
      destruct (gstep cfgs (lg_g g) (GInput (am_to m) (NAppend (am_req m)) cut fs)) as [g1|] eqn:Hg; [|discriminate].
      inversion Hstep; subst g'. clear Hstep. exists C.
      eapply sdeliver; eauto. eapply nth_error_In; eauto.
  Qed.

  Theorem srun_inv ls : forall g g', Sinv g -> lrun true cfgs g ls = Some g' -> Sinv g'.
  Proof.
    induction ls as [|l r IH]; intros g g' Hinv H; simpl in H.
    - inversion H; subst. exact Hinv.
    - destruct (lstep true cfgs g l) as [g1|] eqn:E; [|discriminate].
      eapply IH; [eapply sstep_inv; eassumption|exact H].
  Qed.

  Theorem sinv_log_matching g : Sinv g -> log_matching g /\ terms_monotone g.
  Proof.
    intros [C Hinv]. pose proof (cb_chain base c0 C (sv_chain base c0 cfgs g C Hinv)) as HC.
    assert (Hn : forall a, In a (g_nodes (lg_g g)) ->
              log_in C (log_of a) (d_term (image (gn_run a))) /\ exists top, log_below C (log_of a) top).
    { intros a Ha. destruct (sv_nodes base c0 cfgs g C Hinv a Ha) as [Hnl _].
      pose proof (snlog_image base c0 C _ Hnl) as Hi. split; [apply Hi|apply Hi]. }
    assert (Hanc : forall a, In a (g_nodes (lg_g g)) -> forall i j ei ej, i <= j ->
              log_of a !! i = Some ei -> log_of a !! j = Some ej -> anc C (key ei) (key ej)).
    { intros a Ha i j ei ej Hij Hi Hj. destruct (Hn a Ha) as [Hin [top Hbel]].
      apply (anc_linear C _ _ top HC (Hbel i ei Hi) (Hbel j ej Hj)).
      destruct (Hin i ei Hi) as (K1 & _). destruct (Hin j ej Hj) as (K2 & _). unfold key. simpl. lia. }
    split.
    - intros a b Ha Hb i ea eb Hea Heb Hterm k ka kb Hk Hka Hkb.
      destruct (Hn a Ha) as [Hina _]. destruct (Hn b Hb) as [Hinb _].
      destruct (Hina i ea Hea) as (Ia & _). destruct (Hinb i eb Heb) as (Ib & _).
      assert (Hkey : key ea = key eb) by (unfold key; congruence).
      pose proof (Hanc a Ha k i ka ea Hk Hka Hea) as A1.
      pose proof (Hanc b Hb k i kb eb Hk Hkb Heb) as A2. rewrite <- Hkey in A2.
      destruct (Hina k ka Hka) as (Ka & (pa & Pa) & _). destruct (Hinb k kb Hkb) as (Kb & (pb & Pb) & _).
      assert (Hkk : key ka = key kb).
      { apply (anc_unique C _ _ (key ea) HC A1 A2). unfold key. simpl. congruence. }
      apply (co_fun C HC ka pa kb pb Pa Pb Hkk).
    - intros a Ha i j ei ej Hij Hi Hj. destruct (Hn a Ha) as [Hin _].
      split; [|apply (Hin i ei Hi)].
      apply (anc_term C _ _ HC (Hanc a Ha i j ei ej Hij Hi Hj)).
  Qed.
End SMain.

(* LOG MATCHING with takeSnapshot and log compaction *)
Theorem log_matching_with_snapshots : forall cfgs g0 ls g,
  quorums_intersect cfgs -> linit_snap_ok g0 -> lrun true cfgs g0 ls = Some g ->
  log_matching g /\ terms_monotone g.
Proof.
  intros cfgs g0 ls g HQ H0 Hrun.
  destruct (linit_sinv cfgs g0 H0) as (base & c0 & C & Hh & HC).
  apply (sinv_log_matching base c0 cfgs g).
  apply (srun_inv base c0 Hh cfgs HQ ls g0 g); [exists C; exact HC|exact Hrun].
Qed.

Print Assumptions log_matching_with_snapshots.
