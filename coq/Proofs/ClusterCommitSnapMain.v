(* ClusterCommitSnapMain.v — STATE MACHINE SAFETY, LEADER COMPLETENESS (up to the leader's snapshot),
   lastApplied <= max(commitIndex, snapshot index), and "snapshots record committed entries", for the
   cluster transition system Model/ClusterCommit.v WITH takeSnapshot and log compaction (crun true).

   Every step keeps the invariant of Proofs/ClusterCommitSnapInv.v (ClusterCommitSnapStep*.v), the
   initial states satisfy it (below: the invariant of the system without snapshots implies it when
   nobody is leader and no FSM has applied anything), and it implies the statements of
   Proofs/ClusterCommitSnapSpec.v (ClusterCommitSnapFinal.v).

   Side conditions: cinit_snap_ok (Proofs/ClusterCommitSnapSpec.v), label_ok (Proofs/ClusterCommitSpec.v:
   no LogConfiguration proposals, no forged RequestVote).  Everything else is free, as in
   Proofs/ClusterCommitMain.v, and in addition: takeSnapshot at any server at any time, with failing
   snapshot stores, failing DeleteRange, any TrailingLogs, and crash cuts inside it. *)
From Coq Require Import List NArith Bool Lia.
From stdpp Require Import gmap.
From RaftModel Require Import Base Config Compaction Commitment Node NodeCodec Candidate Leader Replicate Cluster ClusterLog ClusterCommit.
From RaftProofs Require Import ConfigProofs VoteProofs ClusterProofs ClusterLogSpec ClusterLogChain ClusterLogNode ClusterLogInv
  ClusterCommitSpec ClusterCommitInit ClusterCommitLog ClusterCommitChain ClusterCommitAE2 ClusterCommitNode ClusterCommitGhost ClusterCommitInv ClusterCommitFinal ClusterCommitInit2
  ClusterCommitStepE
  ClusterCommitSnapSpec ClusterCommitSnapLog ClusterCommitSnapBoot ClusterCommitSnapNode ClusterCommitSnapLinv ClusterCommitSnapInv ClusterCommitSnapFinal
  ClusterCommitSnapStepB ClusterCommitSnapStepG ClusterCommitSnapStepH ClusterCommitSnapStepI ClusterCommitSnapStepM ClusterCommitSnapStepP
  ClusterCommitSnapStepS ClusterCommitSnapStepT ClusterCommitSnapStepU.
Open Scope N_scope.

Section Convert.
  Variable cfg : config.
  Variable Ps : list params.

  (* a server without snapshots *)
  Lemma nlog_znlog C P r : chain_ok C -> pclosed C -> nlog C r -> cnode cfg Ps P r -> znlog C r.
  Proof.
    intros HC Hp Hn (_ & _ & Hcn). destruct r as [s|s]; simpl in *.
    - pose proof Hn as (Hsn & Hin & Hsi & Hlt & Hz & Hbel). destruct Hcn as (Hlc & _ & Htop & _).
      assert (Hrt : rootc C (topk s)) by (apply (topk_created C s HC Hn Htop)).
      unfold zup. rewrite Hsn, (bk_zero s Hsi). constructor; try assumption.
      + left. reflexivity.
      + simpl. lia.
      + intros _. apply (anc_root_all C HC Hp _ Hrt).
      + simpl. lia.
      + simpl. intros i Hi Hi'. apply (lcontig_down _ Hlc i (v_lastLogIdx s)); [apply (proj2 Htop); lia|lia|exact Hi'].
      + intros sn [].
      + left. reflexivity.
    - destruct Hn as (Hsn & Hin & top & Hbel). destruct Hcn as (Hlc & _).
      unfold zimg. rewrite Hsn. constructor.
      + exact Hin.
      + exists top. split; [exact Hbel|intros sn []].
      + intros sn [].
      + intros i Hi _ Hi'. destruct (log_last_in (d_log s)) as [E0|(e & He)]; [lia|].
        apply (lcontig_down _ Hlc i (log_last (d_log s))); [rewrite He; eauto|exact Hi|exact Hi'].
  Qed.

  (* the invariant without snapshots implies the one with snapshots, when nobody is leader and no FSM has applied anything *)
  Lemma cinv_zinv g C LL A V : cinv cfg Ps g C LL A V ->
    (forall n s, In n (cnodes g) -> gn_run n = Up s -> v_role s <> Leader /\ fst (v_fsmLast s) = 0) ->
    zinv cfg Ps g C LL A V.
  Proof.
    intros HI Hq. pose proof (cv_l cfg Ps g C LL A V HI) as Hl. pose proof (cv_ci cfg Ps g C LL A V HI) as Hci.
    pose proof (ci_ok C LL Hci) as HC. assert (Hp : pclosed C) by (exact (ci_pred C LL Hci)).
    assert (Hnz : forall n, In n (cnodes g) -> znlog C (gn_run n)).
    { intros n Hin. destruct (li_nodes [cfg] _ C Hl n Hin) as [Hn _].
      apply (nlog_znlog C (gn_P n) _ HC Hp Hn (cv_node cfg Ps g C LL A V HI n Hin)). }
    assert (Hsnaps : forall n, In n (cnodes g) -> d_snaps (image (gn_run n)) = []).
    { intros n Hin. destruct (li_nodes [cfg] _ C Hl n Hin) as [Hn _]. destruct (gn_run n); apply Hn. }
    constructor.
    - destruct Hl as [L1 L2 L3 L4 L5 L6]. constructor; auto. intros n Hin. split; [apply Hnz, Hin|apply (L3 n Hin)].
    - exact Hci.
    - apply (cv_vi cfg Ps g C LL A V HI).
    - apply (cv_ll cfg Ps g C LL A V HI).
    - intros n Hin. pose proof (cv_node cfg Ps g C LL A V HI n Hin) as (N1 & N2 & N3). split; [exact N1|]. split; [exact N2|].
      pose proof (Hsnaps n Hin) as Hs0. destruct (li_nodes [cfg] _ C Hl n Hin) as [Hn _].
      destruct (gn_run n) as [s|s] eqn:Hr; simpl in *.
      + destruct N3 as (_ & Hdec & _ & Hlat & Hcm & Hac). destruct (Hq n s Hin Hr) as [_ Hf]. destruct Hn as (_ & _ & Hsi & _).
        constructor; rewrite ?Hs0, ?Hsi, ?Hf; try assumption; try lia; try (intros sn []); try (left; reflexivity).
      + destruct N3 as (_ & Hdec). split; [exact Hdec|]. rewrite Hs0. intros sn [].
    - intros n s Hin Hr. destruct (cv_kc cfg Ps g C LL A V HI n s Hin Hr) as [K1 K2]. split; [unfold last_index; lia|exact K2].
    - intros n sn Hin Hsn. rewrite (Hsnaps n Hin) in Hsn. destruct Hsn.
    - intros n s Hin Hr. left. apply (Hq n s Hin Hr).
    - intros n s Hin Hr Hrole. exfalso. apply (proj1 (Hq n s Hin Hr)), Hrole.
    - apply (cv_msg cfg Ps g C LL A V HI).
    - apply (cv_ans cfg Ps g C LL A V HI).
    - apply (cv_a1 cfg Ps g C LL A V HI).
    - intros w k n k0 H1 H2 H3 H4 H5. destruct (cv_av cfg Ps g C LL A V HI w k n k0 H1 H2 H3 H4 H5) as [H|H]; [left; left; exact H|right; exact H].
    - apply (cv_v1 cfg Ps g C LL A V HI).
    - apply (cv_v2 cfg Ps g C LL A V HI).
    - apply (cv_gv cfg Ps g C LL A V HI).
    - apply (cv_live cfg Ps g C LL A V HI).
    - apply (cv_se1 cfg Ps g C LL A V HI).
    - apply (cv_se cfg Ps g C LL A V HI).
  Qed.
End Convert.

Section Main.
  Variable cfg : config.
  Variable Ps : list params.
  Hypothesis HVn : NoDup (voters cfg).

  Definition Zinv (g : cgstate) : Prop := exists C LL A V, zinv cfg Ps g C LL A V.

  (* one step: the invariant is kept, the ghost state only grows (the votes may also be re-chosen) *)
  Theorem cstep_zinv_ext sn g l g' C LL A V : zinv cfg Ps g C LL A V -> label_ok l -> cstep sn [cfg] g l = Some g' ->
    exists Cn LLn An V', zinv cfg Ps g' (Cn ++ C) (LLn ++ LL) (An ++ A) V'.
  Proof.
    intros HI [Hnc Hnv] Hstep.
    assert (Hsame : forall V', zinv cfg Ps g' C LL A V' -> exists Cn LLn An V'', zinv cfg Ps g' (Cn ++ C) (LLn ++ LL) (An ++ A) V'').
    { intros V' H. exists [], [], [], V'. exact H. }
    destruct l as [bl|k|i j|i].
    - destruct bl as [gl|i ty data fs|i j next last|i j|k cut fs].
      + destruct gl as [i|i j cut fs|i j|j e cut fs].
        * destruct (zinv_timeout cfg Ps HVn sn g C LL A V i g' HI Hstep) as (C' & LL' & A' & V' & H). exists C', LL', A', (V' ++ V). exact H.
        * destruct (zinv_votereq cfg Ps HVn sn g C LL A V i j cut fs g' HI Hstep) as (V' & H). apply (Hsame V' H).
        * destruct (zinv_voteresp cfg Ps HVn sn g C LL A V i j g' HI Hstep) as (C' & LL' & A' & H). exists C', LL', A', V. exact H.
        * (* an input from outside: takeSnapshot, or pre-vote / restart / TimeoutNow *)
          destruct e as [q|q|a|q| | | | |].
          -- exfalso. exact Hnv.
          -- destruct (zinv_ginput cfg Ps HVn sn g C LL A V j (NPreVote q) cut fs g' HI) as (V' & H); [intros q0; discriminate|exact I|exact Hstep|apply (Hsame V' H)].
          -- exfalso. apply cstep_base_inv in Hstep. destruct Hstep as (_ & l' & Hl & _). unfold lstep, ClusterLog.label_ok in Hl. simpl in Hl. discriminate.
          -- exfalso. apply cstep_base_inv in Hstep. destruct Hstep as (_ & l' & Hl & _). unfold lstep, ClusterLog.label_ok in Hl. simpl in Hl. discriminate.
          -- destruct (zinv_ginput cfg Ps HVn sn g C LL A V j NTimeoutNow cut fs g' HI) as (V' & H); [intros q0; discriminate|exact I|exact Hstep|apply (Hsame V' H)].
          -- exfalso. apply cstep_base_inv in Hstep. destruct Hstep as (_ & l' & Hl & _). unfold lstep, ClusterLog.label_ok in Hl. simpl in Hl. discriminate.
          -- destruct (zinv_ginput cfg Ps HVn sn g C LL A V j NRestart cut fs g' HI) as (V' & H); [intros q0; discriminate|exact I|exact Hstep|apply (Hsame V' H)].
          -- exfalso. apply cstep_base_inv in Hstep. destruct Hstep as (_ & l' & Hl & _). unfold lstep, ClusterLog.label_ok in Hl. simpl in Hl. discriminate.
          -- apply (Hsame V). apply (zinv_snapshot cfg Ps HVn sn g C LL A V j cut fs g' HI Hstep).
      + destruct (zinv_propose cfg Ps HVn sn g C LL A V i ty data fs g' HI Hnc Hstep) as (C' & A' & H). exists C', [], A', V. exact H.
      + apply (Hsame V). apply (zinv_lsend cfg Ps sn g C LL A V i j next last g' HI Hstep).
      + apply (Hsame V). apply (zinv_lheartbeat cfg Ps sn g C LL A V i j g' HI Hstep).
      + destruct (zinv_deliver cfg Ps HVn sn g C LL A V k cut fs g' HI Hstep) as (A' & H). exists [], [], A', V. exact H.
    - apply (Hsame V). apply (zinv_ack cfg Ps HVn sn g C LL A V k g' HI Hstep).
    - apply (Hsame V). apply (zinv_giveup cfg Ps sn g C LL A V i j g' HI Hstep).
    - apply (Hsame V). apply (zinv_commit cfg Ps HVn sn g C LL A V i g' HI Hstep).
  Qed.

  Theorem cstep_zinv sn g l g' : Zinv g -> label_ok l -> cstep sn [cfg] g l = Some g' -> Zinv g'.
  Proof.
    intros (C & LL & A & V & HI) Hl Hstep. destruct (cstep_zinv_ext sn g l g' C LL A V HI Hl Hstep) as (Cn & LLn & An & V' & H).
    exists (Cn ++ C), (LLn ++ LL), (An ++ A), V'. exact H.
  Qed.

  Theorem crun_zinv sn ls : forall g g', Zinv g -> Forall label_ok ls -> crun sn [cfg] g ls = Some g' -> Zinv g'.
  Proof.
    induction ls as [|l r IH]; intros g g' Hinv Hls H; simpl in H.
    - inversion H; subst. exact Hinv.
    - destruct (cstep sn [cfg] g l) as [g1|] eqn:E; [|discriminate]. inversion Hls as [|? ? Hl Hr]; subst.
      eapply IH; [eapply cstep_zinv; eassumption|exact Hr|exact H].
  Qed.
End Main.

Lemma cinit_zinv cfg g0 : cinit_snap_ok cfg g0 -> Zinv cfg (map gn_P (cnodes g0)) g0.
Proof.
  intros [H0 Hf]. destruct (cinit_cinv cfg g0 H0) as [C0 HI0]. exists C0, [], [], [].
  apply (cinv_zinv cfg _ g0 C0 [] [] [] HI0). intros n s Hin Hr. split; [|apply (Hf n s Hin Hr)].
  destruct H0 as ((_ & _ & base & _ & Hni) & _). destruct (Hni n Hin) as (_ & _ & k & _ & Hrun). rewrite Hr in Hrun. apply Hrun.
Qed.

(* STATE MACHINE SAFETY, LEADER COMPLETENESS up to the leader's snapshot, lastApplied <= max(commitIndex,
   snapshot index) and commitIndex <= last index, snapshots record committed entries — in every state
   reachable with takeSnapshot and log compaction *)
Theorem state_machine_safety_snapshots : forall cfg g0 ls g,
  cinit_snap_ok cfg g0 -> Forall label_ok ls -> crun true [cfg] g0 ls = Some g ->
  committed_agree g /\ leader_complete_snap g /\ applied_within_snap g /\ snapshots_committed g.
Proof.
  intros cfg g0 ls g H0 Hls Hrun. pose proof H0 as ((_ & _ & _ & _ & HVn & _) & _).
  destruct (crun_zinv cfg (map gn_P (cnodes g0)) HVn true ls g0 g (cinit_zinv cfg g0 H0) Hls Hrun) as (C & LL & A & V & HI).
  split; [|split; [|split]].
  - apply (zinv_committed_agree cfg _ HVn g C LL A V HI).
  - apply (zinv_leader_complete_snap cfg _ HVn g C LL A V HI).
  - apply (zinv_applied_within_snap cfg _ g C LL A V HI).
  - apply (zinv_snapshots_committed cfg _ HVn g C LL A V HI).
Qed.

Print Assumptions state_machine_safety_snapshots.
