(* ClusterLeaderMain.v — WHO acts as leader, over all runs of Model/ClusterCommit.v (with and without
   takeSnapshot): the statements of Proofs/ClusterLeaderSpec.v.

   one_leader_per_term, leaders_are_recorded and the first half of ae_senders_are_leaders are read off the
   invariant of Proofs/ClusterCommitSnapMain.v (Zinv: it contains the election invariant ginv, lead_ok for
   every server and msg_ok for every request).  New here: every request names its sender as leader
   (ids_ok), and the pair (currentTerm, advertised leader id) of every running server is recorded
   (adv_inv) — kept by every step because (Proofs/ClusterLeaderNode.v) a server's code keeps the pair,
   clears the leader, adopts the pair of an AppendEntries it accepts (recorded: the request is in
   lg_msgs), or wins an election (recorded in the same step). *)
From Coq Require Import List NArith Bool Lia.
From stdpp Require Import gmap.
From RaftModel Require Import Base Config Compaction Commitment Node NodeCodec Candidate Leader Replicate Cluster ClusterLog ClusterCommit.
From RaftProofs Require Import ClusterProofs ClusterLogInv ClusterCommitSpec ClusterCommitLog ClusterCommitSnapSpec
  ClusterCommitSnapLinv ClusterCommitSnapInv ClusterCommitSnapMain ClusterLeaderSpec ClusterLeaderNode.
Open Scope N_scope.

Definition nodes_adv (g : gstate) : Prop := forall n, In n (g_nodes g) -> nadv (g_leaders g) (gn_run n).

(* ---------------------------------------------------------------- replacing one server *)
Lemma upd_nadv L L' l i n' : incl L L' -> (forall n, In n l -> nadv L (gn_run n)) -> nadv L' (gn_run n') ->
  forall n, In n (upd_node l i n') -> nadv L' (gn_run n).
Proof.
  intros Hi Hold Hnew n Hn. destruct (upd_node_in _ _ _ _ Hn) as [[-> _]|[Hn' _]]; [exact Hnew|].
  eapply nadv_mono; [exact Hi|apply Hold, Hn'].
Qed.

Lemma set_node_run_adv g i n r : nodes_adv g -> nadv (g_leaders g) r -> nodes_adv (set_node_run g i n r).
Proof.
  intros Hold Hr m Hm. unfold set_node_run in Hm. cbn [g_nodes g_leaders set_node_run] in *.
  eapply upd_nadv; [apply incl_refl|exact Hold| |exact Hm]. exact Hr.
Qed.

(* ---------------------------------------------------------------- the election system *)
(* what reaches a server from outside runCandidate: no InstallSnapshot; an AppendEntries carries a recorded pair *)
Definition glabel_adv (g : gstate) (l : glabel) : Prop :=
  match l with
  | GInput _ e _ _ => (forall q, e <> NInstall q) /\ (forall a, e = NAppend a -> In (aq_term a, aq_id a) (g_leaders g))
  | _ => True
  end.

Lemma gstep_adv cfgs g l g' : gstep cfgs g l = Some g' -> glabel_adv g l -> nodes_adv g ->
  incl (g_leaders g) (g_leaders g') /\ nodes_adv g'.
Proof.
  intros Hstep Hl Hold. destruct l as [i|i j cut fs|i j|j e cut fs]; unfold gstep in Hstep.
  - (* runCandidate is (re-)entered *)
    destruct (find_node (g_nodes g) i) as [n|] eqn:Hf; [|discriminate].
    destruct (find_node_in _ _ _ Hf) as [Hin Hid].
    destruct (gn_run n) as [s|s] eqn:Hr; [|discriminate].
    destruct (negb _ || _); [discriminate|].
    match type of Hstep with context [sess_enter ?P false ?S0] =>
      pose proof (sess_enter_adv P S0) as Ha; destruct (sess_enter P false S0) as [x tr] end.
    cbn [fst] in Ha. destruct x as [s' c|s'|s'|s']; inversion Hstep; subst g'; clear Hstep; cbn [g_leaders g_nodes].
    + split; [apply incl_refl|]. intros m Hm. cbn [g_nodes g_leaders] in *.
      eapply upd_nadv; [apply incl_refl|exact Hold| |exact Hm]. simpl. left. exact Ha.
    + split; [apply incl_refl|]. intros m Hm. cbn [g_nodes g_leaders] in *.
      eapply upd_nadv; [apply incl_refl|exact Hold| |exact Hm]. simpl. left. exact Ha.
    + split; [apply incl_tl, incl_refl|]. intros m Hm. cbn [g_nodes g_leaders] in *.
      eapply upd_nadv; [apply incl_tl, incl_refl|exact Hold| |exact Hm]. cbn [gn_run nadv].
      destruct (become_leader_adv (gn_P n) s') as (Ht & [Hl'|Hl']); [right|left; exact Hl'].
      rewrite Ht, Hl', Ha. unfold gn_id in Hid. rewrite Hid. left. reflexivity.
    + split; [apply incl_refl|]. intros m Hm. cbn [g_nodes g_leaders] in *.
      eapply upd_nadv; [apply incl_refl|exact Hold| |exact Hm]. exact I.
  - (* a RequestVote is executed *)
    destruct (find_node (g_nodes g) i) as [ni|]; [|discriminate].
    destruct (find_node (g_nodes g) j) as [nj|] eqn:Hf; [|discriminate].
    destruct (find_node_in _ _ _ Hf) as [Hin Hid].
    destruct (gn_sess ni) as [se|]; [|discriminate]. destruct (negb _); [discriminate|].
    pose proof (step_full_nadv (gn_P nj) (gn_run nj) (NVote (se_req se)) cut fs (g_leaders g) (Hold nj Hin)) as Hs.
    destruct (step_full (gn_P nj) (gn_run nj) (NVote (se_req se)) cut fs) as [[r' ob] out]. cbn [fst] in Hs.
    inversion Hstep; subst g'; clear Hstep. cbn [g_leaders g_nodes]. split; [apply incl_refl|].
    intros m Hm. cbn [g_nodes g_leaders] in *. eapply upd_nadv; [apply incl_refl|exact Hold| |exact Hm].
    cbn [gn_run]. apply Hs; [discriminate|intros q; discriminate|intros a; discriminate].
  - (* a vote result reaches the loop *)
    destruct (find_node (g_nodes g) i) as [n|] eqn:Hf; [|discriminate].
    destruct (find_node_in _ _ _ Hf) as [Hin Hid].
    destruct (gn_run n) as [s|s] eqn:Hr; [|discriminate]. destruct (gn_sess n) as [se|]; [|discriminate].
    destruct (mem j (se_got se)); [discriminate|].
    destruct (find_resp _ _ _ _) as [rp|]; [|discriminate].
    match type of Hstep with context [sess_step ?P false (SCand s ?C) (CVote ?V)] =>
      pose proof (sess_vote_adv P s C V) as Ha; destruct (sess_step P false (SCand s C) (CVote V)) as [x tr] end.
    cbn [fst] in Ha. destruct x as [s' c|s'|s'|s']; inversion Hstep; subst g'; clear Hstep; cbn [g_leaders g_nodes].
    + split; [apply incl_refl|]. intros m Hm. cbn [g_nodes g_leaders] in *.
      eapply upd_nadv; [apply incl_refl|exact Hold| |exact Hm]. cbn [gn_run]. subst s'.
      specialize (Hold n Hin). rewrite Hr in Hold. exact Hold.
    + split; [apply incl_refl|]. intros m Hm. cbn [g_nodes g_leaders] in *.
      eapply upd_nadv; [apply incl_refl|exact Hold| |exact Hm]. simpl. left. exact Ha.
    + split; [apply incl_tl, incl_refl|]. intros m Hm. cbn [g_nodes g_leaders] in *.
      eapply upd_nadv; [apply incl_tl, incl_refl|exact Hold| |exact Hm]. cbn [gn_run nadv].
      destruct (become_leader_adv (gn_P n) s') as (Ht & [Hl'|Hl']); [right|left; exact Hl'].
      rewrite Ht, Hl', Ha. unfold gn_id in Hid. rewrite Hid. left. reflexivity.
    + split; [apply incl_refl|]. intros m Hm. cbn [g_nodes g_leaders] in *.
      eapply upd_nadv; [apply incl_refl|exact Hold| |exact Hm]. exact I.
  - (* any other event at j *)
    destruct Hl as [Hni Hap].
    assert (Hne : e <> NElect) by (intros ->; discriminate).
    assert (Hgo : match find_node (g_nodes g) j with
                  | Some nj => let '(r', ob, _) := step_full (gn_P nj) (gn_run nj) e cut fs in
                               Some (mkG (upd_node (g_nodes g) j (mkGN (gn_P nj) r' (keep_sess r' (gn_sess nj)) (gn_next nj)))
                                         (g_resps g) (g_leaders g) (grant_ghost j ob ++ g_grants g))
                  | None => None end = Some g').
    { destruct e; try discriminate; exact Hstep. }
    clear Hstep. destruct (find_node (g_nodes g) j) as [nj|] eqn:Hf; [|discriminate].
    destruct (find_node_in _ _ _ Hf) as [Hin Hid].
    pose proof (step_full_nadv (gn_P nj) (gn_run nj) e cut fs (g_leaders g) (Hold nj Hin) Hne Hni Hap) as Hs.
    destruct (step_full (gn_P nj) (gn_run nj) e cut fs) as [[r' ob] out]. cbn [fst] in Hs.
    inversion Hgo; subst g'; clear Hgo. cbn [g_leaders g_nodes]. split; [apply incl_refl|].
    intros m Hm. cbn [g_nodes g_leaders] in *. eapply upd_nadv; [apply incl_refl|exact Hold| |exact Hm]. exact Hs.
Qed.

(* ---------------------------------------------------------------- the replication system *)
Definition msgs_rec (g : lgstate) : Prop :=
  forall m, In m (lg_msgs g) -> In (aq_term (am_req m), am_from m) (g_leaders (lg_g g)).
Definition msgs_ids (g : lgstate) : Prop := forall m, In m (lg_msgs g) -> aq_id (am_req m) = am_from m.

Lemma lstep_adv sn cfgs g l g' : lstep sn cfgs g l = Some g' -> msgs_rec g -> msgs_ids g -> nodes_adv (lg_g g) ->
  incl (g_leaders (lg_g g)) (g_leaders (lg_g g')) /\ nodes_adv (lg_g g') /\ msgs_ids g'.
Proof.
  intros Hstep Hrec Hids Hold. destruct l as [gl|i ty data fs|i j next last|i j|k cut fs]; unfold lstep in Hstep.
  - destruct (ClusterLog.label_ok sn gl) eqn:Hok; [|discriminate].
    destruct (gstep cfgs (lg_g g) gl) as [g1|] eqn:Hg; [|discriminate]. inversion Hstep; subst g'; clear Hstep.
    cbn [lg_g lg_msgs]. assert (Hl : glabel_adv (lg_g g) gl).
    { destruct gl as [| | |j e cut fs]; try exact I. simpl in Hok. split.
      - intros q ->. discriminate.
      - intros a ->. discriminate. }
    destruct (gstep_adv cfgs (lg_g g) gl g1 Hg Hl Hold) as [Hi Hn]. split; [exact Hi|]. split; [exact Hn|exact Hids].
  - destruct (find_node (g_nodes (lg_g g)) i) as [n|] eqn:Hf; [|discriminate].
    destruct (find_node_in _ _ _ Hf) as [Hin Hid].
    destruct (gn_run n) as [s|s] eqn:Hr; [|discriminate]. destruct (v_role s =? Leader); [|discriminate].
    pose proof (dispatch_adv (gn_P n) (leader_setup s) fs [(ty, data, 0)]) as Hd. cbv zeta in Hd.
    destruct (dispatch (gn_P n) (leader_setup s) fs [(ty, data, 0)]) as [[[ls' res] tr] fs']. cbn [fst] in Hd.
    inversion Hstep; subst g'; clear Hstep. cbn [lg_g lg_msgs]. split; [apply incl_refl|]. split; [|exact Hids].
    apply set_node_run_adv; [exact Hold|]. cbn [nadv]. destruct Hd as (Ht & [Hl|Hl]); [|left; exact Hl].
    cbn [leader_setup l_node] in Ht, Hl. rewrite Ht, Hl. specialize (Hold n Hin). rewrite Hr in Hold. exact Hold.
  - destruct (find_node (g_nodes (lg_g g)) i) as [n|]; [|discriminate].
    destruct (gn_run n) as [s|s]; [|discriminate]. destruct (_ && _); [|discriminate].
    destruct (setup_send (gn_P n) s next last) as [pi pt es c| |]; try discriminate.
    inversion Hstep; subst g'; clear Hstep. cbn [lg_g lg_msgs]. split; [apply incl_refl|]. split; [exact Hold|].
    intros m Hm. apply in_app_iff in Hm. destruct Hm as [Hm|[<-|[]]]; [apply Hids, Hm|reflexivity].
  - destruct (find_node (g_nodes (lg_g g)) i) as [n|]; [|discriminate].
    destruct (gn_run n) as [s|s]; [|discriminate]. destruct (_ && _); [|discriminate].
    inversion Hstep; subst g'; clear Hstep. cbn [lg_g lg_msgs]. split; [apply incl_refl|]. split; [exact Hold|].
    intros m Hm. apply in_app_iff in Hm. destruct Hm as [Hm|[<-|[]]]; [apply Hids, Hm|reflexivity].
  - destruct (nth_error (lg_msgs g) k) as [m|] eqn:Hk; [|discriminate]. apply nth_error_In in Hk.
    destruct (gstep cfgs (lg_g g) _) as [g1|] eqn:Hg; [|discriminate]. inversion Hstep; subst g'; clear Hstep.
    cbn [lg_g lg_msgs]. assert (Hl : glabel_adv (lg_g g) (GInput (am_to m) (NAppend (am_req m)) cut fs)).
    { split; [intros q; discriminate|]. intros a Ha. inversion Ha; subst a. rewrite (Hids m Hk). apply Hrec, Hk. }
    destruct (gstep_adv cfgs (lg_g g) _ g1 Hg Hl Hold) as [Hi Hn]. split; [exact Hi|]. split; [exact Hn|exact Hids].
Qed.

(* ---------------------------------------------------------------- the system with commitment *)
Lemma cstep_adv sn cfgs g l g' : cstep sn cfgs g l = Some g' ->
  msgs_rec (cg_l g) -> msgs_ids (cg_l g) -> nodes_adv (lg_g (cg_l g)) ->
  nodes_adv (lg_g (cg_l g')) /\ msgs_ids (cg_l g').
Proof.
  intros Hstep Hrec Hids Hold. destruct l as [bl|k|i j|i].
  - apply cstep_base_inv in Hstep. destruct Hstep as (_ & l' & Hl & ->). cbn [cg_l].
    destruct (lstep_adv sn cfgs (cg_l g) bl l' Hl Hrec Hids Hold) as (_ & A & B). split; assumption.
  - apply cstep_ack_inv in Hstep. destruct Hstep as (a & m & n & ld0 & s & _ & _ & Hf & _ & Hr & _ & _ & _ & ->).
    unfold ack_result. destruct (_ <? _).
    + cbn [cg_l lg_g lg_msgs]. split; [|exact Hids]. apply set_node_run_adv; [exact Hold|]. simpl. left. reflexivity.
    + destruct (ar_success _); [destruct (aq_entries _)|]; cbn [cg_l]; split; assumption.
  - apply cstep_giveup_inv in Hstep. destruct Hstep as (n & ld & s & k & _ & _ & _ & _ & _ & ->). cbn [cg_l]. split; assumption.
  - apply cstep_commit_inv in Hstep. destruct Hstep as (n & ld & s & ls2 & tr & res & Hf & _ & Hr & _ & _ & Hc & ->).
    cbn [cg_l lg_g lg_msgs]. split; [|exact Hids]. apply set_node_run_adv; [exact Hold|].
    apply leader_commit_lk in Hc. destruct Hc as (A & B). cbn [l_node] in A, B. cbn [nadv]. rewrite A, B.
    destruct (find_node_in _ _ _ Hf) as [Hin _]. specialize (Hold n Hin). rewrite Hr in Hold. exact Hold.
Qed.

(* ---------------------------------------------------------------- what the known invariant gives *)
Section Main.
  Variable cfg : config.
  Variable Ps : list params.
  Hypothesis HVn : NoDup (voters cfg).

  Lemma Zinv_facts g : Zinv cfg Ps g ->
    one_leader_per_term g /\ leaders_are_recorded g /\ msgs_rec (cg_l g).
  Proof.
    intros (C & LL & A & V & HI). pose proof (zv_l _ _ _ _ _ _ _ HI) as HL.
    split; [|split].
    - intros T i i' H1 H2. apply (leaders_fun [cfg] (lg_g (cg_l g)) T i i' (quorums_intersect_one cfg HVn) (zl_g _ _ _ HL) H1 H2).
    - intros n s Hin Hr Hrole. destruct (zl_nodes _ _ _ HL n Hin) as [_ Hlead]. apply (Hlead s Hr Hrole).
    - intros m Hm. destruct (zl_msgs _ _ _ HL m Hm) as (_ & B & _). exact B.
  Qed.

  Lemma crun_adv sn ls : forall g g', Zinv cfg Ps g -> Forall label_ok ls -> crun sn [cfg] g ls = Some g' ->
    msgs_ids (cg_l g) -> nodes_adv (lg_g (cg_l g)) -> msgs_ids (cg_l g') /\ nodes_adv (lg_g (cg_l g')).
  Proof.
    induction ls as [|l r IH]; intros g g' HZ Hls Hrun Hids Hadv; simpl in Hrun.
    - inversion Hrun; subst. split; assumption.
    - destruct (cstep sn [cfg] g l) as [g1|] eqn:E; [|discriminate]. inversion Hls as [|? ? Hl Hr]; subst.
      destruct (Zinv_facts g HZ) as (_ & _ & Hrec).
      destruct (cstep_adv sn [cfg] g l g1 E Hrec Hids Hadv) as [A B].
      apply (IH g1 g'); [eapply cstep_zinv; eassumption|exact Hr|exact Hrun|exact B|exact A].
  Qed.
End Main.

(* WHO ACTS AS LEADER, in every reachable state, with and without takeSnapshot *)
Theorem leaders_faithful_all_runs : forall sn cfg g0 ls g,
  cinit_snap_ok cfg g0 -> nobody_advertised g0 -> Forall label_ok ls -> crun sn [cfg] g0 ls = Some g ->
  one_leader_per_term g /\ ae_senders_are_leaders g /\ advertised_leaders_are_leaders g /\ leaders_are_recorded g.
Proof.
  intros sn cfg g0 ls g H0 Hnb Hls Hrun. pose proof H0 as ((Hli & _ & _ & _ & HVn & _) & _).
  set (Ps := map gn_P (cnodes g0)).
  pose proof (cinit_zinv cfg g0 H0) as HZ0.
  pose proof (crun_zinv cfg Ps HVn sn ls g0 g HZ0 Hls Hrun) as HZ.
  destruct (Zinv_facts cfg Ps HVn g HZ) as (H1 & H4 & Hrec).
  assert (Hm0 : lg_msgs (cg_l g0) = []) by (destruct Hli as (_ & Hm & _); exact Hm).
  destruct (crun_adv cfg Ps HVn sn ls g0 g HZ0 Hls Hrun) as [Hids Hadv].
  { intros m Hm. rewrite Hm0 in Hm. destruct Hm. }
  { intros n Hin. destruct (gn_run n) as [s|s] eqn:Hr; [|exact I]. left. apply (Hnb n s Hin Hr). }
  split; [exact H1|]. split; [|split; [|exact H4]].
  - intros m Hm. split; [apply Hrec, Hm|apply Hids, Hm].
  - intros n s Hin Hr Hne. specialize (Hadv n Hin). rewrite Hr in Hadv. destruct Hadv as [Hz|Hrec']; [contradiction|exact Hrec'].
Qed.

Print Assumptions leaders_faithful_all_runs.
