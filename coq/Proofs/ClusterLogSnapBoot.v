(* ClusterLogSnapBoot.v — stage 2: processLogs, the snapshot listing, and NewRaft (boot) re-establish
   the node invariant from a good durable image. *)
From Coq Require Import List NArith Bool Lia.
From stdpp Require Import gmap.
From RaftModel Require Import Base Config Compaction Node NodeCodec.
From RaftProofs Require Import RecoverProofs ClusterLogSpec ClusterLogChain ClusterLogNode ClusterLogInit
  ClusterLogSnapSpec ClusterLogSnapNode ClusterLogSnapState.
Open Scope N_scope.

(* ---------------------------------------------------------------- processLogs *)
Lemma last_opt_in l e : last_opt l = Some e -> In e l.
Proof.
  destruct l as [|x r]; [discriminate|]. simpl. intros H; inversion H; subst. clear H.
  destruct r as [|y r]; [left; reflexivity|]. right. apply last_in. discriminate.
Qed.

(* everything but lastApplied, the FSM content and the FSM goroutine's last index is untouched *)
Definition pkeep (s' s : nstate) : Prop :=
  d_log s' = d_log s /\ d_snaps s' = d_snaps s /\ d_pcommit s' = d_pcommit s /\ d_staged s' = d_staged s /\
  v_lastLogIdx s' = v_lastLogIdx s /\ v_lastLogTerm s' = v_lastLogTerm s /\
  v_lastSnapIdx s' = v_lastSnapIdx s /\ v_lastSnapTerm s' = v_lastSnapTerm s /\
  v_commit s' = v_commit s /\ d_term s' = d_term s.

Lemma process_logs_fsm s idx s' tr : keys_ok (d_log s) -> process_logs s idx = Some (s', tr) ->
  pkeep s' s /\
  ((v_applied s' = v_applied s /\ v_fsmLast s' = v_fsmLast s) \/
   (v_applied s < idx /\ v_applied s' = idx /\
    (v_fsmLast s' = v_fsmLast s \/
     exists e, d_log s !! e_idx e = Some e /\ v_applied s < e_idx e <= idx /\ v_fsmLast s' = key e))).
Proof.
  intros Hk. unfold process_logs. destruct (N.leb_spec idx (v_applied s)) as [Hle|Hlt].
  - intros H; inversion H; subst. split; [repeat split|left; auto].
  - destruct (collect_logs (d_log s) (v_applied s) (N.to_nat (idx - v_applied s))) as [es|] eqn:E; [|discriminate].
    intros H; inversion H; subst s' tr. clear H. split; [repeat split|right].
    split; [exact Hlt|]. split; [reflexivity|]. cbn [v_fsmLast set_applied_fsm].
    destruct (last_opt (filter (fun e => prepare_kind (e_ty e) =? 1) es)) as [e|] eqn:EL; [right|left; reflexivity].
    apply last_opt_in in EL. apply filter_In in EL. destruct EL as [Hin _].
    destruct (collect_logs_spec _ _ _ _ E) as [L1 L2].
    destruct (In_nth es e (mkE 0 0 0 0) Hin) as (k & Hk1 & Hk2).
    assert (Hl : d_log s !! (v_applied s + 1 + N.of_nat k) = Some e) by (rewrite <- Hk2; apply L2; lia).
    pose proof (Hk _ _ Hl) as Hi. exists e. split; [rewrite Hi; exact Hl|]. split; [lia|reflexivity].
Qed.

(* ---------------------------------------------------------------- the snapshot listing *)
Definition sle (y x : snapshot) : bool :=
  (sn_term y <? sn_term x) || ((sn_term y =? sn_term x) && (sn_idx y <=? sn_idx x)).

Lemma sle_spec y x : sle y x = true <-> sn_term y < sn_term x \/ (sn_term y = sn_term x /\ sn_idx y <= sn_idx x).
Proof.
  unfold sle. rewrite orb_true_iff, andb_true_iff, N.ltb_lt, N.eqb_eq, N.leb_le. tauto.
Qed.

Fixpoint sorted_desc (l : list snapshot) : Prop :=
  match l with [] => True | h :: t => (forall z, In z t -> sle z h = true) /\ sorted_desc t end.

Lemma insert_snap_in x l z : In z (insert_snap x l) <-> z = x \/ In z l.
Proof.
  induction l as [|y r IH]; simpl; [intuition|]. fold (sle y x).
  destruct (sle y x); simpl; [intuition|]. rewrite IH. intuition.
Qed.

Lemma insert_snap_sorted x l : sorted_desc l -> sorted_desc (insert_snap x l).
Proof.
  induction l as [|y r IH]; simpl; [intros _; split; [intros z []|exact I]|]. fold (sle y x).
  intros [Hy Hr]. destruct (sle y x) eqn:E.
  - split; [|split; assumption]. intros z [<-|Hz]; [exact E|].
    specialize (Hy z Hz). apply sle_spec in Hy, E. apply sle_spec. lia.
  - simpl. split; [|apply IH, Hr]. intros z Hz. apply insert_snap_in in Hz. destruct Hz as [->|Hz]; [|apply Hy, Hz].
    apply sle_spec. assert (Hn : ~ (sn_term y < sn_term x \/ sn_term y = sn_term x /\ sn_idx y <= sn_idx x)).
    { intros H. apply sle_spec in H. congruence. } lia.
Qed.

Lemma list_snaps_spec l : sorted_desc (list_snaps l) /\ forall z, In z (list_snaps l) <-> In z l.
Proof.
  unfold list_snaps.
  assert (G : forall l acc, sorted_desc acc ->
            sorted_desc (fold_left (fun a x => insert_snap x a) l acc) /\
            forall z, In z (fold_left (fun a x => insert_snap x a) l acc) <-> In z l \/ In z acc).
  { clear l. induction l as [|x r IH]; intros acc Hs; simpl; [split; [exact Hs|intuition]|].
    destruct (IH (insert_snap x acc) (insert_snap_sorted x acc Hs)) as [A B]. split; [exact A|].
    intros z. rewrite B, insert_snap_in. intuition. }
  destruct (G l [] I) as [A B]. split; [exact A|]. intros z. rewrite B. simpl. intuition.
Qed.

(* with only usable snapshots NewRaft restores the (term, index)-largest one *)
Lemma find_ok_snap l : (forall sn, In sn l -> sn_ok sn = true) ->
  match find sn_ok (list_snaps l) with
  | Some sn => In sn l /\ forall z, In z l -> z = sn \/ sle z sn = true
  | None => l = []
  end.
Proof.
  intros Hok. destruct (list_snaps_spec l) as [Hs Hm].
  destruct (list_snaps l) as [|h t] eqn:E.
  - simpl. destruct l as [|x r]; [reflexivity|]. exfalso. apply (proj2 (Hm x)). left. reflexivity.
  - simpl. rewrite (Hok h) by (apply Hm; left; reflexivity).
    split; [apply Hm; left; reflexivity|]. intros z Hz. apply Hm in Hz. destruct Hz as [<-|Hz]; [left; reflexivity|].
    right. apply (proj1 Hs z Hz).
Qed.

(* ---------------------------------------------------------------- NewRaft: what is applied at boot *)
Lemma scan_configs_fsm P n : forall s from s', scan_configs P s from n = Some s' -> v_fsmLast s' = v_fsmLast s.
Proof.
  induction n as [|n IH]; intros s from s' H; simpl in H; [inversion H; reflexivity|].
  destruct (d_log s !! from) as [e|]; [|discriminate]. rewrite (IH _ _ _ H).
  unfold process_config_entry. destruct (e_ty e =? LogConfiguration); reflexivity.
Qed.

Lemma recover_apply P img s tr : recover P img = RecOk s tr ->
  let a0 := match find sn_ok (list_snaps (d_snaps img)) with Some sn => sn_idx sn | None => 0 end in
  (v_commit s = 0 /\ v_applied s = a0 /\ v_fsmLast s = (0, 0)) \/
  (exists s3 s4 tr4, let ci := N.min (d_pcommit img) (log_last (d_log img)) in
     d_log s3 = d_log img /\ v_applied s3 = a0 /\ v_fsmLast s3 = (0, 0) /\ v_commit s3 = ci /\
     process_logs s3 ci = Some (s4, tr4) /\
     v_commit s = v_commit s4 /\ v_applied s = v_applied s4 /\ v_fsmLast s = v_fsmLast s4).
Proof.
  cbv zeta. unfold recover. destruct (rec_last _) as [le|] eqn:EL; [|discriminate].
  destruct (rec_snapshot _) as [[s3 tr3]|] eqn:E3; [|discriminate].
  destruct (rec_committed P s3) as [| | |s4 tr4] eqn:E4; try discriminate.
  match goal with |- context [scan_configs P ?S ?F ?N] => destruct (scan_configs P S F N) as [s5|] eqn:ES end; [|discriminate].
  fold (rec_fin s5). intros H; inversion H; subst s tr. clear H.
  assert (F5 : v_fsmLast (rec_fin s5) = v_fsmLast s4)
    by (rewrite <- (scan_configs_fsm _ _ _ _ _ ES); unfold rec_fin; destruct (_ && _); reflexivity).
  apply scan_configs_durable_fin in ES. destruct ES as (_ & _ & A5 & _ & _ & _ & _ & _ & _ & C5).
  set (s2 := set_lastlog (set_vol_term (fresh_volatile img) (d_term img)) (e_idx le) (e_term le)) in *.
  assert (H3 : d_log s3 = d_log img /\ d_pcommit s3 = d_pcommit img /\ v_commit s3 = 0 /\ v_fsmLast s3 = (0, 0) /\
               v_applied s3 = match find sn_ok (list_snaps (d_snaps img)) with Some sn => sn_idx sn | None => 0 end).
  { unfold rec_snapshot in E3. change (d_snaps s2) with (d_snaps img) in E3.
    destruct (find sn_ok (list_snaps (d_snaps img))) as [sn|].
    - inversion E3; subst. repeat split.
    - destruct (list_snaps (d_snaps img)); [|discriminate]. inversion E3; subst. repeat split. }
  destruct H3 as (L3 & P3 & C3 & F3 & A3).
  unfold rec_committed in E4. destruct (p_rc P).
  - destruct (negb (p_track P)); [discriminate|].
    match type of E4 with context [process_logs ?S ?I] => destruct (process_logs S I) as [[s4' tr4']|] eqn:EP end; [|discriminate].
    match type of E4 with context [if ?B then _ else _] => destruct B end; [discriminate|].
    inversion E4; subst s4' tr4'. clear E4. right.
    rewrite P3, L3 in EP.
    exists (set_commit s3 (N.min (d_pcommit img) (log_last (d_log img)))), s4, tr4. cbv zeta.
    split; [exact L3|]. split; [exact A3|]. split; [exact F3|]. split; [reflexivity|]. split; [exact EP|].
    split; [exact C5|]. split; [exact A5|exact F5].
  - inversion E4; subst s4 tr4. left. split; [congruence|]. split; congruence.
Qed.

Section Boot.
  Variable base : list entry.
  Variable c0 : N.
  Hypothesis Hh : hist_ok (0, 0) base.

  Lemma boot_snlog C P img r out : cb_ok base c0 C -> simg base c0 C img -> boot P img = (r, out) ->
    snlog base c0 C r /\ d_term (image r) = d_term img /\ (forall s, r = Up s -> v_role s = Follower).
  Proof.
    intros HCB Himg. pose proof (cb_chain base c0 C HCB) as HC.
    pose proof Himg as [Hsn Hin [top Hbel] Hpc Hst Hc0 Htb]. unfold boot.
    destruct (recover P img) as [s tr| | |] eqn:ER; intros HB; inversion HB; subst r out; clear HB;
      try (simpl; split; [exact Himg|]; split; [reflexivity|]; intros s0 Hs0; discriminate).
    pose proof (recover_apply P img s tr ER) as Happ. cbv zeta in Happ.
    apply recover_ok in ER; [|eapply log_in_keys; exact Hin].
    destruct ER as ((Dt & _ & _ & Dl & Dstg & Dpc & Ds) & Hvt & Hrole & Hli & Hlt & Hsnap & _).
    pose proof (find_ok_snap (d_snaps img) (fun sn H => proj1 (Hsn sn H))) as Hfind.
    set (a0 := match find sn_ok (list_snaps (d_snaps img)) with Some sn => sn_idx sn | None => 0 end) in *.
    assert (Hsi : v_lastSnapIdx s = a0).
    { unfold a0. destruct (find sn_ok (list_snaps (d_snaps img))); apply Hsnap. }
    simpl. split; [|split; [exact Dt|intros s0 Hs0; inversion Hs0; subst; exact Hrole]].
    (* the cached last-log *)
    assert (Hcache : v_lastLogTerm s <= d_term img /\ (v_lastLogIdx s = 0 -> v_lastLogTerm s = 0) /\
                     log_below C (d_log img) (v_lastLogIdx s, v_lastLogTerm s) /\
                     ((v_lastLogIdx s, v_lastLogTerm s) = (0, 0) \/ ckey C (v_lastLogIdx s, v_lastLogTerm s))).
    { destruct (log_last_in (d_log img)) as [E0|(le & Hle)].
      - rewrite E0 in Hlt, Hli. change (0 <? 0) with false in Hlt. cbv iota in Hlt.
        split; [rewrite Hlt; lia|]. split; [intros _; exact Hlt|]. split; [|left; rewrite Hli, Hlt; reflexivity].
        intros i e Hl. exfalso. pose proof (log_in_pos C _ _ i e HC Hin Hl). pose proof (log_last_ge _ i e Hl). lia.
      - pose proof (log_in_pos C _ _ _ le HC Hin Hle) as Hpos.
        destruct (N.ltb_spec 0 (log_last (d_log img))) as [_|Hc]; [|lia].
        destruct Hlt as (e0 & He0 & Hlt). rewrite Hle in He0. inversion He0; subst e0. clear He0.
        destruct (Hin _ le Hle) as (Hk & (p & Hp) & Hterm).
        assert (Hkey : (v_lastLogIdx s, v_lastLogTerm s) = key le) by (unfold key; rewrite Hli, Hlt, Hk; reflexivity).
        split; [rewrite Hlt; exact Hterm|]. split; [intros E; lia|]. rewrite Hkey. split; [|right; exists le, p; auto].
        intros i e Hl. apply (anc_linear C (key e) (key le) top HC); [apply (Hbel i e Hl)|apply (Hbel _ le Hle)|].
        unfold key. simpl. destruct (Hin i e Hl) as (Hk' & _). rewrite Hk', Hk. apply (log_last_ge _ i e Hl). }
    destruct Hcache as (Hc1 & Hc2 & Hc3 & Hc4).
    (* commit index, lastApplied, the FSM goroutine *)
    assert (Hfsm : v_commit s <= c0 /\ fsm_ok base c0 (v_fsmLast s) /\ a0 <= v_applied s /\
                   fst (v_fsmLast s) <= v_applied s /\ (fst (v_fsmLast s) = 0 \/ a0 <= fst (v_fsmLast s))).
    { destruct Happ as [(A1 & A2 & A3)|(s3 & s4 & tr4 & L3 & A3 & F3 & C3 & EP & C4 & A4 & F4)].
      - rewrite A1, A2, A3. simpl. split; [lia|]. split; [left; reflexivity|]. split; [lia|]. split; [lia|left; reflexivity].
      - apply process_logs_fsm in EP; [|rewrite L3; eapply log_in_keys; exact Hin].
        destruct EP as ((_ & _ & _ & _ & _ & _ & _ & _ & K9 & _) & Hcase).
        rewrite C4, A4, F4, K9, C3. split; [lia|].
        destruct Hcase as [(E1 & E2)|(Hlt4 & E1 & [E2|(e & He & Hr & E2)])]; rewrite E1, E2, ?F3, ?A3; simpl.
        + split; [left; reflexivity|]. split; [lia|]. split; [lia|left; reflexivity].
        + split; [left; reflexivity|]. split; [lia|]. split; [lia|left; reflexivity].
        + rewrite L3 in He. destruct (Hin _ e He) as (_ & (p & Hp) & _).
          split; [right; apply (low_bkey base c0 Hh C e p HCB Hp); lia|]. split; [lia|]. split; [lia|right; lia]. }
    destruct Hfsm as (F1 & F2 & F3 & F4 & F5).
    constructor; rewrite ?Ds, ?Dl, ?Dt, ?Dstg, ?Dpc, ?Hsi; auto.
    - (* snapshot key *)
      destruct (find sn_ok (list_snaps (d_snaps img))) as [sn|] eqn:EF.
      + destruct Hsnap as [S1 S2]. right. rewrite <- Hsi, S1, S2. apply Hsn, Hfind.
      + left. reflexivity.
    - (* the history up to c0 is reachable through the cache or the snapshot *)
      destruct Hc0 as [E0|[(e & He)|(z & Hz & Ez)]].
      + left. lia.
      + left. rewrite Hli. apply (log_last_ge _ _ e He).
      + right. unfold a0. destruct (find sn_ok (list_snaps (d_snaps img))) as [sn|] eqn:EF.
        * destruct Hfind as [Hsnin Hmax]. destruct (Hmax z Hz) as [->|Hle]; [exact Ez|].
          apply sle_spec in Hle. destruct (Hsn z Hz) as [_ Kz]. destruct (Hsn sn Hsnin) as [_ Ks].
          pose proof (bkey_order base c0 Hh _ _ Kz Ks Hle) as Ho. simpl in Ho.
          destruct Ks as ((_ & Hub) & _). simpl in Hub. lia.
        * rewrite Hfind in Hz. contradiction.
  Qed.
End Boot.
