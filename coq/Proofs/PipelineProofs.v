(* C16: pipeline pairing and ordering; framing over an abstract prefix codec. *)
From Coq Require Import List NArith Bool Lia.
From RaftModel Require Import Base Pipeline.
Open Scope N_scope.

(* invariant: every recorded success carries the tag of its own request *)
Definition own_tags (l : list (N * option N)) : Prop :=
  forall k t, In (k, Some t) l -> t = k.

Lemma own_tags_app a b : own_tags a -> own_tags b -> own_tags (a ++ b).
Proof. intros Ha Hb k t H. apply in_app_iff in H. destruct H; [apply Ha|apply Hb]; assumption. Qed.

Lemma own_tags_errors ks : own_tags (map (fun k => (k, None)) ks).
Proof. intros k t H. apply in_map_iff in H. destruct H as (x & Hx & _). discriminate. Qed.

Lemma pipe_step_own s o : own_tags (ps_results s) -> own_tags (ps_results (pipe_step s o)).
Proof.
  intros H. destruct o as [k| | |]; simpl.
  - destruct (ps_killed s); simpl; [|exact H]. apply own_tags_app; [exact H|].
    intros k' t [E|[]]. discriminate.
  - destruct (ps_pending s) as [|h r]; [exact H|]. destruct (ps_killed s); [exact H|]. simpl.
    apply own_tags_app; [exact H|]. intros k t [E|[]]. inversion E; reflexivity.
  - apply own_tags_app; [exact H|apply own_tags_errors].
  - destruct (ps_pending s) as [|h r]; [exact H|]. destruct (ps_killed s); [exact H|]. simpl.
    apply own_tags_app; [exact H|]. intros k t [E|[]]. discriminate.
Qed.

(* Whatever the script: a future that resolves with a response resolves with the response to
   ITS OWN request - never another request's. *)
Theorem pipeline_pairing ops : own_tags (pipe_run ops).
Proof.
  unfold pipe_run, pipe_close.
  assert (G : forall s, own_tags (ps_results s) -> own_tags (ps_results (fold_left pipe_step ops s))).
  { induction ops as [|o r IH]; intros s H; simpl; [exact H|]. apply IH, pipe_step_own, H. }
  apply own_tags_app; [apply G; intros k t []|apply own_tags_errors].
Qed.

(* successes are delivered in send order: the successful tags, in resolution order, are a
   subsequence of the pending queue order, i.e. FIFO *)
Definition successes (l : list (N * option N)) : list N :=
  flat_map (fun x => match snd x with Some t => [t] | None => [] end) l.

Lemma successes_app a b : successes (a ++ b) = successes a ++ successes b.
Proof. unfold successes. apply flat_map_app. Qed.

Lemma successes_errors ks : successes (map (fun k => (k, None)) ks) = [].
Proof. induction ks; simpl; auto. Qed.

(* state invariant: results' successes followed by the pending queue is a subsequence of the
   send order *)
Fixpoint subseq (a b : list N) : Prop :=
  match a, b with
  | [], _ => True
  | _ :: _, [] => False
  | x :: a', y :: b' => (x = y /\ subseq a' b') \/ subseq a b'
  end.

Lemma subseq_refl a : subseq a a.
Proof. induction a; simpl; auto. Qed.

Lemma subseq_nil a : subseq [] a.
Proof. destruct a; exact I. Qed.

Lemma subseq_app_r a b c : subseq a b -> subseq a (b ++ c).
Proof.
  revert a. induction b as [|y b IH]; intros a H; simpl in *.
  - destruct a; [apply subseq_nil|contradiction].
  - destruct a as [|x a]; [exact I|]. destruct H as [[E H]|H]; [left; split; [exact E|apply IH, H]|right; apply IH, H].
Qed.

Lemma subseq_snoc a b k : subseq a b -> subseq (a ++ [k]) (b ++ [k]).
Proof.
  revert a. induction b as [|y b IH]; intros a H; simpl in *.
  - destruct a; [simpl; auto|contradiction].
  - destruct a as [|x a]; simpl.
    + right. apply (IH [] (subseq_nil b)).
    + destruct H as [[E H]|H]; [left; split; [exact E|apply IH, H]|right; apply (IH (x :: a) H)].
Qed.

Lemma subseq_drop_mid a h r b : subseq (a ++ h :: r) b -> subseq (a ++ r) b.
Proof.
  revert a. induction b as [|y b IH]; intros a H.
  - destruct a; simpl in H; contradiction.
  - destruct a as [|x a]; simpl in *.
    + destruct H as [[_ H]|H]; [destruct r; [exact I|]; right; exact H|].
      destruct r as [|r0 r]; [exact I|]. right. apply (IH [] H).
    + destruct H as [[E H]|H]; [left; split; [exact E|apply IH, H]|right; apply (IH (x :: a) H)].
Qed.

Lemma subseq_prefix a b c : subseq (a ++ b) c -> subseq a c.
Proof.
  revert a. induction c as [|y c IH]; intros a H.
  - destruct a; [exact I|simpl in H; contradiction].
  - destruct a as [|x a]; [exact I|]. simpl in *.
    destruct H as [[E H]|H]; [left; split; [exact E|apply IH, H]|right; apply (IH (x :: a) H)].
Qed.

Theorem pipeline_fifo ops : subseq (successes (pipe_run ops)) (sends_of ops).
Proof.
  unfold pipe_run, pipe_close. rewrite successes_app, successes_errors, app_nil_r.
  assert (G : forall ops s sent,
    subseq (successes (ps_results s) ++ ps_pending s) sent ->
    subseq (successes (ps_results (fold_left pipe_step ops s)) ++ ps_pending (fold_left pipe_step ops s)) (sent ++ sends_of ops)).
  { clear ops. induction ops as [|o r IH]; intros s sent H; simpl.
    - rewrite app_nil_r. exact H.
    - destruct o as [k| | |]; simpl.
      + replace (sent ++ k :: sends_of r) with ((sent ++ [k]) ++ sends_of r) by (rewrite <- app_assoc; reflexivity).
        apply IH. destruct (ps_killed s); simpl.
        * rewrite successes_app. simpl. rewrite app_nil_r. apply subseq_app_r. exact H.
        * rewrite app_assoc. apply subseq_snoc. exact H.
      + apply IH. destruct (ps_pending s) as [|h t] eqn:E; [rewrite E; exact H|].
        destruct (ps_killed s); [rewrite E; exact H|]. simpl.
        rewrite successes_app. simpl. rewrite <- app_assoc. simpl. exact H.
      + apply IH. simpl. rewrite successes_app, successes_errors, !app_nil_r.
        eapply subseq_prefix. exact H.
      + apply IH. destruct (ps_pending s) as [|h t] eqn:E; [rewrite E; exact H|].
        destruct (ps_killed s); [rewrite E; exact H|]. simpl.
        rewrite successes_app. simpl. rewrite app_nil_r. eapply subseq_drop_mid. exact H. }
  specialize (G ops (mkPS [] false []) [] I). simpl in G.
  eapply subseq_prefix. exact G.
Qed.

(* nothing succeeds after the connection was killed *)
Theorem pipeline_no_success_after_kill ops1 ops2 :
  successes (pipe_run (ops1 ++ PKill :: ops2)) = successes (pipe_run (ops1 ++ [PKill])).
Proof.
  unfold pipe_run, pipe_close. rewrite !fold_left_app. simpl.
  set (s := fold_left pipe_step ops1 (mkPS [] false [])).
  assert (G : forall ops s0, ps_killed s0 = true -> ps_pending s0 = [] ->
     successes (ps_results (fold_left pipe_step ops s0)) = successes (ps_results s0) /\
     ps_pending (fold_left pipe_step ops s0) = []).
  { induction ops as [|o r IH]; intros s0 Hk Hp; simpl; [auto|].
    destruct o as [k| | |]; simpl.
    - rewrite Hk. destruct (IH (mkPS (ps_pending s0) true (ps_results s0 ++ [(k, None)])) eq_refl Hp) as [A B].
      rewrite A, B. simpl. rewrite successes_app. simpl. rewrite app_nil_r. auto.
    - rewrite Hp. apply IH; assumption.
    - rewrite Hp. simpl. destruct (IH (mkPS [] true (ps_results s0 ++ [])) eq_refl eq_refl) as [A B].
      rewrite A, B. simpl. rewrite app_nil_r. auto.
    - rewrite Hp. apply IH; assumption. }
  destruct (G ops2 (mkPS [] true (ps_results s ++ map (fun k => (k, None)) (ps_pending s))) eq_refl eq_refl) as [A B].
  rewrite !successes_app. rewrite A, B. simpl. rewrite !successes_app, !successes_errors. reflexivity.
Qed.

(* ---------------------------------------------------------------- framing *)
Section FramingProofs.
  Variable msg : Type.
  Variable enc : msg -> list N.
  Variable dec : list N -> option (msg * list N).
  (* the codec law: a decoder reads exactly one encoded message off the front of any stream *)
  Hypothesis prefix_roundtrip : forall m rest, dec (enc m ++ rest) = Some (m, rest).
  Hypothesis enc_nonempty : forall m, enc m <> [].

  (* messages written back to back on one connection are read back in the same order, each one
     whole: the k-th response decoded is the k-th response written *)
  Theorem stream_roundtrip : forall ms, decode_stream msg dec (length ms) (flat_map enc ms) = ms.
  Proof.
    induction ms as [|m r IH]; simpl; [reflexivity|].
    destruct (enc m ++ flat_map enc r) eqn:E.
    - exfalso. apply (enc_nonempty m). destruct (enc m); [reflexivity|discriminate].
    - rewrite <- E. rewrite prefix_roundtrip. rewrite IH. reflexivity.
  Qed.
End FramingProofs.
