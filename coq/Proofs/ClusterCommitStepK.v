(* ClusterCommitStepK.v — a leader stores one new entry at the end of its log: what the invariant
   needs about the leader's server afterwards (shared by dispatchLogs and by the no-op of a new leader). *)
From Coq Require Import List NArith Bool Lia.
From stdpp Require Import gmap.
From RaftModel Require Import Base Config Compaction Commitment Node NodeCodec Candidate Leader Replicate Cluster ClusterLog ClusterCommit.
From RaftProofs Require Import ConfigProofs CommitmentProofs VoteProofs ClusterProofs
  ClusterLogSpec ClusterLogChain ClusterLogNode ClusterLogVote ClusterLogLeader ClusterLogInv ClusterLogSteps
  ClusterCommitSpec ClusterCommitLog ClusterCommitChain ClusterCommitAE2 ClusterCommitNode ClusterCommitNode3 ClusterCommitGhost
  ClusterCommitInv ClusterCommitFinal ClusterCommitUpd ClusterCommitStepA ClusterCommitStepD ClusterCommitStepE ClusterCommitStepJ.
Open Scope N_scope.

Lemma log_store_one_sub m e : m !! e_idx e = None -> log_sub m (log_store m [e]).
Proof.
  intros Hn i x Hx. rewrite log_store_one. destruct (N.eqb_spec (e_idx e) i) as [<-|]; [congruence|exact Hx].
Qed.

Section Append.
  Variable cfg : config.
  Variable Ps : list params.

  (* the new entry sits right above everything the server knew to be committed *)
  Lemma append_kc C LL A C' LL' A' s s'' e : incl C C' -> incl LL LL' -> incl A A' ->
    top_of (d_log s) (v_lastLogIdx s) ->
    (v_commit s <= v_lastLogIdx s /\ forall i x, d_log s !! i = Some x -> i <= v_commit s -> CK cfg C LL A (d_term s) (key x)) ->
    d_log s'' = log_store (d_log s) [e] -> e_idx e = v_lastLogIdx s + 1 -> v_lastLogIdx s'' = e_idx e ->
    v_commit s'' = v_commit s -> d_term s <= d_term s'' ->
    v_commit s'' <= v_lastLogIdx s'' /\ forall i x, d_log s'' !! i = Some x -> i <= v_commit s'' -> CK cfg C' LL' A' (d_term s'') (key x).
  Proof.
    intros HC HL HA Htop [K1 K2] Hlog Hi Hci Hc Ht. rewrite Hc, Hci. split; [lia|].
    intros i x Hx Hle. rewrite Hlog, log_store_one in Hx. destruct (N.eqb_spec (e_idx e) i) as [E|_]; [lia|].
    eapply (CK_mono cfg); [exact Ht|]. eapply CK_mono_g; eauto.
  Qed.

  (* every ancestor of the new key is held *)
  Lemma append_holds C' s'' e k0 : chain_ok C' -> nlog_up C' s'' -> lcontig (d_log s'') ->
    d_log s'' !! e_idx e = Some e -> anc C' k0 (key e) -> 1 <= fst k0 -> holds (d_log s'') k0.
  Proof.
    intros HC' (_ & Li & _ & _ & _ & Lb) Hlc He Hanc Hpos.
    apply (holds_anc C' (d_log s'') (d_term s'') _ (key e) k0 HC' Li Lb Hlc); [|exact Hanc|exact Hpos].
    exists e. split; [exact He|reflexivity].
  Qed.

  (* the leadership state after the leader stored the entry e after its last key; the commitment is not yet told *)
  Lemma lead_inv_append g g' C LL A An n n' s s'' e :
    lead_inv cfg g C LL A n s -> gn_id n' = gn_id n -> cg_lead g' = cg_lead g ->
    e_term e = v_term s -> v_term s'' = v_term s -> topk s'' = key e -> v_commit s'' = v_commit s ->
    lead_inv cfg g' ((e, topk s) :: C) LL (An ++ A) n' s''.
  Proof.
    intros (tl & ld & L1 & L2 & L3 & L4 & L5 & L6 & L7 & L8 & L9 & L10 & L11) Hid Hld Het Ht Htop Hc.
    exists tl, ld. rewrite Hid, Ht, Hld, Hc. split; [exact L1|]. split; [exact L2|]. split.
    { intros x p [E|H] Hxt; rewrite Htop.
      - inversion E; subst. apply anc_refl.
      - eapply anc_trans; [apply anc_cons, (L3 x p H Hxt)|]. eapply anc_up; [left; reflexivity|reflexivity|apply anc_refl]. }
    split; [rewrite <- Het; unfold topk, key in Htop; congruence|]. split; [exact L5|]. split; [exact L6|]. split.
    { intros j v Hv. destruct (L7 j v Hv) as [H|H]; [left; exact H|right; apply in_app_iff; right; exact H]. }
    split; [exact L8|]. split.
    { destruct L9 as [H|[H1 H2]]; [left; exact H|right; split; [exact H1|]]. eapply QA_mono; [|exact H2]. apply incl_appr, incl_refl. }
    split; [exact L10|exact L11].
  Qed.
End Append.
