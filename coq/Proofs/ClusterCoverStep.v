(* ClusterCoverStep.v — C11: what one step of Model/ClusterCommit.v (with takeSnapshot) does to the
   snapshot stores.  In a state satisfying the invariant of Proofs/ClusterCommitSnapInv.v, every server
   after the step has the snapshot store of a server before the step, or that store with ONE snapshot
   appended, taken by a running server at its FSM index (takeSnapshot, also when the process dies
   inside it after the snapshot became durable). *)
From Coq Require Import List NArith Bool Lia.
From stdpp Require Import gmap.
From RaftModel Require Import Base Config Compaction Commitment Node NodeCodec Candidate Leader Replicate Cluster ClusterLog ClusterCommit.
From RaftProofs Require Import ConfigProofs CommitmentProofs VoteProofs AppendProofs ClusterProofs
  ClusterLogSpec ClusterLogChain ClusterLogNode ClusterLogVote ClusterLogLeader ClusterLogSnapLeader ClusterLogInv ClusterLogSteps
  ClusterCommitSpec ClusterCommitLog ClusterCommitChain ClusterCommitNode ClusterCommitGhost
  ClusterCommitInv ClusterCommitUpd
  ClusterCommitSnapSpec ClusterCommitSnapLog ClusterCommitSnapBoot ClusterCommitSnapTake ClusterCommitSnapNode ClusterCommitSnapNode3
  ClusterCommitSnapLinv ClusterCommitSnapInv ClusterCommitSnapFinal ClusterCommitSnapStepO ClusterCommitSnapStepU
  ClusterCoverSpec ClusterCoverInv.
Open Scope N_scope.

(* ---------------------------------------------------------------- the candidate loop and runLeader *)
Lemma become_leader_snaps P s : d_snaps (become_leader P s) = d_snaps s.
Proof. unfold become_leader. destruct (dispatch_fields P s [] LogNoop 0 0) as (_ & _ & H & _). exact H. Qed.

Lemma sess_enter_snaps P s0 : d_snaps (sess_state (fst (sess_enter P false s0))) = d_snaps s0.
Proof.
  pose proof (sess_enter_cases P s0) as H. cbv zeta in H.
  destruct (self_is_voter P s0); [destruct (quorum_size (v_latest s0) <=? 1)|]; rewrite H; reflexivity.
Qed.

Lemma sess_vote_snaps P s c v : c_voting c = true ->
  d_snaps (sess_state (fst (sess_step P false (SCand s c) (CVote v)))) = d_snaps s.
Proof.
  intros Hv. rewrite (sess_vote_cases P s c v Hv). destruct (v_term s <? vr_term v); [reflexivity|]. cbv zeta.
  destruct (c_needed c <=? (if vr_granted v then c_granted c + 1 else c_granted c)); reflexivity.
Qed.

Section Step.
  Variable cfg : config.
  Variable Ps : list params.
  Hypothesis HVn : NoDup (voters cfg).
  Variables (g : cgstate) (C : chain) (LL : LLt) (A : At) (V : Vt).
  Hypothesis HI : zinv cfg Ps g C LL A V.

  Let Hlinv := zv_l cfg Ps g C LL A V HI.
  Let HC := ci_ok C LL (zv_ci cfg Ps g C LL A V HI).
  Let Hp := zinv_pclosed cfg Ps g C LL A V HI.

  Definition snaps_rel (nodes' : list gnode) : Prop :=
    forall x, In x nodes' -> exists n0, In n0 (cnodes g) /\ snaps_step (gn_run n0) (snaps_of x).

  Lemma rel_same : snaps_rel (cnodes g).
  Proof. intros x Hx. exists x. split; [exact Hx|left; reflexivity]. Qed.

  Lemma rel_upd j n n' : find_node (cnodes g) j = Some n -> snaps_step (gn_run n) (snaps_of n') ->
    snaps_rel (upd_node (cnodes g) j n').
  Proof.
    intros Hf Hs x Hx. destruct (in_upd_cases _ _ _ _ Hx) as [->|[Hx' _]].
    - exists n. split; [apply (find_node_in _ _ _ Hf)|exact Hs].
    - exists x. split; [exact Hx'|left; reflexivity].
  Qed.

  (* the events a server can see in this system *)
  Definition ev_ok (e : nevent) : Prop :=
    simple_event e \/ e = NSnapshot \/ exists m, In m (lg_msgs (cg_l g)) /\ e = NAppend (am_req m).

  Lemma node_step_snaps nj e cut fs r' ob out : In nj (cnodes g) -> ev_ok e ->
    step_full (gn_P nj) (gn_run nj) e cut fs = (r', ob, out) -> snaps_step (gn_run nj) (d_snaps (image r')).
  Proof.
    intros Hin He Hsf. destruct (zl_nodes [cfg] _ C Hlinv nj Hin) as [Hnl _].
    pose proof (zv_node cfg Ps g C LL A V HI nj Hin) as Hcn.
    destruct He as [He|[->|(m & Hm & ->)]].
    - pose proof (znode_wfr [cfg] _ C nj Hlinv Hin) as Hw.
      destruct (simple_step_z cfg Ps C (gn_P nj) (gn_run nj) e cut fs r' ob out HC Hp Hw Hnl Hcn He Hsf) as (_ & _ & (_ & Hq & _) & _).
      left. exact Hq.
    - destruct (gn_run nj) as [s|sd] eqn:Hr.
      + destruct (znode_log_in cfg Ps g C LL A V HI nj s Hin Hr) as [Hz _].
        assert (Hfsm : fst (v_fsmLast s) <> 0 -> created C (v_fsmLast s) /\ snd (v_fsmLast s) <= d_term s /\
                  anc C (v_fsmLast s) (last_entry s) /\ v_lastSnapIdx s <= fst (v_fsmLast s)).
        { intros Hnz. destruct (fsm_facts cfg Ps HVn g C LL A V nj s HI Hin Hr Hnz) as (F1 & F2 & F3 & F4 & _). auto. }
        destruct (snapshot_step_z cfg Ps C (gn_P nj) s cut fs r' ob out HC Hp Hz Hcn Hfsm Hsf) as (_ & _ & _ & Heff & _).
        apply (snap_eff_step s _ _ Heff).
      + simpl in Hsf. inversion Hsf; subst r' ob out. left. reflexivity.
    - destruct (gn_run nj) as [s|sd] eqn:Hr.
      + destruct (zdeliver_reach cfg Ps HVn g C LL A V HI nj s m Hin Hr Hm cut fs r' ob out Hsf) as (_ & _ & Hq & _).
        left. exact Hq.
      + simpl in Hsf. inversion Hsf; subst r' ob out. left. reflexivity.
  Qed.

  (* ---------------------------------------------------------------- the election system *)
  Lemma gstep_snaps gl g1 : match gl with GInput _ e _ _ => ev_ok e | _ => True end ->
    gstep [cfg] (lg_g (cg_l g)) gl = Some g1 -> snaps_rel (g_nodes g1).
  Proof.
    intros Hgl Hg. unfold gstep in Hg. fold (cnodes g) in Hg. destruct gl as [i|i j cut fs|i j|j e cut fs].
    - (* the timer fires *)
      destruct (find_node (cnodes g) i) as [n|] eqn:Hf; [|discriminate].
      destruct (gn_run n) as [s|s] eqn:Hr; [|discriminate].
      destruct (negb (existsb (config_eqb (v_latest s)) [cfg]) || (v_role s =? Leader)); [discriminate|].
      set (s0 := match gn_sess n with Some _ => set_transfer s false | None => s end) in *.
      assert (E0 : d_snaps s0 = d_snaps s) by (unfold s0; destruct (gn_sess n); reflexivity).
      pose proof (sess_enter_snaps (gn_P n) s0) as Hc.
      destruct (sess_enter (gn_P n) false s0) as [x tr]. simpl in Hc.
      destruct x as [s' c|s'|s'|s']; inversion Hg; subst g1; cbn [g_nodes]; apply (rel_upd i n _ Hf); left;
        unfold snaps_of; cbn [gn_run image]; rewrite Hr; cbn [image]; rewrite ?become_leader_snaps; simpl in Hc; congruence.
    - (* a vote request is executed *)
      destruct (find_node (cnodes g) i) as [ni|] eqn:Hfi; [|discriminate].
      destruct (find_node (cnodes g) j) as [nj|] eqn:Hfj; [|discriminate].
      destruct (gn_sess ni) as [se|]; [|discriminate].
      destruct (negb (mem j (se_asked se))); [discriminate|].
      destruct (step_full (gn_P nj) (gn_run nj) (NVote (se_req se)) cut fs) as [[r' ob] out] eqn:Hsf.
      inversion Hg; subst g1. cbn [g_nodes]. apply (rel_upd j nj _ Hfj). unfold snaps_of. cbn [gn_run].
      assert (Hev : ev_ok (NVote (se_req se))) by (left; exact I).
      apply (node_step_snaps nj _ cut fs r' ob out (proj1 (find_node_in _ _ _ Hfj)) Hev Hsf).
    - (* a vote comes back *)
      destruct (find_node (cnodes g) i) as [n|] eqn:Hf; [|discriminate].
      destruct (find_node_in _ _ _ Hf) as [Hin _].
      destruct (gn_run n) as [s|s] eqn:Hr; [|discriminate].
      destruct (gn_sess n) as [se|] eqn:Hse; [|discriminate].
      destruct (mem j (se_got se)); [discriminate|].
      destruct (find_resp (g_resps (lg_g (cg_l g))) i (se_epoch se) j) as [rp|]; [|discriminate].
      pose proof (gi_nodes [cfg] _ (zl_g [cfg] _ C Hlinv) n Hin) as [_ Hs]. unfold sess_ok in Hs. rewrite Hse in Hs.
      destruct Hs as (c & s0 & _ & _ & _ & _ & E4 & _).
      pose proof (sess_vote_snaps (gn_P n) s (se_c se) (mkVR (rp_term rp) (rp_granted rp)) E4) as Hc.
      destruct (sess_step (gn_P n) false (SCand s (se_c se)) (CVote (mkVR (rp_term rp) (rp_granted rp)))) as [x tr]. simpl in Hc.
      destruct x as [s' c'|s'|s'|s']; inversion Hg; subst g1; cbn [g_nodes]; apply (rel_upd i n _ Hf); left;
        unfold snaps_of; cbn [gn_run image]; rewrite Hr; cbn [image]; rewrite ?become_leader_snaps; simpl in Hc; congruence.
    - (* an input at j *)
      assert (He : e <> NElect /\ e <> NTimeoutDecision).
      { split; intros ->; destruct Hgl as [[]|[Hx|(m & _ & Hx)]]; discriminate. }
      destruct He as [He1 He2].
      destruct (find_node (cnodes g) j) as [nj|] eqn:Hfj; [|destruct e; discriminate].
      destruct (step_full (gn_P nj) (gn_run nj) e cut fs) as [[r' ob] out] eqn:Hsf.
      assert (E : g_nodes g1 = upd_node (cnodes g) j (mkGN (gn_P nj) r' (keep_sess r' (gn_sess nj)) (gn_next nj))).
      { destruct e; try contradiction; inversion Hg; reflexivity. }
      rewrite E. apply (rel_upd j nj _ Hfj). unfold snaps_of. cbn [gn_run].
      apply (node_step_snaps nj e cut fs r' ob out (proj1 (find_node_in _ _ _ Hfj)) Hgl Hsf).
  Qed.

  (* ---------------------------------------------------------------- replication *)
  Lemma lstep_snaps bl l' : lstep true [cfg] (cg_l g) bl = Some l' -> snaps_rel (g_nodes (lg_g l')).
  Proof.
    intros Hl. unfold lstep in Hl. destruct bl as [gl|i ty data fs|i j next last|i j|k cut fs].
    - destruct (ClusterLog.label_ok true gl) eqn:Hok; [|discriminate].
      destruct (gstep [cfg] (lg_g (cg_l g)) gl) as [g1|] eqn:Hg; [|discriminate]. inversion Hl; subst l'. cbn [lg_g].
      apply (gstep_snaps gl g1); [|exact Hg].
      destruct gl as [i|i j cut fs|i j|j e cut fs]; try exact I. simpl in Hok.
      destruct e; try discriminate; first [left; exact I|right; left; reflexivity].
    - fold (cnodes g) in Hl. destruct (find_node (cnodes g) i) as [n|] eqn:Hf; [|discriminate].
      destruct (gn_run n) as [s|s] eqn:Hr; [|discriminate]. destruct (v_role s =? Leader); [|discriminate].
      pose proof (dispatch_fields (gn_P n) s fs ty data 0) as Hd. cbv zeta in Hd.
      destruct (dispatch (gn_P n) (leader_setup s) fs [(ty, data, 0)]) as [[[ls' x1] x2] x3]. simpl in Hd.
      inversion Hl; subst l'. cbn [lg_g set_node_run g_nodes]. apply (rel_upd i n _ Hf). left.
      unfold snaps_of. cbn [gn_run image]. rewrite Hr. cbn [image]. apply Hd.
    - destruct (find_node (g_nodes (lg_g (cg_l g))) i) as [n|]; [|discriminate].
      destruct (gn_run n) as [s|s]; [|discriminate]. destruct (_ && _); [|discriminate].
      destruct (setup_send (gn_P n) s next last); try discriminate. inversion Hl; subst l'. apply rel_same.
    - destruct (find_node (g_nodes (lg_g (cg_l g))) i) as [n|]; [|discriminate].
      destruct (gn_run n) as [s|s]; [|discriminate]. destruct (_ && _); [|discriminate].
      inversion Hl; subst l'. apply rel_same.
    - destruct (nth_error (lg_msgs (cg_l g)) k) as [m|] eqn:Hk; [|discriminate].
      destruct (gstep [cfg] (lg_g (cg_l g)) (GInput (am_to m) (NAppend (am_req m)) cut fs)) as [g1|] eqn:Hg; [|discriminate].
      inversion Hl; subst l'. cbn [lg_g]. apply (gstep_snaps (GInput (am_to m) (NAppend (am_req m)) cut fs) g1); [|exact Hg].
      right. right. exists m. split; [apply (nth_error_In _ _ Hk)|reflexivity].
  Qed.

  (* ---------------------------------------------------------------- the whole system *)
  Theorem cstep_snaps l g' : cstep true [cfg] g l = Some g' -> snaps_rel (cnodes g').
  Proof.
    intros Hstep. destruct l as [bl|k|i j|i].
    - apply cstep_base_inv in Hstep. destruct Hstep as (_ & l' & Hl & ->). unfold cnodes. cbn [cg_l].
      apply (lstep_snaps bl l' Hl).
    - apply cstep_ack_inv in Hstep.
      destruct Hstep as (a & m & n & ld0 & s & _ & _ & Hfind & _ & Hrun & _ & _ & _ & ->).
      unfold ack_result. cbv zeta.
      destruct (aq_term (am_req m) <? ar_term (rs_resp a)).
      + unfold cnodes. cbn [cg_l lg_g set_node_run g_nodes]. apply (rel_upd _ n _ Hfind). left.
        unfold snaps_of. cbn [gn_run image]. rewrite Hrun. reflexivity.
      + destruct (ar_success (rs_resp a)); [|apply rel_same]. destruct (aq_entries (am_req m)); apply rel_same.
    - apply cstep_giveup_inv in Hstep. destruct Hstep as (n & ld & s & k & _ & _ & _ & _ & _ & ->). apply rel_same.
    - apply cstep_commit_inv in Hstep.
      destruct Hstep as (n & ld & s & ls2 & tr & res & Hfind & _ & Hrun & _ & _ & Hlc & ->).
      destruct (leader_commit_ckeep _ _ _ _ Hlc) as ((_ & _ & Hs & _) & _).
      unfold cnodes. cbn [cg_l lg_g set_node_run g_nodes]. apply (rel_upd _ n _ Hfind). left.
      unfold snaps_of. cbn [gn_run image]. rewrite Hrun. exact Hs.
  Qed.
End Step.
