(* ClusterCommitStepE.v — a vote is cast: the ghost record of the voter's last key, and what the
   invariant needs about it. *)
From Coq Require Import List NArith Bool Lia.
From stdpp Require Import gmap.
From RaftModel Require Import Base Config Compaction Commitment Node NodeCodec Candidate Leader Replicate Cluster ClusterLog ClusterCommit.
From RaftProofs Require Import ConfigProofs CommitmentProofs VoteProofs ClusterProofs
  ClusterLogSpec ClusterLogChain ClusterLogNode ClusterLogVote ClusterLogLeader ClusterLogInv ClusterLogSteps
  ClusterCommitSpec ClusterCommitLog ClusterCommitChain ClusterCommitAE2 ClusterCommitNode ClusterCommitGhost
  ClusterCommitInv ClusterCommitFinal ClusterCommitUpd ClusterCommitStepA ClusterCommitStepD.
Open Scope N_scope.

Definition ll_has (LL : LLt) (T : N) : bool := existsb (fun x => fst (fst x) =? T) LL.

Lemma ll_has_true LL T : ll_has LL T = true -> exists c tl, In (T, c, tl) LL.
Proof.
  unfold ll_has. intros H. apply existsb_exists in H. destruct H as ([[T' c] tl] & Hin & E). simpl in E.
  apply N.eqb_eq in E. subst T'. eauto.
Qed.

Lemma ll_has_false LL T c tl : ll_has LL T = false -> ~ In (T, c, tl) LL.
Proof.
  unfold ll_has. intros H Hin. assert (E : existsb (fun x => fst (fst x) =? T) LL = true).
  { apply existsb_exists. exists (T, c, tl). split; [exact Hin|]. simpl. apply N.eqb_refl. }
  congruence.
Qed.

(* the cached last key is the key of the last stored entry, or the root *)
Lemma topk_entry C s : chain_ok C -> nlog_up C s -> top_of (d_log s) (v_lastLogIdx s) ->
  (topk s = (0, 0) /\ v_lastLogIdx s = 0) \/ (exists x, d_log s !! v_lastLogIdx s = Some x /\ key x = topk s).
Proof.
  intros HC (_ & Li & _ & _ & Hz & Lb) [_ Ht]. destruct (N.eq_dec (v_lastLogIdx s) 0) as [E|Hne].
  - left. unfold topk. rewrite E, (Hz E). auto.
  - right. destruct (Ht ltac:(lia)) as [x Hx]. exists x. split; [exact Hx|].
    destruct (Li _ x Hx) as (Ix & _). apply (anc_idx_eq C _ _ HC (Lb _ x Hx)). unfold key, topk. simpl. exact Ix.
Qed.

Lemma topk_created C s : chain_ok C -> nlog_up C s -> top_of (d_log s) (v_lastLogIdx s) ->
  topk s = (0, 0) \/ created C (topk s).
Proof.
  intros HC Hn Ht. destruct (topk_entry C s HC Hn Ht) as [[E _]|(x & Hx & Ex)]; [left; exact E|right].
  destruct Hn as (_ & Li & _). destruct (Li _ x Hx) as (_ & (p & Hp) & _). rewrite <- Ex. exists x, p. auto.
Qed.

Lemma topk_det C s s' : chain_ok C -> nlog_up C s -> nlog_up C s' -> top_of (d_log s) (v_lastLogIdx s) ->
  d_log s' = d_log s -> v_lastLogIdx s' = v_lastLogIdx s -> topk s' = topk s.
Proof.
  intros HC Hn Hn' Ht El Ei. assert (Ht' : top_of (d_log s') (v_lastLogIdx s')) by (rewrite El, Ei; exact Ht).
  destruct (topk_entry C s HC Hn Ht) as [[E E0]|(x & Hx & Ex)]; destruct (topk_entry C s' HC Hn' Ht') as [[E' E0']|(x' & Hx' & Ex')].
  - congruence.
  - exfalso. rewrite El, Ei, E0 in Hx'. destruct Hn as (_ & Li & _). pose proof (log_in_pos C _ _ _ x' HC Li Hx'). lia.
  - exfalso. rewrite <- Ei, <- El, E0' in Hx. destruct Hn' as (_ & Li & _). pose proof (log_in_pos C _ _ _ x HC Li Hx). lia.
  - rewrite El, Ei, Hx in Hx'. inversion Hx'; subst x'. congruence.
Qed.

Lemma last_entry_topk s : v_lastSnapIdx s = 0 -> last_entry s = topk s.
Proof. intros E. unfold last_entry, topk. rewrite E. destruct (N.leb_spec 0 (v_lastLogIdx s)); [reflexivity|lia]. Qed.

Lemma log_ok_uptodate s li lt : v_lastSnapIdx s = 0 -> log_ok s li lt = true -> uptodate (li, lt) (topk s).
Proof.
  intros E H. unfold log_ok in H. rewrite (last_entry_topk s E) in H. unfold topk in *. unfold uptodate. simpl.
  apply andb_prop in H. destruct H as [H1 H2]. apply negb_true_iff in H1. apply N.ltb_ge in H1.
  apply negb_true_iff in H2. destruct (N.eqb_spec (v_lastLogTerm s) lt) as [Et|Hne]; [|lia].
  simpl in H2. apply N.ltb_ge in H2. lia.
Qed.

Section Cast.
  Variable cfg : config.
  Variable Ps : list params.

  (* what a voter accepted before is below its last key, unless a leader in between did not hold it *)
  Lemma cast_va g C LL A V n s T' k k0 : cinv cfg Ps g C LL A V -> In n (cnodes g) -> gn_run n = Up s ->
    d_term s <= T' -> ll_has LL T' = false ->
    In (gn_id n, k) A -> snd k < T' -> anc C k0 k -> 1 <= fst k0 ->
    anc C k0 (topk s) \/ exists T3 c3 tl3, In (T3, c3, tl3) LL /\ snd k < T3 /\ T3 < T' /\ ~ anc C k0 tl3.
  Proof.
    intros HI Hin Hr Hle Hno Ha Hlt Hanc Hpos.
    destruct (cv_av cfg Ps g C LL A V HI (gn_id n) k n k0 Ha Hin eq_refl Hanc Hpos) as [(x & Hx & Ex)|(T2 & c2 & tl2 & H1 & H2 & H3 & H4)].
    - left. unfold logn in Hx. rewrite Hr in Hx. simpl in Hx.
      destruct (node_log_in cfg Ps g C LL A V HI n s Hin Hr) as [(_ & _ & _ & _ & _ & Lb) _]. rewrite <- Ex. apply (Lb _ x Hx).
    - right. exists T2, c2, tl2. split; [exact H1|]. split; [exact H2|]. split; [|exact H4].
      unfold dtn in H3. rewrite Hr in H3. simpl in H3.
      destruct (N.eq_dec T2 T') as [->|]; [exfalso; apply (ll_has_false LL T' c2 tl2 Hno H1)|lia].
  Qed.
End Cast.
