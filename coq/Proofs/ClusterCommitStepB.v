(* ClusterCommitStepB.v — LSend, LHeartbeat and CGiveUp keep the invariant. *)
From Coq Require Import List NArith Bool Lia.
From stdpp Require Import gmap.
From RaftModel Require Import Base Config Compaction Commitment Node NodeCodec Candidate Leader Replicate Cluster ClusterLog ClusterCommit.
From RaftProofs Require Import ConfigProofs CommitmentProofs VoteProofs ClusterProofs
  ClusterLogSpec ClusterLogChain ClusterLogNode ClusterLogVote ClusterLogLeader ClusterLogInv ClusterLogSteps
  ClusterCommitSpec ClusterCommitLog ClusterCommitChain ClusterCommitAE2 ClusterCommitNode ClusterCommitGhost
  ClusterCommitInv ClusterCommitFinal ClusterCommitUpd ClusterCommitStepA.
Open Scope N_scope.

Section StepB.
  Variable cfg : config.
  Variable Ps : list params.
  Hypothesis HVn : NoDup (voters cfg).

  (* the request setupAppendEntries builds from a leader's log *)
  Lemma setup_send_msg_inv g C LL A V i j n s next last pi pt es c :
    cinv cfg Ps g C LL A V -> In n (cnodes g) -> gn_run n = Up s -> v_role s = Leader -> 1 <= next ->
    setup_send (gn_P n) s next last = SendAE pi pt es c ->
    msg_inv cfg Ps C LL A (mkAM i j (mkAReq (v_term s) i i pi pt es c)).
  Proof.
    intros HI Hin Hr Hrole Hnext Hs.
    pose proof (cv_ci cfg Ps g C LL A V HI) as Hci. pose proof (ci_ok C LL Hci) as HC.
    destruct (node_log_in cfg Ps g C LL A V HI n s Hin Hr) as [Hnl [_ Hvt]].
    pose proof Hnl as (_ & Li & Hsi & _ & _ & Lb).
    pose proof (cv_node cfg Ps g C LL A V HI n Hin) as (_ & _ & Hn). rewrite Hr in Hn. destruct Hn as (Hlc & Hdec & _).
    unfold setup_send in Hs. destruct (prev_of s next) as [[pi' pt']|] eqn:Ep; [|destruct (newest_snap s); discriminate].
    destruct (get_range (d_log s) next _) as [es'|] eqn:Eg; [|destruct (newest_snap s); discriminate].
    inversion Hs; subst pi' pt' es' c. clear Hs.
    pose proof (prev_of_pred C s next pi pt HC Hnl Hnext Ep) as Hpred.
    assert (Hes : forall e, In e es -> exists k, d_log s !! k = Some e) by (apply (get_range_in _ _ _ _ Eg)).
    (* the last key of the request is held by the leader, or is the root *)
    assert (Hlast : last_key_of (mkAReq (v_term s) i i pi pt es (v_commit s)) = (0, 0) \/
                    holds (d_log s) (last_key_of (mkAReq (v_term s) i i pi pt es (v_commit s)))).
    { unfold last_key_of. cbn [aq_entries aq_prevIdx aq_prevTerm]. destruct es as [|e0 r].
      - destruct Hpred as [[_ E]|(_ & pe & Hpe & E)]; [left; exact E|right]. rewrite E. exists pe. split; [|reflexivity].
        destruct (Li _ pe Hpe) as (I & _). unfold key. simpl. rewrite I. exact Hpe.
      - right. destruct (Hes (last_of (e0 :: r))) as [k Hk]; [apply last_in; discriminate|].
        exists (last_of (e0 :: r)). split; [|reflexivity]. destruct (Li _ _ Hk) as (I & _). unfold key. simpl. rewrite I. exact Hk. }
    split; [|split]; cbn [am_req aq_entries aq_term aq_prevIdx aq_prevTerm aq_commit].
    - intros e He. destruct (Hes e He) as [k Hk]. split; [apply (Hdec k e Hk)|].
      apply (leader_log_tchain cfg Ps g C LL A V n s k e HI Hin Hr Hrole Hk).
    - destruct Hpred as [[_ E]|(_ & pe & Hpe & E)]; [left; exact E|right]. rewrite E.
      destruct (Li _ pe Hpe) as (_ & (p & Pp) & _). exists pe, p. auto.
    - intros k0 Hanc Hpos Hle. destruct Hlast as [E|Hh].
      + rewrite E in Hanc. apply anc_root in Hanc; [|exact HC]. subst k0. simpl in Hpos. lia.
      + rewrite Hvt. apply (held_committed cfg Ps g C LL A V n s k0 HI Hin Hr); [|exact Hle].
        apply (holds_anc C (d_log s) (d_term s) _ _ k0 HC Li Lb Hlc Hh Hanc Hpos).
  Qed.
End StepB.

Section StepB2.
  Variable cfg : config.
  Variable Ps : list params.
  Hypothesis HVn : NoDup (voters cfg).

  Theorem cinv_lsend g C LL A V i j next last g' : cinv cfg Ps g C LL A V ->
    cstep false [cfg] g (CBase (LSend i j next last)) = Some g' -> cinv cfg Ps g' C LL A V.
  Proof.
    intros HI Hstep. apply cstep_base_inv in Hstep. destruct Hstep as (Hok & l' & Hl & ->).
    unfold lstep in Hl. fold (cnodes g) in Hl.
    destruct (find_node (cnodes g) i) as [n|] eqn:Hfind; [|discriminate].
    destruct (find_node_in _ _ _ Hfind) as [Hin Hid].
    destruct (gn_run n) as [s|s] eqn:Hrun; [|discriminate].
    destruct ((v_role s =? Leader) && negb (i =? j) && (1 <=? next) && (last <=? last_index s)) eqn:Hc; [|discriminate].
    apply andb_prop in Hc. destruct Hc as [Hc _]. apply andb_prop in Hc. destruct Hc as [Hc Hnext].
    apply andb_prop in Hc. destruct Hc as [Hrole Hij].
    apply N.eqb_eq in Hrole. apply N.leb_le in Hnext. apply negb_true_iff in Hij. apply N.eqb_neq in Hij.
    destruct (setup_send (gn_P n) s next last) as [pi pt es c| |] eqn:Hsend; try discriminate.
    inversion Hl; subst l'. clear Hl. cbn [lg_g g_nodes].
    rewrite (refresh_same _ _ (nodes_nodup cfg Ps g C LL A V HI)).
    pose proof (cv_l cfg Ps g C LL A V HI) as Hlinv. pose proof (ci_ok C LL (cv_ci cfg Ps g C LL A V HI)) as HC.
    destruct (node_log_in cfg Ps g C LL A V HI n s Hin Hrun) as [Hnl [_ Hvt]].
    destruct (setup_send_chain C (gn_P n) s next last pi pt es c HC Hnl Hnext Hsend) as [Hmc Hts].
    unfold send_ok in Hok. destruct (find_lead (cg_lead g) i) as [ld|] eqn:Hfl; [|discriminate].
    apply (cinv_send_msg cfg Ps g C LL A V i n s (mkAM i j (mkAReq (v_term s) i i pi pt es c)) _ HI Hfind Hrun Hrole); try reflexivity.
    - exact Hij.
    - exact Hmc.
    - intros e He. rewrite Hvt. apply Hts, He.
    - pose proof Hsend as Hs2. unfold setup_send in Hs2. destruct (prev_of s next) as [[a b]|]; [|destruct (newest_snap s); discriminate].
      destruct (get_range _ _ _); [|destruct (newest_snap s); discriminate]. inversion Hs2; subst.
      eapply setup_send_msg_inv; eauto.
    - right. cbn [base_leads]. rewrite Hfl. exists ld, (with_out ld j (Some (length (lg_msgs (cg_l g))))). auto.
  Qed.

  Theorem cinv_lheartbeat g C LL A V i j g' : cinv cfg Ps g C LL A V ->
    cstep false [cfg] g (CBase (LHeartbeat i j)) = Some g' -> cinv cfg Ps g' C LL A V.
  Proof.
    intros HI Hstep. apply cstep_base_inv in Hstep. destruct Hstep as (_ & l' & Hl & ->).
    unfold lstep in Hl. fold (cnodes g) in Hl.
    destruct (find_node (cnodes g) i) as [n|] eqn:Hfind; [|discriminate].
    destruct (gn_run n) as [s|s] eqn:Hrun; [|discriminate].
    destruct ((v_role s =? Leader) && negb (i =? j)) eqn:Hc; [|discriminate].
    apply andb_prop in Hc. destruct Hc as [Hrole Hij].
    apply N.eqb_eq in Hrole. apply negb_true_iff in Hij. apply N.eqb_neq in Hij.
    inversion Hl; subst l'. clear Hl. cbn [lg_g g_nodes].
    rewrite (refresh_same _ _ (nodes_nodup cfg Ps g C LL A V HI)).
    pose proof (ci_ok C LL (cv_ci cfg Ps g C LL A V HI)) as HC.
    apply (cinv_send_msg cfg Ps g C LL A V i n s (mkAM i j (mkAReq (v_term s) i i 0 0 [] 0)) _ HI Hfind Hrun Hrole); try reflexivity.
    - exact Hij.
    - intros e [].
    - split; [intros e []|]. split; [left; reflexivity|].
      intros k0 Hanc Hpos _. unfold last_key_of in Hanc. cbn in Hanc. apply anc_root in Hanc; [|exact HC]. subst k0. simpl in Hpos. lia.
    - left. reflexivity.
  Qed.

  Theorem cinv_giveup g C LL A V i j g' : cinv cfg Ps g C LL A V ->
    cstep false [cfg] g (CGiveUp i j) = Some g' -> cinv cfg Ps g' C LL A V.
  Proof.
    intros HI Hstep. apply cstep_giveup_inv in Hstep. destruct Hstep as (n & ld & s & k & Hf & Hfl & Hr & _ & _ & ->).
    apply (cinv_bookkeeping cfg Ps g _ C LL A V [] [] HI); try reflexivity.
    - cbn. rewrite app_nil_r. reflexivity.
    - cbn [cg_l]. apply (cv_l cfg Ps g C LL A V HI).
    - intros m [].
    - cbn. rewrite app_nil_r. reflexivity.
    - intros x [].
    - apply (leads_same_cm cfg g _ C LL A i ld (with_out ld j None)); auto. apply (cv_lead cfg Ps g C LL A V HI).
  Qed.
End StepB2.
