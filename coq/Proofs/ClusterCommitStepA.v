(* ClusterCommitStepA.v — the steps of Model/ClusterCommit.v that change no server: a request or a
   heartbeat is sent (LSend, LHeartbeat), the outstanding call fails (CGiveUp), an answer returns to
   replicateTo without a newer term (CAck: the commitment learns what the follower stores). *)
From Coq Require Import List NArith Bool Lia.
From stdpp Require Import gmap.
From RaftModel Require Import Base Config Compaction Commitment Node NodeCodec Candidate Leader Replicate Cluster ClusterLog ClusterCommit.
From RaftProofs Require Import ConfigProofs CommitmentProofs VoteProofs ClusterProofs
  ClusterLogSpec ClusterLogChain ClusterLogNode ClusterLogVote ClusterLogLeader ClusterLogInv ClusterLogSteps
  ClusterCommitSpec ClusterCommitLog ClusterCommitChain ClusterCommitAE2 ClusterCommitNode ClusterCommitGhost
  ClusterCommitInv ClusterCommitFinal ClusterCommitUpd.
Open Scope N_scope.

Lemma find_lead_set_same l i x : find_lead (set_lead l i x) i = Some x.
Proof. unfold set_lead. simpl. rewrite N.eqb_refl. reflexivity. Qed.

Lemma find_lead_filter l i i' : i' <> i -> find_lead (filter (fun p : N * lead => negb (fst p =? i)) l) i' = find_lead l i'.
Proof.
  intros Hne. induction l as [|[k x] r IH]; simpl; [reflexivity|].
  destruct (N.eqb_spec k i) as [->|Hk]; simpl.
  - destruct (N.eqb_spec i i'); [congruence|exact IH].
  - destruct (k =? i'); [reflexivity|exact IH].
Qed.

Lemma find_lead_set_other l i x i' : i' <> i -> find_lead (set_lead l i x) i' = find_lead l i'.
Proof.
  intros Hne. unfold set_lead. simpl. destruct (N.eqb_spec i i'); [congruence|]. apply find_lead_filter, Hne.
Qed.

Section StepA.
  Variable cfg : config.
  Variable Ps : list params.
  Hypothesis HVn : NoDup (voters cfg).

  (* no server and no ghost changes: requests, answers and the leadership bookkeeping may *)
  Lemma cinv_bookkeeping g g' C LL A V mn an :
    cinv cfg Ps g C LL A V -> lg_g (cg_l g') = lg_g (cg_l g) ->
    lg_msgs (cg_l g') = lg_msgs (cg_l g) ++ mn -> linv [cfg] (cg_l g') C ->
    (forall m, In m mn -> msg_inv cfg Ps C LL A m) ->
    cg_ans g' = cg_ans g ++ an -> (forall x, In x an -> ans_inv g' A x) ->
    (forall n s, In n (cnodes g) -> gn_run n = Up s -> v_role s = Leader -> lead_inv cfg g' C LL A n s) ->
    cinv cfg Ps g' C LL A V.
  Proof.
    intros HI Hg Hm Hl Hmn Ha Han Hld.
    assert (Hn : cnodes g' = cnodes g) by (unfold cnodes; rewrite Hg; reflexivity).
    assert (Hgo : gof g' = gof g) by (unfold gof; exact Hg).
    destruct HI as [I1 I2 I3 I4 I5 I6 I7 I8 I9 I10 I11 I12 I13 I14 I15 I16 I17]. constructor; try rewrite Hn; try rewrite Hgo; auto.
    - intros m Hin. rewrite Hm in Hin. apply in_app_iff in Hin. destruct Hin as [Hin|Hin]; [apply I8, Hin|apply Hmn, Hin].
    - intros x Hin. rewrite Ha in Hin. apply in_app_iff in Hin. destruct Hin as [Hin|Hin]; [|apply Han, Hin].
      destruct (I9 x Hin) as (m & E1 & E2). exists m. split; [rewrite Hm; apply nth_error_app_old, E1|exact E2].
  Qed.

  (* a leadership state that differs only in the replication bookkeeping *)
  Lemma lead_inv_same_cm g g' C LL A n s ld ld' :
    lead_inv cfg g C LL A n s -> find_lead (cg_lead g) (gn_id n) = Some ld -> find_lead (cg_lead g') (gn_id n) = Some ld' ->
    ld_cm ld' = ld_cm ld -> ld_next0 ld' = ld_next0 ld -> ld_notified ld' = ld_notified ld ->
    lead_inv cfg g' C LL A n s.
  Proof.
    intros (tl & ld0 & L1 & L2 & L3 & L4 & L5 & L6 & L7 & L8 & L9 & L10 & L11) E E' Hcm Hn0 Hnt.
    rewrite E in L2. inversion L2; subst ld0. exists tl, ld'. rewrite Hcm, Hn0, Hnt. auto 12.
  Qed.
End StepA.

Lemma get_range_in m : forall n from es, get_range m from n = Some es -> forall e, In e es -> exists i, m !! i = Some e.
Proof.
  induction n as [|n IH]; intros from es H e He; simpl in H.
  - inversion H; subst. contradiction.
  - destruct (m !! from) as [x|] eqn:Ex; [|discriminate]. destruct (get_range m (from + 1) n) as [r|] eqn:Er; [|discriminate].
    inversion H; subst es. destruct He as [<-|He]; [eauto|apply (IH _ _ Er e He)].
Qed.

Section StepA2.
  Variable cfg : config.
  Variable Ps : list params.
  Hypothesis HVn : NoDup (voters cfg).

  (* the bookkeeping of leader i changes, its commitment does not *)
  Lemma leads_same_cm g g' C LL A i ld ld' :
    (forall n s, In n (cnodes g) -> gn_run n = Up s -> v_role s = Leader -> lead_inv cfg g C LL A n s) ->
    find_lead (cg_lead g) i = Some ld -> cg_lead g' = set_lead (cg_lead g) i ld' ->
    ld_cm ld' = ld_cm ld -> ld_next0 ld' = ld_next0 ld -> ld_notified ld' = ld_notified ld ->
    forall n s, In n (cnodes g) -> gn_run n = Up s -> v_role s = Leader -> lead_inv cfg g' C LL A n s.
  Proof.
    intros Hall Hf Hg' E1 E2 E3 n s Hin Hr Hrole. pose proof (Hall n s Hin Hr Hrole) as Hli.
    destruct (N.eq_dec (gn_id n) i) as [Ei|Hne].
    - apply (lead_inv_same_cm cfg g g' C LL A n s ld ld' Hli); [rewrite Ei; exact Hf|rewrite Hg', Ei; apply find_lead_set_same|assumption..].
    - destruct Hli as (tl & ld0 & L1 & L2 & L3). exists tl, ld0. split; [exact L1|]. split; [|exact L3].
      rewrite Hg', find_lead_set_other by exact Hne. exact L2.
  Qed.

  (* every key a running server holds at or below its commit index *)
  Lemma held_committed g C LL A V n s k0 : cinv cfg Ps g C LL A V -> In n (cnodes g) -> gn_run n = Up s ->
    holds (d_log s) k0 -> fst k0 <= v_commit s -> CK cfg C LL A (d_term s) k0.
  Proof.
    intros HI Hin Hr (x & Hx & Ex) Hle. destruct (cv_kc cfg Ps g C LL A V HI n s Hin Hr) as [_ K].
    rewrite <- Ex. apply (K _ x Hx Hle).
  Qed.

  (* the entries of a leader's log lie on the branch of its term *)
  Lemma leader_log_tchain g C LL A V n s i e : cinv cfg Ps g C LL A V -> In n (cnodes g) -> gn_run n = Up s ->
    v_role s = Leader -> d_log s !! i = Some e -> tchain C LL (v_term s) (key e).
  Proof.
    intros HI Hin Hr Hrole He. pose proof (cv_ci cfg Ps g C LL A V HI) as Hci. pose proof (ci_ok C LL Hci) as HC.
    destruct (node_log_in cfg Ps g C LL A V HI n s Hin Hr) as [(_ & Li & _ & _ & Hz & Lb) _].
    destruct (cv_lead cfg Ps g C LL A V HI n s Hin Hr Hrole) as (tl & ld & L1 & _ & _ & L4 & _).
    pose proof (cv_node cfg Ps g C LL A V HI n Hin) as (_ & _ & Hn). rewrite Hr in Hn. destruct Hn as (_ & _ & Htop & _).
    destruct (ci_tl C LL Hci _ _ _ L1) as [Htl1 _].
    assert (Hpos : 0 < v_lastLogIdx s).
    { destruct (N.eq_dec (v_lastLogIdx s) 0) as [E|]; [|lia]. rewrite (Hz E) in L4. lia. }
    destruct (proj2 Htop Hpos) as [xt Hxt]. destruct (Li _ xt Hxt) as (Ixt & (pt & Pt) & _).
    assert (Ekt : key xt = topk s) by (apply (anc_idx_eq C _ _ HC (Lb _ xt Hxt)); unfold key, topk; simpl; exact Ixt).
    apply (tchain_anc C LL Hci (v_term s) (topk s)); [|apply (Lb i e He)].
    eapply tchain_created; [exact L1|rewrite <- Ekt; exists xt, pt; auto|exact L4].
  Qed.
End StepA2.

(* ---------------------------------------------------------------- refresh_leads *)
Lemma refresh_no_new before after : forall l,
  (forall n s, In n after -> gn_run n = Up s -> v_role s = Leader ->
     forall n0, find_node before (gn_id n) = Some n0 -> role_of (gn_run n0) = Leader) ->
  refresh_leads before after l = l.
Proof.
  unfold refresh_leads. induction after as [|n r IH]; intros l H; simpl; [reflexivity|].
  rewrite IH; [|intros x s Hx; apply H; right; exact Hx].
  destruct (gn_run n) as [s|s] eqn:Er; [|reflexivity].
  destruct (find_node before (gn_id n)) as [n0|] eqn:Ef; [|reflexivity].
  destruct (N.eqb_spec (v_role s) Leader) as [Hl|]; [|reflexivity].
  rewrite (H n s (or_introl eq_refl) Er Hl n0 Ef). reflexivity.
Qed.

Lemma find_node_self l n : NoDup (map gn_id l) -> In n l -> find_node l (gn_id n) = Some n.
Proof.
  induction l as [|x r IH]; simpl; intros Hnd Hin; [contradiction|]. inversion Hnd as [|? ? Hx Hr]; subst.
  destruct Hin as [->|Hin]; [rewrite N.eqb_refl; reflexivity|].
  destruct (N.eqb_spec (gn_id x) (gn_id n)) as [E|]; [|apply IH; assumption].
  exfalso. apply Hx. rewrite E. apply in_map, Hin.
Qed.

Lemma refresh_same l leads : NoDup (map gn_id l) -> refresh_leads l l leads = leads.
Proof.
  intros Hnd. apply refresh_no_new. intros n s Hin Hr Hrole n0 Hf.
  rewrite (find_node_self l n Hnd Hin) in Hf. inversion Hf; subst n0. rewrite Hr. exact Hrole.
Qed.

Section Send.
  Variable cfg : config.
  Variable Ps : list params.
  Hypothesis HVn : NoDup (voters cfg).

  Lemma nodes_nodup g C LL A V : cinv cfg Ps g C LL A V -> NoDup (map gn_id (cnodes g)).
  Proof. intros HI. apply (gi_ids [cfg] _ (li_g [cfg] _ C (cv_l cfg Ps g C LL A V HI))). Qed.

  (* a heartbeat, or a request built by setupAppendEntries, joins the network *)
  Lemma cinv_send_msg g C LL A V i n s m ldm :
    cinv cfg Ps g C LL A V -> find_node (cnodes g) i = Some n -> gn_run n = Up s -> v_role s = Leader ->
    am_from m = i -> am_from m <> am_to m -> aq_term (am_req m) = v_term s ->
    mchain C (aq_prevIdx (am_req m), aq_prevTerm (am_req m)) (aq_entries (am_req m)) ->
    (forall e, In e (aq_entries (am_req m)) -> e_term e <= v_term s) ->
    msg_inv cfg Ps C LL A m ->
    (cg_lead g = ldm \/ exists ld ld', find_lead (cg_lead g) i = Some ld /\ ldm = set_lead (cg_lead g) i ld' /\
        ld_cm ld' = ld_cm ld /\ ld_next0 ld' = ld_next0 ld /\ ld_notified ld' = ld_notified ld) ->
    forall hb, cinv cfg Ps (mkCG (mkLG (lg_g (cg_l g)) (lg_msgs (cg_l g) ++ [m])) ldm hb (cg_ans g)) C LL A V.
  Proof.
    intros HI Hf Hr Hrole Hfrom Hne Ht Hmc Hts Hmi Hld hb.
    pose proof (cv_l cfg Ps g C LL A V HI) as Hl.
    apply (cinv_bookkeeping cfg Ps g _ C LL A V [m] [] HI); try reflexivity.
    - cbn [cg_l]. eapply (send_linv [cfg] (cg_l g) C i n s m); eauto.
    - intros x [<-|[]]. exact Hmi.
    - cbn [cg_ans]. rewrite app_nil_r. reflexivity.
    - intros x [].
    - destruct Hld as [<-|(ld & ld' & E1 & -> & E2 & E3 & E4)].
      + intros x sx Hx Hrx Hlx. destruct (cv_lead cfg Ps g C LL A V HI x sx Hx Hrx Hlx) as (tl & ld & L). exists tl, ld. exact L.
      + apply (leads_same_cm cfg g _ C LL A i ld ld'); auto. apply (cv_lead cfg Ps g C LL A V HI).
  Qed.
End Send.
