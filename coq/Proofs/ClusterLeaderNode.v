(* ClusterLeaderNode.v — what one server's code does to the pair (currentTerm, advertised leader id):
   every handler, restart, crash cut, runCandidate step, dispatchLogs and the commitCh case either
   keeps the pair, clears the advertised leader, or (the appendEntries handler) sets it to the
   request's (Term, leader id); winning the election sets it to the server itself.
   Used by Proofs/ClusterLeaderMain.v (advertised_leaders_are_leaders over all runs). *)
From Coq Require Import List NArith Bool Lia.
From stdpp Require Import gmap.
From RaftModel Require Import Base Config Compaction Commitment Node NodeCodec Candidate Leader Cluster.
From RaftProofs Require Import ClusterProofs.
Open Scope N_scope.

(* the pair is kept *)
Definition lk (s' s : nstate) : Prop := v_leaderId s' = v_leaderId s /\ v_term s' = v_term s.

Lemma lk_refl s : lk s s. Proof. split; reflexivity. Qed.
Lemma lk_trans a b c : lk a b -> lk b c -> lk a c.
Proof. intros (A1 & A2) (B1 & B2). split; congruence. Qed.

Ltac lr := first [apply lk_refl | (unfold lk; cbn; split; reflexivity)].

Lemma do_stage_lk P s c : lk (fst (do_stage P s c)) s.
Proof. unfold do_stage. destruct (p_track P); simpl; lr. Qed.
Lemma do_store_lk P s fs es : lk (fst (fst (do_store P s fs es))) s.
Proof. unfold do_store. destruct (next_fail fs) as [f fs']. destruct f; simpl; lr. Qed.
Lemma do_delete_lk s fs lo hi : lk (fst (fst (do_delete s fs lo hi))) s.
Proof. unfold do_delete. destruct (next_fail fs) as [f fs']. destruct f; simpl; lr. Qed.
Lemma process_config_entry_lk P s e : lk (process_config_entry P s e) s.
Proof. unfold process_config_entry. destruct (e_ty e =? LogConfiguration); simpl; lr. Qed.
Lemma fold_config_entries_lk P es : forall s, lk (fold_left (process_config_entry P) es s) s.
Proof.
  induction es as [|e r IH]; intros s; simpl; [lr|].
  eapply lk_trans; [apply IH|apply process_config_entry_lk].
Qed.
Lemma process_logs_lk s idx s' tr : process_logs s idx = Some (s', tr) -> lk s' s.
Proof.
  unfold process_logs. destruct (idx <=? v_applied s).
  - intros H; inversion H; subst. lr.
  - destruct (collect_logs _ _ _) as [es|]; [|discriminate].
    intros H; inversion H; subst. split; reflexivity.
Qed.

Definition body_lk {R} (s2 : nstate) (o : outcome R) : Prop :=
  match o with Done s' _ _ _ => lk s' s2 | Panic _ _ => True end.
Definition cont_lk (s2 : nstate) (c : ae_cont) : Prop :=
  match c with
  | inl (Some (s8, _, _)) => lk s8 s2
  | inl None => True
  | inr (_, s', _, _) => lk s' s2
  end.

Lemma store_new_lk P fr lc s2 s3 tr3 fs3 news : lk s3 s2 -> cont_lk s2 (store_new P fr lc s3 tr3 fs3 news).
Proof.
  intros H. unfold store_new.
  pose proof (do_stage_lk P s3 (N.min lc (e_idx (last_of news)))) as S1.
  destruct (do_stage P s3 _) as [s4 trs]. simpl in S1.
  pose proof (do_store_lk P s4 fs3 news) as T1.
  destruct (do_store P s4 fs3 news) as [[s5 ok] fs5]. simpl in T1.
  destruct ok; simpl.
  - eapply lk_trans; [|exact H]. eapply lk_trans; [|exact S1]. eapply lk_trans; [|exact T1].
    eapply lk_trans; [|apply fold_config_entries_lk]. split; reflexivity.
  - eapply lk_trans; [exact T1|]. eapply lk_trans; [exact S1|exact H].
Qed.

Lemma ae_entries_lk P fr s2 tr1 fs1 a : cont_lk s2 (ae_entries P fr s2 tr1 fs1 a).
Proof.
  unfold ae_entries. destruct (aq_entries a) as [|e0 es0]; [simpl; lr|].
  destruct (scan_entries (d_log s2) (v_lastLogIdx s2) (e0 :: es0)) as [news|ci news| |]; try (simpl; lr).
  - apply store_new_lk, lk_refl.
  - pose proof (do_delete_lk s2 fs1 ci (v_lastLogIdx s2)) as D1.
    destruct (do_delete s2 fs1 ci (v_lastLogIdx s2)) as [[s3 ok] fs3]. simpl in D1.
    destruct ok; simpl.
    + destruct (conflict_pred a news) as [pi pt]. apply store_new_lk. destruct (ci <=? v_latestIdx s3); exact D1.
    + exact D1.
Qed.

Lemma ae_commit_lk okr s2 s8 tr8 fs8 a : lk s8 s2 -> body_lk s2 (ae_commit okr s8 tr8 fs8 a).
Proof.
  intros F. unfold ae_commit.
  destruct ((0 <? aq_commit a) && (v_commit s8 <? aq_commit a)); [|simpl; exact F].
  cbv zeta. destruct (v_commit s8 <? _); [|simpl; exact F].
  match goal with |- context [process_logs ?S ?I] => destruct (process_logs S I) as [[s11 tra]|] eqn:EP end.
  - apply process_logs_lk in EP. simpl. eapply lk_trans; [exact EP|].
    eapply lk_trans; [|exact F]. destruct (v_latestIdx _ <=? _); split; reflexivity.
  - simpl. exact I.
Qed.

Lemma ae_body_lk P s0 s2 rt tr1 fs1 a : body_lk s2 (ae_body P s0 s2 rt tr1 fs1 a).
Proof.
  unfold ae_body. destruct (prev_check s2 a) as [[|]|]; try (simpl; lr).
  pose proof (ae_entries_lk P (mkAResp rt (last_index s0) false false false) s2 tr1 fs1 a) as Hae.
  destruct (ae_entries P _ s2 tr1 fs1 a) as [[[[s8 tr8] fs8]|]|[[[resp s'] tr'] fs']]; simpl in Hae.
  - apply ae_commit_lk; assumption.
  - simpl. exact I.
  - simpl. exact Hae.
Qed.

Lemma run_compaction_lk s fs range : let '(s', _, _) := run_compaction s fs range in lk s' s.
Proof.
  unfold run_compaction. destruct range as [[lo hi]|]; [|lr].
  pose proof (do_delete_lk s fs lo hi) as D1.
  destruct (do_delete s fs lo hi) as [[s' ok] fs']. exact D1.
Qed.

Lemma do_set_term_lk s fs t s' fs' : do_set_term s fs t = Some (s', fs') ->
  v_leaderId s' = v_leaderId s /\ v_term s' = t.
Proof.
  unfold do_set_term. destruct (next_fail fs) as [f fr]. destruct f; [discriminate|].
  intros H; inversion H; subst. split; reflexivity.
Qed.

Lemma persist_vote_lk s fs t c : let '(s', _, _, _) := persist_vote s fs t c in lk s' s.
Proof.
  unfold persist_vote. destruct (next_fail fs) as [f1 fs1]. destruct f1; [lr|].
  destruct (next_fail fs1) as [f2 fs2]. destruct f2; lr.
Qed.

(* what a handler may do to the pair: keep it, clear the leader, or adopt the claim of the request *)
Definition apost (cl : option (N * N)) (s s' : nstate) : Prop :=
  lk s' s \/ v_leaderId s' = 0 \/ cl = Some (v_term s', v_leaderId s').

Lemma request_vote_apost s fs q s' r tr fs' : request_vote s fs q = Done s' r tr fs' -> apost None s s'.
Proof.
  unfold request_vote, apost.
  destruct (negb (vq_id q =? 0) && nonempty (v_latest s) && negb (in_config (v_latest s) (vq_id q))).
  { intros H; inversion H; subst. left. lr. }
  destruct (negb (v_leader s =? 0) && negb (v_leader s =? vq_addr q) && negb (vq_transfer q)).
  { intros H; inversion H; subst. left. lr. }
  destruct (vq_term q <? v_term s). { intros H; inversion H; subst. left. lr. }
  destruct (v_term s <? vq_term q) eqn:Eb.
  - destruct (do_set_term (set_state s Follower) fs (vq_term q)) as [[s1 fs1]|] eqn:ET; [|discriminate].
    apply do_set_term_lk in ET. destruct ET as (L1 & T1). simpl in L1.
    assert (G : forall s2, lk s2 s1 -> lk s2 s \/ v_leaderId s2 = 0 \/ None = Some (v_term s2, v_leaderId s2)).
    { intros s2 (A & _). right. left. congruence. }
    destruct (negb (vq_id q =? 0) && nonempty (v_latest s1) && negb (has_vote (v_latest s1) (vq_id q))).
    { intros H; inversion H; subst. apply G. lr. }
    destruct (if d_vterm s1 =? vq_term q then d_vcand s1 else None).
    { intros H; inversion H; subst. apply G. lr. }
    destruct (negb (log_ok s1 (vq_lastIdx q) (vq_lastTerm q))).
    { intros H; inversion H; subst. apply G. lr. }
    pose proof (persist_vote_lk s1 fs1 (vq_term q) (vq_addr q)) as Hp.
    destruct (persist_vote s1 fs1 (vq_term q) (vq_addr q)) as [[[s2 ok] tr2] fs2].
    intros H; inversion H; subst. apply G. exact Hp.
  - destruct (negb (vq_id q =? 0) && nonempty (v_latest s) && negb (has_vote (v_latest s) (vq_id q))).
    { intros H; inversion H; subst. left. lr. }
    destruct (if d_vterm s =? vq_term q then d_vcand s else None).
    { intros H; inversion H; subst. left. lr. }
    destruct (negb (log_ok s (vq_lastIdx q) (vq_lastTerm q))).
    { intros H; inversion H; subst. left. lr. }
    pose proof (persist_vote_lk s fs (vq_term q) (vq_addr q)) as Hp.
    destruct (persist_vote s fs (vq_term q) (vq_addr q)) as [[[s2 ok] tr2] fs2].
    intros H; inversion H; subst. left. exact Hp.
Qed.

(* the appendEntries handler: a refused request (older term) changes nothing; an accepted one leaves
   the server in the request's term, advertising the request's leader id *)
Lemma append_entries_apost P s fs a s' r tr fs' : append_entries P s fs a = Done s' r tr fs' ->
  apost (Some (aq_term a, aq_id a)) s s'.
Proof.
  unfold append_entries, apost. destruct (aq_term a <? v_term s) eqn:Elt.
  { intros H; inversion H; subst. left. lr. }
  apply N.ltb_ge in Elt.
  set (bump := (v_term s <? aq_term a) || (negb (v_role s =? Follower) && negb (v_transfer s))).
  destruct bump eqn:Eb.
  - destruct (do_set_term (set_state s Follower) fs (aq_term a)) as [[s1 fs1]|] eqn:ET; [|discriminate].
    apply do_set_term_lk in ET. destruct ET as (L1 & T1).
    intros H. pose proof (ae_body_lk P s (set_leader s1 (aq_addr a) (aq_id a)) (aq_term a) [ESetTerm (aq_term a) true] fs1 a) as Hb.
    rewrite H in Hb. simpl in Hb. destruct Hb as (A & C). simpl in A, C.
    right. right. rewrite A, C, T1. reflexivity.
  - intros H. pose proof (ae_body_lk P s (set_leader s (aq_addr a) (aq_id a)) (v_term s) [] fs a) as Hb.
    rewrite H in Hb. simpl in Hb. destruct Hb as (A & C). simpl in A, C.
    unfold bump in Eb. apply orb_false_elim in Eb. destruct Eb as [Eb _]. apply N.ltb_ge in Eb.
    right. right. rewrite A, C. do 2 f_equal. lia.
Qed.

Lemma take_snapshot_lk P s fs s' r tr fs' : take_snapshot P s fs = Done s' r tr fs' -> lk s' s.
Proof.
  unfold take_snapshot. destruct (fsm_index s) as [fi ft].
  destruct (fi =? 0); [intros H; inversion H; subst; lr|].
  destruct (fi <? v_committedIdx s); [intros H; inversion H; subst; lr|].
  destruct (next_fail fs) as [fc fs1]. destruct fc; [intros H; inversion H; subst; lr|].
  destruct (next_fail fs1) as [fcl fs2]. destruct fcl; [intros H; inversion H; subst; lr|].
  match goal with |- context [run_compaction ?S ?F ?R] =>
    pose proof (run_compaction_lk S F R) as Hc; destruct (run_compaction S F R) as [[s2 trc] fs3] end.
  intros H; inversion H; subst. eapply lk_trans; [exact Hc|lr].
Qed.

(* ---------------------------------------------------------------- restart: nobody advertised *)
Lemma scan_configs_lk P n : forall s from s', scan_configs P s from n = Some s' -> lk s' s.
Proof.
  induction n as [|n IH]; intros s from s' H; simpl in H.
  - inversion H; subst. lr.
  - destruct (d_log s !! from) as [e|]; [|discriminate].
    apply IH in H. eapply lk_trans; [exact H|apply process_config_entry_lk].
Qed.

Lemma recover_noleader P img s tr : recover P img = RecOk s tr -> v_leaderId s = 0.
Proof.
  unfold recover. destruct (rec_last _) as [le|]; [|discriminate].
  destruct (rec_snapshot _) as [[s3 tr3]|] eqn:E3; [|discriminate].
  assert (Hs3 : v_leaderId s3 = 0).
  { unfold rec_snapshot in E3. destruct (find sn_ok _) as [sn|].
    - inversion E3; subst. reflexivity.
    - destruct (list_snaps _); [|discriminate]. inversion E3; subst. reflexivity. }
  destruct (rec_committed P s3) as [| | |s4 tr4] eqn:E4; try discriminate.
  assert (Hs4 : v_leaderId s4 = 0).
  { unfold rec_committed in E4. destruct (p_rc P).
    - destruct (negb (p_track P)); [discriminate|].
      match type of E4 with context [process_logs ?S ?I] => destruct (process_logs S I) as [[s4' tr4']|] eqn:EP end; [|discriminate].
      match type of E4 with context [if ?B then _ else _] => destruct B end; [discriminate|].
      inversion E4; subst. apply process_logs_lk in EP. destruct EP as (G1 & _).
      rewrite G1. simpl. exact Hs3.
    - inversion E4; subst. exact Hs3. }
  match goal with |- context [scan_configs P ?S ?F ?N] => destruct (scan_configs P S F N) as [s5|] eqn:ES end; [|discriminate].
  intros H; inversion H; subst. apply scan_configs_lk in ES. destruct ES as (E1 & _).
  match goal with |- context [if ?B then _ else _] => destruct B end; [change (v_leaderId s5 = 0)|]; rewrite E1; exact Hs4.
Qed.

(* ---------------------------------------------------------------- one step of a server *)
(* the advertised leader of a running server is recorded in L for the server's current term *)
Definition nadv (L : list (N * N)) (r : nrun) : Prop :=
  match r with
  | Up s => v_leaderId s = 0 \/ In (v_term s, v_leaderId s) L
  | Down _ => True
  end.

Lemma nadv_mono L L' r : incl L L' -> nadv L r -> nadv L' r.
Proof. destruct r; simpl; auto. intros Hi [H|H]; auto. Qed.

Lemma boot_nadv P img r out L : boot P img = (r, out) -> nadv L r.
Proof.
  unfold boot. destruct (recover P img) as [s tr| | |] eqn:E; intros H; inversion H; subst; simpl; auto.
  left. eapply recover_noleader; exact E.
Qed.

Lemma finish_nadv {R} P (enc : R -> list N) (mk : R -> nobs) si s cut (o : outcome R) L :
  (forall s' r tr fs', o = Done s' r tr fs' -> nadv L (Up s')) ->
  nadv L (fst (fst (finish P enc mk si s cut o))).
Proof.
  intros Hd. unfold finish. destruct o as [s' r tr fs'|s' tr].
  - destruct ((0 <? cut) && (N.to_nat cut <=? count_durable tr)%nat).
    + destruct (boot P _) as [r' out] eqn:EB. simpl. eapply boot_nadv; exact EB.
    + simpl. eapply Hd. reflexivity.
  - destruct (boot P _) as [r' out] eqn:EB. simpl. eapply boot_nadv; exact EB.
Qed.

Lemma apost_nadv L cl s s' : nadv L (Up s) -> (forall x, cl = Some x -> In x L) -> apost cl s s' -> nadv L (Up s').
Proof.
  simpl. intros H Hcl [(A & B)|[Z|C]].
  - rewrite A, B. exact H.
  - left. exact Z.
  - right. apply Hcl. exact C.
Qed.

(* every event the cluster systems feed to a server (electSelf has no caller but runCandidate, which is
   modelled apart; InstallSnapshot is not part of those systems): an AppendEntries must carry a recorded pair *)
Theorem step_full_nadv P r e cut fs L : nadv L r -> e <> NElect -> (forall q, e <> NInstall q) ->
  (forall a, e = NAppend a -> In (aq_term a, aq_id a) L) ->
  nadv L (fst (fst (step_full P r e cut fs))).
Proof.
  intros Ha Hne Hni Hap. destruct r as [s|s].
  2:{ destruct e; unfold step_full; simpl; try exact I.
      destruct (boot P s) as [r' out] eqn:EB. simpl. eapply boot_nadv; exact EB. }
  destruct e; unfold step_full.
  - (* vote *) apply finish_nadv. intros s' r tr fs' Hd. eapply apost_nadv; [exact Ha| |eapply request_vote_apost; exact Hd].
    intros x Hx. discriminate.
  - (* prevote *) destruct (request_prevote s q) as [t g]. simpl. exact Ha.
  - (* append *) apply finish_nadv. intros s' r tr fs' Hd. eapply apost_nadv; [exact Ha| |eapply append_entries_apost; exact Hd].
    intros x Hx. inversion Hx; subst. apply Hap. reflexivity.
  - (* install *) exfalso. eapply Hni. reflexivity.
  - (* timeout now *) simpl. left. reflexivity.
  - (* elect *) contradiction.
  - (* restart *) simpl. destruct (boot P s) as [r' out] eqn:EB. simpl. eapply boot_nadv; exact EB.
  - (* timeout decision *) simpl. exact Ha.
  - (* snapshot *) destruct (fsm_index s) as [fi ft]. apply finish_nadv. intros s' r tr fs' Hd.
    eapply (apost_nadv L None); [exact Ha| |left; eapply take_snapshot_lk; exact Hd]. intros x Hx. discriminate.
Qed.

(* ---------------------------------------------------------------- runCandidate *)
(* entering runCandidate: setState(Candidate) cleared the advertised leader; a server that wins at once
   advertises itself *)
Lemma sess_enter_adv P s0 :
  match fst (sess_enter P false s0) with
  | SCand s' _ | SFollower s' => v_leaderId s' = 0
  | SLeader s' => v_leaderId s' = p_self P
  | SDead _ => True
  end.
Proof.
  pose proof (sess_enter_cases P s0) as H. cbv zeta in H.
  destruct (self_is_voter P s0).
  - destruct (quorum_size (v_latest s0) <=? 1); rewrite H; reflexivity.
  - rewrite H. reflexivity.
Qed.

(* a vote result reaches the loop: nothing changes, or a newer term makes the server a Follower
   (advertised leader cleared), or it wins and advertises itself *)
Lemma sess_vote_adv P s c v :
  match fst (sess_step P false (SCand s c) (CVote v)) with
  | SCand s' _ => s' = s
  | SFollower s' => v_leaderId s' = 0
  | SLeader s' => v_leaderId s' = p_self P
  | SDead _ => True
  end.
Proof.
  destruct (c_voting c) eqn:Hv.
  - rewrite (sess_vote_cases P s c v Hv). destruct (v_term s <? vr_term v); [reflexivity|].
    cbv zeta. destruct (c_needed c <=? _); reflexivity.
  - unfold sess_step, on_vote. rewrite Hv. reflexivity.
Qed.

(* ---------------------------------------------------------------- the leader's own code *)
(* dispatchLogs: the term is kept; the advertised leader too, unless StoreLogs failed (setState(Follower)) *)
Lemma dispatch_adv P ls fs reqs :
  let s' := l_node (fst (fst (fst (dispatch P ls fs reqs)))) in
  v_term s' = v_term (l_node ls) /\ (v_leaderId s' = v_leaderId (l_node ls) \/ v_leaderId s' = 0).
Proof.
  unfold dispatch.
  pose proof (do_stage_lk P (l_node ls) (v_commit (l_node ls))) as S1.
  destruct (do_stage P (l_node ls) (v_commit (l_node ls))) as [s1 trs]. simpl in S1.
  match goal with |- context [do_store P s1 fs ?E] =>
    pose proof (do_store_lk P s1 fs E) as T1; destruct (do_store P s1 fs E) as [[s2 ok] fs'] end.
  simpl in T1. destruct S1 as (S1 & S2). destruct T1 as (T1 & T2).
  destruct ok; cbn [negb fst snd l_node].
  - split; [|left]; simpl; congruence.
  - split; [|right; reflexivity]. simpl. congruence.
Qed.

Lemma become_leader_adv P s :
  v_term (become_leader P s) = v_term s /\
  (v_leaderId (become_leader P s) = v_leaderId s \/ v_leaderId (become_leader P s) = 0).
Proof. unfold become_leader. apply (dispatch_adv P (leader_setup s) [] [(LogNoop, 0, 0)]). Qed.

(* leaderLoop, case commitCh *)
Lemma leader_commit_lk ls ls2 tr res : leader_commit ls = Some (ls2, tr, res) -> lk (l_node ls2) (l_node ls).
Proof.
  unfold leader_commit. set (s := l_node ls). set (ci := cm_commit (l_cm ls)).
  set (s1 := set_commit s ci).
  set (s2 := if (v_commit s <? v_latestIdx s1) && (v_latestIdx s1 <=? ci) then set_committed s1 (v_latest s1) (v_latestIdx s1) else s1).
  assert (K2 : lk s2 s).
  { unfold s2. destruct ((v_commit s <? v_latestIdx s1) && (v_latestIdx s1 <=? ci)); split; reflexivity. }
  destruct (ready_prefix (l_inflight ls) ci) as [ready rest].
  destruct ready as [|r0 rr].
  - intros H; inversion H; subst. exact K2.
  - destruct (process_logs_f s2 (r0 :: rr) _) as [[[s3 tr3] res3]|] eqn:EP; [|discriminate].
    intros H; inversion H; subst ls2 tr res. cbn [l_node].
    eapply lk_trans; [|exact K2]. unfold process_logs_f in EP.
    destruct (_ <=? v_applied s2); [inversion EP; subst; lr|].
    destruct (collect_with_futures _ _ _ _) as [items|]; [|discriminate].
    inversion EP; subst. split; reflexivity.
Qed.
