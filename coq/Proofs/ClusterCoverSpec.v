(* ClusterCoverSpec.v — C11 "snapshots and compaction never lose history", stated over ALL RUNS of the
   cluster with commitment, takeSnapshot and log compaction (Model/ClusterCommit.v, crun true), for the
   DURABLE state of every server - running, or crashed at any point inside any handler or inside
   takeSnapshot (`image`).  Statement only; the proof is in Proofs/ClusterCoverMain.v.

   no_history_lost: every index i >= 1 is
     - covered by the NEWEST snapshot in the server's snapshot store (d_snaps is in creation order,
       newest last), or
     - present in its log store, or
     - beyond the end of the log store (nothing is stored at or above i):
   the log store has no hole above the newest snapshot, and nothing between the snapshot and the first
   log entry is missing. *)
From Coq Require Import List NArith Bool Lia.
From stdpp Require Import gmap.
From RaftModel Require Import Base Config Compaction Commitment Node NodeCodec Candidate Leader Replicate Cluster ClusterLog ClusterCommit.
From RaftProofs Require Import ClusterCommitSpec ClusterCommitSnapSpec.
Open Scope N_scope.

Definition newest_snap_idx (s : nstate) : N :=
  match rev (d_snaps s) with sn :: _ => sn_idx sn | [] => 0 end.

Definition covered_or_stored (s : nstate) : Prop :=
  forall i, 1 <= i ->
    i <= newest_snap_idx s \/ is_Some (d_log s !! i) \/ (forall j, i <= j -> d_log s !! j = None).

Definition no_history_lost (g : cgstate) : Prop :=
  forall n, In n (cnodes g) -> covered_or_stored (image (gn_run n)).

(* the snapshots of one store have increasing indexes, and the newest is the one NewRaft restores
   (it opens: sn_ok) *)
Definition snaps_increasing (g : cgstate) : Prop :=
  forall n l1 a l2 b l3, In n (cnodes g) -> snaps_of n = l1 ++ a :: l2 ++ b :: l3 -> sn_idx a <= sn_idx b.
