(* ClusterCommitSnapCex.v — why the statements about runs WITH snapshots (Proofs/ClusterCommitSnapSpec.v)
   differ from those of Model/ClusterCommit.v, as compiled runs from initial states that satisfy the
   hypotheses of state_machine_safety_snapshots:

   (1) restart from a snapshot: NewRaft sets lastApplied to the snapshot index and commitIndex to 0, so
       "lastApplied <= commitIndex" (applied_within_commit) fails; lastApplied <= max(commitIndex,
       snapshot index) holds.
   (2) compaction (TrailingLogs = 0): the leader took a snapshot at a committed index and removed its
       log up to it; a follower still holds the committed entries, so leader_complete (the leader HOLDS
       every committed entry) fails; leader_complete_snap (... or the index is covered by the leader's
       snapshot) holds.
   Also: every initial state of the driver ClusterCommit.run_clustercommit satisfies cinit_snap_ok
   (non-vacuity of the theorems of Proofs/ClusterCommitSnapMain.v and ClusterCommitSnapAcks.v). *)
From Coq Require Import List NArith Bool Lia.
From stdpp Require Import gmap.
From RaftModel Require Import Base Config Compaction Commitment Node NodeCodec Candidate Leader Replicate Cluster ClusterLog ClusterCommit.
From RaftProofs Require Import ConfigProofs VoteProofs RecoverProofs ClusterProofs ClusterLogSpec ClusterLogExample
  ClusterCommitSpec ClusterCommitInit ClusterCommitCex
  ClusterCommitSnapSpec ClusterCommitSnapLog ClusterCommitSnapBoot ClusterCommitSnapMain ClusterCommitSnapAcks.
Open Scope N_scope.

(* ---------------------------------------------------------------- initial states *)
Lemma mk_node_fsm0 cfg i x s : gn_run (mk_node cfg i x) = Up s -> fst (v_fsmLast s) = 0.
Proof.
  unfold mk_node. cbn [gn_run]. set (P := mkP i false false false 100 4 (fun _ => cfg)).
  unfold boot. destruct (recover P (mk_image cfg x)) as [s0 tr| | |] eqn:ER; cbn [fst]; try discriminate.
  intros H; inversion H; subst s0. destruct (recover_snapS P _ s tr eq_refl ER) as (_ & Hf & _). rewrite Hf. reflexivity.
Qed.

Theorem mk_nodes_cinit_snap n extras :
  cinit_snap_ok (mk_cfg n)
    (mkCG (mkLG (mkG (map (fun p => mk_node (mk_cfg n) (N.of_nat (fst p)) (snd p)) (combine (seq 1 n) extras)) [] [] []) []) [] [] []).
Proof.
  split; [apply mk_nodes_cinit|]. unfold cnodes. cbn [cg_l lg_g g_nodes]. intros nd s Hin Hr.
  apply in_map_iff in Hin. destruct Hin as (p & <- & _). apply (mk_node_fsm0 _ _ _ s Hr).
Qed.

Corollary state_machine_safety_snapshots_driver : forall n extras ls g,
  Forall label_ok ls ->
  crun true [mk_cfg n]
    (mkCG (mkLG (mkG (map (fun p => mk_node (mk_cfg n) (N.of_nat (fst p)) (snd p)) (combine (seq 1 n) extras)) [] [] []) []) [] [] []) ls = Some g ->
  committed_agree g /\ leader_complete_snap g /\ applied_within_snap g /\ snapshots_committed g.
Proof. intros n extras ls g. apply state_machine_safety_snapshots. apply mk_nodes_cinit_snap. Qed.

(* ---------------------------------------------------------------- (1) restart from a snapshot *)
Definition applied_violation (g : cgstate) (ia : N) : bool :=
  match up_state g ia with Some sa => v_commit sa <? v_applied sa | None => false end.

Lemma applied_violation_sound g ia : applied_violation g ia = true -> ~ applied_within_commit g.
Proof.
  unfold applied_violation. intros H AW. destruct (up_state g ia) as [sa|] eqn:Ua; [|discriminate].
  apply N.ltb_lt in H. destruct (up_state_in g ia sa Ua) as (a & Ia & Ra). destruct (AW a sa Ia Ra) as [Hc _]. lia.
Qed.

Definition snap_restart_labels : list clabel :=
  [ CBase (LElect (GTimeout 1)); CBase (LElect (GVoteReq 1 2 0 [])); CBase (LElect (GVoteResp 1 2));
    CBase (LSend 1 2 2 2); CBase (LDeliver 0 0 []); CAck 0; CCommit 1;
    CBase (LElect (GInput 1 NSnapshot 0 [])); CBase (LElect (GInput 1 NRestart 0 [])) ].

Lemma run_witness_snap cfg g0 ls (chk : cgstate -> bool) :
  match crun true [cfg] g0 ls with Some g => chk g | None => false end = true ->
  exists g, crun true [cfg] g0 ls = Some g /\ chk g = true.
Proof. destruct (crun true [cfg] g0 ls) as [g|]; [|discriminate]. intros H. exists g. auto. Qed.

Theorem restart_from_snapshot_refutes_applied_within_commit : exists cfg g0 ls g,
  cinit_snap_ok cfg g0 /\ Forall label_ok ls /\ crun true [cfg] g0 ls = Some g /\
  ~ applied_within_commit g /\ applied_within_snap g.
Proof.
  destruct (run_witness_snap (mk_cfg 3) cex_g0 snap_restart_labels (fun g => applied_violation g 1)) as (g & Hrun & Hv); [vm_compute; reflexivity|].
  assert (H0 : cinit_snap_ok (mk_cfg 3) cex_g0) by (apply (mk_nodes_cinit_snap 3 [0; 0; 0])).
  assert (Hl : Forall label_ok snap_restart_labels) by (repeat constructor; simpl; try discriminate; exact I).
  exists (mk_cfg 3), cex_g0, snap_restart_labels, g. split; [exact H0|]. split; [exact Hl|]. split; [exact Hrun|].
  split; [eapply applied_violation_sound; exact Hv|].
  apply (state_machine_safety_snapshots (mk_cfg 3) cex_g0 snap_restart_labels g H0 Hl Hrun).
Qed.

(* ---------------------------------------------------------------- (2) compaction *)
(* the same servers with another TrailingLogs: the initial conditions do not read it *)
Definition retrail (t : N) (n : gnode) : gnode :=
  mkGN (mkP (p_self (gn_P n)) (p_monotonic (gn_P n)) (p_track (gn_P n)) (p_rc (gn_P n)) t (p_maxappend (gn_P n)) (p_decode (gn_P n)))
       (gn_run n) (gn_sess n) (gn_next n).

Definition retrail_g (t : N) (g : cgstate) : cgstate :=
  mkCG (mkLG (mkG (map (retrail t) (cnodes g)) (g_resps (lg_g (cg_l g))) (g_leaders (lg_g (cg_l g))) (g_grants (lg_g (cg_l g)))) (lg_msgs (cg_l g)))
       (cg_lead g) (cg_hb g) (cg_ans g).

Lemma retrail_cinit t cfg g : cinit_snap_ok cfg g -> cinit_snap_ok cfg (retrail_g t g).
Proof.
  intros [(Hlin & Hlead & Hhb & Hans & HV & Hcn) Hf].
  assert (Hin' : forall n', In n' (cnodes (retrail_g t g)) -> exists n, In n (cnodes g) /\ n' = retrail t n).
  { intros n' H. unfold retrail_g, cnodes in H. cbn [cg_l lg_g g_nodes] in H. apply in_map_iff in H. destruct H as (n & <- & Hn). exists n. auto. }
  split; [|intros n' s H Hr; destruct (Hin' n' H) as (n & Hn & ->); apply (Hf n s Hn Hr)].
  split; [|split; [exact Hlead|split; [exact Hhb|split; [exact Hans|split; [exact HV|]]]]].
  - destruct Hlin as ((Hnd & Hn0 & Hr0 & Hl0 & Hg0) & Hm0 & base & Hh & Hni).
    split; [|split; [exact Hm0|exists base; split; [exact Hh|]]].
    + split; [|split; [|split; [exact Hr0|split; [exact Hl0|exact Hg0]]]].
      * unfold retrail_g. cbn [cg_l lg_g g_nodes]. rewrite map_map. unfold cnodes.
        rewrite (map_ext (fun x => gn_id (retrail t x)) gn_id); [exact Hnd|reflexivity].
      * intros n' H. destruct (Hin' n' H) as (n & Hn & ->). apply (Hn0 n Hn).
    + intros n' H. destruct (Hin' n' H) as (n & Hn & ->). apply (Hni n Hn).
  - intros n' H. destruct (Hin' n' H) as (n & Hn & ->). destruct (Hcn n Hn) as (C1 & C2 & C3 & C4).
    split; [exact C1|]. split; [exact C2|]. split; [|exact C4].
    intros i e He Hty n'' H''. destruct (Hin' n'' H'') as (n0 & Hn0 & ->). apply (C3 i e He Hty n0 Hn0).
Qed.

(* non-vacuity for every TrailingLogs: the driver's servers with TrailingLogs = t *)
Corollary state_machine_safety_snapshots_trailing : forall t n extras ls g,
  Forall label_ok ls ->
  crun true [mk_cfg n]
    (retrail_g t (mkCG (mkLG (mkG (map (fun p => mk_node (mk_cfg n) (N.of_nat (fst p)) (snd p)) (combine (seq 1 n) extras)) [] [] []) []) [] [] [])) ls = Some g ->
  committed_agree g /\ leader_complete_snap g /\ applied_within_snap g /\ snapshots_committed g.
Proof. intros t n extras ls g. apply state_machine_safety_snapshots. apply retrail_cinit, mk_nodes_cinit_snap. Qed.

Corollary acknowledged_entries_are_permanent_snapshots_trailing : forall t n extras ls g,
  Forall label_ok ls ->
  let g0 := retrail_g t (mkCG (mkLG (mkG (map (fun p => mk_node (mk_cfg n) (N.of_nat (fst p)) (snd p)) (combine (seq 1 n) extras)) [] [] []) []) [] [] []) in
  crun true [mk_cfg n] g0 ls = Some g -> acks_permanent_snap (run_acks true [mk_cfg n] g0 ls) g.
Proof. intros t n extras ls g Hl g0. apply acknowledged_entries_are_permanent_snapshots; [apply retrail_cinit, mk_nodes_cinit_snap|exact Hl]. Qed.

Definition compact_g0 : cgstate := retrail_g 0 cex_g0.

(* server 1 is elected, its no-op and one command are replicated to server 2 and committed, server 2
   learns the commit index 2; then server 1 takes a snapshot at index 3 and, with TrailingLogs = 0,
   removes its whole log *)
Definition compact_labels : list clabel :=
  [ CBase (LElect (GTimeout 1)); CBase (LElect (GVoteReq 1 2 0 [])); CBase (LElect (GVoteResp 1 2));
    CBase (LSend 1 2 2 2); CBase (LDeliver 0 0 []); CAck 0; CCommit 1;
    CBase (LSend 1 2 3 2); CBase (LDeliver 1 0 []); CAck 1;
    CBase (LPropose 1 LogCommand 7 []); CBase (LSend 1 2 3 3); CBase (LDeliver 2 0 []); CAck 2; CCommit 1;
    CBase (LElect (GInput 1 NSnapshot 0 [])) ].

Definition log_size (g : cgstate) (i : N) : nat := match up_state g i with Some s => length (keys_of (d_log s)) | None => 99 end.
Definition snap_idx (g : cgstate) (i : N) : N := match up_state g i with Some s => v_lastSnapIdx s | None => 0 end.

Theorem compaction_refutes_leader_complete : exists cfg g0 ls g,
  cinit_snap_ok cfg g0 /\ Forall label_ok ls /\ crun true [cfg] g0 ls = Some g /\
  ~ leader_complete g /\ leader_complete_snap g /\ log_size g 1 = 0%nat /\ snap_idx g 1 = 3.
Proof.
  destruct (run_witness_snap (mk_cfg 3) compact_g0 compact_labels
              (fun g => complete_violation g 2 1 2 && Nat.eqb (log_size g 1) 0 && (snap_idx g 1 =? 3))) as (g & Hrun & Hv); [vm_compute; reflexivity|].
  assert (H0 : cinit_snap_ok (mk_cfg 3) compact_g0) by (apply retrail_cinit, (mk_nodes_cinit_snap 3 [0; 0; 0])).
  assert (Hl : Forall label_ok compact_labels) by (repeat constructor; simpl; try discriminate; exact I).
  apply andb_prop in Hv. destruct Hv as [Hv H3]. apply andb_prop in Hv. destruct Hv as [H1 H2].
  exists (mk_cfg 3), compact_g0, compact_labels, g. split; [exact H0|]. split; [exact Hl|]. split; [exact Hrun|].
  split; [eapply complete_violation_sound; exact H1|]. split; [apply (state_machine_safety_snapshots (mk_cfg 3) compact_g0 compact_labels g H0 Hl Hrun)|].
  split; [apply Nat.eqb_eq, H2|apply N.eqb_eq, H3].
Qed.

Print Assumptions restart_from_snapshot_refutes_applied_within_commit.
Print Assumptions compaction_refutes_leader_complete.
