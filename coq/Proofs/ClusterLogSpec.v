(* ClusterLogSpec.v — the initial states from which Log Matching is proved for the cluster
   transition system Model/ClusterLog.v (theorem: Proofs/ClusterLogMain.v).

   linit_ok g0:
     - ginit_ok (lg_g g0): distinct server ids, every server well-formed (wfr: voted term <= current
       term, and for a running server the volatile term equals the stored one), nobody inside
       runCandidate, no response in flight, no leader recorded, no vote recorded;
     - no AppendEntries in flight;
     - one common history `base` (i-th entry has index i, terms never decrease) such that every
       server's log store holds exactly a PREFIX of it, nobody holds a snapshot, nobody is Leader,
       and a running server's cached last-log (lastLogIdx, lastLogTerm) is its real last entry,
       (0,0) for an empty log.
     - every entry of the history has a term <= the current term of EVERY server.

   Why the last condition speaks about every server and not only about the holders of the entry
   (the only condition beyond the obvious ones): if server A (term 5) holds (index 2, term 5) and
   B, C (term 1) hold only entry 1, then B reaches term 5 by four election timeouts, C grants its
   vote, and B writes its own no-op as (index 2, term 5): two different entries with one
   (index, term).  A cluster whose entries all come from terms that are over for everybody (a
   bootstrapped cluster: every entry of term 1, every server at term >= 1) satisfies it.  The proof
   uses it exactly once: when a server becomes leader of term T no entry of term T exists yet.

   A server may be Up (in any role but Leader) or Down (a durable image waiting for NRestart).
   gn_id n is by definition p_self (gn_P n), so the self-ids are consistent by construction. *)
From Coq Require Import List NArith Bool Lia.
From stdpp Require Import gmap.
From RaftModel Require Import Base Config Compaction Commitment Node NodeCodec Candidate Leader Replicate Cluster ClusterLog.
From RaftProofs Require Import VoteProofs ClusterProofs.
Open Scope N_scope.

(* what identifies an entry in the Log Matching argument *)
Definition key (e : entry) : N * N := (e_idx e, e_term e).

(* consecutive indices after prev, terms never below prev's *)
Fixpoint hist_ok (prev : N * N) (es : list entry) : Prop :=
  match es with
  | [] => True
  | e :: r => e_idx e = fst prev + 1 /\ snd prev <= e_term e /\ hist_ok (key e) r
  end.

(* the log store holds exactly the first k entries of the history, each under its index *)
Definition log_prefix (base : list entry) (k : nat) (m : gmap N entry) : Prop :=
  (k <= length base)%nat /\
  forall i, m !! i = if (1 <=? i) && (i <=? N.of_nat k) then nth_error base (N.to_nat (i - 1)) else None.

(* (index, term) of the k-th entry, (0,0) for k = 0 *)
Definition last_key (base : list entry) (k : nat) : N * N :=
  match k with
  | O => (0, 0)
  | S k' => match nth_error base k' with Some e => key e | None => (0, 0) end
  end.

Definition node_init (base : list entry) (n : gnode) : Prop :=
  d_snaps (image (gn_run n)) = [] /\
  (forall e, In e base -> e_term e <= d_term (image (gn_run n))) /\
  exists k, log_prefix base k (d_log (image (gn_run n))) /\
    match gn_run n with
    | Up s => v_role s <> Leader /\ v_lastSnapIdx s = 0 /\
              (v_lastLogIdx s, v_lastLogTerm s) = last_key base k
    | Down _ => True
    end.

Definition linit_ok (g : lgstate) : Prop :=
  ginit_ok (lg_g g) /\ lg_msgs g = [] /\
  exists base, hist_ok (0, 0) base /\ forall n, In n (g_nodes (lg_g g)) -> node_init base n.
