(* ClusterCommitSnapNode3.v — takeSnapshot at one server keeps the per-server invariants, whether it
   returns or the process dies inside it. *)
From Coq Require Import List NArith Bool Lia.
From stdpp Require Import gmap.
From RaftModel Require Import Base Config Compaction Commitment Node NodeCodec Candidate Leader.
From RaftProofs Require Import VoteProofs AdvLeaderProofs AppendProofs RecoverProofs ClusterProofs
  ClusterLogSpec ClusterLogChain ClusterLogNode ClusterLogCut ClusterLogVote
  ClusterCommitSpec ClusterCommitInit ClusterCommitChain ClusterCommitNode ClusterCommitInv
  ClusterCommitSnapLog ClusterCommitSnapBoot ClusterCommitSnapCut ClusterCommitSnapAE2 ClusterCommitSnapTake ClusterCommitSnapNode.
Open Scope N_scope.

(* the state takeSnapshot returns: nothing changed, or the snapshot is stored, is the new boundary,
   and log entries at or below its index may be gone *)
Definition snap_done (s s' : nstate) : Prop :=
  s' = s \/
  (fst (v_fsmLast s) <> 0 /\ exists m',
     s' = set_log (set_lastsnap (set_snaps s (d_snaps s ++ [snap_of s])) (fst (v_fsmLast s)) (snd (v_fsmLast s))) m' (d_staged s) (d_pcommit s) /\
     (m' = d_log s \/ exists lo hi, m' = log_delete (d_log s) lo hi /\ hi <= fst (v_fsmLast s))).

Lemma take_done P s fs s' r tr fs' : take_snapshot P s fs = Done s' r tr fs' -> snap_done s s'.
Proof.
  intros Ho. destruct (take_cases P s fs) as (s1 & r1 & tr1 & fs1 & Ho1 & Hc). rewrite Ho in Ho1. inversion Ho1; subst s1 r1 tr1 fs1. clear Ho1.
  destruct Hc as [[-> _]|(Hnz & [[-> _]|(lo & hi & Hhi & -> & _)])].
  - left. reflexivity.
  - right. split; [exact Hnz|]. exists (d_log s). split; [reflexivity|left; reflexivity].
  - right. split; [exact Hnz|]. exists (log_delete (d_log s) lo hi). split; [reflexivity|]. right. exists lo, hi. auto.
Qed.

Lemma snap_eff_sub s m' sns' : snap_eff s m' sns' -> log_sub m' (d_log s).
Proof.
  intros [[-> _]|(_ & _ & [->|(lo & hi & -> & _)])]; [apply log_sub_refl|apply log_sub_refl|apply log_delete_sub].
Qed.

Section Snap.
  Variable cfg : config.
  Variable Ps : list params.

  Lemma snap_eff_cfg s m' sns' : znode_up cfg Ps s -> snap_eff s m' sns' -> log_dec cfg Ps m' /\ snaps_cfg cfg sns'.
  Proof.
    intros Hup He. split.
    - intros i x Hx. apply (zn_dec cfg Ps s Hup i x). apply (snap_eff_sub s m' sns' He i x Hx).
    - destruct He as [[_ ->]|(_ & -> & _)]; [apply (zn_scfg cfg Ps s Hup)|].
      intros sn Hsn. apply in_app_iff in Hsn. destruct Hsn as [Hsn|[<-|[]]]; [apply (zn_scfg cfg Ps s Hup sn Hsn)|].
      simpl. apply (zn_com cfg Ps s Hup).
  Qed.

  Theorem snapshot_step_z C P s cut fs r' ob out :
    chain_ok C -> pclosed C -> zup C s -> znode cfg Ps P (Up s) ->
    (fst (v_fsmLast s) <> 0 ->
       created C (v_fsmLast s) /\ snd (v_fsmLast s) <= d_term s /\ anc C (v_fsmLast s) (last_entry s) /\
       v_lastSnapIdx s <= fst (v_fsmLast s)) ->
    step_full P (Up s) NSnapshot cut fs = (r', ob, out) ->
    znlog C r' /\ znode cfg Ps P r' /\ d_term (image r') = d_term s /\ snap_eff s (d_log (image r')) (d_snaps (image r')) /\
    match r' with Up s' => fresh_up s' \/ snap_done s s' | Down _ => True end /\ (ob = ONone \/ ob = OLost).
  Proof.
    intros HC Hp Hz Hcn Hfsm HF. pose proof Hcn as (Hrc & HP & Hup).
    unfold step_full in HF. destruct (fsm_index s) as [fi ft] eqn:Ef. unfold fsm_index in Ef.
    assert (Esn : mkSnap fi ft (v_committed s) (v_committedIdx s) (v_fsm s) true = snap_of s) by (unfold snap_of; rewrite Ef; reflexivity).
    rewrite Esn in HF.
    destruct (finish_cases P _ _ (Some (snap_of s)) s cut _ r' ob out HF) as [(s1 & r & tr & fs' & Ho & -> & ->)|(k0 & oo & HB & ->)].
    - destruct (take_done P s fs s1 r tr fs' Ho) as [->|(Hnz & m' & -> & Hm)].
      { split; [exact Hz|]. split; [exact Hcn|]. split; [reflexivity|]. split; [left; auto|]. split; [right; left; reflexivity|left; reflexivity]. }
      assert (Heff : snap_eff s m' (d_snaps s ++ [snap_of s])) by (right; auto).
      set (s1 := set_log (set_lastsnap (set_snaps s (d_snaps s ++ [snap_of s])) (fst (v_fsmLast s)) (snd (v_fsmLast s))) m' (d_staged s) (d_pcommit s)).
      assert (Hb' : bk s1 = v_fsmLast s).
      { rewrite bk_pos by exact Hnz. cbn [s1 v_lastSnapIdx v_lastSnapTerm set_log set_lastsnap set_snaps]. destruct (v_fsmLast s); reflexivity. }
      split; [|split; [|split; [reflexivity|split; [exact Heff|split; [right; right; split; [exact Hnz|exists m'; auto]|left; reflexivity]]]]].
      + simpl. unfold zup. rewrite Hb'. unfold topk. cbn [s1 d_term d_log d_snaps v_lastLogIdx v_lastLogTerm set_log set_lastsnap set_snaps].
        destruct (snap_eff_shape C HC P s Hz Hfsm m' _ Heff) as [[_ E]|H]; [|exact H].
        exfalso.
        assert (L : length (d_snaps s ++ [snap_of s]) = length (d_snaps s)) by congruence. rewrite app_length in L. simpl in L. lia.
      + split; [exact Hrc|]. split; [exact HP|]. destruct (snap_eff_cfg s m' _ Hup Heff) as [D1 D2].
        pose proof (zn_sa cfg Ps s Hup). pose proof (zn_ac cfg Ps s Hup). pose proof (zn_fa cfg Ps s Hup). pose proof (zn_fs cfg Ps s Hup).
        destruct (Hfsm Hnz) as (_ & _ & _ & F4).
        constructor; cbn [s1 d_log d_snaps v_latest v_committed v_lastSnapIdx v_applied v_commit v_fsmLast set_log set_lastsnap set_snaps];
          try assumption; try apply (zn_lat cfg Ps s Hup); try apply (zn_com cfg Ps s Hup); try lia; try (right; lia).
    - destruct (take_images P s fs k0) as [Et Heff]. cbv zeta in Et, Heff.
      set (img := cut_image P (Some (snap_of s)) s (trace_of (take_snapshot P s fs)) k0) in *.
      assert (Himg : zimg C img) by (apply (snap_eff_img C HC P s Hz Hfsm _ _ _ Et Heff)).
      destruct (snap_eff_cfg s _ _ Hup Heff) as [D1 D2].
      destruct (boot_znlog C P img r' oo HC Hp Hrc Himg HB) as (A & Dt & Dl & Ds & _).
      destruct (boot_znode cfg Ps P img r' oo Hrc HP (log_in_keys C _ _ (zi_in _ _ _ _ Himg)) (conj D1 D2) HB) as [B D].
      split; [exact A|]. split; [exact B|]. split; [congruence|]. split; [rewrite Dl, Ds; exact Heff|].
      split; [destruct r'; [left; exact D|exact I]|right; reflexivity].
  Qed.
End Snap.
