(* LeaderGateProofs.v — proofs (and refutations) of the statements of LeaderGateSpec.v. *)
From Coq Require Import List NArith Bool Lia ZifyBool ZifyN.
From stdpp Require Import gmap.
From RaftModel Require Import Base Config Compaction Commitment Node Leader LeaderCodec.
From RaftProofs Require Import CommitmentProofs ConfigProofs LeaderGateSpec LeaderGateA.
Open Scope N_scope.

(* ================================================================ concrete material *)
Definition ex_cfg : config := [mkSrv Voter 1 1; mkSrv Voter 2 2; mkSrv Voter 3 3].
Definition ex_P : params := mkP 1 false false false 10 64 (fun _ => ex_cfg).
Definition ex_log : gmap N entry :=
  <[ 3 := mkE 3 1 LogCommand 8 ]> (<[ 2 := mkE 2 1 LogCommand 7 ]> (<[ 1 := mkE 1 1 LogConfiguration 0 ]> ∅)).
(* term 2, three voters, log: configuration at 1, commands at 2 and 3, all committed and applied *)
Definition ex_s0 : nstate :=
  mkNS 2 2 (Some 1) ex_log 0 0 [] Leader 2 3 3 3 1 0 0 ex_cfg 1 ex_cfg 1 1 1 false [7; 8] (3, 1).

Lemma ex_s0_start : leader_start_ok ex_s0.
Proof. unfold leader_start_ok. vm_compute. repeat split; discriminate. Qed.

Definition ex_ops : list lop :=
  [ LDispatch [(LogNoop, 0, 1)] [];            (* the no-op runLeader dispatches first: index 4 *)
    LMatch 2 4;
    LCommit;                                   (* commit index 4: an entry of the own term is committed *)
    LGate;
    LConfig (mkReq 1 4 4 0) 2 [];              (* AddNonvoter s4: index 5 *)
    LMatch 2 5;
    LMatch 3 5;
    LCommit;                                   (* the change is committed: the gate opens again *)
    LConfig (mkReq 0 4 4 5) 3 [];              (* AddVoter s4 (prevIndex 5): index 6 *)
    LVerify ].

Example gate_nonvacuous :
  exists ls vf,
    leader_start_ok ex_s0 /\
    (8 <= length ex_ops)%nat /\
    leader_run ex_P [] (leader_setup ex_s0) None ex_ops = Some (ls, vf) /\
    v_commit (l_node ls) = 5 /\ v_committedIdx (l_node ls) = 5 /\ v_latestIdx (l_node ls) = 6 /\
    v_latest (l_node ls) = ex_cfg ++ [mkSrv Voter 4 4] /\
    map e_idx (pending_configs (last_index ex_s0) (l_node ls)) = [6] /\
    config_gate_open ls = false.
Proof.
  eexists. eexists. split; [exact ex_s0_start|]. split; [simpl; lia|].
  split; [vm_compute; reflexivity|]. vm_compute. repeat split; reflexivity.
Qed.

(* ================================================================ the statements that are FALSE as written *)
(* (1) op_enabled lets LDispatch carry requests of type LogConfiguration: dispatchLogs then stores
       configuration entries that never went through the gate (the real callers of dispatchLogs only
       pass LogCommand / LogBarrier / LogNoop; configuration entries come from appendConfigurationEntry). *)
Definition cex_s0 : nstate :=
  mkNS 1 0 None ∅ 0 0 [] Leader 1 0 0 0 0 0 0 ex_cfg 0 ex_cfg 0 0 0 false [] (0, 0).
Definition cex_ops : list lop := [LDispatch [(LogConfiguration, 0, 1); (LogConfiguration, 0, 2)] []].
Definition cex_final : lstate * vstate :=
  match leader_run ex_P [] (leader_setup cex_s0) None cex_ops with Some x => x | None => (leader_setup cex_s0, None) end.

Lemma cex_s0_start : leader_start_ok cex_s0.
Proof. unfold leader_start_ok. vm_compute. repeat split; discriminate. Qed.

Example gate_serialises_is_false : ~ gate_serialises.
Proof.
  intros H.
  specialize (H ex_P [] cex_s0 cex_ops (fst cex_final) (snd cex_final) cex_s0_start).
  destruct H as (_ & H & _); [vm_compute; reflexivity|].
  vm_compute in H. lia.
Qed.

(* (2) leader_start_ok says nothing about the log of s0: a configuration entry whose index field is above
       last_index s0 is "pending" from the start (empty run). *)
Definition cex2_s0 : nstate :=
  mkNS 1 0 None (<[ 1 := mkE 9 1 LogConfiguration 0 ]> ∅) 0 0 [] Leader 1 0 0 0 0 0 0 ex_cfg 0 ex_cfg 0 0 0 false [] (0, 0).

Example gate_serialises_is_false_empty_run :
  exists P tab s0 e, leader_start_ok s0 /\ leader_run P tab (leader_setup s0) None [] = Some (leader_setup s0, None) /\
    In e (pending_configs (last_index s0) (l_node (leader_setup s0))) /\ e_idx e <> v_latestIdx (l_node (leader_setup s0)).
Proof.
  exists ex_P, [], cex2_s0, (mkE 9 1 LogConfiguration 0).
  split; [unfold leader_start_ok; vm_compute; repeat split; discriminate|].
  split; [reflexivity|]. split; [vm_compute; left; reflexivity|vm_compute; discriminate].
Qed.

(* (3) own_term_entries: the store of s0 may hold keys above last_index s0 (empty run) *)
Definition cex3_s0 : nstate :=
  mkNS 1 0 None (<[ 5 := mkE 5 0 LogCommand 0 ]> ∅) 0 0 [] Leader 1 0 0 0 0 0 0 ex_cfg 0 ex_cfg 0 0 0 false [] (0, 0).

Example own_term_entries_is_false : ~ own_term_entries.
Proof.
  intros H.
  specialize (H ex_P [] cex3_s0 [] (leader_setup cex3_s0) None).
  destruct H as (_ & H); [unfold leader_start_ok; vm_compute; repeat split; discriminate|reflexivity|].
  specialize (H 5 (mkE 5 0 LogCommand 0)).
  destruct H as [H _]; [vm_compute; reflexivity|vm_compute; reflexivity|].
  vm_compute in H. discriminate.
Qed.

(* ================================================================ the gate is necessary *)
Theorem gate_is_necessary_holds : gate_is_necessary.
Proof.
  unfold gate_is_necessary.
  exists ex_P, [], ex_s0, [LConfig (mkReq 1 4 4 0) 1 []; LConfig (mkReq 1 5 5 0) 2 []].
  eexists. eexists. split; [exact ex_s0_start|].
  split; [vm_compute; reflexivity|]. vm_compute. lia.
Qed.

(* ================================================================ G3: true as stated *)
Theorem changes_one_at_a_time_holds : changes_one_at_a_time.
Proof.
  unfold changes_one_at_a_time.
  intros P tab s0 ops ls vf q fid fs ls' vf' out Hs Hr En Hstep.
  pose proof (run_core _ _ P tab ops _ _ _ _ (core_inv_setup s0 Hs) Hr) as I.
  unfold step_lop in Hstep.
  destruct (append_config P (encode_cfg tab) ls fs q fid) as [[[ls1 res] tr] fs1] eqn:E. injection Hstep as <- _ _.
  apply config_effect in E. destruct E as [->|(cfg & Hn & E1 & E2 & E3 & E4 & E5 & _)]; [left; reflexivity|].
  right. unfold op_enabled in En. apply andb_true_iff in En. destruct En as [_ G].
  pose proof (gate_open_committed _ _ ls I G) as [G1 _].
  rewrite E4. split; [eapply next_config_checked; exact Hn|]. split; [exact G1|]. split; [exact E5|].
  intros x Hx. eapply next_config_one_voter; eassumption.
Qed.

(* G1 alone is also true as stated (no assumption on the log of s0, none on the requests dispatched) *)
Theorem gate_open_means_committed :
  forall P tab s0 ops ls vf,
  leader_start_ok s0 ->
  leader_run P tab (leader_setup s0) None ops = Some (ls, vf) ->
  config_gate_open ls = true ->
  v_latestIdx (l_node ls) <= v_commit (l_node ls) /\ last_index s0 + 1 <= v_commit (l_node ls).
Proof.
  intros P tab s0 ops ls vf Hs Hr G.
  pose proof (run_core _ _ P tab ops _ _ _ _ (core_inv_setup s0 Hs) Hr) as I.
  eapply gate_open_committed; eassumption.
Qed.

(* ================================================================ own_term_entries, corrected *)
(* the missing hypothesis: the log store of s0 holds nothing above last_index s0 *)
Definition own_term_entries_corrected : Prop :=
  forall P tab s0 ops ls vf,
  leader_start_ok s0 ->
  (forall i e, d_log s0 !! i = Some e -> i <= last_index s0) ->
  leader_run P tab (leader_setup s0) None ops = Some (ls, vf) ->
  v_term (l_node ls) = v_term s0 /\
  forall i e, last_index s0 < i -> d_log (l_node ls) !! i = Some e -> e_term e = v_term s0 /\ e_idx e = i.

Theorem own_term_entries_corrected_holds : own_term_entries_corrected.
Proof.
  intros P tab s0 ops ls vf Hs Hlog Hr.
  assert (T0 : term_inv (last_index s0) (v_term s0) (leader_setup s0)).
  { intros i e Hi Hk. simpl in Hk. apply Hlog in Hk. lia. }
  pose proof (run_term _ _ P tab ops _ _ _ _ (core_inv_setup s0 Hs) T0 Hr) as [I T].
  split; [apply I|exact T].
Qed.

(* the first half needs no extra hypothesis *)
Theorem leadership_term_constant :
  forall P tab s0 ops ls vf,
  leader_start_ok s0 -> leader_run P tab (leader_setup s0) None ops = Some (ls, vf) -> v_term (l_node ls) = v_term s0.
Proof.
  intros P tab s0 ops ls vf Hs Hr.
  pose proof (run_core _ _ P tab ops _ _ _ _ (core_inv_setup s0 Hs) Hr) as I. apply I.
Qed.

(* ================================================================ gate_serialises, corrected *)
Lemma filter_snd_nil (f : entry -> bool) (l : list (N * entry)) :
  (forall k e, In (k, e) l -> f e = true -> False) -> List.filter f (map snd l) = [].
Proof.
  induction l as [|[k e] r IH]; intros H; simpl; [reflexivity|].
  destruct (f e) eqn:F; [exfalso; apply (H k e); [left; reflexivity|exact F]|].
  apply IH. intros k' e' Hin. apply (H k' e'). right. exact Hin.
Qed.

Lemma filter_snd_le1 (f : entry -> bool) (c : N) (l : list (N * entry)) :
  List.NoDup (map fst l) -> (forall k e, In (k, e) l -> f e = true -> k = c) ->
  (length (List.filter f (map snd l)) <= 1)%nat.
Proof.
  induction l as [|[k e] r IH]; intros Hnd H; simpl; [lia|].
  simpl in Hnd. inversion Hnd as [|x l' Hnotin Hnd']; subst.
  destruct (f e) eqn:F.
  - assert (k = c) by (apply (H k e); [left; reflexivity|exact F]). subst k.
    rewrite filter_snd_nil; [simpl; lia|].
    intros k' e' Hin Hf. assert (k' = c) by (apply (H k' e'); [right; exact Hin|exact Hf]). subst k'.
    apply Hnotin. apply in_map_iff. exists (c, e'). split; [reflexivity|exact Hin].
  - apply IH; [exact Hnd'|]. intros k' e' Hin. apply (H k' e'). right. exact Hin.
Qed.

Lemma list_fmap_map {A B} (f : A -> B) (l : list A) : f <$> l = map f l.
Proof. induction l as [|x r IH]; simpl; [reflexivity|]. rewrite <- IH. reflexivity. Qed.

Lemma pending_in last0 s e :
  In e (pending_configs last0 s) ->
  exists k, d_log s !! k = Some e /\ e_ty e = LogConfiguration /\ last0 < e_idx e /\ v_commit s < e_idx e.
Proof.
  unfold pending_configs. intros H. apply filter_In in H. destruct H as [Hin Hf].
  apply in_map_iff in Hin. destruct Hin as ([k e'] & He & Hin). simpl in He. subst e'.
  apply elem_of_list_In in Hin. apply elem_of_map_to_list in Hin.
  exists k. split; [exact Hin|]. lia.
Qed.

(* the two missing hypotheses: (a) the log store of s0 holds no configuration entry whose index is above
   last_index s0; (b) the requests handed to dispatchLogs are not of type LogConfiguration (configuration
   entries are created by appendConfigurationEntry only) *)
Definition gate_serialises_corrected : Prop :=
  forall P tab s0 ops ls vf,
  leader_start_ok s0 ->
  (forall i e, d_log s0 !! i = Some e -> e_ty e = LogConfiguration -> e_idx e <= last_index s0) ->
  forallb no_config_req ops = true ->
  leader_run P tab (leader_setup s0) None ops = Some (ls, vf) ->
  (config_gate_open ls = true ->
     v_latestIdx (l_node ls) <= v_commit (l_node ls) /\ last_index s0 + 1 <= v_commit (l_node ls)) /\
  (length (pending_configs (last_index s0) (l_node ls)) <= 1)%nat /\
  (forall e, In e (pending_configs (last_index s0) (l_node ls)) ->
     e_idx e = v_latestIdx (l_node ls) /\ config_gate_open ls = false).

Theorem gate_serialises_corrected_holds : gate_serialises_corrected.
Proof.
  intros P tab s0 ops ls vf Hs Hlog Hnc Hr.
  assert (B0 : cfg_inv (last_index s0) (leader_setup s0)).
  { intros k e Hk Ht Hi. simpl in Hk. specialize (Hlog k e Hk Ht). lia. }
  pose proof (run_cfg _ _ P tab ops _ _ _ _ Hnc (core_inv_setup s0 Hs) B0 Hr) as [I B].
  assert (Hpend : forall k e, d_log (l_node ls) !! k = Some e -> e_ty e = LogConfiguration ->
                    last_index s0 < e_idx e -> v_commit (l_node ls) < e_idx e ->
                    k = v_latestIdx (l_node ls) /\ e_idx e = v_latestIdx (l_node ls) /\ config_gate_open ls = false).
  { intros k e Hk Ht Hi Hc. destruct (B k e Hk Ht Hi) as [Bk [Bc|Bl]]; [lia|].
    split; [congruence|]. split; [exact Bl|].
    destruct (config_gate_open ls) eqn:G; [|reflexivity].
    pose proof (gate_open_committed _ _ ls I G) as [G1 _]. lia. }
  split; [intros G; eapply gate_open_committed; eassumption|]. split.
  - unfold pending_configs. apply (filter_snd_le1 _ (v_latestIdx (l_node ls))).
    + rewrite <- list_fmap_map. apply NoDup_ListNoDup. apply NoDup_fst_map_to_list.
    + intros k e Hin Hf. apply elem_of_list_In in Hin. apply elem_of_map_to_list in Hin.
      apply (Hpend k e Hin); lia.
  - intros e Hin. apply pending_in in Hin. destruct Hin as (k & Hk & Ht & Hi & Hc).
    destruct (Hpend k e Hk Ht Hi Hc) as (_ & H1 & H2). split; assumption.
Qed.

(* the natural reading of (a): every entry of the store of s0 is at or below last_index s0 *)
Corollary gate_serialises_bounded_log :
  forall P tab s0 ops ls vf,
  leader_start_ok s0 ->
  (forall i e, d_log s0 !! i = Some e -> e_idx e <= last_index s0) ->
  forallb no_config_req ops = true ->
  leader_run P tab (leader_setup s0) None ops = Some (ls, vf) ->
  (config_gate_open ls = true ->
     v_latestIdx (l_node ls) <= v_commit (l_node ls) /\ last_index s0 + 1 <= v_commit (l_node ls)) /\
  (length (pending_configs (last_index s0) (l_node ls)) <= 1)%nat /\
  (forall e, In e (pending_configs (last_index s0) (l_node ls)) ->
     e_idx e = v_latestIdx (l_node ls) /\ config_gate_open ls = false).
Proof.
  intros P tab s0 ops ls vf Hs Hlog Hnc Hr.
  apply (gate_serialises_corrected_holds P tab s0 ops ls vf Hs); [|exact Hnc|exact Hr].
  intros i e Hk _. exact (Hlog i e Hk).
Qed.

(* the non-vacuity run satisfies the added hypotheses too *)
Example gate_nonvacuous_corrected_hyps :
  (forall i e, d_log ex_s0 !! i = Some e -> e_idx e <= last_index ex_s0 /\ i <= last_index ex_s0) /\
  forallb no_config_req ex_ops = true.
Proof.
  split; [|reflexivity].
  intros i e H. change (d_log ex_s0) with ex_log in H. unfold ex_log in H.
  change (last_index ex_s0) with 3.
  destruct (N.eq_dec i 3) as [->|N3]; [rewrite lookup_insert in H; injection H as <-; simpl; lia|].
  rewrite lookup_insert_ne in H by congruence.
  destruct (N.eq_dec i 2) as [->|N2]; [rewrite lookup_insert in H; injection H as <-; simpl; lia|].
  rewrite lookup_insert_ne in H by congruence.
  destruct (N.eq_dec i 1) as [->|N1]; [rewrite lookup_insert in H; injection H as <-; simpl; lia|].
  rewrite lookup_insert_ne in H by congruence. rewrite lookup_empty in H. discriminate.
Qed.

Print Assumptions gate_is_necessary_holds.
Print Assumptions changes_one_at_a_time_holds.
Print Assumptions gate_open_means_committed.
Print Assumptions own_term_entries_corrected_holds.
Print Assumptions leadership_term_constant.
Print Assumptions gate_serialises_corrected_holds.
Print Assumptions gate_serialises_bounded_log.
Print Assumptions gate_serialises_is_false.
Print Assumptions gate_serialises_is_false_empty_run.
Print Assumptions own_term_entries_is_false.
Print Assumptions gate_nonvacuous.
Print Assumptions gate_nonvacuous_corrected_hyps.
