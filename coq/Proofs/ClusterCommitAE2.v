(* ClusterCommitAE2.v — consequences of the handler's store part (ae_log of Proofs/ClusterCommitAE.v):
   the log stays hole-free with an accurate last index, loses entries only at or above the first
   conflict, and gains only entries of the request. *)
From Coq Require Import List NArith Bool Lia.
From stdpp Require Import gmap.
From RaftModel Require Import Base Config Compaction Node NodeCodec.
From RaftProofs Require Import AppendProofs RecoverProofs ConvergeFollower
  ClusterLogSpec ClusterLogChain ClusterLogNode ClusterLogCut ClusterLogAppend ClusterCommitChain ClusterCommitAE.
Open Scope N_scope.

(* t is the last index of m: nothing above it, and (if positive) an entry at it *)
Definition top_of (m : gmap N entry) (t : N) : Prop :=
  (forall i, t < i -> m !! i = None) /\ (0 < t -> is_Some (m !! t)).

Lemma store_contig_lookup q news m i : contig q news ->
  (q < i <= q + N.of_nat (length news) -> exists e, In e news /\ e_idx e = i /\ log_store m news !! i = Some e) /\
  (~ (q < i <= q + N.of_nat (length news)) -> log_store m news !! i = m !! i).
Proof.
  intros Hc. rewrite log_store_lookup. split.
  - intros Hi. destruct (contig_nth q news Hc i Hi) as (e & He & Hei). exists e. split; [exact He|]. split; [exact Hei|].
    rewrite <- Hei. rewrite (contig_find_last q news e Hc He). reflexivity.
  - intros Hi. destruct (find_last i news) as [e|] eqn:F; [|reflexivity]. exfalso. apply Hi.
    apply find_last_In in F. destruct F as [F1 F2]. pose proof (contig_idx _ _ Hc e F1).
    destruct (contig_app q news [] ltac:(rewrite app_nil_r; exact Hc)) as (_ & _ & Hb). specialize (Hb e F1). lia.
Qed.

Lemma store_contig_src q news m i x : contig q news -> log_store m news !! i = Some x -> In x news \/ m !! i = Some x.
Proof.
  intros Hc H. rewrite log_store_lookup in H. destruct (find_last i news) as [e|] eqn:F; [|right; exact H].
  inversion H; subst. left. apply (find_last_In _ _ _ F).
Qed.

(* storing news right after the last index keeps the log hole-free *)
Lemma store_after_top m t news : lcontig m -> top_of m t -> contig t news -> news <> [] ->
  lcontig (log_store m news) /\ top_of (log_store m news) (e_idx (last_of news)).
Proof.
  intros Hlc [Ht1 Ht2] Hc Hnn.
  assert (Hlast : e_idx (last_of news) = t + N.of_nat (length news)) by (apply contig_last; assumption).
  assert (Hlen : (0 < length news)%nat) by (destruct news; [congruence|simpl; lia]).
  split.
  - intros i Hi Hs. destruct (N.le_gt_cases i t) as [Hle|Hgt].
    + destruct (store_contig_lookup t news m i Hc) as [_ B]. rewrite B in Hs by lia.
      destruct (store_contig_lookup t news m (i - 1) Hc) as [_ B']. rewrite B' by lia. apply Hlc; assumption.
    + destruct (N.le_gt_cases i (t + N.of_nat (length news))) as [Hin|Hout].
      * destruct (N.eq_dec i (t + 1)) as [->|Hne].
        -- replace (t + 1 - 1) with t by lia. destruct (store_contig_lookup t news m t Hc) as [_ B']. rewrite B' by lia. apply Ht2. lia.
        -- destruct (store_contig_lookup t news m (i - 1) Hc) as [A _]. destruct A as (e & _ & _ & E); [lia|]. rewrite E. eauto.
      * destruct (store_contig_lookup t news m i Hc) as [_ B]. rewrite B in Hs by lia. rewrite Ht1 in Hs by lia. destruct Hs; discriminate.
  - rewrite Hlast. split.
    + intros i Hi. destruct (store_contig_lookup t news m i Hc) as [_ B]. rewrite B by lia. apply Ht1. lia.
    + intros _. destruct (store_contig_lookup t news m (t + N.of_nat (length news)) Hc) as [A _].
      destruct A as (e & _ & _ & E); [lia|]. rewrite E. eauto.
Qed.

(* deleting c .. t *)
Lemma delete_tail m t c : lcontig m -> top_of m t -> 1 <= c -> c <= t ->
  lcontig (log_delete m c t) /\ top_of (log_delete m c t) (c - 1).
Proof.
  intros Hlc [Ht1 Ht2] Hc1 Hct. split.
  - intros i Hi Hs. rewrite log_delete_lookup in *.
    destruct (N.leb_spec c i) as [Hci|Hci].
    + destruct (N.leb_spec i t); simpl in Hs; [destruct Hs; discriminate|].
      rewrite Ht1 in Hs by lia. destruct Hs; discriminate.
    + simpl in Hs. destruct (N.leb_spec c (i - 1)); [lia|]. simpl. apply Hlc; assumption.
  - split.
    + intros i Hi. rewrite log_delete_lookup. destruct (N.leb_spec c i); [|lia]. destruct (N.leb_spec i t); [reflexivity|].
      simpl. apply Ht1. lia.
    + intros Hpos. rewrite log_delete_lookup. destruct (N.leb_spec c (c - 1)); [lia|]. simpl.
      apply (lcontig_down m Hlc (c - 1) t); [apply Ht2; lia|lia|lia].
Qed.

(* the new entries start right after prev and the duplicates *)
Lemma news_start m top a dup news : top_of m top -> contig (aq_prevIdx a) (dup ++ news) -> news <> [] ->
  aq_prevIdx a <= top -> (forall e, In e dup -> exists se, m !! e_idx e = Some se /\ e_term se = e_term e) ->
  let q := aq_prevIdx a + N.of_nat (length dup) in
  contig q news /\ q <= top /\ e_idx (hd (mkE 0 0 0 0) news) = q + 1.
Proof.
  intros [Ht1 _] Hc Hnn Hp Hdup. cbv zeta. destruct (contig_app _ _ _ Hc) as (Hcd & Hcn & _).
  split; [exact Hcn|]. split; [|apply contig_hd; assumption].
  destruct dup as [|d0 dr]; [simpl; lia|].
  assert (Hl : In (last (d0 :: dr) (mkE 0 0 0 0)) (d0 :: dr)) by (apply last_in; discriminate).
  destruct (Hdup _ Hl) as (se & Hse & _). rewrite (contig_last _ _ Hcd) in Hse by discriminate.
  destruct (N.le_gt_cases (aq_prevIdx a + N.of_nat (length (d0 :: dr))) top) as [|Hgt]; [assumption|].
  rewrite (Ht1 _ Hgt) in Hse. discriminate.
Qed.

Theorem ae_log_ok m top a m' t' : lcontig m -> top_of m top -> contig (aq_prevIdx a) (aq_entries a) ->
  ae_log m top a m' t' ->
  lcontig m' /\ top_of m' t' /\ log_ok_fail (aq_prevIdx a) (aq_entries a) m m' /\
  (forall i x, m' !! i = Some x -> m !! i = Some x \/ In x (aq_entries a)).
Proof.
  intros Hlc Htop Hc (dup & news & Hes & Hnn & Hp & Hdup & Hcase).
  rewrite Hes in Hc. destruct (news_start m top a dup news Htop Hc Hnn Hp Hdup) as (Hcn & Hq & Hhd).
  set (q := aq_prevIdx a + N.of_nat (length dup)) in *.
  pose proof Htop as [Ht1 Ht2].
  assert (Hsrc : forall mm i x, log_store mm news !! i = Some x -> mm !! i = Some x \/ In x (aq_entries a)).
  { intros mm i x H. destruct (store_contig_src q news mm i x Hcn H) as [A|A]; [right; rewrite Hes; apply in_app_iff; auto|left; exact A]. }
  destruct Hcase as [(-> & -> & Hnew)|(c & Hfc & Hc0 & Hcl & [(-> & ->)|(-> & ->)])].
  - (* new entries beyond the log *)
    assert (q = top).
    { assert (In (hd (mkE 0 0 0 0) news) news) by (destruct news; [congruence|left; reflexivity]).
      pose proof (Hnew _ H). lia. }
    subst q. rewrite H in Hcn. destruct (store_after_top m top news Hlc Htop Hcn Hnn) as [A B].
    split; [exact A|]. split; [exact B|]. split; [|intros i x Hx; apply (Hsrc m i x Hx)].
    split.
    + intros i Hi. destruct (store_contig_lookup top news m i Hcn) as [_ E]. apply E. lia.
    + intros i x Hx Hne. exfalso. apply Hne. destruct (store_contig_lookup top news m i Hcn) as [_ E]. rewrite E; [exact Hx|].
      intros Hr. rewrite Ht1 in Hx by lia. discriminate.
  - (* deleted from the conflict on *)
    assert (Hc1 : 1 <= c) by lia.
    destruct (delete_tail m top c Hlc Htop Hc1 Hcl) as [A B].
    split; [exact A|]. split; [exact B|]. split.
    + split.
      * intros i Hi. rewrite log_delete_lookup. destruct (N.leb_spec c i); [lia|reflexivity].
      * intros i x Hx Hne. exists c. split; [exact Hfc|]. rewrite log_delete_lookup in Hne.
        destruct (N.leb_spec c i); [assumption|]. simpl in Hne. contradiction.
    + intros i x Hx. left. rewrite log_delete_lookup in Hx. destruct ((c <=? i) && (i <=? top)); [discriminate|exact Hx].
  - (* deleted, then stored *)
    assert (Hc1 : 1 <= c) by lia. assert (Eq : q = c - 1) by lia.
    destruct (delete_tail m top c Hlc Htop Hc1 Hcl) as [A B]. rewrite <- Eq in B.
    destruct (store_after_top (log_delete m c top) q news A B Hcn Hnn) as [A' B'].
    split; [exact A'|]. split; [exact B'|]. split.
    + split.
      * intros i Hi. destruct (store_contig_lookup q news (log_delete m c top) i Hcn) as [_ E]. rewrite E by lia.
        rewrite log_delete_lookup. destruct (N.leb_spec c i); [lia|reflexivity].
      * intros i x Hx Hne. exists c. split; [exact Hfc|].
        destruct (N.le_gt_cases c i) as [|Hlt]; [assumption|]. exfalso. apply Hne.
        destruct (store_contig_lookup q news (log_delete m c top) i Hcn) as [_ E]. rewrite E by lia.
        rewrite log_delete_lookup. destruct (N.leb_spec c i); [lia|exact Hx].
    + intros i x Hx. destruct (Hsrc _ i x Hx) as [H|H]; [left|right; exact H].
      rewrite log_delete_lookup in H. destruct ((c <=? i) && (i <=? top)); [discriminate|exact H].
Qed.
