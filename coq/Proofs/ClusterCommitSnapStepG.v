(* ClusterCommitSnapStepG.v — with snapshots: a vote request of a runCandidate invocation is executed
   (GVoteReq), and the stray inputs pre-vote, restart, TimeoutNow (GInput), keep the invariant. *)
From Coq Require Import List NArith Bool Lia.
From stdpp Require Import gmap.
From RaftModel Require Import Base Config Compaction Commitment Node NodeCodec Candidate Leader Replicate Cluster ClusterLog ClusterCommit.
From RaftProofs Require Import ConfigProofs CommitmentProofs VoteProofs ClusterProofs
  ClusterLogSpec ClusterLogChain ClusterLogNode ClusterLogVote ClusterLogLeader ClusterLogInv ClusterLogSteps
  ClusterCommitSpec ClusterCommitLog ClusterCommitChain ClusterCommitNode ClusterCommitGhost
  ClusterCommitInv ClusterCommitUpd ClusterCommitStepA ClusterCommitStepE ClusterCommitStepF ClusterCommitStepG
  ClusterCommitSnapLog ClusterCommitSnapNode ClusterCommitSnapLinv ClusterCommitSnapInv ClusterCommitSnapFinal
  ClusterCommitSnapUpd ClusterCommitSnapStepA ClusterCommitSnapStepD ClusterCommitSnapStepE ClusterCommitSnapStepF.
Open Scope N_scope.

Section SimpleLinv.
  Variable cfg : config.
  Variable Ps : list params.
  Hypothesis HVn : NoDup (voters cfg).
  Let HQ := quorums_intersect_one' cfg HVn.

  (* a simple event at one server keeps the Log Matching part *)
  Lemma simple_zlinv g C LL A V j nj e cut fs r' ob out g1 :
    zinv cfg Ps g C LL A V -> find_node (cnodes g) j = Some nj -> simple_event e ->
    step_full (gn_P nj) (gn_run nj) e cut fs = (r', ob, out) ->
    ginv [cfg] g1 ->
    g_nodes g1 = upd_node (cnodes g) j (mkGN (gn_P nj) r' (keep_sess r' (gn_sess nj)) (gn_next nj)) ->
    g_leaders g1 = g_leaders (lg_g (cg_l g)) ->
    zlinv [cfg] (mkLG g1 (lg_msgs (cg_l g))) C /\
    (forall s', r' = Up s' -> v_role s' = Leader -> role_of (gn_run nj) = Leader).
  Proof.
    intros HI Hfj He Hsf Hg1 Hn1 Hl1.
    pose proof (zv_l cfg Ps g C LL A V HI) as Hlinv. pose proof (ci_ok C LL (zv_ci cfg Ps g C LL A V HI)) as HC.
    destruct (find_node_in _ _ _ Hfj) as [Hinj Hidj].
    pose proof (znode_wfr [cfg] _ C nj Hlinv Hinj) as Hw. destruct (zl_nodes [cfg] _ C Hlinv nj Hinj) as [Hnl _].
    destruct (simple_step_z cfg Ps C (gn_P nj) (gn_run nj) e cut fs r' ob out HC (zinv_pclosed cfg Ps g C LL A V HI) Hw Hnl
                (zv_node cfg Ps g C LL A V HI nj Hinj) He Hsf) as (Hnl' & _ & Hq & Hpost).
    split.
    - apply (zhandler_linv [cfg] HQ (cg_l g) C j nj e cut fs r' ob out g1 Hlinv Hfj Hsf Hg1 Hn1 Hl1).
      split; [exact Hnl'|]. intros s' -> Hr. destruct (Hpost s' eq_refl Hr) as (s & Hs & Hrs & Et).
      exists s. split; [exact Hs|]. split; [exact Hrs|]. split; [exact Et|].
      destruct Hq as (_ & _ & _ & [(s0 & Hs0 & K)|(_ & Hf & _)]); [|rewrite Hf in Hr; discriminate].
      rewrite Hs in Hs0. inversion Hs0; subst s0. destruct K as (_ & (_ & _ & K3 & _) & _). exact K3.
    - intros s' -> Hr. destruct (Hpost s' eq_refl Hr) as (s & Hs & Hrs & _). rewrite Hs. exact Hrs.
  Qed.
End SimpleLinv.

Section StepG.
  Variable cfg : config.
  Variable Ps : list params.
  Hypothesis HVn : NoDup (voters cfg).
  Let HQ := quorums_intersect_one' cfg HVn.

  Theorem zinv_votereq sn g C LL A V i j cut fs g' : zinv cfg Ps g C LL A V ->
    cstep sn [cfg] g (CBase (LElect (GVoteReq i j cut fs))) = Some g' -> exists V', zinv cfg Ps g' C LL A V'.
  Proof.
    intros HI Hstep. apply cstep_base_inv in Hstep. destruct Hstep as (_ & l' & Hl & ->).
    pose proof (zv_l cfg Ps g C LL A V HI) as Hlinv. pose proof (ci_ok C LL (zv_ci cfg Ps g C LL A V HI)) as HC.
    unfold lstep, ClusterLog.label_ok in Hl.
    destruct (gstep [cfg] (lg_g (cg_l g)) (GVoteReq i j cut fs)) as [g1|] eqn:Hg; [|discriminate].
    inversion Hl; subst l'. clear Hl.
    pose proof (gstep_inv [cfg] _ _ _ (zl_g [cfg] _ C Hlinv) Hg) as Hg1.
    unfold gstep in Hg. fold (cnodes g) in Hg.
    destruct (find_node (cnodes g) i) as [ni|] eqn:Hfi; [|discriminate].
    destruct (find_node (cnodes g) j) as [nj|] eqn:Hfj; [|discriminate].
    destruct (gn_sess ni) as [se|] eqn:Hse; [|discriminate].
    destruct (mem j (se_asked se)) eqn:Hmem; [|discriminate]. cbn [negb] in Hg.
    destruct (step_full (gn_P nj) (gn_run nj) (NVote (se_req se)) cut fs) as [[r' ob] out] eqn:Hsf.
    inversion Hg; subst g1. clear Hg.
    destruct (find_node_in _ _ _ Hfi) as [Hini Hidi]. destruct (find_node_in _ _ _ Hfj) as [Hinj Hidj].
    destruct (simple_zlinv cfg Ps HVn g C LL A V j nj (NVote (se_req se)) cut fs r' ob out _ HI Hfj I Hsf Hg1 eq_refl eq_refl) as [Hl1 Hpost].
    cbn [lg_g g_nodes base_leads base_hb base_ans].
    rewrite (refresh_handler (cnodes g) j nj r' _ (znodes_nodup cfg Ps g C LL A V HI) Hfj Hpost).
    match goal with |- exists V', zinv _ _ ?G _ _ _ V' =>
      destruct (zinv_simple_handler cfg Ps HVn g G C LL A V j nj (NVote (se_req se)) cut fs r' ob out HI Hfj I Hsf) as [Vn Hn] end;
      try reflexivity; [| |exists (Vn ++ V); exact Hn].
    - exact Hl1.
    - intros q Eq. inversion Eq; subst q. exists ni, se. split; [exact Hini|].
      pose proof (gi_nodes [cfg] _ (zl_g [cfg] _ C Hlinv) ni Hini) as [_ Hso]. unfold sess_ok in Hso. rewrite Hse in Hso.
      destruct Hso as (c0 & si & _ & _ & _ & Haddr & _ & _ & _ & Hnot & _).
      split; [congruence|]. split; [|auto]. rewrite Haddr. intros E. apply Hnot. rewrite E. apply mem_true, Hmem.
  Qed.

  Theorem zinv_ginput sn g C LL A V j e cut fs g' : zinv cfg Ps g C LL A V ->
    (forall q, e <> NVote q) -> simple_event e ->
    cstep sn [cfg] g (CBase (LElect (GInput j e cut fs))) = Some g' -> exists V', zinv cfg Ps g' C LL A V'.
  Proof.
    intros HI Hnv He Hstep. apply cstep_base_inv in Hstep. destruct Hstep as (_ & l' & Hl & ->).
    pose proof (zv_l cfg Ps g C LL A V HI) as Hlinv. pose proof (ci_ok C LL (zv_ci cfg Ps g C LL A V HI)) as HC.
    unfold lstep, ClusterLog.label_ok in Hl. destruct (input_ok sn e) eqn:Hok; [|discriminate].
    destruct (gstep [cfg] (lg_g (cg_l g)) (GInput j e cut fs)) as [g1|] eqn:Hg; [|discriminate].
    inversion Hl; subst l'. clear Hl.
    pose proof (gstep_inv [cfg] _ _ _ (zl_g [cfg] _ C Hlinv) Hg) as Hg1.
    unfold gstep in Hg. fold (cnodes g) in Hg.
    destruct (find_node (cnodes g) j) as [nj|] eqn:Hfj; [|destruct e; discriminate].
    destruct (step_full (gn_P nj) (gn_run nj) e cut fs) as [[r' ob] out] eqn:Hsf.
    assert (E : g1 = mkG (upd_node (cnodes g) j (mkGN (gn_P nj) r' (keep_sess r' (gn_sess nj)) (gn_next nj)))
                         (g_resps (lg_g (cg_l g))) (g_leaders (lg_g (cg_l g))) (grant_ghost j ob ++ g_grants (lg_g (cg_l g)))).
    { destruct e; try contradiction; inversion Hg; reflexivity. }
    subst g1. clear Hg.
    destruct (find_node_in _ _ _ Hfj) as [Hinj Hidj].
    destruct (simple_zlinv cfg Ps HVn g C LL A V j nj e cut fs r' ob out _ HI Hfj He Hsf Hg1 eq_refl eq_refl) as [Hl1 Hpost].
    cbn [lg_g g_nodes base_leads base_hb base_ans].
    rewrite (refresh_handler (cnodes g) j nj r' _ (znodes_nodup cfg Ps g C LL A V HI) Hfj Hpost).
    match goal with |- exists V', zinv _ _ ?G _ _ _ V' =>
      destruct (zinv_simple_handler cfg Ps HVn g G C LL A V j nj e cut fs r' ob out HI Hfj He Hsf) as [Vn Hn] end;
      try reflexivity; [| |exists (Vn ++ V); exact Hn].
    - exact Hl1.
    - intros q Eq. exfalso. apply (Hnv q Eq).
  Qed.
End StepG.
