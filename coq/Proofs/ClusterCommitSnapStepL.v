(* ClusterCommitSnapStepL.v — with snapshots: dispatchLogs at a leader and the no-op of a new leader
   keep the Log Matching part; the new entry is appended after getLastEntry (the last log entry or
   the snapshot boundary), with the extended history made explicit. *)
From Coq Require Import List NArith Bool Lia.
From stdpp Require Import gmap.
From RaftModel Require Import Base Config Compaction Commitment Node NodeCodec Candidate Leader Replicate Cluster ClusterLog.
From RaftProofs Require Import ConfigProofs VoteProofs ClusterProofs
  ClusterLogSpec ClusterLogChain ClusterLogNode ClusterLogVote ClusterLogLeader ClusterLogInv ClusterLogSteps
  ClusterCommitChain ClusterCommitLog ClusterCommitInv
  ClusterCommitSnapLog ClusterCommitSnapLeader ClusterCommitSnapLinv ClusterCommitSnapLinv2.
Open Scope N_scope.

Lemma dispatch_one_sf P s fs ty data fid :
  let s' := l_node (fst (fst (fst (dispatch P (leader_setup s) fs [(ty, data, fid)])))) in
  v_lastSnapTerm s' = v_lastSnapTerm s /\ v_fsmLast s' = v_fsmLast s.
Proof.
  cbv zeta. unfold dispatch, leader_setup. cbn [l_node l_inflight l_cm number_logs map fst snd app].
  assert (K : let s1 := fst (do_stage P s (v_commit s)) in v_lastSnapTerm s1 = v_lastSnapTerm s /\ v_fsmLast s1 = v_fsmLast s).
  { unfold do_stage. destruct (p_track P); simpl; split; reflexivity. }
  destruct (do_stage P s (v_commit s)) as [s1 trs]. cbv zeta in K. simpl in K.
  unfold do_store. destruct (next_fail fs) as [f fs']. destruct f; cbn [negb fst snd l_node]; exact K.
Qed.

(* the last entry of a server: index, term, root *)
Lemma last_entry_facts C s : chain_ok C -> zup C s ->
  fst (last_entry s) = last_index s /\ snd (last_entry s) <= d_term s /\ (fst (last_entry s) = 0 -> last_entry s = (0, 0)).
Proof.
  intros HC Hz. rewrite last_entry_lk, last_index_lk. split; [reflexivity|]. split.
  - unfold lk. destruct (fst (bk s) <=? fst (topk s)); [apply (zs_tkt _ _ _ _ _ _ Hz)|apply (zs_bt _ _ _ _ _ _ Hz)].
  - apply (rootc_zero C _ HC (zshape_lk_root C _ _ _ _ _ Hz)).
Qed.

Section Explicit.
  Variable cfgs : list config.
  Hypothesis HQ : quorums_intersect cfgs.

  (* dispatchLogs stored the entry *)
  Lemma propose_zlinv_ok g C i n s ty data fs :
    zlinv cfgs g C -> find_node (g_nodes (lg_g g)) i = Some n -> gn_run n = Up s -> v_role s = Leader ->
    fst (next_fail fs) = false ->
    let s' := l_node (fst (fst (fst (dispatch (gn_P n) (leader_setup s) fs [(ty, data, 0)])))) in
    zlinv cfgs (mkLG (set_node_run (lg_g g) i n (Up s')) (lg_msgs g)) ((new_entry s ty data, last_entry s) :: C).
  Proof.
    intros Hinv Hfind Hrun Hrole Hok. cbv zeta.
    destruct (find_node_in _ _ _ Hfind) as [Hin Hid].
    pose proof (dispatch_one (gn_P n) s fs ty data 0) as Hd. cbv zeta in Hd.
    set (s' := l_node (fst (fst (fst (dispatch (gn_P n) (leader_setup s) fs [(ty, data, 0)]))))) in *.
    destruct Hd as (Dd & Dv & Dsn & Dsi & Hcase).
    assert (Dt : d_term s' = d_term s) by (unfold dproj in Dd; inversion Dd; reflexivity).
    pose proof (zl_g cfgs g C Hinv) as Hg. pose proof (zl_chain cfgs g C Hinv) as HC.
    destruct (zl_nodes cfgs g C Hinv n Hin) as [Hnl Hlo]. rewrite Hrun in Hnl. simpl in Hnl.
    destruct (Hlo s Hrun Hrole) as (L1 & L2 & L3).
    pose proof (gi_nodes cfgs _ Hg n Hin) as [(Hw & Hig & Hfun) _]. rewrite Hrun in Hw, Hig. simpl in Hw.
    destruct Hw as [Hwd Hvt].
    assert (Hks : keep_sess (Up s') (gn_sess n) = None) by (rewrite L2; reflexivity).
    unfold set_node_run. rewrite Hks.
    set (n' := mkGN (gn_P n) (Up s') None (gn_next n)).
    set (g1 := mkG (upd_node (g_nodes (lg_g g)) i n') (g_resps (lg_g g)) (g_leaders (lg_g g)) (g_grants (lg_g g))).
    assert (Hg1 : ginv cfgs g1).
    { eapply (ginv_update cfgs (lg_g g) g1 i n n' []); try reflexivity; try exact Hg; try exact Hfind.
      - exact Hid.
      - intros x [].
      - unfold node_ok. cbn [gn_run n']. change (gn_id n') with (gn_id n).
        change (Gof g1 (gn_id n)) with (Gof (lg_g g) (gn_id n)).
        split; [|split; [|exact Hfun]].
        + simpl. eapply wfu_dproj; [split; [exact Hwd|exact Hvt]|exact Dd|exact Dv].
        + eapply inv_grants_dproj; [|exact Hig]. simpl. symmetry. exact Dd.
      - intros rp Hrp. split; [|left; exact Hrp].
        destruct (gi_resps cfgs _ Hg rp Hrp) as [_ Hall]. specialize (Hall n Hin).
        unfold resp_node in *. change (gn_id n') with (gn_id n). cbn [gn_sess gn_next n'].
        intros Hc. destruct (Hall Hc) as [A _]. split; [exact A|]. intros se0 H0. discriminate.
      - intros x Hx. left. exact Hx. }
    destruct (last_entry_facts C s HC Hnl) as (Hle1 & Hle2 & Hle3).
    destruct (dispatch_one_sf (gn_P n) s fs ty data 0) as [Dst _]. fold s' in Dst.
    destruct Hcase as [(Hf & _)|(_ & Dl & Dci & Dct & Dr)]; [congruence|].
    set (e := new_entry s ty data) in *.
    assert (He1 : e_idx e = last_index s + 1) by reflexivity.
    assert (He2 : e_term e = v_term s) by reflexivity.
    assert (Hll : v_lastLogIdx s <= last_index s) by (unfold last_index; lia).
    assert (HC' : chain_ok ((e, last_entry s) :: C)).
    { apply chain_ok_cons; auto.
      + intros x q Hx Hkey. unfold key in Hkey. inversion Hkey as [[K1 K2]].
        pose proof (L3 x q Hx (eq_trans K2 He2)). lia.
      + rewrite Hle1. exact He1.
      + rewrite He2. lia. }
    apply (zlinv_update cfgs HQ g (mkLG g1 (lg_msgs g)) C _ i n n' Hinv Hg1 Hfind Hid eq_refl).
    - apply incl_refl.
    - intros T k H. left. exact H.
    - intros x Hx. right. exact Hx.
    - exact HC'.
    - intros x p [E|H]; [|left; exact H]. inversion E; subst x p. right. change (In (v_term s, i) (g_leaders (lg_g g))). rewrite <- Hid. exact L1.
    - unfold dt. simpl. rewrite Hrun, Dt. simpl. lia.
    - intros se0 H0. discriminate.
    - simpl. apply (leader_append_zup C s s' e HC' Hnl He1).
      + rewrite Dt, He2. lia.
      + rewrite Dt. lia.
      + exact Dl.
      + unfold topk, key. rewrite Dci, Dct. reflexivity.
      + exact Dsn.
      + apply bk_ext; assumption.
    - intros s0 Hs0 Hr. simpl in Hs0. inversion Hs0; subst s0. simpl. rewrite Dv.
      change (gn_id n') with (gn_id n). split; [exact L1|]. split; [reflexivity|].
      intros x p [E|H] Ht.
      + inversion E; subst. rewrite Dci. simpl. lia.
      + pose proof (L3 x p H Ht). rewrite Dci. lia.
    - intros m Hm. left. exact Hm.
  Qed.

  (* runLeader: the server is recorded as leader of its term and stores the no-op *)
  Lemma become_leader_zlinv_ok g C g1 j n s sL next' :
    zlinv cfgs g C -> ginv cfgs g1 ->
    find_node (g_nodes (lg_g g)) j = Some n -> gn_run n = Up s ->
    g_nodes g1 = upd_node (g_nodes (lg_g g)) j (mkGN (gn_P n) (Up (become_leader (gn_P n) sL)) None next') ->
    g_leaders g1 = (v_term sL, j) :: g_leaders (lg_g g) ->
    lkeep sL s -> v_lastSnapTerm sL = v_lastSnapTerm s -> d_term s <= d_term sL -> v_term sL = d_term sL -> v_role sL = Leader ->
    (forall T', T' <= dt n -> (forall se, gn_sess n = Some se -> T' < vq_term (se_req se)) -> T' <> v_term sL) ->
    zlinv cfgs (mkLG g1 (lg_msgs g)) ((new_entry sL LogNoop 0, last_entry sL) :: C) /\
    (forall x p, In (x, p) C -> e_term x <> v_term sL) /\
    (forall T c, In (T, c) (g_leaders (lg_g g)) -> T <> v_term sL).
  Proof.
    intros Hinv Hg1 Hfind Hrun Hn1 Hl1 Hk Hst Hdt Hvt Hrole Hfresh.
    destruct (find_node_in _ _ _ Hfind) as [Hin Hid].
    pose proof (zl_chain cfgs g C Hinv) as HC.
    destruct (zl_nodes cfgs g C Hinv n Hin) as [Hnl _]. rewrite Hrun in Hnl. simpl in Hnl.
    assert (HnL : zup C sL) by (eapply zup_lkeep; eauto).
    destruct (last_entry_facts C sL HC HnL) as (Hle1 & Hle2 & Hle3).
    destruct (dispatch_one_sf (gn_P n) sL [] LogNoop 0 0) as [Dst _]. fold (become_leader (gn_P n) sL) in Dst.
    set (e := new_entry sL LogNoop 0).
    set (ck := last_entry sL).
    set (s' := become_leader (gn_P n) sL).
    pose proof (dispatch_one (gn_P n) sL [] LogNoop 0 0) as Hd. cbv zeta in Hd. fold (become_leader (gn_P n) sL) in Hd. fold s' in Hd. fold e in Hd.
    destruct Hd as (Dd & Dv & Dsn & Dsi & [(Hf & _)|(_ & Dl & Dci & Dct & Dr)]); [simpl in Hf; discriminate|].
    assert (Dt : d_term s' = d_term sL) by (unfold dproj in Dd; inversion Dd; reflexivity).
    assert (Hnol : forall T c, In (T, c) (g_leaders (lg_g g)) -> T <> v_term sL).
    { intros T c Hl Ht. subst T. assert (c = j).
      { apply (leaders_fun cfgs g1 (v_term sL) c j HQ Hg1); rewrite Hl1; [right; exact Hl|left; reflexivity]. }
      subst c. destruct (zl_leaders cfgs g C Hinv _ _ Hl n Hin Hid) as [A B]. apply (Hfresh (v_term sL) A B eq_refl). }
    assert (Hnone : forall x p, In (x, p) C -> e_term x <> v_term sL).
    { intros x p Hx Ht. destruct (zl_src cfgs g C Hinv x p Hx) as [(id & Hl)|Hdead].
      - apply (Hnol _ _ Hl Ht).
      - destruct (Hdead n Hin) as [A B]. apply (Hfresh (e_term x) A B Ht). }
    assert (He1 : e_idx e = last_index sL + 1) by reflexivity.
    assert (He2 : e_term e = v_term sL) by reflexivity.
    assert (Hll : v_lastLogIdx sL <= last_index sL) by (unfold last_index; lia).
    assert (HC' : chain_ok ((e, ck) :: C)).
    { apply chain_ok_cons; auto.
      + intros x q Hx Hkey. apply (Hnone x q Hx). unfold key in Hkey. inversion Hkey. congruence.
      + unfold ck. rewrite Hle1. exact He1.
      + unfold ck. rewrite He2. lia. }
    split; [|split; [exact Hnone|exact Hnol]].
    apply (zlinv_update cfgs HQ g (mkLG g1 (lg_msgs g)) C ((e, ck) :: C) j n
             (mkGN (gn_P n) (Up s') None next') Hinv Hg1 Hfind Hid Hn1).
    - simpl. rewrite Hl1. intros x Hx. right. exact Hx.
    - simpl. rewrite Hl1. intros T i [E|H]; [|left; exact H]. inversion E; subst. right.
      split; [reflexivity|]. split; [|reflexivity]. unfold dt. simpl. rewrite Dt. lia.
    - intros x Hx. right. exact Hx.
    - exact HC'.
    - intros x p [E|H]; [|left; exact H]. inversion E; subst. right. simpl. rewrite Hl1. left. reflexivity.
    - unfold dt. simpl. rewrite Hrun, Dt. exact Hdt.
    - intros se Hse. discriminate.
    - simpl. apply (leader_append_zup C sL s' e HC' HnL He1).
      + rewrite Dt, He2. lia.
      + rewrite Dt. lia.
      + exact Dl.
      + unfold topk, key. rewrite Dci, Dct. reflexivity.
      + exact Dsn.
      + fold s' in Dst. apply bk_ext; assumption.
    - intros s0 Hs0 Hr. simpl in Hs0. inversion Hs0; subst s0. simpl. rewrite Hl1, Dv.
      split; [left; change (gn_id (mkGN (gn_P n) (Up s') None next')) with (gn_id n); rewrite Hid; reflexivity|]. split; [reflexivity|].
      intros x p [E|H] Ht; [inversion E; subst; rewrite Dci; simpl; lia|].
      exfalso. apply (Hnone x p H Ht).
    - intros m Hm. left. exact Hm.
  Qed.
End Explicit.
