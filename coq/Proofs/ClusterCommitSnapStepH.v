(* ClusterCommitSnapStepH.v — with snapshots: a leader steps down (its volatile state only), and CAck. *)
From Coq Require Import List NArith Bool Lia.
From stdpp Require Import gmap.
From RaftModel Require Import Base Config Compaction Commitment Node NodeCodec Candidate Leader Replicate Cluster ClusterLog ClusterCommit.
From RaftProofs Require Import ConfigProofs CommitmentProofs VoteProofs ClusterProofs
  ClusterLogSpec ClusterLogChain ClusterLogNode ClusterLogVote ClusterLogLeader ClusterLogInv ClusterLogSteps
  ClusterCommitSpec ClusterCommitLog ClusterCommitChain ClusterCommitNode ClusterCommitGhost
  ClusterCommitInv ClusterCommitUpd ClusterCommitStepA
  ClusterCommitSnapLog ClusterCommitSnapNode ClusterCommitSnapLinv ClusterCommitSnapLinv2 ClusterCommitSnapInv ClusterCommitSnapFinal
  ClusterCommitSnapUpd ClusterCommitSnapStepA ClusterCommitSnapStepC ClusterCommitSnapStepD.
Open Scope N_scope.

Section StepH.
  Variable cfg : config.
  Variable Ps : list params.
  Hypothesis HVn : NoDup (voters cfg).
  Let HQ := quorums_intersect_one' cfg HVn.

  (* a leader's volatile state changes and it is no leader afterwards; its bookkeeping may change *)
  Lemma zinv_leader_quits g C LL A V i n s s' leads' hb' :
    zinv cfg Ps g C LL A V -> find_node (cnodes g) i = Some n -> gn_run n = Up s -> v_role s = Leader ->
    dproj s' = dproj s -> v_term s' = v_term s -> zkeep s' s -> v_role s' = Follower ->
    (forall i', i' <> i -> find_lead leads' i' = find_lead (cg_lead g) i') ->
    zinv cfg Ps (mkCG (mkLG (set_node_run (lg_g (cg_l g)) i n (Up s')) (lg_msgs (cg_l g))) leads' hb' (cg_ans g)) C LL A V.
  Proof.
    intros HI Hf Hr Hrole Hd Ht Hzk Hr' Hlo. pose proof Hzk as (Hvk & Hk & Hst & _). destruct (find_node_in _ _ _ Hf) as [Hin Hid].
    pose proof (zv_l cfg Ps g C LL A V HI) as Hl.
    destruct (zl_nodes [cfg] _ C Hl n Hin) as [_ Hlead]. destruct (Hlead s Hr Hrole) as (_ & Hsn & _).
    set (n' := mkGN (gn_P n) (Up s') (keep_sess (Up s') (gn_sess n)) (gn_next n)).
    assert (Hs' : gn_sess n' = None) by (unfold n'; cbn [gn_sess]; rewrite Hsn; reflexivity).
    assert (Hdt : d_term s' = d_term s) by (unfold dproj in Hd; congruence).
    apply (zinv_quiet cfg Ps HVn g (mkCG (mkLG (set_node_run (lg_g (cg_l g)) i n (Up s')) (lg_msgs (cg_l g))) leads' hb' (cg_ans g)) C LL A V [] [] i n n' HI Hf Hid eq_refl).
    - apply (zlinv_volatile [cfg] HQ (cg_l g) C i n s s' Hl Hf Hr Hrole Hd Ht Hk Hst). right. exact Hr'.
    - rewrite Hr. split; [apply Hvk|]. split; [apply Hk|]. split; [simpl; lia|]. left. exists s. auto.
    - pose proof (zv_node cfg Ps g C LL A V HI n Hin) as Hcn. rewrite Hr in Hcn. cbn [n' gn_P gn_run].
      destruct Hcn as (N1 & N2 & N3). split; [exact N1|]. split; [exact N2|]. eapply znode_up_keep; eauto.
    - reflexivity.
    - reflexivity.
    - reflexivity.
    - reflexivity.
    - exact Hlo.
    - intros se' H. rewrite Hs' in H. discriminate.
    - intros se H. rewrite Hs' in H. discriminate.
    - intros s0 Hs0 Hl0. cbn [n' gn_run] in Hs0. inversion Hs0; subst s0. rewrite Hr' in Hl0. discriminate.
    - intros w T' c kw rq k k0 [].
    - intros w T' c kw rq [].
    - intros w T' c kw rq [].
    - intros w T' c kw rq xc se [].
    - intros w T' c [].
    - intros T' c Hlv. cbn [n' gn_run image] in Hlv. unfold live in Hlv. rewrite Hd in Hlv.
      destruct (zv_live cfg Ps g C LL A V HI n T' c Hin) as [(kw & rq & H)|H]; [rewrite Hr; exact Hlv| |right; exact H].
      left. exists kw, rq. rewrite <- Hid. exact H.
  Qed.

  Theorem zinv_ack sn g C LL A V k g' : zinv cfg Ps g C LL A V ->
    cstep sn [cfg] g (CAck k) = Some g' -> zinv cfg Ps g' C LL A V.
  Proof.
    intros HI Hstep. apply cstep_ack_inv in Hstep.
    destruct Hstep as (a & m & n & ld0 & s & Ha & Hm & Hf & Hfl & Hr & Hrole & Ht & Hout & ->).
    destruct (aq_term (am_req m) <? ar_term (rs_resp a)) eqn:Hst.
    - unfold ack_result. cbv zeta. rewrite Hst.
      apply (zinv_leader_quits g C LL A V (am_from m) n s (set_state s Follower) _ _ HI Hf Hr Hrole); try reflexivity.
      + split; [repeat split|split; [repeat split|split; reflexivity]].
      + intros i' Hne. apply find_lead_set_other, Hne.
    - eapply (zinv_ack_same cfg Ps HVn g C LL A V k _ a m n ld0 s); eauto.
  Qed.
End StepH.
