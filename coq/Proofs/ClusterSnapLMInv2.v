(* ClusterSnapLMInv2.v — requests added to the network, and steps that leave the log and snapshot stores of the touched
   server alone, keep the invariant of Proofs/ClusterSnapLMInv.v. *)
From Coq Require Import List NArith Bool Lia.
From stdpp Require Import gmap.
From RaftModel Require Import Base Config Compaction Commitment Node NodeCodec Candidate Leader Replicate Cluster ClusterLog ClusterCommit ClusterSnap.
From RaftProofs Require Import ConfigProofs VoteProofs AppendProofs ClusterProofs
  ClusterLogSpec ClusterLogChain ClusterLogNode ClusterLogVote ClusterLogInv ClusterLogSteps
  ClusterCommitChain ClusterCommitLog ClusterCommitInv ClusterCommitSnapLog
  ClusterSnapLMLog ClusterSnapLMAE2 ClusterSnapLMNode ClusterSnapLMLeader ClusterSnapLMInv.
Open Scope N_scope.

Section Plain.
  Variable cfgs : list config.
  Hypothesis HQ : quorums_intersect cfgs.

  (* an AppendEntries request is added to the network *)
  Lemma send_ylinv B g sm C i n s m :
    ylinv cfgs B g sm C -> find_node (g_nodes (lg_g g)) i = Some n -> gn_run n = Up s -> v_role s = Leader ->
    am_from m = i -> am_from m <> am_to m -> aq_term (am_req m) = v_term s ->
    contig (aq_prevIdx (am_req m)) (aq_entries (am_req m)) ->
    (forall e, In e (aq_entries (am_req m)) -> (exists p, In (e, p) C) /\ e_term e <= v_term s) ->
    ychain C B (aq_prevIdx (am_req m), aq_prevTerm (am_req m)) (aq_entries (am_req m)) ->
    aq_prevTerm (am_req m) <= v_term s -> (aq_prevIdx (am_req m) = 0 -> aq_prevTerm (am_req m) = 0) ->
    ylinv cfgs B (mkLG (lg_g g) (lg_msgs g ++ [m])) sm C.
  Proof.
    intros Hinv Hfind Hrun Hrole Hfrom Hne Hterm Hc Hts Hy Hpt Hpz.
    destruct (find_node_in _ _ _ Hfind) as [Hin Hid].
    destruct (yl_nodes cfgs B g sm C Hinv n Hin) as (_ & Hlo & _). destruct (Hlo s Hrun Hrole) as (L1 & _).
    destruct Hinv as [A1 A2 A3 A4 A5 A6 A7 A8]. constructor; auto.
    intros m' Hm'. simpl in Hm'. apply in_app_iff in Hm'. destruct Hm' as [Hm'|[<-|[]]]; [apply A6, Hm'|].
    unfold ymsg_ok. cbv zeta. rewrite Hterm.
    split; [exact Hne|]. split; [simpl; rewrite Hfrom, <- Hid; exact L1|]. auto 10.
  Qed.

  (* an InstallSnapshot request is added *)
  Lemma ssend_ylinv B g sm C i n s m :
    ylinv cfgs B g sm C -> find_node (g_nodes (lg_g g)) i = Some n -> gn_run n = Up s -> v_role s = Leader ->
    sm_from m = i -> sm_from m <> sm_to m -> iq_term (sm_req m) = v_term s ->
    iq_lastIdx (sm_req m) <= B -> iq_lastTerm (sm_req m) <= v_term s ->
    ylinv cfgs B g (sm ++ [m]) C.
  Proof.
    intros Hinv Hfind Hrun Hrole Hfrom Hne Hterm Hi Ht.
    destruct (find_node_in _ _ _ Hfind) as [Hin Hid].
    destruct (yl_nodes cfgs B g sm C Hinv n Hin) as (_ & Hlo & _). destruct (Hlo s Hrun Hrole) as (L1 & _).
    destruct Hinv as [A1 A2 A3 A4 A5 A6 A7 A8]. constructor; auto.
    intros m' Hm'. apply in_app_iff in Hm'. destruct Hm' as [Hm'|[<-|[]]]; [apply A7, Hm'|].
    split; [exact Hne|]. split; [rewrite Hterm, Hfrom, <- Hid; exact L1|]. split; [exact Hi|rewrite Hterm; exact Ht].
  Qed.

  (* the server's state changed outside the stores and it is not Leader afterwards *)
  Lemma plain_ylinv B g sm C g1 j n s s' sess' next' :
    ylinv cfgs B g sm C -> ginv cfgs g1 ->
    find_node (g_nodes (lg_g g)) j = Some n -> gn_run n = Up s ->
    g_nodes g1 = upd_node (g_nodes (lg_g g)) j (mkGN (gn_P n) (Up s') sess' next') ->
    g_leaders g1 = g_leaders (lg_g g) ->
    lkeep s' s -> v_lastSnapTerm s' = v_lastSnapTerm s -> v_fsmLast s' = v_fsmLast s -> d_term s <= d_term s' -> v_role s' <> Leader ->
    (forall se, sess' = Some se ->
       (exists se0, gn_sess n = Some se0 /\ vq_term (se_req se) = vq_term (se_req se0)) \/ d_term s < vq_term (se_req se)) ->
    ylinv cfgs B (mkLG g1 (lg_msgs g)) sm C.
  Proof.
    intros Hinv Hg1 Hfind Hrun Hn1 Hl1 Hk Hst Hfl Hdt Hrole Hsess.
    destruct (find_node_in _ _ _ Hfind) as [Hin Hid].
    destruct (yl_nodes cfgs B g sm C Hinv n Hin) as (Hnl & _). rewrite Hrun in Hnl. simpl in Hnl.
    apply (ylinv_update cfgs HQ B B g (mkLG g1 (lg_msgs g)) sm sm C C j n (mkGN (gn_P n) (Up s') sess' next') Hinv Hg1 (N.le_refl _) Hfind Hid eq_refl Hn1).
    - simpl. rewrite Hl1. apply incl_refl.
    - simpl. rewrite Hl1. intros T i H. left. exact H.
    - apply incl_refl.
    - apply (yl_chain cfgs B g sm C Hinv).
    - intros x p H. left. exact H.
    - unfold dt. simpl. rewrite Hrun. exact Hdt.
    - intros se Hse. simpl in Hse. unfold dt. rewrite Hrun. simpl. apply Hsess, Hse.
    - simpl. eapply yup_lkeep; eauto. rewrite Hfl. intros Hnz. pose proof (ys_fl _ _ _ _ _ _ _ _ Hnl Hnz). lia.
    - intros s0 Hs0 Hr. simpl in Hs0. inversion Hs0; subst. contradiction.
    - simpl. rewrite Hrun. simpl. destruct Hk as (_ & K2 & _). rewrite K2. apply incl_refl.
    - left. reflexivity.
    - intros m Hm. left. exact Hm.
    - intros m Hm. left. exact Hm.
  Qed.

  (* the state of a Leader changes in its volatile part only (the FSM position may move to a key of a term not above
     its own), it stays Leader or becomes Follower *)
  Lemma ylinv_volatile B g sm C i n s s' :
    ylinv cfgs B g sm C -> find_node (g_nodes (lg_g g)) i = Some n -> gn_run n = Up s -> v_role s = Leader ->
    dproj s' = dproj s -> v_term s' = v_term s -> lkeep s' s -> v_lastSnapTerm s' = v_lastSnapTerm s ->
    (fst (v_fsmLast s') <> 0 -> snd (v_fsmLast s') <= d_term s) ->
    (v_role s' = Leader \/ v_role s' = Follower) ->
    ylinv cfgs B (mkLG (set_node_run (lg_g g) i n (Up s')) (lg_msgs g)) sm C.
  Proof.
    intros Hinv Hfind Hrun Hrole Hd Ht Hk Hst Hfl Hr'.
    destruct (find_node_in _ _ _ Hfind) as [Hin Hid].
    pose proof (yl_g cfgs B g sm C Hinv) as Hg.
    destruct (yl_nodes cfgs B g sm C Hinv n Hin) as (Hnl & Hlo & _).
    destruct (Hlo s Hrun Hrole) as (L1 & L2 & L3).
    destruct (gi_nodes cfgs _ Hg n Hin) as [(Hw & Hig & Hfun) _].
    set (n' := mkGN (gn_P n) (Up s') (keep_sess (Up s') (gn_sess n)) (gn_next n)).
    assert (Hs' : gn_sess n' = None) by (unfold n'; cbn [gn_sess]; rewrite L2; unfold keep_sess; reflexivity).
    assert (Hdt : d_term s' = d_term s) by (unfold dproj in Hd; congruence).
    assert (Hg' : ginv cfgs (set_node_run (lg_g g) i n (Up s'))).
    { apply (ginv_update cfgs (lg_g g) _ i n n' []); [exact Hg|exact Hfind|exact Hid|reflexivity|reflexivity| | | | |].
      - intros x [].
      - split; [|split].
        + rewrite Hrun in Hw. destruct Hw as [Hwd Hvt]. cbn [n' gn_run wfr]. split.
          * unfold wfd in *. unfold dproj in Hd. inversion Hd. lia.
          * congruence.
        + cbn [n' gn_run]. eapply inv_grants_dproj; [|exact Hig]. rewrite Hrun. simpl. symmetry. exact Hd.
        + exact Hfun.
      - unfold sess_ok. rewrite Hs'. exact I.
      - intros rp Hrp. split; [|left; exact Hrp].
        destruct (gi_resps cfgs _ Hg rp Hrp) as [_ Hall]. specialize (Hall n Hin).
        intros E. destruct (Hall E) as [A _]. split; [exact A|]. intros se Hse. rewrite Hs' in Hse. discriminate.
      - intros x Hx. left. exact Hx. }
    apply (ylinv_update cfgs HQ B B g (mkLG (set_node_run (lg_g g) i n (Up s')) (lg_msgs g)) sm sm C C i n n' Hinv Hg' (N.le_refl _) Hfind Hid eq_refl eq_refl).
    - apply incl_refl.
    - intros T j H. left. exact H.
    - apply incl_refl.
    - apply (yl_chain cfgs B g sm C Hinv).
    - intros x p H. left. exact H.
    - unfold dt. rewrite Hrun. cbn [n' gn_run image]. lia.
    - intros se Hse. rewrite Hs' in Hse. discriminate.
    - cbn [n' gn_run ynlog]. rewrite Hrun in Hnl. eapply yup_lkeep; [exact Hnl|exact Hk|exact Hst|rewrite Hdt; exact Hfl|lia].
    - intros s0 Hs0 Hr0. cbn [n' gn_run] in Hs0. inversion Hs0; subst s0.
      change (gn_id n') with (gn_id n). cbn [set_node_run lg_g g_leaders].
      destruct Hk as (_ & _ & K3 & _). rewrite Ht, K3. split; [exact L1|]. split; [exact Hs'|exact L3].
    - cbn [n' gn_run image]. rewrite Hrun. simpl. destruct Hk as (_ & K2 & _). rewrite K2. apply incl_refl.
    - left. reflexivity.
    - intros m Hm. left. exact Hm.
    - intros m Hm. left. exact Hm.
  Qed.
End Plain.
