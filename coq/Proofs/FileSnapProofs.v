(* FileSnapProofs.v — C15: what List / Open return after a crash of the FileSnapshotStore. *)
From Coq Require Import List Arith NArith Bool Lia.
From RaftModel Require Import FileSnap FileSnapSpec.
From RaftProofs Require Import FileSnapA FileSnapB FileSnapC FileSnapD FileSnapE FileSnapF FileSnapG FileSnapH FileSnapI FileSnapJ.
Import ListNotations.
Open Scope N_scope.

Lemma list_eqb_refl : forall l, list_eqb l l = true.
Proof. induction l as [|x l IH]; simpl; [reflexivity|]. rewrite N.eqb_refl, IH. reflexivity. Qed.

Lemma find_final_in : forall f d, NoDup (map d_sid f) -> In d f -> d_tmp d = false ->
  find_final f (d_sid d) = Some d.
Proof.
  induction f as [|d0 f IH]; simpl; intros d Hnd Hd Ht; [contradiction|].
  destruct ((d_sid d0 =? d_sid d) && negb (d_tmp d0)) eqn:E.
  - apply andb_prop in E. destruct E as [E _]. apply N.eqb_eq in E.
    f_equal. apply (nodup_sid_eq (d0 :: f)); simpl; auto.
  - destruct Hd as [->|Hd].
    + rewrite N.eqb_refl, Ht in E. discriminate.
    + inversion Hnd; subst. apply IH; auto.
Qed.

Section Crash.
  Variables (sfirst : bool) (retain : N) (script : list sop) (k j : nat).
  Variables (jm : N -> mcontent -> mcontent -> mcontent) (js : N -> list N -> list N -> list N).
  Hypothesis Hretain : 1 <= retain.
  Hypothesis Hwf : well_formed script.   (* implies NoDup (created script) *)
  Let ops := program sfirst retain script.
  Hypothesis Hcrash : crash_ok ops k j = true.
  Let tree := crash_tree ops k j jm js.
  Let L := list_snaps retain tree.

  (* ---------------- auxiliary facts *)
  Let r := N.to_nat retain.
  Let hj := firstn j ops.
  Let hk := firstn k ops.
  Let fj := fs_run [] hj.

  Lemma aux_Qj : Q r script hj fj.
  Proof. apply prog_Q. exact Hwf. Qed.

  Lemma aux_Qk : Q r script hk (fs_run [] hk).
  Proof. apply prog_Q. exact Hwf. Qed.

  Lemma aux_jk : forall x, In x hj -> In x hk.
  Proof.
    intros x. apply in_firstn_le. apply (crash_ok_facts _ _ _ Hcrash).
  Qed.

  Lemma aux_clean : forall d, In d fj -> d_tmp d = false ->
    forall b, dirty_after hk (d_sid d) b false = false.
  Proof.
    intros d Hd Ht b. apply (q_clean _ _ _ _ aux_Qk). apply aux_jk.
    apply (q_ren _ _ _ _ aux_Qj); assumption.
  Qed.

  Lemma aux_L : L = firstn r (sort_desc (candidates fj)).
  Proof.
    unfold L, list_snaps, get_snapshots, tree. rewrite crash_tree_eq.
    fold hk hj fj. rewrite (junk_candidates hk jm js fj aux_clean). reflexivity.
  Qed.

  Lemma aux_open : forall sid, open_snap tree sid = open_snap fj sid.
  Proof.
    intros sid. unfold tree. rewrite crash_tree_eq. fold hk hj fj.
    apply junk_open. exact aux_clean.
  Qed.

  Lemma aux_cand_nodup : NoDup (map fst (candidates fj)).
  Proof. apply cand_nodup. apply (q_nodup _ _ _ _ aux_Qj). Qed.

  Lemma aux_sorted : sorted_desc (sort_desc (candidates fj)).
  Proof. apply sort_sorted. exact aux_cand_nodup. Qed.

  (* a listed snapshot is a complete directory of the tree before the cut *)
  Lemma aux_listed : forall sid m, In (sid, m) L ->
    exists d, In d fj /\ d_sid d = sid /\ eligible d = Some m /\ Complete script d.
  Proof.
    intros sid m Hin. rewrite aux_L in Hin.
    assert (Hc : In (sid, m) (candidates fj)).
    { apply in_firstn in Hin. apply (proj1 (sort_in _ _)) in Hin. exact Hin. }
    apply cand_iff in Hc. destruct Hc as [d [Hd [Hs He]]].
    exists d. split; [exact Hd|split; [exact Hs|split; [exact He|]]].
    assert (Ht := eligible_nontmp d m He).
    destruct (q_shape _ _ _ _ aux_Qj d Hd Ht) as [HC|Ho]; [exact HC|exfalso].
    destruct (Ho m He) as [G [HndG [HlenG [HincG HG]]]]. rewrite Hs in HG.
    apply (not_top _ r (sid, m) G aux_sorted Hin HndG HlenG).
    intros y Hy. split; [|apply HG; exact Hy]. apply (proj2 (sort_in _ _)). apply HincG. exact Hy.
  Qed.

  (* 1. everything listed opens, with exactly the bytes written to that sink, carries the (term, index) it was
        created with, came from a Close (not a Cancel) and had been renamed before the crash *)
  Theorem listed_opens : forall sid m, In (sid, m) L ->
    open_snap tree sid = Some (written script sid) /\
    created_as script sid = Some (mv_term m, mv_index m) /\
    ended script sid = Some true /\
    In (FRename sid) (firstn k ops).
  Proof.
    intros sid m Hin. destruct (aux_listed sid m Hin) as [d [Hd [Hs [He HC]]]].
    assert (HC' := HC). destruct HC' as [Ht [t [i [Hc [Hen [[x [Hx Hm]] [y [Hy Hcy]]]]]]]].
    rewrite Hs in *.
    assert (Em : m = mkMV 1 t i (Some (written script sid))).
    { pose proof (complete_eligible script d t i HC) as H. rewrite Hs in H. specialize (H Hc).
      rewrite He in H. inversion H. reflexivity. }
    split; [|split; [|split]].
    - rewrite aux_open. unfold open_snap. rewrite <- Hs.
      rewrite (find_final_in fj d (q_nodup _ _ _ _ aux_Qj) Hd Ht).
      rewrite Hx, Hy, Hm. simpl. rewrite Hcy, Hs, list_eqb_refl. reflexivity.
    - rewrite Em. simpl. exact Hc.
    - exact Hen.
    - apply aux_jk. rewrite <- Hs. apply (q_ren _ _ _ _ aux_Qj); assumption.
  Qed.

  (* 2. newest first, no duplicates, at most retain *)
  Theorem listed_sorted : sorted_desc L /\ NoDup (map fst L) /\ (length L <= N.to_nat retain)%nat.
  Proof.
    rewrite aux_L. split; [|split].
    - apply sorted_firstn. exact aux_sorted.
    - apply firstn_nodup_fst. apply sort_nodup_fst. exact aux_cand_nodup.
    - rewrite firstn_length. fold r. clear. lia.
  Qed.

  (* 3. a snapshot whose Close had returned nil is listed, unless retain listed snapshots are all newer *)
  Theorem closed_is_listed : forall sid t i, close_returned sfirst retain script sid k ->
    created_as script sid = Some (t, i) ->
    In sid (map fst L) \/
    (length L = N.to_nat retain /\ forall x, In x L -> key_lt (sid, mkMV 1 t i (Some (written script sid))) x = true).
  Proof.
    intros sid t i Hcr Hca.
    assert (Hren : In (FRename sid) hj) by (apply (renamed_before_cut sfirst retain script sid k j); assumption).
    destruct (q_closed _ _ _ _ aux_Qj sid Hren) as [Hen [t' [i' [Hc' Hcase]]]].
    rewrite Hca in Hc'. inversion Hc'; subst t' i'. clear Hc'.
    rewrite aux_L. fold r. set (c := (sid, mkMV 1 t i (Some (written script sid)))) in *.
    destruct Hcase as [[d [Hd [Hs HC]]]|Ho].
    - assert (Hc : In c (sort_desc (candidates fj))).
      { apply (proj2 (sort_in _ _)). apply cand_iff. exists d. split; [exact Hd|split; [exact Hs|]].
        rewrite <- Hs. apply complete_eligible; [exact HC|]. rewrite Hs. exact Hca. }
      destruct (in_dec N.eq_dec sid (map fst (firstn r (sort_desc (candidates fj))))) as [Hi|Hn]; [left; exact Hi|right].
      apply below_top; [exact aux_sorted|exact Hc|].
      intro Hi. apply Hn. change sid with (fst c). apply in_map. exact Hi.
    - right. destruct Ho as [G [HndG [HlenG [HincG HG]]]].
      apply (outr_top _ r c G aux_sorted HndG HlenG).
      intros y Hy. split; [|apply HG; exact Hy]. apply (proj2 (sort_in _ _)). apply HincG. exact Hy.
  Qed.

  (* 4. cancelled, or not yet renamed when the crash happened: never listed *)
  Theorem unfinished_not_listed : forall sid,
    (ended script sid = Some false \/ ~ In (FRename sid) (firstn k ops)) -> ~ In sid (map fst L).
  Proof.
    intros sid H Hin. apply in_map_iff in Hin. destruct Hin as [[s m] [E Hin]]. simpl in E. subst s.
    destruct (listed_opens sid m Hin) as [_ [_ [He Hr]]].
    destruct H as [H|H]; [congruence|contradiction].
  Qed.

End Crash.

Print Assumptions listed_opens.
Print Assumptions listed_sorted.
Print Assumptions closed_is_listed.
Print Assumptions unfinished_not_listed.
