(* ClusterLogExample.v — non-vacuity of linit_ok: every initial state the correspondence driver
   (ClusterLog.run_clusterlog) builds from Cluster.mk_node satisfies it; in particular the one for
   3 servers with 0, 1 and 2 extra entries. *)
From Coq Require Import List NArith Bool Lia FinFun.
From stdpp Require Import gmap.
From RaftModel Require Import Base Config Compaction Commitment Node NodeCodec Candidate Leader Replicate Cluster ClusterLog.
From RaftProofs Require Import ConfigProofs VoteProofs AppendProofs RecoverProofs ClusterProofs
  ClusterLogSpec ClusterLogChain ClusterLogNode ClusterLogInit.
Open Scope N_scope.

(* ---------------------------------------------------------------- list facts *)
Lemma firstn_seq_le a : forall s b, (a <= b)%nat -> firstn a (seq s b) = seq s a.
Proof.
  induction a as [|a IH]; intros s b H; [reflexivity|]. destruct b as [|b]; [lia|].
  simpl. f_equal. apply IH. lia.
Qed.

Lemma nth_error_firstn_lt {A} (l : list A) : forall k i, (i < k)%nat -> nth_error (firstn k l) i = nth_error l i.
Proof.
  induction l as [|x r IH]; intros k i H; destruct k as [|k]; try lia; [destruct i; reflexivity|].
  destruct i as [|i]; [reflexivity|]. simpl. apply IH. lia.
Qed.

Lemma hist_ok_firstn es : forall prev k, hist_ok prev es -> hist_ok prev (firstn k es).
Proof.
  induction es as [|e r IH]; intros prev k H; destruct k; simpl in *; auto.
  destruct H as (A & B & D). auto.
Qed.

Lemma hist_contig es : forall prev, hist_ok prev es -> contig (fst prev) es.
Proof.
  induction es as [|e r IH]; intros prev H; simpl in *; [exact I|].
  destruct H as (A & _ & D). split; [exact A|]. specialize (IH _ D). unfold key in IH. simpl in IH.
  rewrite A in IH. exact IH.
Qed.

(* the store built from a hole-free history *)
Lemma log_store_hist es : hist_ok (0, 0) es -> forall i,
  log_store ∅ es !! i = if (1 <=? i) && (i <=? N.of_nat (length es)) then nth_error es (N.to_nat (i - 1)) else None.
Proof.
  intros Hh i. rewrite log_store_lookup.
  destruct (find_last i es) as [e|] eqn:F.
  - apply find_last_In in F. destruct F as [F1 F2].
    apply In_nth_error in F1. destruct F1 as [k Hk].
    pose proof (hist_idx _ _ Hh k e Hk) as Hi. simpl in Hi.
    assert (k < length es)%nat by (apply nth_error_Some; congruence).
    destruct (N.leb_spec 1 i); [|lia]. destruct (N.leb_spec i (N.of_nat (length es))); [|lia]. simpl.
    replace (N.to_nat (i - 1)) with k by lia. symmetry. exact Hk.
  - rewrite lookup_empty.
    destruct (N.leb_spec 1 i); [|reflexivity]. destruct (N.leb_spec i (N.of_nat (length es))); [|reflexivity]. simpl.
    destruct (nth_error es (N.to_nat (i - 1))) as [e|] eqn:E; [|reflexivity]. exfalso.
    pose proof (hist_idx _ _ Hh _ e E) as Hi. simpl in Hi.
    apply (find_last_None i es F e); [eapply nth_error_In; eauto|lia].
Qed.

Lemma log_prefix_store base k : hist_ok (0, 0) base -> (k <= length base)%nat ->
  log_prefix base k (log_store ∅ (firstn k base)).
Proof.
  intros Hh Hk. split; [exact Hk|]. intros i.
  rewrite (log_store_hist _ (hist_ok_firstn base (0, 0) k Hh)). rewrite firstn_length_le by exact Hk.
  destruct (N.leb_spec 1 i); [|reflexivity]. destruct (N.leb_spec i (N.of_nat k)); [|reflexivity]. simpl.
  apply nth_error_firstn_lt. lia.
Qed.

(* ---------------------------------------------------------------- a server booted from a prefix image *)
Lemma prefix_keys_ok base k m : hist_ok (0, 0) base -> log_prefix base k m -> keys_ok m.
Proof.
  intros Hh Hp i e Hl. destruct (prefix_lookup base k m i e Hp Hl) as [Hi Hn].
  rewrite (hist_idx _ _ Hh _ e Hn). simpl. lia.
Qed.

Lemma prefix_log_last base k m : hist_ok (0, 0) base -> log_prefix base k m -> log_last m = N.of_nat k.
Proof.
  intros Hh Hp. assert (Hle : log_last m <= N.of_nat k).
  { destruct (log_last_in m) as [E|(e & He)]; [lia|]. apply (prefix_lookup base k m _ e Hp He). }
  destruct k as [|k']; [lia|]. destruct Hp as [Hk Hm].
  destruct (nth_error base k') as [eL|] eqn:EL; [|apply nth_error_None in EL; lia].
  assert (Hl : m !! N.of_nat (S k') = Some eL).
  { rewrite Hm. destruct (N.leb_spec 1 (N.of_nat (S k'))); [|lia]. rewrite N.leb_refl. cbn [andb].
    replace (N.to_nat (N.of_nat (S k') - 1)) with k' by lia. exact EL. }
  pose proof (log_last_ge m _ eL Hl). lia.
Qed.

Lemma boot_node_init base k P img : hist_ok (0, 0) base -> (k <= length base)%nat ->
  d_log img = log_store ∅ (firstn k base) -> d_snaps img = [] -> wfd img ->
  (forall e, In e base -> e_term e <= d_term img) ->
  wfr (fst (boot P img)) /\ node_init base (mkGN P (fst (boot P img)) None 0).
Proof.
  intros Hh Hk Hlog Hsn Hwd Hterm.
  pose proof (log_prefix_store base k Hh Hk) as Hp. rewrite <- Hlog in Hp.
  destruct (boot P img) as [r out] eqn:EB. simpl fst.
  destruct (boot_spec P img r out Hwd EB) as [Hw Hd]. split; [exact Hw|].
  unfold boot in EB. destruct (recover P img) as [s tr| | |] eqn:ER; inversion EB; subst r out; clear EB;
    try (split; [exact Hsn|]; split; [exact Hterm|]; exists k; split; [exact Hp|exact I]).
  apply recover_ok in ER; [|eapply prefix_keys_ok; eauto].
  destruct ER as ((Dt & _ & _ & Dl & _ & _ & Ds) & _ & Hrole & Hli & Hlt & Hsnap & _).
  rewrite Hsn in Hsnap. change (find sn_ok (list_snaps [])) with (@None snapshot) in Hsnap. destruct Hsnap as [Hsi _].
  unfold node_init. cbn [gn_run image]. rewrite Ds, Dt, Dl.
  split; [exact Hsn|]. split; [exact Hterm|]. exists k. split; [exact Hp|].
  split; [rewrite Hrole; discriminate|]. split; [exact Hsi|].
  rewrite (prefix_log_last base k _ Hh Hp) in Hli, Hlt.
  destruct k as [|k'].
  - simpl in Hlt. simpl. rewrite Hli, Hlt. reflexivity.
  - destruct (N.ltb_spec 0 (N.of_nat (S k'))) as [_|Hc]; [|lia].
    destruct Hlt as (e & He & Hlt). destruct (prefix_lookup base (S k') _ _ e Hp He) as [_ Hn].
    replace (N.to_nat (N.of_nat (S k') - 1)) with k' in Hn by lia.
    unfold last_key. rewrite Hn. unfold key. rewrite Hli, Hlt.
    rewrite (hist_idx _ _ Hh _ e Hn). simpl. f_equal. lia.
Qed.

(* ---------------------------------------------------------------- the driver's images *)
Definition mk_entries (a : nat) : list entry :=
  mkE 1 1 LogConfiguration 1 :: map (fun k => mkE (N.of_nat k) 1 LogCommand (100 + N.of_nat k)) (seq 2 a).

Lemma hist_ok_cmds a : forall s,
  hist_ok (N.of_nat s, 1) (map (fun k => mkE (N.of_nat k) 1 LogCommand (100 + N.of_nat k)) (seq (S s) a)).
Proof.
  induction a as [|a IH]; intros s; [exact I|].
  change (seq (S s) (S a)) with (S s :: seq (S (S s)) a). cbn [map hist_ok e_idx e_term fst snd].
  split; [lia|]. split; [lia|]. apply (IH (S s)).
Qed.

Lemma mk_entries_hist a : hist_ok (0, 0) (mk_entries a).
Proof.
  unfold mk_entries. cbn [hist_ok e_idx e_term fst snd]. split; [reflexivity|]. split; [lia|].
  apply (hist_ok_cmds a 1).
Qed.

Lemma mk_entries_firstn a b : (a <= b)%nat -> firstn (S a) (mk_entries b) = mk_entries a.
Proof.
  intros H. unfold mk_entries. cbn [firstn]. f_equal. rewrite firstn_map, firstn_seq_le by exact H. reflexivity.
Qed.

Lemma mk_entries_length a : length (mk_entries a) = S a.
Proof. unfold mk_entries. cbn [length]. rewrite map_length, seq_length. reflexivity. Qed.

Lemma mk_entries_term a e : In e (mk_entries a) -> e_term e = 1.
Proof.
  unfold mk_entries. intros [<-|H]; [reflexivity|]. apply in_map_iff in H. destruct H as (k & <- & _). reflexivity.
Qed.

Lemma mk_node_init cfg i x M : (N.to_nat x <= M)%nat ->
  wfr (gn_run (mk_node cfg i x)) /\ node_init (mk_entries M) (mk_node cfg i x).
Proof.
  intros Hx. unfold mk_node. cbn [gn_run].
  apply (boot_node_init (mk_entries M) (S (N.to_nat x))).
  - apply mk_entries_hist.
  - rewrite mk_entries_length. lia.
  - rewrite (mk_entries_firstn _ _ Hx). reflexivity.
  - reflexivity.
  - unfold wfd. simpl. lia.
  - intros e He. rewrite (mk_entries_term _ _ He). simpl. lia.
Qed.

Lemma nodup_fst_combine {A B} (l : list A) : forall (l' : list B), NoDup l -> NoDup (map fst (combine l l')).
Proof.
  induction l as [|a r IH]; intros l' H; [constructor|]. destruct l' as [|b r']; [constructor|].
  inversion H as [|? ? Ha Hr]; subst. simpl. constructor; [|apply IH, Hr].
  intros Hin. apply Ha. apply in_map_iff in Hin. destruct Hin as ([a' b'] & E & Hin). simpl in E. subst a'.
  apply in_combine_l in Hin. exact Hin.
Qed.

Lemma max_ge l : forall x, In x l -> (x <= fold_right Nat.max 0%nat l)%nat.
Proof.
  induction l as [|y r IH]; intros x Hx; [contradiction|]. destruct Hx as [<-|H]; simpl; [lia|].
  specialize (IH x H). lia.
Qed.

(* every initial state built by ClusterLog.run_clusterlog *)
Theorem mk_nodes_linit n extras :
  linit_ok (mkLG (mkG (map (fun p => mk_node (mk_cfg n) (N.of_nat (fst p)) (snd p)) (combine (seq 1 n) extras)) [] [] []) []).
Proof.
  set (M := fold_right Nat.max 0%nat (map N.to_nat extras)).
  assert (HM : forall p, In p (combine (seq 1 n) extras) -> (N.to_nat (snd p) <= M)%nat).
  { intros [a x] Hp. apply in_combine_r in Hp. apply max_ge. apply in_map. exact Hp. }
  split; [|split; [reflexivity|]].
  - split; [|split; [|auto]]; cbn [lg_g g_nodes].
    + rewrite map_map. change (fun x => gn_id (mk_node (mk_cfg n) (N.of_nat (fst x)) (snd x))) with (fun x : nat * N => N.of_nat (fst x)).
      rewrite <- (map_map fst N.of_nat). apply Injective_map_NoDup; [intros a b; apply Nat2N.inj|].
      apply nodup_fst_combine, seq_NoDup.
    + intros nd Hin. apply in_map_iff in Hin. destruct Hin as (p & <- & Hp).
      split; [apply (mk_node_init _ _ _ M (HM p Hp))|reflexivity].
  - exists (mk_entries M). split; [apply mk_entries_hist|]. cbn [lg_g g_nodes].
    intros nd Hin. apply in_map_iff in Hin. destruct Hin as (p & <- & Hp).
    apply (mk_node_init _ _ _ M (HM p Hp)).
Qed.

(* the initial state of run_clusterlog for 3 servers with 0, 1 and 2 extra entries *)
Example init_3_servers :
  linit_ok (mkLG (mkG (map (fun p => mk_node (mk_cfg 3) (N.of_nat (fst p)) (snd p)) (combine (seq 1 3) [0; 1; 2])) [] [] []) []).
Proof. apply mk_nodes_linit. Qed.

(* it is the state run_clusterlog starts from *)
Example init_3_servers_is_the_drivers :
  run_clusterlog [3; 0; 1; 2] = run_llabels (mk_cfg 3) 0
    (mkLG (mkG (map (fun p => mk_node (mk_cfg 3) (N.of_nat (fst p)) (snd p)) (combine (seq 1 3) [0; 1; 2])) [] [] []) []) [].
Proof. reflexivity. Qed.
