(* RecoverF13.v — what the repair of finding F13 establishes at start-up: a commit index restored from the log
   store (RestoreCommittedLogs) that covers the latest configuration leaves that configuration COMMITTED, so the
   membership-change gate of a server that then leads can open (Leader.config_gate_open needs
   v_latestIdx = v_committedIdx). *)
From Coq Require Import List NArith Bool Lia ZifyBool ZifyN.
From stdpp Require Import gmap.
From RaftModel Require Import Base Config Compaction Commitment Node.
From RaftProofs Require Import RecoverProofs.
Open Scope N_scope.

Lemma rec_fin_promotes : forall s,
  0 < v_commit (rec_fin s) -> v_latestIdx (rec_fin s) <= v_commit (rec_fin s) ->
  v_committedIdx (rec_fin s) = v_latestIdx (rec_fin s) /\ v_committed (rec_fin s) = v_latest (rec_fin s).
Proof.
  intros s. unfold rec_fin.
  destruct ((0 <? v_commit s) && (v_latestIdx s <=? v_commit s)) eqn:E.
  - intros _ _. destruct s; simpl. split; reflexivity.
  - intros H1 H2. exfalso. apply andb_false_iff in E. destruct E as [E|E]; lia.
Qed.

Lemma recover_promotes_covered_configuration : forall P img s tr,
  recover P img = RecOk s tr -> 0 < v_commit s -> v_latestIdx s <= v_commit s ->
  v_committedIdx s = v_latestIdx s /\ v_committed s = v_latest s.
Proof.
  intros P img s tr H. unfold recover in H.
  destruct (rec_last _) as [le|]; [|discriminate].
  destruct (rec_snapshot _) as [[s3 tr3]|]; [|discriminate].
  destruct (rec_committed P s3) as [| | |s4 tr4]; try discriminate.
  destruct (scan_configs _ _ _ _) as [s5|]; [|discriminate].
  inversion H; subst. apply (rec_fin_promotes s5).
Qed.
