(* ClusterOrderSpec.v — C08 "its index is greater than that of every call acknowledged before it was
   issued", stated over ALL RUNS of the cluster with commitment (Model/ClusterCommit.v).  Statement
   only; the proof is in Proofs/ClusterOrderMain.v.

   A run is cut at a dispatchLogs step (the label LPropose at leader i: an Apply / Barrier call taken
   from applyCh): whatever any leader acknowledged to a client BEFORE that step has a smaller index
   than the entry this step creates, if that entry is ever acknowledged.  The entry the step creates
   is identified by its index and term: the leader's last index + 1 and the leader's term (dispatchLogs
   assigns exactly those; an (index, term) pair names one entry in the whole system). *)
From Coq Require Import List NArith Bool Lia.
From stdpp Require Import gmap.
From RaftModel Require Import Base Config Compaction Commitment Node NodeCodec Candidate Leader Replicate Cluster ClusterLog ClusterCommit.
From RaftProofs Require Import ClusterCommitSpec ClusterCommitSnapSpec.
Open Scope N_scope.

Definition acks_ordered (sn : bool) (cfg : config) (g0 : cgstate) : Prop :=
  forall ls1 g1 i ty data fs g2 ls2 n s T e T' e',
  Forall label_ok ls1 -> label_ok (CBase (LPropose i ty data fs)) -> Forall label_ok ls2 ->
  crun sn [cfg] g0 ls1 = Some g1 ->
  cstep sn [cfg] g1 (CBase (LPropose i ty data fs)) = Some g2 ->
  In n (cnodes g1) -> gn_id n = i -> gn_run n = Up s ->
  In (T, e) (run_acks sn [cfg] g0 ls1) ->          (* acknowledged before the call was issued *)
  In (T', e') (run_acks sn [cfg] g2 ls2) ->        (* acknowledged after it ... *)
  e_idx e' = last_index s + 1 -> e_term e' = v_term s ->   (* ... and it is the entry this call created *)
  e_idx e < e_idx e'.
