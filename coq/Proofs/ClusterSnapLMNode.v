(* ClusterSnapLMNode.v — one event at one server keeps the per-server invariant of Proofs/ClusterSnapLMLog.v:
   NewRaft, the handlers that do not touch the stores, appendEntries, takeSnapshot, installSnapshot. *)
From Coq Require Import List NArith Bool Lia.
From stdpp Require Import gmap.
From RaftModel Require Import Base Config Compaction Commitment Node NodeCodec Candidate Leader.
From RaftProofs Require Import VoteProofs AdvLeaderProofs AppendProofs RecoverProofs ClusterProofs
  ClusterLogSpec ClusterLogChain ClusterLogNode ClusterLogCut ClusterLogVote ClusterLogAppend ClusterLogSnapBoot ClusterLogSnapCut
  ClusterCommitChain ClusterCommitNode ClusterCommitInv
  ClusterCommitSnapLog ClusterCommitSnapBoot ClusterCommitSnapCut ClusterCommitSnapAE ClusterCommitSnapAE2 ClusterCommitSnapAE5 ClusterCommitSnapTake
  ClusterCommitSnapNode ClusterCommitSnapNode3
  ClusterSnapLMLog ClusterSnapLMAE ClusterSnapLMAE2 ClusterSnapLMInstall.
Open Scope N_scope.

Lemma recover_yup C B P img s tr : chain_ok C -> p_rc P = false -> yimg C B img -> recover P img = RecOk s tr -> yup C B s.
Proof.
  intros HC Hrc [Hin (top & Hab) Hsn] ER.
  pose proof (recover_ok P img s tr (log_in_keys C _ _ Hin) ER) as (Hd & _ & _ & Hli & Hlt & _).
  destruct Hd as (Dt & _ & _ & Dl & _ & _ & Ds).
  destruct (recover_snapS P img s tr Hrc ER) as (_ & Hf & Hbk & _).
  unfold yup. rewrite Dt, Dl, Ds, Hf. set (m := d_log img) in *.
  assert (Htk : snd (topk s) <= d_term img /\ (fst (topk s) = 0 -> topk s = (0, 0)) /\
                forall i e, m !! i = Some e -> B < i -> anc C (key e) (topk s)).
  { destruct (log_last_in m) as [E0|(le & Hle)].
    - rewrite E0 in Hlt. change (0 <? 0) with false in Hlt. cbv iota in Hlt.
      assert (E : topk s = (0, 0)) by (unfold topk; rewrite Hli, E0, Hlt; reflexivity).
      rewrite E. split; [simpl; lia|]. split; [reflexivity|].
      intros i x Hx _. exfalso. pose proof (log_in_pos C _ _ i x HC Hin Hx). pose proof (log_last_ge _ i x Hx). lia.
    - pose proof (log_in_pos C _ _ _ le HC Hin Hle) as Hpos.
      destruct (N.ltb_spec 0 (log_last m)) as [_|Hc]; [|lia].
      destruct Hlt as (e0 & He0 & Hlt). fold m in He0. rewrite Hle in He0. inversion He0; subst e0. clear He0.
      destruct (Hin _ le Hle) as (Hk & _ & Hterm).
      assert (E : topk s = key le) by (unfold topk, key; rewrite Hli, Hlt, Hk; reflexivity).
      rewrite E. split; [exact Hterm|]. split; [unfold key; simpl; lia|].
      intros i x Hx Hb. destruct (Hin i x Hx) as (Hk' & _). pose proof (log_last_ge _ i x Hx) as Hge.
      apply (anc_linear C (key x) (key le) top HC (Hab i x Hx Hb) (Hab _ le Hle ltac:(lia))). unfold key. simpl. lia. }
  destruct Htk as (K1 & K2 & K3).
  constructor; try assumption.
  - unfold rawb. destruct (find sn_ok (list_snaps (d_snaps img))) as [sn|] eqn:EF.
    + destruct Hbk as (E1 & E2 & _). rewrite E1, E2. apply find_some in EF. destruct EF as [EF _]. destruct (list_snaps_spec (d_snaps img)) as [_ Hm]. apply Hm in EF.
      destruct (Hsn sn EF). simpl. split; [assumption|intros _; assumption].
    + destruct Hbk as [E1 _]. rewrite E1. simpl. split; [lia|congruence].
  - simpl. congruence.
Qed.

Lemma boot_ynlog C B P img r out : chain_ok C -> p_rc P = false -> yimg C B img -> boot P img = (r, out) ->
  ynlog C B r /\ d_term (image r) = d_term img /\ d_log (image r) = d_log img /\ d_snaps (image r) = d_snaps img /\
  (forall s, r = Up s -> v_role s = Follower).
Proof.
  intros HC Hrc Himg. unfold boot.
  destruct (recover P img) as [s tr| | |] eqn:ER; intros HB; inversion HB; subst r out; clear HB;
    try (simpl; split; [exact Himg|]; split; [reflexivity|]; split; [reflexivity|]; split; [reflexivity|]; intros s0 Hs0; discriminate).
  pose proof (recover_yup C B P img s tr HC Hrc Himg ER) as Hz. destruct Himg as [Hin _ _].
  pose proof (recover_ok P img s tr (log_in_keys C _ _ Hin) ER) as ((Dt & _ & _ & Dl & _ & _ & Ds) & _ & Hrole & _).
  simpl. split; [exact Hz|]. split; [exact Dt|]. split; [exact Dl|]. split; [exact Ds|].
  intros s0 Hs0. inversion Hs0; subst. exact Hrole.
Qed.

(* a handler completed with a good state, or the process died and every crash image is good *)
Lemma finish_y {R} C B P (enc : R -> list N) (mk : R -> nobs) si s cut (o : outcome R) r' ob out :
  chain_ok C -> p_rc P = false ->
  (forall k, yimg C B (cut_image P si s (trace_of o) k)) ->
  (forall s' r tr fs', o = Done s' r tr fs' -> yup C B s') ->
  finish P enc mk si s cut o = (r', ob, out) ->
  ynlog C B r' /\
  ((exists s1 r tr fs', o = Done s1 r tr fs' /\ r' = Up s1 /\ ob = mk r) \/
   (exists k, d_term (image r') = d_term (cut_image P si s (trace_of o) k) /\ d_log (image r') = d_log (cut_image P si s (trace_of o) k) /\
              d_snaps (image r') = d_snaps (cut_image P si s (trace_of o) k) /\ ob = OLost /\ forall s', r' = Up s' -> v_role s' = Follower)).
Proof.
  intros HC Hrc Himg Hdone HF.
  destruct (finish_cases P enc mk si s cut o r' ob out HF) as [(s1 & r & tr & fs' & Ho & -> & ->)|(k & oo & HB & ->)].
  - split; [apply (Hdone s1 r tr fs' Ho)|left; exists s1, r, tr, fs'; auto].
  - destruct (boot_ynlog C B P _ r' oo HC Hrc (Himg k) HB) as (A & Dt & Dl & Ds & Dr).
    split; [exact A|right]. exists k. auto 10.
Qed.

(* keeping the stores and the cached keys *)
Lemma yup_keep C B s s' : yup C B s -> zkeep s' s -> d_term s <= d_term s' -> yup C B s'.
Proof.
  intros H (_ & (K1 & K2 & K3 & K4 & K5) & K6 & K7) Ht. unfold yup, topk, rawb in *. rewrite K1, K2, K3, K4, K5, K6, K7.
  eapply yshape_mono; [apply incl_refl|apply N.le_refl|exact Ht|exact H].
Qed.

Lemma term_only_yimg C B s tr : yimg C B s -> term_only s tr ->
  forall j, let d := fold_left tl_apply (firstn j (tlf tr)) (tlp s) in yimgS C B (fst d) (snd d) (d_snaps s) /\ snd d = d_log s /\ d_term s <= fst d.
Proof.
  intros Hi [E|(t & E & Ht)] j; rewrite E; cbv zeta.
  - destruct j; simpl; (split; [exact Hi|split; [reflexivity|lia]]).
  - destruct j as [|[|j]]; simpl; (split; [|split; [reflexivity|lia]]); try exact Hi;
      (eapply yimgS_mono; [apply incl_refl|apply N.le_refl|exact Ht|exact Hi]).
Qed.

(* what the cluster-level proof needs from one event at one server *)
Definition ypost (C : chain) (B : N) (r r' : nrun) : Prop :=
  ynlog C B r' /\ incl (d_snaps (image r)) (d_snaps (image r')) /\
  forall s', r' = Up s' -> v_role s' = Leader ->
    exists s, r = Up s /\ v_role s = Leader /\ v_term s' = v_term s /\ v_lastLogIdx s' = v_lastLogIdx s.

Lemma ypost_refl C B r : ynlog C B r -> ypost C B r r.
Proof. intros H. split; [exact H|]. split; [apply incl_refl|]. intros s' Hs' Hr. exists s'. auto. Qed.

Lemma ypost_boot C B P r rr oo : chain_ok C -> p_rc P = false -> ynlog C B r -> boot P (image r) = (rr, oo) -> ypost C B r rr.
Proof.
  intros HC Hrc Hn HB. destruct (boot_ynlog C B P _ rr oo HC Hrc (ynlog_image C B r Hn) HB) as (A & _ & _ & Ds & Dr).
  split; [exact A|]. split; [rewrite Ds; apply incl_refl|]. intros s' Hs' Hr. rewrite (Dr s' Hs') in Hr. discriminate.
Qed.

(* RequestVote, pre-vote, restart, TimeoutNow at one server *)
Lemma simple_step_y C B P r e cut fs r' ob out : chain_ok C -> p_rc P = false -> wfr r -> ynlog C B r ->
  simple_event e -> step_full P r e cut fs = (r', ob, out) -> ypost C B r r'.
Proof.
  intros HC Hrc Hw Hn He. unfold step_full.
  destruct r as [s|s]; destruct e as [q|q|a|q| | | | |]; try contradiction.
  - intros HF. simpl in Hn. pose proof (request_vote_keep s fs q Hw) as Hk.
    assert (Hto : term_only s (trace_of (request_vote s fs q))).
    { destruct (request_vote s fs q); simpl; [apply Hk|exact Hk]. }
    assert (Himg : forall k, yimg C B (cut_image P None s (trace_of (request_vote s fs q)) k)).
    { intros k. destruct (cut_none_tlp P s (trace_of (request_vote s fs q)) k) as (j & Hj & Hs).
      destruct (term_only_yimg C B s (trace_of (request_vote s fs q)) (yshape_img _ _ _ _ _ _ _ _ Hn) Hto j) as (Hi & _). cbv zeta in Hi.
      unfold yimg. rewrite <- Hj in Hi. rewrite Hs. exact Hi. }
    assert (Hdn : forall s' rr tr fs', request_vote s fs q = Done s' rr tr fs' -> yup C B s').
    { intros s' rr tr fs' Ho. rewrite Ho in Hk. destruct Hk as (K1 & K2 & _).
      eapply yup_keep; [exact Hn| |exact K2]. split; [eapply request_vote_vkeep; exact Ho|]. split; [exact K1|eapply request_vote_sf; exact Ho]. }
    destruct (finish_y C B P _ _ None s cut _ r' ob out HC Hrc Himg Hdn HF) as (A & [(s1 & rr & tr & fs' & Ho & -> & _)|(k & _ & _ & Ds & _ & Dr)]).
    + split; [exact A|]. rewrite Ho in Hk. destruct Hk as (K1 & _ & K & _). destruct K1 as (_ & Es & K3 & _). split.
      * simpl. rewrite Es. apply incl_refl.
      * intros s' Hs' Hr. inversion Hs'; subst s'. destruct (K Hr) as [K2 K4]. exists s. auto.
    + split; [exact A|]. split.
      * rewrite Ds. destruct (cut_none_tlp P s (trace_of (request_vote s fs q)) k) as (j & _ & Hs). rewrite Hs. apply incl_refl.
      * intros s' Hs' Hr. rewrite (Dr s' Hs') in Hr. discriminate.
  - destruct (request_prevote s q) as [t g]. intros H; inversion H; subst. apply ypost_refl, Hn.
  - intros H; inversion H; subst. split; [|split].
    + simpl. eapply yup_keep; [exact Hn|split; [repeat split|split; [repeat split|split; reflexivity]]|simpl; lia].
    + apply incl_refl.
    + intros s' Hs' Hr. inversion Hs'; subst. change (v_role (timeout_now s)) with Candidate in Hr. discriminate.
  - destruct (boot P (image (Up s))) as [rr oo] eqn:EB. intros H; inversion H; subst r' ob out. eapply ypost_boot; eauto.
  - intros H; inversion H; subst. apply ypost_refl, Hn.
  - intros H; inversion H; subst. apply ypost_refl, Hn.
  - intros H; inversion H; subst. apply ypost_refl, Hn.
  - destruct (boot P (image (Down s))) as [rr oo] eqn:EB. intros H; inversion H; subst r' ob out. eapply ypost_boot; eauto.
Qed.
