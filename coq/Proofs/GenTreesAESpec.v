(* GenTreesAESpec.v — statements over the decision tree of appendEntries regenerated from raft.go on every run
   (Model/GenTreesAE.v: loops expanded "body once or not at all", shared subtrees), decided by computation over
   EVERY path of the tree (all valuations of the atoms). They speak about order and presence of effects:
     - the follower deletes entries only on a path that took the branch `entry.Term != storeEntry.Term` (C04: "deletes
       existing entries only from the first index where its entry's term differs");
     - on a path where that DeleteRange failed, or StoreLogs failed, nothing is stored afterwards and success is never
       assigned (C04/C02: a follower does not answer success over a log it could not repair - round-4 seed C02d);
     - once resp.Success = true is assigned no store operation follows (C04: success is reported for the log as it is);
     - the tree does contain a DeleteRange, a StoreLogs and a success assignment (the statements are not vacuous). *)
From Coq Require Import List String NArith Bool.
From RaftModel Require Import GenTrees Trees GenTreesAE.
Import ListNotations.
Open Scope string_scope.

Definition is_call (e : string * string * string) (name : string) : bool :=
  String.eqb (fst (fst e)) "call" && String.eqb (snd (fst e)) name.
Definition is_success (e : string * string * string) : bool :=
  String.eqb (fst (fst e)) "assign" && String.eqb (snd (fst e)) "resp.Success" && String.eqb (snd e) "true".

Fixpoint ae_paths_ok (storeFailed conflict succ : bool) (t : tree) : bool :=
  match t with
  | TRet _ => true
  | TEv e k =>
    (if storeFailed then negb (is_call e "logs.StoreLogs") && negb (is_success e) else true) &&
    (if is_call e "logs.DeleteRange" then conflict else true) &&
    (if succ then negb (is_call e "logs.StoreLogs") && negb (is_call e "logs.DeleteRange") else true) &&
    ae_paths_ok storeFailed conflict (succ || is_success e) k
  | TLet _ _ k => ae_paths_ok storeFailed conflict succ k
  | TIf c a b =>
    match c with
    | EBin "!=" (EAtom "err@r.logs.DeleteRange(entry.Index,lastLogIdx)") ENil =>
      ae_paths_ok true conflict succ a && ae_paths_ok storeFailed conflict succ b
    | EBin "!=" (EAtom "err@r.logs.StoreLogs(newEntries)") ENil =>
      ae_paths_ok true conflict succ a && ae_paths_ok storeFailed conflict succ b
    | EBin "!=" (EAtom "entry.Term") (EAtom "storeEntry.Term") =>
      ae_paths_ok storeFailed true succ a && ae_paths_ok storeFailed conflict succ b
    | _ => ae_paths_ok storeFailed conflict succ a && ae_paths_ok storeFailed conflict succ b
    end
  end.

Fixpoint tree_events (t : tree) : list (string * string * string) :=
  match t with
  | TRet _ => []
  | TEv e k => e :: tree_events k
  | TLet _ _ k => tree_events k
  | TIf _ a b => (tree_events a ++ tree_events b)%list
  end.
Fixpoint tree_conds (t : tree) : list expr :=
  match t with
  | TRet _ => []
  | TEv _ k | TLet _ _ k => tree_conds k
  | TIf c a b => (c :: tree_conds a ++ tree_conds b)%list
  end.
Definition expr_is (c : expr) (a b : string) : bool :=
  match c with EBin "!=" (EAtom x) (EAtom y) => String.eqb x a && String.eqb y b | _ => false end.
Definition expr_is_err (c : expr) (a : string) : bool :=
  match c with EBin "!=" (EAtom x) ENil => String.eqb x a | _ => false end.

Definition append_entries_effects_in_order : Prop :=
  ae_paths_ok false false false genx_appendEntries = true /\
  existsb (fun e => is_call e "logs.DeleteRange") (tree_events genx_appendEntries) = true /\
  existsb (fun e => is_call e "logs.StoreLogs") (tree_events genx_appendEntries) = true /\
  existsb is_success (tree_events genx_appendEntries) = true /\
  existsb (fun c => expr_is c "entry.Term" "storeEntry.Term") (tree_conds genx_appendEntries) = true /\
  existsb (fun c => expr_is_err c "err@r.logs.DeleteRange(entry.Index,lastLogIdx)") (tree_conds genx_appendEntries) = true /\
  existsb (fun c => expr_is_err c "err@r.logs.StoreLogs(newEntries)") (tree_conds genx_appendEntries) = true.

Theorem append_entries_effects_in_order_holds : append_entries_effects_in_order.
Proof. vm_compute. repeat split; reflexivity. Qed.

(* ------------------------------------------------------------------ installSnapshot, every path of the source:
   resp.Success = true is never assigned on a path where the stream delivered another number of bytes than req.Size,
   where closing the snapshot sink failed, or where the FSM's restore reported an error; once one of these happened
   the server's applied index / last snapshot are not moved either (setLastApplied, setLastSnapshot). The tree does
   contain the three conditions, the success assignment and those calls. (C02: "a snapshot restore ... leaves the FSM in
   exactly the state produced by the agreed entries"; round-2 seed C02b accepted a truncated stream.) *)
Definition is_cond_ne (c : expr) (a b : string) : bool :=
  match c with EBin "!=" (EAtom x) (EAtom y) => String.eqb x a && String.eqb y b | _ => false end.

Fixpoint is_paths_ok (failed : bool) (t : tree) : bool :=
  match t with
  | TRet _ => true
  | TEv e k =>
    (if failed then negb (is_success e) && negb (is_call e "setLastApplied") && negb (is_call e "setLastSnapshot") else true)
    && is_paths_ok failed k
  | TLet _ _ k => is_paths_ok failed k
  | TIf c a b =>
    if is_cond_ne c "n" "req.Size" || expr_is_err c "err@sink.Close()" || expr_is_err c "err@future.Error()"
    then is_paths_ok true a && is_paths_ok failed b
    else is_paths_ok failed a && is_paths_ok failed b
  end.

Definition install_snapshot_success_only_after_a_complete_restore : Prop :=
  is_paths_ok false genx_installSnapshot = true /\
  existsb is_success (tree_events genx_installSnapshot) = true /\
  existsb (fun e => is_call e "setLastApplied") (tree_events genx_installSnapshot) = true /\
  existsb (fun e => is_call e "setLastSnapshot") (tree_events genx_installSnapshot) = true /\
  existsb (fun c => is_cond_ne c "n" "req.Size") (tree_conds genx_installSnapshot) = true /\
  existsb (fun c => expr_is_err c "err@sink.Close()") (tree_conds genx_installSnapshot) = true /\
  existsb (fun c => expr_is_err c "err@future.Error()") (tree_conds genx_installSnapshot) = true.

Theorem install_snapshot_success_only_after_a_complete_restore_holds : install_snapshot_success_only_after_a_complete_restore.
Proof. vm_compute. repeat split; reflexivity. Qed.
