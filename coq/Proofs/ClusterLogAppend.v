(* ClusterLogAppend.v — the follower's appendEntries handler keeps the node part of the Log
   Matching invariant, for every request whose entries are consecutive elements of the ghost
   history, under every store-failure pattern and every crash cut. *)
From Coq Require Import List NArith Bool Lia.
From stdpp Require Import gmap.
From RaftModel Require Import Base Config Compaction Node NodeCodec.
From RaftProofs Require Import VoteProofs AdvLeaderProofs AppendProofs RecoverProofs
  ClusterLogSpec ClusterLogChain ClusterLogNode ClusterLogCut ClusterLogVote.
Open Scope N_scope.

Lemma nlog_up_sub C s s' : nlog_up C s -> log_sub (d_log s') (d_log s) -> d_snaps s' = d_snaps s ->
  v_lastLogIdx s' = v_lastLogIdx s -> v_lastLogTerm s' = v_lastLogTerm s -> v_lastSnapIdx s' = v_lastSnapIdx s ->
  d_term s' = d_term s -> nlog_up C s'.
Proof.
  intros (A & B & D & E & F & G) Hs K2 K3 K4 K5 Kt. unfold nlog_up. rewrite K2, K3, K4, K5, Kt.
  split; [exact A|]. split; [eapply log_in_sub; [exact Hs|apply N.le_refl|exact B]|].
  split; [exact D|]. split; [exact E|]. split; [exact F|]. eapply log_below_sub; eauto.
Qed.

(* the cached index bounds the store *)
Lemma nlog_up_bound C s i x : chain_ok C -> nlog_up C s -> d_log s !! i = Some x -> i <= v_lastLogIdx s.
Proof.
  intros HC (_ & B & _ & _ & _ & G) Hl. destruct (B i x Hl) as (Hk & _).
  destruct (anc_le C _ _ HC (G i x Hl)) as [Hle _]. unfold key in Hle. simpl in Hle. lia.
Qed.

Lemma nlog_up_cache_ok C s : chain_ok C -> nlog_up C s -> cache_ok s.
Proof.
  intros HC Hn i Hi. destruct (d_log s !! i) as [x|] eqn:E; [|reflexivity].
  pose proof (nlog_up_bound C s i x HC Hn E). lia.
Qed.

Lemma mchain_contig C p es : chain_ok C -> mchain C p es -> contig (fst p) es.
Proof.
  intros HC. revert p. induction es as [|e r IH]; intros p H; simpl in *; [exact I|].
  destruct H as [H1 H2]. destruct (co_idx C HC e p H1) as [A _]. split; [exact A|].
  specialize (IH _ H2). unfold key in IH. simpl in IH. rewrite A in IH. exact IH.
Qed.

(* ---------------------------------------------------------------- the entry before the first new one *)
(* (index, term) of the entry the first new entry was appended after: the last duplicate, or the
   request's previous entry.  After a successful truncation it is the cached last-log at once. *)
Definition pred_key (a : areq) (dup : list entry) : N * N :=
  match dup with [] => (aq_prevIdx a, aq_prevTerm a) | _ => key (last dup (mkE 0 0 0 0)) end.

Lemma conflict_pred_app a dup news : aq_entries a = dup ++ news -> conflict_pred a news = pred_key a dup.
Proof.
  intros Hes. unfold conflict_pred. rewrite Hes, app_length.
  replace (length dup + length news - length news)%nat with (length dup) by lia.
  rewrite firstn_app, Nat.sub_diag, firstn_all, firstn_O, app_nil_r.
  destruct dup as [|d0 dr _] using rev_ind; [reflexivity|].
  rewrite rev_app_distr. cbn [rev app]. unfold pred_key. rewrite last_last.
  destruct dr; reflexivity.
Qed.

(* the first new entry was created after pred_key, and what the store holds below the first new
   entry is an ancestor of pred_key *)
Lemma pred_key_good C s2 a dup n0 nr :
  chain_ok C -> nlog_up C s2 -> prev_check s2 a = Some true ->
  mchain C (aq_prevIdx a, aq_prevTerm a) (dup ++ n0 :: nr) ->
  (forall e, In e dup -> exists se, d_log s2 !! e_idx e = Some se /\ e_term se = e_term e) ->
  In (n0, pred_key a dup) C /\
  forall i x, d_log s2 !! i = Some x -> i < e_idx n0 -> anc C (key x) (pred_key a dup).
Proof.
  intros HC Hn Hpc Hm Hdup. unfold pred_key.
  pose proof Hn as (_ & Hin & Hsi & _ & _ & Hbel).
  destruct (mchain_app C _ dup (n0 :: nr) Hm) as [Hmd Hmn].
  set (q := match dup with [] => (aq_prevIdx a, aq_prevTerm a) | _ => key (last dup (mkE 0 0 0 0)) end) in *.
  assert (Hn0 : In (n0, q) C) by apply Hmn.
  split; [exact Hn0|].
  destruct (co_idx C HC n0 q Hn0) as [Hc0 _].
  intros i x Hl Hi. destruct (Hin i x Hl) as (Hkx & _).
    assert (Hvia : forall se, d_log s2 !! fst q = Some se -> key se = q -> anc C (key x) q).
    { intros se Hse Hq. rewrite <- Hq.
      apply (anc_linear C (key x) (key se) _ HC (Hbel i x Hl) (Hbel _ se Hse)).
      rewrite Hq. unfold key. simpl. lia. }
    destruct dup as [|d0 dr] eqn:Edup.
    - (* the request starts with new entries: the prev check decides *)
      subst q. simpl in Hc0. unfold prev_check in Hpc.
      destruct (N.ltb_spec 0 (aq_prevIdx a)) as [Hpos|Hz].
      2:{ exfalso. pose proof (log_in_pos C _ _ i x HC Hin Hl). lia. }
      unfold last_entry in Hpc. rewrite Hsi in Hpc. destruct (N.leb_spec 0 (v_lastLogIdx s2)) as [_|Hc]; [|lia].
      destruct (N.eqb_spec (aq_prevIdx a) (v_lastLogIdx s2)) as [E1|N1].
      + inversion Hpc as [E2]. apply N.eqb_eq in E2. rewrite E1, E2. apply (Hbel i x Hl).
      + destruct (N.eqb_spec (aq_prevIdx a) 0) as [E0|_]; [lia|].
        destruct (d_log s2 !! aq_prevIdx a) as [pe|] eqn:Epe; [|discriminate].
        inversion Hpc as [E2]. apply N.eqb_eq in E2. apply (Hvia pe); [exact Epe|].
        destruct (Hin _ pe Epe) as (Hkp & _). unfold key. rewrite Hkp, E2. reflexivity.
    - (* the last duplicate is stored, with the same (index, term) *)
      assert (Hd : In (last (d0 :: dr) (mkE 0 0 0 0)) dup) by (rewrite Edup; apply last_in; discriminate).
      rewrite Edup in Hd. destruct (Hdup _ Hd) as (se & Hse & Hts).
      destruct (Hin _ se Hse) as (Hks & _).
      apply (Hvia se); [exact Hse|]. subst q. unfold key. rewrite Hks, Hts. reflexivity.
Qed.

(* ---------------------------------------------------------------- the log after truncate + store *)
Lemma final_log_good C s2 a dup news m3 :
  chain_ok C -> nlog_up C s2 -> prev_check s2 a = Some true ->
  mchain C (aq_prevIdx a, aq_prevTerm a) (dup ++ news) -> news <> [] ->
  (forall e, In e dup -> exists se, d_log s2 !! e_idx e = Some se /\ e_term se = e_term e) ->
  (forall e, In e news -> e_term e <= d_term s2) ->
  (forall i x, m3 !! i = Some x -> d_log s2 !! i = Some x /\ i < e_idx (hd (mkE 0 0 0 0) news)) ->
  log_in C (log_store m3 news) (d_term s2) /\ log_below C (log_store m3 news) (key (last_of news)).
Proof.
  intros HC Hn Hpc Hm Hne Hdup Hterm Hm3.
  pose proof Hn as (_ & Hin & Hsi & _ & _ & Hbel).
  destruct (mchain_app C _ dup news Hm) as [Hmd Hmn].
  set (q := match dup with [] => (aq_prevIdx a, aq_prevTerm a) | _ => key (last dup (mkE 0 0 0 0)) end) in *.
  destruct news as [|n0 nr]; [congruence|]. clear Hne.
  assert (Hn0 : In (n0, q) C) by apply Hmn.
  destruct (co_idx C HC n0 q Hn0) as [Hc0 _]. simpl hd in Hm3.
  (* what survives below the first new entry is an ancestor of its predecessor *)
  assert (Hold : forall i x, d_log s2 !! i = Some x -> i < e_idx n0 -> anc C (key x) q).
  { apply (pred_key_good C s2 a dup n0 nr HC Hn Hpc Hm Hdup). }
  assert (Hq0 : forall e, In e (n0 :: nr) -> anc C q (key e)) by (apply (mchain_anc C q _ Hmn)).
  assert (Hlast : In (last_of (n0 :: nr)) (n0 :: nr)) by (apply last_in; discriminate).
  split.
  - intros i x Hl. rewrite log_store_lookup in Hl.
    destruct (find_last i (n0 :: nr)) as [y|] eqn:F.
    + inversion Hl; subst y. apply find_last_In in F. destruct F as [F1 F2].
      split; [exact F2|]. split; [apply (mchain_in C q _ Hmn x F1)|apply Hterm, F1].
    + destruct (Hm3 i x Hl) as [Hl2 _]. apply (Hin i x Hl2).
  - intros i x Hl. rewrite log_store_lookup in Hl.
    destruct (find_last i (n0 :: nr)) as [y|] eqn:F.
    + inversion Hl; subst y. apply find_last_In in F. destruct F as [F1 F2].
      apply (mchain_last C q _ Hmn x F1).
    + destruct (Hm3 i x Hl) as [Hl2 Hlt].
      eapply anc_trans; [apply (Hold i x Hl2 Hlt)|apply Hq0, Hlast].
Qed.

(* ---------------------------------------------------------------- traces: prefixes of an extension *)
Definition ext_good (C : chain) (s2 : nstate) (ext : list ev) : Prop :=
  forall j, good_tl C (fold_left tl_apply (firstn j ext) (tlp s2)).

Lemma ext_good_nil C s2 : good_tl C (tlp s2) -> ext_good C s2 [].
Proof. intros H j. destruct j; exact H. Qed.

Lemma ext_good_snoc C s2 ext x : ext_good C s2 ext ->
  good_tl C (fold_left tl_apply (ext ++ [x]) (tlp s2)) -> ext_good C s2 (ext ++ [x]).
Proof.
  intros H Hx j. rewrite firstn_app. destruct (Nat.le_gt_cases j (length ext)) as [Hj|Hj].
  - replace (j - length ext)%nat with 0%nat by lia. simpl. rewrite app_nil_r. apply H.
  - rewrite (firstn_all2 (n:=j) ext) by lia.
    destruct (j - length ext)%nat as [|k] eqn:E; [lia|]. simpl. destruct k; exact Hx.
Qed.

(* state and trace reached so far inside the handler, relative to the state s2 at the entries block *)
Definition ent_good (C : chain) (s2 : nstate) (tr1 : list ev) (s' : nstate) (tr' : list ev) : Prop :=
  exists ext, tlf tr' = tlf tr1 ++ ext /\ ext_good C s2 ext /\ nlog_up C s' /\ d_term s' = d_term s2.

Definition cont_good (C : chain) (s2 : nstate) (tr1 : list ev) (c : ae_cont) : Prop :=
  match c with
  | inl (Some (s8, tr8, _)) => ent_good C s2 tr1 s8 tr8
  | inl None => True
  | inr (_, s', tr', _) => ent_good C s2 tr1 s' tr'
  end.

Lemma do_stage_keep P s c : lkeep (fst (do_stage P s c)) s /\ d_term (fst (do_stage P s c)) = d_term s /\
  tlf (snd (do_stage P s c)) = [].
Proof. unfold do_stage. destruct (p_track P); simpl; repeat split. Qed.

Lemma fold_config_keep P es : forall s,
  lkeep (fold_left (process_config_entry P) es s) s /\ d_term (fold_left (process_config_entry P) es s) = d_term s.
Proof.
  induction es as [|e r IH]; intros s; simpl; [repeat split|].
  destruct (IH (process_config_entry P s e)) as [A B].
  assert (H : lkeep (process_config_entry P s e) s /\ d_term (process_config_entry P s e) = d_term s).
  { unfold process_config_entry. destruct (e_ty e =? LogConfiguration); repeat split. }
  destruct H as [H1 H2]. split; [eapply lkeep_trans; eauto|congruence].
Qed.

Lemma store_new_good C P fr lc s2 tr1 s3 tr3 fs3 news ext3 :
  chain_ok C -> tlf tr3 = tlf tr1 ++ ext3 -> ext_good C s2 ext3 ->
  fold_left tl_apply ext3 (tlp s2) = tlp s3 -> nlog_up C s3 -> d_term s3 = d_term s2 ->
  log_in C (log_store (d_log s3) news) (d_term s2) ->
  log_below C (log_store (d_log s3) news) (key (last_of news)) ->
  e_idx (last_of news) <> 0 -> e_term (last_of news) <= d_term s2 ->
  cont_good C s2 tr1 (store_new P fr lc s3 tr3 fs3 news).
Proof.
  intros HC Htr Hext Hfold Hn3 Ht3 Hin Hbel Hidx Hterm. unfold store_new.
  pose proof (do_stage_keep P s3 (N.min lc (e_idx (last_of news)))) as (K & Kt & Ktr).
  destruct (do_stage P s3 _) as [s4 trs]. simpl in K, Kt, Ktr.
  unfold do_store. destruct (next_fail fs3) as [f fs5]. destruct f; simpl.
  - exists ext3. split; [rewrite !tlf_app, Htr, Ktr; simpl; rewrite app_nil_r; reflexivity|].
    split; [exact Hext|]. split; [eapply nlog_up_keep; [exact Hn3|exact K|lia]|congruence].
  - exists (ext3 ++ [EStore news true]).
    split; [rewrite !tlf_app, Htr, Ktr; simpl; rewrite app_assoc; reflexivity|].
    destruct K as (K1 & K2 & K3 & K4 & K5).
    split; [|split].
    + apply ext_good_snoc; [exact Hext|]. rewrite fold_left_app, Hfold. simpl.
      split; simpl; [rewrite Ht3; exact Hin|eexists; exact Hbel].
    + match goal with |- nlog_up C (set_lastlog ?S6 _ _) => set (s6 := S6) end.
      destruct (fold_config_keep P news (set_log s4 (log_store (d_log s4) news) (d_staged s4)
                  (if p_track P then d_staged s4 else d_pcommit s4))) as [(F1 & F2 & F3 & F4 & F5) Ft].
      fold s6 in F1, F2, F3, F4, F5, Ft. simpl in F1, F2, F3, F4, F5, Ft.
      destruct Hn3 as (A & _ & D & _ & _ & _).
      unfold nlog_up. simpl. rewrite F1, F2, F5, Ft, K1, K2, K5, Kt, Ht3.
      split; [exact A|]. split; [exact Hin|]. split; [exact D|]. split; [exact Hterm|].
      split; [intros E; contradiction|exact Hbel].
    + simpl. destruct (fold_config_keep P news (set_log s4 (log_store (d_log s4) news) (d_staged s4)
                  (if p_track P then d_staged s4 else d_pcommit s4))) as [_ Ft].
      simpl in Ft. rewrite Ft. congruence.
Qed.

Lemma ent_good_same C s2 tr1 : nlog_up C s2 -> ent_good C s2 tr1 s2 tr1.
Proof.
  intros Hn. exists []. split; [rewrite app_nil_r; reflexivity|].
  split; [apply ext_good_nil, nlog_img_good, nlog_up_img, Hn|]. split; [exact Hn|reflexivity].
Qed.

Lemma ae_entries_good C P fr s2 tr1 fs1 a :
  chain_ok C -> nlog_up C s2 -> prev_check s2 a = Some true ->
  mchain C (aq_prevIdx a, aq_prevTerm a) (aq_entries a) ->
  (forall e, In e (aq_entries a) -> e_term e <= d_term s2) ->
  cont_good C s2 tr1 (ae_entries P fr s2 tr1 fs1 a).
Proof.
  intros HC Hn Hpc Hm Hterm. unfold ae_entries.
  pose proof (ent_good_same C s2 tr1 Hn) as Hsame.
  destruct (aq_entries a) as [|e0 es0] eqn:Ees; [exact Hsame|].
  rewrite <- Ees in *. clear Ees e0 es0.
  pose proof (mchain_contig C _ _ HC Hm) as Hc. simpl fst in Hc.
  pose proof (scan_spec (d_log s2) (v_lastLogIdx s2) (aq_entries a) (aq_prevIdx a) Hc (nlog_up_cache_ok C s2 HC Hn)) as Hs.
  assert (Hlastn : forall dup news, aq_entries a = dup ++ news -> news <> [] ->
            e_idx (last_of news) <> 0 /\ e_term (last_of news) <= d_term s2 /\
            (forall e, In e news -> e_term e <= d_term s2)).
  { intros dup news Hes Hnn. assert (Hl : In (last_of news) news) by (apply last_in; exact Hnn).
    split; [|split].
    - destruct (mchain_in C _ _ Hm (last_of news)) as [p Hp]; [rewrite Hes; apply in_app_iff; auto|].
      destruct (co_idx C HC _ _ Hp). lia.
    - apply Hterm. rewrite Hes. apply in_app_iff. auto.
    - intros e He. apply Hterm. rewrite Hes. apply in_app_iff. auto. }
  destruct (scan_entries (d_log s2) (v_lastLogIdx s2) (aq_entries a)) as [news|c news| |]; try exact Hsame.
  - (* new entries beyond the cached last index *)
    destruct Hs as (_ & dup & Hes & Hnn & Hdup & Hnew).
    destruct (Hlastn dup news Hes Hnn) as (L1 & L2 & L3). rewrite Hes in Hm.
    destruct (final_log_good C s2 a dup news (d_log s2) HC Hn Hpc Hm Hnn Hdup L3) as [G1 G2].
    { intros i x Hl. split; [exact Hl|]. pose proof (nlog_up_bound C s2 i x HC Hn Hl) as Hb.
      destruct news as [|n0 nr]; [congruence|]. simpl. specialize (Hnew n0 (or_introl eq_refl)). lia. }
    apply (store_new_good C P fr (aq_commit a) s2 tr1 s2 tr1 fs1 news []); auto.
    + rewrite app_nil_r. reflexivity.
    + apply ext_good_nil, nlog_img_good, nlog_up_img, Hn.
  - (* conflict at c *)
    destruct Hs as (_ & dup & Hes & Hnn & Hc0 & Hcl & Hdup).
    destruct (Hlastn dup news Hes Hnn) as (L1 & L2 & L3). rewrite Hes in Hm.
    unfold do_delete. destruct (next_fail fs1) as [f fs3]. destruct f; cbn [negb].
    + exists []. split; [rewrite tlf_app; simpl; rewrite !app_nil_r; reflexivity|].
      split; [apply ext_good_nil, nlog_img_good, nlog_up_img, Hn|]. split; [exact Hn|reflexivity].
    + set (m3 := log_delete (d_log s2) c (v_lastLogIdx s2)).
      assert (Hsub : log_sub m3 (d_log s2)).
      { intros i x Hl. unfold m3 in Hl. rewrite log_delete_lookup in Hl.
        destruct ((c <=? i) && (i <=? v_lastLogIdx s2)); [discriminate|exact Hl]. }
      destruct (final_log_good C s2 a dup news m3 HC Hn Hpc Hm Hnn Hdup L3) as [G1 G2].
      { intros i x Hl. split; [apply Hsub, Hl|]. pose proof (nlog_up_bound C s2 i x HC Hn (Hsub i x Hl)) as Hb.
        unfold m3 in Hl. rewrite log_delete_lookup in Hl. rewrite <- Hc0.
        destruct (N.leb_spec c i); [|lia]. destruct (N.leb_spec i (v_lastLogIdx s2)); [discriminate|lia]. }
      (* the cache moves to the entry before the truncation point: the last duplicate, or the
         request's previous entry; everything that survives the truncation is below it *)
      destruct (conflict_pred a news) as [pi pt] eqn:Ecp.
      rewrite (conflict_pred_app a dup news Hes) in Ecp.
      assert (Hpk : pt <= d_term s2 /\ (pi = 0 -> pt = 0) /\ log_below C m3 (pi, pt)).
      { destruct news as [|n0 nr]; [congruence|]. simpl hd in Hc0.
        destruct (pred_key_good C s2 a dup n0 nr HC Hn Hpc Hm Hdup) as [Hq0 Hqb].
        rewrite Ecp in Hq0, Hqb.
        destruct (co_idx C HC n0 _ Hq0) as [_ Q1]. simpl snd in Q1.
        pose proof (L3 n0 (or_introl eq_refl)) as Q2.
        split; [lia|]. split.
        - intros E0. pose proof (co_zero C HC n0 _ Hq0 E0) as Q3. inversion Q3. reflexivity.
        - intros i x Hl. apply (Hqb i x (Hsub i x Hl)).
          pose proof (nlog_up_bound C s2 i x HC Hn (Hsub i x Hl)) as Hb.
          unfold m3 in Hl. rewrite log_delete_lookup in Hl. rewrite <- Hc0.
          destruct (N.leb_spec c i); [|lia]. destruct (N.leb_spec i (v_lastLogIdx s2)); [discriminate|lia]. }
      destruct Hpk as (P1 & P2 & P3).
      match goal with |- cont_good _ _ _ (store_new _ _ _ ?S3 _ _ _) => set (s3 := S3) end.
      assert (D3 : d_log s3 = m3) by (unfold s3; destruct (c <=? v_latestIdx _); reflexivity).
      assert (K3 : d_snaps s3 = d_snaps s2 /\ v_lastLogIdx s3 = pi /\ v_lastLogTerm s3 = pt /\
                   v_lastSnapIdx s3 = v_lastSnapIdx s2 /\ d_term s3 = d_term s2).
      { unfold s3; destruct (c <=? v_latestIdx _); repeat split. }
      destruct K3 as (K1 & K2 & K3 & K4 & K5).
      assert (Hn3 : nlog_up C s3).
      { destruct Hn as (A & B & D & _ & _ & _). unfold nlog_up. rewrite D3, K1, K2, K3, K4, K5.
        split; [exact A|]. split; [eapply log_in_sub; [exact Hsub|apply N.le_refl|exact B]|].
        split; [exact D|]. split; [exact P1|]. split; [exact P2|exact P3]. }
      apply (store_new_good C P fr (aq_commit a) s2 tr1 s3 _ fs3 news [EDelete c (v_lastLogIdx s2) true]); auto.
      * rewrite tlf_app. reflexivity.
      * apply (ext_good_snoc C s2 [] (EDelete c (v_lastLogIdx s2) true)).
        -- apply ext_good_nil, nlog_img_good, nlog_up_img, Hn.
        -- simpl. fold m3. destruct (nlog_up_img C s3 Hn3) as (_ & A & B). rewrite D3, K5 in A. rewrite D3 in B.
           split; [exact A|exact B].
      * simpl. unfold tlp. rewrite D3, K5. reflexivity.
      * rewrite D3. exact G1.
      * rewrite D3. exact G2.
Qed.

(* ---------------------------------------------------------------- commit index, the body, the handler *)
Definition out_good {R} (C : chain) (s2 : nstate) (tr1 : list ev) (o : outcome R) : Prop :=
  exists ext, tlf (trace_of o) = tlf tr1 ++ ext /\ ext_good C s2 ext /\
    match o with Done s' _ _ _ => nlog_up C s' /\ d_term s' = d_term s2 | Panic _ _ => True end.

Lemma process_logs_keep s idx s' tr : process_logs s idx = Some (s', tr) ->
  lkeep s' s /\ d_term s' = d_term s /\ tlf tr = [].
Proof.
  unfold process_logs. destruct (idx <=? v_applied s).
  - intros H; inversion H; subst. repeat split.
  - destruct (collect_logs _ _ _) as [es|]; [|discriminate].
    intros H; inversion H; subst. split; [repeat split|]. split; [reflexivity|apply tlf_fsm_events].
Qed.

Lemma ae_commit_good C okr s2 tr1 s8 tr8 fs8 a :
  ent_good C s2 tr1 s8 tr8 -> out_good C s2 tr1 (ae_commit okr s8 tr8 fs8 a).
Proof.
  intros (ext & E1 & E2 & E3 & E4). unfold ae_commit.
  destruct ((0 <? aq_commit a) && (v_commit s8 <? aq_commit a)).
  2:{ exists ext. simpl. auto. }
  cbv zeta. destruct (v_commit s8 <? _).
  2:{ exists ext. simpl. auto. }
  match goal with |- context [process_logs ?S ?I] => destruct (process_logs S I) as [[s11 tra]|] eqn:EP end.
  - apply process_logs_keep in EP. destruct EP as (K & Kt & Ktr).
    exists ext. simpl. split; [rewrite tlf_app, Ktr, app_nil_r; exact E1|]. split; [exact E2|].
    assert (K10 : lkeep s11 s8 /\ d_term s11 = d_term s8).
    { split; [eapply lkeep_trans; [exact K|]|rewrite Kt]; destruct (v_latestIdx _ <=? _); repeat split. }
    destruct K10 as [K10 Kt10]. split; [eapply nlog_up_keep; [exact E3|exact K10|lia]|congruence].
  - exists ext. simpl. auto.
Qed.

Lemma ae_body_good C P s0 s2 rt tr1 fs1 a :
  chain_ok C -> nlog_up C s2 ->
  mchain C (aq_prevIdx a, aq_prevTerm a) (aq_entries a) ->
  (forall e, In e (aq_entries a) -> e_term e <= d_term s2) ->
  out_good C s2 tr1 (ae_body P s0 s2 rt tr1 fs1 a).
Proof.
  intros HC Hn Hm Hterm. unfold ae_body.
  assert (Hsame : forall (r : aresp) fs, out_good C s2 tr1 (Done s2 r tr1 fs)).
  { intros r fs. destruct (ent_good_same C s2 tr1 Hn) as (ext & E1 & E2 & E3 & E4). exists ext. simpl. auto. }
  destruct (prev_check s2 a) as [[|]|] eqn:Epc; try apply Hsame.
  pose proof (ae_entries_good C P (mkAResp rt (last_index s0) false false false) s2 tr1 fs1 a HC Hn Epc Hm Hterm) as Hae.
  destruct (ae_entries P _ s2 tr1 fs1 a) as [[[[s8 tr8] fs8]|]|[[[resp s'] tr'] fs']]; simpl in Hae.
  - apply ae_commit_good. exact Hae.
  - exists []. simpl. split; [rewrite app_nil_r; reflexivity|].
    split; [apply ext_good_nil, nlog_img_good, nlog_up_img, Hn|exact I].
  - destruct Hae as (ext & E1 & E2 & E3 & E4). exists ext. simpl. auto.
Qed.

(* prefixes of (term write :: extension) *)
Lemma prefixes_after_term C s t m2 ext :
  good_tl C (tlp s) -> (forall j, good_tl C (fold_left tl_apply (firstn j ext) (t, m2))) -> m2 = d_log s ->
  forall j, good_tl C (fold_left tl_apply (firstn j (ESetTerm t true :: ext)) (tlp s)).
Proof.
  intros H0 H Hm j. destruct j as [|j]; [exact H0|]. simpl. rewrite <- Hm. apply H.
Qed.

Theorem append_good C P s fs a :
  chain_ok C -> wfu s -> nlog_up C s ->
  mchain C (aq_prevIdx a, aq_prevTerm a) (aq_entries a) ->
  (forall e, In e (aq_entries a) -> e_term e <= aq_term a) ->
  prefixes_good C s (trace_of (append_entries P s fs a)) /\
  (forall s' r tr fs', append_entries P s fs a = Done s' r tr fs' -> nlog_up C s').
Proof.
  intros HC [Hwd Hvt] Hn Hm Hterm.
  pose proof (nlog_img_good C s (nlog_up_img C s Hn)) as Hg0.
  unfold append_entries. destruct (N.ltb_spec (aq_term a) (v_term s)) as [Hlt|Hge].
  { split; [intros j; destruct j; exact Hg0|]. intros s' r tr fs' H; inversion H; subst. exact Hn. }
  set (bump := (v_term s <? aq_term a) || (negb (v_role s =? Follower) && negb (v_transfer s))).
  destruct bump eqn:Eb.
  - unfold do_set_term. destruct (next_fail fs) as [f fs1]. destruct f.
    { split; [intros j; destruct j as [|[|j]]; exact Hg0|]. intros s' r tr fs' H; discriminate. }
    set (s2 := set_leader (set_vol_term (set_durable_term (set_state s Follower) (aq_term a)) (aq_term a)) (aq_addr a) (aq_id a)).
    assert (Hn2 : nlog_up C s2) by (eapply nlog_up_keep; [exact Hn|repeat split|simpl; lia]).
    pose proof (ae_body_good C P s s2 (aq_term a) [ESetTerm (aq_term a) true] fs1 a HC Hn2 Hm Hterm) as Hb.
    destruct Hb as (ext & E1 & E2 & E3). change (tlf [ESetTerm (aq_term a) true]) with [ESetTerm (aq_term a) true] in E1.
    split.
    + intros j. rewrite E1. apply (prefixes_after_term C s (aq_term a) (d_log s2) ext Hg0 E2). reflexivity.
    + intros s' r tr fs' H. rewrite H in E3. apply E3.
  - assert (Hle : aq_term a <= d_term s).
    { unfold bump in Eb. apply orb_false_elim in Eb. destruct Eb as [Eb _]. apply N.ltb_ge in Eb. lia. }
    set (s2 := set_leader s (aq_addr a) (aq_id a)).
    assert (Hn2 : nlog_up C s2) by (eapply nlog_up_keep; [exact Hn|repeat split|simpl; lia]).
    assert (Hterm2 : forall e, In e (aq_entries a) -> e_term e <= d_term s2).
    { intros e He. specialize (Hterm e He). simpl. lia. }
    pose proof (ae_body_good C P s s2 (v_term s) [] fs a HC Hn2 Hm Hterm2) as Hb.
    destruct Hb as (ext & E1 & E2 & E3). simpl in E1.
    split.
    + intros j. rewrite E1. apply E2.
    + intros s' r tr fs' H. rewrite H in E3. apply E3.
Qed.

(* a server that is still Leader after the handler either rejected the request (stale term) or
   took a request of its own term *)
Lemma append_entries_role P s fs a s' r tr fs' : append_entries P s fs a = Done s' r tr fs' ->
  v_role s' = Leader -> s' = s \/ (v_role s = Leader /\ aq_term a = v_term s).
Proof.
  unfold append_entries. destruct (N.ltb_spec (aq_term a) (v_term s)) as [Hlt|Hge].
  { intros H; inversion H; subst. left. reflexivity. }
  set (bump := (v_term s <? aq_term a) || (negb (v_role s =? Follower) && negb (v_transfer s))).
  destruct bump eqn:Eb.
  - destruct (do_set_term (set_state s Follower) fs (aq_term a)) as [[s1 fs1]|] eqn:ET; [|discriminate].
    apply do_set_term_same in ET. destruct ET as (_ & R1 & _). simpl in R1.
    intros H. pose proof (ae_body_same P s (set_leader s1 (aq_addr a) (aq_id a)) (aq_term a) [ESetTerm (aq_term a) true] fs1 a) as Hb.
    rewrite H in Hb. simpl in Hb. destruct Hb as (_ & B & _). simpl in B. intros Hr. rewrite B, R1 in Hr. discriminate.
  - intros H. pose proof (ae_body_same P s (set_leader s (aq_addr a) (aq_id a)) (v_term s) [] fs a) as Hb.
    rewrite H in Hb. simpl in Hb. destruct Hb as (_ & B & _). simpl in B. intros Hr. right.
    split; [congruence|]. unfold bump in Eb. apply orb_false_elim in Eb. destruct Eb as [Eb _]. apply N.ltb_ge in Eb. lia.
Qed.

Theorem append_step C P s a cut fs r' ob out :
  chain_ok C -> wfu s -> nlog_up C s ->
  mchain C (aq_prevIdx a, aq_prevTerm a) (aq_entries a) ->
  (forall e, In e (aq_entries a) -> e_term e <= aq_term a) ->
  (v_role s = Leader -> aq_term a <> v_term s) ->
  step_full P (Up s) (NAppend a) cut fs = (r', ob, out) -> step_post C (Up s) r'.
Proof.
  intros HC Hw Hn Hm Hterm Hlead HF. unfold step_full in HF.
  destruct (append_good C P s fs a HC Hw Hn Hm Hterm) as [H1 H2].
  assert (Hsn : d_snaps s = []) by apply Hn.
  destruct (finish_nlog C P _ _ s cut _ r' ob out HC Hsn H1 H2 HF) as [A B].
  split; [exact A|]. intros s' Hs' Hr. destruct (B s' Hs' Hr) as (rr & tr & fs' & Ho).
  destruct (append_entries_role P s fs a s' rr tr fs' Ho Hr) as [->|[Hl Ht]].
  - exists s. auto.
  - exfalso. apply (Hlead Hl Ht).
Qed.
