(* ClusterCommitSnapAE4.v — what the store part of appendEntries does to the log, index by index
   (no assumption on holes): entries at or below the previous index are untouched, entries change
   only at or above the first conflict, new entries come from the request. *)
From Coq Require Import List NArith Bool Lia.
From stdpp Require Import gmap.
From RaftModel Require Import Base Config Compaction Node NodeCodec.
From RaftProofs Require Import AppendProofs RecoverProofs ConvergeFollower
  ClusterLogSpec ClusterLogChain ClusterLogNode ClusterLogCut ClusterLogAppend ClusterCommitChain
  ClusterCommitAE ClusterCommitAE2 ClusterCommitInv ClusterCommitSnapLog ClusterCommitSnapAE ClusterCommitSnapAE2.
Open Scope N_scope.

Theorem ae_logS_fail m top a m' k' : (forall i, top < i -> m !! i = None) -> contig (aq_prevIdx a) (aq_entries a) ->
  ae_logS m top a m' k' ->
  log_ok_fail (aq_prevIdx a) (aq_entries a) m m' /\
  (forall i x, m' !! i = Some x -> m !! i = Some x \/ In x (aq_entries a)).
Proof.
  intros Hcache Hc (dup & news & Hes & Hnn & Hdup & Hcase).
  rewrite Hes in Hc. destruct (contig_app _ _ _ Hc) as (_ & Hcn & _).
  set (q := aq_prevIdx a + N.of_nat (length dup)) in *.
  assert (Hhd : e_idx (hd (mkE 0 0 0 0) news) = q + 1) by (apply contig_hd; assumption).
  assert (Hsrc : forall mm i x, log_store mm news !! i = Some x -> mm !! i = Some x \/ In x (aq_entries a)).
  { intros mm i x H. destruct (store_contig_src q news mm i x Hcn H) as [A|A]; [right; rewrite Hes; apply in_app_iff; auto|left; exact A]. }
  destruct Hcase as [(-> & _ & Hnew)|(c & Hfc & Hc0 & Hcl & [(-> & _)|(-> & _)])].
  - split; [|intros i x Hx; apply (Hsrc m i x Hx)]. split.
    + intros i Hi. destruct (store_contig_lookup q news m i Hcn) as [_ E]. apply E. lia.
    + intros i x Hx Hne. exfalso. apply Hne. destruct (store_contig_lookup q news m i Hcn) as [_ E]. rewrite E; [exact Hx|].
      intros Hr. destruct (contig_nth q news Hcn i Hr) as (e & He & Hei). pose proof (Hnew e He).
      rewrite (Hcache i) in Hx by lia. discriminate.
  - split.
    + split.
      * intros i Hi. rewrite log_delete_lookup. destruct (N.leb_spec c i); [lia|reflexivity].
      * intros i x Hx Hne. exists c. split; [exact Hfc|]. rewrite log_delete_lookup in Hne.
        destruct (N.leb_spec c i); [assumption|]. simpl in Hne. contradiction.
    + intros i x Hx. left. apply (log_delete_sub _ _ _ i x Hx).
  - split.
    + split.
      * intros i Hi. destruct (store_contig_lookup q news (log_delete m c top) i Hcn) as [_ E]. rewrite E by lia.
        rewrite log_delete_lookup. destruct (N.leb_spec c i); [lia|reflexivity].
      * intros i x Hx Hne. exists c. split; [exact Hfc|].
        destruct (N.le_gt_cases c i) as [|Hlt]; [assumption|]. exfalso. apply Hne.
        destruct (store_contig_lookup q news (log_delete m c top) i Hcn) as [_ E]. rewrite E by lia.
        rewrite log_delete_lookup. destruct (N.leb_spec c i); [lia|exact Hx].
    + intros i x Hx. destruct (Hsrc _ i x Hx) as [H|H]; [left|right; exact H]. apply (log_delete_sub _ _ _ i x H).
Qed.
