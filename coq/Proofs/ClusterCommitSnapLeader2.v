(* ClusterCommitSnapLeader2.v — the commitCh case of leaderLoop and the FSM: lastApplied never moves
   back, and the (index, term) the FSM goroutine reports moves to an entry that came from the
   in-flight list or from the log, between the old and the new lastApplied. *)
From Coq Require Import List NArith Bool Lia.
From stdpp Require Import gmap.
From RaftModel Require Import Base Config Compaction Commitment Node NodeCodec Leader Replicate.
From RaftProofs Require Import VoteProofs AppendProofs RecoverProofs ClusterLogSpec ClusterLogChain ClusterLogNode ClusterLogVote ClusterLogLeader
  ClusterLogSnapBoot ClusterCommitChain ClusterCommitLog ClusterCommitInv ClusterCommitAcks ClusterCommitSnapLog.
Open Scope N_scope.

Lemma ready_prefix_in infl ci : forall x, (In x (fst (ready_prefix infl ci)) -> In x infl) /\ (In x (snd (ready_prefix infl ci)) -> In x infl).
Proof.
  induction infl as [|y r IH]; intros x; simpl; [tauto|].
  destruct (ci <? e_idx (fst y)); [simpl; tauto|].
  destruct (ready_prefix r ci) as [a b]. simpl in *. destruct (IH x) as [I1 I2]. split; intros H; [destruct H as [->|H]; auto|auto].
Qed.

(* where the collected entries come from *)
Lemma collect_futures_src m infl : forall n idx items, collect_with_futures m infl idx n = Some items ->
  forall x, In x items -> (exists fid, In (fst x, fid) infl) \/ m !! e_idx (fst x) = Some (fst x) \/ exists i, m !! i = Some (fst x).
Proof.
  induction n as [|n IH]; intros idx items H x Hx; simpl in H.
  - inversion H; subst. contradiction.
  - set (item := match lookup_future infl (idx + 1) with
                 | Some (e, fid) => Some (e, Some fid)
                 | None => match m !! (idx + 1) with Some e => Some (e, None) | None => None end
                 end) in *.
    assert (Hitem : forall e f, item = Some (e, f) -> (exists fid, In (e, fid) infl) \/ exists i, m !! i = Some e).
    { intros e f E. unfold item in E. destruct (lookup_future infl (idx + 1)) as [[e0 fid]|] eqn:El.
      - inversion E; subst. unfold lookup_future in El. apply find_some in El. destruct El as [El _]. apply in_rev in El. left. eauto.
      - destruct (m !! (idx + 1)) as [e0|] eqn:Em; [|discriminate]. inversion E; subst. right. eauto. }
    destruct item as [[e f]|]; [|discriminate].
    destruct (prepare_kind (e_ty e) =? 3); [discriminate|].
    destruct (collect_with_futures m infl (idx + 1) n) as [r|] eqn:Er; [|discriminate]. inversion H; subst items.
    destruct Hx as [<-|Hx]; [|apply (IH _ _ Er x Hx)].
    simpl. destruct (Hitem e f eq_refl) as [H1|H1]; [left; exact H1|right; right; exact H1].
Qed.

Lemma process_logs_f_fsm s infl idx s' tr res : keys_ok (d_log s) -> process_logs_f s infl idx = Some (s', tr, res) ->
  (v_applied s' = v_applied s /\ v_fsmLast s' = v_fsmLast s) \/
  (v_applied s < idx /\ v_applied s' = idx /\
   (v_fsmLast s' = v_fsmLast s \/
    exists e, v_applied s < e_idx e <= idx /\ v_fsmLast s' = key e /\
      ((exists fid, In (e, fid) infl) \/ exists i, d_log s !! i = Some e))).
Proof.
  intros Hk. unfold process_logs_f. destruct (N.leb_spec idx (v_applied s)) as [Hle|Hlt].
  - intros H; inversion H; subst. left. auto.
  - destruct (collect_with_futures (d_log s) infl (v_applied s) (N.to_nat (idx - v_applied s))) as [items|] eqn:E; [|discriminate].
    intros H; inversion H; subst s' tr res. clear H. right.
    split; [exact Hlt|]. split; [reflexivity|]. cbn [v_fsmLast set_applied_fsm].
    destruct (last_opt (map fst (filter (fun x => prepare_kind (e_ty (fst x)) =? 1) items))) as [e|] eqn:EL; [right|left; reflexivity].
    apply last_opt_in in EL. apply in_map_iff in EL. destruct EL as (x & Ex & Hx). apply filter_In in Hx. destruct Hx as [Hx _]. subst e.
    exists (fst x). pose proof (collect_futures_idx _ infl Hk _ _ _ E x Hx) as Hi.
    split; [lia|]. split; [reflexivity|].
    destruct (collect_futures_src _ _ _ _ _ E x Hx) as [H1|[H1|H1]]; [left; exact H1|right; eauto|right; exact H1].
Qed.

Lemma leader_commit_fsm s cm infl ls2 tr res : keys_ok (d_log s) -> leader_commit (mkLS s cm infl) = Some (ls2, tr, res) ->
  (forall x, In x (l_inflight ls2) -> In x infl) /\
  ((v_applied (l_node ls2) = v_applied s /\ v_fsmLast (l_node ls2) = v_fsmLast s) \/
   (v_applied s < v_applied (l_node ls2) /\ v_applied (l_node ls2) <= cm_commit cm /\
    (v_fsmLast (l_node ls2) = v_fsmLast s \/
     exists e, v_applied s < e_idx e <= v_applied (l_node ls2) /\ v_fsmLast (l_node ls2) = key e /\
       ((exists fid, In (e, fid) infl) \/ exists i, d_log s !! i = Some e)))).
Proof.
  intros Hk. unfold leader_commit. cbn [l_node l_cm l_inflight]. set (ci := cm_commit cm).
  set (s1 := set_commit s ci).
  set (s2 := if (v_commit s <? v_latestIdx s1) && (v_latestIdx s1 <=? ci) then set_committed s1 (v_latest s1) (v_latestIdx s1) else s1).
  assert (K2 : d_log s2 = d_log s /\ v_applied s2 = v_applied s /\ v_fsmLast s2 = v_fsmLast s).
  { unfold s2. destruct ((v_commit s <? v_latestIdx s1) && (v_latestIdx s1 <=? ci)); simpl; auto. }
  destruct K2 as (Kl & Ka & Kf).
  pose proof (ready_prefix_le infl ci) as Hrl. pose proof (ready_prefix_in infl ci) as Hin.
  destruct (ready_prefix infl ci) as [ready rest]. simpl in Hrl, Hin.
  destruct ready as [|r0 rr] eqn:Er.
  - intros H; inversion H; subst. cbn [l_node l_inflight]. split; [intros x Hx; apply (proj2 (Hin x)), Hx|left; auto].
  - rewrite <- Er in *.
    destruct (process_logs_f s2 ready _) as [[[s3 tr3] res3]|] eqn:EP; [|discriminate].
    intros H; inversion H; subst ls2 tr res. clear H. cbn [l_node l_inflight].
    split; [intros x Hx; apply (proj2 (Hin x)), Hx|].
    apply process_logs_f_fsm in EP; [|rewrite Kl; exact Hk]. rewrite Ka, Kf, Kl in EP.
    destruct EP as [E|(E1 & E2 & E3)]; [left; exact E|right].
    assert (Hl : In (last ready (mkE 0 0 0 0, 0)) ready) by (apply last_in; rewrite Er; discriminate).
    split; [lia|]. split; [rewrite E2; apply (Hrl _ Hl)|].
    destruct E3 as [E3|(e & H1 & H2 & H3)]; [left; exact E3|right]. exists e. rewrite E2. split; [exact H1|]. split; [exact H2|].
    destruct H3 as [(fid & H3)|H3]; [left; exists fid; apply (proj1 (Hin (e, fid))), H3|right; exact H3].
Qed.
