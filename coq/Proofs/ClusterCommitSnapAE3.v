(* ClusterCommitSnapAE3.v — every (term, log) pair the appendEntries handler passes through keeps the
   shape of Proofs/ClusterCommitSnapLog.v, provided the request lies on one branch with the server's
   snapshot boundary (the cluster-level proof gets that from Leader Completeness: the boundary is a
   committed key). *)
From Coq Require Import List NArith Bool Lia.
From stdpp Require Import gmap.
From RaftModel Require Import Base Config Compaction Node NodeCodec.
From RaftProofs Require Import AppendProofs RecoverProofs ConvergeFollower
  ClusterLogSpec ClusterLogChain ClusterLogNode ClusterLogCut ClusterLogAppend ClusterCommitChain
  ClusterCommitAE ClusterCommitAE2 ClusterCommitInv ClusterCommitSnapLog ClusterCommitSnapBoot ClusterCommitSnapAE
  ClusterCommitSnapAE2.
Open Scope N_scope.

Lemma last_of_app dup news : news <> [] -> last_of (dup ++ news) = last_of news.
Proof. intros Hnn. unfold last_of. induction dup as [|d r IH]; [reflexivity|]. simpl. destruct (r ++ news) eqn:E; [|exact IH].
  apply app_eq_nil in E. destruct E; contradiction. Qed.

Lemma first_conflict_witnessS m es c : first_conflict m es = Some c ->
  exists y z, In y es /\ e_idx y = c /\ m !! c = Some z /\ e_term y <> e_term z.
Proof.
  induction es as [|e r IH]; simpl; [discriminate|].
  destruct (m !! e_idx e) as [se|] eqn:E.
  - destruct (N.eqb_spec (e_term e) (e_term se)) as [Ht|Ht].
    + intros H. destruct (IH H) as (y & z & A & B). exists y, z. split; [right; exact A|exact B].
    + intros H. inversion H; subst c. exists e, se. auto.
  - intros H. destruct (IH H) as (y & z & A & B). exists y, z. split; [right; exact A|exact B].
Qed.

Section Reach.
  Variable C : chain.
  Hypothesis HC : chain_ok C.
  Hypothesis Hp : pclosed C.
  Variables (s : nstate) (a : areq).
  Hypothesis HS : zup C s.
  Hypothesis Hm : mchain C (aq_prevIdx a, aq_prevTerm a) (aq_entries a).
  Hypothesis Hterm : forall e, In e (aq_entries a) -> e_term e <= aq_term a.
  Hypothesis HT : d_term s <= aq_term a.
  Hypothesis Hpk : prev_ok s a.
  (* the request and the snapshot boundary lie on one branch *)
  Hypothesis Hcmp : forall k, anc C k (key (last_of (aq_entries a))) ->
    (fst k <= v_lastSnapIdx s -> anc C k (bk s)) /\ (v_lastSnapIdx s <= fst k -> anc C (bk s) k).

  Variables dup news : list entry.
  Hypothesis Hes : aq_entries a = dup ++ news.
  Hypothesis Hnn : news <> [].
  Hypothesis Hdup : forall e, In e dup -> exists se, d_log s !! e_idx e = Some se /\ e_term se = e_term e.

  Let qk := pred_key a dup.

  Lemma qk_chain : mchain C qk news.
  Proof. rewrite Hes in Hm. apply (mchain_app C _ dup news Hm). Qed.

  Lemma held_onb i x : d_log s !! i = Some x -> onb C (d_term s) (topk s) (bk s) (key x) /\ fst (key x) <= v_lastLogIdx s.
  Proof.
    intros Hx. destruct (log_key_root C _ _ _ _ _ HS i x Hx) as [R I]. destruct (zs_in _ _ _ _ _ _ HS i x Hx) as (_ & _ & Ht).
    split; [split; [exact R|split; [exact Ht|right; apply (zshape_log_lk C _ _ _ _ _ HS i x Hx)]]|].
    unfold key. simpl. rewrite I. apply (zshape_bound C HC _ _ _ _ _ HS i x Hx).
  Qed.

  Lemma qk_onb : onb C (d_term s) (topk s) (bk s) qk /\ (fst qk <= v_lastLogIdx s \/ qk = bk s).
  Proof.
    assert (Hd : dup = [] \/ dup <> []) by (clear; destruct dup; [left; reflexivity|right; discriminate]).
    destruct Hd as [Ed|Ed].
    - assert (Eq : qk = (aq_prevIdx a, aq_prevTerm a)) by (unfold qk, pred_key; rewrite Ed; reflexivity).
      rewrite Eq. destruct Hpk as [E0|[El|[Eb|(pe & Hpe & Ept)]]].
      + assert (E : (aq_prevIdx a, aq_prevTerm a) = (0, 0)).
        { pose proof qk_chain as Hq. rewrite Eq in Hq. destruct news as [|n0 nr]; [congruence|]. destruct Hq as [Hq _].
          apply (co_zero C HC n0 _ Hq). exact E0. }
        rewrite E. split; [split; [left; reflexivity|split; [simpl; lia|left; reflexivity]]|left; simpl; lia].
      + rewrite El, last_entry_lk. split.
        * split; [apply (zshape_lk_root C _ _ _ _ _ HS)|]. split; [|right; apply anc_refl].
          unfold lk. destruct (fst (bk s) <=? fst (topk s)); [apply (zs_tkt _ _ _ _ _ _ HS)|apply (zs_bt _ _ _ _ _ _ HS)].
        * unfold lk. destruct (N.leb_spec (fst (bk s)) (fst (topk s))); [left; simpl; lia|right; reflexivity].
      + rewrite Eb. split; [|right; reflexivity].
        split; [apply (zs_b _ _ _ _ _ _ HS)|]. split; [apply (zs_bt _ _ _ _ _ _ HS)|right; apply (zshape_b_lk C _ _ _ _ _ HS)].
      + destruct (held_onb _ pe Hpe) as [A B]. destruct (zs_in _ _ _ _ _ _ HS _ pe Hpe) as (I & _).
        assert (E : (aq_prevIdx a, aq_prevTerm a) = key pe) by (unfold key; congruence).
        rewrite E. split; [exact A|left; exact B].
    - assert (Eq : qk = key (last dup (mkE 0 0 0 0))) by (unfold qk, pred_key; clear -Ed; destruct dup; [congruence|reflexivity]).
      assert (Hl : In (last dup (mkE 0 0 0 0)) dup) by (apply last_in; exact Ed).
      destruct (Hdup _ Hl) as (se & Hse & Et). destruct (held_onb _ se Hse) as [A B].
      destruct (zs_in _ _ _ _ _ _ HS _ se Hse) as (I & _).
      assert (E : key (last dup (mkE 0 0 0 0)) = key se) by (unfold key; congruence).
      rewrite Eq, E. split; [exact A|left; exact B].
  Qed.

  Lemma news_hd_idx : e_idx (hd (mkE 0 0 0 0) news) = fst qk + 1.
  Proof. apply contig_hd; [apply (mchain_contig C qk news HC qk_chain)|exact Hnn]. Qed.

  Lemma kL_cmp : (fst (key (last_of news)) <= fst (bk s) -> anc C (key (last_of news)) (bk s)) /\
                 (fst (bk s) <= fst (key (last_of news)) -> anc C (bk s) (key (last_of news))).
  Proof. rewrite bk_fst, <- (last_of_app dup news Hnn), <- Hes. apply Hcmp. apply anc_refl. Qed.
End Reach.

Section Reach2.
  Variable C : chain.
  Hypothesis HC : chain_ok C.
  Hypothesis Hp : pclosed C.
  Variables (s : nstate) (a : areq).
  Hypothesis HS : zup C s.
  Hypothesis Hm : mchain C (aq_prevIdx a, aq_prevTerm a) (aq_entries a).
  Hypothesis Hterm : forall e, In e (aq_entries a) -> e_term e <= aq_term a.
  Hypothesis HT : d_term s <= aq_term a.
  Hypothesis Hpk : prev_ok s a.
  Hypothesis Hcmp : forall k, anc C k (key (last_of (aq_entries a))) ->
    (fst k <= v_lastSnapIdx s -> anc C k (bk s)) /\ (v_lastSnapIdx s <= fst k -> anc C (bk s) k).

  (* two keys of the server's branch with one index are one key *)
  Lemma onb_same qk : onb C (d_term s) (topk s) (bk s) qk -> fst qk = v_lastLogIdx s -> qk = topk s.
  Proof.
    intros (Q1 & _ & Q3) E. apply (anc_idx_eq C qk (topk s) HC); [|exact E].
    apply (cmp_root C (lk (topk s) (bk s))); auto; [apply (zs_tk _ _ _ _ _ _ HS)|right; apply (zshape_tk_lk C _ _ _ _ _ HS)|simpl; lia].
  Qed.

  Lemma onb_same_b qk : onb C (d_term s) (topk s) (bk s) qk -> fst qk = v_lastSnapIdx s -> qk = bk s.
  Proof.
    intros (Q1 & _ & Q3) E. pose proof (bk_fst s) as Hbf. apply (anc_idx_eq C qk (bk s) HC); [|rewrite Hbf; exact E].
    apply (cmp_root C (lk (topk s) (bk s))); auto; [apply (zs_b _ _ _ _ _ _ HS)|right; apply (zshape_b_lk C _ _ _ _ _ HS)|lia].
  Qed.

  Theorem ae_logS_zshape m' k' : ae_logS (d_log s) (v_lastLogIdx s) a m' k' ->
    zshape C (aq_term a) m' (d_snaps s) k' (bk s).
  Proof.
    intros (dup & news & Hes & Hnn & Hdup & Hcase).
    destruct (qk_onb C HC s a HS Hm HT Hpk Hcmp dup news Hes Hnn Hdup) as [Hq Hq4].
    pose proof (qk_chain C a Hm dup news Hes) as Hqc.
    pose proof (news_hd_idx C HC a Hm dup news Hes Hnn) as Hhd.
    assert (Hcmp' : (fst (key (last_of news)) <= fst (bk s) -> anc C (key (last_of news)) (bk s)) /\
                    (fst (bk s) <= fst (key (last_of news)) -> anc C (bk s) (key (last_of news)))).
    { rewrite bk_fst, <- (last_of_app dup news Hnn), <- Hes. apply Hcmp. apply anc_refl. }
    destruct Hcmp' as [Hle Hge]. pose proof (bk_fst s) as Hbf.
    assert (Hnt : forall e, In e news -> e_term e <= aq_term a).
    { intros e He. apply Hterm. rewrite Hes. apply in_app_iff. auto. }
    set (qk := pred_key a dup) in *.
    destruct Hcase as [(-> & -> & Hnew)|(c & Hfc & Hc0 & Hcl & Hcase)].
    - (* the new entries lie beyond the cached last index *)
      assert (Hge1 : v_lastLogIdx s <= fst qk).
      { assert (Hin : In (hd (mkE 0 0 0 0) news) news) by (destruct news; [congruence|left; reflexivity]).
        pose proof (Hnew _ Hin). lia. }
      apply (zshape_store C HC (d_term s) (d_log s) (d_snaps s) (topk s) (bk s) HS (aq_term a) news qk HT Hnn Hqc Hnt); [|exact Hle|exact Hge].
      destruct Hq4 as [Hq4|Hq4].
      + left. apply (onb_same qk Hq). lia.
      + destruct (N.eq_dec (fst qk) (v_lastLogIdx s)) as [E|Hne]; [left; apply (onb_same qk Hq E)|right].
        split; [exact Hq4|]. rewrite <- Hq4. simpl. lia.
    - (* the first new entry conflicts at c *)
      assert (Ec : c = fst qk + 1) by congruence.
      assert (Hnc : fst (bk s) <= fst qk).
      { destruct (N.le_gt_cases (fst (bk s)) (fst qk)) as [|Hgt]; [assumption|exfalso].
        destruct (first_conflict_witnessS _ _ _ Hfc) as (y & z & Hy & Hyi & Hz & Hne).
        destruct (zshape_log_b C HC _ _ _ _ _ HS c z Hz) as [Hzb _].
        destruct (zs_in _ _ _ _ _ _ HS c z Hz) as (Iz & _).
        assert (Hyb : anc C (key y) (bk s)).
        { apply Hcmp; [apply (mchain_last C _ _ Hm y Hy)|]. unfold key. simpl. simpl in Hgt. lia. }
        assert (E : key z = key y).
        { apply (anc_unique C (key z) (key y) (bk s) HC); [apply Hzb; simpl in *; lia|exact Hyb|unfold key; simpl; lia]. }
        apply Hne. unfold key in E. congruence. }
      assert (Hlt : fst qk < fst (topk s)) by (simpl; lia).
      pose proof (zshape_delete C HC Hp _ _ _ _ _ HS qk Hq Hnc Hlt) as HD. rewrite <- Ec in HD. change (fst (topk s)) with (v_lastLogIdx s) in HD.
      destruct Hcase as [(-> & ->)|(-> & ->)].
      + rewrite (conflict_pred_app a dup news Hes). fold qk. eapply zshape_mono; [apply incl_refl|exact HT|exact HD].
      + apply (zshape_store C HC (d_term s) _ (d_snaps s) qk (bk s) HD (aq_term a) news qk HT Hnn Hqc Hnt); [left; reflexivity|exact Hle|exact Hge].
  Qed.

End Reach2.

(* every (term, log) pair the handler reaches, with the cached key that goes with it *)
Theorem ae_reachS_zshape C s a d k : chain_ok C -> pclosed C -> zup C s ->
  mchain C (aq_prevIdx a, aq_prevTerm a) (aq_entries a) -> (forall e, In e (aq_entries a) -> e_term e <= aq_term a) ->
  (d_term s <= aq_term a -> forall k, anc C k (key (last_of (aq_entries a))) ->
     (fst k <= v_lastSnapIdx s -> anc C k (bk s)) /\ (v_lastSnapIdx s <= fst k -> anc C (bk s) k)) ->
  ae_reachS s a d k -> zshape C (fst d) (snd d) (d_snaps s) k (bk s).
Proof.
  intros HC Hp HS Hm Hterm Hcmp [[-> ->]|(HT & Ht & [[-> ->]|[Hpk Hlog]])].
  - exact HS.
  - rewrite Ht. eapply zshape_mono; [apply incl_refl|exact HT|exact HS].
  - rewrite Ht. apply (ae_logS_zshape C HC Hp s a HS Hm Hterm HT Hpk (Hcmp HT)), Hlog.
Qed.
