(* ClusterQuorumMonoStep.v — one step of the cluster (Model/ClusterCommit.v cstep) and the commit
   indexes: the case analysis behind commit_monotone_step_crash (Proofs/ClusterQuorumMonoSpec.v). *)
From Coq Require Import List NArith Bool Lia.
From stdpp Require Import gmap.
From RaftModel Require Import Base Config Compaction Commitment Node NodeCodec Candidate Leader Replicate Cluster ClusterLog ClusterCommit.
From RaftProofs Require Import ClusterProofs ClusterCommitSpec ClusterQuorumSpec ClusterQuorumMonoSpec ClusterQuorumMonoNode.
Open Scope N_scope.

(* ---------------------------------------------------------------- one server replaced *)
Lemma mono_same l n n' s s' : NoDup (map gn_id l) -> In n l -> In n' l -> gn_id n = gn_id n' ->
  gn_run n = Up s -> gn_run n' = Up s' -> v_commit s <= v_commit s'.
Proof.
  intros Hnd Hn Hn' Hid Hr Hr'. pose proof (nodup_id_eq l n n' Hnd Hn Hn' Hid) as E. subst n'.
  rewrite Hr in Hr'. inversion Hr'; subst. lia.
Qed.

Lemma mono_upd l i n0 nn (X : Prop) : NoDup (map gn_id l) -> find_node l i = Some n0 -> gn_id nn = i ->
  (forall s s', gn_run n0 = Up s -> gn_run nn = Up s' -> v_commit s <= v_commit s' \/ X) ->
  forall n n' s s', In n l -> In n' (upd_node l i nn) -> gn_id n = gn_id n' ->
    gn_run n = Up s -> gn_run n' = Up s' -> v_commit s <= v_commit s' \/ (gn_id n = i /\ X).
Proof.
  intros Hnd Hf Hid Hone n n' s s' Hn Hn' Hids Hr Hr'.
  destruct (find_node_in l i n0 Hf) as [Hin0 Hid0].
  destruct (upd_node_in l i nn n' Hn') as [[-> _]|[Hin' Hne]].
  - assert (E : n = n0) by (apply (nodup_id_eq l n n0 Hnd Hn Hin0); congruence). subst n.
    destruct (Hone s s' Hr Hr') as [H|H]; [left; exact H|right; split; [exact Hid0|exact H]].
  - left. apply (mono_same l n n' s s' Hnd Hn Hin' Hids Hr Hr').
Qed.

(* the common shape: the server i is replaced by one whose commit index is not lower *)
Lemma mono_upd_le l i n0 nn : NoDup (map gn_id l) -> find_node l i = Some n0 -> gn_id nn = i ->
  (forall s s', gn_run n0 = Up s -> gn_run nn = Up s' -> v_commit s <= v_commit s') ->
  forall n n' s s', In n l -> In n' (upd_node l i nn) -> gn_id n = gn_id n' ->
    gn_run n = Up s -> gn_run n' = Up s' -> v_commit s <= v_commit s'.
Proof.
  intros Hnd Hf Hid Hone n n' s s' Hn Hn' Hids Hr Hr'.
  destruct (mono_upd l i n0 nn False Hnd Hf Hid) with (n := n) (n' := n') (s := s) (s' := s') as [H|[_ []]]; auto.
Qed.

Lemma find_node_id l i n : find_node l i = Some n -> gn_id n = i.
Proof. intros H. apply (find_node_in l i n H). Qed.

(* ---------------------------------------------------------------- a handler runs at server j *)
Section Handler.
  Variable g : cgstate.
  Hypothesis Hnd : NoDup (map gn_id (cnodes g)).

  Lemma handler_mono l j e cut fs nj r' ob out se' nx :
    handler_of g l = Some (j, e, cut, fs) -> find_node (cnodes g) j = Some nj ->
    match e with NInstall _ | NElect | NTimeoutDecision => False | _ => True end ->
    (e = NRestart -> is_restart_of l j) ->
    step_full (gn_P nj) (gn_run nj) e cut fs = (r', ob, out) ->
    forall n n' s s', In n (cnodes g) -> In n' (upd_node (cnodes g) j (mkGN (gn_P nj) r' se' nx)) -> gn_id n = gn_id n' ->
      gn_run n = Up s -> gn_run n' = Up s' ->
      v_commit s <= v_commit s' \/ is_restart_of l (gn_id n) \/ dies_in_handler g l (gn_id n).
  Proof.
    intros Hh Hf Hev Hre Hsf n n' s s' Hn Hn' Hids Hr Hr'.
    pose proof (find_node_id _ _ _ Hf) as Hidj.
    destruct (mono_upd (cnodes g) j nj (mkGN (gn_P nj) r' se' nx) (is_restart_of l j \/ dies_in_handler g l j) Hnd Hf Hidj)
      with (n := n) (n' := n') (s := s) (s' := s') as [H|[E H]]; auto.
    - intros s0 s1 Hr0 Hr1. cbn [gn_run] in Hr1. subst r'.
      destruct (nevent_eq_restart e) as [Er|Hnr]; [right; left; apply Hre, Er|].
      rewrite Hr0 in Hsf. destruct (step_full_commit _ _ _ _ _ _ _ _ Hnr Hev Hsf) as [Hle|Hl]; [left; exact Hle|right; right].
      subst ob. exists nj, e, cut, fs, (Up s1), out. rewrite Hr0. auto.
    - rewrite E. right. exact H.
  Qed.
End Handler.

(* ---------------------------------------------------------------- the election system *)
Definition step_concl (g : cgstate) (l : clabel) (nodes' : list gnode) : Prop :=
  forall n n' s s', In n (cnodes g) -> In n' nodes' -> gn_id n = gn_id n' ->
    gn_run n = Up s -> gn_run n' = Up s' ->
    v_commit s <= v_commit s' \/ is_restart_of l (gn_id n) \/ dies_in_handler g l (gn_id n).

Lemma step_concl_le g l nodes' :
  (forall n n' s s', In n (cnodes g) -> In n' nodes' -> gn_id n = gn_id n' ->
     gn_run n = Up s -> gn_run n' = Up s' -> v_commit s <= v_commit s') -> step_concl g l nodes'.
Proof. intros H n n' s s' Hn Hn' Hid Hr Hr'. left. apply (H n n' s s' Hn Hn' Hid Hr Hr'). Qed.

Section Elect.
  Variable g : cgstate.
  Hypothesis Hnd : NoDup (map gn_id (cnodes g)).
  Variable cfgs : list config.

  Lemma ginput_mono l j e cut fs G' : handler_of g l = Some (j, e, cut, fs) ->
    match e with NInstall _ => False | _ => True end -> (e = NRestart -> is_restart_of l j) ->
    gstep cfgs (lg_g (cg_l g)) (GInput j e cut fs) = Some G' -> step_concl g l (g_nodes G').
  Proof.
    intros Hh Hev Hre H. unfold gstep in H.
    assert (K : match find_node (g_nodes (lg_g (cg_l g))) j with
                | Some nj => let '(r', ob, _) := step_full (gn_P nj) (gn_run nj) e cut fs in
                             Some (mkG (upd_node (g_nodes (lg_g (cg_l g))) j (mkGN (gn_P nj) r' (keep_sess r' (gn_sess nj)) (gn_next nj)))
                                       (g_resps (lg_g (cg_l g))) (g_leaders (lg_g (cg_l g))) (grant_ghost j ob ++ g_grants (lg_g (cg_l g))))
                | None => None end = Some G' /\
                match e with NInstall _ | NElect | NTimeoutDecision => False | _ => True end).
    { destruct e; try discriminate; try contradiction; split; auto. }
    clear H. destruct K as [H Hev'].
    destruct (find_node (g_nodes (lg_g (cg_l g))) j) as [nj|] eqn:Hf; [|discriminate].
    destruct (step_full (gn_P nj) (gn_run nj) e cut fs) as [[r' ob] out] eqn:Hsf. inversion H; subst G'. cbn [g_nodes].
    intros n n' s s'. apply (handler_mono g Hnd l j e cut fs nj r' ob out _ _ Hh Hf Hev' Hre Hsf).
  Qed.

  Lemma gvotereq_mono i j cut fs G' :
    gstep cfgs (lg_g (cg_l g)) (GVoteReq i j cut fs) = Some G' -> step_concl g (CBase (LElect (GVoteReq i j cut fs))) (g_nodes G').
  Proof.
    intros H. unfold gstep in H.
    destruct (find_node (g_nodes (lg_g (cg_l g))) i) as [ni|] eqn:Hfi; [|discriminate].
    destruct (find_node (g_nodes (lg_g (cg_l g))) j) as [nj|] eqn:Hfj; [|discriminate].
    destruct (gn_sess ni) as [se|] eqn:Hse; [|discriminate].
    destruct (negb (mem j (se_asked se))); [discriminate|].
    destruct (step_full (gn_P nj) (gn_run nj) (NVote (se_req se)) cut fs) as [[r' ob] out] eqn:Hsf. inversion H; subst G'. cbn [g_nodes].
    intros n n' s s'.
    apply (handler_mono g Hnd _ j (NVote (se_req se)) cut fs nj r' ob out _ _); auto; [|discriminate].
    unfold handler_of, cnodes. rewrite Hfi, Hse. reflexivity.
  Qed.

  Lemma gtimeout_mono l i G' : gstep cfgs (lg_g (cg_l g)) (GTimeout i) = Some G' -> step_concl g l (g_nodes G').
  Proof.
    intros H. unfold gstep in H. apply step_concl_le.
    destruct (find_node (g_nodes (lg_g (cg_l g))) i) as [n0|] eqn:Hf; [|discriminate].
    destruct (gn_run n0) as [s0|s0] eqn:Hr0; [|discriminate].
    destruct (negb (existsb (config_eqb (v_latest s0)) cfgs) || (v_role s0 =? Leader)); [discriminate|].
    set (sx := match gn_sess n0 with Some _ => set_transfer s0 false | None => s0 end) in H.
    assert (Ex : v_commit sx = v_commit s0) by (unfold sx; destruct (gn_sess n0); reflexivity).
    pose proof (sess_enter_commit (gn_P n0) false sx) as Hc.
    destruct (sess_enter (gn_P n0) false sx) as [x trx]. cbn [fst] in Hc.
    pose proof (find_node_id _ _ _ Hf) as Hid0.
    destruct x as [s1 c|s1|s1|s1]; cbn [sess_state] in Hc; inversion H; subst G'; cbn [g_nodes];
      (eapply (mono_upd_le (cnodes g) i n0); [exact Hnd|exact Hf|exact Hid0|]; intros s s' Hs Hs'; rewrite Hr0 in Hs; inversion Hs; subst s;
       cbn [gn_run] in Hs'; inversion Hs'; subst s'; try rewrite become_leader_commit; lia).
  Qed.

  Lemma gvoteresp_mono l i j G' : gstep cfgs (lg_g (cg_l g)) (GVoteResp i j) = Some G' -> step_concl g l (g_nodes G').
  Proof.
    intros H. unfold gstep in H. apply step_concl_le.
    destruct (find_node (g_nodes (lg_g (cg_l g))) i) as [n0|] eqn:Hf; [|discriminate].
    destruct (gn_run n0) as [s0|s0] eqn:Hr0; [|discriminate].
    destruct (gn_sess n0) as [se|] eqn:Hse; [|discriminate].
    destruct (mem j (se_got se)); [discriminate|].
    destruct (find_resp _ _ _ _) as [rp|]; [|discriminate].
    pose proof (sess_step_commit (gn_P n0) false s0 (se_c se) (CVote (mkVR (rp_term rp) (rp_granted rp)))) as Hc.
    destruct (sess_step (gn_P n0) false (SCand s0 (se_c se)) _) as [x trx]. cbn [fst] in Hc.
    pose proof (find_node_id _ _ _ Hf) as Hid0.
    destruct x as [s1 c|s1|s1|s1]; cbn [sess_state] in Hc; inversion H; subst G'; cbn [g_nodes];
      (eapply (mono_upd_le (cnodes g) i n0); [exact Hnd|exact Hf|exact Hid0|]; intros s s' Hs Hs'; rewrite Hr0 in Hs; inversion Hs; subst s;
       cbn [gn_run] in Hs'; inversion Hs'; subst s'; try rewrite become_leader_commit; lia).
  Qed.
End Elect.

(* ---------------------------------------------------------------- the replication system *)
Section Repl.
  Variable g : cgstate.
  Hypothesis Hnd : NoDup (map gn_id (cnodes g)).
  Variable cfgs : list config.

  Lemma step_concl_same l : step_concl g l (cnodes g).
  Proof. apply step_concl_le. intros n n' s s' Hn Hn' Hid Hr Hr'. apply (mono_same (cnodes g) n n' s s' Hnd Hn Hn' Hid Hr Hr'). Qed.

  Lemma set_node_run_mono l i n0 s0 s1 : find_node (cnodes g) i = Some n0 -> gn_run n0 = Up s0 -> v_commit s0 <= v_commit s1 ->
    step_concl g l (g_nodes (set_node_run (lg_g (cg_l g)) i n0 (Up s1))).
  Proof.
    intros Hf Hr0 Hle. apply step_concl_le. unfold set_node_run. cbn [g_nodes].
    eapply (mono_upd_le (cnodes g) i n0); [exact Hnd|exact Hf|exact (find_node_id _ _ _ Hf)|].
    intros s s' Hs Hs'. rewrite Hr0 in Hs. inversion Hs; subst s. cbn [gn_run] in Hs'. inversion Hs'; subst s'. exact Hle.
  Qed.

  Lemma lstep_mono sn bl L' : lstep sn cfgs (cg_l g) bl = Some L' -> step_concl g (CBase bl) (g_nodes (lg_g L')).
  Proof.
    intros H. destruct bl as [gl|i ty data fs|i j next last|i j|k cut fs]; unfold lstep in H.
    - destruct (ClusterLog.label_ok sn gl) eqn:Hok; [|discriminate].
      destruct (gstep cfgs (lg_g (cg_l g)) gl) as [G'|] eqn:HG; [|discriminate]. inversion H; subst L'. cbn [lg_g].
      destruct gl as [i|i j cut fs|i j|j e cut fs].
      + apply (gtimeout_mono g Hnd cfgs _ i G' HG).
      + apply (gvotereq_mono g Hnd cfgs i j cut fs G' HG).
      + apply (gvoteresp_mono g Hnd cfgs _ i j G' HG).
      + apply (ginput_mono g Hnd cfgs _ j e cut fs G'); [reflexivity| | |exact HG].
        * destruct e; try exact I. simpl in Hok. discriminate.
        * intros ->. exists cut, fs. reflexivity.
    - destruct (find_node (g_nodes (lg_g (cg_l g))) i) as [n0|] eqn:Hf; [|discriminate].
      destruct (gn_run n0) as [s0|s0] eqn:Hr0; [|discriminate].
      destruct (v_role s0 =? Leader); [|discriminate].
      pose proof (dispatch_commit (gn_P n0) (leader_setup s0) fs [(ty, data, 0)]) as Hc.
      destruct (dispatch (gn_P n0) (leader_setup s0) fs [(ty, data, 0)]) as [[[ls' res] tr] fs']. cbn [fst l_node leader_setup] in Hc.
      inversion H; subst L'. cbn [lg_g]. apply (set_node_run_mono _ i n0 s0 _ Hf Hr0). lia.
    - destruct (find_node (g_nodes (lg_g (cg_l g))) i) as [n0|]; [|discriminate].
      destruct (gn_run n0) as [s0|s0]; [|discriminate].
      destruct ((v_role s0 =? Leader) && negb (i =? j) && (1 <=? next) && (last <=? last_index s0)); [|discriminate].
      destruct (setup_send (gn_P n0) s0 next last); try discriminate. inversion H; subst L'. apply step_concl_same.
    - destruct (find_node (g_nodes (lg_g (cg_l g))) i) as [n0|]; [|discriminate].
      destruct (gn_run n0) as [s0|s0]; [|discriminate].
      destruct ((v_role s0 =? Leader) && negb (i =? j)); [|discriminate]. inversion H; subst L'. apply step_concl_same.
    - destruct (nth_error (lg_msgs (cg_l g)) k) as [m|] eqn:Hk; [|discriminate].
      destruct (gstep cfgs (lg_g (cg_l g)) (GInput (am_to m) (NAppend (am_req m)) cut fs)) as [G'|] eqn:HG; [|discriminate].
      inversion H; subst L'. cbn [lg_g].
      apply (ginput_mono g Hnd cfgs _ (am_to m) (NAppend (am_req m)) cut fs G'); [|exact I|discriminate|exact HG].
      unfold handler_of. rewrite Hk. reflexivity.
  Qed.
End Repl.
