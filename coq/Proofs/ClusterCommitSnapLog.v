(* ClusterCommitSnapLog.v — the per-server part of the Log Matching invariant for servers that take
   snapshots and compact their logs (the analogue of nlog_up / nlog_img of Proofs/ClusterLogNode.v,
   which ask for an empty snapshot store).

   A running server caches two keys: tk = (lastLogIdx, lastLogTerm) and b = (lastSnapshotIndex,
   lastSnapshotTerm).  Both are the root or created keys of ONE branch of the ghost history; every
   stored entry is an ancestor of tk; every stored snapshot is an ancestor of b; the log has no hole
   between b and tk.  Below b the log may hold anything from nothing to everything (TrailingLogs). *)
From Coq Require Import List NArith Bool Lia.
From stdpp Require Import gmap.
From RaftModel Require Import Base Config Compaction Node NodeCodec.
From RaftProofs Require Import ClusterLogSpec ClusterLogChain ClusterLogNode ClusterCommitChain ClusterCommitInv.
Open Scope N_scope.

(* the key an entry was appended after is the root or a created key *)
Definition pclosed (C : chain) : Prop := forall e p, In (e, p) C -> p = (0, 0) \/ created C p.
Definition rootc (C : chain) (k : N * N) : Prop := k = (0, 0) \/ created C k.

Lemma rootc_mono C C' k : incl C C' -> rootc C k -> rootc C' k.
Proof. intros Hi [->|H]; [left; reflexivity|right; eapply created_mono; eauto]. Qed.

Lemma rootc_zero C k : chain_ok C -> rootc C k -> fst k = 0 -> k = (0, 0).
Proof. intros HC [->|H] E; [reflexivity|]. pose proof (created_pos C k HC H). lia. Qed.

Lemma rootc_pos C k : chain_ok C -> rootc C k -> 1 <= fst k -> created C k.
Proof. intros HC [->|H] E; [simpl in E; lia|exact H]. Qed.

(* every created key descends from the root *)
Lemma anc_root_all C : chain_ok C -> pclosed C -> forall k, rootc C k -> anc C (0, 0) k.
Proof.
  intros HC Hp k. remember (fst k) as i eqn:Ei. revert k Ei.
  induction i as [i IH] using (well_founded_induction N.lt_wf_0). intros k Ei [->|(x & p & Hx & Ex)]; [apply anc_refl|].
  destruct (co_idx C HC x p Hx) as [Hi _].
  eapply anc_up; [exact Hx|exact Ex|]. apply (IH (fst p)); [|reflexivity|apply Hp with x; exact Hx].
  subst i. rewrite <- Ex. unfold key. simpl. lia.
Qed.

(* the snapshot boundary; lastSnapshotTerm is meaningless while lastSnapshotIndex is 0 *)
Definition bk (s : nstate) : N * N := (v_lastSnapIdx s, if v_lastSnapIdx s =? 0 then 0 else v_lastSnapTerm s).

Lemma bk_fst s : fst (bk s) = v_lastSnapIdx s.
Proof. reflexivity. Qed.

Lemma bk_pos s : v_lastSnapIdx s <> 0 -> bk s = (v_lastSnapIdx s, v_lastSnapTerm s).
Proof. intros H. unfold bk. destruct (N.eqb_spec (v_lastSnapIdx s) 0); [contradiction|reflexivity]. Qed.

Lemma bk_zero s : v_lastSnapIdx s = 0 -> bk s = (0, 0).
Proof. intros H. unfold bk. rewrite H. reflexivity. Qed.

Lemma bk_ext s s' : v_lastSnapIdx s' = v_lastSnapIdx s -> v_lastSnapTerm s' = v_lastSnapTerm s -> bk s' = bk s.
Proof. intros H1 H2. unfold bk. rewrite H1, H2. reflexivity. Qed.
Definition sk (sn : snapshot) : N * N := (sn_idx sn, sn_term sn).
(* getLastEntry *)
Definition lk (tk b : N * N) : N * N := if fst b <=? fst tk then tk else b.

Lemma last_entry_lk s : last_entry s = lk (topk s) (bk s).
Proof.
  unfold last_entry, lk, topk. simpl. destruct (N.leb_spec (v_lastSnapIdx s) (v_lastLogIdx s)); [reflexivity|].
  rewrite bk_pos by lia. reflexivity.
Qed.

Lemma last_index_lk s : last_index s = fst (lk (topk s) (bk s)).
Proof. unfold last_index, lk, topk. simpl. destruct (N.leb_spec (v_lastSnapIdx s) (v_lastLogIdx s)); simpl; lia. Qed.

Record zshape (C : chain) (T : N) (m : gmap N entry) (sns : list snapshot) (tk b : N * N) : Prop := {
  zs_in : log_in C m T;
  zs_below : log_below C m tk;
  zs_tk : rootc C tk;
  zs_tkt : snd tk <= T;
  zs_b : rootc C b;
  zs_bt : snd b <= T;
  zs_le : fst b <= fst tk -> anc C b tk;
  zs_gt : fst tk < fst b -> anc C tk b;
  zs_seg : forall i, fst b < i -> i <= fst tk -> is_Some (m !! i);
  zs_sn : forall sn, In sn sns -> sn_ok sn = true /\ created C (sk sn) /\ sn_term sn <= T /\ anc C (sk sn) b;
  zs_has : fst b = 0 \/ exists sn, In sn sns /\ sk sn = b;
}.

(* a durable image: term, log store, snapshot store *)
Record zimgS (C : chain) (T : N) (m : gmap N entry) (sns : list snapshot) : Prop := {
  zi_in : log_in C m T;
  zi_top : exists top, log_below C m top /\ forall sn, In sn sns -> anc C (sk sn) top;
  zi_sn : forall sn, In sn sns -> sn_ok sn = true /\ created C (sk sn) /\ sn_term sn <= T;
  zi_seg : forall i, 1 <= i -> (forall sn, In sn sns -> sn_idx sn < i) -> i <= log_last m -> is_Some (m !! i);
}.

Definition zup (C : chain) (s : nstate) : Prop := zshape C (d_term s) (d_log s) (d_snaps s) (topk s) (bk s).
Definition zimg (C : chain) (s : nstate) : Prop := zimgS C (d_term s) (d_log s) (d_snaps s).
Definition znlog (C : chain) (r : nrun) : Prop := match r with Up s => zup C s | Down s => zimg C s end.

(* ---------------------------------------------------------------- the history grows, the term rises *)
Lemma zshape_mono C C' T T' m sns tk b : incl C C' -> T <= T' -> zshape C T m sns tk b -> zshape C' T' m sns tk b.
Proof.
  intros Hi Ht [A B D E F G H I J K L]. constructor.
  - eapply log_in_mono; [exact Hi|]. eapply log_in_sub; [apply log_sub_refl|exact Ht|exact A].
  - eapply log_below_mono; eauto.
  - eapply rootc_mono; eauto.
  - lia.
  - eapply rootc_mono; eauto.
  - lia.
  - intros X. eapply anc_mono; eauto.
  - intros X. eapply anc_mono; eauto.
  - exact J.
  - intros sn Hsn. destruct (K sn Hsn) as (K1 & K2 & K3 & K4). split; [exact K1|]. split; [eapply created_mono; eauto|].
    split; [lia|eapply anc_mono; eauto].
  - exact L.
Qed.

Lemma zimgS_mono C C' T T' m sns : incl C C' -> T <= T' -> zimgS C T m sns -> zimgS C' T' m sns.
Proof.
  intros Hi Ht [A (top & B1 & B2) D E]. constructor.
  - eapply log_in_mono; [exact Hi|]. eapply log_in_sub; [apply log_sub_refl|exact Ht|exact A].
  - exists top. split; [eapply log_below_mono; eauto|]. intros sn Hsn. eapply anc_mono; eauto.
  - intros sn Hsn. destruct (D sn Hsn) as (D1 & D2 & D3). split; [exact D1|]. split; [eapply created_mono; eauto|lia].
  - exact E.
Qed.

Lemma znlog_mono C C' r : incl C C' -> znlog C r -> znlog C' r.
Proof. intros Hi. destruct r as [s|s]; simpl; [apply zshape_mono|apply zimgS_mono]; auto; lia. Qed.

Section Shape.
  Variable C : chain.
  Hypothesis HC : chain_ok C.
  Variables (T : N) (m : gmap N entry) (sns : list snapshot) (tk b : N * N).
  Hypothesis HS : zshape C T m sns tk b.

  (* nothing is stored above the cached last index *)
  Lemma zshape_bound i x : m !! i = Some x -> i <= fst tk.
  Proof.
    intros Hx. destruct (zs_in _ _ _ _ _ _ HS i x Hx) as (Hi & _).
    destruct (anc_le C _ _ HC (zs_below _ _ _ _ _ _ HS i x Hx)) as [H _]. unfold key in H. simpl in H. lia.
  Qed.

  Lemma zshape_cache i : fst tk < i -> m !! i = None.
  Proof. intros Hi. destruct (m !! i) as [x|] eqn:E; [|reflexivity]. pose proof (zshape_bound i x E). lia. Qed.

  (* both cached keys are at or below the last entry *)
  Lemma zshape_tk_lk : anc C tk (lk tk b).
  Proof. unfold lk. destruct (N.leb_spec (fst b) (fst tk)); [apply anc_refl|apply (zs_gt _ _ _ _ _ _ HS); assumption]. Qed.

  Lemma zshape_b_lk : anc C b (lk tk b).
  Proof. unfold lk. destruct (N.leb_spec (fst b) (fst tk)); [apply (zs_le _ _ _ _ _ _ HS); assumption|apply anc_refl]. Qed.

  Lemma zshape_log_lk i x : m !! i = Some x -> anc C (key x) (lk tk b).
  Proof. intros Hx. eapply anc_trans; [apply (zs_below _ _ _ _ _ _ HS i x Hx)|apply zshape_tk_lk]. Qed.

  Lemma zshape_sn_lk sn : In sn sns -> anc C (sk sn) (lk tk b).
  Proof. intros Hsn. destruct (zs_sn _ _ _ _ _ _ HS sn Hsn) as (_ & _ & _ & H). eapply anc_trans; [exact H|apply zshape_b_lk]. Qed.

  Lemma zshape_lk_root : rootc C (lk tk b).
  Proof. unfold lk. destruct (fst b <=? fst tk); [apply (zs_tk _ _ _ _ _ _ HS)|apply (zs_b _ _ _ _ _ _ HS)]. Qed.

  (* what the log holds relative to the snapshot boundary *)
  Lemma zshape_log_b i x : m !! i = Some x -> (i <= fst b -> anc C (key x) b) /\ (fst b <= i -> anc C b (key x)).
  Proof.
    intros Hx. destruct (zs_in _ _ _ _ _ _ HS i x Hx) as (Hi & _).
    split; intros Hle.
    - apply (anc_linear C (key x) b (lk tk b) HC (zshape_log_lk i x Hx) zshape_b_lk). unfold key. simpl. lia.
    - apply (anc_linear C b (key x) (lk tk b) HC zshape_b_lk (zshape_log_lk i x Hx)). unfold key. simpl. lia.
  Qed.

  (* every key of the branch above the boundary and at or below the cached last index is stored *)
  Lemma zshape_holds k : anc C k tk -> fst b < fst k -> holds m k.
  Proof.
    intros Ha Hlt. destruct (anc_le C k tk HC Ha) as [Hle _].
    destruct (zs_seg _ _ _ _ _ _ HS (fst k) Hlt Hle) as [x Hx]. exists x. split; [exact Hx|].
    destruct (zs_in _ _ _ _ _ _ HS _ x Hx) as (Hi & _).
    apply (anc_unique C (key x) k tk HC (zs_below _ _ _ _ _ _ HS _ x Hx) Ha). unfold key. simpl. exact Hi.
  Qed.

  Lemma zshape_img : zimgS C T m sns.
  Proof.
    constructor.
    - apply (zs_in _ _ _ _ _ _ HS).
    - exists (lk tk b). split; [intros i x Hx; apply (zshape_log_lk i x Hx)|apply zshape_sn_lk].
    - intros sn Hsn. destruct (zs_sn _ _ _ _ _ _ HS sn Hsn) as (A & B & D & _). auto.
    - intros i Hi Hall Hl. apply (zs_seg _ _ _ _ _ _ HS).
      + destruct (zs_has _ _ _ _ _ _ HS) as [E|(sn & Hsn & E)]; [lia|]. rewrite <- E. apply (Hall sn Hsn).
      + destruct (log_last_in m) as [E0|(e & He)]; [lia|]. apply (zshape_bound _ e) in He. lia.
  Qed.
End Shape.

Lemma zup_img C s : chain_ok C -> zup C s -> zimg C s.
Proof. intros HC H. apply (zshape_img C HC _ _ _ _ _ H). Qed.

Lemma znlog_image C r : chain_ok C -> znlog C r -> zimg C (image r).
Proof. intros HC. destruct r as [s|s]; simpl; [apply zup_img, HC|auto]. Qed.

Lemma zup_cache_ok C s : chain_ok C -> zup C s -> AppendProofs.cache_ok s.
Proof. intros HC H i Hi. apply (zshape_cache C HC _ _ _ _ _ H i Hi). Qed.
