(* ClusterCommitSnapStepK.v — with snapshots: a server covers every key at or below its last entry;
   a leader's last entry is its last log entry; commit knowledge after the leader appended an entry. *)
From Coq Require Import List NArith Bool Lia.
From stdpp Require Import gmap.
From RaftModel Require Import Base Config Compaction Commitment Node NodeCodec Candidate Leader Replicate Cluster ClusterLog ClusterCommit.
From RaftProofs Require Import ConfigProofs CommitmentProofs VoteProofs ClusterProofs
  ClusterLogSpec ClusterLogChain ClusterLogNode ClusterLogVote ClusterLogLeader ClusterLogInv ClusterLogSteps
  ClusterCommitSpec ClusterCommitLog ClusterCommitChain ClusterCommitNode ClusterCommitGhost
  ClusterCommitInv ClusterCommitUpd ClusterCommitStepA ClusterCommitStepK
  ClusterCommitSnapLog ClusterCommitSnapNode ClusterCommitSnapLinv ClusterCommitSnapInv ClusterCommitSnapFinal.
Open Scope N_scope.

(* every key of the server's branch: above the snapshot boundary it is in the log, at or below it the
   newest snapshot covers it *)
Lemma zup_covers C s k0 : chain_ok C -> zup C s -> anc C k0 (last_entry s) -> 1 <= fst k0 -> covers C s k0.
Proof.
  intros HC Hz Ha Hpos. rewrite last_entry_lk in Ha.
  destruct (N.le_gt_cases (fst k0) (v_lastSnapIdx s)) as [Hs|Hs].
  - right. destruct (zs_has _ _ _ _ _ _ Hz) as [E|(sn & Hsn & E)]; [simpl in E; lia|].
    exists sn. split; [exact Hsn|]. rewrite E. apply (anc_linear C k0 (bk s) _ HC Ha (zshape_b_lk C _ _ _ _ _ Hz)). simpl. exact Hs.
  - left. apply (zshape_holds C HC _ _ _ _ _ Hz k0); [|simpl; lia].
    unfold lk in Ha. destruct (N.leb_spec (fst (bk s)) (fst (topk s))); [exact Ha|].
    destruct (anc_le C _ _ HC Ha) as [Hx _]. simpl in Hx. lia.
Qed.

Lemma leader_last s : v_lastSnapIdx s <= v_lastLogIdx s -> last_entry s = topk s /\ last_index s = v_lastLogIdx s.
Proof.
  intros H. unfold last_entry, last_index, topk. destruct (N.leb_spec (v_lastSnapIdx s) (v_lastLogIdx s)); [split; [reflexivity|lia]|lia].
Qed.

Lemma CK_bound cfg C LL A b b' k : b <= b' -> CK cfg C LL A b k -> CK cfg C LL A b' k.
Proof. intros Hb (T & q & H1 & H2). exists T, q. split; [lia|exact H2]. Qed.

Section Append.
  Variable cfg : config.
  Variable Ps : list params.

  (* the new entry sits right above everything the server knew to be committed *)
  Lemma zappend_kc C LL A C' LL' A' s s'' e : incl C C' -> incl LL LL' -> incl A A' ->
    (v_commit s <= last_index s /\ forall i x, d_log s !! i = Some x -> i <= v_commit s -> CK cfg C LL A (d_term s) (key x)) ->
    d_log s'' = log_store (d_log s) [e] -> e_idx e = last_index s + 1 -> last_index s <= last_index s'' ->
    v_commit s'' = v_commit s -> d_term s <= d_term s'' ->
    v_commit s'' <= last_index s'' /\ forall i x, d_log s'' !! i = Some x -> i <= v_commit s'' -> CK cfg C' LL' A' (d_term s'') (key x).
  Proof.
    intros HC HL HA [K1 K2] Hlog Hi Hci Hc Ht. rewrite Hc. split; [lia|].
    intros i x Hx Hle. rewrite Hlog, log_store_one in Hx. destruct (N.eqb_spec (e_idx e) i) as [E|_]; [lia|].
    eapply (CK_bound cfg); [exact Ht|]. eapply CK_mono_g; eauto.
  Qed.
End Append.
