(* C17: no future is ever stranded, for every table satisfying table_ok. *)
From Coq Require Import List NArith String Bool Lia.
From RaftModel Require Import Futures.
Import ListNotations.
Open Scope N_scope.

Lemma api_ok_queue T a : api_ok T a = true -> a_queue a <> ""%string ->
  a_selShutdown a = true /\ served_everywhere T (a_queue a) = true /\ flushed T (a_queue a) = true /\
  (buffered T (a_queue a) || goes_to_fsm (a_queue a) = true -> 1 <= escape_kind T a <= 2).
Proof.
  unfold api_ok. intros H Hq. destruct (String.eqb_spec (a_queue a) ""); [contradiction|].
  apply andb_prop in H. destruct H as [H _].
  apply andb_prop in H. destruct H as [H H4]. apply andb_prop in H. destruct H as [H H3].
  apply andb_prop in H. destruct H as [H1 H2]. repeat split; try assumption.
  - rewrite H in H4. simpl in H4. apply N.leb_le in H4. exact H4.
  - unfold escape_kind. destruct (negb (t_errsel T)); [lia|].
    destruct (String.eqb (a_escape a) "shutdownCh"); [lia|].
    destruct (String.eqb (a_escape a) "stoppedCh" && t_stopped_after_wait T); lia.
Qed.

Lemma api_ok_inline T a : api_ok T a = true -> a_queue a = ""%string -> a_inline a = true.
Proof. unfold api_ok. intros H Hq. rewrite Hq in H. exact H. Qed.

(* invariant of every run from the initial state *)
Definition finv (T : table) (a : api) (s : fstate) : Prop :=
  (f_loop s = false -> f_shut s = true) /\ (f_fsm s = false -> f_shut s = true) /\
  match f_ph s with
  | PCreated | PResponded => True
  | PReturned => a_queue a <> ""%string
  | PQueued => a_queue a <> ""%string /\ buffered T (a_queue a) = true
  | PTaken => a_queue a <> ""%string /\ f_loop s = true
  | PTracked => a_queue a <> ""%string /\ tracked_set (a_queue a) <> None
  | PFsm => a_queue a <> ""%string /\ goes_to_fsm (a_queue a) = true
  end.

Lemma finv_init T a : finv T a init_state.
Proof. unfold finv, init_state; simpl. repeat split; intros; discriminate. Qed.

Ltac brk H :=
  repeat match type of H with
  | context [if ?b then _ else _] => let E := fresh "E" in destruct b eqn:E
  | context [match tracked_set ?q with _ => _ end] => let E := fresh "E" in destruct (tracked_set q) eqn:E
  end; try discriminate.

Lemma fstep_inv T a s l s' : finv T a s -> fstep T a s l = Some s' -> finv T a s'.
Proof.
  intros (H1 & H2 & H3) H. destruct s as [ph sh lp fs]. unfold fstep in H. simpl in *.
  destruct l, ph; simpl in H; brk H; inversion H; subst; clear H; unfold finv, set_ph; simpl;
  repeat match goal with
  | E : String.eqb _ _ = true |- _ => apply String.eqb_eq in E
  | E : String.eqb _ _ = false |- _ => apply String.eqb_neq in E
  | E : andb _ _ = true |- _ => apply andb_prop in E; destruct E
  end; subst; simpl in *; intuition (try congruence; try discriminate).
Qed.

Lemma frun_inv T a ls : forall s s', finv T a s -> frun T a s ls = Some s' -> finv T a s'.
Proof.
  induction ls as [|l r IH]; intros s s' Hi H; simpl in H.
  - inversion H; subst; exact Hi.
  - destruct (fstep T a s l) as [s1|] eqn:E; [|discriminate]. eapply IH; [eapply fstep_inv; eassumption|exact H].
Qed.

Lemma can_progress_intro T a s l s' : In l progress_labels -> fstep T a s l = Some s' -> can_progress T a s = true.
Proof.
  intros Hin H. unfold can_progress. apply existsb_exists. exists l. split; [exact Hin|]. rewrite H. reflexivity.
Qed.

Lemma resolved_escape T a s : 1 <= escape_kind T a <= 2 -> stopped s = true -> resolved T a s = true.
Proof.
  intros Hk Hs. assert (Hsh : f_shut s = true).
  { unfold stopped in Hs. apply andb_prop in Hs. destruct Hs as [Hs _]. apply andb_prop in Hs. destruct Hs; assumption. }
  assert (E : escape_kind T a = 1 \/ escape_kind T a = 2) by lia.
  unfold resolved. destruct E as [E|E]; rewrite E; destruct (f_ph s); auto.
Qed.

(* In every reachable state: the future is already resolved for its caller, or a step that moves
   it forward is enabled, or the server is still winding down (a goroutine that leaves on
   shutdownCh has not left yet). *)
Theorem never_stranded_state T a s : api_ok T a = true -> finv T a s ->
  resolved T a s = true \/ can_progress T a s = true \/ winding_down s = true.
Proof.
  intros Hok (Hl & Hf & Hp). destruct s as [ph sh lp fs]. simpl in *.
  destruct ph; simpl in Hp.
  - (* PCreated *) right. left.
    destruct (String.eqb_spec (a_queue a) "") as [Eq|Nq].
    + eapply (can_progress_intro _ _ _ LEscape); [simpl; auto|]. unfold fstep; simpl.
      rewrite Eq. simpl. rewrite (api_ok_inline T a Hok Eq). reflexivity.
    + destruct (api_ok_queue T a Hok Nq) as (S1 & S2 & S3 & S4).
      destruct (buffered T (a_queue a)) eqn:B.
      * eapply (can_progress_intro _ _ _ LEnqueue); [simpl; auto|]. unfold fstep; simpl.
        destruct (String.eqb_spec (a_queue a) ""); [contradiction|]. rewrite B. reflexivity.
      * destruct lp.
        -- eapply (can_progress_intro _ _ _ LEnqueue); [simpl; auto|]. unfold fstep; simpl.
           destruct (String.eqb_spec (a_queue a) ""); [contradiction|]. rewrite B, S2. reflexivity.
        -- eapply (can_progress_intro _ _ _ LEscape); [simpl; auto|]. unfold fstep; simpl.
           destruct (String.eqb_spec (a_queue a) ""); [contradiction|]. rewrite S1, (Hl eq_refl). reflexivity.
  - (* PQueued *) destruct Hp as [Nq B]. destruct (api_ok_queue T a Hok Nq) as (S1 & S2 & S3 & S4).
    destruct lp.
    + right. left. eapply (can_progress_intro _ _ _ LTake); [simpl; auto 10|]. unfold fstep; simpl. rewrite S2. reflexivity.
    + specialize (Hl eq_refl). subst sh. destruct fs.
      * right. right. reflexivity.
      * left. apply resolved_escape; [apply S4; rewrite B; reflexivity|reflexivity].
  - (* PTaken *) right. left. eapply (can_progress_intro _ _ _ LRespond); [simpl; auto 10|]. reflexivity.
  - (* PTracked *) destruct Hp as [Nq Ht]. destruct (api_ok_queue T a Hok Nq) as (S1 & S2 & S3 & S4).
    right. left. eapply (can_progress_intro _ _ _ LFlush); [simpl; auto 10|]. unfold fstep; simpl. rewrite S3. reflexivity.
  - (* PFsm *) destruct Hp as [Nq G]. destruct (api_ok_queue T a Hok Nq) as (S1 & S2 & S3 & S4).
    destruct fs.
    + right. left. eapply (can_progress_intro _ _ _ LFsmAnswer); [simpl; auto 10|]. reflexivity.
    + specialize (Hf eq_refl). subst sh. destruct lp.
      * right. right. reflexivity.
      * left. apply resolved_escape; [apply S4; rewrite G; apply orb_true_r|reflexivity].
  - left. reflexivity.
  - left. reflexivity.
Qed.

(* the statement over runs: whatever happened (any interleaving of API, loop, commit, step-down and
   shutdown steps), if nothing can move the future any more and the server is not in the middle of
   stopping, then its Error() returns *)
Theorem never_stranded T a ls s : api_ok T a = true -> frun T a init_state ls = Some s ->
  can_progress T a s = false -> winding_down s = false -> resolved T a s = true.
Proof.
  intros Hok Hr Hn Hw.
  destruct (never_stranded_state T a s Hok (frun_inv T a ls _ _ (finv_init T a) Hr)) as [H|[H|H]]; [exact H| |];
  congruence.
Qed.

Lemma tracked_flushed_on_exit T a : api_ok T a = true -> a_queue a <> ""%string ->
  forall ls s0 s1, (f_loop s0 = false -> f_ph s0 <> PTracked /\ f_ph s0 <> PTaken) -> frun T a s0 ls = Some s1 ->
  f_loop s1 = false -> f_ph s1 <> PTracked /\ f_ph s1 <> PTaken.
Proof.
  intros Hok Nq. destruct (api_ok_queue T a Hok Nq) as (_ & _ & S3 & _).
  induction ls as [|l r IH]; intros s0 s1 H0 H; simpl in H.
  - inversion H; subst; exact H0.
  - destruct (fstep T a s0 l) as [s2|] eqn:E; [|discriminate]. eapply IH; [|exact H].
    destruct s0 as [ph sh lp fs]. unfold fstep in E. simpl in *.
    destruct l, ph; simpl in E; brk E; inversion E; subst; simpl; intros Hlp;
    try (split; discriminate); try (specialize (H0 Hlp); destruct H0; split; congruence);
    try discriminate;
    repeat match goal with E : andb _ _ = true |- _ => apply andb_prop in E; destruct E end; subst; try discriminate.
Qed.

(* after a completed shutdown (both goroutines gone) every reachable future that left the API
   function is resolved *)
Theorem resolved_after_shutdown T a ls s : api_ok T a = true -> frun T a init_state ls = Some s ->
  f_loop s = false -> f_fsm s = false -> f_ph s <> PCreated -> resolved T a s = true.
Proof.
  intros Hok Hr Hl Hf Hc.
  pose proof (frun_inv T a ls _ _ (finv_init T a) Hr) as (I1 & I2 & I3).
  assert (St : stopped s = true) by (unfold stopped; rewrite (I1 Hl), Hl, Hf; reflexivity).
  destruct (f_ph s) eqn:Eph; simpl in I3; try contradiction.
  - destruct I3 as [Nq B]. destruct (api_ok_queue T a Hok Nq) as (_ & _ & _ & S4).
    apply resolved_escape; [apply S4; rewrite B; reflexivity|exact St].
  - destruct I3 as [_ X]. congruence.
  - destruct I3 as [Nq Ht]. exfalso.
    destruct (tracked_flushed_on_exit T a Hok Nq ls init_state s (fun H => ltac:(discriminate)) Hr Hl) as [X _]. apply X, Eph.
  - destruct I3 as [Nq G]. destruct (api_ok_queue T a Hok Nq) as (_ & _ & _ & S4).
    apply resolved_escape; [apply S4; rewrite G; apply orb_true_r|exact St].
  - unfold resolved. rewrite Eph. reflexivity.
  - unfold resolved. rewrite Eph. reflexivity.
Qed.

(* every forward step strictly lowers the rank, the shutdown machinery never raises it: a future
   takes at most 6 forward steps in any run *)
Lemma progress_decreases T a s l s' : In l progress_labels -> fstep T a s l = Some s' ->
  (phase_rank (f_ph s') < phase_rank (f_ph s))%nat.
Proof.
  intros Hin H. destruct s as [ph sh lp fs]. unfold fstep in H. simpl in *.
  destruct Hin as [<-|[<-|[<-|[<-|[<-|[<-|[<-|[<-|[]]]]]]]]]; destruct ph; simpl in H; brk H; inversion H; subst; simpl; lia.
Qed.

Lemma any_step_nonincreasing T a s l s' : fstep T a s l = Some s' ->
  (phase_rank (f_ph s') <= phase_rank (f_ph s))%nat.
Proof.
  intros H. destruct s as [ph sh lp fs]. unfold fstep in H. simpl in *.
  destruct l, ph; simpl in H; brk H; inversion H; subst; simpl; lia.
Qed.

Definition is_progress (l : label) : bool :=
  match l with LShutdown | LLoopExit | LFsmExit => false | _ => true end.

Theorem forward_steps_bounded T a ls : forall s s', frun T a s ls = Some s' ->
  (List.length (filter is_progress ls) + phase_rank (f_ph s') <= phase_rank (f_ph s))%nat.
Proof.
  induction ls as [|l r IH]; intros s s' H; simpl in H.
  - inversion H; subst; simpl; lia.
  - destruct (fstep T a s l) as [s1|] eqn:E; [|discriminate]. specialize (IH _ _ H).
    simpl. destruct (is_progress l) eqn:P.
    + assert (In l progress_labels) by (destruct l; simpl in *; try discriminate; auto 10).
      pose proof (progress_decreases T a s l s1 H0 E). simpl. lia.
    + pose proof (any_step_nonincreasing T a s l s1 E). lia.
Qed.

(* conversely: without a ShutdownCh escape a buffered queue strands a future (the schedule of
   finding F5: the enqueue wins, then the server shuts down and the goroutines leave) *)
Theorem stranded_without_escape T a : a_queue a <> ""%string -> buffered T (a_queue a) = true -> escape_kind T a = 0 ->
  exists s, frun T a init_state [LEnqueue; LShutdown; LLoopExit; LFsmExit] = Some s /\
            resolved T a s = false /\ can_progress T a s = false /\ winding_down s = false.
Proof.
  intros Nq B Sd. unfold frun, fstep, init_state; simpl.
  destruct (String.eqb_spec (a_queue a) ""); [contradiction|]. rewrite B. simpl.
  eexists. split; [reflexivity|]. unfold resolved, can_progress, winding_down; simpl. rewrite Sd. simpl.
  destruct (String.eqb_spec (a_queue a) ""); [contradiction|]. auto.
Qed.
