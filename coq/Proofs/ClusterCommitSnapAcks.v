(* ClusterCommitSnapAcks.v — DURABLE ACKNOWLEDGEMENTS with takeSnapshot and compaction (crun true): an entry
   whose future a leader of term T answered without error is, at every later point of the run, held at
   its index by every Leader of a term >= T — or lies at or below the index of the snapshot that leader
   runs on — and is what every running server that knows that index to be committed (and still holds
   an entry there) holds. *)
From Coq Require Import List NArith Bool Lia.
From stdpp Require Import gmap.
From RaftModel Require Import Base Config Compaction Commitment Node NodeCodec Candidate Leader Replicate Cluster ClusterLog ClusterCommit.
From RaftProofs Require Import ConfigProofs VoteProofs RecoverProofs ClusterProofs ClusterLogSpec ClusterLogChain ClusterLogNode ClusterLogInv
  ClusterCommitSpec ClusterCommitLog ClusterCommitChain ClusterCommitNode ClusterCommitInit ClusterCommitGhost ClusterCommitInv
  ClusterCommitUpd ClusterCommitStepA ClusterCommitAcks
  ClusterCommitSnapSpec ClusterCommitSnapLog ClusterCommitSnapNode ClusterCommitSnapLinv ClusterCommitSnapInv ClusterCommitSnapFinal
  ClusterCommitSnapStepA ClusterCommitSnapStepI ClusterCommitSnapMain.
Open Scope N_scope.

Section Acks.
  Variable cfg : config.
  Variable Ps : list params.
  Hypothesis HVn : NoDup (voters cfg).

  (* (T, e): e was created and is known to be committed by a server of term T *)
  Definition zack_ok (C : chain) (LL : LLt) (A : At) (te : N * entry) : Prop :=
    (exists p, In (snd te, p) C) /\ CK cfg C LL A (fst te) (key (snd te)).

  Definition ZAckInv (g : cgstate) (acks : list (N * entry)) : Prop :=
    exists C LL A V, zinv cfg Ps g C LL A V /\ Forall (zack_ok C LL A) acks.

  Lemma zack_ok_mono C LL A Cn LLn An te : zack_ok C LL A te -> zack_ok (Cn ++ C) (LLn ++ LL) (An ++ A) te.
  Proof.
    intros [(p & Hp) Hck]. split; [exists p; apply in_app_iff; right; exact Hp|].
    eapply CK_mono_g; [apply incl_appr, incl_refl|apply incl_appr, incl_refl|apply incl_appr, incl_refl|exact Hck].
  Qed.

  (* the step that acknowledges: the leader afterwards *)
  Lemma zack_step_facts sn g C LL A V i g' T e : zinv cfg Ps g C LL A V -> cstep sn [cfg] g (CCommit i) = Some g' ->
    In (T, e) (step_acks g (CCommit i)) ->
    zinv cfg Ps g' C LL A V /\
    exists n' s', find_node (cnodes g') i = Some n' /\ gn_run n' = Up s' /\ v_role s' = Leader /\ v_term s' = T /\ d_term s' = T /\
      e_idx e <= v_commit s' /\ d_log s' !! e_idx e = Some e.
  Proof.
    intros HI Hstep Hin. pose proof (zinv_commit cfg Ps HVn sn g C LL A V i g' HI Hstep) as HI'. split; [exact HI'|].
    destruct (step_acks_commit _ _ _ _ _ _ _ Hstep Hin) as (n & ld & s & ls2 & tr & res & r & Hf & Hfl & Hr & Hrole & Hlc & Hr' & He & -> & Eg).
    destruct (find_node_in _ _ _ Hf) as [Hinn Hid].
    destruct (znode_log_in cfg Ps g C LL A V HI n s Hinn Hr) as [Hz [_ Hvt]]. pose proof (zs_in _ _ _ _ _ _ Hz) as Li.
    pose proof (leader_commit_ckeep _ _ _ _ Hlc) as (K & Kc & _). cbn [l_node l_cm] in K, Kc.
    pose proof K as (K1 & K2 & _ & _ & _ & K6 & K7 & _).
    assert (Hk : keys_ok (d_log s)) by (intros j x Hx; apply (Li j x Hx)).
    pose proof (leader_commit_res (mkLS s (ld_cm ld) (ld_infl ld)) _ _ _ Hk Hlc r Hr') as Hle. cbn [l_cm] in Hle.
    rewrite K2 in He. assert (Hei : e_idx e = fr_index r) by (apply (Hk _ _ He)).
    set (n' := mkGN (gn_P n) (Up (l_node ls2)) (keep_sess (Up (l_node ls2)) (gn_sess n)) (gn_next n)).
    exists n', (l_node ls2). split.
    { subst g'. unfold cnodes. cbn [cg_l lg_g set_node_run g_nodes]. fold (cnodes g).
      assert (Hin' : In n' (upd_node (cnodes g) i n')) by (apply in_upd_node with (n := n); assumption).
      pose proof (znodes_nodup cfg Ps g C LL A V HI) as Hnd.
      assert (Hnd' : NoDup (map gn_id (upd_node (cnodes g) i n'))) by (rewrite upd_node_ids; [exact Hnd|exact Hid]).
      pose proof (find_node_self _ n' Hnd' Hin') as Hfn. change (gn_id n') with (gn_id n) in Hfn. rewrite Hid in Hfn. exact Hfn. }
    split; [reflexivity|]. split; [congruence|]. split; [exact K7|]. split; [unfold dproj in K1; inversion K1; congruence|].
    split; [rewrite Kc, Hei; exact Hle|]. rewrite K2, Hei. exact He.
  Qed.

  Theorem cstep_zackinv sn g acks l g' : ZAckInv g acks -> label_ok l -> cstep sn [cfg] g l = Some g' ->
    ZAckInv g' (acks ++ step_acks g l).
  Proof.
    intros (C & LL & A & V & HI & Hacks) Hlok Hstep.
    destruct (cstep_zinv_ext cfg Ps HVn sn g l g' C LL A V HI Hlok Hstep) as (Cn & LLn & An & V' & HI').
    exists (Cn ++ C), (LLn ++ LL), (An ++ A), V'. split; [exact HI'|].
    apply Forall_app. split; [eapply Forall_impl; [|exact Hacks]; intros te; apply zack_ok_mono|].
    apply Forall_forall. intros [T e] Hin. destruct (step_acks_other g l T e Hin) as [i ->].
    destruct (zack_step_facts sn g C LL A V i g' T e HI Hstep Hin) as (HI2 & n' & s' & Hf' & Hr' & _ & _ & Hdt & Hc & He).
    destruct (find_node_in _ _ _ Hf') as [Hin' _].
    destruct (znode_log_in cfg Ps g' C LL A V HI2 n' s' Hin' Hr') as [Hz' _].
    destruct (zs_in _ _ _ _ _ _ Hz' _ e He) as (_ & Hcr & _).
    destruct (zv_kc cfg Ps g' C LL A V HI2 n' s' Hin' Hr') as [_ K].
    apply zack_ok_mono. split; [exact Hcr|]. cbn [fst snd]. rewrite <- Hdt. apply (K _ e He Hc).
  Qed.

  Theorem crun_zackinv sn ls : forall g acks g', ZAckInv g acks -> Forall label_ok ls -> crun sn [cfg] g ls = Some g' ->
    ZAckInv g' (acks ++ run_acks sn [cfg] g ls).
  Proof.
    induction ls as [|l r IH]; intros g acks g' Hinv Hls H; simpl in H |- *.
    - inversion H; subst. rewrite app_nil_r. exact Hinv.
    - destruct (cstep sn [cfg] g l) as [g1|] eqn:E; [|discriminate]. inversion Hls as [|? ? Hl Hr]; subst.
      rewrite app_assoc. apply (IH g1 _ g' (cstep_zackinv sn g acks l g1 Hinv Hl E) Hr H).
  Qed.

  (* what the invariant says about the acknowledged entries *)
  Theorem zackinv_permanent g acks : ZAckInv g acks -> acks_permanent_snap acks g.
  Proof.
    intros (C & LL & A & V & HI & Hacks) T e Hin. rewrite Forall_forall in Hacks. destruct (Hacks _ Hin) as [(p & Pe) Hck]. cbn [fst snd] in *.
    pose proof (zv_ci cfg Ps g C LL A V HI) as Hci. pose proof (ci_ok C LL Hci) as HC.
    destruct (co_idx C HC e p Pe) as [Hei _].
    split.
    - (* every leader of a term >= T holds it, or runs on a snapshot that covers it *)
      intros l sl Hl Rl Hrole Hterm.
      destruct (N.le_gt_cases (e_idx e) (v_lastSnapIdx sl)) as [Hs|Hs]; [right; exact Hs|left].
      destruct (znode_log_in cfg Ps g C LL A V HI l sl Hl Rl) as [Hzl _].
      assert (Hanc : anc C (key e) (topk sl)).
      { apply (leader_has_CK cfg Ps HVn g C LL A V HI l sl T (key e) Hl Rl Hrole Hterm Hck). exists e, p. auto. }
      destruct (zshape_holds C HC _ _ _ _ _ Hzl (key e) Hanc) as (y & Hy & Ey); [unfold key; simpl; lia|].
      unfold key in Hy at 1. simpl in Hy. destruct (zs_in _ _ _ _ _ _ Hzl _ y Hy) as (_ & (py & Py) & _).
      rewrite Hy. f_equal. apply (co_fun C HC y py e p Py Pe Ey).
    - (* every server that knows the index to be committed holds it there *)
      intros a sa ea Ha Ra Hi Hea.
      destruct (zv_kc cfg Ps g C LL A V HI a sa Ha Ra) as [_ Ka].
      destruct (znode_log_in cfg Ps g C LL A V HI a sa Ha Ra) as [Hza _]. destruct (zs_in _ _ _ _ _ _ Hza _ ea Hea) as (Ia & (pa & Pa) & _).
      assert (E : key ea = key e).
      { apply (zCK_same_idx cfg Ps HVn g C LL A V HI _ _ _ _ (Ka _ ea Hea Hi) Hck). unfold key. simpl. exact Ia. }
      apply (co_fun C HC ea pa e p Pa Pe E).
  Qed.
End Acks.

Theorem acknowledged_entries_are_permanent_snapshots : forall cfg g0 ls g,
  cinit_snap_ok cfg g0 -> Forall label_ok ls -> crun true [cfg] g0 ls = Some g ->
  acks_permanent_snap (run_acks true [cfg] g0 ls) g.
Proof.
  intros cfg g0 ls g H0 Hls Hrun. pose proof H0 as ((_ & _ & _ & _ & HVn & _) & _).
  destruct (cinit_zinv cfg g0 H0) as (C0 & LL0 & A0 & V0 & HI0).
  apply (zackinv_permanent cfg (map gn_P (cnodes g0)) HVn).
  apply (crun_zackinv cfg (map gn_P (cnodes g0)) HVn true ls g0 [] g); [|exact Hls|exact Hrun].
  exists C0, LL0, A0, V0. split; [exact HI0|constructor].
Qed.

(* at the acknowledging step: the acting leader has the entry at its index, at or below the commit index it installs *)
Theorem acks_are_committed_when_answered_snapshots : forall cfg g0 ls g l g' T e,
  cinit_snap_ok cfg g0 -> Forall label_ok ls -> crun true [cfg] g0 ls = Some g ->
  cstep true [cfg] g l = Some g' -> In (T, e) (step_acks g l) ->
  exists i n' s', l = CCommit i /\ find_node (cnodes g') i = Some n' /\ gn_run n' = Up s' /\ v_role s' = Leader /\
    v_term s' = T /\ e_idx e <= v_commit s' /\ d_log s' !! e_idx e = Some e.
Proof.
  intros cfg g0 ls g l g' T e H0 Hls Hrun Hstep Hin. pose proof H0 as ((_ & _ & _ & _ & HVn & _) & _).
  destruct (crun_zinv cfg (map gn_P (cnodes g0)) HVn true ls g0 g (cinit_zinv cfg g0 H0) Hls Hrun) as (C & LL & A & V & HI).
  destruct (step_acks_other g l T e Hin) as [i ->].
  destruct (zack_step_facts cfg _ HVn true g C LL A V i g' T e HI Hstep Hin) as (_ & n' & s' & H1 & H2 & H3 & H4 & _ & H6 & H7).
  exists i, n', s'. auto 10.
Qed.

Print Assumptions acknowledged_entries_are_permanent_snapshots.
Print Assumptions acks_are_committed_when_answered_snapshots.
