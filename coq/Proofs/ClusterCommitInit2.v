(* ClusterCommitInit2.v — the initial states of Proofs/ClusterCommitSpec.v satisfy the invariant of
   Proofs/ClusterCommitInv.v: the ghost history is the common initial history, nobody has been
   elected, nothing was accepted, nobody voted. *)
From Coq Require Import List NArith Bool Lia.
From stdpp Require Import gmap.
From RaftModel Require Import Base Config Compaction Commitment Node NodeCodec Candidate Leader Replicate Cluster ClusterLog ClusterCommit.
From RaftProofs Require Import ConfigProofs VoteProofs ClusterProofs
  ClusterLogSpec ClusterLogChain ClusterLogNode ClusterLogVote ClusterLogInv ClusterLogSteps ClusterLogInit
  ClusterCommitSpec ClusterCommitChain ClusterCommitAE2 ClusterCommitNode ClusterCommitGhost ClusterCommitInv.
Open Scope N_scope.

(* Proofs/ClusterLogInit.v linit_linv, with the history it builds made explicit *)
Lemma linit_linv_base cfgs g0 : linit_ok g0 ->
  exists base, hist_ok (0, 0) base /\ linv cfgs g0 (base_chain (0, 0) base) /\
    forall n, In n (g_nodes (lg_g g0)) -> node_init base n.
Proof.
  intros (Hg & Hmsgs & base & Hh & Hnodes). exists base. split; [exact Hh|]. split; [|exact Hnodes].
  pose proof Hg as (_ & Hn0 & _ & Hl0 & _). constructor.
  - apply ginit_inv. exact Hg.
  - apply base_chain_ok. exact Hh.
  - intros n Hin. destruct (Hnodes n Hin) as (Hsn & Hterm & k & Hp & Hrun).
    pose proof (prefix_log_in base k _ _ Hh Hp Hterm) as Hli.
    pose proof (prefix_below base k _ Hh Hp) as Hlb.
    destruct (gn_run n) as [s|s] eqn:Er; simpl in *.
    + destruct Hrun as (Hrole & Hsi & Hck). split.
      * destruct (last_key_facts base k (d_term s) Hh (proj1 Hp) Hterm) as [F1 F2].
        rewrite <- Hck in F1, F2, Hlb. simpl in F1, F2.
        split; [exact Hsn|]. split; [exact Hli|]. split; [exact Hsi|]. split; [exact F1|]. split; [exact F2|exact Hlb].
      * intros s0 Hs0 Hr. rewrite Er in Hs0. inversion Hs0; subst s0. exfalso. apply Hrole. exact Hr.
    + split; [|intros s0 Hs0; rewrite Er in Hs0; discriminate].
      split; [exact Hsn|]. split; [exact Hli|]. eexists. exact Hlb.
  - intros e p Hin. right. intros n Hn.
    destruct (base_chain_in _ _ Hh e p Hin) as (He & _).
    destruct (Hnodes n Hn) as (_ & Hterm & _). split; [apply Hterm, He|].
    intros se Hse. destruct (Hn0 n Hn) as [_ Hs]. congruence.
  - rewrite Hl0. intros T i [].
  - rewrite Hmsgs. intros m [].
Qed.

(* the history as a chain: predecessors are created keys, everything lies on one branch *)
Lemma base_chain_pred prev es : hist_ok prev es -> forall e p, In (e, p) (base_chain prev es) ->
  p = prev \/ created (base_chain prev es) p.
Proof.
  revert prev. induction es as [|e0 r IH]; intros prev H e p Hin; simpl in *; [contradiction|].
  destruct H as (H1 & H2 & H3). destruct Hin as [E|Hin]; [inversion E; subst; left; reflexivity|].
  destruct (IH _ H3 e p Hin) as [->|(x & q & Hx & Ex)]; right.
  - exists e0, prev. split; [left; reflexivity|reflexivity].
  - exists x, q. split; [right; exact Hx|exact Ex].
Qed.

Lemma base_chain_nth prev es : forall e p, In (e, p) (base_chain prev es) -> exists k, nth_error es k = Some e.
Proof.
  revert prev. induction es as [|e0 r IH]; intros prev e p Hin; simpl in *; [contradiction|].
  destruct Hin as [E|Hin]; [inversion E; subst; exists 0%nat; reflexivity|].
  destruct (IH _ e p Hin) as [k Hk]. exists (S k). exact Hk.
Qed.

Lemma base_chain_inv base : hist_ok (0, 0) base -> chain_inv (base_chain (0, 0) base) [].
Proof.
  intros Hh. constructor.
  - apply base_chain_ok, Hh.
  - intros e p Hin. apply (base_chain_pred _ _ Hh e p Hin).
  - intros T c tl c' tl' [].
  - intros T c tl x p [].
  - intros T c tl x p [].
  - intros x p y q Hx Hy _ Hle.
    destruct (base_chain_nth _ _ x p Hx) as [kx Hkx]. destruct (base_chain_nth _ _ y q Hy) as [ky Hky].
    pose proof (hist_idx _ _ Hh kx x Hkx) as Ix. pose proof (hist_idx _ _ Hh ky y Hky) as Iy. simpl in Ix, Iy.
    apply (base_chain_anc (base_chain (0, 0) base) (0, 0) base (incl_refl _) ky y Hky) with (k' := kx); [lia|exact Hkx].
  - intros T c tl [].
  - intros T c tl [].
  - intros x p _. right. intros T c tl [].
Qed.

Lemma prefix_some base k m i : log_prefix base k m -> 1 <= i <= N.of_nat k -> is_Some (m !! i).
Proof.
  intros [Hk H] Hi. rewrite H. destruct (N.leb_spec 1 i); [|lia]. destruct (N.leb_spec i (N.of_nat k)); [|lia]. simpl.
  destruct (nth_error base (N.to_nat (i - 1))) as [e|] eqn:E; [eauto|]. apply nth_error_None in E. lia.
Qed.

Lemma prefix_lcontig base k m : log_prefix base k m -> lcontig m.
Proof.
  intros Hp i Hi [e He]. pose proof Hp as [_ H]. rewrite H in He.
  destruct (N.leb_spec 1 i); [|discriminate]. destruct (N.leb_spec i (N.of_nat k)); [|discriminate].
  apply (prefix_some base k m (i - 1) Hp). lia.
Qed.

Lemma last_key_idx base k : hist_ok (0, 0) base -> (k <= length base)%nat -> fst (last_key base k) = N.of_nat k.
Proof.
  intros Hh Hk. destruct k as [|k']; [reflexivity|]. unfold last_key.
  destruct (nth_error base k') as [e|] eqn:E; [|apply nth_error_None in E; lia].
  unfold key. cbn [fst]. rewrite (hist_idx _ _ Hh k' e E). simpl. lia.
Qed.

Lemma prefix_top base k m : hist_ok (0, 0) base -> log_prefix base k m -> top_of m (N.of_nat k).
Proof.
  intros Hh Hp. split.
  - intros i Hi. destruct Hp as [_ H]. rewrite H. destruct (N.leb_spec i (N.of_nat k)); [lia|]. rewrite andb_false_r. reflexivity.
  - intros Hpos. apply (prefix_some base k m _ Hp). lia.
Qed.

Theorem cinit_cinv cfg g0 : cinit_ok cfg g0 ->
  exists C, cinv cfg (map gn_P (cnodes g0)) g0 C [] [] [].
Proof.
  intros (Hlin & Hlead & Hhb & Hans & HV & Hcn).
  destruct (linit_linv_base [cfg] (cg_l g0) Hlin) as (base & Hh & Hlinv & Hni).
  pose proof Hlin as ((_ & Hn0 & _ & Hl0 & Hg0) & Hm0 & _).
  exists (base_chain (0, 0) base). constructor.
  - exact Hlinv.
  - apply base_chain_inv, Hh.
  - constructor.
    + intros w T' c kw rq k k0 [].
    + intros T' c tl' [].
    + intros w T' c kw rq [].
    + intros w k [].
  - intros T c. unfold gof. rewrite Hl0. split; [intros []|intros (tl & [])].
  - intros n Hin. destruct (Hcn n Hin) as (Hrc & _ & Hce & Hup). destruct (Hni n Hin) as (_ & _ & k & Hp & Hrun).
    split; [exact Hrc|]. split; [apply in_map, Hin|].
    assert (Hdec : log_dec cfg (map gn_P (cnodes g0)) (d_log (image (gn_run n)))).
    { intros i e He Hty P HP. apply in_map_iff in HP. destruct HP as (n' & <- & Hn'). apply (Hce i e He Hty n' Hn'). }
    destruct (gn_run n) as [s|s]; simpl in *.
    + destruct Hrun as (_ & _ & Hck). destruct Hup as (U1 & U2 & U3 & U4).
      split; [eapply prefix_lcontig; eauto|]. split; [exact Hdec|]. split.
      { replace (v_lastLogIdx s) with (N.of_nat k); [eapply prefix_top; eauto|].
        rewrite <- (last_key_idx base k Hh (proj1 Hp)), <- Hck. reflexivity. }
      split; [exact U3|]. split; [exact U4|lia].
    + split; [eapply prefix_lcontig; eauto|exact Hdec].
  - intros n s Hin Hr. destruct (Hcn n Hin) as (_ & _ & _ & Hup). rewrite Hr in Hup. destruct Hup as (U1 & _).
    rewrite U1. split; [lia|]. intros i e He Hi. exfalso.
    destruct (li_nodes [cfg] _ _ Hlinv n Hin) as [Hnl _]. rewrite Hr in Hnl. destruct Hnl as (_ & Hli & _).
    pose proof (log_in_pos _ _ _ i e (li_chain [cfg] _ _ Hlinv) Hli He). lia.
  - intros n s Hin Hr Hrole. exfalso. destruct (Hni n Hin) as (_ & _ & k & _ & Hrun). rewrite Hr in Hrun. tauto.
  - rewrite Hm0. intros m [].
  - rewrite Hans. intros x [].
  - intros w k [].
  - intros w k n k0 [].
  - intros w T' c kw rq [].
  - intros w T' c kw rq nc se [].
  - unfold gof. rewrite Hg0. intros w T' c [].
  - intros n T' c Hin Hlv. destruct (Hcn n Hin) as (_ & Hnl & _). rewrite Hnl in Hlv. discriminate.
  - intros n se Hin Hse. destruct (Hn0 n Hin) as [_ Hs]. unfold cnodes in Hin. congruence.
  - intros n se Hin Hse. destruct (Hn0 n Hin) as [_ Hs]. unfold cnodes in Hin. congruence.
Qed.
