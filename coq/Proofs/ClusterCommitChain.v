(* ClusterCommitChain.v — more about the ghost history of created entries (Proofs/ClusterLogChain.v):
   created keys, stability of the ancestor relation when the history grows, what a log that lies
   below a key holds. *)
From Coq Require Import List NArith Bool Lia.
From stdpp Require Import gmap.
From RaftModel Require Import Base Node.
From RaftProofs Require Import ClusterLogSpec ClusterLogChain ClusterLogNode.
Open Scope N_scope.

(* k is the (index, term) of an entry that was created *)
Definition created (C : chain) (k : N * N) : Prop := exists x p, In (x, p) C /\ key x = k.

Lemma created_mono C C' k : incl C C' -> created C k -> created C' k.
Proof. intros Hi (x & p & H & E). exists x, p. auto. Qed.

Lemma created_pos C k : chain_ok C -> created C k -> 1 <= fst k.
Proof. intros HC (x & p & H & <-). destruct (co_idx C HC x p H). unfold key. simpl. lia. Qed.

(* a proper ancestor is the root or a created key; so is every ancestor of a created key or of the root *)
Lemma anc_inv C a k : anc C a k -> a = k \/ exists e p, In (e, p) C /\ key e = k /\ anc C a p.
Proof. intros H. destruct H as [|e p k Hin Hk Hap]; [left; reflexivity|right; eauto]. Qed.

Lemma anc_root C a : anc C a (0, 0) -> chain_ok C -> a = (0, 0).
Proof.
  intros H HC. destruct (anc_inv C a _ H) as [E|(e & p & Hin & Hk & _)]; [exact E|].
  destruct (co_idx C HC e p Hin) as [A _]. unfold key in Hk. inversion Hk. lia.
Qed.

(* the history only grows by entries with fresh keys: the ancestors of an old key do not change *)
Lemma anc_stable C C' a k : chain_ok C' -> incl C C' ->
  (created C k \/ k = (0, 0)) ->
  (forall e p, In (e, p) C -> p = (0, 0) \/ created C p) ->
  anc C' a k -> anc C a k.
Proof.
  intros HC' Hi Hk Hpred H. induction H as [|e p k Hin Hke Hap IH]; [apply anc_refl|].
  destruct Hk as [(x & q & Hx & Ex)|Ek].
  - assert (E : e = x /\ p = q).
    { apply (co_fun C' HC' e p x q Hin (Hi _ Hx)). congruence. }
    destruct E as [-> ->]. eapply anc_up; [exact Hx|exact Ex|].
    apply IH. destruct (Hpred x q Hx) as [->|Hc]; auto.
  - subst k. exfalso. destruct (co_idx C' HC' e p Hin) as [A _]. unfold key in Hke. inversion Hke. lia.
Qed.

(* m holds key k *)
Definition holds (m : gmap N entry) (k : N * N) : Prop := exists x, m !! fst k = Some x /\ key x = k.

Lemma holds_sub m m' k : log_sub m m' -> holds m k -> holds m' k.
Proof. intros Hs (x & H & E). exists x. auto. Qed.

(* hole-free from index 1 up *)
Definition lcontig (m : gmap N entry) : Prop := forall i, 1 < i -> is_Some (m !! i) -> is_Some (m !! (i - 1)).

Lemma lcontig_down m : lcontig m -> forall i j, is_Some (m !! j) -> 1 <= i -> i <= j -> is_Some (m !! i).
Proof.
  intros Hc i j Hj Hi Hij. remember (N.to_nat (j - i)) as d eqn:Ed. revert j Hj Hij Ed.
  induction d as [|d IH]; intros j Hj Hij Ed.
  - assert (i = j) by lia. subst. exact Hj.
  - apply (IH (j - 1)); [apply Hc; [lia|exact Hj]|lia|lia].
Qed.

(* a hole-free log whose entries are all ancestors of top holds every ancestor of each of its keys *)
Lemma holds_anc C m dt top k k0 : chain_ok C -> log_in C m dt -> log_below C m top -> lcontig m ->
  holds m k -> anc C k0 k -> 1 <= fst k0 -> holds m k0.
Proof.
  intros HC Hin Hbel Hc (x & Hx & Ex) Ha Hpos.
  destruct (anc_le C k0 k HC Ha) as [Hle _].
  destruct (lcontig_down m Hc (fst k0) (fst k) (ex_intro _ x Hx) Hpos Hle) as [y Hy].
  exists y. split; [exact Hy|].
  destruct (Hin _ y Hy) as (Iy & _). destruct (Hin _ x Hx) as (Ix & _).
  assert (A1 : anc C (key y) k).
  { rewrite <- Ex. apply (anc_linear C (key y) (key x) top HC (Hbel _ y Hy) (Hbel _ x Hx)). unfold key. simpl. lia. }
  apply (anc_unique C (key y) k0 k HC A1 Ha). unfold key. simpl. exact Iy.
Qed.

(* the entry a log holds at an index is determined by any key above it that the log holds *)
Lemma holds_below C m dt top k i y : chain_ok C -> log_in C m dt -> log_below C m top ->
  holds m k -> m !! i = Some y -> i <= fst k -> anc C (key y) k.
Proof.
  intros HC Hin Hbel (x & Hx & Ex) Hy Hle. rewrite <- Ex.
  destruct (Hin _ y Hy) as (Iy & _). destruct (Hin _ x Hx) as (Ix & _).
  apply (anc_linear C (key y) (key x) top HC (Hbel _ y Hy) (Hbel _ x Hx)). unfold key. simpl. rewrite Iy, Ix. rewrite <- Ex in Hle. simpl in Hle. lia.
Qed.

Lemma key_eq_entry C x p y q : chain_ok C -> In (x, p) C -> In (y, q) C -> key x = key y -> x = y.
Proof. intros HC H1 H2 E. apply (co_fun C HC x p y q H1 H2 E). Qed.
