(* ClusterLogVote.v — the events that never touch the log store (RequestVote, pre-vote, restart,
   TimeoutNow) keep the node part of the Log Matching invariant. *)
From Coq Require Import List NArith Bool Lia.
From stdpp Require Import gmap.
From RaftModel Require Import Base Config Compaction Node NodeCodec.
From RaftProofs Require Import VoteProofs AdvLeaderProofs RecoverProofs ClusterLogSpec ClusterLogChain ClusterLogNode ClusterLogCut.
Open Scope N_scope.

(* log store, snapshot store and the cached indices are untouched *)
Definition lkeep (s' s : nstate) : Prop :=
  d_log s' = d_log s /\ d_snaps s' = d_snaps s /\ v_lastLogIdx s' = v_lastLogIdx s /\
  v_lastLogTerm s' = v_lastLogTerm s /\ v_lastSnapIdx s' = v_lastSnapIdx s.

Lemma lkeep_refl s : lkeep s s.
Proof. repeat split. Qed.

Lemma lkeep_trans a b c : lkeep a b -> lkeep b c -> lkeep a c.
Proof. intros (A1 & A2 & A3 & A4 & A5) (B1 & B2 & B3 & B4 & B5). repeat split; congruence. Qed.

Lemma nlog_up_keep C s s' : nlog_up C s -> lkeep s' s -> d_term s <= d_term s' -> nlog_up C s'.
Proof.
  intros (A & B & D & E & F & G) (K1 & K2 & K3 & K4 & K5) Ht. unfold nlog_up.
  rewrite K1, K2, K3, K4, K5. split; [exact A|]. split; [eapply log_in_sub; [apply log_sub_refl|exact Ht|exact B]|].
  split; [exact D|]. split; [lia|]. split; [exact F|exact G].
Qed.

(* the trace holds no store/delete, and at most one successful term write, to a term not below *)
Definition term_only (s : nstate) (tr : list ev) : Prop :=
  tlf tr = [] \/ exists t, tlf tr = [ESetTerm t true] /\ d_term s <= t.

Lemma prefixes_term_only C s tr : good_tl C (tlp s) -> term_only s tr -> prefixes_good C s tr.
Proof.
  intros Hg [E|(t & E & Ht)] j; rewrite E.
  - destruct j; exact Hg.
  - destruct j as [|[|j]]; simpl; try exact Hg.
    all: destruct Hg as [A B]; split; [|exact B]; simpl in *; eapply log_in_sub; [apply log_sub_refl|exact Ht|exact A].
Qed.

Lemma persist_vote_keep s fs t c :
  let '(s', _, tr, _) := persist_vote s fs t c in
  lkeep s' s /\ d_term s' = d_term s /\ v_role s' = v_role s /\ v_term s' = v_term s /\ tlf tr = [].
Proof.
  pose proof (persist_vote_spec s fs t c) as H.
  destruct (persist_vote s fs t c) as [[[s' ok] tr] fs'].
  destruct H as [(-> & _ & ->)|[(-> & _ & ->)|(-> & _ & ->)]]; repeat split.
Qed.

Lemma request_vote_keep s fs q : wfu s ->
  match request_vote s fs q with
  | Done s' r tr fs' =>
      lkeep s' s /\ d_term s <= d_term s' /\
      (v_role s' = Leader -> v_role s = Leader /\ v_term s' = v_term s) /\ term_only s tr
  | Panic s' tr => term_only s tr
  end.
Proof.
  intros [Hwd Hvt].
  assert (Hsame : lkeep s s /\ d_term s <= d_term s /\ (v_role s = Leader -> v_role s = Leader /\ v_term s = v_term s) /\ term_only s []).
  { split; [apply lkeep_refl|]. split; [lia|]. split; [auto|left; reflexivity]. }
  unfold request_vote.
  destruct (negb (vq_id q =? 0) && nonempty (v_latest s) && negb (in_config (v_latest s) (vq_id q))); [exact Hsame|].
  destruct (negb (v_leader s =? 0) && negb (v_leader s =? vq_addr q) && negb (vq_transfer q)); [exact Hsame|].
  destruct (vq_term q <? v_term s); [exact Hsame|].
  destruct (N.ltb_spec (v_term s) (vq_term q)) as [Hlt|Hge].
  - unfold do_set_term. destruct (next_fail fs) as [f fs1]. destruct f.
    { left. reflexivity. }
    set (s1 := set_vol_term (set_durable_term (set_state s Follower) (vq_term q)) (vq_term q)).
    assert (K1 : lkeep s1 s) by (repeat split).
    assert (T1 : d_term s1 = vq_term q) by reflexivity.
    assert (R1 : v_role s1 = Follower) by reflexivity.
    assert (Htr : term_only s [ESetTerm (vq_term q) true]).
    { right. exists (vq_term q). split; [reflexivity|lia]. }
    assert (G : lkeep s1 s /\ d_term s <= d_term s1 /\ (v_role s1 = Leader -> v_role s = Leader /\ v_term s1 = v_term s) /\
                term_only s [ESetTerm (vq_term q) true]).
    { split; [exact K1|]. split; [rewrite T1; lia|]. split; [rewrite R1; discriminate|exact Htr]. }
    destruct (negb (vq_id q =? 0) && nonempty (v_latest s1) && negb (has_vote (v_latest s1) (vq_id q))); [exact G|].
    destruct (if d_vterm s1 =? vq_term q then d_vcand s1 else None); [exact G|].
    destruct (negb (log_ok s1 (vq_lastIdx q) (vq_lastTerm q))); [exact G|].
    pose proof (persist_vote_keep s1 fs1 (vq_term q) (vq_addr q)) as Hp.
    destruct (persist_vote s1 fs1 (vq_term q) (vq_addr q)) as [[[s2 ok] tr2] fs2].
    destruct Hp as (P1 & P2 & P3 & P4 & P5).
    split; [eapply lkeep_trans; eauto|]. split; [rewrite P2, T1; lia|].
    split; [rewrite P3, R1; discriminate|]. right. exists (vq_term q).
    split; [|lia]. change (tlf (ESetTerm (vq_term q) true :: tr2) = [ESetTerm (vq_term q) true]).
    unfold tlf in *. simpl. rewrite P5. reflexivity.
  - destruct (negb (vq_id q =? 0) && nonempty (v_latest s) && negb (has_vote (v_latest s) (vq_id q))); [exact Hsame|].
    destruct (if d_vterm s =? vq_term q then d_vcand s else None); [exact Hsame|].
    destruct (negb (log_ok s (vq_lastIdx q) (vq_lastTerm q))); [exact Hsame|].
    pose proof (persist_vote_keep s fs (vq_term q) (vq_addr q)) as Hp.
    destruct (persist_vote s fs (vq_term q) (vq_addr q)) as [[[s2 ok] tr2] fs2].
    destruct Hp as (P1 & P2 & P3 & P4 & P5).
    split; [exact P1|]. split; [lia|]. split; [rewrite P3, P4; auto|]. left. simpl. exact P5.
Qed.

(* what the cluster-level proof needs from one event at one server *)
Definition step_post (C : chain) (r r' : nrun) : Prop :=
  nlog C r' /\
  forall s', r' = Up s' -> v_role s' = Leader ->
    exists s, r = Up s /\ v_role s = Leader /\ v_term s' = v_term s /\ v_lastLogIdx s' = v_lastLogIdx s.

Definition simple_event (e : nevent) : Prop :=
  match e with NVote _ | NPreVote _ | NRestart | NTimeoutNow => True | _ => False end.

Lemma simple_step C P r e cut fs r' ob out : chain_ok C -> wfr r -> nlog C r -> simple_event e ->
  step_full P r e cut fs = (r', ob, out) -> step_post C r r'.
Proof.
  intros HC Hw Hn He. unfold step_full.
  assert (Hrestart : forall rr oo, boot P (image r) = (rr, oo) -> step_post C r rr).
  { intros rr oo HB. destruct (boot_nlog C P _ rr oo HC (nlog_image C r Hn) HB) as (A & _ & _ & D).
    split; [exact A|]. intros s' Hs' Hr. rewrite (D s' Hs') in Hr. discriminate. }
  assert (Hsame : step_post C r r).
  { split; [exact Hn|]. intros s' Hs' Hr. exists s'. auto. }
  destruct r as [s|s]; destruct e as [q|q|a|q| | | | |]; try contradiction.
  - (* vote *)
    intros HF. pose proof (request_vote_keep s fs q Hw) as Hk. simpl in Hn.
    assert (H1 : prefixes_good C s (trace_of (request_vote s fs q))).
    { apply prefixes_term_only; [apply nlog_img_good, nlog_up_img, Hn|].
      destruct (request_vote s fs q); simpl; [apply Hk|exact Hk]. }
    assert (H2 : forall s' rr tr fs', request_vote s fs q = Done s' rr tr fs' -> nlog_up C s').
    { intros s' rr tr fs' Ho. rewrite Ho in Hk. destruct Hk as (K1 & K2 & _). eapply nlog_up_keep; eauto. }
    assert (Hsn : d_snaps s = []) by apply Hn.
    destruct (finish_nlog C P _ _ s cut _ r' ob out HC Hsn H1 H2 HF) as [A B].
    split; [exact A|]. intros s' Hs' Hr. destruct (B s' Hs' Hr) as (rr & tr & fs' & Ho).
    rewrite Ho in Hk. destruct Hk as ((_ & _ & K3 & _) & _ & K & _). destruct (K Hr) as [K1 K2].
    exists s. auto.
  - destruct (request_prevote s q) as [t g]. intros H; inversion H; subst. exact Hsame.
  - intros H; inversion H; subst. split.
    + simpl. eapply nlog_up_keep; [exact Hn|repeat split|simpl; lia].
    + intros s' Hs' Hr. inversion Hs'; subst. change (v_role (timeout_now s)) with Candidate in Hr. discriminate.
  - destruct (boot P (image (Up s))) as [rr oo] eqn:EB. intros H; inversion H; subst r' ob out. exact (Hrestart _ _ eq_refl).
  - intros H; inversion H; subst. exact Hsame.
  - intros H; inversion H; subst. exact Hsame.
  - intros H; inversion H; subst. exact Hsame.
  - destruct (boot P (image (Down s))) as [rr oo] eqn:EB. intros H; inversion H; subst r' ob out. exact (Hrestart _ _ eq_refl).
Qed.
