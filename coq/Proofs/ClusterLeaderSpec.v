(* ClusterLeaderSpec.v — statements about WHO acts as leader, over ALL RUNS of the cluster with
   commitment (Model/ClusterCommit.v); proofs in Proofs/ClusterLeaderMain.v.

   g_leaders (Model/Cluster.v) is the ghost record of every transition to Leader: (term, server).

   1. one_leader_per_term: two records of one term name one server (Election Safety, restated for this
      system: Props/C01.v proves it for the election system Model/Cluster.v that this one extends).
   2. ae_senders_are_leaders (C01 "no two servers ... send AppendEntries as leader for the same term"):
      every AppendEntries request and heartbeat ever built carries as Term a term its SENDER was elected
      leader of, and names the sender as leader.  With 1: all requests of one term come from one server.
   3. advertised_leaders_are_leaders (C18 "Leader()/LeaderWithID() on a follower name only a server that
      really was leader of the follower's current term"): the leader a running server advertises
      (v_leaderId <> 0) was elected leader of that server's current term.
   4. leaders_are_recorded: a server in role Leader is recorded for its current term (so that 1 says:
      at most one server acts as Leader of a term). *)
From Coq Require Import List NArith Bool Lia.
From stdpp Require Import gmap.
From RaftModel Require Import Base Config Compaction Commitment Node NodeCodec Candidate Leader Replicate Cluster ClusterLog ClusterCommit.
From RaftProofs Require Import ClusterCommitSpec ClusterCommitSnapSpec.
Open Scope N_scope.

Definition leaders_of (g : cgstate) : list (N * N) := g_leaders (lg_g (cg_l g)).

Definition one_leader_per_term (g : cgstate) : Prop :=
  forall T i i', In (T, i) (leaders_of g) -> In (T, i') (leaders_of g) -> i = i'.

Definition ae_senders_are_leaders (g : cgstate) : Prop :=
  forall m, In m (lg_msgs (cg_l g)) ->
    In (aq_term (am_req m), am_from m) (leaders_of g) /\ aq_id (am_req m) = am_from m.

Definition advertised_leaders_are_leaders (g : cgstate) : Prop :=
  forall n s, In n (cnodes g) -> gn_run n = Up s -> v_leaderId s <> 0 ->
    In (v_term s, v_leaderId s) (leaders_of g).

Definition leaders_are_recorded (g : cgstate) : Prop :=
  forall n s, In n (cnodes g) -> gn_run n = Up s -> v_role s = Leader ->
    In (v_term s, gn_id n) (leaders_of g).

(* freshly booted servers advertise nobody (NewRaft: setLeader is never called before the main loop runs) *)
Definition nobody_advertised (g : cgstate) : Prop :=
  forall n s, In n (cnodes g) -> gn_run n = Up s -> v_leaderId s = 0.
