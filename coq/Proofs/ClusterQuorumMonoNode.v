(* ClusterQuorumMonoNode.v — what one step of ONE server does to its commit index: every handler that
   returns, every candidate-loop step, dispatchLogs and setState keep it; appendEntries and the leader's
   commitCh case only raise it.  (A process that dies inside a handler is restarted by the same model
   step: NewRaft starts at 0 — Proofs/ClusterQuorumMonoCex.v.) *)
From Coq Require Import List NArith Bool Lia.
From stdpp Require Import gmap.
From RaftModel Require Import Base Config Compaction Commitment Node NodeCodec Candidate Leader Cluster.
Open Scope N_scope.

(* ---------------------------------------------------------------- primitives *)
Lemma do_set_term_commit s fs t s1 fs1 : do_set_term s fs t = Some (s1, fs1) -> v_commit s1 = v_commit s.
Proof. unfold do_set_term. destruct (next_fail fs) as [f fs']. destruct f; [discriminate|]. intros H; inversion H; subst. reflexivity. Qed.

Lemma persist_vote_commit s fs t c s2 ok tr2 fs2 : persist_vote s fs t c = (s2, ok, tr2, fs2) -> v_commit s2 = v_commit s.
Proof.
  unfold persist_vote. destruct (next_fail fs) as [f1 fs1]. destruct f1; [intros H; inversion H; subst; reflexivity|].
  destruct (next_fail fs1) as [f2 fs2']. destruct f2; intros H; inversion H; subst; reflexivity.
Qed.

Lemma do_stage_commit P s c : v_commit (fst (do_stage P s c)) = v_commit s.
Proof. unfold do_stage. destruct (p_track P); reflexivity. Qed.

Lemma do_store_commit P s fs es : v_commit (fst (fst (do_store P s fs es))) = v_commit s.
Proof. unfold do_store. destruct (next_fail fs) as [f fs']. destruct f; reflexivity. Qed.

Lemma do_delete_commit s fs lo hi : v_commit (fst (fst (do_delete s fs lo hi))) = v_commit s.
Proof. unfold do_delete. destruct (next_fail fs) as [f fs']. destruct f; reflexivity. Qed.

Lemma fold_config_commit P es : forall s, v_commit (fold_left (process_config_entry P) es s) = v_commit s.
Proof.
  induction es as [|e r IH]; intros s; simpl; [reflexivity|]. rewrite IH. unfold process_config_entry.
  destruct (e_ty e =? LogConfiguration); reflexivity.
Qed.

(* what an outcome leaves in the commit index, whether the handler returned or panicked *)
Definition out_commit {R} (o : outcome R) : N := match o with Done s _ _ _ => v_commit s | Panic s _ => v_commit s end.

(* ---------------------------------------------------------------- RequestVote *)
Lemma request_vote_commit s fs q s' r tr fs' : request_vote s fs q = Done s' r tr fs' -> v_commit s' = v_commit s.
Proof.
  unfold request_vote.
  destruct (negb (vq_id q =? 0) && nonempty (v_latest s) && negb (in_config (v_latest s) (vq_id q))); [intros H; inversion H; subst; reflexivity|].
  destruct (negb (v_leader s =? 0) && negb (v_leader s =? vq_addr q) && negb (vq_transfer q)); [intros H; inversion H; subst; reflexivity|].
  destruct (vq_term q <? v_term s); [intros H; inversion H; subst; reflexivity|].
  cbv zeta.
  assert (Hpre : forall s1 fs1 tr1,
            (if v_term s <? vq_term q
             then match do_set_term (set_state s Follower) fs (vq_term q) with
                  | Some (s1, fs1) => Some (s1, fs1, [ESetTerm (vq_term q) true]) | None => None end
             else Some (s, fs, [])) = Some (s1, fs1, tr1) -> v_commit s1 = v_commit s).
  { intros s1 fs1 tr1. destruct (v_term s <? vq_term q).
    - destruct (do_set_term (set_state s Follower) fs (vq_term q)) as [[sa fsa]|] eqn:E; [|discriminate].
      intros H; inversion H; subst. apply do_set_term_commit in E. exact E.
    - intros H; inversion H; subst. reflexivity. }
  destruct (if v_term s <? vq_term q then _ else _) as [[[s1 fs1] tr1]|] eqn:E; [|discriminate].
  specialize (Hpre s1 fs1 tr1 eq_refl).
  destruct (negb (vq_id q =? 0) && nonempty (v_latest s1) && negb (has_vote (v_latest s1) (vq_id q))); [intros H; inversion H; subst; exact Hpre|].
  destruct (if d_vterm s1 =? vq_term q then d_vcand s1 else None); [intros H; inversion H; subst; exact Hpre|].
  destruct (negb (log_ok s1 (vq_lastIdx q) (vq_lastTerm q))); [intros H; inversion H; subst; exact Hpre|].
  destruct (persist_vote s1 fs1 (vq_term q) (vq_addr q)) as [[[s2 ok] tr2] fs2] eqn:EP.
  intros H; inversion H; subst. apply persist_vote_commit in EP. congruence.
Qed.

(* ---------------------------------------------------------------- takeSnapshot *)
Lemma take_snapshot_commit P s fs s' r tr fs' : take_snapshot P s fs = Done s' r tr fs' -> v_commit s' = v_commit s.
Proof.
  unfold take_snapshot. destruct (fsm_index s) as [fi ft].
  destruct (fi =? 0); [intros H; inversion H; subst; reflexivity|].
  destruct (fi <? v_committedIdx s); [intros H; inversion H; subst; reflexivity|].
  destruct (next_fail fs) as [fc fs1]. destruct fc; [intros H; inversion H; subst; reflexivity|].
  destruct (next_fail fs1) as [fcl fs2]. destruct fcl; [intros H; inversion H; subst; reflexivity|].
  cbv zeta. unfold run_compaction.
  destruct (compact _ _ _ _) as [[lo hi]|].
  - match goal with |- context [do_delete ?a ?b ?c ?d] => pose proof (do_delete_commit a b c d) as Hd; destruct (do_delete a b c d) as [[s2 ok] fs3] end.
    simpl in Hd. intros H; inversion H; subst. exact Hd.
  - intros H; inversion H; subst. reflexivity.
Qed.

Lemma timeout_now_commit s : v_commit (timeout_now s) = v_commit s.
Proof. reflexivity. Qed.

Lemma set_state_commit s r : v_commit (set_state s r) = v_commit s.
Proof. reflexivity. Qed.

(* ---------------------------------------------------------------- AppendEntries *)
Lemma process_logs_commit s idx s' tr : process_logs s idx = Some (s', tr) -> v_commit s' = v_commit s.
Proof.
  unfold process_logs. destruct (idx <=? v_applied s); [intros H; inversion H; subst; reflexivity|].
  destruct (collect_logs _ _ _); [|discriminate]. intros H; inversion H; subst. reflexivity.
Qed.

Lemma store_new_commit P fr lc s3 tr3 fs3 news :
  match store_new P fr lc s3 tr3 fs3 news with
  | inl (Some (st, _, _)) => v_commit st = v_commit s3
  | inl None => True
  | inr (_, st, _, _) => v_commit st = v_commit s3
  end.
Proof.
  unfold store_new. pose proof (do_stage_commit P s3 (N.min lc (e_idx (last_of news)))) as H4.
  destruct (do_stage P s3 _) as [s4 trs]. simpl in H4.
  pose proof (do_store_commit P s4 fs3 news) as H5. destruct (do_store P s4 fs3 news) as [[s5 ok] fs5]. simpl in H5.
  destruct ok; simpl; [|congruence]. rewrite fold_config_commit. congruence.
Qed.

Lemma ae_entries_commit P fr s2 tr1 fs1 a :
  match ae_entries P fr s2 tr1 fs1 a with
  | inl (Some (st, _, _)) => v_commit st = v_commit s2
  | inl None => True
  | inr (_, st, _, _) => v_commit st = v_commit s2
  end.
Proof.
  unfold ae_entries. destruct (aq_entries a) as [|e0 es0]; [reflexivity|].
  destruct (scan_entries _ _ _) as [news|ci news| |]; try reflexivity.
  - apply store_new_commit.
  - pose proof (do_delete_commit s2 fs1 ci (v_lastLogIdx s2)) as Hd.
    destruct (do_delete s2 fs1 ci (v_lastLogIdx s2)) as [[s3 ok] fs3]. simpl in Hd.
    destruct ok; simpl; [|exact Hd]. destruct (conflict_pred a news) as [pi pt].
    match goal with |- context [store_new P fr ?lc ?sx ?trx ?fsx news] =>
      pose proof (store_new_commit P fr lc sx trx fsx news) as Hs; destruct (store_new P fr lc sx trx fsx news) as [[[[st trx'] fsx']|]|[[[rsx st] trx'] fsx']];
      try exact I; rewrite Hs; destruct (ci <=? _); simpl; exact Hd end.
Qed.

Lemma ae_commit_mono okr s8 tr8 fs8 a s' r tr fs' : ae_commit okr s8 tr8 fs8 a = Done s' r tr fs' -> v_commit s8 <= v_commit s'.
Proof.
  unfold ae_commit. destruct ((0 <? aq_commit a) && (v_commit s8 <? aq_commit a)); [|intros H; inversion H; subst; lia].
  cbv zeta. destruct (N.ltb_spec (v_commit s8) (N.min (aq_commit a) (N.min (last_new a) (last_index s8)))) as [Hlt|Hge]; [|intros H; inversion H; subst; lia].
  match goal with |- context [process_logs ?x ?y] => destruct (process_logs x y) as [[s11 tra]|] eqn:EP; [|discriminate] end.
  intros H; inversion H; subst. apply process_logs_commit in EP. rewrite EP.
  match goal with |- context [if ?c then _ else _] => destruct c end; simpl; lia.
Qed.

Lemma ae_body_mono P s0 s2 rt tr1 fs1 a s' r tr fs' : ae_body P s0 s2 rt tr1 fs1 a = Done s' r tr fs' -> v_commit s2 <= v_commit s'.
Proof.
  unfold ae_body. destruct (prev_check s2 a) as [[|]|]; try (intros H; inversion H; subst; lia).
  match goal with |- context [ae_entries P ?fr s2 tr1 fs1 a] =>
    pose proof (ae_entries_commit P fr s2 tr1 fs1 a) as He; destruct (ae_entries P fr s2 tr1 fs1 a) as [[[[s8 tr8] fs8]|]|[[[resp st] tr'] fs'']] end.
  - intros H. apply ae_commit_mono in H. lia.
  - discriminate.
  - intros H; inversion H; subst. lia.
Qed.

Theorem append_entries_mono P s fs a s' r tr fs' : append_entries P s fs a = Done s' r tr fs' -> v_commit s <= v_commit s'.
Proof.
  unfold append_entries. destruct (aq_term a <? v_term s); [intros H; inversion H; subst; lia|]. cbv zeta.
  destruct ((v_term s <? aq_term a) || (negb (v_role s =? Follower) && negb (v_transfer s))).
  - destruct (do_set_term (set_state s Follower) fs (aq_term a)) as [[s1 fs1]|] eqn:E; [|discriminate].
    apply do_set_term_commit in E. intros H. apply ae_body_mono in H. simpl in H, E. lia.
  - intros H. apply ae_body_mono in H. simpl in H. lia.
Qed.

(* ---------------------------------------------------------------- runCandidate *)
Lemma elect_self_commit P s fs : out_commit (elect_self P s fs) = v_commit s.
Proof.
  unfold elect_self. cbv zeta. destruct (do_set_term s fs (v_term s + 1)) as [[s1 fs1]|] eqn:E; [|reflexivity].
  apply do_set_term_commit in E. destruct (last_entry s1) as [li lt].
  destruct (existsb _ _); [|exact E].
  destruct (persist_vote s1 fs1 (v_term s + 1) (p_self P)) as [[[s2 ok] tr2] fs2] eqn:EP.
  apply persist_vote_commit in EP. simpl. congruence.
Qed.

Lemma cand_enter_commit P pv s fs : out_commit (cand_enter P pv s fs) = v_commit s.
Proof.
  unfold cand_enter. cbv zeta. destruct (pv && negb (v_transfer s)); [reflexivity|].
  pose proof (elect_self_commit P s fs) as H. destruct (elect_self P s fs) as [s' [q self] tr fs'|s' tr]; exact H.
Qed.

Lemma on_prevote_commit P c s fs v : out_commit (on_prevote P c s fs v) = v_commit s.
Proof.
  unfold on_prevote. destruct (negb (c_prevote c)); [reflexivity|].
  destruct (c_term c <? vr_term v).
  - destruct (do_set_term (set_state s Follower) fs (vr_term v)) as [[s1 fs1]|] eqn:E; [|reflexivity].
    apply do_set_term_commit in E. exact E.
  - cbv zeta. destruct (c_needed c <=? _); [|reflexivity].
    pose proof (elect_self_commit P s fs) as H. destruct (elect_self P s fs) as [s' [q self] tr fs'|s' tr]; exact H.
Qed.

Lemma on_vote_commit P c s fs v : out_commit (on_vote P c s fs v) = v_commit s.
Proof.
  unfold on_vote. destruct (negb (c_voting c)); [reflexivity|].
  destruct (v_term s <? vr_term v).
  - destruct (do_set_term (set_state s Follower) fs (vr_term v)) as [[s1 fs1]|] eqn:E; [|reflexivity].
    apply do_set_term_commit in E. exact E.
  - cbv zeta. destruct (c_needed c <=? _); reflexivity.
Qed.

Lemma feed_self_commit P fuel : forall s c self tr, v_commit (sess_state (fst (feed_self P fuel s c self tr))) = v_commit s.
Proof.
  induction fuel as [|f IH]; intros s c self tr; destruct self as [|v rest]; try reflexivity.
  simpl.
  assert (H : out_commit (if c_prevote c then on_prevote P c s [] v else on_vote P c s [] v) = v_commit s).
  { destruct (c_prevote c); [apply on_prevote_commit|apply on_vote_commit]. }
  destruct (if c_prevote c then on_prevote P c s [] v else on_vote P c s [] v) as [s' [c' self'| |] tr' fs'|s' tr']; simpl in H.
  - rewrite IH. exact H.
  - exact H.
  - exact H.
  - exact H.
Qed.

Lemma exit_loop_commit x : v_commit (sess_state (fst (exit_loop x))) = v_commit (sess_state (fst x)).
Proof. destruct x as [[s c|s|s|s] tr]; reflexivity. Qed.

Lemma sess_enter_commit P pv s : v_commit (sess_state (fst (sess_enter P pv s))) = v_commit s.
Proof.
  unfold sess_enter. pose proof (cand_enter_commit P pv (set_state s Candidate) []) as H.
  destruct (cand_enter P pv (set_state s Candidate) []) as [s' [c self] tr fs'|s' tr]; simpl in H.
  - rewrite exit_loop_commit. etransitivity; [apply feed_self_commit|exact H].
  - exact H.
Qed.

Lemma sess_step_commit P pv s c e : v_commit (sess_state (fst (sess_step P pv (SCand s c) e))) = v_commit s.
Proof.
  destruct e as [v|v|]; unfold sess_step.
  - pose proof (on_prevote_commit P c s [] v) as H.
    destruct (on_prevote P c s [] v) as [s' [c' self'| |] tr' fs'|s' tr']; cbn [out_commit] in H; try exact H.
    rewrite exit_loop_commit. etransitivity; [apply feed_self_commit|exact H].
  - pose proof (on_vote_commit P c s [] v) as H.
    destruct (on_vote P c s [] v) as [s' [c' self'| |] tr' fs'|s' tr']; cbn [out_commit] in H; try exact H.
    rewrite exit_loop_commit. etransitivity; [apply feed_self_commit|exact H].
  - rewrite sess_enter_commit. reflexivity.
Qed.

(* ---------------------------------------------------------------- dispatchLogs, runLeader *)
Lemma dispatch_commit P ls fs reqs : v_commit (l_node (fst (fst (fst (dispatch P ls fs reqs))))) = v_commit (l_node ls).
Proof.
  unfold dispatch. cbv zeta.
  pose proof (do_stage_commit P (l_node ls) (v_commit (l_node ls))) as H1.
  destruct (do_stage P (l_node ls) (v_commit (l_node ls))) as [s1 trs]. simpl in H1.
  match goal with |- context [do_store P s1 fs ?es] => pose proof (do_store_commit P s1 fs es) as H2; destruct (do_store P s1 fs es) as [[s2 ok] fs'] end.
  simpl in H2. destruct ok; simpl; congruence.
Qed.

Lemma become_leader_commit P s : v_commit (become_leader P s) = v_commit s.
Proof. unfold become_leader. rewrite dispatch_commit. reflexivity. Qed.

(* ---------------------------------------------------------------- leaderLoop, case commitCh *)
Lemma process_logs_f_commit s infl idx s' tr res : process_logs_f s infl idx = Some (s', tr, res) -> v_commit s' = v_commit s.
Proof.
  unfold process_logs_f. destruct (idx <=? v_applied s); [intros H; inversion H; subst; reflexivity|].
  destruct (collect_with_futures _ _ _ _); [|discriminate]. intros H; inversion H; subst. reflexivity.
Qed.

Lemma leader_commit_commit ls ls2 tr res : leader_commit ls = Some (ls2, tr, res) -> v_commit (l_node ls2) = cm_commit (l_cm ls).
Proof.
  unfold leader_commit. cbv zeta. destruct (ready_prefix (l_inflight ls) (cm_commit (l_cm ls))) as [ready rest].
  match goal with |- context [process_logs_f ?x _ _] => set (s2 := x) end.
  assert (E2 : v_commit s2 = cm_commit (l_cm ls)) by (unfold s2; match goal with |- context [if ?c then _ else _] => destruct c end; reflexivity).
  destruct ready as [|x r].
  - intros H; inversion H; subst. exact E2.
  - destruct (process_logs_f s2 (x :: r) _) as [[[s3 tr3] res3]|] eqn:EP; [|discriminate].
    intros H; inversion H; subst. apply process_logs_f_commit in EP. simpl. congruence.
Qed.

(* ---------------------------------------------------------------- one event at one server *)
Lemma finish_cases {R} P (enc : R -> list N) (mk : R -> nobs) si s cut (o : outcome R) r' ob out :
  finish P enc mk si s cut o = (r', ob, out) ->
  ob = OLost \/ exists s1 r tr fs1, o = Done s1 r tr fs1 /\ r' = Up s1 /\ ob = mk r.
Proof.
  unfold finish. destruct o as [s1 r tr fs1|s1 tr].
  - destruct ((0 <? cut) && (N.to_nat cut <=? count_durable tr)%nat).
    + destruct (boot P _) as [rr oo]. intros H; inversion H; subst. left. reflexivity.
    + intros H; inversion H; subst. right. exists s1, r, tr, fs1. auto.
  - destruct (boot P _) as [rr oo]. intros H; inversion H; subst. left. reflexivity.
Qed.

(* a server that runs before and after an event other than a restart: its commit index did not go
   down, or the process died inside the handler (observation OLost) and was started again *)
Theorem step_full_commit P s e cut fs s' ob out : e <> NRestart ->
  match e with NInstall _ | NElect | NTimeoutDecision => False | _ => True end ->
  step_full P (Up s) e cut fs = (Up s', ob, out) -> v_commit s <= v_commit s' \/ ob = OLost.
Proof.
  intros Hnr Hev. destruct e as [q|q|a|q| | | | |]; try contradiction; simpl.
  - intros H. destruct (finish_cases _ _ _ _ _ _ _ _ _ _ H) as [Hl|(s1 & r & tr & fs1 & Hd & Hr & _)]; [right; exact Hl|left].
    inversion Hr; subst s1. apply request_vote_commit in Hd. lia.
  - destruct (request_prevote s q) as [t gr]. intros H; inversion H; subst. left. lia.
  - intros H. destruct (finish_cases _ _ _ _ _ _ _ _ _ _ H) as [Hl|(s1 & r & tr & fs1 & Hd & Hr & _)]; [right; exact Hl|left].
    inversion Hr; subst s1. apply append_entries_mono in Hd. exact Hd.
  - intros H; inversion H; subst. left. rewrite timeout_now_commit. lia.
  - destruct (fsm_index s) as [fi ft]. intros H.
    destruct (finish_cases _ _ _ _ _ _ _ _ _ _ H) as [Hl|(s1 & r & tr & fs1 & Hd & Hr & _)]; [right; exact Hl|left].
    inversion Hr; subst s1. apply take_snapshot_commit in Hd. lia.
Qed.

Lemma nevent_eq_restart e : e = NRestart \/ e <> NRestart.
Proof. destruct e; try (right; discriminate). left. reflexivity. Qed.
