(* ClusterSnapLMAE2.v — requests that are chains only ABOVE the snapshot bound B, and what appendEntries
   does with them to a log that is a chain only above B: the result is again a chain above B. *)
From Coq Require Import List NArith Bool Lia.
From stdpp Require Import gmap.
From RaftModel Require Import Base Config Compaction Node NodeCodec.
From RaftProofs Require Import AppendProofs RecoverProofs ConvergeFollower
  ClusterLogSpec ClusterLogChain ClusterLogNode ClusterLogCut ClusterLogAppend ClusterCommitChain
  ClusterCommitAE ClusterCommitAE2 ClusterCommitInv ClusterCommitSnapLog ClusterCommitSnapAE ClusterCommitSnapAE2 ClusterCommitSnapAE3
  ClusterSnapLMLog ClusterSnapLMAE.
Open Scope N_scope.

(* every entry whose predecessor position lies above B was created after its predecessor in the list *)
Fixpoint ychain (C : chain) (B : N) (p : N * N) (es : list entry) : Prop :=
  match es with
  | [] => True
  | e :: r => (B < fst p -> In (e, p) C) /\ ychain C B (key e) r
  end.

Lemma ychain_mono C C' B B' p es : incl C C' -> B <= B' -> ychain C B p es -> ychain C' B' p es.
Proof.
  intros Hi HB. revert p. induction es as [|e r IH]; intros p H; simpl in *; [exact I|].
  destruct H as [H1 H2]. split; [intros Hb; apply Hi, H1; lia|apply IH, H2].
Qed.

Lemma ychain_app C B p a b : ychain C B p (a ++ b) ->
  ychain C B p a /\ ychain C B (match a with [] => p | _ => key (last a (mkE 0 0 0 0)) end) b.
Proof.
  revert p. induction a as [|x r IH]; intros p H; simpl in *; [auto|].
  destruct H as [H1 H2]. destruct (IH _ H2) as [A B0]. split; [auto|]. destruct r as [|y r']; exact B0.
Qed.

(* above B the list is a chain: from p (if p is above B) to each element, from each element above B to the last one *)
Lemma ychain_from C B es : forall p, contig (fst p) es -> ychain C B p es -> B < fst p -> forall e, In e es -> anc C p (key e).
Proof.
  induction es as [|x r IH]; intros p Hc H Hb e He; [contradiction|]. destruct Hc as [Hx Hr]. destruct H as [H1 H2].
  assert (Hpx : anc C p (key x)) by (eapply anc_up; [apply H1, Hb|reflexivity|apply anc_refl]).
  destruct He as [<-|He]; [exact Hpx|]. eapply anc_trans; [exact Hpx|].
  apply (IH (key x)); [unfold key; simpl; rewrite Hx; exact Hr|exact H2|unfold key; simpl; lia|exact He].
Qed.

Lemma ychain_last C B es : forall p, contig (fst p) es -> ychain C B p es -> forall e, In e es -> B < e_idx e -> anc C (key e) (key (last es (mkE 0 0 0 0))).
Proof.
  induction es as [|x r IH]; intros p Hc H e He Hb; [contradiction|]. destruct Hc as [Hx Hr]. destruct H as [H1 H2].
  destruct r as [|y r'].
  - destruct He as [<-|[]]. apply anc_refl.
  - change (last (x :: y :: r') (mkE 0 0 0 0)) with (last (y :: r') (mkE 0 0 0 0)).
    assert (Hcr : contig (fst (key x)) (y :: r')) by (unfold key; simpl; rewrite Hx; exact Hr).
    destruct He as [<-|He]; [|apply (IH (key x) Hcr H2 e He Hb)].
    assert (Hl : In (last (y :: r') (mkE 0 0 0 0)) (y :: r')) by (apply last_in; discriminate).
    apply (ychain_from C B (y :: r') (key x) Hcr H2); [unfold key; simpl; exact Hb|exact Hl].
Qed.

Section Y.
  Variable C : chain.
  Hypothesis HC : chain_ok C.
  Variables (B : N) (s : nstate) (a : areq).
  Hypothesis HS : yup C B s.
  Hypothesis Hc : contig (aq_prevIdx a) (aq_entries a).
  Hypothesis Hcr : forall e, In e (aq_entries a) -> (exists p, In (e, p) C) /\ e_term e <= aq_term a.
  Hypothesis Hy : ychain C B (aq_prevIdx a, aq_prevTerm a) (aq_entries a).
  Hypothesis Hpt : aq_prevTerm a <= aq_term a.
  Hypothesis Hpz : aq_prevIdx a = 0 -> aq_prevTerm a = 0.
  Hypothesis HT : d_term s <= aq_term a.
  Hypothesis Hpk : prev_ok s a.

  Variables dup news : list entry.
  Hypothesis Hes : aq_entries a = dup ++ news.
  Hypothesis Hnn : news <> [].
  Hypothesis Hdup : forall e, In e dup -> exists se, d_log s !! e_idx e = Some se /\ e_term se = e_term e.

  Let qk := pred_key a dup.

  Lemma y_news_contig : contig (fst qk) news /\ ychain C B qk news.
  Proof.
    pose proof Hc as Hc'. pose proof Hy as Hy'. rewrite Hes in Hc', Hy'.
    destruct (contig_app _ _ _ Hc') as (Hcd & Hcn & _). destruct (ychain_app C B _ dup news Hy') as [_ Hyn].
    assert (Hd : dup = [] \/ dup <> []) by (clear; destruct dup; [left; reflexivity|right; discriminate]).
    destruct Hd as [Ed|Ed].
    - assert (Eq : qk = (aq_prevIdx a, aq_prevTerm a)) by (unfold qk, pred_key; rewrite Ed; reflexivity).
      rewrite Eq. rewrite Ed in Hcn, Hyn. simpl in Hcn. rewrite N.add_0_r in Hcn. auto.
    - assert (Eq : qk = key (last dup (mkE 0 0 0 0))) by (unfold qk, pred_key; clear -Ed; destruct dup; [congruence|reflexivity]).
      rewrite Eq. split.
      + unfold key. simpl. rewrite (contig_last _ _ Hcd Ed). exact Hcn.
      + clear -Ed Hyn. destruct dup; [congruence|exact Hyn].
  Qed.

  (* the key the first new entry comes after: its term, its index 0 only for the root, and - if it lies above B -
     everything the log holds above B and at or below it is one of its ancestors *)
  Lemma y_qk : snd qk <= aq_term a /\ (fst qk = 0 -> qk = (0, 0)) /\
    (B < fst qk -> forall i y, d_log s !! i = Some y -> B < i -> i <= fst qk -> anc C (key y) qk).
  Proof.
    assert (Hheld : forall x, d_log s !! fst qk = Some x -> key x = qk -> B < fst qk ->
              forall i y, d_log s !! i = Some y -> B < i -> i <= fst qk -> anc C (key y) qk).
    { intros x Hx Ex Hb i y Hyy Hbi Hle. rewrite <- Ex.
      destruct (ys_in _ _ _ _ _ _ _ _ HS i y Hyy) as (Iy & _). destruct (ys_in _ _ _ _ _ _ _ _ HS _ x Hx) as (Ix & _).
      apply (anc_linear C (key y) (key x) (topk s) HC (ys_above _ _ _ _ _ _ _ _ HS i y Hyy Hbi) (ys_above _ _ _ _ _ _ _ _ HS _ x Hx Hb)).
      unfold key. simpl. lia. }
    assert (Hd : dup = [] \/ dup <> []) by (clear; destruct dup; [left; reflexivity|right; discriminate]).
    destruct Hd as [Ed|Ed].
    - assert (Eq : qk = (aq_prevIdx a, aq_prevTerm a)) by (unfold qk, pred_key; rewrite Ed; reflexivity).
      assert (Ef : fst qk = aq_prevIdx a) by (rewrite Eq; reflexivity).
      split; [rewrite Eq; exact Hpt|]. split; [rewrite Eq; simpl; intros E; rewrite E, (Hpz E); reflexivity|]. rewrite Ef. intros Hb.
      destruct Hpk as [E0|[El|[Eb|(pe & Hpe & Ept)]]].
      + lia.
      + unfold last_entry in El. destruct (N.leb_spec (v_lastSnapIdx s) (v_lastLogIdx s)) as [Hle|Hgt].
        * intros i y Hyy Hbi _. rewrite Eq, El. apply (ys_above _ _ _ _ _ _ _ _ HS i y Hyy Hbi).
        * exfalso. inversion El as [[E1 E2]]. destruct (ys_b _ _ _ _ _ _ _ _ HS) as [Hbb _]. simpl in Hbb. lia.
      + exfalso. unfold bk in Eb. inversion Eb as [[E1 E2]]. destruct (ys_b _ _ _ _ _ _ _ _ HS) as [Hbb _]. simpl in Hbb. lia.
      + destruct (ys_in _ _ _ _ _ _ _ _ HS _ pe Hpe) as (I & _).
        assert (E : key pe = qk) by (rewrite Eq; unfold key; congruence).
        intros i y Hyy Hbi Hle. apply (Hheld pe) with (i := i); [rewrite Ef; exact Hpe|exact E|rewrite Ef; exact Hb|exact Hyy|exact Hbi|rewrite Ef; exact Hle].
    - assert (Eq : qk = key (last dup (mkE 0 0 0 0))) by (unfold qk, pred_key; clear -Ed; destruct dup; [congruence|reflexivity]).
      assert (Hl : In (last dup (mkE 0 0 0 0)) dup) by (apply last_in; exact Ed).
      destruct (Hdup _ Hl) as (se & Hse & Et). destruct (ys_in _ _ _ _ _ _ _ _ HS _ se Hse) as (I & _).
      assert (E : key se = qk) by (rewrite Eq; unfold key; congruence).
      destruct (Hcr (last dup (mkE 0 0 0 0))) as [(p & Pp) Htl]; [rewrite Hes; apply in_app_iff; left; exact Hl|].
      split; [rewrite Eq; exact Htl|]. split.
      + rewrite Eq. unfold key. simpl. intros E0. destruct (co_idx C HC _ p Pp). lia.
      + intros Hb. apply (Hheld se); [rewrite <- E; unfold key; simpl; rewrite I; exact Hse|exact E|exact Hb].
  Qed.
End Y.

Section Y2.
  Variable C : chain.
  Hypothesis HC : chain_ok C.
  Variables (B : N) (s : nstate) (a : areq).
  Hypothesis HS : yup C B s.
  Hypothesis Hc : contig (aq_prevIdx a) (aq_entries a).
  Hypothesis Hcr : forall e, In e (aq_entries a) -> (exists p, In (e, p) C) /\ e_term e <= aq_term a.
  Hypothesis Hy : ychain C B (aq_prevIdx a, aq_prevTerm a) (aq_entries a).
  Hypothesis Hpt : aq_prevTerm a <= aq_term a.
  Hypothesis Hpz : aq_prevIdx a = 0 -> aq_prevTerm a = 0.
  Hypothesis HT : d_term s <= aq_term a.
  Hypothesis Hpk : prev_ok s a.

  Theorem ae_logY_yshape m' k' : ae_logY (d_log s) (v_lastLogIdx s) a m' k' ->
    yshape C B (aq_term a) m' (d_snaps s) k' (rawb s) (v_fsmLast s).
  Proof.
    intros (dup & news & Hes & Hnn & Hdup & Hcase).
    destruct (y_news_contig C B a Hc Hy dup news Hes) as [Hcn Hyn].
    destruct (y_qk C HC B s a HS Hcr Hpt Hpz HT Hpk dup news Hes Hdup) as (Q1 & Q2 & Q3).
    set (qk := pred_key a dup) in *.
    assert (Hnc : forall e, In e news -> (exists p, In (e, p) C) /\ e_term e <= aq_term a).
    { intros e He. apply Hcr. rewrite Hes. apply in_app_iff. auto. }
    assert (Hlast : In (last_of news) news) by (apply last_in, Hnn).
    assert (Hhd : e_idx (hd (mkE 0 0 0 0) news) = fst qk + 1) by (apply contig_hd; assumption).
    pose proof (yshape_mono C C B B _ (aq_term a) _ _ _ _ _ (incl_refl C) (N.le_refl B) HT HS) as HS'.
    (* the log after the new entries were stored over a sub-log that holds nothing above B beyond qk *)
    assert (Hstore : forall m0, log_sub m0 (d_log s) -> (forall i y, m0 !! i = Some y -> B < i -> i <= fst qk) ->
              yshape C B (aq_term a) (log_store m0 news) (d_snaps s) (key (last_of news)) (rawb s) (v_fsmLast s)).
    { intros m0 Hsub Hle. constructor.
      - intros i x Hx. destruct (store_src_idx _ _ _ _ Hx) as [[Hn Hi]|Hm].
        + destruct (Hnc x Hn) as [Hp Ht]. split; [exact Hi|]. split; [exact Hp|exact Ht].
        + apply (ys_in _ _ _ _ _ _ _ _ HS' i x (Hsub i x Hm)).
      - intros i x Hx Hb. destruct (store_src_idx _ _ _ _ Hx) as [[Hn Hi]|Hm].
        + apply (ychain_last C B news qk Hcn Hyn x Hn). lia.
        + pose proof (Hle i x Hm Hb) as Hiq. assert (Hbq : B < fst qk) by lia.
          eapply anc_trans; [apply (Q3 Hbq i x (Hsub i x Hm) Hb Hiq)|]. apply (ychain_from C B news qk Hcn Hyn Hbq _ Hlast).
      - apply (Hnc _ Hlast).
      - unfold key. simpl. intros E0. destruct (Hnc _ Hlast) as [(p & Pp) _]. destruct (co_idx C HC _ p Pp). lia.
      - apply (ys_sns _ _ _ _ _ _ _ _ HS').
      - apply (ys_b _ _ _ _ _ _ _ _ HS').
      - apply (ys_fl _ _ _ _ _ _ _ _ HS'). }
    destruct Hcase as [(-> & -> & Hnew)|(c & se & Hse & Hne & Hc0 & Hcl & Hcase)].
    - apply Hstore; [apply log_sub_refl|]. intros i y Hyy Hb.
      pose proof (yshape_bound C B _ _ _ _ _ _ i y HC HS Hyy Hb) as Hbd. simpl in Hbd.
      assert (Hin : In (hd (mkE 0 0 0 0) news) news) by (destruct news; [congruence|left; reflexivity]).
      pose proof (Hnew _ Hin). lia.
    - assert (Ec : c = fst qk + 1) by congruence.
      assert (Hdel : forall i y, log_delete (d_log s) c (v_lastLogIdx s) !! i = Some y -> d_log s !! i = Some y /\ (B < i -> i <= fst qk)).
      { intros i y Hyy. pose proof (log_delete_sub _ _ _ i y Hyy) as Hm. split; [exact Hm|]. intros Hb.
        pose proof (yshape_bound C B _ _ _ _ _ _ i y HC HS Hm Hb) as Hbd. simpl in Hbd.
        rewrite log_delete_lookup in Hyy. destruct (N.leb_spec c i); [|lia]. destruct (N.leb_spec i (v_lastLogIdx s)); [discriminate|lia]. }
      destruct Hcase as [(-> & ->)|(-> & ->)].
      + rewrite (conflict_pred_app a dup news Hes). fold qk. constructor.
        * eapply log_in_sub; [apply log_delete_sub|apply N.le_refl|apply (ys_in _ _ _ _ _ _ _ _ HS')].
        * intros i y Hyy Hb. destruct (Hdel i y Hyy) as [Hm Hle]. specialize (Hle Hb). apply (Q3 ltac:(lia) i y Hm Hb Hle).
        * exact Q1.
        * exact Q2.
        * apply (ys_sns _ _ _ _ _ _ _ _ HS').
        * apply (ys_b _ _ _ _ _ _ _ _ HS').
        * apply (ys_fl _ _ _ _ _ _ _ _ HS').
      + apply Hstore; [apply log_delete_sub|]. intros i y Hyy Hb. apply (proj2 (Hdel i y Hyy) Hb).
  Qed.
End Y2.

(* every (term, log) pair the handler reaches, with the cached key that goes with it *)
Theorem ae_reachY_yshape C B s a d k : chain_ok C -> yup C B s ->
  contig (aq_prevIdx a) (aq_entries a) -> (forall e, In e (aq_entries a) -> (exists p, In (e, p) C) /\ e_term e <= aq_term a) ->
  ychain C B (aq_prevIdx a, aq_prevTerm a) (aq_entries a) -> aq_prevTerm a <= aq_term a -> (aq_prevIdx a = 0 -> aq_prevTerm a = 0) ->
  ae_reachY s a d k -> yshape C B (fst d) (snd d) (d_snaps s) k (rawb s) (v_fsmLast s).
Proof.
  intros HC HS Hc Hcr Hy Hpt Hpz [[-> ->]|(HT & Ht & [[-> ->]|[Hpk Hlog]])].
  - exact HS.
  - rewrite Ht. eapply yshape_mono; [apply incl_refl|apply N.le_refl|exact HT|exact HS].
  - rewrite Ht. apply (ae_logY_yshape C HC B s a HS Hc Hcr Hy Hpt Hpz HT Hpk), Hlog.
Qed.
