(* ClusterLogSnapState.v — stage 2: the node invariant (durable image / running server), frames,
   processLogs and the snapshot listing. *)
From Coq Require Import List NArith Bool Lia.
From stdpp Require Import gmap.
From RaftModel Require Import Base Config Compaction Node NodeCodec.
From RaftProofs Require Import RecoverProofs ClusterLogSpec ClusterLogChain ClusterLogNode ClusterLogInit
  ClusterLogSnapSpec ClusterLogSnapNode.
Open Scope N_scope.

Section SnapState.
  Variable base : list entry.
  Variable c0 : N.

  Definition snaps_ok (l : list snapshot) : Prop :=
    forall sn, In sn l -> sn_ok sn = true /\ bkey base c0 (sn_idx sn, sn_term sn).

  (* the history up to c0 is still there: in the log store or under a snapshot *)
  Definition has_c0 (m : gmap N entry) (l : list snapshot) : Prop :=
    c0 = 0 \/ (exists e, m !! c0 = Some e) \/ (exists sn, In sn l /\ sn_idx sn = c0).

  (* a durable image *)
  Record simg (C : chain) (s : nstate) : Prop := {
    si_snaps : snaps_ok (d_snaps s);
    si_login : log_in C (d_log s) (d_term s);
    si_top : exists top, log_below C (d_log s) top;
    si_pcommit : d_pcommit s <= c0;
    si_staged : d_staged s <= c0;
    si_c0 : has_c0 (d_log s) (d_snaps s);
    si_tb : forall e, In e base -> e_term e <= d_term s;
  }.

  (* a running server *)
  Record sup (C : chain) (s : nstate) : Prop := {
    su_snaps : snaps_ok (d_snaps s);
    su_login : log_in C (d_log s) (d_term s);
    su_pcommit : d_pcommit s <= c0;
    su_staged : d_staged s <= c0;
    su_c0 : has_c0 (d_log s) (d_snaps s);
    su_tb : forall e, In e base -> e_term e <= d_term s;
    su_snapkey : v_lastSnapIdx s = 0 \/ bkey base c0 (v_lastSnapIdx s, v_lastSnapTerm s);
    su_ct : v_lastLogTerm s <= d_term s;
    su_cz : v_lastLogIdx s = 0 -> v_lastLogTerm s = 0;
    su_below : log_below C (d_log s) (v_lastLogIdx s, v_lastLogTerm s);
    su_ckey : (v_lastLogIdx s, v_lastLogTerm s) = (0, 0) \/ ckey C (v_lastLogIdx s, v_lastLogTerm s);
    su_u : c0 <= v_lastLogIdx s \/ v_lastSnapIdx s = c0;
    su_commit : v_commit s <= c0;
    su_fsm : fsm_ok base c0 (v_fsmLast s);
    su_w1 : v_lastSnapIdx s <= v_applied s;
    su_w2 : fst (v_fsmLast s) <= v_applied s;
    su_w3 : fst (v_fsmLast s) = 0 \/ v_lastSnapIdx s <= fst (v_fsmLast s);
  }.

  Definition snlog (C : chain) (r : nrun) : Prop :=
    match r with Up s => sup C s | Down s => simg C s end.

  Lemma sup_img C s : sup C s -> simg C s.
  Proof.
    intros H. constructor; try apply H. eexists. apply (su_below C s H).
  Qed.

  Lemma snlog_image C r : snlog C r -> simg C (image r).
  Proof. destruct r as [s|s]; simpl; [apply sup_img|auto]. Qed.

  Lemma simg_mono C C' s : incl C C' -> simg C s -> simg C' s.
  Proof.
    intros Hi H. constructor; try apply H.
    - eapply log_in_mono; [exact Hi|apply H].
    - destruct (si_top C s H) as [top Ht]. exists top. eapply log_below_mono; eauto.
  Qed.

  Lemma sup_mono C C' s : incl C C' -> sup C s -> sup C' s.
  Proof.
    intros Hi H. constructor; try apply H.
    - eapply log_in_mono; [exact Hi|apply H].
    - eapply log_below_mono; [exact Hi|apply H].
    - destruct (su_ckey C s H) as [E|K]; [left; exact E|right; eapply ckey_mono; eauto].
  Qed.

  Lemma snlog_mono C C' r : incl C C' -> snlog C r -> snlog C' r.
  Proof. destruct r; simpl; [apply sup_mono|apply simg_mono]. Qed.

  (* the fields no RPC but AppendEntries / takeSnapshot touches *)
  Definition skeep (s' s : nstate) : Prop :=
    d_log s' = d_log s /\ d_snaps s' = d_snaps s /\ d_pcommit s' = d_pcommit s /\ d_staged s' = d_staged s /\
    v_lastLogIdx s' = v_lastLogIdx s /\ v_lastLogTerm s' = v_lastLogTerm s /\
    v_lastSnapIdx s' = v_lastSnapIdx s /\ v_lastSnapTerm s' = v_lastSnapTerm s /\
    v_commit s' = v_commit s /\ v_applied s' = v_applied s /\ v_fsmLast s' = v_fsmLast s.

  Lemma skeep_refl s : skeep s s.
  Proof. repeat split. Qed.

  Lemma skeep_trans a b c : skeep a b -> skeep b c -> skeep a c.
  Proof.
    intros (A1 & A2 & A3 & A4 & A5 & A6 & A7 & A8 & A9 & A10 & A11) (B1 & B2 & B3 & B4 & B5 & B6 & B7 & B8 & B9 & B10 & B11).
    repeat split; congruence.
  Qed.

  Lemma sup_keep C s s' : sup C s -> skeep s' s -> d_term s <= d_term s' -> sup C s'.
  Proof.
    intros H (K1 & K2 & K3 & K4 & K5 & K6 & K7 & K8 & K9 & K10 & K11) Ht.
    constructor; rewrite ?K1, ?K2, ?K3, ?K4, ?K5, ?K6, ?K7, ?K8, ?K9, ?K10, ?K11; try apply H.
    - eapply log_in_sub; [apply log_sub_refl|exact Ht|apply H].
    - intros e He. pose proof (su_tb C s H e He). lia.
    - pose proof (su_ct C s H). lia.
  Qed.

  Lemma simg_sub C s s' : simg C s -> log_sub (d_log s') (d_log s) -> d_snaps s' = d_snaps s ->
    d_pcommit s' <= c0 -> d_staged s' <= c0 -> has_c0 (d_log s') (d_snaps s') -> d_term s <= d_term s' -> simg C s'.
  Proof.
    intros H Hs Hn Hp Hg Hc Ht. constructor; auto.
    - rewrite Hn. apply H.
    - eapply log_in_sub; [exact Hs|exact Ht|apply H].
    - destruct (si_top C s H) as [top Hb]. exists top. eapply log_below_sub; eauto.
    - intros e He. pose proof (si_tb C s H e He). lia.
  Qed.
End SnapState.
