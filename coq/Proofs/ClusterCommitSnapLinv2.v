(* ClusterCommitSnapLinv2.v — steps that leave the log and snapshot stores of the touched server
   alone keep the Log Matching invariant with snapshots (zlinv): state changes of a non-leader, and
   the volatile-only steps of a leader. *)
From Coq Require Import List NArith Bool Lia.
From stdpp Require Import gmap.
From RaftModel Require Import Base Config Compaction Commitment Node NodeCodec Candidate Leader Replicate Cluster ClusterLog.
From RaftProofs Require Import ConfigProofs VoteProofs ClusterProofs
  ClusterLogSpec ClusterLogChain ClusterLogNode ClusterLogVote ClusterLogInv ClusterLogSteps
  ClusterCommitChain ClusterCommitLog ClusterCommitInv ClusterCommitSnapLog ClusterCommitSnapLinv.
Open Scope N_scope.

Lemma zup_lkeep C s s' : zup C s -> lkeep s' s -> v_lastSnapTerm s' = v_lastSnapTerm s -> d_term s <= d_term s' -> zup C s'.
Proof.
  intros H (K1 & K2 & K3 & K4 & K5) K6 Ht. unfold zup in *. rewrite (bk_ext s s' K5 K6). unfold topk in *. rewrite K1, K2, K3, K4.
  eapply zshape_mono; [apply incl_refl|exact Ht|exact H].
Qed.

Section Plain.
  Variable cfgs : list config.
  Hypothesis HQ : quorums_intersect cfgs.

  (* the server's state changed outside the stores and it is not Leader afterwards *)
  Lemma plain_zlinv g C g1 j n s s' sess' next' :
    zlinv cfgs g C -> ginv cfgs g1 ->
    find_node (g_nodes (lg_g g)) j = Some n -> gn_run n = Up s ->
    g_nodes g1 = upd_node (g_nodes (lg_g g)) j (mkGN (gn_P n) (Up s') sess' next') ->
    g_leaders g1 = g_leaders (lg_g g) ->
    lkeep s' s -> v_lastSnapTerm s' = v_lastSnapTerm s -> d_term s <= d_term s' -> v_role s' <> Leader ->
    (forall se, sess' = Some se ->
       (exists se0, gn_sess n = Some se0 /\ vq_term (se_req se) = vq_term (se_req se0)) \/ d_term s < vq_term (se_req se)) ->
    zlinv cfgs (mkLG g1 (lg_msgs g)) C.
  Proof.
    intros Hinv Hg1 Hfind Hrun Hn1 Hl1 Hk Hst Hdt Hrole Hsess.
    destruct (find_node_in _ _ _ Hfind) as [Hin Hid].
    destruct (zl_nodes cfgs g C Hinv n Hin) as [Hnl _]. rewrite Hrun in Hnl. simpl in Hnl.
    apply (zlinv_update cfgs HQ g (mkLG g1 (lg_msgs g)) C C j n (mkGN (gn_P n) (Up s') sess' next') Hinv Hg1 Hfind Hid Hn1).
    - simpl. rewrite Hl1. apply incl_refl.
    - simpl. rewrite Hl1. intros T i H. left. exact H.
    - apply incl_refl.
    - apply (zl_chain cfgs g C Hinv).
    - intros x p H. left. exact H.
    - unfold dt. simpl. rewrite Hrun. exact Hdt.
    - intros se Hse. simpl in Hse. unfold dt. rewrite Hrun. simpl. apply Hsess, Hse.
    - simpl. eapply zup_lkeep; eauto.
    - intros s0 Hs0 Hr. simpl in Hs0. inversion Hs0; subst. contradiction.
    - intros m Hm. left. exact Hm.
  Qed.

  (* the state of a Leader changes in its volatile part only, it stays Leader or becomes Follower *)
  Lemma zlinv_volatile g C i n s s' :
    zlinv cfgs g C -> find_node (g_nodes (lg_g g)) i = Some n -> gn_run n = Up s -> v_role s = Leader ->
    dproj s' = dproj s -> v_term s' = v_term s -> lkeep s' s -> v_lastSnapTerm s' = v_lastSnapTerm s ->
    (v_role s' = Leader \/ v_role s' = Follower) ->
    zlinv cfgs (mkLG (set_node_run (lg_g g) i n (Up s')) (lg_msgs g)) C.
  Proof.
    intros Hinv Hfind Hrun Hrole Hd Ht Hk Hst Hr'.
    destruct (find_node_in _ _ _ Hfind) as [Hin Hid].
    pose proof (zl_g cfgs g C Hinv) as Hg.
    destruct (zl_nodes cfgs g C Hinv n Hin) as [Hnl Hlo].
    destruct (Hlo s Hrun Hrole) as (L1 & L2 & L3).
    destruct (gi_nodes cfgs _ Hg n Hin) as [(Hw & Hig & Hfun) _].
    set (n' := mkGN (gn_P n) (Up s') (keep_sess (Up s') (gn_sess n)) (gn_next n)).
    assert (Hs' : gn_sess n' = None) by (unfold n'; cbn [gn_sess]; rewrite L2; unfold keep_sess; reflexivity).
    assert (Hdt : d_term s' = d_term s) by (unfold dproj in Hd; congruence).
    assert (Hg' : ginv cfgs (set_node_run (lg_g g) i n (Up s'))).
    { apply (ginv_update cfgs (lg_g g) _ i n n' []); [exact Hg|exact Hfind|exact Hid|reflexivity|reflexivity| | | | |].
      - intros x [].
      - split; [|split].
        + rewrite Hrun in Hw. destruct Hw as [Hwd Hvt]. cbn [n' gn_run wfr]. split.
          * unfold wfd in *. unfold dproj in Hd. inversion Hd. lia.
          * congruence.
        + cbn [n' gn_run]. eapply inv_grants_dproj; [|exact Hig]. rewrite Hrun. simpl. symmetry. exact Hd.
        + exact Hfun.
      - unfold sess_ok. rewrite Hs'. exact I.
      - intros rp Hrp. split; [|left; exact Hrp].
        destruct (gi_resps cfgs _ Hg rp Hrp) as [_ Hall]. specialize (Hall n Hin).
        intros E. destruct (Hall E) as [A _]. split; [exact A|]. intros se Hse. rewrite Hs' in Hse. discriminate.
      - intros x Hx. left. exact Hx. }
    apply (zlinv_update cfgs HQ g (mkLG (set_node_run (lg_g g) i n (Up s')) (lg_msgs g)) C C i n n' Hinv Hg' Hfind Hid eq_refl).
    - apply incl_refl.
    - intros T j H. left. exact H.
    - apply incl_refl.
    - apply (zl_chain cfgs g C Hinv).
    - intros x p H. left. exact H.
    - unfold dt. rewrite Hrun. cbn [n' gn_run image]. lia.
    - intros se Hse. rewrite Hs' in Hse. discriminate.
    - cbn [n' gn_run znlog]. rewrite Hrun in Hnl. eapply zup_lkeep; [exact Hnl|exact Hk|exact Hst|lia].
    - intros s0 Hs0 Hr0. cbn [n' gn_run] in Hs0. inversion Hs0; subst s0.
      change (gn_id n') with (gn_id n). cbn [set_node_run lg_g g_leaders].
      destruct Hk as (_ & _ & K3 & _). rewrite Ht, K3. split; [exact L1|]. split; [exact Hs'|exact L3].
    - intros m Hm. left. exact Hm.
  Qed.
End Plain.
