(* ClusterLogSnapNode.v — stage 2 (with takeSnapshot): the ghost history contains the common
   history, whose first c0 entries are the only entries at those indices; what the invariant says
   about one server (log store, snapshot store, cached indices, commit indices). *)
From Coq Require Import List NArith Bool Lia.
From stdpp Require Import gmap.
From RaftModel Require Import Base Config Compaction Node NodeCodec.
From RaftProofs Require Import RecoverProofs ClusterLogSpec ClusterLogChain ClusterLogNode ClusterLogInit ClusterLogSnapSpec.
Open Scope N_scope.

Definition ckey (C : chain) (k : N * N) : Prop := exists e p, In (e, p) C /\ key e = k.

Lemma ckey_mono C C' k : incl C C' -> ckey C k -> ckey C' k.
Proof. intros Hi (e & p & H & E). exists e, p. split; [apply Hi, H|exact E]. Qed.

Lemma base_chain_nth prev es : forall x p, In (x, p) (base_chain prev es) -> exists k, nth_error es k = Some x.
Proof.
  revert prev. induction es as [|e0 r IH]; intros prev x p H; simpl in H; [contradiction|].
  destruct H as [E|H]; [inversion E; subst; exists 0%nat; reflexivity|].
  destruct (IH _ x p H) as [k Hk]. exists (S k). exact Hk.
Qed.

Section SnapNode.
  Variable base : list entry.
  Variable c0 : N.
  Hypothesis Hh : hist_ok (0, 0) base.

  (* the ghost history: contains the common history; below c0 nothing else; predecessors exist *)
  Record cb_ok (C : chain) : Prop := {
    cb_chain : chain_ok C;
    cb_incl : incl (base_chain (0, 0) base) C;
    cb_low : forall x p, In (x, p) C -> e_idx x <= c0 -> In (x, p) (base_chain (0, 0) base);
    cb_pred : forall x p, In (x, p) C -> p = (0, 0) \/ ckey C p;
  }.

  Lemma base_elem_nth x p : In (x, p) (base_chain (0, 0) base) -> nth_error base (N.to_nat (e_idx x - 1)) = Some x.
  Proof.
    intros H. destruct (base_chain_nth _ _ x p H) as [k Hk].
    pose proof (hist_idx _ _ Hh k x Hk) as Hi. simpl in Hi.
    replace (N.to_nat (e_idx x - 1)) with k by lia. exact Hk.
  Qed.

  (* a created entry at or below c0 is the history's entry *)
  Lemma low_bkey C x p : cb_ok C -> In (x, p) C -> e_idx x <= c0 -> bkey base c0 (key x).
  Proof.
    intros HC Hin Hle. pose proof (cb_low C HC x p Hin Hle) as Hb.
    destruct (co_idx C (cb_chain C HC) x p Hin) as [Hi _].
    split; [unfold key; simpl; lia|]. exists x. split; [apply (base_elem_nth x p Hb)|reflexivity].
  Qed.

  Lemma ckey_low_bkey C k : cb_ok C -> ckey C k -> fst k <= c0 -> bkey base c0 k.
  Proof. intros HC (e & p & Hin & <-) Hle. apply (low_bkey C e p HC Hin). exact Hle. Qed.

  Lemma bkey_anc C a b : cb_ok C -> bkey base c0 a -> bkey base c0 b -> fst a <= fst b -> anc C a b.
  Proof.
    intros HC (Ha & ea & Na & <-) (Hb & eb & Nb & <-) Hle.
    apply (base_chain_anc C (0, 0) base (cb_incl C HC) _ eb Nb) with (k' := N.to_nat (fst (key ea) - 1)); [lia|exact Na].
  Qed.

  Lemma bkey_ckey C b : cb_ok C -> bkey base c0 b -> ckey C b.
  Proof.
    intros HC (Hb & eb & Nb & <-).
    destruct (base_chain_anc C (0, 0) base (cb_incl C HC) _ eb Nb) as (_ & (p & Hp) & _).
    exists eb, p. auto.
  Qed.

  Lemma bkey_term b : bkey base c0 b -> exists e, In e base /\ e_term e = snd b.
  Proof. intros (_ & e & Ne & <-). exists e. split; [eapply nth_error_In; eauto|reflexivity]. Qed.

  (* among the keys of the committed prefix a larger (term, index) means a larger index *)
  Lemma bkey_order a b : bkey base c0 a -> bkey base c0 b ->
    (snd a < snd b \/ (snd a = snd b /\ fst a <= fst b)) -> fst a <= fst b.
  Proof.
    intros Ka Kb Hlex. destruct (N.le_gt_cases (fst a) (fst b)) as [H|H]; [exact H|].
    destruct Hlex as [Hlt|[_ Hle]]; [|exact Hle]. exfalso.
    pose proof Ka as (Ha & ea & Na & Ea). pose proof Kb as (Hb & eb & Nb & Eb).
    assert (Hanc : anc (base_chain (0, 0) base) b a).
    { rewrite <- Ea, <- Eb.
      apply (base_chain_anc _ (0, 0) base (incl_refl _) _ ea Na) with (k' := N.to_nat (fst b - 1)); [lia|exact Nb]. }
    pose proof (anc_term _ _ _ (base_chain_ok base Hh) Hanc). lia.
  Qed.

  (* a stored entry at or below a key of the committed prefix is its ancestor *)
  Lemma low_entry_anc C m dt i x b : cb_ok C -> log_in C m dt -> m !! i = Some x -> bkey base c0 b -> i <= fst b ->
    anc C (key x) b.
  Proof.
    intros HC Hin Hl Hb Hle. destruct (Hin i x Hl) as (Hk & (p & Hp) & _).
    pose proof Hb as ((_ & Hbc) & _).
    apply (bkey_anc C (key x) b HC); [apply (low_bkey C x p HC Hp); lia|exact Hb|unfold key; simpl; lia].
  Qed.
End SnapNode.
