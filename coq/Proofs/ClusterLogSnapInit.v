(* ClusterLogSnapInit.v — stage 2: the initial states of Proofs/ClusterLogSnapSpec.v satisfy the
   invariant. *)
From Coq Require Import List NArith Bool Lia.
From stdpp Require Import gmap.
From RaftModel Require Import Base Config Compaction Commitment Node NodeCodec Candidate Leader Replicate Cluster ClusterLog.
From RaftProofs Require Import ConfigProofs VoteProofs ClusterProofs
  ClusterLogSpec ClusterLogChain ClusterLogNode ClusterLogInv ClusterLogInit
  ClusterLogSnapSpec ClusterLogSnapNode ClusterLogSnapState ClusterLogSnapInv.
Open Scope N_scope.

Lemma base_chain_pred prev es : forall x p, In (x, p) (base_chain prev es) ->
  p = prev \/ exists e' p', In (e', p') (base_chain prev es) /\ key e' = p.
Proof.
  revert prev. induction es as [|e0 r IH]; intros prev x p H; simpl in H; [contradiction|].
  destruct H as [E|H]; [inversion E; subst; left; reflexivity|]. right.
  destruct (IH _ x p H) as [->|(e' & p' & H' & E')].
  - exists e0, prev. split; [left; reflexivity|reflexivity].
  - exists e', p'. split; [right; exact H'|exact E'].
Qed.

Lemma base_cb_ok base c0 : hist_ok (0, 0) base -> cb_ok base c0 (base_chain (0, 0) base).
Proof.
  intros Hh. constructor.
  - apply base_chain_ok, Hh.
  - apply incl_refl.
  - intros x p H _. exact H.
  - intros x p H. destruct (base_chain_pred _ _ x p H) as [->|(e' & p' & H' & E')]; [left; reflexivity|right].
    exists e', p'. auto.
Qed.

Lemma last_key_idx base k : hist_ok (0, 0) base -> (k <= length base)%nat -> fst (last_key base k) = N.of_nat k.
Proof.
  intros Hh Hk. destruct k as [|k']; [reflexivity|]. unfold last_key.
  destruct (nth_error base k') as [eL|] eqn:EL; [|apply nth_error_None in EL; lia].
  simpl. rewrite (hist_idx _ _ Hh _ eL EL). simpl. lia.
Qed.

Lemma last_key_ckey base k : (k <= length base)%nat ->
  last_key base k = (0, 0) \/ ckey (base_chain (0, 0) base) (last_key base k).
Proof.
  intros Hk. destruct k as [|k']; [left; reflexivity|]. unfold last_key.
  destruct (nth_error base k') as [eL|] eqn:EL; [|left; reflexivity]. right.
  destruct (base_chain_anc _ (0, 0) base (incl_refl _) k' eL EL) as (_ & (p & Hp) & _). exists eL, p. auto.
Qed.

Theorem linit_sinv cfgs g0 : linit_snap_ok g0 ->
  exists base c0 C, hist_ok (0, 0) base /\ sinv base c0 cfgs g0 C.
Proof.
  intros (Hg & Hmsgs & base & c0 & Hh & Hnodes).
  pose proof Hg as (_ & Hn0 & _ & Hl0 & _).
  exists base, c0, (base_chain (0, 0) base). split; [exact Hh|]. constructor.
  - apply ginit_inv. exact Hg.
  - apply base_cb_ok, Hh.
  - intros n Hin. destruct (Hnodes n Hin) as ((Hsn & Hterm & k & Hp & Hrun) & Hc0 & Hpc & Hst & Hvol).
    pose proof (prefix_log_in base k _ _ Hh Hp Hterm) as Hli.
    pose proof (prefix_below base k _ Hh Hp) as Hlb.
    assert (Hsnaps : snaps_ok base c0 (d_snaps (image (gn_run n)))) by (rewrite Hsn; intros sn []).
    assert (Hhas : has_c0 c0 (d_log (image (gn_run n))) (d_snaps (image (gn_run n)))).
    { destruct Hc0 as [E|He]; [left; exact E|right; left; exact He]. }
    destruct (gn_run n) as [s|s] eqn:Er; simpl in *.
    + destruct Hrun as (Hrole & Hsi & Hck). destruct Hvol as (Hcm & Hfsm & Hw2). split.
      * destruct (last_key_facts base k (d_term s) Hh (proj1 Hp) Hterm) as [F1 F2].
        pose proof (last_key_ckey base k (proj1 Hp)) as F3. pose proof (last_key_idx base k Hh (proj1 Hp)) as F4.
        rewrite <- Hck in F1, F2, F3, F4, Hlb. simpl in F1, F2, F4.
        constructor; auto.
        -- left. rewrite F4. destruct Hc0 as [->|(e & He)]; [lia|].
           destruct (prefix_lookup base k _ _ e Hp He) as [Hr _]. lia.
        -- rewrite Hsi. lia.
        -- right. rewrite Hsi. lia.
      * intros s0 Hs0 Hr. rewrite Er in Hs0. inversion Hs0; subst s0. exfalso. apply Hrole. exact Hr.
    + split; [|intros s0 Hs0; rewrite Er in Hs0; discriminate].
      constructor; auto. eexists. exact Hlb.
  - intros e p Hin. right. intros n Hn.
    destruct (base_chain_in _ _ Hh e p Hin) as (He & _).
    destruct (Hnodes n Hn) as ((_ & Hterm & _) & _). split; [apply Hterm, He|].
    intros se Hse. destruct (Hn0 n Hn) as [_ Hs]. congruence.
  - rewrite Hl0. intros T i [].
  - rewrite Hmsgs. intros m [].
Qed.
