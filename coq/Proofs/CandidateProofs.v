(* Pre-vote: a server that cannot collect a quorum of pre-votes never changes its term (C14). *)
From Coq Require Import List NArith Bool Lia.
From stdpp Require Import gmap.
From RaftModel Require Import Base Config Compaction Node Candidate.
Open Scope N_scope.

Definition norm (s : nstate) : nstate := set_transfer (set_state s Candidate) false.

(* what an isolated server sees: pre-vote RPCs fail or are refused (the answer never carries a
   term above the one asked for); vote results cannot arrive (no election was started) *)
Definition isolated_ev (t : N) (e : cev) : Prop :=
  match e with
  | CPre v => vr_granted v = false /\ vr_term v <= t + 1
  | CVote _ => True
  | CTimeout => True
  end.

Definition iso_inv (P : params) (s : nstate) (x : csess) : Prop :=
  exists g rf, x = SCand (norm s) (mkCand (v_term s + 1) true false g rf 0 (quorum_size (v_latest s))) /\ g <= 1.

Lemma norm_idem s : norm (set_transfer (norm s) false) = norm s.
Proof. reflexivity. Qed.

(* a pre-vote result that does not complete the quorum only moves the tallies *)
Lemma on_prevote_stay P c s fs v :
  c_prevote c = true -> vr_term v <= c_term c ->
  (if vr_granted v then c_pvGranted c + 1 else c_pvGranted c) < c_needed c ->
  on_prevote P c s fs v =
  Done s (CStay (mkCand (c_term c) true false
                        (if vr_granted v then c_pvGranted c + 1 else c_pvGranted c)
                        (if vr_granted v then c_pvRefused c else c_pvRefused c + 1)
                        (c_granted c) (c_needed c)) []) [] fs.
Proof.
  intros Hp Ht Hg. unfold on_prevote. rewrite Hp. cbn [negb].
  destruct (N.ltb_spec (c_term c) (vr_term v)); [lia|].
  destruct (N.leb_spec (c_needed c) (if vr_granted v then c_pvGranted c + 1 else c_pvGranted c)); [lia|].
  reflexivity.
Qed.

Lemma cand_enter_prevote P s fs : v_transfer s = false ->
  cand_enter P true s fs =
  Done s (mkCand (v_term s + 1) true false 0 0 0 (quorum_size (v_latest s)),
          if self_is_voter P s then [mkVR (v_term s + 1) true] else []) [] fs.
Proof. intros H. unfold cand_enter. rewrite H. reflexivity. Qed.

Lemma enter_isolated_gen P s s0 : set_state s0 Candidate = norm s -> 2 <= quorum_size (v_latest s) ->
  exists x, sess_enter P true s0 = (x, []) /\ iso_inv P s x.
Proof.
  intros E Hq. unfold sess_enter. rewrite E.
  rewrite cand_enter_prevote by reflexivity.
  change (v_term (norm s)) with (v_term s). change (v_latest (norm s)) with (v_latest s).
  destruct (self_is_voter P (norm s)).
  - cbn [feed_self]. rewrite on_prevote_stay; cbn [c_prevote c_term c_pvGranted c_pvRefused c_granted c_needed vr_term vr_granted]; try reflexivity; try lia.
    cbn [app feed_self exit_loop fst snd]. eexists. split; [reflexivity|].
    exists (0 + 1), 0. split; [reflexivity|lia].
  - cbn [feed_self exit_loop fst snd]. eexists. split; [reflexivity|]. exists 0, 0. split; [reflexivity|lia].
Qed.

Lemma enter_isolated P s : v_transfer s = false -> 2 <= quorum_size (v_latest s) ->
  exists x, sess_enter P true (set_transfer (norm s) false) = (x, []) /\ iso_inv P s x.
Proof. intros _ Hq. apply enter_isolated_gen; [reflexivity|exact Hq]. Qed.

Lemma first_enter_isolated P s : v_transfer s = false -> 2 <= quorum_size (v_latest s) ->
  exists x, sess_enter P true s = (x, []) /\ iso_inv P s x.
Proof.
  intros Ht Hq. apply enter_isolated_gen; [|exact Hq].
  destruct s; simpl in Ht; subst; reflexivity.
Qed.

Lemma step_isolated P s x e : v_transfer s = false -> 2 <= quorum_size (v_latest s) ->
  iso_inv P s x -> isolated_ev (v_term s) e ->
  exists x', sess_step P true x e = (x', []) /\ iso_inv P s x'.
Proof.
  intros Ht Hq (g & rf & -> & Hg) He. destruct e as [v|v|]; cbn [sess_step].
  - destruct He as [Hgr Hvt].
    rewrite on_prevote_stay; cbn [c_prevote c_term c_pvGranted c_pvRefused c_granted c_needed]; try reflexivity; try lia.
    all: try (rewrite Hgr; lia).
    rewrite Hgr. cbn [feed_self exit_loop fst snd]. eexists. split; [reflexivity|].
    exists g, (rf + 1). split; [reflexivity|exact Hg].
  - unfold on_vote. cbn [c_voting negb]. cbn [feed_self exit_loop fst snd]. eexists. split; [reflexivity|].
    exists g, rf. split; [reflexivity|exact Hg].
  - apply enter_isolated; assumption.
Qed.

Theorem isolated_session P s evs : v_transfer s = false -> 2 <= quorum_size (v_latest s) ->
  Forall (isolated_ev (v_term s)) evs ->
  forall x, iso_inv P s x ->
  exists x', sess_run P true x evs = (x', []) /\ iso_inv P s x'.
Proof.
  intros Ht Hq Hall. induction Hall as [|e r He _ IH]; intros x Hx; simpl.
  - exists x. auto.
  - destruct (step_isolated P s x e Ht Hq Hx He) as (x1 & -> & H1).
    destruct (IH x1 H1) as (x2 & -> & H2). exists x2. auto.
Qed.

(* The statement of C14's first half: any number of election timeouts and failed / refused
   pre-votes: no durable write at all (empty trace), the term is the same, still a candidate. *)
Theorem isolated_term_constant P s evs : v_transfer s = false -> 2 <= quorum_size (v_latest s) ->
  Forall (isolated_ev (v_term s)) evs ->
  let '(x0, tr0) := sess_enter P true s in
  let '(x, tr) := sess_run P true x0 evs in
  tr0 = [] /\ tr = [] /\
  exists c, x = SCand (norm s) c /\ c_voting c = false.
Proof.
  intros Ht Hq Hall.
  destruct (first_enter_isolated P s Ht Hq) as (x0 & -> & H0).
  destruct (isolated_session P s evs Ht Hq Hall x0 H0) as (x & -> & (g & rf & -> & _)).
  split; [reflexivity|]. split; [reflexivity|]. eexists. split; reflexivity.
Qed.

Lemma norm_durable s : d_term (norm s) = d_term s /\ v_term (norm s) = v_term s /\
  d_vterm (norm s) = d_vterm s /\ d_vcand (norm s) = d_vcand s /\ d_log (norm s) = d_log s /\
  v_role (norm s) = Candidate.
Proof. repeat split. Qed.

(* The real election (term bump) only starts on a granted pre-vote that completes the quorum: *)
Theorem prevote_needs_quorum P c s fs v s' c' self tr fs' :
  on_prevote P c s fs v = Done s' (CStay c' self) tr fs' ->
  c_prevote c = true -> c_pvGranted c < c_needed c -> c_prevote c' = false ->
  c_needed c <= c_pvGranted c + 1 /\ vr_granted v = true.
Proof.
  unfold on_prevote. intros H Hp Hlt Hp'. rewrite Hp in H. simpl in H.
  destruct (c_term c <? vr_term v).
  { destruct (do_set_term _ _ _) as [[? ?]|]; discriminate. }
  destruct (vr_granted v) eqn:G.
  - destruct (N.leb_spec (c_needed c) (c_pvGranted c + 1)); [auto|].
    inversion H; subst. simpl in Hp'. discriminate.
  - destruct (N.leb_spec (c_needed c) (c_pvGranted c)); [lia|].
    inversion H; subst. simpl in Hp'. discriminate.
Qed.

(* ... and while no election was started nothing durable is written by the loop *)
Theorem prevote_phase_no_write P c s fs v s' c' self tr fs' :
  on_prevote P c s fs v = Done s' (CStay c' self) tr fs' -> c_prevote c' = true -> tr = [] /\ s' = s.
Proof.
  unfold on_prevote. intros H Hp'. destruct (negb (c_prevote c)) eqn:E.
  { inversion H; subst. auto. }
  destruct (c_term c <? vr_term v).
  { destruct (do_set_term _ _ _) as [[? ?]|]; discriminate. }
  match type of H with context [if ?B then _ else _] => destruct B end.
  - destruct (elect_self P s fs) as [s2 [q sf] tr2 fs2|]; [|discriminate].
    inversion H; subst. simpl in Hp'. discriminate.
  - inversion H; subst. auto.
Qed.

(* ---------------------------------------------------------------- leader stickiness (rejoin) *)
Theorem sticky_prevote s q : v_leader s <> 0 -> v_leader s <> vq_addr q ->
  request_prevote s q = (v_term s, false).
Proof.
  intros H0 H1. unfold request_prevote.
  destruct (nonempty (v_latest s) && negb (in_config (v_latest s) (vq_id q))); [reflexivity|].
  destruct (N.eqb_spec (v_leader s) 0); [contradiction|].
  destruct (N.eqb_spec (v_leader s) (vq_addr q)); [contradiction|]. reflexivity.
Qed.

Theorem sticky_vote s fs q : v_leader s <> 0 -> v_leader s <> vq_addr q -> vq_transfer q = false ->
  request_vote s fs q = Done s (v_term s, false) [] fs.
Proof.
  intros H0 H1 H2. unfold request_vote.
  destruct (negb (vq_id q =? 0) && nonempty (v_latest s) && negb (in_config (v_latest s) (vq_id q))); [reflexivity|].
  destruct (N.eqb_spec (v_leader s) 0); [contradiction|].
  destruct (N.eqb_spec (v_leader s) (vq_addr q)); [contradiction|]. rewrite H2. reflexivity.
Qed.

(* a server whose log is ahead is never granted a pre-vote (so it cannot start an election by
   reconnecting), whatever terms are involved *)
Theorem prevote_needs_uptodate_log s q :
  snd (request_prevote s q) = true -> log_ok s (vq_lastIdx q) (vq_lastTerm q) = true.
Proof.
  unfold request_prevote.
  destruct (nonempty (v_latest s) && negb (in_config (v_latest s) (vq_id q))); [discriminate|].
  destruct (negb (v_leader s =? 0) && negb (v_leader s =? vq_addr q)); [discriminate|].
  destruct (vq_term q <? v_term s); [discriminate|].
  destruct (nonempty (v_latest s) && negb (has_vote (v_latest s) (vq_id q))); [discriminate|].
  simpl. auto.
Qed.
