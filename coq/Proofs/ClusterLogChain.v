(* ClusterLogChain.v — the ghost history of the Log Matching proof: every entry ever created,
   paired with the (index, term) of the entry it was appended after; the ancestor relation. *)
From Coq Require Import List NArith Bool Lia.
From stdpp Require Import gmap.
From RaftModel Require Import Base Node.
From RaftProofs Require Import ClusterLogSpec.
Open Scope N_scope.

Definition chain : Type := list (entry * (N * N)).

Record chain_ok (C : chain) : Prop := {
  (* one entry, one predecessor per (index, term) *)
  co_fun : forall e p e' p', In (e, p) C -> In (e', p') C -> key e = key e' -> e = e' /\ p = p';
  (* appended right after its predecessor, in a term not below it *)
  co_idx : forall e p, In (e, p) C -> e_idx e = fst p + 1 /\ snd p <= e_term e;
  (* the predecessor of a first entry is (0,0) *)
  co_zero : forall e p, In (e, p) C -> fst p = 0 -> p = (0, 0);
}.

(* a is k, or the predecessor of ... of the predecessor of k *)
Inductive anc (C : chain) (a : N * N) : N * N -> Prop :=
| anc_refl : anc C a a
| anc_up e p k : In (e, p) C -> key e = k -> anc C a p -> anc C a k.

Lemma anc_trans C a b c : anc C a b -> anc C b c -> anc C a c.
Proof.
  intros Hab Hbc. induction Hbc as [|e p k Hin Hk Hbp IH]; [exact Hab|].
  eapply anc_up; eauto.
Qed.

Lemma anc_mono C C' a k : incl C C' -> anc C a k -> anc C' a k.
Proof.
  intros Hi H. induction H as [|e p k Hin Hk _ IH]; [apply anc_refl|].
  eapply anc_up; [apply Hi; exact Hin|exact Hk|exact IH].
Qed.

Lemma anc_le C a k : chain_ok C -> anc C a k -> fst a <= fst k /\ snd a <= snd k.
Proof.
  intros HC H. induction H as [|e p k Hin Hk _ IH]; [lia|].
  destruct (co_idx C HC e p Hin) as [A B]. subst k. unfold key. simpl. lia.
Qed.

Lemma anc_lt_or_eq C a k : chain_ok C -> anc C a k -> a = k \/ fst a < fst k.
Proof.
  intros HC H. destruct H as [|e p k' Hin Hk Hap]; [left; reflexivity|right].
  destruct (co_idx C HC e p Hin) as [A _]. destruct (anc_le C a p HC Hap) as [B _].
  rewrite <- Hk. unfold key. simpl. lia.
Qed.

Lemma anc_idx_eq C a k : chain_ok C -> anc C a k -> fst a = fst k -> a = k.
Proof. intros HC H E. destruct (anc_lt_or_eq C a k HC H) as [->|Hlt]; [reflexivity|lia]. Qed.

(* the ancestors of one key are linearly ordered by their index *)
Lemma anc_linear C a b k : chain_ok C -> anc C a k -> anc C b k -> fst a <= fst b -> anc C a b.
Proof.
  intros HC Ha Hb. revert a Ha. induction Hb as [|e p k Hin Hk Hbp IH]; intros a Ha Hle; [exact Ha|].
  destruct Ha as [|e' p' k' Hin' Hk' Hap'].
  - exfalso. destruct (co_idx C HC e p Hin) as [A _]. destruct (anc_le C b p HC Hbp) as [B _].
    rewrite <- Hk in Hle. unfold key in Hle. simpl in Hle. lia.
  - assert (p' = p). { apply (co_fun C HC e' p' e p Hin' Hin). congruence. }
    subst p'. apply IH; assumption.
Qed.

Lemma anc_unique C a b k : chain_ok C -> anc C a k -> anc C b k -> fst a = fst b -> a = b.
Proof.
  intros HC Ha Hb E. assert (H : anc C a b) by (eapply anc_linear; eauto; lia).
  apply (anc_idx_eq C a b HC H E).
Qed.

(* an ancestor one index below is THE predecessor *)
Lemma anc_pred C a e p : chain_ok C -> In (e, p) C -> anc C a (key e) -> fst a + 1 = e_idx e -> a = p.
Proof.
  intros HC Hin Ha E. remember (key e) as k eqn:Ek. destruct Ha as [|e' p' k Hin' Hk' Hap'].
  - subst a. unfold key in E. simpl in E. lia.
  - assert (p' = p). { apply (co_fun C HC e' p' e p Hin' Hin). congruence. }
    subst p'. apply (anc_idx_eq C a p HC Hap'). destruct (co_idx C HC e p Hin) as [A _]. lia.
Qed.

Lemma anc_term C a k : chain_ok C -> anc C a k -> snd a <= snd k.
Proof. intros HC H. apply (anc_le C a k HC H). Qed.

(* ---------------------------------------------------------------- chain-consistent entry lists *)
(* consecutive chain elements, the first one appended after p *)
Fixpoint mchain (C : chain) (p : N * N) (es : list entry) : Prop :=
  match es with
  | [] => True
  | e :: r => In (e, p) C /\ mchain C (key e) r
  end.

Lemma mchain_mono C C' p es : incl C C' -> mchain C p es -> mchain C' p es.
Proof.
  intros Hi. revert p. induction es as [|e r IH]; intros p H; simpl in *; [exact I|].
  destruct H as [H1 H2]. split; [apply Hi; exact H1|apply IH; exact H2].
Qed.

Lemma mchain_in C p es : mchain C p es -> forall e, In e es -> exists q, In (e, q) C.
Proof.
  revert p. induction es as [|x r IH]; intros p H e He; simpl in *; [contradiction|].
  destruct H as [H1 H2]. destruct He as [<-|He]; [exists p; exact H1|eapply IH; eauto].
Qed.

Lemma mchain_anc C p es : mchain C p es -> forall e, In e es -> anc C p (key e).
Proof.
  revert p. induction es as [|x r IH]; intros p H e He; simpl in *; [contradiction|].
  destruct H as [H1 H2].
  assert (Hx : anc C p (key x)) by (eapply anc_up; [exact H1|reflexivity|apply anc_refl]).
  destruct He as [<-|He]; [exact Hx|]. eapply anc_trans; [exact Hx|]. apply (IH _ H2 e He).
Qed.

Lemma mchain_app C p a b : mchain C p (a ++ b) ->
  mchain C p a /\ mchain C (match a with [] => p | _ => key (last a (mkE 0 0 0 0)) end) b.
Proof.
  revert p. induction a as [|x r IH]; intros p H; simpl in *; [auto|].
  destruct H as [H1 H2]. destruct (IH _ H2) as [A B]. split; [auto|].
  destruct r as [|y r']; [exact B|exact B].
Qed.

(* every element is an ancestor of the last one *)
Lemma mchain_last C p es : mchain C p es -> forall e, In e es -> anc C (key e) (key (last es (mkE 0 0 0 0))).
Proof.
  revert p. induction es as [|x r IH]; intros p H e He; [contradiction|].
  destruct H as [H1 H2]. destruct r as [|y r'].
  - destruct He as [<-|[]]. apply anc_refl.
  - change (last (x :: y :: r') (mkE 0 0 0 0)) with (last (y :: r') (mkE 0 0 0 0)).
    destruct He as [<-|He]; [|apply (IH _ H2 e He)].
    eapply anc_trans; [|apply (IH _ H2 y); left; reflexivity].
    apply (mchain_anc C (key x) (y :: r') H2 y). left. reflexivity.
Qed.

Lemma last_in {A} (l : list A) d : l <> [] -> In (last l d) l.
Proof.
  induction l as [|x r IH]; [congruence|]. intros _. destruct r as [|y r']; [left; reflexivity|].
  right. apply IH. discriminate.
Qed.
