(* C11: what takeSnapshot records and what it may remove. *)
From Coq Require Import List NArith Bool Lia.
From stdpp Require Import gmap.
From RaftModel Require Import Base Config Compaction Node.
From RaftProofs Require Import CompactionProofs.
Open Scope N_scope.

(* a snapshot that was taken (result 0, or 5 = taken but the compaction's DeleteRange failed)
   records: the FSM goroutine's last index and term, the COMMITTED configuration and its index,
   the FSM content; its index is not below the committed configuration's index; the log loses at
   most one range of entries, all at or below the snapshot index and never the whole tail that
   TrailingLogs protects *)
Theorem take_snapshot_records P s fs s' code tr fs' :
  take_snapshot P s fs = Done s' code tr fs' -> code = 0 \/ code = 5 ->
  exists sn, d_snaps s' = d_snaps s ++ [sn] /\
    (sn_idx sn, sn_term sn) = v_fsmLast s /\ sn_cfg sn = v_committed s /\ sn_cfgidx sn = v_committedIdx s /\
    sn_data sn = v_fsm s /\ v_committedIdx s <= sn_idx sn /\ 0 < sn_idx sn /\
    v_lastSnapIdx s' = sn_idx sn /\ v_lastSnapTerm s' = sn_term sn /\
    (d_log s' = d_log s \/
     exists lo hi, d_log s' = log_delete (d_log s) lo hi /\ hi <= sn_idx sn /\
                   (p_trailing P < v_lastLogIdx s -> hi <= v_lastLogIdx s - p_trailing P)).
Proof.
  unfold take_snapshot, fsm_index. destruct (v_fsmLast s) as [fi ft] eqn:Ef.
  destruct (N.eqb_spec fi 0); [intros H0; inversion H0; subst; intros [?|?]; discriminate|].
  destruct (N.ltb_spec fi (v_committedIdx s)); [intros H0; inversion H0; subst; intros [?|?]; discriminate|].
  destruct (next_fail fs) as [fc fs1]. destruct fc; [intros H0; inversion H0; subst; intros [?|?]; discriminate|].
  destruct (next_fail fs1) as [fcl fs2]. destruct fcl; [intros H0; inversion H0; subst; intros [?|?]; discriminate|].
  set (sn := mkSnap fi ft (v_committed s) (v_committedIdx s) (v_fsm s) true).
  set (s1 := set_lastsnap (set_snaps s (d_snaps s ++ [sn])) fi ft).
  unfold run_compaction.
  destruct (compact (log_first (d_log s1)) fi (v_lastLogIdx s1) (p_trailing P)) as [[lo hi]|] eqn:Ec.
  - unfold do_delete. destruct (next_fail fs2) as [fd fs3]. destruct fd.
    + intros Hd _. inversion Hd; subst. exists sn. simpl. repeat split; auto; try lia.
    + intros Hd _. inversion Hd; subst. exists sn. simpl. repeat split; auto; try lia.
      right. exists lo, hi. split; [reflexivity|].
      unfold compact in Ec. change (v_lastLogIdx s1) with (v_lastLogIdx s) in Ec.
      destruct (v_lastLogIdx s <=? p_trailing P) eqn:El; [discriminate|].
      destruct (N.min fi (v_lastLogIdx s - p_trailing P) <? log_first (d_log s1)); [discriminate|].
      inversion Ec; subst. split; [lia|]. intros _. lia.
  - intros Hd _. inversion Hd; subst. exists sn. simpl. repeat split; auto; try lia.
Qed.

(* refused while the committed configuration entry has not reached the FSM goroutine; nothing to
   snapshot before the FSM goroutine has been handed anything *)
Theorem take_snapshot_refusals P s fs :
  (fst (v_fsmLast s) = 0 -> take_snapshot P s fs = Done s 2 [] fs) /\
  (fst (v_fsmLast s) <> 0 -> fst (v_fsmLast s) < v_committedIdx s -> take_snapshot P s fs = Done s 3 [] fs).
Proof.
  unfold take_snapshot, fsm_index. destruct (v_fsmLast s) as [fi ft]. simpl. split.
  - intros ->. reflexivity.
  - intros Hn Hlt. destruct (N.eqb_spec fi 0); [contradiction|]. destruct (N.ltb_spec fi (v_committedIdx s)); [reflexivity|lia].
Qed.
