(* ClusterLogSteps.v — handlers (vote requests, stray inputs, delivered AppendEntries) and the
   sending of requests keep the invariant. *)
From Coq Require Import List NArith Bool Lia.
From stdpp Require Import gmap.
From RaftModel Require Import Base Config Compaction Commitment Node NodeCodec Candidate Leader Replicate Cluster ClusterLog.
From RaftProofs Require Import ConfigProofs VoteProofs ClusterProofs
  ClusterLogSpec ClusterLogChain ClusterLogNode ClusterLogVote ClusterLogAppend ClusterLogLeader ClusterLogInv.
Open Scope N_scope.

Section Steps.
  Variable cfgs : list config.
  Hypothesis HQ : quorums_intersect cfgs.

  Lemma node_wfr g C n : linv cfgs g C -> In n (g_nodes (lg_g g)) -> wfr (gn_run n).
  Proof. intros Hinv Hin. destruct (gi_nodes cfgs _ (li_g cfgs g C Hinv) n Hin) as [(Hw & _) _]. exact Hw. Qed.

  Lemma step_dterm P r e cut fs r' ob out : wfr r -> step_full P r e cut fs = (r', ob, out) ->
    d_term (image r) <= d_term (image r').
  Proof.
    intros Hw Hs. pose proof (step_good P r e cut fs Hw) as Hg. rewrite Hs in Hg.
    destruct Hg as (_ & (_ & Hm & _) & _). exact Hm.
  Qed.

  (* a handler ran at j *)
  Lemma handler_linv g C j nj e cut fs r' ob out g1 :
    linv cfgs g C -> find_node (g_nodes (lg_g g)) j = Some nj ->
    step_full (gn_P nj) (gn_run nj) e cut fs = (r', ob, out) ->
    ginv cfgs g1 ->
    g_nodes g1 = upd_node (g_nodes (lg_g g)) j (mkGN (gn_P nj) r' (keep_sess r' (gn_sess nj)) (gn_next nj)) ->
    g_leaders g1 = g_leaders (lg_g g) ->
    step_post C (gn_run nj) r' -> linv cfgs (mkLG g1 (lg_msgs g)) C.
  Proof.
    intros Hinv Hfind Hstep Hg1 Hn1 Hl1 Hpost.
    destruct (find_node_in _ _ _ Hfind) as [Hin _].
    eapply (linv_handler cfgs HQ g C g1 j nj r'); eauto.
    eapply step_dterm; [eapply node_wfr; eauto|exact Hstep].
  Qed.

  Lemma simple_linv g C j nj e cut fs r' ob out g1 :
    linv cfgs g C -> find_node (g_nodes (lg_g g)) j = Some nj -> simple_event e ->
    step_full (gn_P nj) (gn_run nj) e cut fs = (r', ob, out) ->
    ginv cfgs g1 ->
    g_nodes g1 = upd_node (g_nodes (lg_g g)) j (mkGN (gn_P nj) r' (keep_sess r' (gn_sess nj)) (gn_next nj)) ->
    g_leaders g1 = g_leaders (lg_g g) ->
    linv cfgs (mkLG g1 (lg_msgs g)) C.
  Proof.
    intros Hinv Hfind He Hstep Hg1 Hn1 Hl1.
    destruct (find_node_in _ _ _ Hfind) as [Hin _].
    eapply handler_linv; eauto.
    eapply simple_step; eauto.
    - apply (li_chain cfgs g C Hinv).
    - eapply node_wfr; eauto.
    - apply (li_nodes cfgs g C Hinv nj Hin).
  Qed.

  (* stray inputs: vote and pre-vote requests from anyone, restarts, TimeoutNow *)
  Lemma input_linv g C j e cut fs g1 :
    linv cfgs g C -> input_ok false e = true -> gstep cfgs (lg_g g) (GInput j e cut fs) = Some g1 ->
    linv cfgs (mkLG g1 (lg_msgs g)) C.
  Proof.
    intros Hinv Hok Hstep.
    pose proof (gstep_inv cfgs _ _ _ (li_g cfgs g C Hinv) Hstep) as Hg1.
    unfold gstep in Hstep.
    assert (He : simple_event e) by (destruct e; simpl in Hok; try discriminate; exact I).
    destruct (find_node (g_nodes (lg_g g)) j) as [nj|] eqn:Hfj; [|destruct e; discriminate].
    destruct (step_full (gn_P nj) (gn_run nj) e cut fs) as [[r' ob] out] eqn:Hsf.
    assert (E : g1 = mkG (upd_node (g_nodes (lg_g g)) j (mkGN (gn_P nj) r' (keep_sess r' (gn_sess nj)) (gn_next nj)))
                         (g_resps (lg_g g)) (g_leaders (lg_g g)) (grant_ghost j ob ++ g_grants (lg_g g))).
    { destruct e; try contradiction; inversion Hstep; reflexivity. }
    subst g1. eapply simple_linv; eauto.
  Qed.

  (* the RequestVote of i's invocation is executed by j *)
  Lemma votereq_linv g C i j cut fs g1 :
    linv cfgs g C -> gstep cfgs (lg_g g) (GVoteReq i j cut fs) = Some g1 ->
    linv cfgs (mkLG g1 (lg_msgs g)) C.
  Proof.
    intros Hinv Hstep.
    pose proof (gstep_inv cfgs _ _ _ (li_g cfgs g C Hinv) Hstep) as Hg1.
    unfold gstep in Hstep.
    destruct (find_node (g_nodes (lg_g g)) i) as [ni|] eqn:Hfi; [|discriminate].
    destruct (find_node (g_nodes (lg_g g)) j) as [nj|] eqn:Hfj; [|discriminate].
    destruct (gn_sess ni) as [se|]; [|discriminate].
    destruct (negb (mem j (se_asked se))); [discriminate|].
    destruct (step_full (gn_P nj) (gn_run nj) (NVote (se_req se)) cut fs) as [[r' ob] out] eqn:Hsf.
    inversion Hstep; subst g1. clear Hstep.
    eapply simple_linv; eauto. exact I.
  Qed.

  (* the k-th request in flight is executed by its target *)
  Lemma deliver_linv g C m cut fs g1 :
    linv cfgs g C -> In m (lg_msgs g) ->
    gstep cfgs (lg_g g) (GInput (am_to m) (NAppend (am_req m)) cut fs) = Some g1 ->
    linv cfgs (mkLG g1 (lg_msgs g)) C.
  Proof.
    intros Hinv Hm Hstep.
    pose proof (gstep_inv cfgs _ _ _ (li_g cfgs g C Hinv) Hstep) as Hg1.
    unfold gstep in Hstep.
    destruct (find_node (g_nodes (lg_g g)) (am_to m)) as [nj|] eqn:Hfj; [|discriminate].
    destruct (step_full (gn_P nj) (gn_run nj) (NAppend (am_req m)) cut fs) as [[r' ob] out] eqn:Hsf.
    inversion Hstep; subst g1. clear Hstep.
    destruct (find_node_in _ _ _ Hfj) as [Hin Hid].
    eapply handler_linv; eauto.
    destruct (li_msgs cfgs g C Hinv m Hm) as (Hft & Hld & Hmc & Hterm).
    destruct (li_nodes cfgs g C Hinv nj Hin) as [Hnl Hlo].
    pose proof (node_wfr g C nj Hinv Hin) as Hw.
    destruct (gn_run nj) as [s|s] eqn:Hrun.
    - eapply append_step; eauto.
      + apply (li_chain cfgs g C Hinv).
      + intros Hr Ht. destruct (Hlo s Hrun Hr) as (L1 & _). rewrite <- Ht in L1.
        apply Hft. rewrite <- Hid.
        apply (leaders_fun cfgs (lg_g g) _ _ _ HQ (li_g cfgs g C Hinv) Hld L1).
    - simpl in Hsf. inversion Hsf; subst. split; [exact Hnl|]. intros s' Hs'. discriminate.
  Qed.

  (* a request is added to the network *)
  Lemma send_linv g C i n s m :
    linv cfgs g C -> find_node (g_nodes (lg_g g)) i = Some n -> gn_run n = Up s -> v_role s = Leader ->
    am_from m = i -> am_from m <> am_to m -> aq_term (am_req m) = v_term s ->
    mchain C (aq_prevIdx (am_req m), aq_prevTerm (am_req m)) (aq_entries (am_req m)) ->
    (forall e, In e (aq_entries (am_req m)) -> e_term e <= v_term s) ->
    linv cfgs (mkLG (lg_g g) (lg_msgs g ++ [m])) C.
  Proof.
    intros Hinv Hfind Hrun Hrole Hfrom Hne Hterm Hmc Hts.
    destruct (find_node_in _ _ _ Hfind) as [Hin Hid].
    destruct (li_nodes cfgs g C Hinv n Hin) as [_ Hlo]. destruct (Hlo s Hrun Hrole) as (L1 & _).
    destruct Hinv as [A B D E F G]. constructor; auto.
    intros m' Hm'. simpl in Hm'. apply in_app_iff in Hm'. destruct Hm' as [Hm'|[<-|[]]]; [apply G, Hm'|].
    split; [exact Hne|]. split; [simpl; rewrite Hterm, Hfrom, <- Hid; exact L1|]. split; [exact Hmc|].
    rewrite Hterm. exact Hts.
  Qed.
End Steps.
