(* ClusterCommitSnapStepM.v — with snapshots: LPropose (dispatchLogs of one entry at a leader). *)
From Coq Require Import List NArith Bool Lia.
From stdpp Require Import gmap.
From RaftModel Require Import Base Config Compaction Commitment Node NodeCodec Candidate Leader Replicate Cluster ClusterLog ClusterCommit.
From RaftProofs Require Import ConfigProofs CommitmentProofs VoteProofs ClusterProofs
  ClusterLogSpec ClusterLogChain ClusterLogNode ClusterLogVote ClusterLogLeader ClusterLogInv ClusterLogSteps
  ClusterCommitSpec ClusterCommitLog ClusterCommitChain ClusterCommitNode ClusterCommitNode3 ClusterCommitGhost
  ClusterCommitInv ClusterCommitUpd ClusterCommitStepA ClusterCommitStepC ClusterCommitStepG ClusterCommitStepJ ClusterCommitStepK
  ClusterCommitSnapLog ClusterCommitSnapNode ClusterCommitSnapLinv ClusterCommitSnapLinv2 ClusterCommitSnapInv ClusterCommitSnapFinal
  ClusterCommitSnapUpd ClusterCommitSnapStepA ClusterCommitSnapStepC ClusterCommitSnapStepD ClusterCommitSnapStepH
  ClusterCommitSnapStepK ClusterCommitSnapStepL.
Open Scope N_scope.

Section StepM.
  Variable cfg : config.
  Variable Ps : list params.
  Hypothesis HVn : NoDup (voters cfg).
  Let HQ := quorums_intersect_one' cfg HVn.

  Theorem zinv_propose sn g C LL A V i ty data fs g' : zinv cfg Ps g C LL A V -> ty <> LogConfiguration ->
    cstep sn [cfg] g (CBase (LPropose i ty data fs)) = Some g' -> exists Cn An, zinv cfg Ps g' (Cn ++ C) LL (An ++ A) V.
  Proof.
    intros HI Hty Hstep. apply cstep_base_inv in Hstep. destruct Hstep as (_ & l' & Hl & ->).
    pose proof (zv_l cfg Ps g C LL A V HI) as Hlinv. pose proof (zv_ci cfg Ps g C LL A V HI) as Hci. pose proof (ci_ok C LL Hci) as HC.
    unfold lstep in Hl. fold (cnodes g) in Hl.
    destruct (find_node (cnodes g) i) as [n|] eqn:Hf; [|discriminate].
    destruct (find_node_in _ _ _ Hf) as [Hin Hid].
    destruct (gn_run n) as [s|s] eqn:Hr; [|discriminate].
    destruct (N.eqb_spec (v_role s) Leader) as [Hrole|]; [|discriminate].
    pose proof (zv_lead cfg Ps g C LL A V HI n s Hin Hr Hrole) as HZ. destruct HZ as [HL0 [Z1 Z2]]. pose proof HL0 as (tl & ld & L1 & L2 & L3 & L4 & L5 & L6 & L7 & L8 & L9 & L10 & L11).
    rewrite Hid in L2.
    pose proof (dispatch_one_full (gn_P n) s (ld_cm ld) (ld_infl ld) fs ty data 0) as Hdf.
    pose proof (dispatch_one (gn_P n) s fs ty data 0) as Hd1. cbv zeta in Hd1.
    unfold base_leads. rewrite Hf, L2, Hr.
    destruct (dispatch (gn_P n) (mkLS s (ld_cm ld) (ld_infl ld)) fs [(ty, data, 0)]) as [[[ls2 res2] tr2] fs2].
    destruct (dispatch (gn_P n) (leader_setup s) fs [(ty, data, 0)]) as [[[ls1 res1] tr1] fs1] eqn:Ed1.
    cbn [fst] in Hdf, Hd1. cbv zeta in Hdf. destruct Hdf as (En & Kc & Ka & Kl & Kcm & Kinf & Hcm).
    inversion Hl; subst l'. clear Hl. rewrite En in *. set (s2 := l_node ls2) in *.
    destruct Hd1 as (Dd & Dv & Dsn & Dsi & Hcase).
    cbn [lg_g g_nodes set_node_run].
    destruct (zl_nodes [cfg] _ C Hlinv n Hin) as [Hnl Hlok]. destruct (Hlok s Hr Hrole) as (Lk1 & Lk2 & Lk3).
    rewrite Hr in Hnl. simpl in Hnl.
    pose proof (zv_node cfg Ps g C LL A V HI n Hin) as (N1 & N2 & N3). rewrite Hr in N3.
    (* nobody becomes a leader in this step *)
    rewrite (refresh_handler (cnodes g) i n (Up s2) _ (znodes_nodup cfg Ps g C LL A V HI) Hf).
    2:{ intros s' _ _. rewrite Hr. exact Hrole. }
    destruct Hcase as [(Hfail & Hk & Hrf)|(Hok & Dl & Dci & Dct & Dr)].
    - (* StoreLogs failed *)
      exists [], []. cbn [app]. destruct Hcm as [[_ Ecm]|[Hc _]]; [|congruence].
      destruct (dispatch_one_sf (gn_P n) s fs ty data 0) as [Dst Dfl]. rewrite Ed1 in Dst, Dfl. cbn [fst] in Dst, Dfl. rewrite En in Dst, Dfl. fold s2 in Dst, Dfl.
      apply (zinv_leader_quits cfg Ps HVn g C LL A V i n s s2 _ _ HI Hf Hr Hrole Dd Dv); [|exact Hrf|].
      + destruct Hk as (K1 & K2 & K3 & K4 & K5). split; [repeat split; assumption|]. split; [repeat split; assumption|]. split; assumption.
      + intros i' Hne. apply find_lead_set_other, Hne.
    - (* the entry is stored *)
      destruct Hcm as [[Hc _]|[_ Ecm]]; [congruence|].
      set (e := new_entry s ty data) in *.
      destruct (leader_last s Z1) as [Hle Hli].
      destruct (dispatch_one_sf (gn_P n) s fs ty data 0) as [Dst Dfl]. rewrite Ed1 in Dst, Dfl. cbn [fst] in Dst, Dfl. rewrite En in Dst, Dfl. fold s2 in Dst, Dfl.
      assert (He1 : e_idx e = v_lastLogIdx s + 1) by (unfold e, new_entry; cbn [e_idx]; rewrite Hli; reflexivity).
      assert (He2 : e_term e = v_term s) by reflexivity.
      destruct (znode_log_in cfg Ps g C LL A V HI n s Hin Hr) as [_ [_ Hvt]].
      assert (Dt : d_term s2 = d_term s) by (unfold dproj in Dd; inversion Dd; reflexivity).
      pose proof (propose_zlinv_ok [cfg] HQ (cg_l g) C i n s ty data fs Hlinv Hf Hr Hrole Hok) as Hl'.
      cbv zeta in Hl'. rewrite Ed1 in Hl'. cbn [fst] in Hl'. rewrite En in Hl'. fold s2 in Hl'. fold e in Hl'. rewrite Hle in Hl'.
      destruct (ci_tl C LL Hci _ _ _ L1) as [Htl1 _].
      destruct (leader_topk cfg Ps g C LL A V HI n s Hin Hr Hrole) as (tl0 & _ & Hck & Hckt & _).
      pose proof (ci_ok _ _ (chain_inv_propose C LL e (topk s) (v_term s) (gn_id n) tl Hci (zl_chain [cfg] _ _ Hl') L1 He2 Hck Hckt L3)) as HC'.
      exists [(e, topk s)], [(i, key e)].
      set (n' := mkGN (gn_P n) (Up s2) (keep_sess (Up s2) (gn_sess n)) (gn_next n)).
      assert (Hs' : gn_sess n' = None) by (unfold n'; cbn [gn_sess]; rewrite Lk2; reflexivity).
      assert (Hnl2 : zup ((e, topk s) :: C) s2).
      { assert (Hin' : In n' (g_nodes (lg_g (mkLG (set_node_run (lg_g (cg_l g)) i n (Up s2)) (lg_msgs (cg_l g)))))).
        { cbn. apply in_upd_node with (n := n); [exact Hf|exact Hid]. }
        destruct (zl_nodes [cfg] _ _ Hl' n' Hin') as [H _]. exact H. }
      assert (Hcn2 : znode_up cfg Ps s2).
      { pose proof (zn_sa cfg Ps s N3). pose proof (zn_ac cfg Ps s N3). pose proof (zn_fa cfg Ps s N3). pose proof (zn_fs cfg Ps s N3).
        constructor; rewrite ?Dl, ?Dsn, ?Kl, ?Kcm, ?Dsi, ?Ka, ?Kc, ?Dfl; try assumption.
        - intros j x Hx. rewrite log_store_one in Hx. destruct (e_idx e =? j); [inversion Hx; subst x; intros Hc; exfalso; apply Hty; exact Hc|apply (zn_dec cfg Ps s N3 j x Hx)].
        - apply (zn_scfg cfg Ps s N3).
        - apply (zn_lat cfg Ps s N3).
        - apply (zn_com cfg Ps s N3). }
      assert (Hee : d_log s2 !! e_idx e = Some e) by (rewrite Dl, log_store_one, N.eqb_refl; reflexivity).
      match goal with |- zinv _ _ ?G _ _ _ _ => set (g' := G) end.
      apply (zinv_update cfg Ps HVn g g' C [(e, topk s)] LL [] A [(i, key e)] V [] i n n' HI Hf Hid eq_refl) with (mn := []) (an := []) (Gn := []).
      + unfold dtn. rewrite Hr. cbn [n' gn_run image]. lia.
      + exact Hl'.
      + apply (chain_inv_propose C LL e (topk s) (v_term s) (gn_id n) tl Hci (zl_chain [cfg] _ _ Hl') L1 He2 Hck Hckt L3).
      + intros w T' c kw rq k k0 [].
      + (* the leader voted in no later term *)
        intros w T' c kw rq k k0 Hv [Ek|[]] Hlt. inversion Ek; subst w k. exfalso.
        destruct (zv_v1 cfg Ps g C LL A V HI _ _ _ _ _ Hv) as [(x & Hx & Hxi & Hxt) _].
        assert (x = n) by (apply (nodup_id_eq _ x n (znodes_nodup cfg Ps g C LL A V HI) Hx Hin); congruence). subst x.
        unfold dtn in Hxt. rewrite Hr in Hxt. simpl in Hxt, Hlt. lia.
      + intros T' c tl' [].
      + intros w T' c kw rq [].
      + intros w k [Ek|[]]. inversion Ek; subst w k. split; [exists e, (topk s); split; [left; reflexivity|reflexivity]|].
        exists (gn_id n), tl. exact L1.
      + split; [exact N1|]. split; [exact N2|exact Hcn2].
      + intros s0 Hs0. cbn [n' gn_run] in Hs0. inversion Hs0; subst s0.
        apply (zappend_kc cfg C LL A ([(e, topk s)] ++ C) ([] ++ LL) ([(i, key e)] ++ A) s s2 e
                 (incl_appr _ (incl_refl C)) (incl_refl LL) (incl_appr _ (incl_refl A))
                 (zv_kc cfg Ps g C LL A V HI n s Hin Hr) Dl eq_refl); [unfold last_index; rewrite Dci, Dsi; unfold last_index; lia|exact Kc|lia].
      + (* its snapshots *)
        intros sn0 Hsn0. cbn [n' gn_run image] in Hsn0. rewrite Dsn in Hsn0. unfold dtn. cbn [n' gn_run image]. rewrite Dt.
        pose proof (zv_sk cfg Ps g C LL A V HI n sn0 Hin) as H. unfold dtn in H. rewrite Hr in H.
        eapply CK_mono_g; [apply incl_appr, incl_refl|apply incl_refl|apply incl_appr, incl_refl|apply H, Hsn0].
      + (* the position of its FSM *)
        intros s0 Hs0. cbn [n' gn_run] in Hs0. inversion Hs0; subst s0. rewrite Dfl, Dt.
        destruct (zv_fsm cfg Ps g C LL A V HI n s Hin Hr) as [E|[F1 F2]]; [left; exact E|right].
        split; [eapply created_mono; [|exact F1]; apply incl_appr, incl_refl|].
        eapply CK_mono_g; [apply incl_appr, incl_refl|apply incl_refl|apply incl_appr, incl_refl|exact F2].
      + cbn. rewrite app_nil_r. reflexivity.
      + intros m [].
      + cbn. rewrite app_nil_r. reflexivity.
      + intros x [].
      + intros w k [Ek|[]]. inversion Ek; subst w k. exists n'. split; [apply in_upd_node with (n := n); assumption|].
        split; [exact Hid|]. unfold dtn. cbn [n' gn_run image]. simpl. lia.
      + (* what the leader accepted before is still there *)
        intros k k0 Ha Hanc Hpos. rewrite <- Hid in Ha.
        destruct (zv_av cfg Ps g C LL A V HI (gn_id n) k n k0 Ha Hin eq_refl Hanc Hpos) as [H|(T2 & c2 & tl2 & H1 & H2 & H3 & H4)].
        * left. unfold covers in *. rewrite Hr in H. cbn [n' gn_run image] in *. rewrite Dl, Dsn.
          destruct H as [H|(sn0 & Hs0 & Ha0)]; [left|right; exists sn0; split; [exact Hs0|eapply anc_mono; [|exact Ha0]; apply incl_appr, incl_refl]].
          eapply holds_sub; [|exact H]. apply log_store_one_sub.
          destruct (zl_nodes [cfg] _ C Hlinv n Hin) as [Hzz _]. rewrite Hr in Hzz. apply (zshape_cache C HC _ _ _ _ _ Hzz). simpl. lia.
        * right. exists T2, c2, tl2. split; [exact H1|]. split; [exact H2|]. split.
          -- unfold dtn in *. rewrite Hr in H3. cbn [n' gn_run image]. simpl in H3. lia.
          -- intros Hx. apply H4. destruct (ci_tl C LL Hci _ _ _ H1) as [_ Htc].
             apply (anc_back C LL _ k0 tl2 Hci HC'); [intros y Hy; right; exact Hy|destruct Htc; auto|exact Hx].
      + (* the new acceptance *)
        intros w k x k0 [Ek|[]] Hx Hxi Hanc Hpos. inversion Ek; subst w k.
        assert (x = n').
        { destruct (in_upd_cases _ _ _ _ Hx) as [->|[_ Hne]]; [reflexivity|congruence]. }
        subst x. left. cbn [n' gn_run image]. apply (zup_covers _ s2 k0 HC' Hnl2); [|exact Hpos].
        assert (E2 : last_entry s2 = key e).
        { destruct (leader_last s2) as [E _]; [rewrite Dsi, Dci; unfold last_index; lia|]. rewrite E. unfold topk, key. rewrite Dci, Dct, Hli, He1, He2. reflexivity. }
        rewrite E2. exact Hanc.
      + intros w T' c kw rq [].
      + intros se' H. rewrite Hs' in H. discriminate.
      + intros w T' c kw rq xc se [].
      + reflexivity.
      + intros w T' c [].
      + intros se H. rewrite Hs' in H. discriminate.
      + intros T' c Hlv. cbn [n' gn_run image] in Hlv. unfold live in Hlv. rewrite Dd in Hlv.
        destruct (zv_live cfg Ps g C LL A V HI n T' c Hin) as [(kw & rq & H)|H]; [rewrite Hr; exact Hlv| |right; exact H].
        left. exists kw, rq. rewrite <- Hid. exact H.
      + apply (zv_ll cfg Ps g C LL A V HI).
      + intros i' Hne. cbn [g' cg_lead]. apply find_lead_set_other, Hne.
      + intros y p [Ey|[]]. inversion Ey; subst y p. rewrite He2, <- Hid. exact Lk1.
      + (* the leadership state: first the server, then the commitment *)
        intros s0 Hs0 Hl0. cbn [n' gn_run] in Hs0. inversion Hs0; subst s0.
        split; [|split; [rewrite Dsi, Dci; unfold last_index; lia|]].
        2:{ intros ldx Hx. cbn [g' cg_lead] in Hx. change (gn_id n') with (gn_id n) in Hx. rewrite Hid, find_lead_set_same in Hx.
            inversion Hx; subst ldx. intros x fid Hxi. cbn [ld_infl with_cm] in Hxi. rewrite Kinf in Hxi. rewrite Dv.
            apply in_app_iff in Hxi. destruct Hxi as [Hxi|[Ex|[]]].
            - assert (Hfl' : find_lead (cg_lead g) (gn_id n) = Some ld) by (rewrite Hid; exact L2).
              destruct (Z2 ld Hfl' x fid Hxi) as [Et (p & Pp)]. split; [exact Et|exists p; right; exact Pp].
            - inversion Ex; subst x fid. split; [exact He2|exists (topk s); left; reflexivity]. }
        set (gmid := mkCG (cg_l g') (cg_lead g) (cg_hb g') (cg_ans g')).
        assert (Hmid : lead_inv cfg gmid ((e, topk s) :: C) LL ([(i, key e)] ++ A) n' s2).
        { apply (lead_inv_append cfg g gmid C LL A [(i, key e)] n n' s s2 e HL0); auto.
          unfold topk, key. rewrite Dci, Dct, Hli, He1, He2. reflexivity. }
        apply (lead_inv_match cfg HVn gmid g' _ LL _ n' s2 ld (with_cm ld (l_cm ls2) (l_inflight ls2)) (p_self (gn_P n)) (e_idx e) Hmid).
        * cbn [gmid cg_lead]. change (gn_id n') with (gn_id n). rewrite Hid. exact L2.
        * cbn [g' cg_lead]. change (gn_id n') with (gn_id n). rewrite Hid. apply find_lead_set_same.
        * cbn. exact Ecm.
        * reflexivity.
        * right. left. rewrite Dv. change (p_self (gn_P n)) with (gn_id n). rewrite Hid. unfold key. rewrite He2. reflexivity.
        * cbn. intros H. left. exact H.
  Qed.
End StepM.
