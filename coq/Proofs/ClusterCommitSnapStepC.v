(* ClusterCommitSnapStepC.v — with snapshots: CAck without a newer term keeps the invariant
   (the commitment lemma lead_inv_match of Proofs/ClusterCommitStepC.v is used as it is). *)
From Coq Require Import List NArith Bool Lia.
From stdpp Require Import gmap.
From RaftModel Require Import Base Config Compaction Commitment Node NodeCodec Candidate Leader Replicate Cluster ClusterLog ClusterCommit.
From RaftProofs Require Import ConfigProofs CommitmentProofs VoteProofs ClusterProofs
  ClusterLogSpec ClusterLogChain ClusterLogNode ClusterLogVote ClusterLogLeader ClusterLogInv ClusterLogSteps
  ClusterCommitSpec ClusterCommitLog ClusterCommitChain ClusterCommitNode ClusterCommitGhost
  ClusterCommitInv ClusterCommitUpd ClusterCommitStepA ClusterCommitQuorum ClusterCommitStepC
  ClusterCommitSnapLog ClusterCommitSnapNode ClusterCommitSnapLinv ClusterCommitSnapInv ClusterCommitSnapFinal
  ClusterCommitSnapUpd ClusterCommitSnapStepA.
Open Scope N_scope.

(* a new leadership state whose in-flight list is the old one *)
Lemma zlead_of cfg g g' C LL A n s ld ld' : zlead_inv cfg g C LL A n s ->
  find_lead (cg_lead g) (gn_id n) = Some ld -> find_lead (cg_lead g') (gn_id n) = Some ld' -> ld_infl ld' = ld_infl ld ->
  lead_inv cfg g' C LL A n s -> zlead_inv cfg g' C LL A n s.
Proof.
  intros (_ & Z1 & Z2) E E' Hin L. split; [exact L|]. split; [exact Z1|].
  intros ld0 E0. rewrite E' in E0. inversion E0; subst ld0. unfold infl_ok. rewrite Hin. apply (Z2 ld E).
Qed.

Section StepC2.
  Variable cfg : config.
  Variable Ps : list params.
  Hypothesis HVn : NoDup (voters cfg).

  Theorem zinv_ack_same g C LL A V k g' a m n ld0 s :
    zinv cfg Ps g C LL A V ->
    nth_error (cg_ans g) k = Some a -> nth_error (lg_msgs (cg_l g)) (rs_req a) = Some m ->
    find_node (cnodes g) (am_from m) = Some n -> find_lead (cg_lead g) (am_from m) = Some ld0 -> gn_run n = Up s ->
    v_role s = Leader -> v_term s = aq_term (am_req m) ->
    (aq_term (am_req m) <? ar_term (rs_resp a)) = false ->
    g' = ack_result g a m n s ld0 -> zinv cfg Ps g' C LL A V.
  Proof.
    intros HI Ha Hm Hf Hfl Hr Hrole Ht Hst ->. unfold ack_result. cbv zeta. rewrite Hst.
    destruct (find_node_in _ _ _ Hf) as [Hin Hid].
    pose proof (znodes_nodup cfg Ps g C LL A V HI) as Hnd.
    assert (Huniq : forall x, In x (cnodes g) -> gn_id x = am_from m -> x = n).
    { intros x Hx Hxi. apply (nodup_id_eq _ x n Hnd Hx Hin). congruence. }
    assert (Hbk : forall ldn, (forall sx, gn_run n = Up sx -> v_role sx = Leader -> zlead_inv cfg (mkCG (cg_l g) (set_lead (cg_lead g) (am_from m) ldn) (cg_hb g) (cg_ans g)) C LL A n sx) ->
              zinv cfg Ps (mkCG (cg_l g) (set_lead (cg_lead g) (am_from m) ldn) (cg_hb g) (cg_ans g)) C LL A V).
    { intros ldn Hn. apply (zinv_bookkeeping cfg Ps g _ C LL A V [] [] HI); try reflexivity.
      - cbn. rewrite app_nil_r. reflexivity.
      - apply (zv_l cfg Ps g C LL A V HI).
      - intros x [].
      - cbn. rewrite app_nil_r. reflexivity.
      - intros x [].
      - apply (zleads_set cfg g (mkCG (cg_l g) (set_lead (cg_lead g) (am_from m) ldn) (cg_hb g) (cg_ans g)) C LL A (am_from m) ldn (zv_lead cfg Ps g C LL A V HI) eq_refl).
        intros x sx Hx Hrx Hlx Hxi. rewrite (Huniq x Hx Hxi) in *. apply Hn; assumption. }
    pose proof (zv_lead cfg Ps g C LL A V HI n s Hin Hr Hrole) as HZ. pose proof HZ as [HL _].
    assert (Hsame : forall ldn, ld_cm ldn = ld_cm ld0 -> ld_next0 ldn = ld_next0 ld0 -> ld_notified ldn = ld_notified ld0 -> ld_infl ldn = ld_infl ld0 ->
              zinv cfg Ps (mkCG (cg_l g) (set_lead (cg_lead g) (am_from m) ldn) (cg_hb g) (cg_ans g)) C LL A V).
    { intros ldn E1 E2 E3 E4. apply Hbk. intros sx Hsx Hlx. rewrite Hr in Hsx. inversion Hsx; subst sx.
      apply (zlead_inv_same_cm cfg g _ C LL A n s ld0 ldn HZ); auto.
      - rewrite Hid. exact Hfl.
      - cbn [cg_lead]. rewrite Hid. apply find_lead_set_same. }
    destruct (ar_success (rs_resp a)) eqn:Hsucc; [|apply Hsame; reflexivity].
    destruct (aq_entries (am_req m)) as [|e0 er] eqn:Ees; [apply Hsame; reflexivity|].
    set (es := e0 :: er) in *. set (li := e_idx (last_of es)).
    (* the report is below the no-op or backed by an acceptance *)
    pose proof (zv_l cfg Ps g C LL A V HI) as Hl. pose proof (zv_ci cfg Ps g C LL A V HI) as Hci. pose proof (ci_ok C LL Hci) as HC.
    assert (Hmin : In m (lg_msgs (cg_l g))) by (eapply nth_error_In; eauto).
    assert (Hlast : In (last_of es) (aq_entries (am_req m))) by (rewrite Ees; apply last_in; discriminate).
    destruct HL as (tl & ldx & L1 & L2 & _ & _ & L5 & _).
    rewrite Hid, Hfl in L2. inversion L2; subst ldx. clear L2.
    assert (Hli : li < ld_next0 ld0 \/ In (am_to m, (li, v_term s)) A).
    { destruct (zl_msgs [cfg] _ C Hl m Hmin) as (_ & _ & _ & Hterms).
      destruct (N.eq_dec (e_term (last_of es)) (v_term s)) as [Eq|Hne].
      - right. destruct (zv_ans cfg Ps g C LL A V HI a (nth_error_In _ _ Ha)) as (m' & Hm' & Hacc).
        rewrite Hm in Hm'. inversion Hm'; subst m'. rewrite Ees in Hacc. fold es in Hacc.
        replace (li, v_term s) with (key (last_of es)) by (unfold key, li; rewrite Eq; reflexivity).
        apply Hacc; [exact Hsucc|discriminate|congruence].
      - left. destruct (zv_msg cfg Ps g C LL A V HI m Hmin) as (M1 & _). destruct (M1 _ Hlast) as [_ (c & tl' & Hll & Hk)].
        rewrite <- Ht in Hll. destruct (ci_uniq C LL Hci _ _ _ _ _ Hll L1) as [_ ->].
        destruct Hk as [[Hk _]|Hk]; [simpl in Hk; congruence|].
        destruct (anc_le C _ _ HC Hk) as [Hle _]. unfold key in Hle. simpl in Hle. unfold li. lia. }
    match goal with |- zinv _ _ (mkCG _ (set_lead _ _ ?LD) _ _) _ _ _ _ => set (ldn := LD) end.
    apply Hbk. intros sx Hsx Hlx. rewrite Hr in Hsx. inversion Hsx; subst sx.
    apply (zlead_of cfg g _ C LL A n s ld0 ldn HZ); [rewrite Hid; exact Hfl|cbn [cg_lead]; rewrite Hid; apply find_lead_set_same| |].
    { unfold ldn. match goal with |- context [if ?B then _ else _] => destruct B end; reflexivity. }
    apply (lead_inv_match cfg HVn g _ C LL A n s ld0 ldn (am_to m) li (proj1 HZ)).
    - rewrite Hid. exact Hfl.
    - cbn [cg_lead]. rewrite Hid. apply find_lead_set_same.
    - unfold ldn. match goal with |- context [if ?B then _ else _] => destruct B end; reflexivity.
    - unfold ldn. match goal with |- context [if ?B then _ else _] => destruct B end; reflexivity.
    - exact Hli.
    - unfold ldn. match goal with |- context [if ?B then _ else _] => destruct B eqn:EB end; intros E.
      + left. exact E.
      + right. apply N.eqb_neq in EB. exact EB.
  Qed.
End StepC2.
