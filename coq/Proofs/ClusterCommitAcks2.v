(* ClusterCommitAcks2.v — DURABLE ACKNOWLEDGEMENTS for Model/ClusterCommit.v (no snapshots): an entry
   whose future a leader of term T answered without error is, at every later point of the run, held at
   its index by every Leader of a term >= T, and is what every running server that knows that index
   to be committed holds there.
   At the acknowledging step the entry is at or below the commit index the leader installs, hence
   (invariant cv_kc) on the branch of a term <= T at or below an index a majority accepted in that
   term; the ghost records only grow, so this stays true, and Leader Completeness (lc_core) does the rest. *)
From Coq Require Import List NArith Bool Lia.
From stdpp Require Import gmap.
From RaftModel Require Import Base Config Compaction Commitment Node NodeCodec Candidate Leader Replicate Cluster ClusterLog ClusterCommit.
From RaftProofs Require Import ConfigProofs VoteProofs RecoverProofs ClusterProofs ClusterLogSpec ClusterLogChain ClusterLogNode ClusterLogInv
  ClusterCommitSpec ClusterCommitLog ClusterCommitChain ClusterCommitAE2 ClusterCommitNode ClusterCommitInit ClusterCommitGhost ClusterCommitInv ClusterCommitFinal
  ClusterCommitUpd ClusterCommitInit2 ClusterCommitStepA ClusterCommitStepB ClusterCommitStepG ClusterCommitStepH ClusterCommitStepI ClusterCommitStepM
  ClusterCommitStepP ClusterCommitStepS ClusterCommitStepT ClusterCommitMain ClusterCommitAcks.
Open Scope N_scope.

Section Acks.
  Variable cfg : config.
  Variable Ps : list params.
  Hypothesis HVn : NoDup (voters cfg).

  (* (T, e): e was created and is known to be committed by a server of term T *)
  Definition ack_ok (C : chain) (LL : LLt) (A : At) (te : N * entry) : Prop :=
    (exists p, In (snd te, p) C) /\ CK cfg C LL A (fst te) (key (snd te)).

  Definition AckInv (g : cgstate) (acks : list (N * entry)) : Prop :=
    exists C LL A V, cinv cfg Ps g C LL A V /\ Forall (ack_ok C LL A) acks.

  Lemma ack_ok_mono C LL A Cn LLn An te : ack_ok C LL A te -> ack_ok (Cn ++ C) (LLn ++ LL) (An ++ A) te.
  Proof.
    intros [(p & Hp) Hck]. split; [exists p; apply in_app_iff; right; exact Hp|].
    eapply CK_mono_g; [apply incl_appr, incl_refl|apply incl_appr, incl_refl|apply incl_appr, incl_refl|exact Hck].
  Qed.

  Lemma acks_mono C LL A Cn LLn An acks : Forall (ack_ok C LL A) acks -> Forall (ack_ok (Cn ++ C) (LLn ++ LL) (An ++ A)) acks.
  Proof. intros H. eapply Forall_impl; [|exact H]. intros te. apply ack_ok_mono. Qed.

  (* the step that acknowledges: the leader afterwards *)
  Lemma ack_step_facts g C LL A V i g' T e : cinv cfg Ps g C LL A V -> cstep false [cfg] g (CCommit i) = Some g' ->
    In (T, e) (step_acks g (CCommit i)) ->
    cinv cfg Ps g' C LL A V /\
    exists n' s', find_node (cnodes g') i = Some n' /\ gn_run n' = Up s' /\ v_role s' = Leader /\ v_term s' = T /\ d_term s' = T /\
      e_idx e <= v_commit s' /\ d_log s' !! e_idx e = Some e.
  Proof.
    intros HI Hstep Hin. pose proof (cinv_commit cfg Ps HVn g C LL A V i g' HI Hstep) as HI'. split; [exact HI'|].
    destruct (step_acks_commit _ _ _ _ _ _ _ Hstep Hin) as (n & ld & s & ls2 & tr & res & r & Hf & Hfl & Hr & Hrole & Hlc & Hr' & He & -> & Eg).
    destruct (find_node_in _ _ _ Hf) as [Hinn Hid].
    destruct (node_log_in cfg Ps g C LL A V HI n s Hinn Hr) as [(_ & Li & _) [_ Hvt]].
    pose proof (leader_commit_ckeep _ _ _ _ Hlc) as (K & Kc & _). cbn [l_node l_cm] in K, Kc.
    pose proof K as (K1 & K2 & _ & _ & _ & K6 & K7 & _).
    assert (Hk : keys_ok (d_log s)) by (intros j x Hx; apply (Li j x Hx)).
    pose proof (leader_commit_res (mkLS s (ld_cm ld) (ld_infl ld)) _ _ _ Hk Hlc r Hr') as Hle. cbn [l_cm] in Hle.
    rewrite K2 in He. assert (Hei : e_idx e = fr_index r) by (apply (Hk _ _ He)).
    set (n' := mkGN (gn_P n) (Up (l_node ls2)) (keep_sess (Up (l_node ls2)) (gn_sess n)) (gn_next n)).
    exists n', (l_node ls2). split.
    { subst g'. unfold cnodes. cbn [cg_l lg_g set_node_run g_nodes]. fold (cnodes g).
      assert (Hin' : In n' (upd_node (cnodes g) i n')) by (apply in_upd_node with (n := n); assumption).
      pose proof (nodes_nodup cfg Ps g C LL A V HI) as Hnd.
      assert (Hnd' : NoDup (map gn_id (upd_node (cnodes g) i n'))) by (rewrite upd_node_ids; [exact Hnd|exact Hid]).
      pose proof (find_node_self _ n' Hnd' Hin') as Hfn. change (gn_id n') with (gn_id n) in Hfn. rewrite Hid in Hfn. exact Hfn. }
    split; [reflexivity|]. split; [congruence|]. split; [exact K7|]. split; [unfold dproj in K1; inversion K1; congruence|].
    split; [rewrite Kc, Hei; exact Hle|]. rewrite K2, Hei. exact He.
  Qed.

  Theorem cstep_ackinv g acks l g' : AckInv g acks -> label_ok l -> cstep false [cfg] g l = Some g' ->
    AckInv g' (acks ++ step_acks g l).
  Proof.
    intros (C & LL & A & V & HI & Hacks) [Hnc Hnv] Hstep.
    assert (Hsame : forall Cn LLn An V', cinv cfg Ps g' (Cn ++ C) (LLn ++ LL) (An ++ A) V' -> step_acks g l = [] -> AckInv g' (acks ++ step_acks g l)).
    { intros Cn LLn An V' H E. rewrite E, app_nil_r. exists (Cn ++ C), (LLn ++ LL), (An ++ A), V'. split; [exact H|apply acks_mono, Hacks]. }
    destruct l as [bl|k|i j|i].
    - destruct bl as [gl|i ty data fs|i j next last|i j|k cut fs].
      + destruct gl as [i|i j cut fs|i j|j e cut fs].
        * destruct (cinv_timeout cfg Ps HVn g C LL A V i g' HI Hstep) as (C' & LL' & A' & V' & H). eapply Hsame; [exact H|reflexivity].
        * destruct (cinv_votereq cfg Ps HVn g C LL A V i j cut fs g' HI Hstep) as (V' & H). apply (Hsame [] [] [] V' H). reflexivity.
        * destruct (cinv_voteresp cfg Ps HVn g C LL A V i j g' HI Hstep) as (C' & LL' & A' & H). eapply Hsame; [exact H|reflexivity].
        * destruct (cinv_ginput cfg Ps HVn g C LL A V j e cut fs g' HI) as (V' & H); [|exact Hstep|apply (Hsame [] [] [] V' H); reflexivity].
          intros q ->. exact Hnv.
      + destruct (cinv_propose cfg Ps HVn g C LL A V i ty data fs g' HI Hnc Hstep) as (C' & A' & H). apply (Hsame C' [] A' V H). reflexivity.
      + apply (Hsame [] [] [] V (cinv_lsend cfg Ps g C LL A V i j next last g' HI Hstep)). reflexivity.
      + apply (Hsame [] [] [] V (cinv_lheartbeat cfg Ps g C LL A V i j g' HI Hstep)). reflexivity.
      + destruct (cinv_deliver cfg Ps HVn g C LL A V k cut fs g' HI Hstep) as (A' & H). apply (Hsame [] [] A' V H). reflexivity.
    - apply (Hsame [] [] [] V (cinv_ack cfg Ps HVn g C LL A V k g' HI Hstep)). reflexivity.
    - apply (Hsame [] [] [] V (cinv_giveup cfg Ps g C LL A V i j g' HI Hstep)). reflexivity.
    - (* the leader loop commits and answers futures *)
      exists C, LL, A, V. split; [apply (cinv_commit cfg Ps HVn g C LL A V i g' HI Hstep)|].
      apply Forall_app. split; [exact Hacks|]. apply Forall_forall. intros [T e] Hin.
      destruct (ack_step_facts g C LL A V i g' T e HI Hstep Hin) as (HI' & n' & s' & Hf' & Hr' & _ & _ & Hdt & Hc & He).
      destruct (find_node_in _ _ _ Hf') as [Hin' _].
      destruct (node_log_in cfg Ps g' C LL A V HI' n' s' Hin' Hr') as [(_ & Li & _) _].
      destruct (Li _ e He) as (_ & Hcr & _).
      destruct (cv_kc cfg Ps g' C LL A V HI' n' s' Hin' Hr') as [_ K]. split; [exact Hcr|]. cbn [fst snd]. rewrite <- Hdt. apply (K _ e He Hc).
  Qed.

  Theorem crun_ackinv ls : forall g acks g', AckInv g acks -> Forall label_ok ls -> crun false [cfg] g ls = Some g' ->
    AckInv g' (acks ++ run_acks false [cfg] g ls).
  Proof.
    induction ls as [|l r IH]; intros g acks g' Hinv Hls H; simpl in H |- *.
    - inversion H; subst. rewrite app_nil_r. exact Hinv.
    - destruct (cstep false [cfg] g l) as [g1|] eqn:E; [|discriminate]. inversion Hls as [|? ? Hl Hr]; subst.
      rewrite app_assoc. apply (IH g1 _ g' (cstep_ackinv g acks l g1 Hinv Hl E) Hr H).
  Qed.

  (* what the invariant says about the acknowledged entries *)
  Theorem ackinv_permanent g acks : AckInv g acks -> acks_permanent acks g.
  Proof.
    intros (C & LL & A & V & HI & Hacks) T e Hin. rewrite Forall_forall in Hacks. destruct (Hacks _ Hin) as [(p & Pe) Hck]. cbn [fst snd] in *.
    pose proof (cv_ci cfg Ps g C LL A V HI) as Hci. pose proof (ci_ok C LL Hci) as HC.
    split.
    - (* every leader of a term >= T holds it *)
      intros l sl Hl Rl Hrole Hterm.
      destruct (node_log_in cfg Ps g C LL A V HI l sl Hl Rl) as [(_ & Lil & _ & _ & Hz & Lbl) [_ Hwl]].
      destruct (cv_lead cfg Ps g C LL A V HI l sl Hl Rl Hrole) as (tl & ld & Hll & _ & Hall & Htt & _).
      pose proof (cv_node cfg Ps g C LL A V HI l Hl) as (_ & _ & Hn). rewrite Rl in Hn. destruct Hn as (Hlc & _ & Htop & _).
      destruct (ci_tl C LL Hci _ _ _ Hll) as [Htl1 _].
      assert (Hpos : 0 < v_lastLogIdx sl).
      { destruct (N.eq_dec (v_lastLogIdx sl) 0) as [E|]; [|lia]. rewrite (Hz E) in Htt. lia. }
      destruct (proj2 Htop Hpos) as [xt Hxt]. destruct (Lil _ xt Hxt) as (Ixt & (pt & Pt) & _).
      assert (Ekt : key xt = topk sl) by (apply (anc_idx_eq C _ _ HC (Lbl _ xt Hxt)); unfold key, topk; simpl; exact Ixt).
      assert (Ett : e_term xt = v_term sl) by (unfold key, topk in Ekt; inversion Ekt; congruence).
      assert (Htla : anc C tl (topk sl)).
      { rewrite <- Ekt. eapply anc_trans; [apply (ci_root C LL Hci _ _ _ xt pt Hll Pt Ett)|]. eapply anc_up; [exact Pt|reflexivity|apply anc_refl]. }
      destruct Hck as (Tq & q & HT & Q & Htc & Hq).
      assert (Hanc : anc C (key e) (topk sl)).
      { destruct (N.lt_trichotomy Tq (v_term sl)) as [Hlt|[->|Hgt]]; [| |lia].
        - eapply anc_trans; [|exact Htla].
          apply (lc_core cfg C LL A V HVn Hci (cv_vi cfg Ps g C LL A V HI) q Tq (key e) Q Htc Hq (v_term sl) (gn_id l) tl Hll Hlt).
        - destruct Htc as (c' & tl' & Hl' & Hk). destruct (ci_uniq C LL Hci _ _ _ _ _ Hl' Hll) as [-> ->].
          destruct Hk as [[Hk1 _]|Hk]; [apply (Hall e p Pe Hk1)|eapply anc_trans; eauto]. }
      destruct (co_idx C HC e p Pe) as [Hei _].
      assert (Hh : holds (d_log sl) (key e)).
      { apply (holds_anc C (d_log sl) (d_term sl) (topk sl) (topk sl) (key e) HC Lil Lbl Hlc); [exists xt; auto|exact Hanc|unfold key; simpl; lia]. }
      destruct Hh as (y & Hy & Ey). unfold key in Hy at 1. simpl in Hy. destruct (Lil _ y Hy) as (_ & (py & Py) & _).
      rewrite Hy. f_equal. apply (co_fun C HC y py e p Py Pe Ey).
    - (* every server that knows the index to be committed holds it there *)
      intros a sa ea Ha Ra Hi Hea.
      destruct (cv_kc cfg Ps g C LL A V HI a sa Ha Ra) as [_ Ka].
      destruct (node_log_in cfg Ps g C LL A V HI a sa Ha Ra) as [(_ & Lia & _) _]. destruct (Lia _ ea Hea) as (Ia & (pa & Pa) & _).
      assert (E : key ea = key e).
      { apply (CK_same_idx cfg Ps HVn g C LL A V HI _ _ _ _ (Ka _ ea Hea Hi) Hck). unfold key. simpl. exact Ia. }
      apply (co_fun C HC ea pa e p Pa Pe E).
  Qed.
End Acks.

Theorem acknowledged_entries_are_permanent : forall cfg g0 ls g,
  cinit_ok cfg g0 -> Forall label_ok ls -> crun false [cfg] g0 ls = Some g ->
  acks_permanent (run_acks false [cfg] g0 ls) g.
Proof.
  intros cfg g0 ls g H0 Hls Hrun. pose proof H0 as (_ & _ & _ & _ & HVn & _).
  destruct (cinit_cinv cfg g0 H0) as [C0 HI0].
  apply (ackinv_permanent cfg (map gn_P (cnodes g0)) HVn).
  apply (crun_ackinv cfg (map gn_P (cnodes g0)) HVn ls g0 [] g); [|exact Hls|exact Hrun].
  exists C0, [], [], []. split; [exact HI0|constructor].
Qed.

(* at the acknowledging step: the acting leader has the entry at its index, at or below the commit index it installs *)
Theorem acks_are_committed_when_answered : forall cfg g0 ls g l g' T e,
  cinit_ok cfg g0 -> Forall label_ok ls -> crun false [cfg] g0 ls = Some g ->
  cstep false [cfg] g l = Some g' -> In (T, e) (step_acks g l) ->
  exists i n' s', l = CCommit i /\ find_node (cnodes g') i = Some n' /\ gn_run n' = Up s' /\ v_role s' = Leader /\
    v_term s' = T /\ e_idx e <= v_commit s' /\ d_log s' !! e_idx e = Some e.
Proof.
  intros cfg g0 ls g l g' T e H0 Hls Hrun Hstep Hin. pose proof H0 as (_ & _ & _ & _ & HVn & _).
  destruct (cinit_cinv cfg g0 H0) as [C0 HI0].
  destruct (ClusterCommitMain.crun_cinv cfg (map gn_P (cnodes g0)) HVn ls g0 g (ex_intro _ C0 (ex_intro _ [] (ex_intro _ [] (ex_intro _ [] HI0)))) Hls Hrun)
    as (C & LL & A & V & HI).
  destruct (step_acks_other g l T e Hin) as [i ->].
  destruct (ack_step_facts cfg _ HVn g C LL A V i g' T e HI Hstep Hin) as (_ & n' & s' & H1 & H2 & H3 & H4 & _ & H6 & H7).
  exists i, n', s'. auto 10.
Qed.

Print Assumptions acknowledged_entries_are_permanent.
Print Assumptions acks_are_committed_when_answered.
