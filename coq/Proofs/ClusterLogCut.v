(* ClusterLogCut.v — crash cuts and the log store: the durable image left by a crash inside a
   handler is the replay of a PREFIX of the handler's trace; if every such prefix leaves a good
   (term, log) pair, the restarted server satisfies the node invariant. *)
From Coq Require Import List NArith Bool Lia.
From stdpp Require Import gmap.
From RaftModel Require Import Base Config Compaction Node NodeCodec.
From RaftProofs Require Import VoteProofs AdvLeaderProofs RecoverProofs ClusterLogSpec ClusterLogChain ClusterLogNode.
Open Scope N_scope.

(* the (current term, log store) projection of a durable image under one trace item *)
Definition tl_apply (d : N * gmap N entry) (e : ev) : N * gmap N entry :=
  match e with
  | ESetTerm t true => (t, snd d)
  | EStore es true => (fst d, log_store (snd d) es)
  | EDelete lo hi true => (fst d, log_delete (snd d) lo hi)
  | _ => d
  end.

Definition tlp (s : nstate) : N * gmap N entry := (d_term s, d_log s).

Lemma tlp_apply_ev P s e : tlp (apply_ev P None s e) = tl_apply (tlp s) e /\ d_snaps (apply_ev P None s e) = d_snaps s.
Proof.
  destruct e as [t ok|t ok|c ok|es ok|lo hi ok|c|i t ok|e|i|d]; simpl; try (split; reflexivity);
    try (destruct ok; split; reflexivity).
  destruct (p_track P); split; reflexivity.
Qed.

Lemma cut_image_tl P tr : forall s k,
  exists j, tlp (cut_image P None s tr k) = fold_left tl_apply (firstn j tr) (tlp s) /\
            d_snaps (cut_image P None s tr k) = d_snaps s.
Proof.
  induction tr as [|e r IH]; intros s k.
  - exists 0%nat. destruct k; split; reflexivity.
  - destruct k as [|k'].
    + exists 0%nat. split; reflexivity.
    + simpl. destruct (tlp_apply_ev P s e) as [A B]. destruct (is_durable e).
      * destruct (IH (apply_ev P None s e) k') as [j [Hj Hs]]. exists (S j). simpl.
        rewrite Hj, A, Hs, B. split; reflexivity.
      * destruct (IH (apply_ev P None s e) (S k')) as [j [Hj Hs]]. exists (S j). simpl.
        rewrite Hj, A, Hs, B. split; reflexivity.
Qed.

(* only successful term writes, stores and deletes matter *)
Definition is_tl (e : ev) : bool :=
  match e with ESetTerm _ true | EStore _ true | EDelete _ _ true => true | _ => false end.
Definition tlf (tr : list ev) : list ev := List.filter is_tl tr.

Lemma tl_apply_not d e : is_tl e = false -> tl_apply d e = d.
Proof. destruct e as [t ok|t ok|c ok|es ok|lo hi ok|c|i t ok|e|i|dd]; simpl; try reflexivity; destruct ok; try reflexivity; discriminate. Qed.

Lemma prefix_tlf tr : forall d j,
  exists j', fold_left tl_apply (firstn j tr) d = fold_left tl_apply (firstn j' (tlf tr)) d.
Proof.
  induction tr as [|e r IH]; intros d j.
  - exists 0%nat. destruct j; reflexivity.
  - destruct j as [|j]; [exists 0%nat; reflexivity|]. simpl.
    destruct (is_tl e) eqn:E.
    + destruct (IH (tl_apply d e) j) as [j' Hj']. exists (S j'). simpl. exact Hj'.
    + rewrite tl_apply_not by exact E. destruct (IH d j) as [j' Hj']. exists j'. exact Hj'.
Qed.

Lemma tlf_app a b : tlf (a ++ b) = tlf a ++ tlf b.
Proof. apply filter_app. Qed.

Lemma fold_tlf tr : forall d, fold_left tl_apply tr d = fold_left tl_apply (tlf tr) d.
Proof.
  induction tr as [|e r IH]; intros d; simpl; [reflexivity|].
  destruct (is_tl e) eqn:E; simpl; [apply IH|]. rewrite tl_apply_not by exact E. apply IH.
Qed.

Lemma tlf_fsm_events l : tlf (flat_map fsm_events l) = [].
Proof.
  induction l as [|e r IH]; simpl; [reflexivity|].
  rewrite tlf_app, IH, app_nil_r. unfold fsm_events.
  destruct (e_ty e =? LogCommand); [reflexivity|]. destruct (e_ty e =? LogConfiguration); reflexivity.
Qed.

(* a good (term, log) pair *)
Definition good_tl (C : chain) (d : N * gmap N entry) : Prop :=
  log_in C (snd d) (fst d) /\ exists top, log_below C (snd d) top.

Lemma good_tl_img C s : d_snaps s = [] -> good_tl C (tlp s) -> nlog_img C s.
Proof. intros Hs [A B]. split; [exact Hs|]. split; [exact A|exact B]. Qed.

Lemma nlog_img_good C s : nlog_img C s -> good_tl C (tlp s).
Proof. intros (_ & A & B). split; [exact A|exact B]. Qed.

Definition trace_of {R} (o : outcome R) : list ev := match o with Done _ _ tr _ | Panic _ tr => tr end.

(* all prefixes of the trace, seen through the filter *)
Definition prefixes_good (C : chain) (s : nstate) (tr : list ev) : Prop :=
  forall j, good_tl C (fold_left tl_apply (firstn j (tlf tr)) (tlp s)).

Lemma finish_nlog {R} C P (enc : R -> list N) (mk : R -> nobs) s cut (o : outcome R) r' ob out :
  chain_ok C -> d_snaps s = [] -> prefixes_good C s (trace_of o) ->
  (forall s' r tr fs', o = Done s' r tr fs' -> nlog_up C s') ->
  finish P enc mk None s cut o = (r', ob, out) ->
  nlog C r' /\ (forall s', r' = Up s' -> v_role s' = Leader -> exists r tr fs', o = Done s' r tr fs').
Proof.
  intros HC Hsn Hpre Hdone. unfold finish.
  assert (Hcrash : forall tr k rr oo, trace_of o = tr -> boot P (cut_image P None s tr k) = (rr, oo) ->
            nlog C rr /\ (forall s', rr = Up s' -> v_role s' = Leader -> exists r tr fs', o = Done s' r tr fs')).
  { intros tr k rr oo Etr HB. destruct (cut_image_tl P tr s k) as (j & Hj & Hs).
    destruct (prefix_tlf tr (tlp s) j) as (j' & Hj'). rewrite Hj' in Hj.
    assert (Himg : nlog_img C (cut_image P None s tr k)).
    { apply good_tl_img; [congruence|]. rewrite Hj. rewrite <- Etr. apply Hpre. }
    destruct (boot_nlog C P _ rr oo HC Himg HB) as (A & _ & _ & D).
    split; [exact A|]. intros s' Hs' Hr. rewrite (D s' Hs') in Hr. discriminate. }
  destruct o as [s1 r tr fs'|s1 tr].
  - destruct ((0 <? cut) && (N.to_nat cut <=? count_durable tr)%nat).
    + destruct (boot P (cut_image P None s tr (N.to_nat cut))) as [rr oo] eqn:EB.
      intros H; inversion H; subst. eapply Hcrash; [reflexivity|exact EB].
    + intros H; inversion H; subst. split; [simpl; eapply Hdone; reflexivity|].
      intros s' Hs' _. inversion Hs'; subst. eauto.
  - destruct (boot P (cut_image P None s tr (length tr))) as [rr oo] eqn:EB.
    intros H; inversion H; subst. eapply Hcrash; [reflexivity|exact EB].
Qed.
