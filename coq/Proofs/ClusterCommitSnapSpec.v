(* ClusterCommitSnapSpec.v — what is stated about Model/ClusterCommit.v WITH takeSnapshot and its log
   compaction (crun true: the label CBase (LElect (GInput j NSnapshot cut fs)) is allowed).

   A server that took a snapshot at index b may have removed its log entries at or below b, and a
   restarted server starts with lastApplied = b and commitIndex = 0.  So:
     - State Machine Safety (committed_agree, Model/ClusterCommit.v) is stated unchanged: it speaks
       about indexes at which both servers still hold an entry;
     - Leader Completeness: the leader holds the committed entry OR the index is at or below the
       index of the snapshot it runs on (v_lastSnapIdx);
     - lastApplied <= max(commitIndex, snapshot index), commitIndex <= last index;
     - a snapshot stored anywhere records, at its index, the term of the committed entry: it agrees
       with every running server that knows that index committed and still holds the entry, and two
       snapshots of one index have one term;
     - acknowledgements: as Leader Completeness.
   Initial states and side conditions on runs are those of Proofs/ClusterCommitSpec.v (cinit_ok: no
   snapshot anywhere at the start; label_ok: no LogConfiguration proposals, no forged RequestVote). *)
From Coq Require Import List NArith Bool Lia.
From stdpp Require Import gmap.
From RaftModel Require Import Base Config Compaction Commitment Node NodeCodec Candidate Leader Replicate Cluster ClusterLog ClusterCommit.
From RaftProofs Require Import ClusterCommitSpec.
Open Scope N_scope.

Definition leader_complete_snap (g : cgstate) : Prop :=
  forall a l sa sl, In a (cnodes g) -> In l (cnodes g) -> gn_run a = Up sa -> gn_run l = Up sl ->
  v_role sl = Leader -> v_term sa <= v_term sl ->
  forall i e, i <= v_commit sa -> d_log sa !! i = Some e -> d_log sl !! i = Some e \/ i <= v_lastSnapIdx sl.

Definition applied_within_snap (g : cgstate) : Prop :=
  forall a sa, In a (cnodes g) -> gn_run a = Up sa ->
    v_applied sa <= N.max (v_commit sa) (v_lastSnapIdx sa) /\ v_commit sa <= last_index sa.

(* the snapshot stores, of running and of stopped servers *)
Definition snaps_of (n : gnode) : list snapshot := d_snaps (image (gn_run n)).

Definition snapshots_committed (g : cgstate) : Prop :=
  (forall a b sa sn e, In a (cnodes g) -> In b (cnodes g) -> gn_run a = Up sa -> In sn (snaps_of b) ->
     sn_idx sn <= v_commit sa -> d_log sa !! sn_idx sn = Some e -> e_term e = sn_term sn) /\
  (forall a b sna snb, In a (cnodes g) -> In b (cnodes g) -> In sna (snaps_of a) -> In snb (snaps_of b) ->
     sn_idx sna = sn_idx snb -> sn_term sna = sn_term snb).

Definition acks_permanent_snap (acks : list (N * entry)) (g : cgstate) : Prop :=
  forall T e, In (T, e) acks ->
  (forall l sl, In l (cnodes g) -> gn_run l = Up sl -> v_role sl = Leader -> T <= v_term sl ->
     d_log sl !! e_idx e = Some e \/ e_idx e <= v_lastSnapIdx sl) /\
  (forall a sa ea, In a (cnodes g) -> gn_run a = Up sa -> e_idx e <= v_commit sa ->
     d_log sa !! e_idx e = Some ea -> ea = e).

(* initial states: those of Proofs/ClusterCommitSpec.v (in particular: no snapshot anywhere), and the FSM
   goroutine of a running server has applied nothing yet (its last index is 0, as after NewRaft).
   takeSnapshot trusts that index: a server that starts with lastApplied = 0 but a positive FSM index
   would snapshot, and compact away, entries nobody committed. *)
Definition cinit_snap_ok (cfg : config) (g : cgstate) : Prop :=
  cinit_ok cfg g /\ forall n s, In n (cnodes g) -> gn_run n = Up s -> fst (v_fsmLast s) = 0.

