(* ClusterCommitAE3.v — the volatile part of the state appendEntries returns: term, role, answer,
   commit index / lastApplied (after the fix: commit: commitIndex <= index of the request's last
   entry, never backwards), latest / committed configuration. *)
From Coq Require Import List NArith Bool Lia.
From stdpp Require Import gmap.
From RaftModel Require Import Base Config Compaction Node NodeCodec.
From RaftProofs Require Import VoteProofs AdvLeaderProofs AppendProofs RecoverProofs
  ClusterLogSpec ClusterLogChain ClusterLogNode ClusterLogCut ClusterLogVote ClusterLogAppend
  ClusterCommitSpec ClusterCommitInit ClusterCommitAE.
Open Scope N_scope.

Section Vol.
  Variable cfg : config.
  Variable P : params.

  (* what the entries block keeps, relative to the state s2 it starts from *)
  Definition ent_inv (s2 st : nstate) : Prop :=
    v_commit st = v_commit s2 /\ v_applied st = v_applied s2 /\ v_role st = v_role s2 /\ v_term st = v_term s2 /\
    v_lastSnapIdx st = v_lastSnapIdx s2 /\ d_term st = d_term s2 /\
    cfg_or_nil cfg (v_latest st) /\ cfg_or_nil cfg (v_committed st).

  Lemma fold_config_inv es : forall s,
    (forall e, In e es -> e_ty e = LogConfiguration -> p_decode P (e_data e) = cfg) ->
    cfg_or_nil cfg (v_latest s) -> cfg_or_nil cfg (v_committed s) ->
    let s' := fold_left (process_config_entry P) es s in
    cfg_or_nil cfg (v_latest s') /\ cfg_or_nil cfg (v_committed s') /\
    v_commit s' = v_commit s /\ v_applied s' = v_applied s /\ v_role s' = v_role s /\ v_term s' = v_term s /\
    v_lastSnapIdx s' = v_lastSnapIdx s /\ d_term s' = d_term s.
  Proof.
    induction es as [|e r IH]; intros s Hd Hl Hc; cbv zeta; simpl; [auto 10|].
    destruct (process_config_entry_cfg P cfg s e (Hd e (or_introl eq_refl)) Hl Hc) as [A B].
    destruct (IH (process_config_entry P s e) (fun x Hx => Hd x (or_intror Hx)) A B) as (I1 & I2 & I3 & I4 & I5 & I6 & I7 & I8).
    cbv zeta in *. split; [exact I1|]. split; [exact I2|].
    assert (K : v_commit (process_config_entry P s e) = v_commit s /\ v_applied (process_config_entry P s e) = v_applied s /\
                v_role (process_config_entry P s e) = v_role s /\ v_term (process_config_entry P s e) = v_term s /\
                v_lastSnapIdx (process_config_entry P s e) = v_lastSnapIdx s /\ d_term (process_config_entry P s e) = d_term s).
    { unfold process_config_entry. destruct (e_ty e =? LogConfiguration); repeat split. }
    destruct K as (K1 & K2 & K3 & K4 & K5 & K6). repeat split; congruence.
  Qed.

  Lemma store_new_inv fr lc s2 s3 tr3 fs3 news :
    (forall e, In e news -> e_ty e = LogConfiguration -> p_decode P (e_data e) = cfg) ->
    ent_inv s2 s3 -> forall st, cont_st (store_new P fr lc s3 tr3 fs3 news) = Some st -> ent_inv s2 st.
  Proof.
    intros Hd (A1 & A2 & A3 & A4 & A5 & A6 & A7 & A8) st. unfold store_new.
    assert (K : let s4 := fst (do_stage P s3 (N.min lc (e_idx (last_of news)))) in
                v_commit s4 = v_commit s3 /\ v_applied s4 = v_applied s3 /\ v_role s4 = v_role s3 /\ v_term s4 = v_term s3 /\
                v_lastSnapIdx s4 = v_lastSnapIdx s3 /\ d_term s4 = d_term s3 /\ v_latest s4 = v_latest s3 /\ v_committed s4 = v_committed s3).
    { unfold do_stage. destruct (p_track P); simpl; repeat split. }
    destruct (do_stage P s3 _) as [s4 trs]. cbv zeta in K. simpl in K. destruct K as (K1 & K2 & K3 & K4 & K5 & K6 & K7 & K8).
    unfold do_store. destruct (next_fail fs3) as [f fs5]. destruct f; cbn [negb cont_st].
    - intros E; inversion E; subst st. unfold ent_inv. rewrite K1, K2, K3, K4, K5, K6, K7, K8. auto 10.
    - intros E; inversion E; subst st.
      match goal with |- ent_inv s2 (set_lastlog (fold_left _ _ ?S6) _ _) =>
        destruct (fold_config_inv news S6 Hd) as (F1 & F2 & F3 & F4 & F5 & F6 & F7 & F8) end;
        [simpl; rewrite K7; exact A7|simpl; rewrite K8; exact A8|].
      cbv zeta in *. unfold ent_inv. cbn [v_commit v_applied v_role v_term v_lastSnapIdx d_term v_latest v_committed set_lastlog].
      rewrite F3, F4, F5, F6, F7, F8. cbn. rewrite K1, K2, K3, K4, K5, K6. auto 10.
  Qed.

  Lemma ae_entries_inv fr s2 tr1 fs1 a :
    (forall e, In e (aq_entries a) -> e_ty e = LogConfiguration -> p_decode P (e_data e) = cfg) ->
    cfg_or_nil cfg (v_latest s2) -> cfg_or_nil cfg (v_committed s2) ->
    cache_ok s2 -> contig (aq_prevIdx a) (aq_entries a) ->
    forall st, cont_st (ae_entries P fr s2 tr1 fs1 a) = Some st -> ent_inv s2 st.
  Proof.
    intros Hd Hl Hcm Hcache Hc st.
    assert (Hsame : ent_inv s2 s2) by (unfold ent_inv; auto 10).
    unfold ae_entries. destruct (aq_entries a) as [|e0 es0] eqn:Ees; [intros E; inversion E; subst; exact Hsame|].
    rewrite <- Ees in *. clear Ees e0 es0.
    pose proof (scan_spec (d_log s2) (v_lastLogIdx s2) (aq_entries a) (aq_prevIdx a) Hc Hcache) as Hs.
    destruct (scan_entries (d_log s2) (v_lastLogIdx s2) (aq_entries a)) as [news|c news| |];
      try (intros E; inversion E; subst; exact Hsame).
    - destruct Hs as (_ & dup & Hes & _). apply store_new_inv; [|exact Hsame].
      intros e He. apply Hd. rewrite Hes. apply in_app_iff. auto.
    - destruct Hs as (_ & dup & Hes & _).
      unfold do_delete. destruct (next_fail fs1) as [f fs3]. destruct f; cbn [negb].
      { intros E; inversion E; subst. exact Hsame. }
      destruct (conflict_pred a news) as [pi pt]. apply store_new_inv.
      + intros e He. apply Hd. rewrite Hes. apply in_app_iff. auto.
      + unfold ent_inv. destruct (c <=? v_latestIdx _); cbn; auto 10.
  Qed.
End Vol.

Lemma process_logs_vol s idx s' tr : process_logs s idx = Some (s', tr) ->
  v_commit s' = v_commit s /\ v_role s' = v_role s /\ v_term s' = v_term s /\ d_term s' = d_term s /\
  v_latest s' = v_latest s /\ v_committed s' = v_committed s /\
  (v_applied s' = v_applied s \/ (v_applied s < idx /\ v_applied s' = idx)).
Proof.
  unfold process_logs. destruct (N.leb_spec idx (v_applied s)) as [Hle|Hgt].
  - intros E; inversion E; subst. auto 10.
  - destruct (collect_logs _ _ _); [|discriminate]. intros E; inversion E; subst. cbn. auto 10.
Qed.

Section Vol2.
  Variable cfg : config.
  Variable P : params.

  Lemma ae_commit_vol okr s8 tr8 fs8 a s' r tr fs' : ae_commit okr s8 tr8 fs8 a = Done s' r tr fs' ->
    cfg_or_nil cfg (v_latest s8) -> cfg_or_nil cfg (v_committed s8) ->
    r = okr /\ v_role s' = v_role s8 /\ v_term s' = v_term s8 /\ d_term s' = d_term s8 /\ last_index s' = last_index s8 /\
    cfg_or_nil cfg (v_latest s') /\ cfg_or_nil cfg (v_committed s') /\
    ((v_commit s' = v_commit s8 /\ v_applied s' = v_applied s8) \/
     (v_commit s8 < v_commit s' /\ v_commit s' <= aq_commit a /\ v_commit s' <= last_new a /\ v_commit s' <= last_index s8 /\
      (v_applied s' = v_applied s8 \/ v_applied s' = v_commit s'))).
  Proof.
    intros H Hl Hc. unfold ae_commit in H.
    destruct ((0 <? aq_commit a) && (v_commit s8 <? aq_commit a)); [|inversion H; subst; auto 10].
    cbv zeta in H. set (idx := N.min (aq_commit a) (N.min (last_new a) (last_index s8))) in *.
    destruct (N.ltb_spec (v_commit s8) idx) as [Hlt|]; [|inversion H; subst; auto 10].
    match type of H with context [process_logs ?S ?I] => destruct (process_logs S I) as [[s11 tra]|] eqn:EP end; [|discriminate].
    inversion H; subst s' r tr fs'. clear H. pose proof (process_logs_keep _ _ _ _ EP) as ((_ & _ & L3 & _ & L5) & _). apply process_logs_vol in EP.
    destruct EP as (E1 & E2 & E3 & E4 & E5 & E6 & E7).
    assert (K : forall X : nstate, X = (if v_latestIdx (set_commit s8 idx) <=? idx
                 then set_committed (set_commit s8 idx) (v_latest (set_commit s8 idx)) (v_latestIdx (set_commit s8 idx))
                 else set_commit s8 idx) ->
              v_commit X = idx /\ v_role X = v_role s8 /\ v_term X = v_term s8 /\ d_term X = d_term s8 /\
              v_latest X = v_latest s8 /\ (v_committed X = v_committed s8 \/ v_committed X = v_latest s8) /\ v_applied X = v_applied s8).
    { intros X ->. destruct (v_latestIdx _ <=? idx); cbn; auto 10. }
    destruct (K _ eq_refl) as (K1 & K2 & K3 & K4 & K5 & K6 & K7).
    split; [reflexivity|]. split; [congruence|]. split; [congruence|]. split; [congruence|].
    split. { unfold last_index. rewrite L3, L5. destruct (v_latestIdx _ <=? idx); reflexivity. }
    split; [rewrite E5, K5; exact Hl|]. split; [rewrite E6; destruct K6 as [-> | ->]; assumption|].
    right. rewrite E1, K1. split; [exact Hlt|]. split; [unfold idx; lia|]. split; [unfold idx; lia|]. split; [unfold idx; lia|].
    destruct E7 as [E7|[_ E7]]; [left; congruence|right; congruence].
  Qed.
End Vol2.

Section Vol3.
  Variable cfg : config.
  Variable P : params.

  Lemma ae_body_vol s0 s2 rt tr1 fs1 a s' r tr fs' :
    (forall e, In e (aq_entries a) -> e_ty e = LogConfiguration -> p_decode P (e_data e) = cfg) ->
    cfg_or_nil cfg (v_latest s2) -> cfg_or_nil cfg (v_committed s2) -> cache_ok s2 -> contig (aq_prevIdx a) (aq_entries a) ->
    ae_body P s0 s2 rt tr1 fs1 a = Done s' r tr fs' ->
    ar_term r = rt /\ ar_last r = last_index s0 /\ v_role s' = v_role s2 /\ v_term s' = v_term s2 /\ d_term s' = d_term s2 /\
    cfg_or_nil cfg (v_latest s') /\ cfg_or_nil cfg (v_committed s') /\
    ((v_commit s' = v_commit s2 /\ v_applied s' = v_applied s2) \/
     (ar_success r = true /\ v_commit s2 < v_commit s' /\ v_commit s' <= aq_commit a /\ v_commit s' <= last_new a /\
      v_commit s' <= last_index s' /\ (v_applied s' = v_applied s2 \/ v_applied s' = v_commit s'))).
  Proof.
    intros Hd Hl Hcm Hcache Hc. unfold ae_body.
    assert (Hsame : forall nr fsx, Done s2 (mkAResp rt (last_index s0) false nr false) tr1 fsx = Done s' r tr fs' ->
              ar_term r = rt /\ ar_last r = last_index s0 /\ v_role s' = v_role s2 /\ v_term s' = v_term s2 /\ d_term s' = d_term s2 /\
              cfg_or_nil cfg (v_latest s') /\ cfg_or_nil cfg (v_committed s') /\
              ((v_commit s' = v_commit s2 /\ v_applied s' = v_applied s2) \/
               (ar_success r = true /\ v_commit s2 < v_commit s' /\ v_commit s' <= aq_commit a /\ v_commit s' <= last_new a /\
                v_commit s' <= last_index s' /\ (v_applied s' = v_applied s2 \/ v_applied s' = v_commit s')))).
    { intros nr fsx E. inversion E; subst. simpl. auto 10. }
    destruct (prev_check s2 a) as [[|]|]; try apply Hsame.
    pose proof (ae_entries_inv cfg P (mkAResp rt (last_index s0) false false false) s2 tr1 fs1 a Hd Hl Hcm Hcache Hc) as Hinv.
    pose proof (ae_entries_same P (mkAResp rt (last_index s0) false false false) s2 tr1 fs1 a) as Hsm.
    destruct (ae_entries P _ s2 tr1 fs1 a) as [[[[s8 tr8] fs8]|]|[[[resp st] tr'] fs'']] eqn:EA; cbn [cont_st] in Hinv.
    - destruct (Hinv s8 eq_refl) as (I1 & I2 & I3 & I4 & I5 & I6 & I7 & I8).
      intros H. destruct (ae_commit_vol cfg _ s8 tr8 fs8 a s' r tr fs' H I7 I8) as (-> & C2 & C3 & C4 & C5 & C6 & C7 & C8).
      simpl. split; [reflexivity|]. split; [reflexivity|]. split; [congruence|]. split; [congruence|]. split; [congruence|].
      split; [exact C6|]. split; [exact C7|].
      destruct C8 as [[E1 E2]|(E1 & E2 & E3 & E4 & E5)]; [left; split; congruence|right].
      split; [reflexivity|]. split; [lia|]. split; [exact E2|]. split; [exact E3|]. split; [lia|].
      destruct E5 as [E5|E5]; [left; congruence|right; exact E5].
    - discriminate.
    - destruct (Hinv st eq_refl) as (I1 & I2 & I3 & I4 & I5 & I6 & I7 & I8).
      intros H; inversion H; subst s' r tr fs'.
      assert (Er : resp = mkAResp rt (last_index s0) false false false).
      { clear -EA. unfold ae_entries in EA. destruct (aq_entries a); [discriminate|].
        destruct (scan_entries _ _ _) as [news|c news| |]; try discriminate.
        - unfold store_new in EA. destruct (do_stage P s2 _) as [s4 trs]. destruct (do_store P s4 fs1 news) as [[s5 ok] fs5].
          destruct ok; simpl in EA; [discriminate|inversion EA; reflexivity].
        - destruct (do_delete s2 fs1 c (v_lastLogIdx s2)) as [[s3 ok] fs3]. destruct ok; simpl in EA; [|inversion EA; reflexivity].
          destruct (conflict_pred a news) as [pi pt]. unfold store_new in EA.
          destruct (do_stage P _ _) as [s4 trs]. destruct (do_store P s4 fs3 news) as [[s5 ok] fs5].
          destruct ok; simpl in EA; [discriminate|inversion EA; reflexivity].
        - inversion EA; reflexivity. }
      subst resp. simpl. auto 10.
  Qed.
End Vol3.

Section Vol4.
  Variable cfg : config.
  Variable P : params.

  (* the state and the answer of a handler that returned *)
  Theorem append_done_vol s fs a s' r tr fs' : wfu s -> cache_ok s -> contig (aq_prevIdx a) (aq_entries a) ->
    (forall e, In e (aq_entries a) -> e_ty e = LogConfiguration -> p_decode P (e_data e) = cfg) ->
    cfg_or_nil cfg (v_latest s) -> cfg_or_nil cfg (v_committed s) ->
    append_entries P s fs a = Done s' r tr fs' ->
    (aq_term a < v_term s /\ s' = s /\ ar_term r = v_term s /\ ar_success r = false) \/
    (v_term s <= aq_term a /\ v_term s' = aq_term a /\ d_term s' = aq_term a /\ ar_term r = aq_term a /\ ar_last r = last_index s /\
     (v_role s' = Follower \/ (v_role s' = v_role s /\ v_term s = aq_term a)) /\
     cfg_or_nil cfg (v_latest s') /\ cfg_or_nil cfg (v_committed s') /\
     ((v_commit s' = v_commit s /\ v_applied s' = v_applied s) \/
      (ar_success r = true /\ v_commit s < v_commit s' /\ v_commit s' <= aq_commit a /\ v_commit s' <= last_new a /\
       v_commit s' <= last_index s' /\ (v_applied s' = v_applied s \/ v_applied s' = v_commit s')))).
  Proof.
    intros [Hwd Hvt] Hcache Hc Hd Hl Hcm. unfold append_entries.
    destruct (N.ltb_spec (aq_term a) (v_term s)) as [Hlt|Hge].
    { intros H; inversion H; subst. left. simpl. auto. }
    set (bump := (v_term s <? aq_term a) || (negb (v_role s =? Follower) && negb (v_transfer s))).
    destruct bump eqn:Eb.
    - unfold do_set_term. destruct (next_fail fs) as [f fs1]. destruct f; [discriminate|].
      set (s2 := set_leader (set_vol_term (set_durable_term (set_state s Follower) (aq_term a)) (aq_term a)) (aq_addr a) (aq_id a)).
      intros H. destruct (ae_body_vol cfg P s s2 (aq_term a) [ESetTerm (aq_term a) true] fs1 a s' r tr fs' Hd Hl Hcm Hcache Hc H)
        as (B1 & B2 & B3 & B4 & B5 & B6 & B7 & B8).
      right. split; [exact Hge|]. split; [exact B4|]. split; [exact B5|]. split; [exact B1|]. split; [exact B2|].
      split; [left; exact B3|]. split; [exact B6|]. split; [exact B7|exact B8].
    - assert (Heq : v_term s = aq_term a).
      { unfold bump in Eb. apply orb_false_elim in Eb. destruct Eb as [Eb _]. apply N.ltb_ge in Eb. lia. }
      set (s2 := set_leader s (aq_addr a) (aq_id a)).
      intros H. destruct (ae_body_vol cfg P s s2 (v_term s) [] fs a s' r tr fs' Hd Hl Hcm Hcache Hc H)
        as (B1 & B2 & B3 & B4 & B5 & B6 & B7 & B8).
      right. split; [exact Hge|]. split; [rewrite B4; exact Heq|]. split; [rewrite B5; simpl; lia|]. split; [rewrite B1; exact Heq|].
      split; [exact B2|]. split; [right; split; [exact B3|exact Heq]|]. split; [exact B6|]. split; [exact B7|exact B8].
  Qed.
End Vol4.
