(* LeaderGateA.v — what each leader operation does to the fields the gate depends on, and the invariants
   of a leadership run (used by LeaderGateProofs.v). *)
From Coq Require Import List NArith Bool Lia ZifyBool ZifyN.
From stdpp Require Import gmap.
From RaftModel Require Import Base Config Compaction Commitment Node Leader LeaderCodec.
From RaftProofs Require Import CommitmentProofs ConfigProofs LeaderGateSpec.
Open Scope N_scope.

Local Opaque cm_step.

Ltac nsimp :=
  cbn [l_node l_cm l_inflight d_term d_vterm d_vcand d_log d_staged d_pcommit d_snaps v_role v_term v_commit
       v_applied v_lastLogIdx v_lastLogTerm v_lastSnapIdx v_lastSnapTerm v_latest v_latestIdx v_committed
       v_committedIdx v_leader v_leaderId v_transfer v_fsm v_fsmLast set_log set_snaps set_role set_commit
       set_lastlog set_lastsnap set_latest set_committed set_leader set_applied_fsm set_state
       fst snd] in *.

(* the volatile fields the gate reads *)
Definition same_core (s s' : nstate) : Prop :=
  v_term s' = v_term s /\ v_commit s' = v_commit s /\ v_latestIdx s' = v_latestIdx s /\
  v_committedIdx s' = v_committedIdx s /\ v_latest s' = v_latest s.

Lemma same_core_refl s : same_core s s.
Proof. repeat split. Qed.

Lemma same_core_trans a b c : same_core a b -> same_core b c -> same_core a c.
Proof. unfold same_core. intros (A1 & A2 & A3 & A4 & A5) (B1 & B2 & B3 & B4 & B5). repeat split; congruence. Qed.

Definition log_sub (s s' : nstate) : Prop := forall k e, d_log s' !! k = Some e -> d_log s !! k = Some e.

(* ---------------------------------------------------------------- store primitives *)
Lemma log_store_lookup es : forall (m : gmap N entry) k e,
  log_store m es !! k = Some e -> m !! k = Some e \/ (In e es /\ e_idx e = k).
Proof.
  unfold log_store. induction es as [|x r IH]; intros m k e H; simpl in H; [left; exact H|].
  apply IH in H. destruct H as [H|[H1 H2]].
  - destruct (N.eq_dec (e_idx x) k) as [E|E].
    + subst k. rewrite lookup_insert in H. inversion H; subst. right. split; [left; reflexivity|reflexivity].
    + rewrite lookup_insert_ne in H by exact E. left. exact H.
  - right. split; [right; exact H1|exact H2].
Qed.

Lemma log_delete_lookup (m : gmap N entry) lo hi k e : log_delete m lo hi !! k = Some e -> m !! k = Some e.
Proof. unfold log_delete. intros H. apply map_filter_lookup_Some in H. apply H. Qed.

Lemma do_stage_effect P s c s1 trs : do_stage P s c = (s1, trs) -> same_core s s1 /\ d_log s1 = d_log s.
Proof. unfold do_stage. destruct (p_track P); intros H; inversion H; subst; (split; [repeat split|reflexivity]). Qed.

Lemma do_store_effect P s fs es s2 ok fs' : do_store P s fs es = (s2, ok, fs') ->
  same_core s s2 /\ d_log s2 = (if ok then log_store (d_log s) es else d_log s).
Proof.
  unfold do_store. destruct (next_fail fs) as [f fs1]. destruct f; intros H; inversion H; subst;
    (split; [repeat split|reflexivity]).
Qed.

Lemma do_delete_effect s fs lo hi s' ok fs' : do_delete s fs lo hi = (s', ok, fs') -> same_core s s' /\ log_sub s s'.
Proof.
  unfold do_delete. destruct (next_fail fs) as [f fs1]. destruct f; intros H; inversion H; subst;
    (split; [repeat split|]); intros k e Hk; nsimp; [exact Hk|]. eapply log_delete_lookup. exact Hk.
Qed.

Lemma run_compaction_effect s fs range s' tr fs' : run_compaction s fs range = (s', tr, fs') -> same_core s s' /\ log_sub s s'.
Proof.
  unfold run_compaction. destruct range as [[lo hi]|].
  - destruct (do_delete s fs lo hi) as [[s1 ok] fs1] eqn:E. intros H; inversion H; subst.
    eapply do_delete_effect. exact E.
  - intros H; inversion H; subst. split; [apply same_core_refl|]. intros k e Hk; exact Hk.
Qed.

(* ---------------------------------------------------------------- dispatchLogs *)
Lemma number_logs_in term reqs : forall last e,
  In e (map fst (number_logs last term reqs)) -> e_term e = term /\ exists d f, In (e_ty e, d, f) reqs.
Proof.
  induction reqs as [|[[ty d] f] r IH]; intros last e H; simpl in H; [contradiction|].
  destruct H as [H|H].
  - subst e. simpl. split; [reflexivity|]. exists d, f. left. reflexivity.
  - apply IH in H. destruct H as [H1 (d' & f' & H2)]. split; [exact H1|]. exists d', f'. right. exact H2.
Qed.

Lemma dispatch_effect P ls fs reqs ls' res tr fs' :
  dispatch P ls fs reqs = (ls', res, tr, fs') ->
  same_core (l_node ls) (l_node ls') /\
  cm_start (l_cm ls') = cm_start (l_cm ls) /\ cm_commit (l_cm ls) <= cm_commit (l_cm ls') /\
  forall k e, d_log (l_node ls') !! k = Some e ->
    d_log (l_node ls) !! k = Some e \/
    (e_idx e = k /\ In e (map fst (number_logs (last_index (l_node ls)) (v_term (l_node ls)) reqs))).
Proof.
  unfold dispatch.
  destruct (do_stage P (l_node ls) (v_commit (l_node ls))) as [s1 trs] eqn:E1.
  destruct (do_store P s1 fs _) as [[s2 ok] fs2] eqn:E2.
  apply do_stage_effect in E1. destruct E1 as [C1 L1].
  apply do_store_effect in E2. destruct E2 as [C2 L2].
  pose proof (same_core_trans _ _ _ C1 C2) as C.
  destruct ok; cbn [negb]; intros H; injection H as <- _ _ _; nsimp.
  - split; [exact C|]. split; [exact (proj1 (cm_step_spec _ _))|]. split; [apply commit_monotone|].
    intros k e Hk. rewrite L2, L1 in Hk. apply log_store_lookup in Hk. destruct Hk as [Hk|[Hin Hi]]; [left; exact Hk|].
    right. split; assumption.
  - split; [exact C|]. split; [reflexivity|]. split; [lia|].
    intros k e Hk. rewrite L2, L1 in Hk. left. exact Hk.
Qed.

(* ---------------------------------------------------------------- the commitCh case *)
Lemma process_logs_f_effect s infl idx s3 tr res :
  process_logs_f s infl idx = Some (s3, tr, res) -> same_core s s3 /\ d_log s3 = d_log s.
Proof.
  unfold process_logs_f. destruct (idx <=? v_applied s).
  - intros H; inversion H; subst. split; [apply same_core_refl|reflexivity].
  - destruct (collect_with_futures _ _ _ _) as [items|]; [|discriminate].
    intros H; inversion H; subst. split; [repeat split|reflexivity].
Qed.

Lemma commit_effect ls ls' tr res :
  leader_commit ls = Some (ls', tr, res) ->
  l_cm ls' = l_cm ls /\ d_log (l_node ls') = d_log (l_node ls) /\
  v_term (l_node ls') = v_term (l_node ls) /\ v_latest (l_node ls') = v_latest (l_node ls) /\
  v_latestIdx (l_node ls') = v_latestIdx (l_node ls) /\
  v_commit (l_node ls') = cm_commit (l_cm ls) /\
  v_committedIdx (l_node ls') =
    (if (v_commit (l_node ls) <? v_latestIdx (l_node ls)) && (v_latestIdx (l_node ls) <=? cm_commit (l_cm ls))
     then v_latestIdx (l_node ls) else v_committedIdx (l_node ls)).
Proof.
  unfold leader_commit.
  set (s := l_node ls). set (ci := cm_commit (l_cm ls)).
  set (s2 := if (v_commit s <? v_latestIdx (set_commit s ci)) && (v_latestIdx (set_commit s ci) <=? ci)
             then set_committed (set_commit s ci) (v_latest (set_commit s ci)) (v_latestIdx (set_commit s ci))
             else set_commit s ci).
  assert (F : d_log s2 = d_log s /\ v_term s2 = v_term s /\ v_latest s2 = v_latest s /\
              v_latestIdx s2 = v_latestIdx s /\ v_commit s2 = ci /\
              v_committedIdx s2 = (if (v_commit s <? v_latestIdx s) && (v_latestIdx s <=? ci)
                                   then v_latestIdx s else v_committedIdx s)).
  { subst s2. nsimp. destruct ((v_commit s <? v_latestIdx s) && (v_latestIdx s <=? ci)); nsimp; repeat split. }
  clearbody s2. destruct F as (F1 & F2 & F3 & F4 & F5 & F6).
  destruct (ready_prefix (l_inflight ls) ci) as [ready rest].
  destruct ready as [|x r].
  - intros H; inversion H; subst; nsimp. repeat split; assumption.
  - destruct (process_logs_f s2 (x :: r) _) as [[[s3 tr3] res3]|] eqn:E; [|discriminate].
    apply process_logs_f_effect in E. destruct E as [(C1 & C2 & C3 & C4 & C5) L].
    intros H; inversion H; subst; nsimp. repeat split; congruence.
Qed.

(* ---------------------------------------------------------------- appendConfigurationEntry *)
Lemma config_effect P enc ls fs q fid ls' res tr fs' :
  append_config P enc ls fs q fid = (ls', res, tr, fs') ->
  ls' = ls \/
  exists cfg, next_config (v_latest (l_node ls)) (v_latestIdx (l_node ls)) q = Some cfg /\
    v_term (l_node ls') = v_term (l_node ls) /\ v_commit (l_node ls') = v_commit (l_node ls) /\
    v_committedIdx (l_node ls') = v_committedIdx (l_node ls) /\
    v_latest (l_node ls') = cfg /\ v_latestIdx (l_node ls') = last_index (l_node ls) + 1 /\
    cm_start (l_cm ls') = cm_start (l_cm ls) /\ cm_commit (l_cm ls) <= cm_commit (l_cm ls') /\
    forall k e, d_log (l_node ls') !! k = Some e ->
      d_log (l_node ls) !! k = Some e \/
      (e_idx e = k /\ e_term e = v_term (l_node ls) /\ k = last_index (l_node ls) + 1).
Proof.
  unfold append_config.
  destruct (next_config _ _ q) as [cfg|] eqn:En; [|intros H; inversion H; subst; left; reflexivity].
  destruct (dispatch P ls fs _) as [[[ls1 res1] tr1] fs1] eqn:Ed.
  intros H; injection H as <- _ _ _. right. exists cfg. split; [reflexivity|].
  pose proof Ed as Ed'. apply dispatch_effect in Ed'. destruct Ed' as ((C1 & C2 & C3 & C4 & C5) & S & M & L).
  nsimp. repeat split; try assumption.
  - rewrite <- S. exact (proj1 (cm_step_spec _ _)).
  - pose proof (commit_monotone (l_cm ls1) (CSetCfg cfg)). lia.
  - intros k e Hk. apply L in Hk. destruct Hk as [Hk|(H1 & H2)]; [left; exact Hk|].
    right. simpl in H2. destruct H2 as [H2|[]]. subst e. simpl in *. repeat split; congruence.
Qed.

(* ---------------------------------------------------------------- restoreUserSnapshot *)
Lemma log_sub_refl s : log_sub s s.
Proof. intros k e H; exact H. Qed.

Lemma restore_effect P ls fs mi data so ls' code res tr fs' :
  restore_user P ls fs mi data so = (ls', code, res, tr, fs') ->
  same_core (l_node ls) (l_node ls') /\ l_cm ls' = l_cm ls /\ log_sub (l_node ls) (l_node ls').
Proof.
  unfold restore_user.
  destruct (negb (v_committedIdx (l_node ls) =? v_latestIdx (l_node ls))).
  { intros H; injection H as <- _ _ _ _. split; [apply same_core_refl|]. split; [reflexivity|apply log_sub_refl]. }
  destruct (next_fail fs) as [fc fs1]. destruct fc.
  { intros H; injection H as <- _ _ _ _. nsimp. split; [apply same_core_refl|]. split; [reflexivity|apply log_sub_refl]. }
  destruct (negb so).
  { intros H; injection H as <- _ _ _ _. nsimp. split; [apply same_core_refl|]. split; [reflexivity|apply log_sub_refl]. }
  destruct (next_fail fs1) as [fcl fs2]. destruct fcl.
  { intros H; injection H as <- _ _ _ _. nsimp. split; [apply same_core_refl|]. split; [reflexivity|apply log_sub_refl]. }
  destruct (p_monotonic P).
  - match goal with |- context [run_compaction ?S ?F ?R] =>
      destruct (run_compaction S F R) as [[s3 trc] fs3] eqn:E end.
    apply run_compaction_effect in E. destruct E as [C L].
    intros H; injection H as <- _ _ _ _. nsimp.
    split; [|split; [reflexivity|]].
    + eapply same_core_trans; [|exact C]. repeat split.
    + intros k e Hk. apply L in Hk. exact Hk.
  - intros H; injection H as <- _ _ _ _. nsimp. split; [repeat split|]. split; [reflexivity|]. intros k e Hk; exact Hk.
Qed.

(* ================================================================ invariants of one leadership *)
Definition no_config_req (o : lop) : bool :=
  match o with
  | LDispatch reqs _ => forallb (fun r => negb (fst (fst r) =? LogConfiguration)) reqs
  | _ => true
  end.

Section Inv.
Variables (last0 term0 : N).

(* the commitment starts above the election-time log; the term stands; a configuration committed during
   this leadership is at or below the commit index, which the commitment has reached *)
Record core_inv (ls : lstate) : Prop := {
  ci_start : cm_start (l_cm ls) = last0 + 1;
  ci_term : v_term (l_node ls) = term0;
  ci_A : last0 < v_committedIdx (l_node ls) ->
         v_committedIdx (l_node ls) <= v_commit (l_node ls) /\ v_commit (l_node ls) <= cm_commit (l_cm ls) }.

Definition term_inv (ls : lstate) : Prop :=
  forall i e, last0 < i -> d_log (l_node ls) !! i = Some e -> e_term e = term0 /\ e_idx e = i.

Definition cfg_inv (ls : lstate) : Prop :=
  forall k e, d_log (l_node ls) !! k = Some e -> e_ty e = LogConfiguration -> last0 < e_idx e ->
    k = e_idx e /\
    ((e_idx e <= v_commit (l_node ls) /\ e_idx e <= cm_commit (l_cm ls)) \/ e_idx e = v_latestIdx (l_node ls)).

Lemma core_step P tab ls vf o ls' vf' out :
  core_inv ls -> step_lop P tab ls vf o = (Some ls', vf', out) -> core_inv ls'.
Proof.
  intros [I1 I2 I3] H. destruct o; unfold step_lop in H.
  - destruct (dispatch P ls fs reqs) as [[[ls1 res] tr] fs1] eqn:E. injection H as <- _ _.
    apply dispatch_effect in E. destruct E as ((C1 & C2 & C3 & C4 & C5) & S & M & _).
    constructor; [congruence|congruence|]. rewrite C4, C2. intros Hc. specialize (I3 Hc). lia.
  - injection H as <- _ _. unfold peer_match. nsimp. pose proof (cm_step_spec (l_cm ls) (CMatch id idx)) as [S _].
    pose proof (commit_monotone (l_cm ls) (CMatch id idx)) as M. cbv zeta in S.
    constructor; [simpl; congruence|exact I2|]. simpl. intros Hc. specialize (I3 Hc). lia.
  - destruct (leader_commit ls) as [[[ls1 tr] res]|] eqn:E; [|discriminate]. injection H as <- _ _.
    apply commit_effect in E. destruct E as (E1 & E2 & E3 & E4 & E5 & E6 & E7).
    constructor; [congruence|congruence|]. rewrite E7, E6, E1.
    destruct ((v_commit (l_node ls) <? v_latestIdx (l_node ls)) && (v_latestIdx (l_node ls) <=? cm_commit (l_cm ls))) eqn:B.
    + intros _. lia.
    + intros Hc. specialize (I3 Hc). lia.
  - destruct (append_config P (encode_cfg tab) ls fs q fid) as [[[ls1 res] tr] fs1] eqn:E. injection H as <- _ _.
    apply config_effect in E. destruct E as [->|(cfg & _ & E1 & E2 & E3 & _ & _ & E6 & E7 & _)]; [constructor; assumption|].
    constructor; [congruence|congruence|]. rewrite E3, E2. intros Hc. specialize (I3 Hc). lia.
  - destruct (restore_user P ls fs metaIdx data sizeOk) as [[[[ls1 code] res] tr] fs1] eqn:E. injection H as <- _ _.
    apply restore_effect in E. destruct E as ((C1 & C2 & C3 & C4 & C5) & S & _).
    constructor; [congruence|congruence|]. rewrite C4, C2, S. exact I3.
  - destruct (verify_leader P (l_node ls)) as [[[votes qq] now] peers]. injection H as <- _ _. constructor; assumption.
  - injection H as <- _ _. constructor; assumption.
  - injection H as <- _ _. constructor; assumption.
Qed.

Lemma term_step P tab ls vf o ls' vf' out :
  core_inv ls -> term_inv ls -> step_lop P tab ls vf o = (Some ls', vf', out) -> term_inv ls'.
Proof.
  intros [I1 I2 I3] T H. destruct o; unfold step_lop in H.
  - destruct (dispatch P ls fs reqs) as [[[ls1 res] tr] fs1] eqn:E. injection H as <- _ _.
    apply dispatch_effect in E. destruct E as (_ & _ & _ & L).
    intros i e Hi Hk. apply L in Hk. destruct Hk as [Hk|[Hk1 Hk2]]; [exact (T i e Hi Hk)|].
    apply number_logs_in in Hk2. destruct Hk2 as [Ht _]. split; congruence.
  - injection H as <- _ _. exact T.
  - destruct (leader_commit ls) as [[[ls1 tr] res]|] eqn:E; [|discriminate]. injection H as <- _ _.
    apply commit_effect in E. destruct E as (_ & E2 & _). intros i e Hi Hk. rewrite E2 in Hk. exact (T i e Hi Hk).
  - destruct (append_config P (encode_cfg tab) ls fs q fid) as [[[ls1 res] tr] fs1] eqn:E. injection H as <- _ _.
    apply config_effect in E. destruct E as [->|(cfg & _ & _ & _ & _ & _ & _ & _ & _ & L)]; [exact T|].
    intros i e Hi Hk. apply L in Hk. destruct Hk as [Hk|(Hk1 & Hk2 & _)]; [exact (T i e Hi Hk)|]. split; congruence.
  - destruct (restore_user P ls fs metaIdx data sizeOk) as [[[[ls1 code] res] tr] fs1] eqn:E. injection H as <- _ _.
    apply restore_effect in E. destruct E as (_ & _ & L). intros i e Hi Hk. apply L in Hk. exact (T i e Hi Hk).
  - destruct (verify_leader P (l_node ls)) as [[[votes qq] now] peers]. injection H as <- _ _. exact T.
  - injection H as <- _ _. exact T.
  - injection H as <- _ _. exact T.
Qed.

(* G1, from the core invariant alone *)
Lemma gate_open_committed ls :
  core_inv ls -> config_gate_open ls = true ->
  v_latestIdx (l_node ls) <= v_commit (l_node ls) /\ last0 + 1 <= v_commit (l_node ls).
Proof.
  intros [I1 I2 I3] G. unfold config_gate_open in G. apply andb_true_iff in G. destruct G as [G1 G2].
  apply N.eqb_eq in G1. apply N.leb_le in G2. rewrite I1 in G2. split; [|exact G2].
  destruct (N.le_gt_cases (v_committedIdx (l_node ls)) last0) as [Hle|Hgt]; [lia|].
  specialize (I3 Hgt). lia.
Qed.

Lemma cfg_step P tab ls vf o ls' vf' out :
  core_inv ls -> cfg_inv ls -> op_enabled ls o = true -> no_config_req o = true ->
  step_lop P tab ls vf o = (Some ls', vf', out) -> cfg_inv ls'.
Proof.
  intros I B En Nc H. pose proof I as [I1 I2 I3]. destruct o; unfold step_lop in H.
  - destruct (dispatch P ls fs reqs) as [[[ls1 res] tr] fs1] eqn:E. injection H as <- _ _.
    apply dispatch_effect in E. destruct E as ((C1 & C2 & C3 & C4 & C5) & S & M & L).
    intros k e Hk Ht Hi. apply L in Hk. destruct Hk as [Hk|[Hk1 Hk2]].
    + specialize (B k e Hk Ht Hi). rewrite C2, C3. destruct B as [B1 B2]. split; [exact B1|]. lia.
    + exfalso. apply number_logs_in in Hk2. destruct Hk2 as [_ (d & f & Hin)].
      simpl in Nc. rewrite forallb_forall in Nc. specialize (Nc _ Hin). simpl in Nc. rewrite Ht in Nc. discriminate.
  - injection H as <- _ _. unfold peer_match. nsimp. pose proof (commit_monotone (l_cm ls) (CMatch id idx)) as M.
    intros k e Hk Ht Hi. simpl in *. specialize (B k e Hk Ht Hi). destruct B as [B1 B2]. split; [exact B1|]. lia.
  - destruct (leader_commit ls) as [[[ls1 tr] res]|] eqn:E; [|discriminate]. injection H as <- _ _.
    apply commit_effect in E. destruct E as (E1 & E2 & E3 & E4 & E5 & E6 & E7).
    intros k e Hk Ht Hi. rewrite E2 in Hk. specialize (B k e Hk Ht Hi). rewrite E6, E5, E1.
    destruct B as [B1 B2]. split; [exact B1|]. lia.
  - destruct (append_config P (encode_cfg tab) ls fs q fid) as [[[ls1 res] tr] fs1] eqn:E. injection H as <- _ _.
    apply config_effect in E. destruct E as [->|(cfg & _ & E1 & E2 & E3 & E4 & E5 & E6 & E7 & L)]; [exact B|].
    unfold op_enabled in En. apply andb_true_iff in En. destruct En as [_ G].
    pose proof (gate_open_committed ls I G) as [G1 G2].
    unfold config_gate_open in G. apply andb_true_iff in G. destruct G as [Ge _]. apply N.eqb_eq in Ge.
    intros k e Hk Ht Hi. apply L in Hk. destruct Hk as [Hk|(Hk1 & Hk2 & Hk3)].
    + specialize (B k e Hk Ht Hi). destruct B as [B1 B2]. split; [exact B1|]. left. rewrite E2.
      destruct B2 as [B2|B2]; [lia|].
      assert (Hc : last0 < v_committedIdx (l_node ls)) by lia. specialize (I3 Hc). lia.
    + split; [congruence|]. right. congruence.
  - destruct (restore_user P ls fs metaIdx data sizeOk) as [[[[ls1 code] res] tr] fs1] eqn:E. injection H as <- _ _.
    apply restore_effect in E. destruct E as ((C1 & C2 & C3 & C4 & C5) & S & L).
    intros k e Hk Ht Hi. apply L in Hk. specialize (B k e Hk Ht Hi). rewrite C2, C3, S. exact B.
  - destruct (verify_leader P (l_node ls)) as [[[votes qq] now] peers]. injection H as <- _ _. exact B.
  - injection H as <- _ _. exact B.
  - injection H as <- _ _. exact B.
Qed.

(* ---------------------------------------------------------------- along a run *)
Lemma run_inv (Inv : lstate -> Prop) (okb : lop -> bool) P tab :
  (forall ls vf o ls' vf' out, Inv ls -> op_enabled ls o = true -> okb o = true ->
     step_lop P tab ls vf o = (Some ls', vf', out) -> Inv ls') ->
  forall ops ls vf ls' vf', forallb okb ops = true -> Inv ls ->
    leader_run P tab ls vf ops = Some (ls', vf') -> Inv ls'.
Proof.
  intros Hstep. induction ops as [|o r IH]; intros ls vf ls' vf' Hok Hi Hr; simpl in Hr.
  - injection Hr as <- _. exact Hi.
  - simpl in Hok. apply andb_true_iff in Hok. destruct Hok as [Ho Hok].
    destruct (op_enabled ls o) eqn:En; [|discriminate].
    destruct (step_lop P tab ls vf o) as [[[ls1|] vf1] out] eqn:Es; [|discriminate].
    eapply IH; [exact Hok| |exact Hr]. eapply Hstep; eassumption.
Qed.

Lemma forallb_true_all {A} (l : list A) : forallb (fun _ => true) l = true.
Proof. induction l; simpl; auto. Qed.

Lemma run_core P tab ops ls vf ls' vf' :
  core_inv ls -> leader_run P tab ls vf ops = Some (ls', vf') -> core_inv ls'.
Proof.
  intros Hi Hr. eapply (run_inv core_inv (fun _ => true) P tab); [|apply forallb_true_all|exact Hi|exact Hr].
  intros ls0 vf0 o ls1 vf1 out I _ _ Hs. eapply core_step; eassumption.
Qed.

Lemma run_term P tab ops ls vf ls' vf' :
  core_inv ls -> term_inv ls -> leader_run P tab ls vf ops = Some (ls', vf') -> core_inv ls' /\ term_inv ls'.
Proof.
  intros Hi Ht Hr.
  eapply (run_inv (fun x => core_inv x /\ term_inv x) (fun _ => true) P tab); [|apply forallb_true_all|split; eassumption|exact Hr].
  intros ls0 vf0 o ls1 vf1 out [I T] _ _ Hs. split; [eapply core_step; eassumption|eapply term_step; eassumption].
Qed.

Lemma run_cfg P tab ops ls vf ls' vf' :
  forallb no_config_req ops = true ->
  core_inv ls -> cfg_inv ls -> leader_run P tab ls vf ops = Some (ls', vf') -> core_inv ls' /\ cfg_inv ls'.
Proof.
  intros Hn Hi Hc Hr.
  eapply (run_inv (fun x => core_inv x /\ cfg_inv x) no_config_req P tab); [|exact Hn|split; eassumption|exact Hr].
  intros ls0 vf0 o ls1 vf1 out [I T] En Nc Hs. split; [eapply core_step; eassumption|eapply cfg_step; eassumption].
Qed.

End Inv.

Lemma core_inv_setup s0 : leader_start_ok s0 -> core_inv (last_index s0) (v_term s0) (leader_setup s0).
Proof.
  intros (_ & H1 & H2). constructor; [reflexivity|reflexivity|]. simpl. intros Hc. lia.
Qed.
