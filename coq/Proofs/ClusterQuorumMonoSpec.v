(* ClusterQuorumMonoSpec.v — the variant of commit_monotone_step (Proofs/ClusterQuorumSpec.v) that holds.

   commit_monotone_step as stated is FALSE for this model (Proofs/ClusterQuorumMonoCex.v): the model
   restarts a server not only by the label GInput w NRestart.  A step that runs an RPC handler at a
   server (LDeliver: appendEntries; GVoteReq, GInput (NVote ..): requestVote; GInput NSnapshot:
   takeSnapshot) carries a crash cut and store failures; when the cut is reached, or the handler
   panics, NodeCodec.finish lets the process die INSIDE the handler and boots it again from its durable
   image in the same step (observation OLost; the answer is lost).  NewRaft starts with commitIndex 0
   (RestoreCommittedLogs is off: cinit_ok), so the server runs before and after the step and its commit
   index fell to 0.

   What is changed against commit_monotone_step: one more exception, and nothing else -
   dies_in_handler g l w: the step l runs a handler at server w and that run ends with observation
   OLost (= the process died in it: crash cut reached or panic).  Whether this happens is a function
   of the state and the label (handler_of, step_full), so the exception is exactly "the step restarts
   that very server", by label (is_restart_of) or by a crash inside its handler. *)
From Coq Require Import List NArith Bool Lia.
From stdpp Require Import gmap.
From RaftModel Require Import Base Config Compaction Commitment Node NodeCodec Candidate Leader Replicate Cluster ClusterLog ClusterCommit.
From RaftProofs Require Import ClusterCommitSpec ClusterQuorumSpec.
Open Scope N_scope.

(* the handler a step runs: at which server, which event, crash cut, store failures *)
Definition handler_of (g : cgstate) (l : clabel) : option (N * nevent * N * list bool) :=
  match l with
  | CBase (LElect (GVoteReq i j cut fs)) =>
    match find_node (cnodes g) i with
    | Some ni => match gn_sess ni with Some se => Some (j, NVote (se_req se), cut, fs) | None => None end
    | None => None
    end
  | CBase (LElect (GInput j e cut fs)) => Some (j, e, cut, fs)
  | CBase (LDeliver k cut fs) =>
    match nth_error (lg_msgs (cg_l g)) k with
    | Some m => Some (am_to m, NAppend (am_req m), cut, fs)
    | None => None
    end
  | _ => None
  end.

Definition dies_in_handler (g : cgstate) (l : clabel) (w : N) : Prop :=
  exists n e cut fs r' out,
    handler_of g l = Some (w, e, cut, fs) /\ find_node (cnodes g) w = Some n /\
    step_full (gn_P n) (gn_run n) e cut fs = (r', OLost, out).

Definition commit_monotone_step_crash (g : cgstate) (l : clabel) (g' : cgstate) : Prop :=
  forall n n' s s', In n (cnodes g) -> In n' (cnodes g') -> gn_id n = gn_id n' ->
    gn_run n = Up s -> gn_run n' = Up s' ->
    v_commit s <= v_commit s' \/ is_restart_of l (gn_id n) \/ dies_in_handler g l (gn_id n).
