(* Proofs about Model/Commitment.v *)
From Coq Require Import List NArith Bool Lia Sorted Permutation Arith.
From stdpp Require Import gmap.
From RaftModel Require Import Base Config Commitment.
Open Scope N_scope.
Ltac Zify.zify_post_hook ::= Z.div_mod_to_equations.

Definition count_ge (q : N) (l : list N) : nat := length (List.filter (fun m => q <=? m) l).

(* ---------- insertion sort ---------- *)
Lemma insert_sorted_perm x l : Permutation (insert_sorted x l) (x :: l).
Proof.
  induction l as [|y r IH]; simpl; [reflexivity|].
  destruct (x <=? y); [reflexivity|].
  rewrite IH. apply perm_swap.
Qed.

Lemma sort_N_perm l : Permutation (sort_N l) l.
Proof.
  induction l as [|x r IH]; simpl; [reflexivity|].
  rewrite insert_sorted_perm. constructor. exact IH.
Qed.

Lemma insert_sorted_sorted x l :
  StronglySorted N.le l -> StronglySorted N.le (insert_sorted x l).
Proof.
  induction l as [|y r IH]; simpl; intros Hs.
  - constructor; constructor.
  - destruct (N.leb_spec x y) as [Hle|Hgt].
    + constructor; [exact Hs|]. inversion Hs; subst.
      constructor; [exact Hle|].
      eapply Forall_impl; [|eassumption]. intros a Ha. simpl in Ha. lia.
    + inversion Hs as [|? ? Hr Hall]; subst. constructor; [apply IH; exact Hr|].
      eapply Permutation_Forall; [symmetry; apply insert_sorted_perm|].
      constructor; [lia|exact Hall].
Qed.

Lemma sort_N_sorted l : StronglySorted N.le (sort_N l).
Proof.
  induction l as [|x r IH]; simpl; [constructor|]. apply insert_sorted_sorted, IH.
Qed.

Lemma count_ge_perm q l l' : Permutation l l' -> count_ge q l = count_ge q l'.
Proof.
  unfold count_ge. induction 1; simpl; try lia.
  - destruct (q <=? x); simpl; lia.
  - destruct (q <=? x), (q <=? y); simpl; lia.
Qed.

Lemma count_ge_le_length q l : (count_ge q l <= length l)%nat.
Proof.
  unfold count_ge. induction l as [|x r IH]; simpl; [lia|]. destruct (q <=? x); simpl; lia.
Qed.

Lemma count_ge_all q l : Forall (fun m => q <= m) l -> count_ge q l = length l.
Proof.
  unfold count_ge. induction 1 as [|x r Hx _ IH]; simpl; [reflexivity|].
  destruct (N.leb_spec q x); simpl; lia.
Qed.

Lemma sorted_nth_ge x r k :
  Forall (fun m => x <= m) r -> (k < length r)%nat -> x <= nth k r 0.
Proof.
  intros Hall Hk. rewrite Forall_forall in Hall. apply Hall. apply nth_In. exact Hk.
Qed.

(* at least (n - k) elements are >= the k-th smallest *)
Lemma sorted_count_ge_lower s : StronglySorted N.le s ->
  forall k, (k < length s)%nat -> (length s - k <= count_ge (nth k s 0%N) s)%nat.
Proof.
  induction 1 as [|x r Hr IH Hall]; intros k Hk; simpl in *; [lia|].
  destruct k as [|k'].
  - assert (count_ge x (x :: r) = length (x :: r)) as ->.
    { apply count_ge_all. constructor; [lia|exact Hall]. }
    simpl. lia.
  - assert (Hk' : (k' < length r)%nat) by lia. specialize (IH k' Hk').
    unfold count_ge in *. simpl. destruct (nth k' r 0 <=? x); simpl; lia.
Qed.

(* at most (n - k - 1) elements are >= anything above the k-th smallest *)
Lemma sorted_count_ge_upper s : StronglySorted N.le s ->
  forall k i, (k < length s)%nat -> nth k s 0 < i -> (count_ge i s <= length s - k - 1)%nat.
Proof.
  induction 1 as [|x r Hr IH Hall]; intros k i Hk Hi; simpl in *; [lia|].
  destruct k as [|k'].
  - pose proof (count_ge_le_length i r). unfold count_ge in *. simpl.
    destruct (N.leb_spec i x); simpl; lia.
  - assert (Hk' : (k' < length r)%nat) by lia.
    pose proof (sorted_nth_ge x r k' Hall Hk') as Hx.
    specialize (IH k' i Hk' Hi). unfold count_ge in *. simpl.
    destruct (N.leb_spec i x); simpl; lia.
Qed.

(* ---------- the median-of-sorted index is the quorum index ---------- *)
Definition quorum_idx_of (vals : list N) : N :=
  let s := sort_N vals in nth ((length s - 1) / 2)%nat s 0.

Theorem quorum_index_spec vals : vals <> [] ->
  let q := quorum_idx_of vals in
  (2 * count_ge q vals > length vals)%nat /\
  (forall i, q < i -> (2 * count_ge i vals <= length vals)%nat).
Proof.
  intros Hne. unfold quorum_idx_of.
  pose proof (sort_N_perm vals) as Hp. pose proof (sort_N_sorted vals) as Hs.
  pose proof (Permutation_length Hp) as Hl.
  set (s := sort_N vals) in *.
  assert (Hn : (0 < length s)%nat).
  { rewrite Hl. destruct vals; [congruence|simpl; lia]. }
  set (k := ((length s - 1) / 2)%nat).
  assert (Hk : (k < length s)%nat).
  { subst k. pose proof (Nat.div_le_upper_bound (length s - 1) 2 (length s - 1)). lia. }
  split.
  - rewrite <- (count_ge_perm _ _ _ Hp). pose proof (sorted_count_ge_lower s Hs k Hk). subst k. lia.
  - intros i Hi. rewrite <- (count_ge_perm _ _ _ Hp).
    pose proof (sorted_count_ge_upper s Hs k i Hk Hi). subst k. lia.
Qed.

(* ---------- the state machine ---------- *)
Definition quorum_ok (m : gmap N N) (q : N) : Prop :=
  (2 * count_ge q (match_vals m) > size m)%nat.

Lemma size_match_vals (m : gmap N N) : size m = length (match_vals m).
Proof. unfold match_vals. rewrite map_length. reflexivity. Qed.

Lemma quorum_match_ok m : size m <> 0%nat -> quorum_ok m (quorum_match m).
Proof.
  intros Hs. unfold quorum_ok, quorum_match. rewrite size_match_vals in *.
  apply (quorum_index_spec (match_vals m)). intros E. rewrite E in Hs. simpl in Hs. lia.
Qed.

Lemma quorum_match_max m i : size m <> 0%nat -> quorum_match m < i -> ~ quorum_ok m i.
Proof.
  intros Hs Hi. unfold quorum_ok. rewrite size_match_vals in *.
  assert (Hne : match_vals m <> []) by (intros E; rewrite E in Hs; simpl in Hs; lia).
  pose proof (proj2 (quorum_index_spec (match_vals m) Hne) i Hi). lia.
Qed.

Lemma recalculate_spec c :
  let c' := recalculate c in
  cm_match c' = cm_match c /\ cm_start c' = cm_start c /\
  (cm_commit c' = cm_commit c \/
   (cm_commit c < cm_commit c' /\ cm_start c <= cm_commit c' /\ quorum_ok (cm_match c) (cm_commit c'))).
Proof.
  unfold recalculate. destruct (Nat.eqb_spec (size (cm_match c)) 0) as [Hz|Hnz]; simpl.
  - auto.
  - destruct (N.ltb_spec (cm_commit c) (quorum_match (cm_match c))) as [Hlt|Hge]; simpl; [|auto].
    destruct (N.leb_spec (cm_start c) (quorum_match (cm_match c))) as [Hle|Hgt]; simpl; [|auto].
    split; [reflexivity|]. split; [reflexivity|]. right.
    split; [exact Hlt|]. split; [exact Hle|]. apply quorum_match_ok. exact Hnz.
Qed.

Lemma cm_step_spec c o :
  let c' := cm_step c o in
  cm_start c' = cm_start c /\
  (cm_commit c' = cm_commit c \/
   (cm_commit c < cm_commit c' /\ cm_start c <= cm_commit c' /\ quorum_ok (cm_match c') (cm_commit c'))).
Proof.
  destruct o as [id idx|cfg]; simpl.
  - destruct (cm_match c !! id) as [prev|]; [|auto].
    destruct (prev <? idx); [|auto].
    match goal with |- context [recalculate ?x] => pose proof (recalculate_spec x) as H end.
    simpl in H. destruct H as (Hm & Hst & Hc). rewrite Hm. auto.
  - match goal with |- context [recalculate ?x] => pose proof (recalculate_spec x) as H end.
    simpl in H. destruct H as (Hm & Hst & Hc). rewrite Hm. auto.
Qed.

Theorem commit_monotone c o : cm_commit c <= cm_commit (cm_step c o).
Proof. pose proof (cm_step_spec c o) as [_ [H|H]]; lia. Qed.

Lemma cm_run_start c ops : cm_start (cm_run c ops) = cm_start c.
Proof.
  revert c. induction ops as [|o r IH]; intros c; simpl; [reflexivity|].
  unfold cm_run in *. rewrite IH. apply cm_step_spec.
Qed.

Theorem commit_run_monotone c ops : cm_commit c <= cm_commit (cm_run c ops).
Proof.
  revert c. induction ops as [|o r IH]; intros c; simpl; [lia|].
  unfold cm_run in *. pose proof (commit_monotone c o). specialize (IH (cm_step c o)). lia.
Qed.

Lemma cm_run_snoc c ops o : cm_run c (ops ++ [o]) = cm_step (cm_run c ops) o.
Proof. unfold cm_run. rewrite fold_left_app. reflexivity. Qed.

(* Whatever the configuration changes and match reports, a non-zero commit index is at or
   above startIndex and was, at the moment it was set, matched by a strict majority of the
   voter slots then in force. *)
Theorem commit_sound cfg start ops :
  let c := cm_run (cm_new cfg start) ops in
  cm_commit c = 0 \/
  (start <= cm_commit c /\
   exists k, (k <= length ops)%nat /\
     quorum_ok (cm_match (cm_run (cm_new cfg start) (firstn k ops))) (cm_commit c)).
Proof.
  induction ops as [|o ops IH] using rev_ind; simpl.
  - left. reflexivity.
  - rewrite cm_run_snoc. simpl in IH.
    pose proof (cm_step_spec (cm_run (cm_new cfg start) ops) o) as [Hst [Heq|(Hlt & Hle & Hq)]].
    + rewrite Heq. destruct IH as [IH|(Hs & k & Hk & Hq)]; [left; exact IH|right].
      split; [exact Hs|]. exists k. split; [rewrite app_length; simpl; lia|].
      rewrite firstn_app. replace (k - length ops)%nat with 0%nat by lia.
      simpl. rewrite app_nil_r. exact Hq.
    + right. rewrite cm_run_start in Hle. simpl in Hle. split; [exact Hle|].
      exists (length (ops ++ [o])). split; [lia|].
      rewrite firstn_all. rewrite cm_run_snoc. exact Hq.
Qed.

(* ---------- only voters are counted, each once ---------- *)
Lemma voter_slots_lookup cfg old : forall id,
  is_Some (voter_slots cfg old !! id) <-> In id (voters cfg).
Proof.
  unfold voter_slots, voters.
  assert (G : forall (acc : gmap N N) id,
    is_Some (fold_left (fun m s => if is_voter s then <[ s_id s := default 0 (old !! s_id s) ]> m else m) cfg acc !! id)
    <-> (is_Some (acc !! id) \/ In id (map s_id (List.filter is_voter cfg)))).
  { induction cfg as [|s r IH]; intros acc id; simpl.
    - tauto.
    - rewrite IH. destruct (is_voter s) eqn:Hv; simpl; [|tauto].
      destruct (N.eq_dec (s_id s) id) as [E|Hne].
      + rewrite E. rewrite lookup_insert. split; [intros _; right; left; reflexivity|intros _; left; eauto].
      + rewrite lookup_insert_ne by exact Hne. tauto. }
  intros id. rewrite G. rewrite lookup_empty. split; [intros [[x Hx]|H]; [discriminate|exact H]|tauto].
Qed.

Fixpoint cfg_in_force (cfg : config) (ops : list cop) : config :=
  match ops with
  | [] => cfg
  | CSetCfg c :: r => cfg_in_force c r
  | _ :: r => cfg_in_force cfg r
  end.

Lemma recalculate_match c : cm_match (recalculate c) = cm_match c.
Proof. apply recalculate_spec. Qed.

Theorem slots_are_voters ops : forall cfg c,
  (forall id, is_Some (cm_match c !! id) <-> In id (voters cfg)) ->
  forall id, is_Some (cm_match (cm_run c ops) !! id) <-> In id (voters (cfg_in_force cfg ops)).
Proof.
  induction ops as [|o r IH]; intros cfg c Hc id; simpl; [apply Hc|].
  unfold cm_run in *. simpl. destruct o as [i x|cfg'].
  - apply IH. intros id'. simpl. rewrite <- Hc.
    destruct (cm_match c !! i) as [prev|] eqn:Hp; [|reflexivity].
    destruct (prev <? x); [|reflexivity].
    rewrite recalculate_match. simpl.
    destruct (N.eq_dec i id') as [->|Hne].
    + rewrite lookup_insert, Hp. split; eauto.
    + rewrite lookup_insert_ne by exact Hne. reflexivity.
  - apply IH. intros id'. simpl. rewrite recalculate_match. simpl. apply voter_slots_lookup.
Qed.

Theorem only_voters_counted cfg start ops id :
  is_Some (cm_match (cm_run (cm_new cfg start) ops) !! id) <-> In id (voters (cfg_in_force cfg ops)).
Proof. apply slots_are_voters. intros id'. apply voter_slots_lookup. Qed.

(* a report for a server without a slot (non-voter, staging, removed, unknown) changes nothing *)
Theorem match_nonvoter_ignored c id idx : cm_match c !! id = None -> cm_step c (CMatch id idx) = c.
Proof. intros H. simpl. rewrite H. reflexivity. Qed.

(* a slot only ever holds 0 or an index reported for that very server *)
Lemma voter_slots_value cfg old id v :
  voter_slots cfg old !! id = Some v -> v = 0 \/ old !! id = Some v.
Proof.
  unfold voter_slots.
  assert (G : forall (acc : gmap N N),
    fold_left (fun m s => if is_voter s then <[ s_id s := default 0 (old !! s_id s) ]> m else m) cfg acc !! id = Some v ->
    acc !! id = Some v \/ v = 0 \/ old !! id = Some v).
  { induction cfg as [|s r IH]; intros acc; simpl; [auto|].
    intros H. apply IH in H. destruct H as [H|H]; [|auto].
    destruct (is_voter s); [|auto].
    destruct (N.eq_dec (s_id s) id) as [E|Hne].
    - rewrite E in H. rewrite lookup_insert in H. inversion H. destruct (old !! id); simpl; auto.
    - rewrite lookup_insert_ne in H by exact Hne. auto. }
  intros H. apply G in H. rewrite lookup_empty in H. destruct H as [H|H]; [discriminate|exact H].
Qed.

Theorem slot_values_reported ops : forall c id v,
  cm_match (cm_run c ops) !! id = Some v ->
  v = 0 \/ cm_match c !! id = Some v \/ In (CMatch id v) ops.
Proof.
  induction ops as [|o r IH]; intros c id v H; simpl in *; [auto|].
  unfold cm_run in *. simpl in H. apply IH in H.
  destruct H as [H|[H|H]]; [auto| |auto].
  destruct o as [i x|cfg]; simpl in H.
  - destruct (cm_match c !! i) as [prev|] eqn:Hp; [|auto].
    destruct (prev <? x); [|auto].
    rewrite recalculate_match in H. simpl in H.
    destruct (N.eq_dec i id) as [->|Hne].
    + rewrite lookup_insert in H. inversion H; subst. right. right. left. reflexivity.
    + rewrite lookup_insert_ne in H by exact Hne. auto.
  - rewrite recalculate_match in H. simpl in H. apply voter_slots_value in H.
    destruct H; auto.
Qed.

(* ---------- follower side ---------- *)
Theorem follower_commit_spec commit lc ln last :
  let c' := follower_commit commit lc ln last in
  commit <= c' /\ (c' = commit \/ (c' <= lc /\ c' <= ln /\ c' <= last)).
Proof.
  unfold follower_commit.
  destruct (N.ltb_spec 0 lc); destruct (N.ltb_spec commit lc); simpl; try (split; [lia|left; reflexivity]).
  cbv zeta. destruct (N.ltb_spec commit (N.min lc (N.min ln last))).
  - split; [lia|right; lia].
  - split; [lia|left; reflexivity].
Qed.

(* the current-term rule (Figure 8): entries below startIndex on a majority do not commit *)
Theorem current_term_rule c o : cm_commit (cm_step c o) <> cm_commit c -> cm_start c <= cm_commit (cm_step c o).
Proof. intros H. pose proof (cm_step_spec c o) as [_ [E|(_ & Hle & _)]]; [congruence|exact Hle]. Qed.
